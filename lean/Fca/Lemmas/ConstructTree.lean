/-
  Fca.Lemmas.ConstructTree — `construct_spanning_tree` builds a tree rooted at the greatest concept
  whose edges are strict inclusions, and `_get_chains` decomposes it into root-to-node chains that
  cover all indexes.
-/
import Fca.Lemmas.ConstructBasic
namespace Fca.Construct
open Fca.Spec

/-- what the tree / chain routines need of the listing order -/
structure SortViewOK (n : Nat) (sv : SortView) : Prop where
  perm : sv.isortI.Perm (List.range n)
  pos_isortI : ∀ k, k < n → sv.pos (sv.isortI.getD k 0) = k

namespace SortViewOK
variable {n : Nat} {sv : SortView}

theorem length (h : SortViewOK n sv) : sv.isortI.length = n := by
  have := h.perm.length_eq; simpa using this

theorem nodup (h : SortViewOK n sv) : sv.isortI.Nodup := h.perm.nodup_iff.mpr List.nodup_range

theorem mem_iff (h : SortViewOK n sv) {i : Nat} : i ∈ sv.isortI ↔ i < n := by
  rw [h.perm.mem_iff, List.mem_range]

theorem getD_lt (h : SortViewOK n sv) {k : Nat} (hk : k < n) : sv.isortI.getD k 0 < n := by
  apply h.mem_iff.mp
  rw [List.getD_eq_getElem?_getD, List.getElem?_eq_getElem (by rw [h.length]; exact hk)]
  exact List.getElem_mem _

theorem exists_pos (h : SortViewOK n sv) {i : Nat} (hi : i < n) :
    ∃ k, k < n ∧ sv.isortI.getD k 0 = i := by
  have hm := h.mem_iff.mpr hi
  obtain ⟨k, hk, hki⟩ := List.getElem_of_mem hm
  refine ⟨k, by rw [← h.length]; exact hk, ?_⟩
  rw [List.getD_eq_getElem?_getD, List.getElem?_eq_getElem hk]; exact hki

/-- `pos i = 0` singles out the root -/
theorem pos_eq_zero (h : SortViewOK n sv) {i : Nat} (hi : i < n) :
    sv.pos i = 0 ↔ i = sv.isortI.getD 0 0 := by
  obtain ⟨k, hk, hki⟩ := h.exists_pos hi
  have hp := h.pos_isortI k hk
  rw [hki] at hp
  constructor
  · intro h0; rw [h0] at hp; rw [← hp] at hki; exact hki.symm
  · intro h0
    have h1 := h.pos_isortI 0 (by omega)
    rw [← h0] at h1; exact h1

end SortViewOK

theorem sortViewOK_sorted (cs : List Ext) : SortViewOK cs.length (sortView cs true) := by
  refine ⟨List.Perm.refl _, ?_⟩
  intro k hk
  simp [sortView, List.getD_eq_getElem?_getD, hk]

theorem sortViewOK_unsorted (cs : List Ext) : SortViewOK cs.length (sortView cs false) := by
  have hp : (sortedIdx cs).Perm (List.range cs.length) := perm_sortBy _ _
  have hnd : (sortedIdx cs).Nodup := hp.nodup_iff.mpr List.nodup_range
  have hlen : (sortedIdx cs).length = cs.length := by simpa using hp.length_eq
  refine ⟨hp, ?_⟩
  intro k hk
  have hk' : k < (sortedIdx cs).length := by rw [hlen]; exact hk
  simp only [sortView, Bool.false_eq_true, if_false, posIn]
  rw [List.getD_eq_getElem?_getD, List.getElem?_eq_getElem hk']
  exact hnd.idxOf_getElem k hk'

/-! ### the spanning tree -/

variable {n : Nat} {lt : Nat → Nat → Bool} {rank : Nat → Nat}

/-- invariant of `construct_spanning_tree` after the concepts in `placed` have been placed -/
structure TreeInv (n : Nat) (lt : Nat → Nat → Bool) (root : Nat) (placed : List Nat) (t : SpTree) : Prop where
  lenSub : t.sub.length = n
  lenSup : t.sup.length = n
  rootPlaced : root ∈ placed
  placedLt : ∀ c ∈ placed, c < n
  parent : ∀ c ∈ placed, c ≠ root →
    ∃ p, t.sup.getD c [] = [p] ∧ p ∈ placed ∧ lt c p = true ∧ c ∈ t.sub.getD p []
  child : ∀ p s, s ∈ t.sub.getD p [] → s ∈ placed ∧ s ≠ root ∧ t.sup.getD s [] = [p]
  rootSup : t.sup.getD root [] = []

theorem getD_replicate_nil {n i : Nat} : (List.replicate n ([] : List Nat)).getD i [] = [] := by
  rw [List.getD_eq_getElem?_getD]
  by_cases hi : i < n
  · simp [hi]
  · simp [hi]

theorem treeInv_init {root : Nat} (hr : root < n) :
    TreeInv n lt root [root] ⟨List.replicate n [], List.replicate n []⟩ := by
  refine ⟨by simp, by simp, by simp, ?_, ?_, ?_, ?_⟩
  · intro c hc; simp at hc; omega
  · intro c hc hne; simp at hc; exact absurd hc hne
  · intro p s hs; rw [getD_replicate_nil] at hs; cases hs
  · exact getD_replicate_nil

theorem treeInv_child_lt {root : Nat} {placed : List Nat} {t : SpTree} (inv : TreeInv n lt root placed t)
    {p s : Nat} (hs : s ∈ t.sub.getD p []) : lt s p = true ∧ s ∈ placed := by
  obtain ⟨h1, h2, h3⟩ := inv.child p s hs
  obtain ⟨q, hq, _, hlt, _⟩ := inv.parent s h1 h2
  rw [h3] at hq
  have : p = q := by simpa using hq
  subst this
  exact ⟨hlt, h1⟩

/-- the sift loop stops at a placed strict superconcept of `c` -/
theorem siftDown_ok (h : StrictOrd lt rank) (ord : List Nat → List Nat)
    (hord : ∀ xs x, x ∈ ord xs ↔ x ∈ xs) {root : Nat} {placed : List Nat} {t : SpTree}
    (inv : TreeInv n lt root placed t) (c : Nat) :
    ∀ fuel sup, sup ∈ placed → lt c sup = true → rank sup < fuel →
      ∃ s, siftDown lt ord t.sub c fuel sup = .ok s ∧ s ∈ placed ∧ lt c s = true := by
  intro fuel
  induction fuel with
  | zero => intro sup _ _ hf; omega
  | succ f ih =>
    intro sup hsup hlt hf
    unfold siftDown
    cases hfind : (ord (t.sub.getD sup [])).find? (fun s => lt c s) with
    | none => exact ⟨sup, rfl, hsup, hlt⟩
    | some s =>
      have hs_mem : s ∈ t.sub.getD sup [] := (hord _ _).mp (List.mem_of_find?_eq_some hfind)
      have hs_lt : lt c s = true := by simpa using List.find?_some hfind
      obtain ⟨hsp, hspl⟩ := treeInv_child_lt inv hs_mem
      have := h.rank_lt s sup hsp
      exact ih s hspl hs_lt (by omega)

theorem treeInv_place (h : StrictOrd lt rank) (ord : List Nat → List Nat)
    (hord : ∀ xs x, x ∈ ord xs ↔ x ∈ xs) {root : Nat} {placed : List Nat} {t : SpTree}
    (inv : TreeInv n lt root placed t) {c fuel : Nat} (hc : c < n) (hcp : c ∉ placed)
    (hroot : lt c root = true) (hf : rank root < fuel) :
    ∃ t', placeConcept lt ord fuel root t c = .ok t' ∧ TreeInv n lt root (placed ++ [c]) t' := by
  obtain ⟨s, hs, hsp, hcs⟩ := siftDown_ok h ord hord inv c fuel root inv.rootPlaced hroot hf
  unfold placeConcept
  rw [hs]
  refine ⟨_, rfl, ?_⟩
  have hsn : s < n := inv.placedLt s hsp
  have hsc : s ≠ c := fun e => hcp (e ▸ hsp)
  have hcr : c ≠ root := fun e => hcp (e ▸ inv.rootPlaced)
  have hsSub : s < t.sub.length := by rw [inv.lenSub]; exact hsn
  have hcSup : c < t.sup.length := by rw [inv.lenSup]; exact hc
  refine ⟨by simpa using inv.lenSub, by simpa using inv.lenSup, ?_, ?_, ?_, ?_, ?_⟩
  · exact List.mem_append_left _ inv.rootPlaced
  · intro x hx
    rcases List.mem_append.mp hx with hx | hx
    · exact inv.placedLt x hx
    · simp at hx; omega
  · intro x hx hxr
    rcases List.mem_append.mp hx with hx | hx
    · have hxc : x ≠ c := fun e => hcp (e ▸ hx)
      obtain ⟨p, hp1, hp2, hp3, hp4⟩ := inv.parent x hx hxr
      refine ⟨p, ?_, List.mem_append_left _ hp2, hp3, ?_⟩
      · simp only; rw [getD_set_ne hxc]; exact hp1
      · simp only
        by_cases hps : p = s
        · subst hps; rw [getD_set_self hsSub]; exact mem_addSet.mpr (Or.inl hp4)
        · rw [getD_set_ne hps]; exact hp4
    · have hxc : x = c := by simpa using hx
      subst hxc
      refine ⟨s, ?_, List.mem_append_left _ hsp, hcs, ?_⟩
      · simp only; exact getD_set_self hcSup
      · simp only; rw [getD_set_self hsSub]; exact mem_addSet.mpr (Or.inr rfl)
  · intro p x hx
    simp only at hx
    by_cases hps : p = s
    · subst hps
      rw [getD_set_self hsSub] at hx
      rcases mem_addSet.mp hx with hx | hx
      · obtain ⟨h1, h2, h3⟩ := inv.child p x hx
        have hxc : x ≠ c := fun e => hcp (e ▸ h1)
        refine ⟨List.mem_append_left _ h1, h2, ?_⟩
        simp only; rw [getD_set_ne hxc]; exact h3
      · subst hx
        refine ⟨List.mem_append_right _ (by simp), hcr, ?_⟩
        simp only; exact getD_set_self hcSup
    · rw [getD_set_ne hps] at hx
      obtain ⟨h1, h2, h3⟩ := inv.child p x hx
      have hxc : x ≠ c := fun e => hcp (e ▸ h1)
      refine ⟨List.mem_append_left _ h1, h2, ?_⟩
      simp only; rw [getD_set_ne hxc]; exact h3
  · simp only; rw [getD_set_ne (Ne.symm hcr)]; exact inv.rootSup

theorem treeInv_placeAll (h : StrictOrd lt rank) (ord : List Nat → List Nat)
    (hord : ∀ xs x, x ∈ ord xs ↔ x ∈ xs) {root fuel : Nat} (hf : rank root < fuel) :
    ∀ (rest placed : List Nat) (t : SpTree), TreeInv n lt root placed t →
      (placed ++ rest).Nodup → (∀ c ∈ rest, c < n ∧ lt c root = true) →
      ∃ t', placeAll lt ord fuel root t rest = .ok t' ∧ TreeInv n lt root (placed ++ rest) t' := by
  intro rest
  induction rest with
  | nil => intro placed t inv _ _; exact ⟨t, rfl, by simpa using inv⟩
  | cons c rest ih =>
    intro placed t inv hnd hall
    have hcp : c ∉ placed := by
      intro hc
      have := (List.nodup_append.mp hnd).2.2 c hc c (List.mem_cons_self ..)
      exact this rfl
    obtain ⟨hc, hcr⟩ := hall c (List.mem_cons_self ..)
    obtain ⟨t1, ht1, inv1⟩ := treeInv_place h ord hord inv hc hcp hcr hf
    unfold placeAll
    rw [ht1]
    have hnd' : ((placed ++ [c]) ++ rest).Nodup := by simpa using hnd
    obtain ⟨t2, ht2, inv2⟩ := ih (placed ++ [c]) t1 inv1 hnd'
      (fun x hx => hall x (List.mem_cons_of_mem _ hx))
    exact ⟨t2, ht2, by simpa using inv2⟩

/-- `construct_spanning_tree`: every non-root index has exactly one parent, a strict superconcept -/
theorem constructSpanningTree_ok (h : StrictOrd lt rank) (ord : List Nat → List Nat)
    (hord : ∀ xs x, x ∈ ord xs ↔ x ∈ xs) {sv : SortView} (hsv : SortViewOK n sv) {top fuel : Nat}
    (hn : 0 < n) (hroot : sv.isortI.getD 0 0 = top) (htop : ∀ j, j < n → j ≠ top → lt j top = true)
    (hf : rank top < fuel) :
    ∃ t, constructSpanningTree n lt sv ord fuel = .ok t ∧ TreeInv n lt top sv.isortI t := by
  unfold constructSpanningTree
  have hlen := hsv.length
  cases hI : sv.isortI with
  | nil => rw [hI] at hlen; simp at hlen; omega
  | cons root rest =>
    have hr : root = top := by rw [hI] at hroot; simpa using hroot
    subst hr
    have hnd := hsv.nodup
    rw [hI] at hnd
    have hrn : root < n := hsv.mem_iff.mp (by rw [hI]; exact List.mem_cons_self ..)
    have hall : ∀ c ∈ rest, c < n ∧ lt c root = true := by
      intro c hc
      have hcn : c < n := hsv.mem_iff.mp (by rw [hI]; exact List.mem_cons_of_mem _ hc)
      have hne : c ≠ root := by
        intro e; subst e
        exact (List.nodup_cons.mp hnd).1 hc
      exact ⟨hcn, htop c hcn hne⟩
    obtain ⟨t, ht, inv⟩ := treeInv_placeAll h ord hord hf rest [root] _ (treeInv_init hrn)
      (by simpa using hnd) hall
    exact ⟨t, ht, by simpa using inv⟩

/-! ### the chains -/

/-- a walk from a node up to the root, in walking order -/
def UpChain (lt : Nat → Nat → Bool) (supD : List (List Nat)) (n root : Nat) : List Nat → Prop
  | [] => False
  | [x] => x = root ∧ x < n
  | x :: y :: rest => supD.getD x [] = [y] ∧ lt x y = true ∧ x < n ∧ UpChain lt supD n root (y :: rest)

theorem minOf_singleton (p : Nat) : minOf [p] = .ok p := by
  simp [minOf, sortAsc, sortBy, insertBy]

theorem walkUp_ok (h : StrictOrd lt rank) {sv : SortView} (hsv : SortViewOK n sv) {top : Nat}
    {t : SpTree} (hroot : sv.isortI.getD 0 0 = top) (inv : TreeInv n lt top sv.isortI t)
    (htop : ∀ j, j < n → j ≠ top → lt j top = true) :
    ∀ fuel c, c < n → rank top < fuel + rank c →
      ∃ ch, walkUp t.sup sv.pos fuel c (sv.pos c) = .ok ch ∧ ch.head? = some c ∧
        UpChain lt t.sup n top ch := by
  intro fuel
  induction fuel with
  | zero =>
    intro c hc hf
    by_cases hct : c = top
    · subst hct; omega
    · have := h.rank_lt c top (htop c hc hct); omega
  | succ f ih =>
    intro c hc hf
    unfold walkUp
    by_cases hct : c = top
    · have hp : sv.pos c = 0 := (hsv.pos_eq_zero hc).mpr (by rw [hroot]; exact hct)
      simp only [hp, beq_self_eq_true, if_true]
      exact ⟨[c], rfl, rfl, hct, hc⟩
    · have hp : sv.pos c ≠ 0 := fun e => hct (by rw [← hroot]; exact (hsv.pos_eq_zero hc).mp e)
      have hbeq : (sv.pos c == 0) = false := by simpa using hp
      simp only [hbeq, Bool.false_eq_true, if_false]
      have hcs : c < t.sup.length := by rw [inv.lenSup]; exact hc
      rw [List.getElem?_eq_getElem hcs]
      obtain ⟨p, hp1, hp2, hp3, _⟩ := inv.parent c (hsv.mem_iff.mpr hc) hct
      have hget : t.sup[c] = [p] := by
        rw [List.getD_eq_getElem?_getD, List.getElem?_eq_getElem hcs] at hp1; simpa using hp1
      simp only [hget, minOf_singleton]
      have hpn : p < n := hsv.mem_iff.mp hp2
      have hr := h.rank_lt c p hp3
      obtain ⟨ch, hch, hhead, hup⟩ := ih p hpn (by omega)
      rw [hch]
      refine ⟨c :: ch, rfl, rfl, ?_⟩
      cases ch with
      | nil => simp at hhead
      | cons y rest =>
        have : y = p := by simpa using hhead
        subst this
        exact ⟨hp1, hp3, hc, hup⟩

theorem findUnvisited_some (isortI visited : List Nat) :
    ∀ k k' c, findUnvisited isortI visited k = some (k', c) →
      k' < k ∧ c = isortI.getD k' 0 ∧ c ∉ visited := by
  intro k
  induction k with
  | zero => intro k' c h; simp [findUnvisited] at h
  | succ k ih =>
    intro k' c h
    unfold findUnvisited at h
    simp only at h
    by_cases hc : visited.contains (isortI.getD k 0) = true
    · rw [if_pos hc] at h
      obtain ⟨h1, h2⟩ := ih k' c h
      exact ⟨by omega, h2⟩
    · rw [if_neg hc] at h
      simp only [Option.some.injEq, Prod.mk.injEq] at h
      obtain ⟨h1, h2⟩ := h
      subst h1; subst h2
      exact ⟨by omega, rfl, by simpa using hc⟩

theorem findUnvisited_none (isortI visited : List Nat) :
    ∀ k, findUnvisited isortI visited k = none → ∀ k', k' < k → isortI.getD k' 0 ∈ visited := by
  intro k
  induction k with
  | zero => intro _ k' hk'; omega
  | succ k ih =>
    intro h k' hk'
    unfold findUnvisited at h
    simp only at h
    by_cases hc : visited.contains (isortI.getD k 0) = true
    · rw [if_pos hc] at h
      by_cases e : k' = k
      · subst e; simpa using hc
      · exact ih h k' (by omega)
    · rw [if_neg hc] at h; cases h

theorem chainStepsOK_append {lt : Nat → Nat → Bool} {par : Nat → Option Nat} (l : List Nat) (p c : Nat) :
    chainStepsOK lt par (l ++ [p, c])
      = (chainStepsOK lt par (l ++ [p]) && ((par c == some p) && lt c p)) := by
  induction l with
  | nil => simp [chainStepsOK]
  | cons x xs ih =>
    cases xs with
    | nil => simp [chainStepsOK, Bool.and_assoc]
    | cons y ys =>
      simp only [List.cons_append, chainStepsOK] at ih ⊢
      rw [ih]; simp [Bool.and_assoc]

theorem parentOf_eq {supD : List (List Nat)} {x y : Nat} (h : supD.getD x [] = [y]) :
    parentOf supD x = some y := by
  unfold parentOf; rw [h]

theorem upChain_reverse {lt : Nat → Nat → Bool} {supD : List (List Nat)} {n root : Nat} :
    ∀ ch, UpChain lt supD n root ch →
      ch.reverse.head? = some root ∧ chainStepsOK lt (parentOf supD) ch.reverse = true ∧
      (∀ x ∈ ch, x < n) := by
  intro ch
  induction ch with
  | nil => intro h; cases h
  | cons x rest ih =>
    cases rest with
    | nil =>
      intro h
      obtain ⟨h1, h2⟩ := h
      subst h1
      refine ⟨by simp, by simp [chainStepsOK], ?_⟩
      intro y hy; simp at hy; subst hy; exact h2
    | cons y ys =>
      intro h
      obtain ⟨h1, h2, h3, h4⟩ := h
      obtain ⟨i1, i2, i3⟩ := ih h4
      refine ⟨?_, ?_, ?_⟩
      · rw [List.reverse_cons, List.head?_append]
        rw [i1]; rfl
      · have e : (x :: y :: ys).reverse = ys.reverse ++ [y, x] := by simp
        rw [e, chainStepsOK_append]
        have e2 : ys.reverse ++ [y] = (y :: ys).reverse := by simp
        rw [e2, i2, parentOf_eq h1, h2]; simp
      · intro z hz
        rcases List.mem_cons.mp hz with rfl | hz
        · exact h3
        · exact i3 z hz

/-- invariant of the outer loop of `_get_chains` -/
structure ChainsInv (n : Nat) (lt : Nat → Nat → Bool) (supD : List (List Nat)) (top : Nat)
    (visited : List Nat) (chains : List (List Nat)) : Prop where
  nodup : visited.Nodup
  ltn : ∀ x ∈ visited, x < n
  ok : ∀ ch ∈ chains, ch.head? = some top ∧ chainStepsOK lt (parentOf supD) ch = true ∧ ∀ x ∈ ch, x < n
  cover : ∀ x ∈ visited, ∃ ch ∈ chains, x ∈ ch

theorem chainsLoop_ok (h : StrictOrd lt rank) {sv : SortView} (hsv : SortViewOK n sv) {top : Nat}
    {t : SpTree} (hroot : sv.isortI.getD 0 0 = top) (inv : TreeInv n lt top sv.isortI t)
    (htop : ∀ j, j < n → j ≠ top → lt j top = true) {wfuel : Nat} (hw : rank top < wfuel) :
    ∀ fuel visited chains, ChainsInv n lt t.sup top visited chains → n < fuel + visited.length →
      ∃ chs, chainsLoop n t.sup sv wfuel fuel visited chains = .ok chs ∧
        ∃ vis, ChainsInv n lt t.sup top vis chs ∧ ∀ i, i < n → i ∈ vis := by
  intro fuel
  induction fuel with
  | zero =>
    intro visited chains ci hf
    -- more than `n` distinct indexes below `n` is impossible
    have := ci.nodup.length_le_of_subset (l₂ := List.range n)
      (fun x hx => List.mem_range.mpr (ci.ltn x hx))
    simp at this; omega
  | succ f ih =>
    intro visited chains ci hf
    unfold chainsLoop
    by_cases hlen : visited.length < n
    · simp only [hlen, if_true]
      cases hfu : findUnvisited sv.isortI visited n with
      | none =>
        have hspec := findUnvisited_none sv.isortI visited n hfu
        -- every index is visited, contradiction with `visited.length < n`
        have hsub : List.range n ⊆ visited := by
          intro i hi
          obtain ⟨k, hk, hki⟩ := hsv.exists_pos (List.mem_range.mp hi)
          rw [← hki]; exact hspec k hk
        have := (List.nodup_range (n := n)).length_le_of_subset hsub
        simp at this; omega
      | some r =>
        obtain ⟨k, c⟩ := r
        obtain ⟨hk, hc, hcv⟩ := findUnvisited_some sv.isortI visited n k c hfu
        have hcn : c < n := by rw [hc]; exact hsv.getD_lt hk
        have hpos : sv.pos c = k := by rw [hc]; exact hsv.pos_isortI k hk
        have hrk : rank c ≤ rank top := by
          by_cases e : c = top
          · subst e; exact Nat.le_refl _
          · exact Nat.le_of_lt (h.rank_lt c top (htop c hcn e))
        obtain ⟨ch, hch, hhead, hup⟩ := walkUp_ok h hsv hroot inv htop wfuel c hcn (by omega)
        simp only
        rw [← hpos, hch]
        obtain ⟨r1, r2, r3⟩ := upChain_reverse ch hup
        have hcch : c ∈ ch := by
          cases ch with
          | nil => simp at hhead
          | cons y ys => simp at hhead; subst hhead; exact List.mem_cons_self ..
        have ci' : ChainsInv n lt t.sup top (union visited ch) (chains ++ [ch.reverse]) := by
          refine ⟨nodup_union ci.nodup, ?_, ?_, ?_⟩
          · intro x hx
            rcases mem_union.mp hx with hx | hx
            · exact ci.ltn x hx
            · exact r3 x hx
          · intro c' hc'
            rcases List.mem_append.mp hc' with hc' | hc'
            · exact ci.ok c' hc'
            · have : c' = ch.reverse := by simpa using hc'
              subst this
              exact ⟨r1, r2, fun x hx => r3 x (List.mem_reverse.mp hx)⟩
          · intro x hx
            rcases mem_union.mp hx with hx | hx
            · obtain ⟨c', hc', hxc⟩ := ci.cover x hx
              exact ⟨c', List.mem_append_left _ hc', hxc⟩
            · exact ⟨ch.reverse, List.mem_append_right _ (by simp), List.mem_reverse.mpr hx⟩
        have hgrow := length_union_lt hcch hcv
        exact ih _ _ ci' (by omega)
    · simp only [hlen, if_false]
      refine ⟨chains, rfl, visited, ci, ?_⟩
      have hsub := nodup_subset_of_length_le ci.nodup
        (b := List.range n) (fun x hx => List.mem_range.mpr (ci.ltn x hx)) (by simp; omega)
      intro i hi
      exact hsub i (List.mem_range.mpr hi)

theorem chainsOK_of_inv {supD : List (List Nat)} {top : Nat} {vis : List Nat} {chs : List (List Nat)}
    (ci : ChainsInv n lt supD top vis chs) (hall : ∀ i, i < n → i ∈ vis) :
    chainsOK n lt (parentOf supD) top chs = true := by
  simp only [chainsOK, Bool.and_eq_true, List.all_eq_true, List.any_eq_true, List.mem_range,
    List.contains_eq_mem, decide_eq_true_eq, beq_iff_eq]
  refine ⟨?_, ?_⟩
  · intro ch hch
    obtain ⟨h1, h2, h3⟩ := ci.ok ch hch
    exact ⟨⟨h1, h2⟩, h3⟩
  · intro i hi
    exact ci.cover i (hall i hi)

/-- generic chain theorem: tree construction followed by `_get_chains` succeeds and yields chains with
    the chain property -/
theorem tree_chains_ok (h : StrictOrd lt rank) (ord : List Nat → List Nat)
    (hord : ∀ xs x, x ∈ ord xs ↔ x ∈ xs) {sv : SortView} (hsv : SortViewOK n sv) {top fuel : Nat}
    (hn : 0 < n) (hroot : sv.isortI.getD 0 0 = top) (htop : ∀ j, j < n → j ≠ top → lt j top = true)
    (hf : rank top < fuel) :
    ∃ t chs, constructSpanningTree n lt sv ord fuel = .ok t ∧ getChains n t.sup sv fuel = .ok chs ∧
      TreeInv n lt top sv.isortI t ∧ chainsOK n lt (parentOf t.sup) top chs = true := by
  obtain ⟨t, ht, inv⟩ := constructSpanningTree_ok h ord hord hsv hn hroot htop hf
  have ci0 : ChainsInv n lt t.sup top [] [] := ⟨List.nodup_nil, by simp, by simp, by simp⟩
  obtain ⟨chs, hchs, vis, ci, hall⟩ :=
    chainsLoop_ok h hsv hroot inv htop hf (n + 1) [] [] ci0 (by simp)
  exact ⟨t, chs, ht, hchs, inv, chainsOK_of_inv ci hall⟩

/-! ### instantiation on extent lists -/

theorem pairwise_sortedIdx (cs : List Ext) :
    (sortedIdx cs).Pairwise (fun a b => suppAt cs b ≤ suppAt cs a) := by
  unfold sortedIdx
  apply pairwise_sortBy
  · intro x y hxy
    simp only [sortKeyLe, Bool.or_eq_true, decide_eq_true_eq, Bool.and_eq_true, beq_iff_eq] at hxy
    unfold suppAt
    rcases hxy with h | h
    · omega
    · omega
  · intro x y hxy
    simp only [sortKeyLe, Bool.or_eq_false_iff, decide_eq_false_iff_not] at hxy
    unfold suppAt
    omega
  · intro x y z h1 h2; omega

/-- the list produced by `sort_concepts` starts with the greatest concept -/
theorem sortedIdx_head_top (cs : List Ext) (hnd : ExtsNodup cs) {top : Nat} (htop : IsTop cs top) :
    (sortedIdx cs).getD 0 0 = top := by
  have hsv := sortViewOK_unsorted cs
  have hI : (sortView cs false).isortI = sortedIdx cs := by simp [sortView]
  have hmem : top ∈ sortedIdx cs := by rw [← hI]; exact hsv.mem_iff.mpr htop.1
  have hpw := pairwise_sortedIdx cs
  cases hs : sortedIdx cs with
  | nil => rw [hs] at hmem; cases hmem
  | cons r rest =>
    rw [hs] at hmem hpw
    simp only [List.getD_cons_zero]
    rcases List.mem_cons.mp hmem with e | hin
    · exact e.symm
    · have hle := List.rel_of_pairwise_cons hpw hin
      have hrn : r < cs.length := by
        have : r ∈ (sortView cs false).isortI := by rw [hI, hs]; exact List.mem_cons_self ..
        exact hsv.mem_iff.mp this
      by_cases e : r = top
      · exact e
      · have hlt := htop.2 r hrn e
        rw [← ltAt_eq_ssubAt hnd] at hlt
        have := ltC_length hlt
        unfold suppAt at hle
        omega

theorem le_foldl_max (l : List Nat) (a : Nat) : a ≤ l.foldl max a ∧ ∀ x ∈ l, x ≤ l.foldl max a := by
  induction l generalizing a with
  | nil => simp
  | cons y ys ih =>
    simp only [List.foldl_cons]
    obtain ⟨h1, h2⟩ := ih (max a y)
    refine ⟨by omega, ?_⟩
    intro x hx
    rcases List.mem_cons.mp hx with rfl | hx
    · omega
    · exact h2 x hx

theorem suppAt_lt_walkFuel (cs : List Ext) (i : Nat) : suppAt cs i < walkFuel cs := by
  unfold suppAt walkFuel
  rw [List.getD_eq_getElem?_getD]
  cases hi : cs[i]? with
  | none => simp
  | some e =>
    have hm : e ∈ cs := List.mem_of_getElem? hi
    have := (le_foldl_max (cs.map List.length) 0).2 e.length (List.mem_map.mpr ⟨e, hm, rfl⟩)
    simp only [Option.getD_some]
    omega

end Fca.Construct

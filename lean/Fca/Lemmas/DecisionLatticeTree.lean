/-
  Lemmas for C20, part 3 — the tree side: parents recovered by the dictionaries, the root-to-leaf path
  (bounds, no repetition, the recursive characterisation "k on the path iff its parent is and the step at the
  parent goes to k"), node extents, and the inversion of `parse` / `fromDecisionTree`.
-/
import Fca.Model.DecisionLattice
import Fca.Lemmas.DecisionLattice
import Fca.Lemmas.DecisionLatticeTrace
namespace Fca.DL
open Fca

/-! ### parents -/

theorem dictLast_some {xs : List Int} {k p : Nat} (h : dictLast xs k = some p) : xs[p]? = some (k : Int) := by
  unfold dictLast at h
  have hm := List.mem_of_getLast? h
  have := (List.mem_filter.mp hm).2
  simpa using this

theorem parentOf_some {t : Tree} {k p : Nat} (h : parentOf t k = some p) :
    (t.right[p]? = some (k : Int) ∧ isLeftChild t k = isLeftChild t k) ∨ t.left[p]? = some (k : Int) := by
  unfold parentOf at h
  split at h
  · rename_i q hq
    cases h
    exact Or.inl ⟨dictLast_some hq, rfl⟩
  · exact Or.inr (dictLast_some h)

/-- all four arrays are defined at a node on which `wfNode` holds -/
theorem wfNode_lookups {t : Tree} {X : Rows} {m : Nat} {nxt : Rat → Rat} {i : Nat} (hw : wfNode t X m nxt i = true) :
    ∃ l r f thr, t.left[i]? = some l ∧ t.right[i]? = some r ∧ t.feature[i]? = some f ∧ t.threshold[i]? = some thr := by
  unfold wfNode at hw
  split at hw
  · rename_i l r f thr h1 h2 h3 h4
    exact ⟨l, r, f, thr, h1, h2, h3, h4⟩
  · cases hw

/-- a node with a child is internal -/
theorem internal_of_child {t : Tree} {X : Rows} {m : Nat} {nxt : Rat → Rat} {i : Nat} {l r f : Int} {thr : Rat}
    (hw : wfNode t X m nxt i = true)
    (h1 : t.left[i]? = some l) (h2 : t.right[i]? = some r) (h3 : t.feature[i]? = some f)
    (h4 : t.threshold[i]? = some thr) (hc : 0 ≤ l ∨ 0 ≤ r) : ¬ l = -1 := by
  simp only [wfNode, h1, h2, h3, h4] at hw
  simp only [Bool.or_eq_true, Bool.and_eq_true, beq_iff_eq, decide_eq_true_eq] at hw
  rcases hw with hw | hw
  · omega
  · obtain ⟨⟨⟨⟨⟨⟨⟨⟨⟨⟨⟨a1, _⟩, _⟩, _⟩, _⟩, _⟩, _⟩, _⟩, _⟩, _⟩, _⟩, _⟩ := hw
    omega

theorem wfNode_bounds {t : Tree} {X : Rows} {m : Nat} {nxt : Rat → Rat} {i : Nat} {l r f : Int} {thr : Rat}
    (hw : wfNode t X m nxt i = true)
    (h1 : t.left[i]? = some l) (h2 : t.right[i]? = some r) (h3 : t.feature[i]? = some f)
    (h4 : t.threshold[i]? = some thr) (hl : ¬ l = -1) : l < (t.n : Int) ∧ r < (t.n : Int) := by
  simp only [wfNode, h1, h2, h3, h4] at hw
  simp only [Bool.or_eq_true, Bool.and_eq_true, beq_iff_eq, decide_eq_true_eq] at hw
  rcases hw with hw | hw
  · exact absurd hw.1 hl
  · obtain ⟨⟨⟨⟨⟨⟨⟨⟨⟨⟨⟨_, a2⟩, _⟩, a4⟩, _⟩, _⟩, _⟩, _⟩, _⟩, _⟩, _⟩, _⟩ := hw
    exact ⟨a2, a4⟩

/-- what the well-formedness gives for a non-root node `k` whose dictionary parent is `p` -/
theorem node_of_parent {t : Tree} {X : Rows} {m : Nat} {nxt : Rat → Rat}
    (hlen : t.left.length = t.n) (hrlen : t.right.length = t.n)
    (hwf : ∀ i < t.n, wfNode t X m nxt i = true) {k p : Nat} (hp : parentOf t k = some p) :
    ∃ l r f thr, t.left[p]? = some l ∧ t.right[p]? = some r ∧ t.feature[p]? = some f ∧
      t.threshold[p]? = some thr ∧ ¬ l = -1 ∧ p < t.n ∧ p < k ∧ (k = l.toNat ∨ k = r.toNat) := by
  rcases parentOf_some hp with ⟨hr, _⟩ | hl
  · have hpn : p < t.n := by rw [← hrlen]; exact (List.getElem?_eq_some_iff.mp hr).1
    obtain ⟨l, r, f, thr, h1, h2, h3, h4⟩ := wfNode_lookups (hwf p hpn)
    have hrk : r = (k : Int) := by rw [h2] at hr; exact Option.some.inj hr
    have hl1 := internal_of_child (hwf p hpn) h1 h2 h3 h4 (Or.inr (by omega))
    obtain ⟨_, a3, _⟩ := wfNode_internal (hwf p hpn) h1 h2 h3 h4 hl1
    exact ⟨l, r, f, thr, h1, h2, h3, h4, hl1, hpn, by omega, Or.inr (by omega)⟩
  · have hpn : p < t.n := by rw [← hlen]; exact (List.getElem?_eq_some_iff.mp hl).1
    obtain ⟨l, r, f, thr, h1, h2, h3, h4⟩ := wfNode_lookups (hwf p hpn)
    have hlk : l = (k : Int) := by rw [h1] at hl; exact Option.some.inj hl
    have hl1 := internal_of_child (hwf p hpn) h1 h2 h3 h4 (Or.inl (by omega))
    obtain ⟨a1, _⟩ := wfNode_internal (hwf p hpn) h1 h2 h3 h4 hl1
    exact ⟨l, r, f, thr, h1, h2, h3, h4, hl1, hpn, by omega, Or.inl (by omega)⟩

/-! ### the path -/

/-- nodes of a path are at least its start, below `n` if the start is, and never repeat -/
theorem pathFrom_props {t : Tree} {X : Rows} {m : Nat} {nxt : Rat → Rat}
    (hlen : t.left.length = t.n) (hwf : ∀ i < t.n, wfNode t X m nxt i = true) (x : List Rat) :
    ∀ fuel i, (∀ y ∈ pathFrom t x fuel i, i ≤ y ∧ (i < t.n → y < t.n)) ∧ (pathFrom t x fuel i).Nodup := by
  intro fuel
  induction fuel with
  | zero => intro i; simp [pathFrom]
  | succ fuel ih =>
    intro i
    unfold pathFrom
    split
    · rename_i l r f thr h1 h2 h3 h4
      split
      · simp
      · rename_i hl
        have hi : i < t.n := by rw [← hlen]; exact (List.getElem?_eq_some_iff.mp h1).1
        have hw := hwf i hi
        obtain ⟨a1, a3, _⟩ := wfNode_internal hw h1 h2 h3 h4 hl
        have hln := wfNode_bounds hw h1 h2 h3 h4 hl
        split
        · obtain ⟨hb, hn⟩ := ih l.toNat
          constructor
          · intro y hy
            rcases List.mem_cons.mp hy with hy | hy
            · subst hy; exact ⟨Nat.le_refl _, fun h => h⟩
            · have := hb y hy
              exact ⟨by omega, fun _ => this.2 (by omega)⟩
          · rw [List.nodup_cons]
            refine ⟨fun hmem => ?_, hn⟩
            have := (hb i hmem).1
            omega
        · obtain ⟨hb, hn⟩ := ih r.toNat
          constructor
          · intro y hy
            rcases List.mem_cons.mp hy with hy | hy
            · subst hy; exact ⟨Nat.le_refl _, fun h => h⟩
            · have := hb y hy
              exact ⟨by omega, fun _ => this.2 (by omega)⟩
          · rw [List.nodup_cons]
            refine ⟨fun hmem => ?_, hn⟩
            have := (hb i hmem).1
            omega
    · simp

/-- (→) a node on the path other than the start has its parent on the path, and the step there goes to it -/
theorem path_parent {t : Tree} {X : Rows} {m : Nat} {nxt : Rat → Rat}
    (hlen : t.left.length = t.n) (hwf : ∀ i < t.n, wfNode t X m nxt i = true) (x : List Rat)
    {k p : Nat} (hp : parentOf t k = some p) :
    ∀ fuel i, k ∈ pathFrom t x fuel i → k = i ∨ (p ∈ pathFrom t x fuel i ∧ descend t x 1 p = k) := by
  intro fuel
  induction fuel with
  | zero => intro i hk; simp [pathFrom] at hk; exact Or.inl hk
  | succ fuel ih =>
    intro i hk
    unfold pathFrom at hk ⊢
    split at hk
    · rename_i l r f thr h1 h2 h3 h4
      split at hk
      · simp at hk; exact Or.inl hk
      · rename_i hl
        have hi : i < t.n := by rw [← hlen]; exact (List.getElem?_eq_some_iff.mp h1).1
        obtain ⟨_, _, _, _, _, a9, _, a11, _⟩ := wfNode_internal (hwf i hi) h1 h2 h3 h4 hl
        have hstep : descend t x 1 i = if x.getD f.toNat 0 ≤ thr then l.toNat else r.toNat := by
          simp only [descend, h1, h2, h3, h4, if_neg hl]
        rw [if_neg hl]
        split at hk
        · rename_i hx
          rw [if_pos hx] at hstep ⊢
          rcases List.mem_cons.mp hk with hk | hk
          · exact Or.inl hk
          · rcases ih l.toNat hk with e | ⟨e1, e2⟩
            · right
              have : p = i := by rw [e, a9] at hp; exact (Option.some.inj hp).symm
              subst this
              exact ⟨List.mem_cons_self, by rw [hstep, e]⟩
            · exact Or.inr ⟨List.mem_cons_of_mem _ e1, e2⟩
        · rename_i hx
          rw [if_neg hx] at hstep ⊢
          rcases List.mem_cons.mp hk with hk | hk
          · exact Or.inl hk
          · rcases ih r.toNat hk with e | ⟨e1, e2⟩
            · right
              have : p = i := by rw [e, a11] at hp; exact (Option.some.inj hp).symm
              subst this
              exact ⟨List.mem_cons_self, by rw [hstep, e]⟩
            · exact Or.inr ⟨List.mem_cons_of_mem _ e1, e2⟩
    · simp at hk; exact Or.inl hk

/-- (←) with enough fuel the path continues from an internal node to the child the step selects -/
theorem path_child {t : Tree} {X : Rows} {m : Nat} {nxt : Rat → Rat}
    (hlen : t.left.length = t.n) (hwf : ∀ i < t.n, wfNode t X m nxt i = true) (x : List Rat)
    {p : Nat} {l r f : Int} {thr : Rat}
    (g1 : t.left[p]? = some l) (g2 : t.right[p]? = some r) (g3 : t.feature[p]? = some f)
    (g4 : t.threshold[p]? = some thr) (gl : ¬ l = -1) :
    ∀ fuel i, t.n ≤ fuel + i → p ∈ pathFrom t x fuel i → descend t x 1 p ∈ pathFrom t x fuel i := by
  have hpn : p < t.n := by rw [← hlen]; exact (List.getElem?_eq_some_iff.mp g1).1
  intro fuel
  induction fuel with
  | zero =>
    intro i hf hp
    simp [pathFrom] at hp
    omega
  | succ fuel ih =>
    intro i hf hp
    unfold pathFrom at hp ⊢
    split at hp
    · rename_i l' r' f' thr' h1 h2 h3 h4
      split at hp
      · rename_i hl'
        simp at hp
        subst hp
        rw [g1] at h1
        exact absurd ((Option.some.inj h1) ▸ hl') gl
      · rename_i hl'
        rw [if_neg hl']
        have hi : i < t.n := by rw [← hlen]; exact (List.getElem?_eq_some_iff.mp h1).1
        obtain ⟨a1, a3, _⟩ := wfNode_internal (hwf i hi) h1 h2 h3 h4 hl'
        have hstep : descend t x 1 i = if x.getD f'.toNat 0 ≤ thr' then l'.toNat else r'.toNat := by
          simp only [descend, h1, h2, h3, h4, if_neg hl']
        split at hp
        · rename_i hx
          rw [if_pos hx] at hstep ⊢
          rcases List.mem_cons.mp hp with hp | hp
          · subst hp
            rw [hstep]
            obtain ⟨tl, htl⟩ := pathFrom_cons t x fuel l'.toNat
            rw [htl]; simp
          · exact List.mem_cons_of_mem _ (ih l'.toNat (by omega) hp)
        · rename_i hx
          rw [if_neg hx] at hstep ⊢
          rcases List.mem_cons.mp hp with hp | hp
          · subst hp
            rw [hstep]
            obtain ⟨tl, htl⟩ := pathFrom_cons t x fuel r'.toNat
            rw [htl]; simp
          · exact List.mem_cons_of_mem _ (ih r'.toNat (by omega) hp)
    · rename_i hnone
      simp at hp
      subst hp
      exact absurd g4 (by
        intro _
        exact hnone l r f thr g1 g2 g3 g4)


/-! ### parent function, direct premises and node extents of a tree -/

def parF (t : Tree) (k : Nat) : Nat := (parentOf t k).getD 0

def dparF (t : Tree) (k : Nat) : Option Nat := if k = 0 then none else parentOf t k

def premF (t : Tree) (nxt : Rat → Rat) (k : Nat) : Prem :=
  if k = 0 then [] else
  match parentOf t k with
  | some p =>
    match t.threshold[p]?, t.feature[p]? with
    | some thr, some f => [(f, directDescr t nxt k thr)]
    | _, _ => []
  | none => []

/-- the rows of the context whose root-to-leaf path passes through node `k` -/
def EF (t : Tree) (X : Rows) (k : Nat) : List Nat :=
  (List.range (nObjects X)).filter fun g => (pathFrom t (X.getD g []) t.n 0).contains k

theorem mem_EF {t : Tree} {X : Rows} {k g : Nat} :
    g ∈ EF t X k ↔ g < nObjects X ∧ k ∈ pathFrom t (X.getD g []) t.n 0 := by
  simp [EF]

theorem wf_parts2 {t : Tree} {X : Rows} {m : Nat} {nxt : Rat → Rat} (h : wellFormed t X m nxt = true) :
    0 < t.n ∧ t.right.length = t.n := by
  simp only [wellFormed, Bool.and_eq_true, decide_eq_true_eq] at h
  obtain ⟨⟨⟨⟨⟨⟨⟨h1, _⟩, h3⟩, _⟩, _⟩, _⟩, _⟩, _⟩ := h
  exact ⟨h1, h3⟩

theorem EF_zero (t : Tree) (X : Rows) : EF t X 0 = List.range (nObjects X) := by
  unfold EF
  apply List.filter_eq_self.mpr
  intro g _
  obtain ⟨tl, htl⟩ := pathFrom_cons t (X.getD g []) t.n 0
  rw [htl]; simp

theorem EF_step {t : Tree} {X : Rows} {m : Nat} {nxt : Rat → Rat} (hwf : wellFormed t X m nxt = true)
    {k p : Nat} (hp : parentOf t k = some p) :
    EF t X k = (EF t X p).filter fun g => descend t (X.getD g []) 1 p == k := by
  obtain ⟨hlen, hnode⟩ := wf_parts hwf
  obtain ⟨_, hrlen⟩ := wf_parts2 hwf
  obtain ⟨l, r, f, thr, g1, g2, g3, g4, gl, hpn, hpk, _⟩ := node_of_parent hlen hrlen hnode hp
  unfold EF
  rw [List.filter_filter]
  apply List.filter_congr
  intro g _
  rw [Bool.eq_iff_iff]
  simp only [List.contains_eq_mem, decide_eq_true_eq, Bool.and_eq_true, beq_iff_eq]
  constructor
  · intro hk
    rcases path_parent hlen hnode (X.getD g []) hp t.n 0 hk with e | ⟨e1, e2⟩
    · omega
    · exact ⟨e2, e1⟩
  · rintro ⟨e2, e1⟩
    have := path_child hlen hnode (X.getD g []) g1 g2 g3 g4 gl t.n 0 (by omega) e1
    rw [e2] at this
    exact this

theorem EF_sub {t : Tree} {X : Rows} {m : Nat} {nxt : Rat → Rat} (hwf : wellFormed t X m nxt = true)
    {k p : Nat} (hp : parentOf t k = some p) : ∀ g ∈ EF t X k, g ∈ EF t X p := by
  intro g hg
  rw [EF_step hwf hp] at hg
  exact (List.mem_filter.mp hg).1

/-- tracing one generator: the extension of node `k`'s direct premise inside its parent's extent is `k`'s extent -/
theorem EF_trace {t : Tree} {X : Rows} {m : Nat} {nxt : Rat → Rat} (hwf : wellFormed t X m nxt = true)
    {k p : Nat} (hk0 : 0 < k) (hp : parentOf t k = some p) :
    extensionI X m (premF t nxt k) (some (EF t X p)) = .ok (EF t X k) := by
  obtain ⟨hlen, hnode⟩ := wf_parts hwf
  obtain ⟨_, hrlen⟩ := wf_parts2 hwf
  obtain ⟨l, r, f, thr, g1, g2, g3, g4, gl, hpn, hpk, hkc⟩ := node_of_parent hlen hrlen hnode hp
  have hbase : ∀ g ∈ EF t X p, g < nObjects X := fun g hg => (mem_EF.mp hg).1
  obtain ⟨hL, hR⟩ := trace_step t X m nxt hwf p l r f thr g1 g2 g3 g4 gl (EF t X p) hbase
  have hprem : premF t nxt k = [(f, directDescr t nxt k thr)] := by
    have : k ≠ 0 := by omega
    simp [premF, this, hp, g3, g4]
  rw [hprem, EF_step hwf hp]
  rcases hkc with e | e
  · rw [e]; exact hL
  · rw [e]; exact hR


/-! ### inversion of `parse` -/

theorem parseLoop_inv (t : Tree) (m : Nat) (nxt : Rat → Rat) :
    ∀ (ks : List Nat) (dps ps dps' ps' : List Prem), parseLoop t m nxt ks dps ps = .ok (dps', ps') →
      (∀ k ∈ ks, k ≠ 0) →
      dps' = dps ++ ks.map (premF t nxt) ∧ ps'.length = ps.length + ks.length ∧ ∃ tl, ps' = ps ++ tl := by
  intro ks
  induction ks with
  | nil =>
    intro dps ps dps' ps' h _
    simp only [parseLoop, Except.ok.injEq, Prod.mk.injEq] at h
    obtain ⟨rfl, rfl⟩ := h
    exact ⟨by simp, by simp, [], by simp⟩
  | cons k ks ih =>
    intro dps ps dps' ps' h hk
    have hk0 : k ≠ 0 := hk k List.mem_cons_self
    simp only [parseLoop] at h
    split at h
    · cases h
    · rename_i p hp
      split at h
      · rename_i thr f ppre h1 h2 h3
        split at h
        · cases h
        · rename_i premise _
          obtain ⟨e1, e2, tl, e3⟩ := ih _ _ _ _ h (fun k' hk' => hk k' (List.mem_cons_of_mem _ hk'))
          have hprem : premF t nxt k = [(f, directDescr t nxt k thr)] := by
            simp [premF, hk0, hp, h1, h2]
          refine ⟨?_, ?_, ?_⟩
          · rw [e1, List.map_cons, hprem]; simp
          · rw [e2]; simp; omega
          · exact ⟨[premise] ++ tl, by rw [e3]; simp⟩
      · cases h

theorem nodes1_ne_zero (t : Tree) : ∀ k ∈ nodes1 t, k ≠ 0 := by
  intro k hk
  unfold nodes1 at hk
  have := List.mem_range.mp (List.mem_of_mem_drop hk)
  intro h0
  subst h0
  cases hn : t.n with
  | zero => rw [hn] at hk; simp at hk
  | succ n' =>
    rw [hn, List.range_succ_eq_map] at hk
    simp at hk

theorem range_eq_cons_nodes1 (t : Tree) (hn : 0 < t.n) : List.range t.n = 0 :: nodes1 t := by
  unfold nodes1
  obtain ⟨n', hn'⟩ : ∃ n', t.n = n' + 1 := ⟨t.n - 1, by omega⟩
  rw [hn', List.range_succ_eq_map]
  simp

/-- what a successful `parse` returns, as maps over the node indexes -/
theorem parse_inv (t : Tree) (m : Nat) (nxt : Rat → Rat) (r : Rules) (hn : 0 < t.n) (h : parse t m nxt = .ok r) :
    r.dparents = (List.range t.n).map (dparF t) ∧
    r.dprems = (List.range t.n).map (premF t nxt) ∧
    r.dtargets = (List.range t.n).map (delta t) ∧
    r.premises.length = t.n ∧ r.premises[0]? = some [] ∧
    (∀ k, 0 < k → k < t.n → (parentOf t k).isSome) := by
  obtain ⟨hdt, hdp⟩ := parse_dtargets_eq t m nxt r hn h
  unfold parse at h
  split at h
  · cases h
  · rename_i pl hpl
    split at h
    · cases h
    · rename_i dps ps hloop
      split at h
      · cases h
      · rename_i ds hds
        cases h
        obtain ⟨_, hsome⟩ := parentsList_ok t _ _ hpl
        obtain ⟨e1, e2, tl, e3⟩ := parseLoop_inv t m nxt _ _ _ _ _ hloop (nodes1_ne_zero t)
        have hrange := range_eq_cons_nodes1 t hn
        refine ⟨?_, ?_, hdt, ?_, ?_, ?_⟩
        · simp only at hdp
          rw [hdp, hrange]
          simp only [List.map_cons, dparF, if_true, List.cons.injEq, true_and]
          have hd : (List.range t.n).drop 1 = nodes1 t := rfl
          rw [← hrange, hd]
          apply List.map_congr_left
          intro k hk
          simp [dparF, nodes1_ne_zero t k hk]
        · simp only
          rw [e1, hrange]
          simp [premF]
        · simp only
          rw [e2]
          have : (nodes1 t).length = t.n - 1 := by simp [nodes1]
          simp [this]; omega
        · simp only
          rw [e3]; simp
        · intro k hk0 hkn
          apply hsome k
          have : k ∈ List.range t.n := List.mem_range.mpr hkn
          rw [hrange] at this
          rcases List.mem_cons.mp this with e | e
          · omega
          · exact e


/-! ### concepts and the lattice top -/

theorem extLoop_sublist (X : Rows) (m : Nat) :
    ∀ (p : Prem) (e e' : List Nat), extLoop X m p e = .ok e' → e'.Sublist e := by
  intro p
  induction p with
  | nil => intro e e' h; simp only [extLoop, Except.ok.injEq] at h; subst h; exact List.Sublist.refl _
  | cons jd rest ih =>
    intro e e' h
    obtain ⟨j, d⟩ := jd
    simp only [extLoop] at h
    split at h
    · cases h
    · rename_i jj _
      have hs : (extPS X jj d e).Sublist e := List.filter_sublist
      split at h
      · simp only [Except.ok.injEq] at h; subst h; exact hs
      · exact (ih _ _ h).trans hs

theorem conceptFromDescr_sublist {X : Rows} {m : Nat} {p : Prem} {c : Concept}
    (h : conceptFromDescr X m p = .ok c) : c.extent.Sublist (List.range (nObjects X)) := by
  unfold conceptFromDescr at h
  split at h
  · cases h
  · rename_i ext hext
    simp only [Except.ok.injEq] at h
    subst h
    exact extLoop_sublist X m p _ _ hext

theorem conceptFromDescr_nil {X : Rows} {m : Nat} {c : Concept}
    (h : conceptFromDescr X m [] = .ok c) : c.extent = List.range (nObjects X) := by
  simp only [conceptFromDescr, extensionI, extLoop, Except.ok.injEq] at h
  subst h; rfl

theorem conceptsFrom_inv (X : Rows) (m : Nat) :
    ∀ (ps : List Prem) (cs : List Concept), conceptsFrom X m ps = .ok cs →
      cs.length = ps.length ∧ (∀ c ∈ cs, c.extent.Sublist (List.range (nObjects X))) ∧
      (∀ p ps', ps = p :: ps' → ∃ c cs', cs = c :: cs' ∧ conceptFromDescr X m p = .ok c) := by
  intro ps
  induction ps with
  | nil =>
    intro cs h
    simp only [conceptsFrom, Except.ok.injEq] at h
    subst h
    exact ⟨rfl, by simp, by intro p ps' h; cases h⟩
  | cons p ps ih =>
    intro cs h
    simp only [conceptsFrom] at h
    split at h
    · cases h
    · rename_i c hc
      split at h
      · cases h
      · rename_i cs' hcs'
        simp only [Except.ok.injEq] at h
        subst h
        obtain ⟨e1, e2, _⟩ := ih cs' hcs'
        refine ⟨by simp [e1], ?_, ?_⟩
        · intro c' hc'
          rcases List.mem_cons.mp hc' with e | e
          · exact e ▸ conceptFromDescr_sublist hc
          · exact e2 c' e
        · intro p' ps' hpp
          cases hpp
          exact ⟨c, cs', rfl, hc⟩

/-- the lattice top computed from extent inclusion is the root concept, whose extent is every object -/
theorem tops_zero {cs : List Concept} {nObj top : Nat} (c0 : Concept) (cs' : List Concept)
    (hcs : cs = c0 :: cs') (h0 : c0.extent = List.range nObj)
    (hsub : ∀ c ∈ cs, c.extent.Sublist (List.range nObj)) (htop : topsByLeq cs = [top]) : top = 0 := by
  have hmem : top ∈ topsByLeq cs := by rw [htop]; simp
  unfold topsByLeq at hmem
  obtain ⟨hlt, hall⟩ := List.mem_filter.mp hmem
  rw [List.mem_range] at hlt
  by_cases ht : top = 0
  · exact ht
  · exfalso
    have hpos : 0 < cs.length := by rw [hcs]; simp
    have h1 := List.all_eq_true.mp hall 0 (List.mem_range.mpr hpos)
    have hne : (0 == top) = false := by simp; omega
    rw [hne, Bool.false_or] at h1
    have hle : (cs.getD top default).le (cs.getD 0 default) = true := by
      have hc0 : cs.getD 0 default = c0 := by rw [hcs]; rfl
      have hct : cs.getD top default ∈ cs := by
        simp [List.getD_eq_getElem?_getD, List.getElem?_eq_getElem hlt]
      have hs := hsub _ hct
      rw [hc0]
      simp only [Concept.le, Concept.support, Bool.and_eq_true, Bool.not_eq_true', decide_eq_false_iff_not,
        List.all_eq_true, List.contains_eq_mem, decide_eq_true_eq, h0]
      refine ⟨?_, fun g hg => hs.subset hg⟩
      have := hs.length_le
      omega
    rw [hle] at h1
    simp at h1


/-! ### generator dictionary, decisions, and the inversion of `fromDecisionTree` -/

def genF (t : Tree) (nxt : Rat → Rat) (k : Nat) : GenEntry :=
  match dparF t k with
  | some p => .cond [(p, [premF t nxt k])]
  | none => .flat (premF t nxt k)

theorem mkGens_map (a : Nat → Option Nat) (b : Nat → Prem) : ∀ ks : List Nat,
    mkGens (ks.map a) (ks.map b) = ks.map fun k =>
      match a k with
      | some p => GenEntry.cond [(p, [b k])]
      | none => GenEntry.flat (b k) := by
  intro ks
  induction ks with
  | nil => rfl
  | cons k ks ih =>
    simp only [List.map_cons]
    cases hk : a k with
    | none => simp only [mkGens, ih]
    | some p => simp only [mkGens, ih]

theorem mkDecisions_map (a : Nat → Option Nat) (b : Nat → Prem) (d : Nat → Rat) : ∀ (len i : Nat),
    mkDecisions i ((List.range' i len).map a) ((List.range' i len).map b) ((List.range' i len).map d)
      = (List.range' i len).map fun k => ((⟨a k, k, b k⟩ : DKey), d k) := by
  intro len
  induction len with
  | zero => intro i; rfl
  | succ len ih =>
    intro i
    simp only [List.range'_succ, List.map_cons, mkDecisions, ih]

theorem alGet_map_key (key : Nat → DKey) (v : Nat → Rat) (hinj : ∀ a b, key a = key b → a = b) :
    ∀ (l : List Nat) (k0 : Nat), k0 ∈ l → alGet (l.map fun k => (key k, v k)) (key k0) = some (v k0) := by
  intro l
  induction l with
  | nil => intro k0 h; cases h
  | cons k ks ih =>
    intro k0 h
    simp only [List.map_cons, alGet]
    split
    · rename_i hk; rw [hinj _ _ hk]
    · rename_i hk
      rcases List.mem_cons.mp h with e | e
      · exact absurd (e ▸ rfl) hk
      · exact ih k0 e

theorem fromDecisionTree_inv (t : Tree) (X : Rows) (m : Nat) (nxt : Rat → Rat) (L : DLat) (hn : 0 < t.n)
    (h : fromDecisionTree t X m nxt = .ok L) :
    ∃ r, parse t m nxt = .ok r ∧ L.lat.gens = mkGens r.dparents r.dprems ∧
      L.decisions = mkDecisions 0 r.dparents r.dprems r.dtargets ∧ L.lat.top = 0 ∧
      t.n ≤ L.lat.concepts.length := by
  unfold fromDecisionTree at h
  split at h
  · cases h
  · rename_i r hr
    obtain ⟨_, _, _, hplen, hp0, _⟩ := parse_inv t m nxt r hn hr
    split at h
    · cases h
    · rename_i concepts hcs
      obtain ⟨hclen, hcsub, hchead⟩ := conceptsFrom_inv X m _ _ hcs
      obtain ⟨p0, ps', hps⟩ : ∃ p0 ps', r.premises = p0 :: ps' := by
        cases hpr : r.premises with
        | nil => rw [hpr] at hplen; simp at hplen; omega
        | cons a b => exact ⟨a, b, rfl⟩
      have hp0' : p0 = [] := by rw [hps] at hp0; simpa using hp0
      obtain ⟨c0, cs', hcs0, hc0⟩ := hchead p0 ps' hps
      rw [hp0'] at hc0
      have hext0 := conceptFromDescr_nil hc0
      simp only at h
      split at h
      · cases h
      · rename_i cs2 b2 hcomp
        split at h
        · cases h
        · split at h
          · rename_i top _ htops _
            simp only [Except.ok.injEq] at h
            subst h
            refine ⟨r, hr, rfl, rfl, ?_, ?_⟩
            · -- the top
              simp only
              split at hcomp
              · split at hcomp
                · cases hcomp
                · rename_i b hb
                  simp only [Except.ok.injEq, Prod.mk.injEq] at hcomp
                  obtain ⟨e1, _⟩ := hcomp
                  apply tops_zero c0 (cs' ++ [b]) (by rw [← e1, hcs0]; rfl) hext0 _ htops
                  intro c hc
                  rw [← e1] at hc
                  rcases List.mem_append.mp hc with hc | hc
                  · exact hcsub c hc
                  · simp at hc; subst hc; exact conceptFromDescr_sublist hb
              · simp only [Except.ok.injEq, Prod.mk.injEq] at hcomp
                obtain ⟨e1, _⟩ := hcomp
                apply tops_zero c0 cs' (by rw [← e1, hcs0]) hext0 _ htops
                intro c hc
                rw [← e1] at hc
                exact hcsub c hc
            · simp only
              split at hcomp
              · split at hcomp
                · cases hcomp
                · simp only [Except.ok.injEq, Prod.mk.injEq] at hcomp
                  obtain ⟨e1, _⟩ := hcomp
                  rw [← e1]; simp; omega
              · simp only [Except.ok.injEq, Prod.mk.injEq] at hcomp
                obtain ⟨e1, _⟩ := hcomp
                rw [← e1]; omega
          · cases h


/-! ### prediction from a path-exact trace -/

/-- if the traced records carry the node deltas as decisions and are, per row, the nodes of the row's path,
    `predict` returns the tree's prediction (sum of deltas = leaf value) -/
theorem predict_of_trace (t : Tree) (X : Rows) (m : Nat) (nxt : Rat → Rat)
    (hwf : wellFormed t X m nxt = true) (L : DLat) (order : List GenRec → List GenRec)
    (recs : List GenRec) (htrace : traceContext L.lat X m order = .ok recs)
    (hkeys : traceKeysOK t L.decisions recs = true) (hpath : tracePathOK t X recs = true) :
    ∃ preds, predict L X m order = .ok preds ∧ preds.length = nObjects X ∧
      ∀ g < nObjects X, preds.getD g 0 = treePredict t (X.getD g []) := by
  have hk : ∀ r ∈ recs, alGet L.decisions ⟨r.sup, r.concept, r.gen⟩ = some (delta t r.concept) := by
    intro r hr
    have := List.all_eq_true.mp hkeys r hr
    simpa using this
  obtain ⟨res, h1, h2, h3⟩ := sumDiff_spec L.decisions (delta t) recs hk (List.replicate (nObjects X) 0)
  refine ⟨res, ?_, ?_, ?_⟩
  · simp only [predict, htrace]; exact h1
  · simpa using h2
  · intro g hg
    have hp := List.all_eq_true.mp hpath g (List.mem_range.mpr hg)
    have hperm := of_decide_eq_true hp
    rw [h3 g (by simpa using hg)]
    rw [sumR_perm (hperm.map (delta t)), telescope t X m nxt (wf_parts hwf).1 (wf_parts hwf).2]
    simp [List.getD_eq_getElem?_getD, hg, Rat.zero_add]

/-! ### assembly: the converted lattice meets the specification of the worklist theorem -/

theorem parF_of_some {t : Tree} {k p : Nat} (h : parentOf t k = some p) : parF t k = p := by
  simp [parF, h]

theorem tspec_of_conv (t : Tree) (X : Rows) (m : Nat) (nxt : Rat → Rat) (L : DLat)
    (hwf : wellFormed t X m nxt = true) (hconv : fromDecisionTree t X m nxt = .ok L) :
    TSpec L.lat X m t.n (parF t) (premF t nxt) (EF t X) ∧
    L.decisions = (List.range t.n).map (fun k => ((⟨dparF t k, k, premF t nxt k⟩ : DKey), delta t k)) ∧
    (∀ k, 0 < k → k < t.n → dparF t k = some (parF t k)) := by
  obtain ⟨hlen, hnode⟩ := wf_parts hwf
  obtain ⟨hn, hrlen⟩ := wf_parts2 hwf
  obtain ⟨r, hr, hgens, hdec, htop, hclen⟩ := fromDecisionTree_inv t X m nxt L hn hconv
  obtain ⟨hdp, hpr, hdt, _, _, hsome⟩ := parse_inv t m nxt r hn hr
  have hgens' : L.lat.gens = (List.range t.n).map (genF t nxt) := by
    rw [hgens, hdp, hpr, mkGens_map]; rfl
  have hpar : ∀ k, 0 < k → k < t.n → parentOf t k = some (parF t k) := by
    intro k hk0 hkn
    obtain ⟨p, hp⟩ := Option.isSome_iff_exists.mp (hsome k hk0 hkn)
    rw [parF_of_some hp]; exact hp
  have hdpar : ∀ k, 0 < k → k < t.n → dparF t k = some (parF t k) := by
    intro k hk0 hkn
    have : k ≠ 0 := by omega
    simp only [dparF, if_neg this]
    exact hpar k hk0 hkn
  refine ⟨⟨hn, htop, ?_, ?_, ?_, ?_, ?_, ?_, ?_, hclen⟩, ?_, hdpar⟩
  · rw [hgens']; simp
  · rw [hgens']
    simp [hn, genF, dparF, premF]
  · intro k hk0 hkn
    rw [hgens']
    simp [hkn, genF, hdpar k hk0 hkn]
  · intro k hk0 hkn
    obtain ⟨_, _, _, _, _, _, _, _, _, _, hpk, _⟩ := node_of_parent hlen hrlen hnode (hpar k hk0 hkn)
    exact hpk
  · rw [EF_zero]; rfl
  · intro k hk0 hkn
    exact EF_trace hwf hk0 (hpar k hk0 hkn)
  · intro k hk0 hkn
    exact EF_sub hwf (hpar k hk0 hkn)
  · rw [hdec, hdp, hpr, hdt, List.range_eq_range', mkDecisions_map]

/-- hypothesis (b) of the partial theorem, discharged: for every row the traced records that contain it are,
    in some order, the nodes of its root-to-leaf path -/
theorem tracePathOK_of_conv (t : Tree) (X : Rows) (m : Nat) (nxt : Rat → Rat) (L : DLat)
    (hwf : wellFormed t X m nxt = true) (hconv : fromDecisionTree t X m nxt = .ok L)
    (order : List GenRec → List GenRec) (horder : ∀ l, (order l).Perm l) :
    ∃ recs, traceContext L.lat X m order = .ok recs ∧ tracePathOK t X recs = true ∧
      traceKeysOK t L.decisions recs = true := by
  obtain ⟨hspec, hdec, hdpar⟩ := tspec_of_conv t X m nxt L hwf hconv
  obtain ⟨hlen, hnode⟩ := wf_parts hwf
  obtain ⟨hn, _⟩ := wf_parts2 hwf
  obtain ⟨recs, hrecs, hform, hrows⟩ := traceContext_rows hspec order horder
  refine ⟨recs, hrecs, ?_, ?_⟩
  · unfold tracePathOK
    rw [List.all_eq_true]
    intro g hg
    rw [List.mem_range] at hg
    rw [decide_eq_true_eq]
    obtain ⟨hnd, hmem⟩ := hrows g
    obtain ⟨hprops, hpnd⟩ := pathFrom_props hlen hnode (X.getD g []) t.n 0
    apply (List.perm_ext_iff_of_nodup hnd hpnd).mpr
    intro c
    rw [hmem c, mem_EF]
    constructor
    · rintro ⟨_, _, hc⟩; exact hc
    · intro hc; exact ⟨(hprops c hc).2 hn, hg, hc⟩
  · unfold traceKeysOK
    rw [List.all_eq_true]
    intro r hr
    obtain ⟨k, hkn, e⟩ := hform r hr
    have hkey : (⟨r.sup, r.concept, r.gen⟩ : DKey) = ⟨dparF t k, k, premF t nxt k⟩ := by
      rw [e]
      by_cases hk0 : k = 0
      · subst hk0; simp [recOf, dparF, premF]
      · simp [recOf, hk0, hdpar k (by omega) hkn]
    rw [hkey, hdec, e, recOf_concept]
    rw [alGet_map_key (fun k => (⟨dparF t k, k, premF t nxt k⟩ : DKey)) (delta t)
      (by intro a b hab; exact (DKey.mk.inj hab).2.1) _ k (List.mem_range.mpr hkn)]
    simp

end Fca.DL

/-
  Fca.Lemmas.CbOTable — the Close-by-One machine instantiated on a boolean table:
  the bit-vector closures of `close_by_one_objectwise_fbarray` and the context operators used by
  `close_by_one_objectwise` satisfy `CbOM.Hyp` with `c X g := "g has every attribute common to X"`;
  from the machine's trace to the list of concept records.
-/
import Fca.Lemmas.CbOFuel
import Fca.Lemmas.CbONodup
import Fca.Lemmas.Galois
import Fca.Lemmas.BinTable
import Fca.Props.C01
import Fca.Spec.Miners
namespace Fca.CbOM
open Fca Fca.Spec

/-- `g ∈ X''` (for `g` in range) -/
def cTab (t : Table) (X : List Nat) (g : Nat) : Bool := (intAll t X).all fun a => t.get g a

theorem cTab_iff {t : Table} {X : List Nat} {g : Nat} :
    cTab t X g = true ↔ ∀ a, a < t.width → (∀ x ∈ X, t.get x a = true) → t.get g a = true := by
  simp only [cTab, List.all_eq_true, mem_intAll]
  constructor
  · intro h a ha hx; exact h a ⟨ha, hx⟩
  · intro h a ha; exact h a ha.1 ha.2

theorem cTab_ext (t : Table) (X : List Nat) (g : Nat) (hg : g ∈ X) : cTab t X g = true := by
  rw [cTab_iff]; intro a _ h; exact h g hg

theorem cTab_trans (t : Table) (X Y : List Nat) (h : ∀ g ∈ X, cTab t Y g = true) (k : Nat)
    (hk : cTab t X k = true) : cTab t Y k = true := by
  rw [cTab_iff] at hk ⊢
  intro a ha hY
  apply hk a ha
  intro x hx
  exact (cTab_iff.mp (h x hx)) a ha hY

theorem closure_eq_filter (t : Table) (X : List Nat) :
    closure t X = (List.range t.height).filter (cTab t X) := rfl

theorem mem_closure {t : Table} {X : List Nat} {g : Nat} :
    g ∈ closure t X ↔ g < t.height ∧ cTab t X g = true := by
  rw [closure_eq_filter, List.mem_filter, List.mem_range]

/-! ### the bit-vector closures of the `fbarray` variant -/

theorem intentionBa_fold (t : Table) (hwf : t.WF) (X : List Nat) (hX : InR t.height X) (f : Nat → Bool) :
    X.foldl (fun intent g => B.band intent (t.row g)) ((List.range t.width).map f) =
      (List.range t.width).map fun a => f a && X.all fun g => t.get g a := by
  induction X generalizing f with
  | nil => simp
  | cons g X ih =>
    simp only [List.foldl_cons]
    rw [Table.row_eq_map t hwf (hX g List.mem_cons_self)]
    have hb : B.band ((List.range t.width).map f) ((List.range t.width).map (t.get g)) =
        (List.range t.width).map fun a => f a && t.get g a := by
      unfold B.band; rw [zipWith_map_map_self]
    rw [hb]
    rw [ih (fun x hx => hX x (List.mem_cons_of_mem _ hx))]
    apply List.map_congr_left
    intro a _
    simp [Bool.and_assoc]

theorem intentionBa_eq (t : Table) (hwf : t.WF) (X : List Nat) (hX : InR t.height X) :
    intentionBa t X = (List.range t.width).map fun a => X.all fun g => t.get g a := by
  unfold intentionBa
  have h0 : List.replicate t.width true = (List.range t.width).map fun _ => true := by
    have := replicate_eq_map (List.range t.width) true
    rwa [List.length_range] at this
  rw [h0, intentionBa_fold t hwf X hX]
  simp

theorem extensionIter_eq (t : Table) (hwf : t.WF) (X : List Nat) (hX : InR t.height X)
    (base : List Nat) (hb : InR t.height base) :
    extensionIter t (intentionBa t X) base = base.filter (cTab t X) := by
  unfold extensionIter
  apply List.filter_congr
  intro g hg
  rw [intentionBa_eq t hwf X hX, Table.row_eq_map t hwf (hb g hg)]
  unfold B.band
  rw [zipWith_map_map_self, Bool.eq_iff_iff, beq_iff_eq, cTab_iff, List.map_inj_left]
  simp only [List.mem_range, List.all_eq_true]
  constructor
  · intro h a ha hx
    have := h a ha
    have hall : (X.all fun g => t.get g a) = true := by
      simp only [List.all_eq_true]; exact hx
    rw [hall] at this
    simpa using this
  · intro h a ha
    cases hall : (X.all fun g => t.get g a)
    · simp
    · simp only [Bool.true_and]
      exact h a ha (by simpa [List.all_eq_true] using hall)

theorem intAll_eq_of_cTab_eq (t : Table) (X Y : List Nat) (hX : InR t.height X) (hY : InR t.height Y)
    (h : ∀ g, g < t.height → cTab t X g = cTab t Y g) : intAll t X = intAll t Y := by
  have hc : closure t X = closure t Y := by
    rw [closure_eq_filter, closure_eq_filter]
    apply List.filter_congr
    intro g hg
    exact h g (List.mem_range.mp hg)
  rw [← intAll_closure t hX, ← intAll_closure t hY, hc]

theorem hyp_fbarray (t : Table) (hwf : t.WF) :
    Hyp .fbarray t.height (intentionBa t) (extensionIter t) (cTab t) where
  ext_iter := fun X base hX hb => extensionIter_eq t hwf X hX base hb
  c_ext := cTab_ext t
  c_trans := cTab_trans t
  key_of_eq := by
    intro _ X Y hX hY h
    rw [intentionBa_eq t hwf X hX, intentionBa_eq t hwf Y hY]
    apply List.map_congr_left
    intro a ha
    have ha' : a < t.width := List.mem_range.mp ha
    have he := intAll_eq_of_cTab_eq t X Y hX hY h
    have h1 : a ∈ intAll t X ↔ a ∈ intAll t Y := by rw [he]
    simp only [mem_intAll, ha', true_and] at h1
    rw [Bool.eq_iff_iff]
    simp only [List.all_eq_true]
    exact h1

theorem hyp_objectwise (K : Ctx) (hwf : K.table.WF) :
    Hyp .objectwise K.nObjects (fun comb => K.intentionI comb none)
      (fun intent base => K.extensionI intent (some base)) (cTab K.table) where
  ext_iter := by
    intro X base hX hb
    rw [C01.intention_i_exact K hwf X none hX (by intro bs h; cases h)]
    rw [C01.extension_i_exact K hwf _ (some base) (by
      intro a ha
      exact (mem_int K.table |>.mp ha).1 |> List.mem_range.mp) (by intro bs h; cases h; exact hb)]
    rfl
  c_ext := cTab_ext K.table
  c_trans := cTab_trans K.table
  key_of_eq := by intro h; cases h

/-! ### from the trace to the concept records -/

/-- what the machine analysis delivers about an emission trace -/
structure TraceOK (t : Table) (tr : List (List Nat × List Nat)) : Prop where
  sound : ∀ p ∈ tr, InR t.height p.2 ∧ p.2.Nodup ∧ Closed t.height (cTab t) p.2
  distinct : Distinct tr
  complete : ∀ A, InR t.height A → Closed t.height (cTab t) A → ∃ p ∈ tr, SetEq p.2 A

theorem distinct_reverse {out : List (List Nat × List Nat)} (h : Distinct out) : Distinct out.reverse := by
  unfold Distinct at *
  rw [List.pairwise_reverse]
  exact h.imp (fun hpq hse => hpq (fun g => (hse g).symm))

/-- strictly ascending lists with the same members are equal -/
theorem sorted_unique : ∀ {l₁ l₂ : List Nat}, l₁.Pairwise (· < ·) → l₂.Pairwise (· < ·) →
    (∀ x, x ∈ l₁ ↔ x ∈ l₂) → l₁ = l₂
  | [], [], _, _, _ => rfl
  | [], b :: _, _, _, h => by have := (h b).mpr List.mem_cons_self; cases this
  | a :: _, [], _, _, h => by have := (h a).mp List.mem_cons_self; cases this
  | a :: l₁, b :: l₂, h₁, h₂, h => by
    rw [List.pairwise_cons] at h₁ h₂
    have hab : a = b := by
      have ha := (h a).mp List.mem_cons_self
      have hb := (h b).mpr List.mem_cons_self
      rcases List.mem_cons.mp ha with e | ha'
      · exact e
      · rcases List.mem_cons.mp hb with e | hb'
        · exact e.symm
        · have := h₂.1 a ha'
          have := h₁.1 b hb'
          omega
    subst hab
    congr 1
    apply sorted_unique h₁.2 h₂.2
    intro x
    constructor
    · intro hx
      have := (h x).mp (List.mem_cons_of_mem _ hx)
      rcases List.mem_cons.mp this with e | h'
      · subst e; have := h₁.1 x hx; omega
      · exact h'
    · intro hx
      have := (h x).mpr (List.mem_cons_of_mem _ hx)
      rcases List.mem_cons.mp this with e | h'
      · subst e; have := h₂.1 x hx; omega
      · exact h'

theorem sortIdx_eq_of {e s : List Nat} (hnd : e.Nodup) (hs : s.Pairwise (· < ·))
    (hmem : ∀ g, g ∈ e ↔ g ∈ s) : sortIdx e = s := by
  have hperm := List.mergeSort_perm e (fun a b => decide (a ≤ b))
  have hsorted : (sortIdx e).Pairwise (fun a b => decide (a ≤ b) = true) :=
    List.pairwise_mergeSort (fun a b c hab hbc => by simp at *; omega) (fun a b => by simp; omega) e
  have hnd' : (sortIdx e).Nodup := hperm.nodup_iff.mpr hnd
  have hstrict : (sortIdx e).Pairwise (· < ·) := by
    have := hsorted.and hnd'
    refine this.imp ?_
    intro a b hab
    simp only [decide_eq_true_eq] at hab
    omega
  apply sorted_unique hstrict hs
  intro x
  rw [← hmem x]
  exact hperm.mem_iff

theorem sortIdx_sorted {s : List Nat} (hs : s.Pairwise (· < ·)) : sortIdx s = s := by
  apply List.mergeSort_of_pairwise
  exact hs.imp (fun h => by simp; omega)

/-- a closed in-range duplicate-free list is its closure, up to order -/
theorem mem_closure_of_closed {t : Table} {e : List Nat} (hr : InR t.height e)
    (hc : Closed t.height (cTab t) e) (g : Nat) : g ∈ e ↔ g ∈ closure t e := by
  rw [mem_closure]
  constructor
  · intro h; exact ⟨hr g h, cTab_ext t e g h⟩
  · rintro ⟨h1, h2⟩; exact hc g h1 h2

/-- the key of `from_objects(e, K, is_extent)` for a machine emission -/
theorem key_fromObjects (K : Ctx) (hwf : K.table.WF) {e : List Nat} (hr : InR K.table.height e)
    (hnd : e.Nodup) (hc : Closed K.table.height (cTab K.table) e) (isExtent : Bool) :
    conceptKey (K.fromObjects e isExtent) = (closure K.table e, intAll K.table e) := by
  have hint : K.intentionI e none = intAll K.table e :=
    C01.intention_i_exact K hwf e none hr (by intro bs h; cases h)
  unfold conceptKey Ctx.fromObjects
  simp only [hint]
  rw [sortIdx_sorted (intAll_sorted K.table e)]
  cases isExtent
  · simp only [Bool.not_false, ↓reduceIte]
    rw [C01.extension_i_exact K hwf _ none (intAll_lt K.table) (by intro bs h; cases h)]
    show (sortIdx (extAll K.table (intAll K.table e)), _) = _
    rw [sortIdx_sorted (extAll_sorted K.table _)]
    rfl
  · simp only [Bool.not_true, Bool.false_eq_true, ↓reduceIte]
    rw [sortIdx_eq_of hnd (extAll_sorted K.table _) (mem_closure_of_closed hr hc)]
    rfl

theorem closed_of_isConcept {t : Table} {A B : List Nat} (h : isConcept t A B = true) :
    InR t.height A ∧ Closed t.height (cTab t) A ∧ closure t A = A := by
  rw [isConcept_iff] at h
  have hcl : closure t A = A := by unfold closure; rw [h.2, h.1]
  refine ⟨?_, ?_, hcl⟩
  · intro g hg; rw [← h.1] at hg; exact extAll_lt t g hg
  · intro g hg hcg
    rw [← hcl]; exact mem_closure.mpr ⟨hg, hcg⟩

/-- a good trace yields exactly the formal concepts, each once -/
theorem exact_of_trace (K : Ctx) (hwf : K.table.WF) {tr : List (List Nat × List Nat)}
    (h : TraceOK K.table tr) (isExtent : Bool) :
    ExactConcepts K.table (tr.map fun p => K.fromObjects p.2 isExtent) := by
  have hkey : (tr.map fun p => K.fromObjects p.2 isExtent).map conceptKey =
      tr.map fun p => (closure K.table p.2, intAll K.table p.2) := by
    rw [List.map_map]
    apply List.map_congr_left
    intro p hp
    obtain ⟨h1, h2, h3⟩ := h.sound p hp
    exact key_fromObjects K hwf h1 h2 h3 isExtent
  unfold ExactConcepts
  rw [hkey]
  constructor
  · rw [List.Nodup, List.pairwise_map]
    have hd := h.distinct
    unfold Distinct at hd
    have hall : tr.Pairwise fun p q => (p ∈ tr ∧ q ∈ tr) := by
      rw [List.pairwise_iff_forall_sublist]
      intro a b hab
      exact ⟨hab.subset (by simp), hab.subset (by simp)⟩
    refine (hd.and hall).imp ?_
    rintro p q ⟨hpq, hp, hq⟩ heq
    apply hpq
    simp only [Prod.mk.injEq] at heq
    obtain ⟨p1, _, p3⟩ := h.sound p hp
    obtain ⟨q1, _, q3⟩ := h.sound q hq
    intro g
    rw [mem_closure_of_closed p1 p3, mem_closure_of_closed q1 q3, heq.1]
  · intro A B
    rw [mem_allConcepts, List.mem_map]
    constructor
    · rintro ⟨p, hp, heq⟩
      simp only [Prod.mk.injEq] at heq
      rw [← heq.1, ← heq.2]
      exact isConcept_of_objs K.table (h.sound p hp).1
    · intro hc
      obtain ⟨hA, hAc, hAcl⟩ := closed_of_isConcept hc
      obtain ⟨p, hp, hse⟩ := h.complete A hA hAc
      refine ⟨p, hp, ?_⟩
      have hint : intAll K.table p.2 = intAll K.table A := by
        apply intAll_eq_of_mem_iff
        intro a _
        constructor
        · intro H g hg; exact H g ((hse g).mpr hg)
        · intro H g hg; exact H g ((hse g).mp hg)
      simp only [Prod.mk.injEq]
      refine ⟨?_, ?_⟩
      · unfold closure; rw [hint]; exact hAcl
      · rw [hint]; exact (isConcept_iff K.table).mp hc |>.2

/-- `close_by_one_objectwise_fbarray`'s trace, with sufficient fuel -/
theorem fbarray_trace (K : Ctx) (hwf : K.table.WF) (fuel : Nat) (hf : cboFuel K.nObjects ≤ fuel) :
    ∃ tr, cboFbarrayTrace K fuel = .ok tr ∧ TraceOK K.table tr := by
  have hy := hyp_fbarray K.table hwf
  obtain ⟨tr, htr⟩ := loop_terminates hy fuel hf
  refine ⟨tr, htr, ?_⟩
  obtain ⟨s', hinv, hinvF, hst, hout⟩ := loop_invF hy rfl fuel _ tr inv_init invF_init htr
  subst hout
  refine ⟨?_, distinct_reverse hinvF.distinct, ?_⟩
  · intro p hp
    exact sound hy hinv p (List.mem_reverse.mp hp)
  · intro A hA hAc
    obtain ⟨p, hp, hpA⟩ := complete hy hinv hst A hA hAc
    exact ⟨p, List.mem_reverse.mpr hp, hpA⟩

/-- `close_by_one_objectwise`'s trace, with sufficient fuel -/
theorem objectwise_trace (K : Ctx) (hwf : K.table.WF) (fuel : Nat) (hf : cboFuel K.nObjects ≤ fuel) :
    ∃ tr, cboObjectwiseTrace K fuel = .ok tr ∧ TraceOK K.table tr := by
  have hy := hyp_objectwise K hwf
  obtain ⟨tr, htr⟩ := loop_terminates hy fuel hf
  refine ⟨tr, htr, ?_⟩
  obtain ⟨s', hinv, hinvU, hst, hout⟩ := loop_invU hy fuel _ tr inv_init invU_init htr
  subst hout
  refine ⟨?_, distinct_reverse hinvU.distinct, ?_⟩
  · intro p hp
    exact sound hy hinv p (List.mem_reverse.mp hp)
  · intro A hA hAc
    obtain ⟨p, hp, hpA⟩ := complete hy hinv hst A hA hAc
    exact ⟨p, List.mem_reverse.mpr hp, hpA⟩

end Fca.CbOM

/-
  Fca.Lemmas.CbODispatch — `close_by_one`'s "tall table" branch: the machine runs on the transposed
  context and every concept is rebuilt from the transposed concept's intent.
-/
import Fca.Lemmas.CbOTable
namespace Fca.CbOM
open Fca Fca.Spec

theorem transposeT_eq (t : Table) : t.transposeT = transpose t := rfl

/-- the records `close_by_one` builds from a good trace of the transposed context -/
theorem exact_of_trace_T (K : Ctx) (hwf : K.table.WF) {tr : List (List Nat × List Nat)}
    (h : TraceOK K.T.table tr) :
    ExactConcepts K.table
      ((tr.map fun p => K.T.fromObjects p.2 false).map fun c => K.fromObjects c.intentI true) := by
  have hT : K.T.table = transpose K.table := rfl
  have hwfT : K.T.table.WF := by rw [hT]; exact transpose_wf K.table
  have hhT : K.T.table.height = K.table.width := by rw [hT]; exact transpose_height K.table
  -- the key of every record
  have hkey : (((tr.map fun p => K.T.fromObjects p.2 false).map fun c => K.fromObjects c.intentI true).map
      conceptKey) = tr.map fun p => (extAll K.table p.2, closureAttr K.table p.2) := by
    rw [List.map_map, List.map_map]
    apply List.map_congr_left
    intro p hp
    obtain ⟨h1, h2, h3⟩ := h.sound p hp
    simp only [Function.comp]
    have hi : (K.T.fromObjects p.2 false).intentI = extAll K.table p.2 := by
      show K.T.intentionI p.2 none = _
      rw [C01.intention_i_exact K.T hwfT p.2 none h1 (by intro bs hb; cases hb)]
      show intAll K.T.table p.2 = _
      rw [hT, intAll_transpose K.table hwf]
    rw [hi]
    have hint : K.intentionI (extAll K.table p.2) none = intAll K.table (extAll K.table p.2) :=
      C01.intention_i_exact K hwf _ none (extAll_lt K.table) (by intro bs hb; cases hb)
    unfold conceptKey Ctx.fromObjects
    simp only [hint, Bool.not_true, Bool.false_eq_true, ↓reduceIte]
    rw [sortIdx_sorted (extAll_sorted K.table _), sortIdx_sorted (intAll_sorted K.table _)]
    rfl
  unfold ExactConcepts
  rw [hkey]
  have hrange : ∀ p ∈ tr, ∀ a ∈ p.2, a < K.table.width := by
    intro p hp a ha
    have := (h.sound p hp).1 a ha
    rwa [hhT] at this
  constructor
  · rw [List.Nodup, List.pairwise_map]
    have hd := h.distinct
    unfold Distinct at hd
    have hall : tr.Pairwise fun p q => (p ∈ tr ∧ q ∈ tr) := by
      rw [List.pairwise_iff_forall_sublist]
      intro a b hab
      exact ⟨hab.subset (by simp), hab.subset (by simp)⟩
    refine (hd.and hall).imp ?_
    rintro p q ⟨hpq, hp, hq⟩ heq
    apply hpq
    simp only [Prod.mk.injEq] at heq
    obtain ⟨p1, _, p3⟩ := h.sound p hp
    obtain ⟨q1, _, q3⟩ := h.sound q hq
    intro g
    rw [mem_closure_of_closed p1 p3, mem_closure_of_closed q1 q3]
    have e : closure K.T.table p.2 = closure K.T.table q.2 := by
      unfold closure
      rw [hT, intAll_transpose K.table hwf, intAll_transpose K.table hwf, heq.1]
    rw [e]
  · intro A B
    rw [mem_allConcepts, List.mem_map]
    constructor
    · rintro ⟨p, hp, heq⟩
      simp only [Prod.mk.injEq] at heq
      rw [← heq.1, ← heq.2]
      exact isConcept_of_attrs K.table (hrange p hp)
    · intro hc
      have hcT : isConcept K.T.table B A = true := by
        rw [hT, isConcept_transpose K.table hwf]; exact hc
      obtain ⟨hB, hBc, _⟩ := closed_of_isConcept hcT
      obtain ⟨p, hp, hse⟩ := h.complete B hB hBc
      refine ⟨p, hp, ?_⟩
      have hext : extAll K.table p.2 = extAll K.table B := by
        apply extAll_eq_of_mem_iff
        intro g _
        constructor
        · intro H a ha; exact H a ((hse a).mpr ha)
        · intro H a ha; exact H a ((hse a).mp ha)
      have hc' := (isConcept_iff K.table).mp hc
      simp only [Prod.mk.injEq, closureAttr]
      rw [hext, hc'.1]
      exact ⟨rfl, hc'.2⟩

end Fca.CbOM

/-
  Fca.Lemmas.CodecConcept — `FormalConcept.to_dict / from_dict` round trip (tree level).
-/
import Fca.Model.CodecMV
import Fca.Lemmas.CodecJson
namespace Fca.Codec

/-- adjacent elements are in order -/
def isSortedBy {α : Type} (le : α → α → Bool) : List α → Bool
  | [] => true
  | [_] => true
  | a :: b :: r => le a b && isSortedBy le (b :: r)

/-- Python's `sorted` leaves an already ordered list alone -/
theorem sortedBy_of_sorted {α : Type} (le : α → α → Bool) : ∀ xs : List α,
    isSortedBy le xs = true → sortedBy le xs = xs
  | [], _ => rfl
  | [_], _ => rfl
  | a :: b :: r, h => by
    simp only [isSortedBy, Bool.and_eq_true] at h
    have ih := sortedBy_of_sorted le (b :: r) h.2
    simp only [sortedBy, List.foldr_cons] at ih ⊢
    rw [ih]
    simp [insertBy, h.1]

theorem lookup_dictSet_ne (k k' : Str) (v : JV) (h : k' ≠ k) : ∀ d : List (Str × JV),
    JV.lookup k (JV.dictSet k' v d) = JV.lookup k d
  | [] => by simp [JV.dictSet, JV.lookup, h]
  | (k'', v'') :: d => by
    by_cases e : k'' = k'
    · subst e; simp [JV.dictSet, JV.lookup, h]
    · simp only [JV.dictSet, e, ↓reduceIte, JV.lookup, lookup_dictSet_ne k k' v h d]

theorem lookup_dictSet_eq (k : Str) (v : JV) : ∀ d : List (Str × JV),
    JV.lookup k (JV.dictSet k v d) = some v
  | [] => by simp [JV.dictSet, JV.lookup]
  | (k'', v'') :: d => by
    by_cases e : k'' = k
    · subst e; simp [JV.dictSet, JV.lookup]
    · simp only [JV.dictSet, e, ↓reduceIte, JV.lookup, lookup_dictSet_eq k v d]

theorem lookup_addMeasures (k : Str) : ∀ (ms d : List (Str × JV)), (∀ kv ∈ ms, kv.1 ≠ k) →
    JV.lookup k (addMeasures ms d) = JV.lookup k d
  | [], _, _ => rfl
  | kv :: ms, d, h => by
    simp only [addMeasures, List.foldl_cons]
    have := lookup_addMeasures k ms (JV.dictSet kv.1 kv.2 d) (fun x hx => h x (List.mem_cons_of_mem _ hx))
    simp only [addMeasures] at this
    rw [this, lookup_dictSet_ne k kv.1 kv.2 (h kv (by simp))]

/-- the names are known to the order and listed in that order -/
def NamesInOrder (order names : List Str) : Prop :=
  (∀ g ∈ names, (idxOf order g).isSome = true) ∧
    isSortedBy leKey (names.map fun g => ((idxOf order g).getD 0, g)) = true
instance (order names : List Str) : Decidable (NamesInOrder order names) := by
  unfold NamesInOrder; infer_instance

theorem sortNamesBy_id (order names : List Str) (h : NamesInOrder order names) :
    sortNamesBy order names = .ok names := by
  have hm : mapME (keyed order) names = .ok (names.map fun g => ((idxOf order g).getD 0, g)) := by
    apply mapME_ok
    intro g hg
    have := h.1 g hg
    cases hi : idxOf order g with
    | none => rw [hi] at this; cases this
    | some k => simp [keyed, hi]
  simp only [sortNamesBy, hm, sortedBy_of_sorted leKey _ h.2, List.map_map]
  congr 1
  conv => rhs; rw [← List.map_id names]
  apply List.map_congr_left
  intro g _; rfl

theorem intsOf_ints (is : List Int) : intsOf (.arr (is.map .int)) = .ok is := by
  have := mapME_map_ok asInt JV.int id is (fun _ _ => rfl)
  simpa [intsOf] using this

theorem strsOf_strs (ns : List Str) : strsOf (.arr (ns.map jStr)) = .ok ns := by
  have := mapME_map_ok asStr jStr id ns (fun _ _ => rfl)
  simpa [strsOf] using this

theorem extIntFields_entry (inds : List Int) (names : List Str) :
    extIntFields (extIntEntry inds names) = .ok (sortedInts inds, names) := by
  simp [extIntFields, extIntEntry, JV.getKey, JV.getOpt, JV.lookup, Except.bind, intsOf_ints, strsOf_strs]

/-- what `to_dict` needs to give the concept back unchanged -/
structure FConceptOk (c : FConcept) (objsOrder attrsOrder : List Str) : Prop where
  ext_sorted : isSortedBy leInt c.extentI = true
  int_sorted : isSortedBy leInt c.intentI = true
  ext_names : NamesInOrder objsOrder c.extent
  int_names : NamesInOrder attrsOrder c.intent
  meas : ∀ kv ∈ c.measures, kv.1 ≠ "Ext".toList ∧ kv.1 ≠ "Int".toList

theorem hashOf_jOptInt (h : Option Int) : hashOf (some (jOptInt h)) = .ok h := by
  cases h <;> rfl

/-- the dict `to_dict` builds for a concept whose names are already in order -/
def FConcept.dictKVs (c : FConcept) : List (Str × JV) :=
  JV.dictSet "Monotone".toList (.bool c.monotone)
    (JV.dictSet "Context_Hash".toList (jOptInt c.contextHash)
      (addMeasures c.measures
        [("Ext".toList, extIntEntry c.extentI c.extent), ("Int".toList, extIntEntry c.intentI c.intent),
         ("Supp".toList, jNat c.extentI.length)]))

/-- what `from_dict` makes of it: the same concept, its measures extended by the non-`Ext`/`Int` keys -/
def FConcept.readBack (c : FConcept) : FConcept :=
  ⟨c.extentI, c.extent, c.intentI, c.intent, measuresOf c.dictKVs, c.contextHash, c.monotone⟩

theorem fconcept_toDict (c : FConcept) (oo ao : List Str) (h : FConceptOk c oo ao) :
    c.toDict oo ao = .ok (.obj c.dictKVs) := by
  simp only [FConcept.toDict, sortNamesBy_id _ _ h.ext_names, sortNamesBy_id _ _ h.int_names, Except.bind]
  rfl

theorem fconcept_lookup_int (c : FConcept) (hm : ∀ kv ∈ c.measures, kv.1 ≠ "Int".toList) :
    JV.lookup "Int".toList c.dictKVs = some (extIntEntry c.intentI c.intent) := by
  simp only [FConcept.dictKVs]
  rw [lookup_dictSet_ne _ _ _ (by decide), lookup_dictSet_ne _ _ _ (by decide),
    lookup_addMeasures _ _ _ hm]
  simp [JV.lookup]

theorem fconcept_fromDict (c : FConcept) (oo ao : List Str) (h : FConceptOk c oo ao) :
    FConcept.fromDict (.obj c.dictKVs) = .ok c.readBack := by
  have hE : sortedInts c.extentI = c.extentI := sortedBy_of_sorted _ _ h.ext_sorted
  have hI : sortedInts c.intentI = c.intentI := sortedBy_of_sorted _ _ h.int_sorted
  have lExt : JV.lookup "Ext".toList c.dictKVs = some (extIntEntry c.extentI c.extent) := by
    simp only [FConcept.dictKVs]
    rw [lookup_dictSet_ne _ _ _ (by decide), lookup_dictSet_ne _ _ _ (by decide),
      lookup_addMeasures _ _ _ (fun kv hkv => (h.meas kv hkv).1)]
    simp [JV.lookup]
  have lInt := fconcept_lookup_int c (fun kv hkv => (h.meas kv hkv).2)
  have lHash : JV.lookup "Context_Hash".toList c.dictKVs = some (jOptInt c.contextHash) := by
    simp only [FConcept.dictKVs]
    rw [lookup_dictSet_ne _ _ _ (by decide), lookup_dictSet_eq]
  have lMono : JV.lookup "Monotone".toList c.dictKVs = some (.bool c.monotone) := by
    simp only [FConcept.dictKVs]
    rw [lookup_dictSet_eq]
  have hbot : isBottomStr (extIntEntry c.intentI c.intent) = false := rfl
  simp only [Except.bind, FConcept.fromDict, lExt, lInt, lHash, lMono, hbot, Bool.false_eq_true, ↓reduceIte,
    extIntFields_entry, hE, hI, hashOf_jOptInt, monoOf, FConcept.readBack]

theorem fconcept_notPattern (c : FConcept) (hm : ∀ kv ∈ c.measures, kv.1 ≠ "Int".toList) :
    isPatternNode (.obj c.dictKVs) = .ok false := by
  simp only [isPatternNode, JV.getKey]
  rw [fconcept_lookup_int c hm]
  simp [extIntEntry, JV.lookup]

/-! ### lattices of formal concepts -/

theorem arcCheck_arcJ (s d : Nat) : arcCheck (arcJ s d) = .ok () := by
  simp [arcCheck, arcJ, JV.getKey, JV.lookup, Except.bind]

theorem mapME_arcCheck (children : List (List Nat)) :
    mapME arcCheck (arcsTree children) = .ok ((arcsTree children).map fun _ => ()) := by
  apply mapME_ok
  intro a ha
  simp only [arcsTree, List.mem_flatMap, List.mem_map] at ha
  obtain ⟨p, _, d, _, rfl⟩ := ha
  exact arcCheck_arcJ p.1 d

theorem nodesOf_obj (ns : List JV) : nodesOf (.obj [("Nodes".toList, .arr ns)]) = .ok ns := by
  simp [nodesOf, JV.getKey, JV.lookup]

theorem readLatHeader_ok (t b n a : JV) (children : List (List Nat)) :
    readLatHeader (.obj [("Top".toList, .arr [t]), ("Bottom".toList, .arr [b]), ("NodesCount".toList, n),
        ("ArcsCount".toList, a)]) (.obj [("Arcs".toList, .arr (arcsTree children))]) = .ok () := by
  have h1 : arcsOf (.obj [("Arcs".toList, .arr (arcsTree children))]) = .ok (arcsTree children) := by
    simp [arcsOf, JV.getKey, JV.lookup]
  unfold readLatHeader
  rw [h1]
  simp only [Except.bind, mapME_arcCheck]
  simp [JV.getKey, JV.lookup, firstOf]

theorem readLatTree_formal (md ad : JV) (n0 : JV) (ns : List JV)
    (hh : readLatHeader md ad = .ok ()) (hp : isPatternNode n0 = .ok false) :
    readLatTree (.arr [md, .obj [("Nodes".toList, .arr (n0 :: ns))], ad]) = buildFLat (n0 :: ns) := by
  simp only [readLatTree, nodesOf_obj, Except.bind, hh, hp, Bool.false_eq_true, ↓reduceIte]

theorem readFLat_writeFLat (L : Lat FConcept) (oo ao : List Str) (hlen : 3 ≤ L.concepts.length)
    (hc : ∀ c ∈ L.concepts, FConceptOk c oo ao) (ch : List (List Nat))
    (hre : rebuild (L.concepts.map FConcept.key) = .ok (ch, L.top, L.bottom)) :
    (writeFLat L oo ao).bind readLatTree
      = .ok (.inl ⟨L.concepts.map FConcept.readBack, ch, L.top, L.bottom⟩) := by
  have hnodes : mapME (fun c => FConcept.toDict c oo ao) L.concepts
      = .ok (L.concepts.map fun c => JV.obj c.dictKVs) :=
    mapME_ok _ _ _ (fun c hcm => fconcept_toDict c oo ao (hc c hcm))
  have hlt : ¬ L.concepts.length < 3 := by omega
  have hback : mapME FConcept.fromDict (L.concepts.map fun c => JV.obj c.dictKVs)
      = .ok (L.concepts.map FConcept.readBack) :=
    mapME_map_ok _ _ _ _ (fun c hcm => fconcept_fromDict c oo ao (hc c hcm))
  have hkeys : (L.concepts.map FConcept.readBack).map FConcept.key = L.concepts.map FConcept.key := by
    rw [List.map_map]; rfl
  have hbuild : buildFLat (L.concepts.map fun c => JV.obj c.dictKVs)
      = .ok (.inl ⟨L.concepts.map FConcept.readBack, ch, L.top, L.bottom⟩) := by
    simp only [buildFLat, hback, Except.bind, hkeys, hre]
  have hw : writeFLat L oo ao = .ok (.arr [
      .obj [("Top".toList, .arr [jNat L.top]), ("Bottom".toList, .arr [jNat L.bottom]),
            ("NodesCount".toList, jNat L.concepts.length), ("ArcsCount".toList, jNat (arcsTree L.children).length)],
      .obj [("Nodes".toList, .arr (L.concepts.map fun c => JV.obj c.dictKVs))],
      .obj [("Arcs".toList, .arr (arcsTree L.children))]]) := by
    simp only [writeFLat, hlt, ↓reduceIte, hnodes, writeLatTree]
  rw [hw]
  simp only [Except.bind]
  cases hcs : L.concepts with
  | nil => rw [hcs] at hlen; simp at hlen
  | cons c0 cs =>
    have hc0 : isPatternNode (.obj c0.dictKVs) = .ok false :=
      fconcept_notPattern c0 (fun kv hkv => ((hc c0 (by rw [hcs]; simp)).meas kv hkv).2)
    rw [hcs] at hbuild
    simp only [List.map_cons] at hbuild ⊢
    rw [readLatTree_formal _ _ _ _ (readLatHeader_ok _ _ _ _ _) hc0]
    exact hbuild

end Fca.Codec

/-
  Lemmas for C20, part 7 — the converter is homogeneous in the TARGETS: multiplying every node value of the tree by `c`
  multiplies every decision (node delta) by `c` and changes nothing else (same parents, premises, concepts, generators,
  same exceptions).  Exact arithmetic: there is no threshold below which a delta "does not count".
-/
import Fca.Model.DecisionLattice
import Fca.Lemmas.DecisionLattice
namespace Fca.DL
open Fca

/-- the tree with all targets (node values) multiplied by `c` -/
def scaleTargets (t : Tree) (c : Rat) : Tree := { t with value := t.value.map (· * c) }

theorem scaleTargets_n (t : Tree) (c : Rat) : (scaleTargets t c).n = t.n := by
  simp [scaleTargets, Tree.n]

theorem parentOf_scale (t : Tree) (c : Rat) (k : Nat) : parentOf (scaleTargets t c) k = parentOf t k := rfl

theorem directDescr_scale (t : Tree) (c : Rat) (nxt : Rat → Rat) (k : Nat) (thr : Rat) :
    directDescr (scaleTargets t c) nxt k thr = directDescr t nxt k thr := rfl

theorem nodes1_scale (t : Tree) (c : Rat) : nodes1 (scaleTargets t c) = nodes1 t := by
  simp [nodes1, scaleTargets_n]

theorem parseLoop_scale (t : Tree) (c : Rat) (m : Nat) (nxt : Rat → Rat) :
    ∀ (ks : List Nat) (dps ps : List Prem),
      parseLoop (scaleTargets t c) m nxt ks dps ps = parseLoop t m nxt ks dps ps := by
  intro ks
  induction ks with
  | nil => intro dps ps; rfl
  | cons k rest ih =>
    intro dps ps
    simp only [parseLoop, parentOf_scale, directDescr_scale]
    have h1 : (scaleTargets t c).threshold = t.threshold := rfl
    have h2 : (scaleTargets t c).feature = t.feature := rfl
    rw [h1, h2]
    cases parentOf t k with
    | none => rfl
    | some p =>
      simp only
      cases t.threshold[p]? <;> cases t.feature[p]? <;> cases ps[p]? <;> try rfl
      rename_i thr f ppre
      simp only
      cases accumulate m (directDescr t nxt k thr) ppre [(f, directDescr t nxt k thr)] with
      | error e => rfl
      | ok premise => exact ih _ _

theorem parentsList_scale (t : Tree) (c : Rat) :
    ∀ ks : List Nat, parentsList (scaleTargets t c) ks = parentsList t ks := by
  intro ks
  induction ks with
  | nil => rfl
  | cons k rest ih =>
    simp only [parentsList, parentOf_scale, ih]

theorem sub_mul' (a b c : Rat) : a * c - b * c = (a - b) * c := by
  rw [Rat.sub_eq_add_neg, Rat.sub_eq_add_neg, Rat.add_mul, Rat.neg_mul]

theorem deltas_scale (v : List Rat) (c : Rat) :
    ∀ (ks : List Nat) (ps : List (Option Nat)),
      deltas (v.map (· * c)) ks ps = (deltas v ks ps).map (List.map (· * c)) := by
  intro ks
  induction ks with
  | nil => intro ps; cases ps <;> simp [deltas, Except.map]
  | cons k rest ih =>
    intro ps
    cases ps with
    | nil => simp [deltas, Except.map]
    | cons p ps' =>
      cases p with
      | none => simp [deltas, Except.map]
      | some p =>
        simp only [deltas, List.getElem?_map, ih]
        cases v[k]? <;> cases v[p]? <;> simp [Except.map]
        rename_i a b
        cases deltas v rest ps' <;> simp [sub_mul']

theorem mkDecisions_scale (c : Rat) : ∀ (i : Nat) (ps : List (Option Nat)) (dps : List Prem) (ds : List Rat),
    mkDecisions i ps dps (ds.map (· * c)) = (mkDecisions i ps dps ds).map fun kv => (kv.1, kv.2 * c) := by
  intro i ps
  induction ps generalizing i with
  | nil => intro dps ds; simp [mkDecisions]
  | cons p ps ih =>
    intro dps ds
    cases dps with
    | nil => simp [mkDecisions]
    | cons dp dps =>
      cases ds with
      | nil => simp [mkDecisions]
      | cons d ds => simp [mkDecisions, ih]

/-- `_parse_dt_arrays_to_drules` on the scaled targets: the same parents and premises, `dtargets` scaled -/
theorem parse_scale (t : Tree) (c : Rat) (m : Nat) (nxt : Rat → Rat) :
    parse (scaleTargets t c) m nxt =
      (parse t m nxt).map fun r => { r with dtargets := r.dtargets.map (· * c) } := by
  simp only [parse, nodes1_scale, parentsList_scale, parseLoop_scale]
  have hv : (scaleTargets t c).value = t.value.map (· * c) := rfl
  rw [hv]
  cases parentsList t (nodes1 t) with
  | error e => rfl
  | ok pl =>
    simp only
    cases parseLoop t m nxt (nodes1 t) [[]] [[]] with
    | error e => rfl
    | ok dp =>
      obtain ⟨dps, ps⟩ := dp
      simp only
      rw [deltas_scale]
      cases deltas t.value (nodes1 t) pl with
      | error e => rfl
      | ok ds => simp [Except.map, List.map_take]

/-- `from_decision_tree` on the scaled targets: the same lattice (concepts, top, generators), every decision
    multiplied by `c` — i.e. exactly what `__imul__` makes of the unscaled result; the same exception otherwise -/
theorem fromDecisionTree_scale (t : Tree) (c : Rat) (X : Rows) (m : Nat) (nxt : Rat → Rat) :
    fromDecisionTree (scaleTargets t c) X m nxt = (fromDecisionTree t X m nxt).map fun L => imul L c := by
  simp only [fromDecisionTree, parse_scale]
  cases parse t m nxt with
  | error e => rfl
  | ok r =>
    simp only [Except.map]
    cases conceptsFrom X m r.premises with
    | error e => rfl
    | ok concepts =>
      simp only [mkDecisions_scale]
      split
      · rfl
      · split
        · rfl
        · split
          · rfl
          · rfl

theorem treePredict_scale (t : Tree) (c : Rat) (x : List Rat) :
    treePredict (scaleTargets t c) x = treePredict t x * c := by
  have hd : ∀ fuel i, descend (scaleTargets t c) x fuel i = descend t x fuel i := by
    intro fuel
    induction fuel with
    | zero => intro i; rfl
    | succ n ih =>
      intro i
      simp only [descend]
      have h1 : (scaleTargets t c).left = t.left := rfl
      have h2 : (scaleTargets t c).right = t.right := rfl
      have h3 : (scaleTargets t c).feature = t.feature := rfl
      have h4 : (scaleTargets t c).threshold = t.threshold := rfl
      rw [h1, h2, h3, h4]
      split
      · split
        · rfl
        · split <;> exact ih _
      · rfl
  unfold treePredict
  rw [hd, scaleTargets_n]
  have hv : (scaleTargets t c).value = t.value.map (· * c) := rfl
  rw [hv]
  simp only [List.getD_eq_getElem?_getD, List.getElem?_map]
  cases t.value[descend t x t.n 0]? <;> simp [Rat.zero_mul]

end Fca.DL

/-
  Fca.Lemmas.MeasuresCount — combinatorics behind C16:
  * `utils.powerset` (chain of `combinations`) enumerates exactly the sublists (a permutation of `Spec.sublists`);
  * the number of sublists of `l` all of whose members satisfy `p` is `2 ^ (number of members of l satisfying p)`;
  * union bound for `countP`.
-/
import Fca.Model.Measures
import Fca.Spec.Measures
import Fca.Lemmas.Galois
import Mathlib.Data.List.Perm.Basic
namespace Fca.Measures
open Fca Fca.Spec

/-! ### powerset -/

theorem combinations_zero (s : List Nat) : combinations s 0 = [[]] := by
  cases s <;> rfl

theorem combinations_of_length_lt : ∀ (s : List Nat) (r : Nat), s.length < r → combinations s r = []
  | [], r + 1, _ => rfl
  | [], 0, h => by simp at h
  | x :: xs, 0, h => by simp at h
  | x :: xs, r + 1, h => by
    have h' : xs.length < r := by simpa using h
    simp [combinations, combinations_of_length_lt xs r h', combinations_of_length_lt xs (r + 1) (by omega)]

theorem powerset_eq_head (s : List Nat) :
    powerset s = [[]] ++ (List.range s.length).flatMap (fun r => combinations s (r + 1)) := by
  unfold powerset
  rw [List.range_succ_eq_map, List.flatMap_cons, List.flatMap_map, combinations_zero]

/-- `utils.powerset(s)` lists exactly the sublists of `s` (each position subset once). -/
theorem powerset_perm_sublists (s : List Nat) : (powerset s).Perm (sublists s) := by
  induction s with
  | nil => exact List.Perm.refl _
  | cons x xs ih =>
    have hG : [[]] ++ (List.range (xs.length + 1)).flatMap (fun r => combinations xs (r + 1)) = powerset xs := by
      rw [powerset_eq_head xs, List.range_succ, List.flatMap_append]
      simp [combinations_of_length_lt xs (xs.length + 1) (by omega)]
    have hM : (List.range (xs.length + 1)).flatMap (fun r => (combinations xs r).map (x :: ·))
        = (powerset xs).map (x :: ·) := by
      unfold powerset
      rw [List.map_flatMap]
    rw [powerset_eq_head (x :: xs)]
    simp only [List.length_cons, combinations]
    have h1 := (List.flatMap_append_perm (List.range (xs.length + 1))
      (fun r => (combinations xs r).map (x :: ·)) (fun r => combinations xs (r + 1))).symm
    refine ((h1.append_left [[]]).trans ?_)
    rw [hM]
    -- [[]] ++ (map ++ G) ~ ([[]] ++ G) ++ map
    have h2 : ([[]] ++ ((powerset xs).map (x :: ·)
        ++ (List.range (xs.length + 1)).flatMap (fun r => combinations xs (r + 1)))).Perm
        (([[]] ++ (List.range (xs.length + 1)).flatMap (fun r => combinations xs (r + 1)))
          ++ (powerset xs).map (x :: ·)) := by
      rw [List.append_assoc]
      exact List.Perm.append_left _ List.perm_append_comm
    refine h2.trans ?_
    rw [hG]
    show (powerset xs ++ (powerset xs).map (x :: ·)).Perm (sublists xs ++ (sublists xs).map (x :: ·))
    exact ih.append (ih.map _)

/-! ### counting sublists -/

/-- the sublists of `l` lying inside the set `{x | p x}` number `2 ^ |{x ∈ l | p x}|` -/
theorem countP_sublists_all (p : Nat → Bool) (l : List Nat) :
    (sublists l).countP (fun S => S.all p) = 2 ^ (l.countP p) := by
  induction l with
  | nil => simp [sublists]
  | cons x xs ih =>
    simp only [sublists, List.countP_append, List.countP_map]
    have hcomp : ((fun S : List Nat => S.all p) ∘ fun x_1 => x :: x_1) = fun S => p x && S.all p := by
      funext S; simp
    rw [hcomp, ih]
    by_cases hp : p x = true
    · simp only [hp, Bool.true_and, List.countP_cons_of_pos]
      rw [ih]; omega
    · have hp' : p x = false := by simpa using hp
      rw [List.countP_cons_of_neg (by simp [hp'])]
      simp [hp']

theorem length_sublists (l : List Nat) : (sublists l).length = 2 ^ l.length := by
  induction l with
  | nil => simp [sublists]
  | cons x xs ih => simp only [sublists, List.length_append, List.length_map, ih, List.length_cons]; omega

theorem countP_or_le {α} (p q : α → Bool) (l : List α) :
    l.countP (fun x => p x || q x) ≤ l.countP p + l.countP q := by
  induction l with
  | nil => simp
  | cons a as ih =>
    simp only [List.countP_cons]
    cases p a <;> cases q a <;> simp <;> omega

/-- union bound -/
theorem countP_any_le_sum {α γ} (cs : List γ) (P : γ → α → Bool) (l : List α) :
    l.countP (fun S => cs.any (fun c => P c S)) ≤ (cs.map fun c => l.countP (P c)).sum := by
  induction cs with
  | nil => simp
  | cons c cs ih =>
    simp only [List.any_cons, List.map_cons, List.sum_cons]
    exact Nat.le_trans (countP_or_le _ _ l) (Nat.add_le_add_left ih _)

theorem countP_mono_of_imp {α} (p q : α → Bool) (l : List α) (h : ∀ x ∈ l, p x = true → q x = true) :
    l.countP p ≤ l.countP q := List.countP_mono_left h

end Fca.Measures

/-
  Lemmas/PosetStep2 — one step of the machine, every operation (including `add(·, fill_up_cache=True)` on a
  caching instance).
-/
import Fca.Lemmas.PosetAdd7
set_option linter.unusedSectionVars false
namespace Fca.Poset
open Fca Fca.Poset.Fresh

section
variable {α : Type} [DecidableEq α] {leq : α → α → Bool} {ord : List Nat → List Nat}
variable {E : List α} {U : α → Prop}

theorem addFillOK (hpoU : PO leq U) (hord : ∀ l, (ord l).Perm l) (hnd : E.Nodup) (hU : ∀ a ∈ E, U a)
    {s : St α} (h : InvB leq E Ghost.none true s) {e : α} (heU : U e) (he : e ∉ E) :
    AddFillOK leq ord E s e := by
  have hpo : IdxPO leq E := idxPO_of hpoU hnd hU
  have hnd' : (E ++ [e]).Nodup := by
    rw [List.nodup_append]
    exact ⟨hnd, by simp, fun a ha b hb => by simp at hb; subst hb; intro e'; subst e'; exact he ha⟩
  have hU' : ∀ a ∈ E ++ [e], U a := by
    intro a ha
    rcases List.mem_append.mp ha with h1 | h1
    · exact hU a h1
    · simp at h1; subst h1; exact heU
  have hpo' : IdxPO leq (E ++ [e]) := idxPO_of hpoU hnd' hU'
  obtain ⟨s', b, hrun, hinv⟩ := addE_fill_spec hpo hpo' hord h he
  exact ⟨s', hrun, hinv⟩

theorem step_spec_full (hpoU : PO leq U) (hord : ∀ l, (ord l).Perm l) (hnd : E.Nodup) (hU : ∀ a ∈ E, U a)
    {c : Bool} {s : St α} (h : InvB leq E Ghost.none c s) (op : Op α) (hok : opOk E c op = true)
    (hin : OpIn U op) :
    InvB leq (next E op) Ghost.none c (step leq ord s op).1 ∧
      (step leq ord s op).2 = answer leq E op := by
  apply step_spec hpoU hord hnd hU h op hok
  intro e hop hc he
  subst hop; subst hc
  exact addFillOK hpoU hord hnd hU h hin he

end
end Fca.Poset

/-
  Totality of `calc_levels` (and of `fcart_layout`): on a finite acyclic cover relation given from both
  sides the FIFO loop places every node within the default fuel.
-/
import Fca.Lemmas.Layout
import Fca.Lemmas.Fcart
namespace Fca.Layout

/-- the hypotheses under which `calc_levels` is shown to return: the data is a finite acyclic cover
    relation seen from both sides -/
structure WFP2 (P : PosetData) : Prop extends WFP P where
  chi_sub    : ∀ q, q < P.n → ∀ c ∈ P.chi q, c < P.n ∧ q ∈ P.par c
  par_sub    : ∀ c, c < P.n → ∀ q ∈ P.par c, c ∈ P.chi q
  tops_nodup : P.tops.Nodup
  tops_lt    : ∀ t ∈ P.tops, t < P.n
  chi_nodup  : ∀ q, q < P.n → (P.chi q).Nodup
  acyclic    : ∃ rk : Nat → Nat, ∀ i, i < P.n → ∀ p ∈ P.par i, rk p < rk i

/-- `children` is the transpose of `parents` -/
theorem WFP2.chi_par {P : PosetData} (hP : WFP2 P) (q c : Nat) (hq : q < P.n) :
    c ∈ P.chi q ↔ c < P.n ∧ q ∈ P.par c :=
  ⟨fun h => hP.chi_sub q hq c h, fun h => hP.par_sub c h.1 q h.2⟩

/-- number of nodes not placed yet -/
def unplaced (n : Nat) (lv : List Int) : Nat := (List.range n).countP fun i => decide (lvAt lv i < 0)

theorem countP_update (p p' : Nat → Bool) (q : Nat) : ∀ n, q < n → p q = true → p' q = false →
    (∀ j, j ≠ q → p' j = p j) → (List.range n).countP p' + 1 = (List.range n).countP p
  | 0, h, _, _, _ => absurd h (Nat.not_lt_zero _)
  | n + 1, h, hp, hp', hs => by
    rw [List.range_succ, List.countP_append, List.countP_append]
    simp only [List.countP_cons, List.countP_nil, Nat.zero_add]
    by_cases hq : q = n
    · subst hq
      have : (List.range q).countP p' = (List.range q).countP p := by
        apply List.countP_congr
        intro x hx
        have := List.mem_range.mp hx
        rw [hs x (by omega)]
      rw [this, hp, hp']; simp
    · have := countP_update p p' q n (by omega) hp hp' hs
      rw [hs n (fun e => hq e.symm)]
      omega

theorem maxL_isSome : ∀ {l : List Int}, l ≠ [] → ∃ m, maxL l = some m
  | [], h => absurd rfl h
  | x :: xs, _ => by
    simp only [maxL]
    split
    · exact ⟨_, rfl⟩
    · exact ⟨_, rfl⟩

structure J (P : PosetData) (lv : List Int) (queue : List Nat) : Prop where
  len   : lv.length = P.n
  ge    : ∀ i, -1 ≤ lvAt lv i
  qnd   : queue.Nodup
  qmem  : ∀ x ∈ queue, x < P.n ∧ lvAt lv x < 0 ∧ (x ∈ P.tops ∨ ∀ p ∈ P.par x, 0 ≤ lvAt lv p)
  ready : ∀ i, i < P.n → lvAt lv i < 0 → (i ∈ P.tops ∨ ∀ p ∈ P.par i, 0 ≤ lvAt lv p) → i ∈ queue

theorem j_step {P : PosetData} (hP : WFP2 P) {lv : List Int} {q : Nat} {rest : List Nat}
    (hJ : J P lv (q :: rest)) :
    ∃ v, newLevel P lv q = some v ∧
      J P (lv.set q v) (rest ++ toVisit P (lv.set q v) q) ∧
      unplaced P.n (lv.set q v) + 1 = unplaced P.n lv := by
  obtain ⟨hqn, hq0, hqr⟩ := hJ.qmem q List.mem_cons_self
  have hqlen : q < lv.length := hJ.len ▸ hqn
  -- the value
  have hv : ∃ v, newLevel P lv q = some v ∧ 0 ≤ v := by
    unfold newLevel
    by_cases ht : q ∈ P.tops
    · exact ⟨0, by simp only [ht, ↓reduceIte], Int.le_refl _⟩
    · simp only [ht, ↓reduceIte]
      have hne : P.par q ≠ [] := fun e => ht (hP.nil_top q hqn e)
      obtain ⟨m, hm⟩ := maxL_isSome (l := (P.par q).map (lvAt lv)) (by simpa using hne)
      refine ⟨m + 1, by simp only [hm, Option.map_some], ?_⟩
      obtain ⟨hmem, _⟩ := maxL_spec hm
      obtain ⟨p, _, rfl⟩ := List.mem_map.mp hmem
      have := hJ.ge p; omega
  obtain ⟨v, hv, hv0⟩ := hv
  refine ⟨v, hv, ?_, ?_⟩
  · have hat : ∀ j, lvAt (lv.set q v) j = if j = q then v else lvAt lv j := by
      intro j; rw [lvAt_set]; simp only [hqlen, and_true]
    have hmono : ∀ p, 0 ≤ lvAt lv p → 0 ≤ lvAt (lv.set q v) p := by
      intro p hp; rw [hat]; split
      · exact hv0
      · exact hp
    obtain ⟨hqrest, hrnd⟩ := List.nodup_cons.mp hJ.qnd
    have htv : ∀ c ∈ toVisit P (lv.set q v) q,
        c < P.n ∧ q ∈ P.par c ∧ lvAt (lv.set q v) c = -1 ∧ ∀ p ∈ P.par c, 0 ≤ lvAt (lv.set q v) p := by
      intro c hc
      simp only [toVisit, List.mem_filter, Bool.and_eq_true, beq_iff_eq, List.all_eq_true,
        decide_eq_true_eq] at hc
      obtain ⟨h1, h2, h3⟩ := hc
      obtain ⟨h4, h5⟩ := (hP.chi_par q c hqn).mp h1
      exact ⟨h4, h5, h2, h3⟩
    refine ⟨by rw [List.length_set]; exact hJ.len, ?_, ?_, ?_, ?_⟩
    · intro i; rw [hat]; split
      · omega
      · exact hJ.ge i
    · -- nodup
      apply List.nodup_append.mpr
      refine ⟨hrnd, ?_, ?_⟩
      · exact List.Pairwise.filter _ (hP.chi_nodup q hqn)
      · intro a ha b hb hab
        subst hab
        obtain ⟨_, hqp, _, _⟩ := htv a hb
        obtain ⟨_, _, hr⟩ := hJ.qmem a (List.mem_cons_of_mem _ ha)
        rcases hr with hr | hr
        · rw [hP.top_nil a hr] at hqp; cases hqp
        · have := hr q hqp; omega
    · intro x hx
      rcases List.mem_append.mp hx with hx | hx
      · obtain ⟨h1, h2, h3⟩ := hJ.qmem x (List.mem_cons_of_mem _ hx)
        have hxq : x ≠ q := fun e => hqrest (e ▸ hx)
        refine ⟨h1, by rw [hat]; simp only [hxq, ↓reduceIte]; exact h2, ?_⟩
        rcases h3 with h3 | h3
        · exact Or.inl h3
        · exact Or.inr (fun p hp => hmono p (h3 p hp))
      · obtain ⟨h1, _, h3, h4⟩ := htv x hx
        exact ⟨h1, by omega, Or.inr h4⟩
    · intro i hin hi0 hr
      have hiq : i ≠ q := by
        intro e; subst e; rw [hat] at hi0; simp only [↓reduceIte] at hi0; omega
      have hi0' : lvAt lv i < 0 := by rw [hat] at hi0; simpa only [hiq, ↓reduceIte] using hi0
      by_cases hold : i ∈ P.tops ∨ ∀ p ∈ P.par i, 0 ≤ lvAt lv p
      · rcases List.mem_cons.mp (hJ.ready i hin hi0' hold) with e | e
        · exact absurd e hiq
        · exact List.mem_append_left _ e
      · -- became ready through q
        have hnt : i ∉ P.tops := fun h => hold (Or.inl h)
        have hall : ∀ p ∈ P.par i, 0 ≤ lvAt (lv.set q v) p := by
          rcases hr with h | h
          · exact absurd h hnt
          · exact h
        have hqpar : q ∈ P.par i := by
          apply Classical.byContradiction
          intro hnq
          apply hold; right
          intro p hp
          have := hall p hp
          rw [hat] at this
          have hpq : p ≠ q := fun e => hnq (e ▸ hp)
          simpa only [hpq, ↓reduceIte] using this
        apply List.mem_append_right
        simp only [toVisit, List.mem_filter, Bool.and_eq_true, beq_iff_eq, List.all_eq_true,
          decide_eq_true_eq]
        refine ⟨(hP.chi_par q i hqn).mpr ⟨hin, hqpar⟩, ?_, hall⟩
        have := hJ.ge i
        rw [hat]; simp only [hiq, ↓reduceIte]; omega
  · unfold unplaced
    apply countP_update _ _ q P.n hqn
    · simpa using hq0
    · rw [lvAt_set]; simp only [hqlen, and_self, ↓reduceIte]; simpa using hv0
    · intro j hj
      rw [lvAt_set]; simp only [hj, false_and, ↓reduceIte]

theorem levelsLoop_total {P : PosetData} (hP : WFP2 P) : ∀ (fuel : Nat) (queue : List Nat) (lv : List Int),
    J P lv queue → unplaced P.n lv ≤ fuel → ∃ lvf, levelsLoop P fuel queue lv = .ok lvf ∧ J P lvf []
  | _, [], lv, hJ, _ => ⟨lv, by simp only [levelsLoop], hJ⟩
  | 0, q :: rest, lv, hJ, hf => by
    exfalso
    obtain ⟨_, _, _, h⟩ := j_step hP hJ
    omega
  | fuel + 1, q :: rest, lv, hJ, hf => by
    obtain ⟨v, hv, hJ', hu⟩ := j_step hP hJ
    simp only [levelsLoop, hv]
    exact levelsLoop_total hP fuel _ _ hJ' (by omega)

/-- with an empty queue nothing is left unplaced -/
theorem all_placed {P : PosetData} (hP : WFP2 P) {lv : List Int} (hJ : J P lv []) :
    ∀ i, i < P.n → 0 ≤ lvAt lv i := by
  obtain ⟨rk, hrk⟩ := hP.acyclic
  have : ∀ b i, i < P.n → rk i < b → 0 ≤ lvAt lv i := by
    intro b
    induction b with
    | zero => intro i _ h; omega
    | succ b ih =>
      intro i hi hb
      apply Classical.byContradiction
      intro hneg
      have hready : i ∈ P.tops ∨ ∀ p ∈ P.par i, 0 ≤ lvAt lv p :=
        Or.inr (fun p hp => ih p (hP.par_lt i hi p hp) (by have := hrk i hi p hp; omega))
      have := hJ.ready i hi (by omega) hready
      cases this
  intro i hi
  exact this (rk i + 1) i hi (Nat.lt_succ_self _)

/-- `calc_levels` returns on every non-empty finite acyclic cover relation, with the default fuel -/
theorem calcLevels_total {P : PosetData} (hP : WFP2 P) (hn : P.n ≠ 0) :
    ∃ l ld, calcLevels P (defaultFuel P) = .ok (l, ld) := by
  have hinit : J P (List.replicate P.n (-1)) P.tops := by
    have hall : ∀ i, lvAt (List.replicate P.n (-1)) i = -1 := by
      intro i
      simp only [lvAt, List.getD_eq_getElem?_getD, List.getElem?_replicate]
      split <;> rfl
    refine ⟨List.length_replicate, fun i => by rw [hall]; exact Int.le_refl _, hP.tops_nodup, ?_, ?_⟩
    · intro x hx; exact ⟨hP.tops_lt x hx, by rw [hall]; decide, Or.inl hx⟩
    · intro i hi _ hr
      rcases hr with h | h
      · exact h
      · apply hP.nil_top i hi
        apply List.eq_nil_iff_forall_not_mem.mpr
        intro p hp
        have := h p hp
        rw [hall] at this
        exact absurd this (by decide)
  have hfuel : unplaced P.n (List.replicate P.n (-1)) ≤ defaultFuel P := by
    unfold unplaced defaultFuel
    have := List.countP_le_length (p := fun i => decide (lvAt (List.replicate P.n (-1)) i < 0)) (l := List.range P.n)
    rw [List.length_range] at this
    omega
  obtain ⟨lvf, hloop, hJf⟩ := levelsLoop_total hP _ _ _ hinit hfuel
  have hpl := all_placed hP hJf
  unfold calcLevels
  rw [hloop]
  simp only [hn, ↓reduceIte]
  have hany : lvf.any (· < 0) = false := by
    apply Bool.eq_false_iff.mpr
    intro h
    simp only [List.any_eq_true, decide_eq_true_eq] at h
    obtain ⟨x, hx, hx0⟩ := h
    obtain ⟨i, hi, rfl⟩ := List.getElem_of_mem hx
    have := hpl i (hJf.len ▸ hi)
    simp only [lvAt, List.getD_eq_getElem?_getD, List.getElem?_eq_getElem hi, Option.getD_some] at this
    omega
  simp only [hany, Bool.false_eq_true, ↓reduceIte]
  exact ⟨_, _, rfl⟩

/-! ### `fcart_layout` returns -/

theorem mapM_ok {α β} (f : α → Except VErr β) : ∀ (l : List α), (∀ x ∈ l, ∃ y, f x = .ok y) → ∃ r, l.mapM f = .ok r
  | [], _ => ⟨[], by simp only [List.mapM_nil, pure, Except.pure]⟩
  | a :: as, h => by
    obtain ⟨y, hy⟩ := h a List.mem_cons_self
    obtain ⟨r, hr⟩ := mapM_ok f as (fun x hx => h x (List.mem_cons_of_mem _ hx))
    exact ⟨y :: r, by simp only [List.mapM_cons, hy, hr, bind, Except.bind, pure, Except.pure]⟩

theorem fcartLevels_ok {P : PosetData} {c : Rat} {dpth : Int} {cl : List Nat} {ld : List (List Nat)} :
    ∀ (rest : List (List Nat)) (lvl : Nat) (idOn : List Nat),
    (∀ k (h : k < rest.length), lvl + k ≠ 0 → ∀ e ∈ rest[k], P.par e ≠ []) →
    ∃ idOnF, fcartLevels P c dpth cl ld rest lvl idOn = .ok idOnF
  | [], _, idOn, _ => ⟨idOn, rfl⟩
  | es :: rest, lvl, idOn, h => by
    have h0 : ∃ idOn1, fcartLevel P c dpth cl ld idOn lvl es = .ok idOn1 := by
      unfold fcartLevel
      by_cases hl : lvl = 0
      · simp only [hl, ne_eq, not_true_eq_false, ↓reduceIte]; exact ⟨_, rfl⟩
      · simp only [ne_eq, hl, not_false_eq_true, ↓reduceIte]
        obtain ⟨r, hr⟩ := mapM_ok (priority P c dpth cl ld idOn) es (by
          intro x hx
          have hne := h 0 (by simp) (by simpa using hl) x (by simpa using hx)
          unfold priority
          have : (P.par x).length ≠ 0 := fun e => hne (List.eq_nil_of_length_eq_zero e)
          simp only [this, ↓reduceIte]
          exact ⟨_, rfl⟩)
        rw [hr]; exact ⟨_, rfl⟩
    obtain ⟨idOn1, h1⟩ := h0
    obtain ⟨idOnF, hF⟩ := fcartLevels_ok (P := P) (c := c) (dpth := dpth) (cl := cl) (ld := ld) rest (lvl + 1) idOn1 (by
      intro k hk hne e he
      exact h (k + 1) (by simp only [List.length_cons]; omega) (by omega) e (by simpa using he))
    exact ⟨idOnF, by simp only [fcartLevels, h1, hF]⟩

/-- `fcart_layout` returns on every non-empty finite acyclic cover relation -/
theorem fcartLayout_total {P : PosetData} (hP : WFP2 P) (hn : P.n ≠ 0) (c : Rat) (dpth : Int) :
    ∃ pos, fcartLayout P (defaultFuel P) c dpth = .ok pos := by
  obtain ⟨cl, ld, hc⟩ := calcLevels_total hP hn
  obtain ⟨h1, h2, h3⟩ := calcLevels_good hP.toWFP hc
  obtain ⟨idOn, hi⟩ := fcartLevels_ok (P := P) (c := c) (dpth := dpth) (cl := cl) (ld := ld) ld 0
    (List.replicate P.n 0) (by
      intro k hk hne e he hnil
      subst h2
      simp only [levelsDict, List.getElem_map, List.getElem_range, List.mem_filter, List.mem_range,
        beq_iff_eq] at he
      have := goodLevel_nil (h3 e (h1 ▸ he.1)) hnil
      omega)
  exact ⟨(List.range cl.length).map fun i => (fcartX cl ld idOn i, fcartY cl ld i),
    by simp only [fcartLayout, hc, hi]⟩

end Fca.Layout

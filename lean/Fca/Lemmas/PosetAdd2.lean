/-
  Lemmas/PosetAdd2 — the breadth-first search of `_trace_elements_both_directions`, order-theoretic part:
  the loop invariant `BInv`, its preservation by the two kinds of iterations, and what it gives at termination:
  the traced elements are exactly the set `D` (the elements on the `d` side of the new element), the final
  elements are the `d`-maximal members of `D`.
-/
import Fca.Lemmas.PosetAdd
set_option linter.unusedSectionVars false
namespace Fca.Poset
open Fca Fca.Poset.Fresh

section
variable {α : Type} [DecidableEq α] {leq : α → α → Bool} {E : List α}

theorem isCover_flip {d : Dir} {x k : Nat} :
    isCover leq d.flip E x k = true ↔ isCover leq d E k x = true := by
  rw [isCover_iff, isCover_iff, ltD_flip]
  constructor
  · rintro ⟨h1, h2⟩
    refine ⟨h1, fun z hz1 hz2 => h2 z ?_ ?_⟩
    · rw [ltD_flip]; exact hz2
    · rw [ltD_flip]; exact hz1
  · rintro ⟨h1, h2⟩
    refine ⟨h1, fun z hz1 hz2 => h2 z ?_ ?_⟩
    · rw [ltD_flip] at hz2; exact hz2
    · rw [ltD_flip] at hz1; exact hz1

/-- `D` is a set of valid indexes closed towards the `d` side -/
structure DownSet (leq : α → α → Bool) (d : Dir) (E : List α) (D : Nat → Bool) : Prop where
  lt : ∀ i, D i = true → i < E.length
  down : ∀ i j, D j = true → relD leq d E i j = true → D i = true

/-- loop invariant of the `while len(elements_to_visit) > 0` loop -/
structure BInv (leq : α → α → Bool) (d : Dir) (E : List α) (D : Nat → Bool) (tv tr fin : List Nat) : Prop where
  tvN : tv.Nodup
  trN : tr.Nodup
  finN : fin.Nodup
  disj : ∀ x ∈ tv, x ∉ tr
  tvD : ∀ x ∈ tv, D x = true
  trD : ∀ x ∈ tr, D x = true
  finSpec : ∀ x, x ∈ fin ↔ (x ∈ tr ∧ ∀ p, isCover leq d E x p = true → D p = false)
  closure : ∀ x ∈ tr, ∀ p, isCover leq d E x p = true → D p = true → p ∈ tr ∨ p ∈ tv
  start : ∀ b, b ∈ extremes leq d E → D b = true → b ∈ tr ∨ b ∈ tv

variable {d : Dir} {D : Nat → Bool}

theorem binv_init : BInv leq d E D ((extremes leq d E).filter D) [] [] := by
  refine ⟨?_, List.nodup_nil, List.nodup_nil, fun _ _ h => (by cases h), ?_, fun _ h => (by cases h),
    fun x => ?_, fun _ h => (by cases h), ?_⟩
  · exact (((pairwise_lt_filter_range _ _).imp (fun h => Nat.ne_of_lt h)).filter _)
  · intro x hx; exact (List.mem_filter.mp hx).2
  · simp
  · intro b hb hD; exact Or.inr (List.mem_filter.mpr ⟨hb, hD⟩)

/-- iteration in which the popped element has no successor in `D` -/
theorem binv_step_empty {el : Nat} {rest tr fin : List Nat} (h : BInv leq d E D (el :: rest) tr fin)
    (hnx : ∀ p, isCover leq d E el p = true → D p = false) :
    BInv leq d E D rest (setInsert el tr) (setInsert el fin) := by
  have helr : el ∉ rest := (List.nodup_cons.mp h.tvN).1
  have helt : el ∉ tr := h.disj el List.mem_cons_self
  refine ⟨(List.nodup_cons.mp h.tvN).2, nodup_setInsert h.trN, nodup_setInsert h.finN, ?_, ?_, ?_, ?_, ?_, ?_⟩
  · intro x hx hxt
    rcases mem_setInsert.mp hxt with e | hxt
    · subst e; exact helr hx
    · exact h.disj x (List.mem_cons_of_mem _ hx) hxt
  · intro x hx; exact h.tvD x (List.mem_cons_of_mem _ hx)
  · intro x hx
    rcases mem_setInsert.mp hx with e | hx
    · subst e; exact h.tvD x List.mem_cons_self
    · exact h.trD x hx
  · intro x
    rw [mem_setInsert, mem_setInsert, h.finSpec x]
    constructor
    · rintro (e | ⟨h1, h2⟩)
      · subst e; exact ⟨Or.inl rfl, hnx⟩
      · exact ⟨Or.inr h1, h2⟩
    · rintro ⟨e | h1, h2⟩
      · exact Or.inl e
      · exact Or.inr ⟨h1, h2⟩
  · intro x hx p hc hD
    rcases mem_setInsert.mp hx with e | hx
    · subst e; rw [hnx p hc] at hD; cases hD
    · rcases h.closure x hx p hc hD with h1 | h1
      · exact Or.inl (mem_setInsert.mpr (Or.inr h1))
      · rcases List.mem_cons.mp h1 with e | h1
        · exact Or.inl (mem_setInsert.mpr (Or.inl e))
        · exact Or.inr h1
  · intro b hb hD
    rcases h.start b hb hD with h1 | h1
    · exact Or.inl (mem_setInsert.mpr (Or.inr h1))
    · rcases List.mem_cons.mp h1 with e | h1
      · exact Or.inl (mem_setInsert.mpr (Or.inl e))
      · exact Or.inr h1

/-- iteration in which the popped element has successors in `D`: the unseen ones are queued -/
theorem binv_step_nonempty {el : Nat} {rest tr fin nxt newl : List Nat} (h : BInv leq d E D (el :: rest) tr fin)
    (hnx : ∀ p, p ∈ nxt ↔ (isCover leq d E el p = true ∧ D p = true)) (hnn : nxt.Nodup)
    (hne : nxt ≠ []) (hnew : newl.Perm (setDiff (setDiff nxt (setInsert el tr)) rest)) :
    BInv leq d E D (rest ++ newl) (setInsert el tr) fin := by
  have helr : el ∉ rest := (List.nodup_cons.mp h.tvN).1
  have helt : el ∉ tr := h.disj el List.mem_cons_self
  have hmem : ∀ x, x ∈ newl ↔ ((x ∈ nxt ∧ x ∉ setInsert el tr) ∧ x ∉ rest) := by
    intro x; rw [hnew.mem_iff, mem_setDiff, mem_setDiff]
  have hnewN : newl.Nodup := hnew.nodup_iff.mpr (nodup_setDiff (nodup_setDiff hnn))
  refine ⟨?_, nodup_setInsert h.trN, h.finN, ?_, ?_, ?_, ?_, ?_, ?_⟩
  · rw [List.nodup_append]
    refine ⟨(List.nodup_cons.mp h.tvN).2, hnewN, ?_⟩
    intro a ha b hb e
    subst e
    exact ((hmem a).mp hb).2 ha
  · intro x hx hxt
    rcases List.mem_append.mp hx with hx | hx
    · rcases mem_setInsert.mp hxt with e | hxt
      · subst e; exact helr hx
      · exact h.disj x (List.mem_cons_of_mem _ hx) hxt
    · exact ((hmem x).mp hx).1.2 hxt
  · intro x hx
    rcases List.mem_append.mp hx with hx | hx
    · exact h.tvD x (List.mem_cons_of_mem _ hx)
    · exact ((hnx x).mp ((hmem x).mp hx).1.1).2
  · intro x hx
    rcases mem_setInsert.mp hx with e | hx
    · subst e; exact h.tvD x List.mem_cons_self
    · exact h.trD x hx
  · intro x
    rw [mem_setInsert, h.finSpec x]
    constructor
    · rintro ⟨h1, h2⟩; exact ⟨Or.inr h1, h2⟩
    · rintro ⟨e | h1, h2⟩
      · subst e
        obtain ⟨p, hp⟩ := List.exists_mem_of_ne_nil nxt hne
        have := (hnx p).mp hp
        rw [h2 p this.1] at this; cases this.2
      · exact ⟨h1, h2⟩
  · intro x hx p hc hD
    rcases mem_setInsert.mp hx with e | hx
    · subst e
      have hp : p ∈ nxt := (hnx p).mpr ⟨hc, hD⟩
      by_cases h1 : p ∈ setInsert x tr
      · exact Or.inl h1
      · by_cases h2 : p ∈ rest
        · exact Or.inr (List.mem_append.mpr (Or.inl h2))
        · exact Or.inr (List.mem_append.mpr (Or.inr ((hmem p).mpr ⟨⟨hp, h1⟩, h2⟩)))
    · rcases h.closure x hx p hc hD with h1 | h1
      · exact Or.inl (mem_setInsert.mpr (Or.inr h1))
      · rcases List.mem_cons.mp h1 with e | h1
        · exact Or.inl (mem_setInsert.mpr (Or.inl e))
        · exact Or.inr (List.mem_append.mpr (Or.inl h1))
  · intro b hb hD
    rcases h.start b hb hD with h1 | h1
    · exact Or.inl (mem_setInsert.mpr (Or.inr h1))
    · rcases List.mem_cons.mp h1 with e | h1
      · exact Or.inl (mem_setInsert.mpr (Or.inl e))
      · exact Or.inr (List.mem_append.mpr (Or.inl h1))

/-- the number of traced elements stays below the number of elements while something is queued -/
theorem binv_length (hD : DownSet leq d E D) {el : Nat} {rest tr fin : List Nat}
    (h : BInv leq d E D (el :: rest) tr fin) : tr.length + 1 ≤ E.length := by
  have helt : el ∉ tr := h.disj el List.mem_cons_self
  have hn : (el :: tr).Nodup := List.nodup_cons.mpr ⟨helt, h.trN⟩
  have hsub : (el :: tr) ⊆ List.range E.length := by
    intro x hx
    rcases List.mem_cons.mp hx with e | hx
    · subst e; exact List.mem_range.mpr (hD.lt x (h.tvD x List.mem_cons_self))
    · exact List.mem_range.mpr (hD.lt x (h.trD x hx))
  have := hn.length_le_of_subset hsub
  simpa using this

theorem binv_tr_length (hD : DownSet leq d E D) {tv tr fin : List Nat}
    (h : BInv leq d E D tv tr fin) : tr.length ≤ E.length := by
  have hsub : tr ⊆ List.range E.length := fun x hx => List.mem_range.mpr (hD.lt x (h.trD x hx))
  simpa using h.trN.length_le_of_subset hsub

variable (hpo : IdxPO leq E)
include hpo

/-- strict `d`-predecessors have strictly fewer strict `d`-predecessors -/
theorem closed_length_lt {c y : Nat} (h : ltD leq d E c y = true) :
    (closed leq d E c).length < (closed leq d E y).length := by
  have e : closed leq d E c = (closed leq d E y).filter (fun x => ltD leq d E x c) := by
    unfold closed
    rw [List.filter_filter]
    apply List.filter_congr
    intro x _
    cases hx : ltD leq d E x c
    · simp
    · simp [ltD_trans hpo d hx h]
  rw [e, List.length_filter_lt_length_iff_exists]
  exact ⟨c, mem_closed.mpr h, by simp [ltD_irrefl]⟩

/-- a set that contains the `d`-minimal members of `D` and is closed under covers inside `D` contains `D` -/
theorem downSet_induction (hD : DownSet leq d E D) (T : Nat → Prop)
    (hstart : ∀ b, b ∈ extremes leq d E → D b = true → T b)
    (hstep : ∀ x, T x → ∀ p, isCover leq d E x p = true → D p = true → T p) :
    ∀ y, D y = true → T y := by
  suffices H : ∀ m y, (closed leq d E y).length ≤ m → D y = true → T y from
    fun y hy => H _ y (Nat.le_refl _) hy
  intro m
  induction m with
  | zero =>
    intro y hlen hy
    apply hstart y _ hy
    unfold extremes
    rw [List.mem_filter]
    exact ⟨List.mem_range.mpr (hD.lt y hy), by
      rw [List.isEmpty_iff]; exact List.eq_nil_of_length_eq_zero (Nat.le_zero.mp hlen)⟩
  | succ m ih =>
    intro y hlen hy
    cases hcl : closed leq d E y with
    | nil =>
      apply hstart y _ hy
      unfold extremes
      rw [List.mem_filter]
      exact ⟨List.mem_range.mpr (hD.lt y hy), by rw [hcl]; rfl⟩
    | cons z zs =>
      have hz : ltD leq d E z y = true := mem_closed.mp (by rw [hcl]; exact List.mem_cons_self)
      obtain ⟨c, hc, _⟩ := exists_cover_above hpo d hz
      have hcy := (isCover_iff.mp hc).1
      have hDc : D c = true := hD.down c y hy (ltD_iff.mp hcy).1
      have := closed_length_lt hpo hcy
      exact hstep c (ih c (by omega) hDc) y hc hy

/-- at termination: the traced elements are `D`, the final ones its `d`-maximal members -/
theorem binv_done (hD : DownSet leq d E D) {tr fin : List Nat} (h : BInv leq d E D [] tr fin) :
    (∀ x, x ∈ tr ↔ D x = true) ∧
    (∀ x, x ∈ fin ↔ (D x = true ∧ ∀ z, D z = true → ltD leq d E x z = false)) := by
  have htr : ∀ x, x ∈ tr ↔ D x = true := by
    intro x
    refine ⟨h.trD x, ?_⟩
    apply downSet_induction hpo hD (fun x => x ∈ tr)
    · intro b hb hDb
      rcases h.start b hb hDb with h1 | h1
      · exact h1
      · cases h1
    · intro x hx p hc hDp
      rcases h.closure x hx p hc hDp with h1 | h1
      · exact h1
      · cases h1
  refine ⟨htr, fun x => ?_⟩
  rw [h.finSpec x, htr x]
  constructor
  · rintro ⟨hx, h2⟩
    refine ⟨hx, fun z hz => ?_⟩
    cases hxz : ltD leq d E x z
    · rfl
    · -- a cover of x below z lies in D
      have hzx : ltD leq d.flip E z x = true := by rw [ltD_flip]; exact hxz
      obtain ⟨c, hc, hzc⟩ := exists_cover_above hpo d.flip hzx
      rw [isCover_flip] at hc
      rw [relD_flip] at hzc
      have := h2 c hc
      rw [hD.down c z hz hzc] at this; cases this
  · rintro ⟨hx, h2⟩
    refine ⟨hx, fun p hc => ?_⟩
    cases hp : D p
    · rfl
    · have := h2 p hp
      rw [(isCover_iff.mp hc).1] at this; cases this

end
end Fca.Poset

/-
  Fca.Lemmas.MVBinarize — helper lemmas for property C14, part 2: binarisation.
  Sorting, `combinations`, the number and shape of the binary attributes of each structure, and the key
  fact that a column's binary attributes generate exactly that column's closure.
-/
import Fca.Lemmas.MVContext
namespace Fca.MV
open Fca

/-! ### insertion sort -/

section Sorting
variable {α : Type} (le : α → α → Bool)

theorem length_insertBy (x : α) (l : List α) : (Col.insertBy le x l).length = l.length + 1 := by
  induction l with
  | nil => rfl
  | cons y ys ih => simp only [Col.insertBy]; split <;> simp [ih]

theorem length_isort (l : List α) : (Col.isort le l).length = l.length := by
  induction l with
  | nil => rfl
  | cons x xs ih => simp [Col.isort, length_insertBy, ih]

theorem mem_insertBy (x y : α) (l : List α) : y ∈ Col.insertBy le x l ↔ y = x ∨ y ∈ l := by
  induction l with
  | nil => simp [Col.insertBy]
  | cons z zs ih =>
    simp only [Col.insertBy]
    split
    · simp
    · simp only [List.mem_cons, ih]
      constructor
      · rintro (h | h | h)
        · exact Or.inr (Or.inl h)
        · exact Or.inl h
        · exact Or.inr (Or.inr h)
      · rintro (h | h | h)
        · exact Or.inr (Or.inl h)
        · exact Or.inl h
        · exact Or.inr (Or.inr h)

theorem mem_isort (y : α) (l : List α) : y ∈ Col.isort le l ↔ y ∈ l := by
  induction l with
  | nil => simp [Col.isort]
  | cons x xs ih => simp [Col.isort, mem_insertBy, ih]

theorem pairwise_insertBy (total : ∀ a b, le a b = true ∨ le b a = true)
    (trans : ∀ a b c, le a b = true → le b c = true → le a c = true) (x : α) (l : List α)
    (h : l.Pairwise fun a b => le a b = true) : (Col.insertBy le x l).Pairwise fun a b => le a b = true := by
  induction l with
  | nil => simp [Col.insertBy]
  | cons y ys ih =>
    rw [List.pairwise_cons] at h
    simp only [Col.insertBy]
    split
    · rename_i hxy
      rw [List.pairwise_cons]
      refine ⟨?_, List.pairwise_cons.mpr h⟩
      intro z hz
      rcases List.mem_cons.mp hz with rfl | hz
      · exact hxy
      · exact trans _ _ _ hxy (h.1 z hz)
    · rename_i hxy
      have hyx : le y x = true := by
        rcases total x y with h' | h'
        · exact absurd h' hxy
        · exact h'
      rw [List.pairwise_cons]
      refine ⟨?_, ih h.2⟩
      intro z hz
      rcases (mem_insertBy le x z ys).mp hz with rfl | hz
      · exact hyx
      · exact h.1 z hz

theorem pairwise_isort (total : ∀ a b, le a b = true ∨ le b a = true)
    (trans : ∀ a b c, le a b = true → le b c = true → le a c = true) (l : List α) :
    (Col.isort le l).Pairwise fun a b => le a b = true := by
  induction l with
  | nil => simp [Col.isort]
  | cons x xs ih => exact pairwise_insertBy le total trans x _ ih

/-- an element of a sorted list is its head or lies in the tail, above the head -/
theorem isort_head_le (total : ∀ a b, le a b = true ∨ le b a = true)
    (trans : ∀ a b c, le a b = true → le b c = true → le a c = true) (refl : ∀ a, le a a = true)
    (l : List α) (h : α) (t : List α) (hs : Col.isort le l = h :: t) (x : α) (hx : x ∈ l) : le h x = true := by
  have hp := pairwise_isort le total trans l
  rw [hs, List.pairwise_cons] at hp
  have : x ∈ h :: t := by rw [← hs]; exact (mem_isort le x l).mpr hx
  rcases List.mem_cons.mp this with rfl | hxt
  · exact refl _
  · exact hp.1 x hxt

end Sorting

/-! ### combinations -/

theorem combs_zero (l : List Nat) : Col.combs l 0 = [[]] := by cases l <;> rfl

theorem combs_of_gt (l : List Nat) (k : Nat) (h : l.length < k) : Col.combs l k = [] := by
  induction l generalizing k with
  | nil => cases k with
    | zero => omega
    | succ k => rfl
  | cons x xs ih =>
    cases k with
    | zero => omega
    | succ k =>
      simp only [List.length_cons] at h
      simp [Col.combs, ih k (by omega), ih (k + 1) (by omega)]

/-- the number of combinations of sizes `< m` -/
def combCount (l : List Nat) (m : Nat) : Nat := ((List.range m).map fun k => (Col.combs l k).length).sum

theorem combCount_succ (l : List Nat) (m : Nat) :
    combCount l (m + 1) = combCount l m + (Col.combs l m).length := by
  unfold combCount
  rw [List.range_succ, List.map_append, List.sum_append_nat]
  simp

theorem combCount_cons (x : Nat) (xs : List Nat) (m : Nat) :
    combCount (x :: xs) (m + 1) = combCount xs m + combCount xs (m + 1) := by
  induction m with
  | zero => simp [combCount, combs_zero]
  | succ m ih =>
    rw [combCount_succ (x :: xs) (m + 1), ih, combCount_succ xs (m + 1), combCount_succ xs m]
    simp only [Col.combs, List.length_append, List.length_map]
    omega

theorem combCount_full (l : List Nat) : combCount l (l.length + 1) = 2 ^ l.length := by
  induction l with
  | nil => simp [combCount, combs_zero]
  | cons x xs ih =>
    simp only [List.length_cons]
    rw [combCount_cons, ih, combCount_succ, ih, combs_of_gt xs (xs.length + 1) (by omega)]
    simp only [List.length_nil, Nat.add_zero, Nat.pow_succ]
    omega

/-- every filtered sub-list of `l` is produced by `combinations(l, its length)` -/
theorem filter_mem_combs (l : List Nat) (p : Nat → Bool) :
    l.filter p ∈ Col.combs l (l.filter p).length := by
  induction l with
  | nil => simp [Col.combs]
  | cons x xs ih =>
    by_cases hp : p x = true
    · simp only [List.filter_cons, hp, ↓reduceIte, List.length_cons, Col.combs, List.mem_append,
        List.mem_map]
      exact Or.inl ⟨_, ih, rfl⟩
    · simp only [List.filter_cons, hp, Bool.false_eq_true, ↓reduceIte]
      generalize hk : (xs.filter p).length = k at ih
      cases k with
      | zero =>
        rw [combs_zero]
        have : xs.filter p = [] := List.eq_nil_of_length_eq_zero hk
        simp [this]
      | succ k =>
        simp only [Col.combs, List.mem_append, List.mem_map]
        exact Or.inr ih

/-! ### unique values of a SetPS column -/

theorem mem_foldl_unionL_rows (rows : List (List Nat)) (acc : List Nat) (x : Nat) :
    x ∈ rows.foldl Col.unionL acc ↔ x ∈ acc ∨ ∃ row ∈ rows, x ∈ row := by
  induction rows generalizing acc with
  | nil => simp
  | cons r rs ih =>
    simp only [List.foldl_cons, ih, mem_unionL, List.mem_cons, exists_eq_or_imp]
    constructor
    · rintro ((h | h) | h)
      · exact Or.inl h
      · exact Or.inr (Or.inl h)
      · exact Or.inr (Or.inr h)
    · rintro (h | h | h)
      · exact Or.inl (Or.inl h)
      · exact Or.inl (Or.inr h)
      · exact Or.inr h

theorem mem_uniqVals (data : List (List Nat)) (x : Nat) :
    x ∈ Col.uniqVals data ↔ ∃ row ∈ data, x ∈ row := by
  unfold Col.uniqVals
  rw [mem_foldl_unionL_rows]
  simp

/-! ### shape and number of the binary attributes -/

theorem getD_map_lt {α} (data : List α) (f : α → Bool) (dflt : α) (g : Nat) (hg : g < data.length) :
    (data.map f).getD g false = f (data.getD g dflt) := by
  simp [List.getD_eq_getElem?_getD, List.getElem?_map, List.getElem?_eq_getElem hg]

theorem getD_mem {α} (data : List α) (dflt : α) (g : Nat) (hg : g < data.length) : data.getD g dflt ∈ data := by
  rw [List.getD_eq_getElem?_getD, List.getElem?_eq_getElem hg]
  exact List.getElem_mem hg

theorem Col.binAttrExtents_length_each (c : Col) : ∀ E ∈ c.binAttrExtents, E.length = c.len := by
  intro E hE
  cases c with
  | interval data =>
    simp only [Col.binAttrExtents, Col.ivBinExtents, List.mem_append, List.mem_map, List.mem_cons,
      List.not_mem_nil, or_false] at hE
    rcases hE with ((rfl | ⟨_, _, rfl⟩) | ⟨_, _, rfl⟩) | rfl <;> simp [Col.len]
  | set data =>
    simp only [Col.binAttrExtents, Col.setBinExtents, List.mem_flatMap, List.mem_map] at hE
    obtain ⟨_, _, _, _, rfl⟩ := hE
    simp [Col.len]
  | attr data =>
    simp only [Col.binAttrExtents, List.mem_cons, List.not_mem_nil, or_false] at hE
    subst hE; rfl

theorem length_eraseDups_pos (l : List Int) (h : l ≠ []) : 1 ≤ l.eraseDups.length := by
  obtain ⟨a, as, rfl⟩ := List.exists_cons_of_ne_nil h
  rw [List.eraseDups_cons]
  simp

/-- declared number of binary attributes = number produced (the context has at least one object) -/
theorem Col.nBinAttrs_eq (c : Col) (h : 1 ≤ c.len) : c.nBinAttrs = c.binAttrExtents.length := by
  cases c with
  | interval data =>
    have hne : data ≠ [] := by intro h0; subst h0; simp [Col.len] at h
    have h1 := length_eraseDups_pos (data.map (·.1)) (by simpa using hne)
    have h2 := length_eraseDups_pos (data.map (·.2)) (by simpa using hne)
    simp only [Col.nBinAttrs, Col.binAttrExtents, Col.ivBinExtents, List.length_append, List.length_map,
      List.length_tail, length_isort, List.length_cons, List.length_nil]
    omega
  | set data =>
    simp only [Col.nBinAttrs, Col.binAttrExtents, Col.setBinExtents, List.length_flatMap, List.map_reverse,
      List.sum_reverse_nat, List.length_map]
    rw [← length_isort (fun a b => decide (a ≤ b)) (Col.uniqVals data)]
    exact (combCount_full _).symm
  | attr data => rfl

/-! ### a column's binary attributes generate the column's closure -/

theorem int_le_total (a b : Int) : decide (a ≤ b) = true ∨ decide (b ≤ a) = true := by
  simp only [decide_eq_true_eq]; omega
theorem int_le_trans (a b c : Int) : decide (a ≤ b) = true → decide (b ≤ c) = true → decide (a ≤ c) = true := by
  simp only [decide_eq_true_eq]; omega
theorem int_ge_total (a b : Int) : decide (b ≤ a) = true ∨ decide (a ≤ b) = true := by
  simp only [decide_eq_true_eq]; omega
theorem int_ge_trans (a b c : Int) : decide (b ≤ a) = true → decide (c ≤ b) = true → decide (c ≤ a) = true := by
  simp only [decide_eq_true_eq]; omega

theorem ivLoop_attained (data : List (Int × Int)) (gs : List Nat) (acc : Int × Int) :
    ((Col.ivLoop data gs acc).1 = acc.1 ∨ ∃ g ∈ gs, (Col.ivLoop data gs acc).1 = (data.getD g (0, 0)).1) ∧
    ((Col.ivLoop data gs acc).2 = acc.2 ∨ ∃ g ∈ gs, (Col.ivLoop data gs acc).2 = (data.getD g (0, 0)).2) := by
  induction gs generalizing acc with
  | nil => simp [Col.ivLoop]
  | cons g gs ih =>
    simp only [Col.ivLoop]
    generalize ha1 : (if (data.getD g (0, 0)).1 < acc.1 then (data.getD g (0, 0)).1 else acc.1) = a1
    generalize ha2 : (if (data.getD g (0, 0)).2 > acc.2 then (data.getD g (0, 0)).2 else acc.2) = a2
    have b1 : a1 = acc.1 ∨ a1 = (data.getD g (0, 0)).1 := by rw [← ha1]; split <;> simp
    have b2 : a2 = acc.2 ∨ a2 = (data.getD g (0, 0)).2 := by rw [← ha2]; split <;> simp
    obtain ⟨h1, h2⟩ := ih (a1, a2)
    simp only at h1 h2
    constructor
    · rcases h1 with h1 | ⟨x, hx, h1⟩
      · rcases b1 with b1 | b1
        · exact Or.inl (h1.trans b1)
        · exact Or.inr ⟨g, List.mem_cons_self, h1.trans b1⟩
      · exact Or.inr ⟨x, List.mem_cons_of_mem _ hx, h1⟩
    · rcases h2 with h2 | ⟨x, hx, h2⟩
      · rcases b2 with b2 | b2
        · exact Or.inl (h2.trans b2)
        · exact Or.inr ⟨g, List.mem_cons_self, h2.trans b2⟩
      · exact Or.inr ⟨x, List.mem_cons_of_mem _ hx, h2⟩

/-- the interval description of a non-empty `A`: attained bounds -/
theorem ivIntention_spec (data : List (Int × Int)) (a : Nat) (as : List Nat) :
    ∃ lo hi, Col.ivIntention data (a :: as) = some (lo, hi) ∧
      (∀ x ∈ a :: as, lo ≤ (data.getD x (0, 0)).1 ∧ (data.getD x (0, 0)).2 ≤ hi) ∧
      (∃ x ∈ a :: as, lo = (data.getD x (0, 0)).1) ∧ (∃ x ∈ a :: as, hi = (data.getD x (0, 0)).2) := by
  refine ⟨_, _, rfl, ?_, ?_, ?_⟩
  · intro x hx
    have hb := ivLoop_bounds data as (data.getD a (0, 0))
    rcases List.mem_cons.mp hx with rfl | hx
    · exact ⟨hb.1, hb.2.1⟩
    · exact hb.2.2 x hx
  · rcases (ivLoop_attained data as (data.getD a (0, 0))).1 with h | ⟨x, hx, h⟩
    · exact ⟨a, List.mem_cons_self, h⟩
    · exact ⟨x, List.mem_cons_of_mem _ hx, h⟩
  · rcases (ivLoop_attained data as (data.getD a (0, 0))).2 with h | ⟨x, hx, h⟩
    · exact ⟨a, List.mem_cons_self, h⟩
    · exact ⟨x, List.mem_cons_of_mem _ hx, h⟩

theorem Col.bin_closure_interval (data : List (Int × Int)) (A : List Nat) (hA : A ≠ [])
    (hr : ∀ x ∈ A, x < data.length) (g : Nat) (hg : g < data.length) :
    (∀ E ∈ Col.ivBinExtents data, (∀ x ∈ A, E.getD x false = true) → E.getD g false = true) ↔
      (Col.interval data).covers ((Col.interval data).intentionI A) g = true := by
  obtain ⟨a, as, rfl⟩ := List.exists_cons_of_ne_nil hA
  obtain ⟨lo, hi, hint, hall, ⟨xl, hxl, hlo⟩, ⟨xh, hxh, hhi⟩⟩ := ivIntention_spec data a as
  simp only [Col.intentionI, hint, Col.covers, Col.ivIn, Bool.and_eq_true, decide_eq_true_eq]
  constructor
  · intro H
    constructor
    · -- left end
      have hmem : lo ∈ (data.map (·.1)).eraseDups := by
        rw [List.mem_eraseDups, hlo]
        exact List.mem_map.mpr ⟨_, getD_mem data (0, 0) xl (hr xl hxl), rfl⟩
      have hgm : (data.getD g (0, 0)).1 ∈ (data.map (·.1)).eraseDups := by
        rw [List.mem_eraseDups]
        exact List.mem_map.mpr ⟨_, getD_mem data (0, 0) g hg, rfl⟩
      generalize hs : Col.isort (fun a b => decide (a ≤ b)) (data.map (·.1)).eraseDups = srt
      have hlo_s : lo ∈ srt := by rw [← hs]; exact (mem_isort _ _ _).mpr hmem
      cases srt with
      | nil => cases hlo_s
      | cons h t =>
        rcases List.mem_cons.mp hlo_s with rfl | hlt
        · have := isort_head_le _ int_le_total int_le_trans (by intro a; simp) _ _ _ hs _ hgm
          simpa using this
        · have hE : (data.map fun v => decide (lo ≤ v.1)) ∈ Col.ivBinExtents data := by
            simp only [Col.ivBinExtents, hs, List.tail_cons, List.mem_append, List.mem_map, List.mem_cons,
              List.not_mem_nil, or_false]
            exact Or.inl (Or.inl (Or.inr ⟨lo, hlt, rfl⟩))
          have := H _ hE (by
            intro x hx
            rw [getD_map_lt data _ (0, 0) x (hr x hx)]
            simpa using (hall x hx).1)
          rw [getD_map_lt data _ (0, 0) g hg] at this
          simpa using this
    · -- right end
      have hmem : hi ∈ (data.map (·.2)).eraseDups := by
        rw [List.mem_eraseDups, hhi]
        exact List.mem_map.mpr ⟨_, getD_mem data (0, 0) xh (hr xh hxh), rfl⟩
      have hgm : (data.getD g (0, 0)).2 ∈ (data.map (·.2)).eraseDups := by
        rw [List.mem_eraseDups]
        exact List.mem_map.mpr ⟨_, getD_mem data (0, 0) g hg, rfl⟩
      generalize hs : Col.isort (fun a b => decide (b ≤ a)) (data.map (·.2)).eraseDups = srt
      have hhi_s : hi ∈ srt := by rw [← hs]; exact (mem_isort _ _ _).mpr hmem
      cases srt with
      | nil => cases hhi_s
      | cons h t =>
        rcases List.mem_cons.mp hhi_s with rfl | hlt
        · have := isort_head_le _ int_ge_total int_ge_trans (by intro a; simp) _ _ _ hs _ hgm
          simpa using this
        · have hE : (data.map fun v => decide (v.2 ≤ hi)) ∈ Col.ivBinExtents data := by
            simp only [Col.ivBinExtents, hs, List.tail_cons, List.mem_append, List.mem_map, List.mem_cons,
              List.not_mem_nil, or_false]
            exact Or.inl (Or.inr ⟨hi, hlt, rfl⟩)
          have := H _ hE (by
            intro x hx
            rw [getD_map_lt data _ (0, 0) x (hr x hx)]
            simpa using (hall x hx).2)
          rw [getD_map_lt data _ (0, 0) g hg] at this
          simpa using this
  · rintro ⟨hl, hh⟩ E hE hEA
    simp only [Col.ivBinExtents, List.mem_append, List.mem_map, List.mem_cons, List.not_mem_nil,
      or_false] at hE
    rcases hE with ((rfl | ⟨lb, _, rfl⟩) | ⟨rb, _, rfl⟩) | rfl
    · rw [getD_map_lt data _ (0, 0) g hg]
    · rw [getD_map_lt data _ (0, 0) g hg]
      have : lb ≤ lo := by
        have := hEA xl hxl
        rw [getD_map_lt data _ (0, 0) xl (hr xl hxl)] at this
        rw [hlo]; simpa using this
      simp only [decide_eq_true_eq]; omega
    · rw [getD_map_lt data _ (0, 0) g hg]
      have : hi ≤ rb := by
        have := hEA xh hxh
        rw [getD_map_lt data _ (0, 0) xh (hr xh hxh)] at this
        rw [hhi]; simpa using this
      simp only [decide_eq_true_eq]; omega
    · have := hEA a List.mem_cons_self
      rw [getD_map_lt data _ (0, 0) a (hr a List.mem_cons_self)] at this
      cases this

theorem mem_setBinExtents (data : List (List Nat)) (E : List Bool) :
    E ∈ Col.setBinExtents data ↔
      ∃ k, k ≤ (Col.uniqVals data).length ∧
        ∃ comb ∈ Col.combs (Col.isort (fun a b => decide (a ≤ b)) (Col.uniqVals data)) k,
          E = data.map fun row => Col.setLeq row comb := by
  simp only [Col.setBinExtents, List.mem_flatMap, List.mem_reverse, List.mem_range, List.mem_map,
    length_isort]
  constructor
  · rintro ⟨k, hk, comb, hc, rfl⟩; exact ⟨k, by omega, comb, hc, rfl⟩
  · rintro ⟨k, hk, comb, hc, rfl⟩; exact ⟨k, by omega, comb, hc, rfl⟩

theorem Col.bin_closure_set (data : List (List Nat)) (A : List Nat)
    (hr : ∀ x ∈ A, x < data.length) (g : Nat) (hg : g < data.length) :
    (∀ E ∈ Col.setBinExtents data, (∀ x ∈ A, E.getD x false = true) → E.getD g false = true) ↔
      (Col.set data).covers ((Col.set data).intentionI A) g = true := by
  simp only [Col.intentionI, Col.covers, List.all_eq_true, List.contains_eq_mem, decide_eq_true_eq]
  constructor
  · intro H y hy
    -- the combination consisting of the values occurring in `A`
    let uniq := Col.isort (fun a b => decide (a ≤ b)) (Col.uniqVals data)
    let comb := uniq.filter fun v => decide (v ∈ Col.setIntention data A)
    have hcomb : comb ∈ Col.combs uniq comb.length := filter_mem_combs uniq _
    have hlen : comb.length ≤ (Col.uniqVals data).length := by
      have : comb.length ≤ uniq.length := List.length_filter_le _ _
      rw [length_isort] at this; exact this
    have hE := (mem_setBinExtents data _).mpr ⟨comb.length, hlen, comb, hcomb, rfl⟩
    have := H _ hE (by
      intro x hx
      rw [getD_map_lt data _ [] x (hr x hx), setLeq_eq_all, List.all_eq_true]
      intro v hv
      simp only [List.contains_eq_mem, decide_eq_true_eq]
      refine List.mem_filter.mpr ⟨?_, ?_⟩
      · exact (mem_isort _ _ _).mpr ((mem_uniqVals data v).mpr ⟨_, getD_mem data [] x (hr x hx), hv⟩)
      · simp only [decide_eq_true_eq]
        exact (mem_setIntention data A v).mpr ⟨x, hx, hv⟩)
    rw [getD_map_lt data _ [] g hg, setLeq_eq_all, List.all_eq_true] at this
    have hy' := this y hy
    simp only [List.contains_eq_mem, decide_eq_true_eq] at hy'
    have := (List.mem_filter.mp hy').2
    simpa using this
  · intro H E hE hEA
    obtain ⟨k, _, comb, _, rfl⟩ := (mem_setBinExtents data E).mp hE
    rw [getD_map_lt data _ [] g hg, setLeq_eq_all, List.all_eq_true]
    intro y hy
    simp only [List.contains_eq_mem, decide_eq_true_eq]
    obtain ⟨x, hx, hyx⟩ := (mem_setIntention data A y).mp (H y hy)
    have := hEA x hx
    rw [getD_map_lt data _ [] x (hr x hx), setLeq_eq_all, List.all_eq_true] at this
    simpa using this y hyx

/-- (key) for a non-empty in-range `A`: `g` lies in every binary attribute of the column that contains `A`
    iff the column's description of `A` covers `g` -/
theorem Col.bin_closure (c : Col) (A : List Nat) (hA : A ≠ []) (hr : ∀ x ∈ A, x < c.len) (g : Nat)
    (hg : g < c.len) :
    (∀ E ∈ c.binAttrExtents, (∀ x ∈ A, E.getD x false = true) → E.getD g false = true) ↔
      c.covers (c.intentionI A) g = true := by
  cases c with
  | interval data => exact Col.bin_closure_interval data A hA hr g hg
  | set data => exact Col.bin_closure_set data A hr g hg
  | attr data =>
    obtain ⟨a, as, rfl⟩ := List.exists_cons_of_ne_nil hA
    simp only [Col.binAttrExtents, List.mem_cons, List.not_mem_nil, or_false, forall_eq, Col.intentionI,
      Col.covers, Col.attrIntention, List.isEmpty_cons, Bool.false_eq_true, ↓reduceIte, Bool.or_eq_true,
      Bool.not_eq_eq_eq_not, Bool.not_true]
    constructor
    · intro H
      by_cases hall : (a :: as).all (fun g => data.getD g false) = true
      · right; exact H (fun x hx => List.all_eq_true.mp hall x (List.mem_cons.mpr hx))
      · left; simpa using hall
    · rintro (h | h) hAll
      · have : (a :: as).all (fun g => data.getD g false) = true :=
          List.all_eq_true.mpr (fun x hx => hAll x (List.mem_cons.mp hx))
        rw [this] at h; cases h
      · exact h

/-- the objects having *all* binary attributes of the column are those under its bottom description -/
theorem Col.bin_bottom (c : Col) (g : Nat) (hg : g < c.len) :
    (∀ E ∈ c.binAttrExtents, E.getD g false = true) ↔ c.covers c.bottom g = true := by
  cases c with
  | interval data =>
    simp only [Col.bottom, Col.covers, Bool.false_eq_true, iff_false]
    intro H
    have hE : (data.map fun _ => false) ∈ Col.ivBinExtents data := by simp [Col.ivBinExtents]
    have := H _ hE
    rw [getD_map_lt data _ (0, 0) g hg] at this
    cases this
  | set data =>
    have h0 := Col.bin_closure_set data [] (by intro x hx; cases hx) g hg
    simp only [List.not_mem_nil, false_imp_iff, implies_true, forall_const] at h0
    simp only [Col.binAttrExtents]
    rw [h0]
    simp [Col.intentionI, Col.setIntention, Col.bottom]
  | attr data => simp [Col.binAttrExtents, Col.bottom, Col.covers]

end Fca.MV

namespace Fca.MV
open Fca

/-! ### the binarised context -/

theorem MVCtx.tr_eq_transpose (t : Table) : MVCtx.tr t = Spec.transpose t := rfl

theorem Col.binAttrExtents_ne_nil (c : Col) : c.binAttrExtents ≠ [] := by
  cases c with
  | interval data => simp [Col.binAttrExtents, Col.ivBinExtents]
  | set data =>
    intro h
    have : (data.map fun row => Col.setLeq row []) ∈ Col.setBinExtents data :=
      (mem_setBinExtents data _).mpr ⟨0, Nat.zero_le _, [], by simp [combs_zero], rfl⟩
    simp only [Col.binAttrExtents] at h
    rw [h] at this; cases this
  | attr data => simp [Col.binAttrExtents]

theorem MVCtx.mem_binAttrExtents (K : MVCtx) (E : List Bool) :
    E ∈ K.binAttrExtents ↔ ∃ c ∈ K.cols, E ∈ c.binAttrExtents := by
  simp [MVCtx.binAttrExtents, List.mem_flatMap]

theorem MVCtx.binAttrExtents_length_each (K : MVCtx) (hwf : K.WF) :
    ∀ E ∈ K.binAttrExtents, E.length = K.nObjects := by
  intro E hE
  obtain ⟨c, hc, hEc⟩ := (K.mem_binAttrExtents E).mp hE
  rw [c.binAttrExtents_length_each E hEc, hwf c hc]

theorem MVCtx.binAttrExtents_ne_nil (K : MVCtx) (hc : K.cols ≠ []) : K.binAttrExtents ≠ [] := by
  obtain ⟨c, cs, h⟩ := List.exists_cons_of_ne_nil hc
  intro hnil
  obtain ⟨E, Es, hE⟩ := List.exists_cons_of_ne_nil c.binAttrExtents_ne_nil
  have : E ∈ K.binAttrExtents := (K.mem_binAttrExtents E).mpr ⟨c, by rw [h]; exact List.mem_cons_self, by rw [hE]; exact List.mem_cons_self⟩
  rw [hnil] at this; cases this

/-- declared width = produced width -/
theorem MVCtx.nBinAttrs_eq (K : MVCtx) (hwf : K.WF) (hn : 1 ≤ K.nObjects) :
    K.nBinAttrs = K.binAttrExtents.length := by
  unfold MVCtx.nBinAttrs MVCtx.binAttrExtents
  rw [List.length_flatMap]
  congr 1
  apply List.map_congr_left
  intro c hc
  exact c.nBinAttrs_eq (by rw [hwf c hc]; exact hn)

theorem ofRows_width (K : MVCtx) (hwf : K.WF) (hc : K.cols ≠ []) :
    (Table.ofRows K.binAttrExtents).width = K.nObjects := by
  obtain ⟨E, Es, hE⟩ := List.exists_cons_of_ne_nil (K.binAttrExtents_ne_nil hc)
  simp only [Table.ofRows, hE, List.headD_cons]
  exact K.binAttrExtents_length_each hwf E (by rw [hE]; exact List.mem_cons_self)

theorem MVCtx.binarize_eq (K : MVCtx) (hc : K.cols ≠ []) :
    K.binarize = .ok ⟨Spec.transpose (Table.ofRows K.binAttrExtents), K.objNames⟩ := by
  unfold MVCtx.binarize
  have : K.binAttrExtents.isEmpty = false := by
    cases h : K.binAttrExtents with
    | nil => exact absurd h (K.binAttrExtents_ne_nil hc)
    | cons _ _ => rfl
  simp only [this, Bool.false_eq_true, ↓reduceIte]
  rfl

/-- the table of the binarised context -/
def MVCtx.binTable (K : MVCtx) : Table := Spec.transpose (Table.ofRows K.binAttrExtents)

theorem MVCtx.binTable_height (K : MVCtx) (hwf : K.WF) (hc : K.cols ≠ []) : K.binTable.height = K.nObjects := by
  unfold MVCtx.binTable
  rw [Spec.transpose_height, ofRows_width K hwf hc]

theorem MVCtx.binTable_width (K : MVCtx) : K.binTable.width = K.binAttrExtents.length := rfl

theorem MVCtx.binTable_get (K : MVCtx) (hwf : K.WF) (hc : K.cols ≠ []) (g a : Nat) (hg : g < K.nObjects)
    (ha : a < K.binAttrExtents.length) :
    K.binTable.get g a = (K.binAttrExtents.getD a []).getD g false := by
  unfold MVCtx.binTable
  rw [Spec.transpose_get _ (by simpa [Table.ofRows, Table.height] using ha)
    (by rw [ofRows_width K hwf hc]; exact hg)]
  rfl

theorem filter_range_eq_of_mem_iff {n : Nat} {p q : Nat → Bool}
    (h : ∀ g, g ∈ (List.range n).filter p ↔ g ∈ (List.range n).filter q) :
    (List.range n).filter p = (List.range n).filter q := by
  apply Spec.filter_eq_of_mem_iff
  intro g hg
  have := h g
  simp only [List.mem_filter, hg, true_and] at this
  exact this

/-- membership in the closure of `A` within the binarised table, in terms of the binary attributes -/
theorem MVCtx.mem_closure_binTable (K : MVCtx) (hwf : K.WF) (hc : K.cols ≠ []) (A : List Nat)
    (hr : ∀ x ∈ A, x < K.nObjects) (g : Nat) :
    g ∈ Spec.closure K.binTable A ↔ g < K.nObjects ∧
      ∀ c ∈ K.cols, ∀ E ∈ c.binAttrExtents, (∀ x ∈ A, E.getD x false = true) → E.getD g false = true := by
  unfold Spec.closure
  rw [Spec.mem_extAll, K.binTable_height hwf hc]
  constructor
  · rintro ⟨hg, H⟩
    refine ⟨hg, ?_⟩
    intro c hcm E hE hEA
    have hEm : E ∈ K.binAttrExtents := (K.mem_binAttrExtents E).mpr ⟨c, hcm, hE⟩
    obtain ⟨a, ha, hEa⟩ := List.mem_iff_getElem.mp hEm
    have hget : K.binAttrExtents.getD a [] = E := by
      rw [List.getD_eq_getElem?_getD, List.getElem?_eq_getElem ha, hEa]; rfl
    have := H a ((Spec.mem_intAll _).mpr ⟨by rw [K.binTable_width]; exact ha, fun x hx => by
      rw [K.binTable_get hwf hc x a (hr x hx) ha, hget]; exact hEA x hx⟩)
    rw [K.binTable_get hwf hc g a hg ha, hget] at this
    exact this
  · rintro ⟨hg, H⟩
    refine ⟨hg, ?_⟩
    intro a ha
    rw [Spec.mem_intAll, K.binTable_width] at ha
    obtain ⟨ha, hA⟩ := ha
    rw [K.binTable_get hwf hc g a hg ha]
    have hEm : K.binAttrExtents.getD a [] ∈ K.binAttrExtents := getD_mem _ _ _ ha
    obtain ⟨c, hcm, hE⟩ := (K.mem_binAttrExtents _).mp hEm
    apply H c hcm _ hE
    intro x hx
    rw [← K.binTable_get hwf hc x a (hr x hx) ha]
    exact hA x hx

theorem mem_cols_iff (K : MVCtx) (P : Col → Prop) :
    (∀ c ∈ K.cols, P c) ↔ ∀ (i : Nat) (c : Col), K.cols[i]? = some c → P c := by
  constructor
  · intro h i c hc; exact h c (List.mem_of_getElem? hc)
  · intro h c hc
    obtain ⟨i, hi⟩ := List.mem_iff_getElem?.mp hc
    exact h i c hi

/-- the binarised table closes a non-empty object set exactly as the many-valued context does -/
theorem MVCtx.closure_binTable (K : MVCtx) (hwf : K.WF) (hc : K.cols ≠ []) (A : List Nat) (hA : A ≠ [])
    (hr : ∀ x ∈ A, x < K.nObjects) : Spec.closure K.binTable A = K.clSpec A := by
  have hh := K.binTable_height hwf hc
  unfold Spec.closure Spec.extAll Spec.ext MVCtx.clSpec MVCtx.extSpec
  rw [hh]
  apply filter_range_eq_of_mem_iff
  intro g
  have e1 := K.mem_closure_binTable hwf hc A hr g
  have e2 := K.mem_clSpec A g
  unfold Spec.closure Spec.extAll Spec.ext at e1
  unfold MVCtx.clSpec MVCtx.extSpec at e2
  rw [hh] at e1
  rw [e1, e2]
  constructor
  · rintro ⟨hg, H⟩
    refine ⟨hg, (mem_cols_iff K _).mp ?_⟩
    intro c hcm
    exact (c.bin_closure A hA (by rw [hwf c hcm]; exact hr) g (by rw [hwf c hcm]; exact hg)).mp (H c hcm)
  · rintro ⟨hg, H⟩
    refine ⟨hg, ?_⟩
    intro c hcm
    exact (c.bin_closure A hA (by rw [hwf c hcm]; exact hr) g (by rw [hwf c hcm]; exact hg)).mpr
      ((mem_cols_iff K _).mpr H c hcm)

/-- the least closed set of the binarised table is the extent of the bottom description -/
theorem MVCtx.closure_binTable_nil (K : MVCtx) (hwf : K.WF) (hc : K.cols ≠ []) :
    Spec.closure K.binTable [] = K.extBottom := by
  have hh := K.binTable_height hwf hc
  unfold Spec.closure Spec.extAll Spec.ext MVCtx.extBottom MVCtx.extSpec
  rw [hh]
  apply filter_range_eq_of_mem_iff
  intro g
  have e1 := K.mem_closure_binTable hwf hc [] (by intro x hx; cases hx) g
  have e2 := K.mem_extBottom g
  unfold Spec.closure Spec.extAll Spec.ext at e1
  unfold MVCtx.extBottom MVCtx.extSpec at e2
  rw [hh] at e1
  rw [e1, e2]
  simp only [List.not_mem_nil, false_imp_iff, implies_true, forall_const]
  constructor
  · rintro ⟨hg, H⟩
    refine ⟨hg, (mem_cols_iff K _).mp ?_⟩
    intro c hcm
    exact (c.bin_bottom g (by rw [hwf c hcm]; exact hg)).mp (H c hcm)
  · rintro ⟨hg, H⟩
    refine ⟨hg, ?_⟩
    intro c hcm
    exact (c.bin_bottom g (by rw [hwf c hcm]; exact hg)).mpr ((mem_cols_iff K _).mpr H c hcm)

/-! ### BottomOK -/

theorem Col.covers_intention_of_bottom (c : Col) (A : List Nat) (g : Nat) (h : c.covers c.bottom g = true) :
    c.covers (c.intentionI A) g = true := by
  cases c with
  | interval data => simp [Col.bottom, Col.covers] at h
  | set data =>
    simp only [Col.bottom, Col.covers, List.all_eq_true, List.contains_eq_mem, List.not_mem_nil,
      decide_false, Bool.false_eq_true] at h
    simp only [Col.intentionI, Col.covers, List.all_eq_true]
    intro x hx; exact absurd (h x hx) id
  | attr data =>
    simp only [Col.bottom, Col.covers, Bool.not_true, Bool.false_or] at h
    simp only [Col.intentionI, Col.covers, h, Bool.or_true]

theorem MVCtx.extBottom_subset_clSpec (K : MVCtx) (A : List Nat) : ∀ g ∈ K.extBottom, g ∈ K.clSpec A := by
  intro g hg
  rw [K.mem_extBottom] at hg
  rw [K.mem_clSpec]
  exact ⟨hg.1, fun i c hc => c.covers_intention_of_bottom A g (hg.2 i c hc)⟩

/-- under `BottomOK` the closure of the empty set, as the code computes it, is the least closed set -/
theorem MVCtx.clSpec_nil_of_bottomOK (K : MVCtx) (h : K.BottomOK) : K.clSpec [] = K.extBottom := by
  unfold MVCtx.BottomOK at h
  rw [K.cl_eq] at h
  simp only at h
  have hsub : ∀ g ∈ K.clSpec [], g ∈ K.extBottom := h K.extBottom (by
    unfold MVCtx.closedSets
    rw [List.mem_eraseDups]; exact List.mem_cons_self)
  unfold MVCtx.clSpec MVCtx.extBottom MVCtx.extSpec
  apply filter_range_eq_of_mem_iff
  intro g
  have e1 := hsub g
  have e2 := K.extBottom_subset_clSpec [] g
  unfold MVCtx.clSpec MVCtx.extBottom MVCtx.extSpec at e1 e2
  exact ⟨e1, e2⟩

end Fca.MV

namespace Fca.MV
open Fca

/-! ### from the concepts of the binarised table to pattern concepts -/

/-- What property C02 establishes for `close_by_one_objectwise_fbarray` on a formal context, used here as an
    explicit hypothesis about its run on the binarised table `t`: the listed extents are pairwise different
    and are exactly the extents of the formal concepts of `t`.  (For the transposed shape the list is the
    intents of the concepts of `t.T`, which are the same sets by `Spec.isConcept_transpose`.) -/
def FcaExact (t : Table) (exts : List (List Nat)) : Prop :=
  exts.Nodup ∧ ∀ E, E ∈ exts ↔ ∃ B, Spec.isConcept t E B = true

theorem mapFromObjects_fix (K : MVCtx) (exts : List (List Nat)) (h : ∀ E ∈ exts, K.clSpec E = E) :
    MVCtx.mapFromObjects K false exts = .ok (exts.map fun E => ⟨E, K.intentionI E⟩) := by
  induction exts with
  | nil => rfl
  | cons E Es ih =>
    have hE := h E List.mem_cons_self
    have hf : K.fromObjects E false = .ok ⟨E, K.intentionI E⟩ := by
      unfold MVCtx.fromObjects
      simp only [Bool.false_eq_true, ↓reduceIte]
      have := K.cl_eq E
      unfold MVCtx.cl at this
      rw [this, hE]
    simp only [MVCtx.mapFromObjects, hf, ih (fun E' hE' => h E' (List.mem_cons_of_mem _ hE')), List.map_cons]

theorem concept_extent_fix (K : MVCtx) (hwf : K.WF) (hc : K.cols ≠ []) (hb : K.BottomOK) (E B : List Nat)
    (h : Spec.isConcept K.binTable E B = true) : K.clSpec E = E ∧ (∀ x ∈ E, x < K.nObjects) := by
  rw [Spec.isConcept_iff] at h
  have hfix : Spec.closure K.binTable E = E := by unfold Spec.closure; rw [h.2, h.1]
  have hr : ∀ x ∈ E, x < K.nObjects := by
    intro x hx
    rw [← h.1] at hx
    have := Spec.extAll_lt K.binTable x hx
    rwa [K.binTable_height hwf hc] at this
  refine ⟨?_, hr⟩
  by_cases hE : E = []
  · subst hE
    rw [K.clSpec_nil_of_bottomOK hb, ← K.closure_binTable_nil hwf hc]; exact hfix
  · rw [← K.closure_binTable hwf hc E hE hr]; exact hfix

theorem concept_extents_eq_closedSets (K : MVCtx) (hwf : K.WF) (hc : K.cols ≠ []) (hb : K.BottomOK) (S : List Nat) :
    (∃ B, Spec.isConcept K.binTable S B = true) ↔ S ∈ K.closedSets := by
  unfold MVCtx.closedSets MVCtx.closedNE
  simp only [List.mem_eraseDups, List.mem_cons, List.mem_map, List.mem_filter, Bool.not_eq_eq_eq_not,
    Bool.not_true, List.isEmpty_eq_false_iff]
  constructor
  · rintro ⟨B, hB⟩
    obtain ⟨hfix, hr⟩ := concept_extent_fix K hwf hc hb S B hB
    by_cases hS : S = []
    · left
      subst hS
      rw [← hfix]; exact K.clSpec_nil_of_bottomOK hb
    · right
      refine ⟨S, ⟨?_, hS⟩, hfix⟩
      rw [Spec.isConcept_iff] at hB
      rw [← hB.1, ← K.binTable_height hwf hc]
      unfold Spec.extAll Spec.ext
      exact Spec.filter_mem_sublists _ _
  · rintro (rfl | ⟨A, ⟨hA, hne⟩, rfl⟩)
    · refine ⟨Spec.intAll K.binTable [], ?_⟩
      rw [← K.closure_binTable_nil hwf hc]
      exact Spec.isConcept_of_objs K.binTable (by intro g hg; cases hg)
    · have hr : ∀ x ∈ A, x < K.nObjects := fun x hx => List.mem_range.mp (Spec.mem_of_mem_sublists hA x hx)
      refine ⟨Spec.intAll K.binTable A, ?_⟩
      rw [← K.closure_binTable hwf hc A hne hr]
      exact Spec.isConcept_of_objs K.binTable (by rw [K.binTable_height hwf hc]; exact hr)


/-- the hypothesis `FcaExact` is satisfiable for every table: the brute-force enumeration meets it -/
theorem fcaExact_allConcepts (t : Table) : FcaExact t ((Spec.allConcepts t).map (·.1)) := by
  constructor
  · show (List.map (·.1) (Spec.allConcepts t)).Pairwise (· ≠ ·)
    rw [List.pairwise_map]
    refine List.Pairwise.imp_of_mem ?_ (Spec.allConcepts_nodup t)
    intro x y hx hy hne hxy
    obtain ⟨A₁, B₁⟩ := x
    obtain ⟨A₂, B₂⟩ := y
    have h1 := (Spec.isConcept_iff t).mp ((Spec.mem_allConcepts t).mp hx)
    have h2 := (Spec.isConcept_iff t).mp ((Spec.mem_allConcepts t).mp hy)
    simp only at hxy
    subst hxy
    apply hne
    rw [← h1.2, ← h2.2]
  · intro E
    simp only [List.mem_map]
    constructor
    · rintro ⟨⟨A, B⟩, h, rfl⟩; exact ⟨B, (Spec.mem_allConcepts t).mp h⟩
    · rintro ⟨B, h⟩; exact ⟨(E, B), (Spec.mem_allConcepts t).mpr h, rfl⟩

end Fca.MV

/-
  Lemmas/PosetAdd — `add(e, fill_up_cache=True)`, part 1: presence-tracking versions of the accessor
  specifications, and the breadth-first search of `_trace_elements_both_directions`.
-/
import Fca.Lemmas.PosetStep
set_option linter.unusedSectionVars false
namespace Fca.Poset
open Fca Fca.Poset.Fresh

section
variable {α : Type} [DecidableEq α] {leq : α → α → Bool} {ord : List Nat → List Nat}
variable {E : List α} {G : Ghost} {c : Bool}

/-! ### changing the promises of the ghost -/

/-- any ghost with the same out-of-range content whose promises hold in `s` -/
theorem InvB.withPres {G' : Ghost} {s : St α} (h : InvB leq E G c s)
    (hl : G'.leqX = G.leqX) (hc : G'.closedX = G.closedX) (hd : G'.directX = G.directX)
    (hcp : c = true → ∀ d k, G'.closedP d k → (alookup k (s.closed d)).isSome = true)
    (hdp : c = true → ∀ d k, G'.directP d k → (alookup k (s.direct d)).isSome = true) :
    InvB leq E G' c s :=
  ⟨h.elems, h.flag, h.leqIn, fun hct a b ho => by rw [hl]; exact h.leqOut hct a b ho, h.closedIn,
    fun hct d k ho => by rw [hc]; exact h.closedOut hct d k ho, h.directIn,
    fun hct d k ho => by rw [hd]; exact h.directOut hct d k ho, hcp, hdp⟩

def Ghost.addClosedP (G : Ghost) (d : Dir) (P : Nat → Prop) : Ghost :=
  { G with closedP := fun d' k => G.closedP d' k ∨ (d' = d ∧ P k) }

def Ghost.addDirectP (G : Ghost) (d : Dir) (P : Nat → Prop) : Ghost :=
  { G with directP := fun d' k => G.directP d' k ∨ (d' = d ∧ P k) }

theorem InvB.addClosedP {s : St α} (h : InvB leq E G c s) (d : Dir) (P : Nat → Prop)
    (hp : c = true → ∀ k, P k → (alookup k (s.closed d)).isSome = true) :
    InvB leq E (G.addClosedP d P) c s :=
  h.withPres rfl rfl rfl
    (fun hct d' k hk => by
      rcases hk with hk | ⟨rfl, hk⟩
      · exact h.closedPres hct d' k hk
      · exact hp hct k hk)
    h.directPres

theorem InvB.addDirectP {s : St α} (h : InvB leq E G c s) (d : Dir) (P : Nat → Prop)
    (hp : c = true → ∀ k, P k → (alookup k (s.direct d)).isSome = true) :
    InvB leq E (G.addDirectP d P) c s :=
  h.withPres rfl rfl rfl h.closedPres
    (fun hct d' k hk => by
      rcases hk with hk | ⟨rfl, hk⟩
      · exact h.directPres hct d' k hk
      · exact hp hct k hk)

theorem InvB.dropClosedP {s : St α} {d : Dir} {P : Nat → Prop} (h : InvB leq E (G.addClosedP d P) c s) :
    InvB leq E G c s :=
  h.withPres rfl rfl rfl (fun hct d' k hk => h.closedPres hct d' k (Or.inl hk)) h.directPres

theorem InvB.dropDirectP {s : St α} {d : Dir} {P : Nat → Prop} (h : InvB leq E (G.addDirectP d P) c s) :
    InvB leq E G c s :=
  h.withPres rfl rfl rfl h.closedPres (fun hct d' k hk => h.directPres hct d' k (Or.inl hk))

/-! ### the accessors leave their entry in the cache -/

variable (hpo : IdxPO leq E)
include hpo

theorem closedE_spec' {s : St α} (h : InvB leq E G c s) (d : Dir) {e : Nat} (he : e < E.length) :
    Sat (closedE leq d e) s (fun s' r => InvB leq E G c s' ∧ SetEq r (closed leq d E e) ∧
      (c = true → (alookup e (s'.closed d)).isSome = true)) := by
  unfold closedE
  apply sat_bind
  apply sat_get
  by_cases hc : s.useCache = true
  · simp only [hc, ↓reduceIte]
    cases h1 : alookup e (s.closed d) with
    | some r =>
      have := h.closedIn (h.flag.symm.trans hc) d e r he h1
      exact sat_pure ⟨h, ⟨this.1, fun x => by rw [this.2 x, mem_closed]⟩, fun _ => by rw [h1]; rfl⟩
    | none =>
      simp only
      apply sat_bind
      apply sat_mono (closedNocache_spec hpo h d he)
      rintro s1 r ⟨h2, rfl⟩
      apply sat_bind
      apply sat_modify
      apply sat_pure
      refine ⟨h2.insertClosed he (nodup_closed d e) (fun x => mem_closed),
        ⟨nodup_closed d e, fun _ => Iff.rfl⟩, fun _ => ?_⟩
      rw [closed_setClosed, alookup_ainsert, if_pos rfl]; rfl
  · simp only [hc, Bool.false_eq_true, ↓reduceIte]
    apply sat_mono (closedNocache_spec hpo h d he)
    rintro s1 r ⟨h2, rfl⟩
    refine ⟨h2, ⟨nodup_closed d e, fun _ => Iff.rfl⟩, fun hct => ?_⟩
    rw [← h.flag] at hct; exact absurd hct hc

variable (hord : ∀ l, (ord l).Perm l)
include hord

theorem directE_spec' {s : St α} (h : InvB leq E G c s) (d : Dir) {e : Nat} (he : e < E.length) :
    Sat (directE leq ord d e) s (fun s' r => InvB leq E G c s' ∧ SetEq r (direct leq d E e) ∧
      (c = true → (alookup e (s'.direct d)).isSome = true)) := by
  unfold directE
  apply sat_bind
  apply sat_get
  by_cases hc : s.useCache = true
  · simp only [hc, ↓reduceIte]
    cases h1 : alookup e (s.direct d) with
    | some r =>
      have := h.directIn (h.flag.symm.trans hc) d e r he h1
      exact sat_pure ⟨h, ⟨this.1, fun x => by rw [this.2 x, mem_direct]⟩, fun _ => by rw [h1]; rfl⟩
    | none =>
      simp only
      apply sat_bind
      apply sat_mono (directNocache_spec hpo hord h d he)
      rintro s1 r ⟨h2, hr⟩
      apply sat_bind
      apply sat_modify
      apply sat_pure
      refine ⟨h2.insertDirect he hr.1 (fun x => by rw [hr.2 x, mem_direct]), hr, fun _ => ?_⟩
      rw [direct_setDirect, alookup_ainsert, if_pos rfl]; rfl
  · simp only [hc, Bool.false_eq_true, ↓reduceIte]
    apply sat_mono (directNocache_spec hpo hord h d he)
    rintro s1 r ⟨h2, hr⟩
    refine ⟨h2, hr, fun hct => ?_⟩
    rw [← h.flag] at hct; exact absurd hct hc

omit hord in
/-- `bottoms`/`tops` leave the closed relation of every element in the cache -/
theorem extremesE_spec' {s : St α} (h : InvB leq E G c s) (d : Dir) :
    Sat (extremesE leq d) s (fun s' r =>
      InvB leq E (G.addClosedP d (fun k => k < E.length)) c s' ∧ r = extremes leq d E) := by
  unfold extremesE
  apply sat_bind
  apply sat_get
  rw [h.elems]
  have := sat_filterM_pre (fun pre s1 => InvB leq E (G.addClosedP d (fun k => k ∈ pre)) c s1)
    (fun i => do
      let a ← closedE leq d i
      pure a.isEmpty) (fun i => (closed leq d E i).isEmpty) (List.range E.length) ?_ [] s
    (h.addClosedP d _ (fun _ k hk => by cases hk))
  · apply sat_mono this
    rintro s' r ⟨h1, h2⟩
    refine ⟨?_, h2⟩
    simp only [List.nil_append] at h1
    exact h1.dropClosedP.addClosedP d _ (fun hct k hk =>
      h1.closedPres hct d k (Or.inr ⟨rfl, List.mem_range.mpr hk⟩))
  · intro pre i s1 hi h1
    apply sat_bind
    apply sat_mono (closedE_spec' hpo h1 d (List.mem_range.mp hi))
    rintro s2 a ⟨h2, ha, hp⟩
    apply sat_pure
    refine ⟨?_, ?_⟩
    · refine h2.dropClosedP.addClosedP d _ (fun hct k hk => ?_)
      rcases List.mem_append.mp hk with hk | hk
      · exact h2.closedPres hct d k (Or.inr ⟨rfl, hk⟩)
      · simp at hk; subst hk; exact hp hct
    · rw [Bool.eq_iff_iff]
      simp only [List.isEmpty_iff]
      constructor
      · intro e; subst e
        apply List.eq_nil_iff_forall_not_mem.mpr
        intro x hx; exact absurd ((ha.2 x).mpr hx) (by simp)
      · intro e
        apply List.eq_nil_iff_forall_not_mem.mpr
        intro x hx; have := (ha.2 x).mp hx; rw [e] at this; cases this

end

/-! ### `compare_func(element, self._elements[i])` -/
section
variable {α : Type} [DecidableEq α] {leq : α → α → Bool}

/-- the test of `trace_element`, total -/
def cmpB (leq : α → α → Bool) (d : Dir) (e : α) (E : List α) (i : Nat) : Bool :=
  match E[i]? with
  | none => false
  | some x =>
    match d with
    | .desc => leq x e
    | .anc => leq e x

theorem cmpElem_ok {d : Dir} {e : α} {E : List α} {i : Nat} (hi : i < E.length) :
    cmpElem leq d e E i = .ok (cmpB leq d e E i) := by
  unfold cmpElem cmpB
  rw [List.getElem?_eq_getElem hi]
  rfl

theorem filterCmp_ok {d : Dir} {e : α} {E : List α} {l : List Nat} (hl : ∀ i ∈ l, i < E.length) :
    filterCmp leq d e E l = .ok (l.filter (cmpB leq d e E)) := by
  induction l with
  | nil => rfl
  | cons i is ih =>
    unfold filterCmp
    rw [cmpElem_ok (hl i List.mem_cons_self), ih (fun j hj => hl j (List.mem_cons_of_mem _ hj))]
    simp only [List.filter_cons]

/-- the test is the comparison with the new element in the extended list -/
theorem cmpB_eq_relD {d : Dir} {e : α} {E : List α} {i : Nat} (hi : i < E.length) :
    cmpB leq d e E i = relD leq d (E ++ [e]) i E.length := by
  unfold cmpB relD rel
  rw [List.getElem?_eq_getElem hi, List.getElem?_append_left hi, List.getElem?_eq_getElem hi]
  have : (E ++ [e])[E.length]? = some e := by simp
  cases d <;> simp

end
end Fca.Poset

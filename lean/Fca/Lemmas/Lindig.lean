/-
  Fca.Lemmas.Lindig — `lindig_algorithm`: termination with the fuel `2^n + 1`, soundness (every listed pair is a
  formal concept) and duplicate-freeness (the `index` dictionary), for every iteration order.
  (Completeness — Lindig's neighbour theorem for an arbitrary processing order — is not proved here.)
-/
import Fca.Lemmas.CbOTable
namespace Fca.LindigL
open Fca Fca.Spec

section
variable (t : Table) (intention extension : List Nat → List Nat)

/-- the two derivation operators the run uses are those of the table `t` (the context's table, or its
    transpose when `iterate_extents = False`) -/
structure Ops : Prop where
  hI : ∀ A, (∀ g ∈ A, g < t.height) → intention A = intAll t A
  hE : ∀ B, (∀ a ∈ B, a < t.width) → extension B = extAll t B

structure LInv (s : LindigSt) : Prop where
  conc : ∀ c ∈ s.concepts, isConcept t c.1 c.2 = true
  nodup : (s.concepts.map (·.1)).Nodup
  qlt : ∀ i ∈ s.queue, i < s.concepts.length
  qnd : s.queue.Nodup

variable {t intention extension}

theorem length_sublists (l : List Nat) : (sublists l).length = 2 ^ l.length := by
  induction l with
  | nil => simp [sublists]
  | cons x xs ih =>
    simp only [sublists, List.length_append, List.length_map, ih, List.length_cons, Nat.pow_succ]
    omega

theorem concepts_le (s : LindigSt) (h : LInv t s) : s.concepts.length ≤ 2 ^ t.height := by
  have hsub : (s.concepts.map (·.1)) ⊆ sublists (List.range t.height) := by
    intro e he
    obtain ⟨c, hc, rfl⟩ := List.mem_map.mp he
    have := (isConcept_iff t).mp (h.conc c hc)
    rw [← this.1]
    unfold extAll ext
    exact filter_mem_sublists _ _
  have := List.Nodup.length_le_of_subset h.nodup hsub
  rw [List.length_map, length_sublists, List.length_range] at this
  exact this

theorem concept_of_comb (ops : Ops t intention extension) {X : List Nat} (hX : ∀ g ∈ X, g < t.height) :
    isConcept t (extension (intention X)) (intention X) = true := by
  rw [ops.hI X hX, ops.hE _ (intAll_lt t)]
  exact isConcept_of_objs t hX

theorem dsupLoop_sound (ops : Ops t intention extension) (extent : List Nat)
    (hext : ∀ g ∈ extent, g < t.height) :
    ∀ (gs reps : List Nat) (nb : List (List Nat × List Nat)), (∀ g ∈ gs, g < t.height) →
      (∀ x ∈ nb, isConcept t x.1 x.2 = true) →
      ∀ x ∈ dsupLoop intention extension extent gs reps nb, isConcept t x.1 x.2 = true := by
  intro gs
  induction gs with
  | nil => intro reps nb _ hnb x hx; simpa [dsupLoop] using hnb x (by simpa [dsupLoop] using hx)
  | cons g gs ih =>
    intro reps nb hgs hnb x hx
    unfold dsupLoop at hx
    simp only at hx
    have hgs' : ∀ g ∈ gs, g < t.height := fun y hy => hgs y (List.mem_cons_of_mem _ hy)
    split at hx
    · apply ih reps _ hgs' ?_ x hx
      intro y hy
      rcases List.mem_append.mp hy with h | h
      · exact hnb y h
      · simp only [List.mem_singleton] at h
        subst h
        apply concept_of_comb ops
        intro z hz
        rcases List.mem_append.mp hz with h | h
        · exact hext z h
        · simp only [List.mem_singleton] at h; subst h; exact hgs z List.mem_cons_self
    · exact ih _ nb hgs' hnb x hx

theorem dsups_sound (ops : Ops t intention extension) (ord : List Nat → List Nat)
    (hord : ∀ l, (ord l).Perm l) (extent : List Nat) (hext : ∀ g ∈ extent, g < t.height) :
    ∀ x ∈ directSuperConcepts t.height intention extension ord extent, isConcept t x.1 x.2 = true := by
  unfold directSuperConcepts
  apply dsupLoop_sound ops extent hext
  · intro g hg
    have := (hord _).mem_iff.mp hg
    exact List.mem_range.mp (List.mem_filter.mp this).1
  · intro x hx; cases hx

theorem lindigIndex_none {concepts : List (List Nat × List Nat)} {G : List Nat}
    (h : lindigIndex concepts G = none) : G ∉ concepts.map (·.1) := by
  intro hm
  obtain ⟨c, hc, rfl⟩ := List.mem_map.mp hm
  unfold lindigIndex at h
  simp only at h
  split at h
  · cases h
  · rename_i hlt
    apply hlt
    rw [List.findIdx_lt_length]
    exact ⟨c, hc, by simp⟩

theorem addSups_inv (cId : Nat) : ∀ (xs : List (List Nat × List Nat)) (s : LindigSt), LInv t s →
    (∀ x ∈ xs, isConcept t x.1 x.2 = true) →
    LInv t (lindigAddSups cId xs s) ∧
      (lindigAddSups cId xs s).queue.length + s.concepts.length =
        s.queue.length + (lindigAddSups cId xs s).concepts.length := by
  intro xs
  induction xs with
  | nil => intro s h _; exact ⟨h, by simp [lindigAddSups]⟩
  | cons x xs ih =>
    intro s h hx
    unfold lindigAddSups
    simp only
    have hxs : ∀ y ∈ xs, isConcept t y.1 y.2 = true := fun y hy => hx y (List.mem_cons_of_mem _ hy)
    cases hidx : lindigIndex s.concepts x.1 with
    | some i =>
      simp only
      have hinv : LInv t { s with childrenDict := dictAppend s.childrenDict ((lindigIndex s.concepts x.1).getD 0) cId,
                                  parentsDict := dictAppend s.parentsDict cId ((lindigIndex s.concepts x.1).getD 0) } :=
        ⟨h.conc, h.nodup, h.qlt, h.qnd⟩
      obtain ⟨h1, h2⟩ := ih _ hinv hxs
      exact ⟨h1, h2⟩
    | none =>
      simp only
      have hnew := lindigIndex_none hidx
      have hinv1 : LInv t { s with queue := s.queue ++ [s.concepts.length], concepts := s.concepts ++ [x] } := by
        refine ⟨?_, ?_, ?_, ?_⟩
        · intro c hc
          rcases List.mem_append.mp hc with h' | h'
          · exact h.conc c h'
          · simp only [List.mem_singleton] at h'; subst h'; exact hx _ List.mem_cons_self
        · simp only [List.map_append, List.map_cons, List.map_nil]
          rw [List.nodup_append]
          refine ⟨h.nodup, by simp, ?_⟩
          intro a ha b hb hab
          simp only [List.mem_singleton] at hb
          subst hb; subst hab
          exact hnew ha
        · intro i hi
          simp only [List.length_append, List.length_singleton]
          rcases List.mem_append.mp hi with h' | h'
          · have := h.qlt i h'; omega
          · simp only [List.mem_singleton] at h'; omega
        · rw [List.nodup_append]
          refine ⟨h.qnd, by simp, ?_⟩
          intro a ha b hb hab
          simp only [List.mem_singleton] at hb
          subst hb; subst hab
          have := h.qlt _ ha; omega
      have hinv : ∀ cd pd, LInv t (⟨s.concepts ++ [x], s.queue ++ [s.concepts.length], cd, pd⟩ : LindigSt) :=
        fun _ _ => ⟨hinv1.conc, hinv1.nodup, hinv1.qlt, hinv1.qnd⟩
      obtain ⟨h1, h2⟩ := ih _ (hinv _ _) hxs
      refine ⟨h1, ?_⟩
      simp only [List.length_append, List.length_singleton] at h2 ⊢
      omega

/-- the main loop terminates within the fuel and keeps the invariant -/
theorem loop_ok (ops : Ops t intention extension) (ord : List Nat → List Nat)
    (hord : ∀ l, (ord l).Perm l) (pick : List Nat → Nat) :
    ∀ (f : Nat) (s : LindigSt), LInv t s → s.queue.length + 2 ^ t.height < f + s.concepts.length →
      ∃ s', lindigLoop t.height intention extension ord pick f s = .ok s' ∧ LInv t s' := by
  intro f
  induction f with
  | zero =>
    intro s h hm
    have := concepts_le s h
    omega
  | succ f ih =>
    intro s h hm
    unfold lindigLoop
    split
    · exact ⟨s, rfl, h⟩
    · rename_i q0 qs hq
      simp only
      generalize hcid : (if s.queue.contains (pick s.queue) = true then pick s.queue else q0) = cId
      have hcq : cId ∈ s.queue := by
        rw [← hcid]
        split
        · rename_i hc; simpa using hc
        · rw [hq]; exact List.mem_cons_self
      have hlen : (s.queue.erase cId).length + 1 = s.queue.length := by
        rw [List.length_erase_of_mem hcq]
        have : 0 < s.queue.length := List.length_pos_of_mem hcq
        omega
      have hinv1 : ∀ pd, LInv t { s with queue := s.queue.erase cId, parentsDict := pd } := fun _ =>
        ⟨h.conc, h.nodup, fun i hi => h.qlt i (List.mem_of_mem_erase hi), h.qnd.erase _⟩
      have hc : isConcept t (s.concepts.getD cId ([], [])).1 (s.concepts.getD cId ([], [])).2 = true := by
        have hlt := h.qlt cId hcq
        apply h.conc
        rw [List.getD_eq_getElem?_getD, List.getElem?_eq_getElem hlt]
        exact List.getElem_mem hlt
      have hext : ∀ g ∈ (s.concepts.getD cId ([], [])).1, g < t.height := by
        intro g hg
        rw [← ((isConcept_iff t).mp hc).1] at hg
        exact extAll_lt t g hg
      split
      · apply ih _ (hinv1 _)
        simp only
        omega
      · have hds := dsups_sound ops ord hord _ hext
        obtain ⟨h1, h2⟩ := addSups_inv cId _ _ (hinv1 s.parentsDict) hds
        apply ih _ h1
        simp only at h2
        omega

theorem intAll_extAll_range (t : Table) : intAll t (extAll t (List.range t.width)) = List.range t.width := by
  unfold intAll int
  apply List.filter_eq_self.mpr
  intro a ha
  simp only [List.all_eq_true]
  intro g hg
  exact ((mem_extAll t).mp hg).2 a ha

/-- the initial state of the run -/
theorem init_inv (ops : Ops t intention extension) :
    LInv t ⟨[(extension (List.range t.width), List.range t.width)], [0], [(0, [])], []⟩ := by
  refine ⟨?_, by simp, by simp, by simp⟩
  intro c hc
  simp only [List.mem_singleton] at hc
  subst hc
  rw [ops.hE _ (fun a ha => List.mem_range.mp ha)]
  rw [isConcept_iff]
  exact ⟨rfl, intAll_extAll_range t⟩

end

/-- the operators of the run, in both directions -/
theorem ops_direct (K : Ctx) (hwf : K.table.WF) :
    Ops K.table (fun A => K.intentionI A none) (fun B => K.extensionI B none) where
  hI := fun A hA => C01.intention_i_exact K hwf A none hA (by intro bs h; cases h)
  hE := fun B hB => C01.extension_i_exact K hwf B none hB (by intro bs h; cases h)

theorem ops_swapped (K : Ctx) (hwf : K.table.WF) :
    Ops (transpose K.table) (fun A => K.extensionI A none) (fun B => K.intentionI B none) where
  hI := by
    intro A hA
    rw [transpose_height] at hA
    rw [intAll_transpose K.table hwf]
    exact C01.extension_i_exact K hwf A none hA (by intro bs h; cases h)
  hE := by
    intro B hB
    rw [transpose_width] at hB
    rw [extAll_transpose]
    exact C01.intention_i_exact K hwf B none hB (by intro bs h; cases h)

theorem key_sorted_concept {t : Table} {c : List Nat × List Nat} (h : isConcept t c.1 c.2 = true) :
    sortIdx c.1 = c.1 ∧ sortIdx c.2 = c.2 := by
  have := (isConcept_iff t).mp h
  constructor
  · rw [← this.1]; exact CbOM.sortIdx_sorted (extAll_sorted t _)
  · rw [← this.2]; exact CbOM.sortIdx_sorted (intAll_sorted t _)

/-- `lindig_algorithm`: terminates with the fuel `2^n+1`; sound and duplicate-free, for every direction and
    every pair of iteration orders. -/
theorem lindig_sound_nodup (K : Ctx) (hwf : K.table.WF) (iter : Option Bool)
    (ord : List Nat → List Nat) (hord : ∀ l, (ord l).Perm l) (pick : List Nat → Nat)
    (fuel : Nat) (hf : lindigAlgorithmFuel K iter ≤ fuel) :
    ∃ r, lindigAlgorithm K iter ord pick fuel = .ok r ∧ SoundNodup K.table r.concepts := by
  unfold lindigAlgorithm
  unfold lindigAlgorithmFuel at hf
  simp only
  cases hit : iter.getD (decide (K.nObjects < K.nAttributes))
  · -- attributes play the objects' role: the run is Lindig on the transposed table
    simp only [hit, Bool.false_eq_true, ↓reduceIte] at hf ⊢
    have ops := ops_swapped K hwf
    have hh : (transpose K.table).height = K.nAttributes := transpose_height K.table
    have hw : (transpose K.table).width = K.nObjects := rfl
    have hinit := init_inv ops
    rw [hw] at hinit
    obtain ⟨s', hs', hinv⟩ := loop_ok ops ord hord pick fuel _ hinit (by
      simp only [List.length_singleton, hh]; unfold lindigFuel at hf; omega)
    rw [hh] at hs'
    rw [hs']
    refine ⟨_, rfl, ?_⟩
    have hkey : (((s'.concepts.map fun c => (⟨c.1, c.1.map fun i => K.attrNames.getD i "", c.2,
          c.2.map fun i => K.objNames.getD i ""⟩ : ConceptRec)).map
          fun c => (⟨c.intentI, c.intent, c.extentI, c.extent⟩ : ConceptRec)).map conceptKey)
        = s'.concepts.map fun c => (c.2, c.1) := by
      rw [List.map_map, List.map_map]
      apply List.map_congr_left
      intro c hc
      obtain ⟨h1, h2⟩ := key_sorted_concept (hinv.conc c hc)
      simp only [Function.comp, conceptKey, h1, h2]
    unfold SoundNodup
    simp only
    rw [hkey]
    constructor
    · rw [List.Nodup, List.pairwise_map]
      have := hinv.nodup
      rw [List.Nodup, List.pairwise_map] at this
      exact this.imp (fun h e => h (by simp only [Prod.mk.injEq] at e; exact e.2))
    · intro A B hm
      obtain ⟨c, hc, he⟩ := List.mem_map.mp hm
      simp only [Prod.mk.injEq] at he
      rw [mem_allConcepts, ← he.1, ← he.2, ← isConcept_transpose K.table hwf]
      exact hinv.conc c hc
  · simp only [hit, ↓reduceIte] at hf ⊢
    have ops := ops_direct K hwf
    have hinit := init_inv ops
    obtain ⟨s', hs', hinv⟩ := loop_ok ops ord hord pick fuel _ hinit (by
      simp only [List.length_singleton]; unfold lindigFuel at hf
      show 1 + 2 ^ K.nObjects < fuel + 1
      omega)
    have hs'' : lindigLoop K.nObjects (fun A => K.intentionI A none) (fun B => K.extensionI B none) ord pick fuel
        ⟨[(K.extensionI (List.range K.nAttributes) none, List.range K.nAttributes)], [0], [(0, [])], []⟩ = .ok s' := hs'
    rw [hs'']
    refine ⟨_, rfl, ?_⟩
    have hkey : ((s'.concepts.map fun c => (⟨c.1, c.1.map fun i => K.objNames.getD i "", c.2,
          c.2.map fun i => K.attrNames.getD i ""⟩ : ConceptRec)).map conceptKey)
        = s'.concepts.map fun c => (c.1, c.2) := by
      rw [List.map_map]
      apply List.map_congr_left
      intro c hc
      obtain ⟨h1, h2⟩ := key_sorted_concept (hinv.conc c hc)
      simp only [Function.comp, conceptKey, h1, h2]
    unfold SoundNodup
    simp only
    rw [hkey]
    constructor
    · rw [List.Nodup, List.pairwise_map]
      have := hinv.nodup
      rw [List.Nodup, List.pairwise_map] at this
      exact this.imp (fun h e => h (by simp only [Prod.mk.injEq] at e; exact e.1))
    · intro A B hm
      obtain ⟨c, hc, he⟩ := List.mem_map.mp hm
      simp only [Prod.mk.injEq] at he
      rw [mem_allConcepts, ← he.1, ← he.2]
      exact hinv.conc c hc

end Fca.LindigL

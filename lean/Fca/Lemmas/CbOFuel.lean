/-
  Fca.Lemmas.CbOFuel — termination of the Close-by-One worklist machine with a closed-form fuel.

  A combination pushed by the emission of `comb` contains `comb` and one more object, so the number of
  objects *outside* a combination (`depth`) strictly decreases along pushes and at most `n` combinations are
  pushed per emission: processing a combination of depth `≤ d` (together with everything it pushes)
  takes at most `T d` iterations, `T 0 = 1`, `T (d+1) = 1 + n · T d ≤ (n+1)^(d+2)`.
-/
import Fca.Lemmas.CbOMachine
namespace Fca.CbOM
open Fca

section
variable {ι : Type} [BEq ι] [LawfulBEq ι]
variable {v : CboVariant} {n : Nat} {intention : List Nat → ι} {extIter : ι → List Nat → List Nat}
variable {c : List Nat → Nat → Bool}

/-- number of objects outside a combination -/
def depth (n : Nat) (comb : List Nat) : Nat := ((List.range n).filter fun g => !comb.contains g).length

def T (n : Nat) : Nat → Nat
  | 0 => 1
  | d + 1 => 1 + n * T n d

theorem length_filter_lt {l : List Nat} {p q : Nat → Bool} (himp : ∀ x ∈ l, p x = true → q x = true)
    {a : Nat} (ha : a ∈ l) (hq : q a = true) (hp : p a = false) :
    (l.filter p).length < (l.filter q).length := by
  induction l with
  | nil => cases ha
  | cons x xs ih =>
    have hle : (xs.filter p).length ≤ (xs.filter q).length := by
      clear ih ha
      induction xs with
      | nil => simp
      | cons y ys ih2 =>
        have h' := ih2 (fun z hz => himp z (by
          rcases List.mem_cons.mp hz with rfl | hz
          · exact List.mem_cons_self
          · exact List.mem_cons_of_mem _ (List.mem_cons_of_mem _ hz)))
        have := himp y (List.mem_cons_of_mem _ List.mem_cons_self)
        simp only [List.filter_cons]
        cases hpy : p y <;> cases hqy : q y <;> simp_all <;> omega
    rcases List.mem_cons.mp ha with rfl | ha'
    · simp only [List.filter_cons, hq, hp]
      simp; omega
    · have h1 := ih (fun z hz => himp z (List.mem_cons_of_mem _ hz)) ha'
      have := himp x List.mem_cons_self
      simp only [List.filter_cons]
      cases hpx : p x <;> cases hqx : q x <;> simp_all <;> omega

theorem inR_extentOf {comb : List Nat} (hr : InR n comb) : InR n (extentOf n c comb) := by
  intro g hg
  rcases List.mem_append.mp hg with h | h
  · exact hr g h
  · exact (mem_added.mp h).2.1

theorem child_facts {comb x : List Nat} (hr : InR n comb) (hx : x ∈ children n c comb) :
    InR n x ∧ depth n x < depth n comb := by
  obtain ⟨g, _, hgn, hge, rfl⟩ := mem_children.mp hx
  constructor
  · intro y hy
    rcases List.mem_append.mp hy with h | h
    · exact inR_extentOf hr y h
    · simp at h; omega
  · unfold depth
    apply length_filter_lt (a := g)
    · intro y _ hy
      simp only [Bool.not_eq_true', List.contains_eq_mem, decide_eq_false_iff_not, List.mem_append,
        List.mem_singleton, not_or, extentOf] at hy ⊢
      exact hy.1.1
    · exact List.mem_range.mpr hgn
    · simp only [Bool.not_eq_true', List.contains_eq_mem, decide_eq_false_iff_not]
      intro h; exact hge (List.mem_append_left _ h)
    · simp

theorem children_length_le (comb : List Nat) : (children n c comb).length ≤ n := by
  unfold children
  rw [List.length_map]
  refine Nat.le_trans (List.length_filter_le _ _) ?_
  simp

theorem loop_succ_cons (f : Nat) (comb : List Nat) (rest : List (List Nat)) (fd : List ι)
    (ef : List (List Nat)) (out : List (List Nat × List Nat)) :
    cboLoop v n intention extIter (f + 1) ⟨comb :: rest, fd, ef, out⟩ =
      cboLoop v n intention extIter f (cboStep v n intention extIter comb ⟨rest, fd, ef, out⟩) := by
  rfl

/-- the statement "a combination (with all it pushes) is worked off within `B` iterations" -/
def Works (v : CboVariant) (n : Nat) (intention : List Nat → ι) (extIter : ι → List Nat → List Nat)
    (B : Nat) (cs : List (List Nat)) : Prop :=
  ∀ (fd : List ι) (ef : List (List Nat)) (out : List (List Nat × List Nat)),
    ∃ used, used ≤ B ∧ ∃ (fd' : List ι) (out' : List (List Nat × List Nat)), ∀ (rest : List (List Nat)) (f : Nat),
      cboLoop v n intention extIter (used + f) ⟨cs ++ rest, fd, ef, out⟩ =
        cboLoop v n intention extIter f ⟨rest, fd', ef, out'⟩

theorem works_list {B : Nat} : ∀ (cs : List (List Nat)),
    (∀ x ∈ cs, Works v n intention extIter B [x]) → Works v n intention extIter (cs.length * B) cs := by
  intro cs
  induction cs with
  | nil =>
    intro _ fd ef out
    exact ⟨0, by simp, fd, out, fun rest f => by simp⟩
  | cons x xs ih =>
    intro h fd ef out
    obtain ⟨u1, hu1, fd1, out1, h1⟩ := h x List.mem_cons_self fd ef out
    obtain ⟨u2, hu2, fd2, out2, h2⟩ := ih (fun y hy => h y (List.mem_cons_of_mem _ hy)) fd1 ef out1
    refine ⟨u1 + u2, ?_, fd2, out2, ?_⟩
    · simp only [List.length_cons, Nat.succ_mul]; omega
    · intro rest f
      have e : u1 + u2 + f = u1 + (u2 + f) := by omega
      rw [e]
      have := h1 (xs ++ rest) (u2 + f)
      simp only [List.singleton_append] at this
      simp only [List.cons_append]
      rw [this, h2 rest f]

theorem works_single (hy : Hyp v n intention extIter c) :
    ∀ (d : Nat) (comb : List Nat), InR n comb → depth n comb ≤ d →
      Works v n intention extIter (T n d) [comb] := by
  intro d
  induction d with
  | zero =>
    intro comb hr hd fd ef out
    refine ⟨1, by simp [T], ?_⟩
    have hnil : children n c comb = [] := by
      apply List.eq_nil_iff_forall_not_mem.mpr
      intro x hx
      have := (child_facts (c := c) hr hx).2
      omega
    rcases cboStep_cases hy comb ⟨[], fd, ef, out⟩ hr with ⟨_, _⟩ | ⟨_, _, _⟩ <;>
    · refine ⟨(cboStep v n intention extIter comb ⟨[], fd, ef, out⟩).intentsFound,
        (cboStep v n intention extIter comb ⟨[], fd, ef, out⟩).out, ?_⟩
      intro rest f
      rw [show 1 + f = f + 1 by omega]
      simp only [List.singleton_append]
      rw [loop_succ_cons]
      congr 1
      rw [cboStep_eq hy comb _ hr, cboStep_eq hy comb _ hr]
      simp only [emitSt, hnil]
      split
      · rfl
      · split
        · rfl
        · split
          · rfl
          · simp
  | succ d ih =>
    intro comb hr hd fd ef out
    -- the three "skip" outcomes and the emission
    rw [show T n (d + 1) = 1 + n * T n d from rfl]
    have hkids : ∀ x ∈ (children n c comb).reverse, Works v n intention extIter (T n d) [x] := by
      intro x hx
      have := child_facts (c := c) hr (List.mem_reverse.mp hx)
      exact ih x this.1 (by omega)
    have hwl := works_list (B := T n d) (children n c comb).reverse hkids
    by_cases hemit : cboStep v n intention extIter comb ⟨[], fd, ef, out⟩ =
        emitSt (v := v) (n := n) (intention := intention) (c := c) comb ⟨[], fd, ef, out⟩
    · -- emission: afterwards the children are worked off
      obtain ⟨u, hu, fd', out', hrun⟩ := hwl
        (if v == .fbarray then intention comb :: fd else fd) ef ((comb, extentOf n c comb) :: out)
      refine ⟨1 + u, ?_, fd', out', ?_⟩
      · have := children_length_le (n := n) (c := c) comb
        rw [List.length_reverse] at hu
        have : (children n c comb).length * T n d ≤ n * T n d := Nat.mul_le_mul_right _ this
        omega
      · intro rest f
        rw [show 1 + u + f = (u + f) + 1 by omega]
        simp only [List.singleton_append]
        rw [loop_succ_cons]
        have hstep : cboStep v n intention extIter comb ⟨rest, fd, ef, out⟩ =
            ⟨(children n c comb).reverse ++ rest, (if v == .fbarray then intention comb :: fd else fd), ef,
              (comb, extentOf n c comb) :: out⟩ := by
          rw [cboStep_eq hy comb _ hr] at hemit ⊢
          simp only [emitSt] at hemit ⊢
          split at hemit
          · exfalso
            have := congrArg CboSt.out hemit
            simp only at this
            exact absurd (congrArg List.length this) (by simp)
          · split at hemit
            · exfalso
              have := congrArg CboSt.out hemit
              simp only at this
              exact absurd (congrArg List.length this) (by simp)
            · split at hemit
              · exfalso
                have := congrArg CboSt.out hemit
                simp only at this
                exact absurd (congrArg List.length this) (by simp)
              · rename_i h1 h2 h3
                rw [if_neg h1, if_neg h2, if_neg h3]
        rw [hstep]
        exact hrun rest f
    · -- skipped: the state is unchanged
      refine ⟨1, by omega, fd, out, ?_⟩
      intro rest f
      rw [show 1 + f = f + 1 by omega]
      simp only [List.singleton_append]
      rw [loop_succ_cons]
      congr 1
      rw [cboStep_eq hy comb _ hr] at hemit ⊢
      split
      · rfl
      · split
        · rfl
        · split
          · rfl
          · rename_i h1 h2 h3
            rw [if_neg h1, if_neg h2, if_neg h3] at hemit
            exact absurd rfl hemit

theorem T_le_pow (n d : Nat) : T n d ≤ (n + 1) ^ (d + 1) := by
  induction d with
  | zero => simp [T]
  | succ d ih =>
    have h1 : 1 ≤ (n + 1) ^ (d + 1) := Nat.pow_pos (by omega)
    have h2 : n * T n d ≤ n * (n + 1) ^ (d + 1) := Nat.mul_le_mul_left _ ih
    have h3 : (n + 1) ^ (d + 1 + 1) = n * (n + 1) ^ (d + 1) + (n + 1) ^ (d + 1) := by
      rw [Nat.pow_succ, Nat.mul_succ, Nat.mul_comm]
    rw [h3]
    simp only [T]
    omega

theorem depth_nil (n : Nat) : depth n [] = n := by
  simp [depth, List.filter_eq_self.mpr]

/-- with `cboFuel n` iterations the loop terminates normally -/
theorem loop_terminates (hy : Hyp v n intention extIter c) (fuel : Nat) (hf : cboFuel n ≤ fuel) :
    ∃ out, cboLoop v n intention extIter fuel (cboInit ι) = .ok out := by
  obtain ⟨u, hu, fd', out', hrun⟩ :=
    works_single hy n [] (fun _ h => by cases h) (by rw [depth_nil]; exact Nat.le_refl _) [] [] []
  have hT := T_le_pow n n
  have hfu : u + 1 ≤ fuel := by unfold cboFuel at hf; omega
  obtain ⟨k, hk⟩ : ∃ k, fuel = u + (k + 1) := ⟨fuel - u - 1, by omega⟩
  have := hrun [] (k + 1)
  simp only [List.append_nil] at this
  refine ⟨out'.reverse, ?_⟩
  rw [hk]
  unfold cboInit
  rw [this]
  rfl

end
end Fca.CbOM

/-
  Lemmas/SemiLatticeAdd — `POSet.add(e, fill_up_cache=True)` as executed on a caching semilattice instance:
  `trace_element` starts from the overridden `tops` / `bottoms` (`[cached extreme index]`) instead of the scan of
  `POSet.tops / bottoms`.  The scan is what leaves every closed-relation entry in the cache, which the neighbour
  patching loop relies on (`self._cache_ancestors[el_i]`); on a semilattice that presence comes from the invariant
  `Complete` (established by the constructor's own scan, kept by every operation except
  `add(new, fill_up_cache=False)`, which wipes the caches).  Reuses C09's trace / patch lemmas.
-/
import Fca.Lemmas.SemiLatticeHist
import Fca.Lemmas.PosetStep2
import Fca.Lemmas.SemiLatticeDic
import Fca.Lemmas.SemiLatticePatch
set_option linter.unusedSectionVars false
set_option linter.unusedVariables false
namespace Fca.SemiLattice
open Fca Fca.Poset Fca.Poset.Fresh Fca.SemiLattice.Spec

section
variable {α : Type} [DecidableEq α] {leq : α → α → Bool} {ord : List Nat → List Nat} {E : List α}

theorem lift_sat {β : Type} {m : M α β} {s : SL α} {Q : St α → β → Prop} (h : Sat m s.p Q) :
    ∃ p' b, ML.lift m s = ({ s with p := p' }, .ok b) ∧ Q p' b := by
  obtain ⟨p', b, hm, hq⟩ := h
  exact ⟨p', b, by rw [lift_apply, hm], hq⟩

theorem lift_modify (f : St α → St α) (s : SL α) :
    ML.lift (M.modify f) s = ({ s with p := f s.p }, .ok ()) := rfl

/-- `trace_element` once `start_elements` is known to be the list of minimal / maximal elements -/
theorem traceFrom_spec (hpo : IdxPO leq E) (hord : ∀ l, (ord l).Perm l) {d : Dir} {e : α}
    (hD : DownSet leq d E (cmpB leq d e E)) {G : Ghost} {c : Bool} {s : St α} (h : InvB leq E G c s)
    {st : List Nat} (hst : st = extremes leq d E) :
    Sat (traceFrom leq ord d e st) s (fun s' r =>
      BInv leq d E (cmpB leq d e E) [] r.2 r.1 ∧
      InvB leq E (G.addDirectP d.flip (fun k => k ∈ r.2)) c s') := by
  subst hst
  unfold traceFrom
  apply sat_bind
  apply sat_get
  rw [h.elems]
  have hsr : ∀ i ∈ extremes leq d E, i < E.length := fun i hi => (mem_extremes.mp hi).1
  rw [filterCmp_ok hsr]
  apply sat_bind
  apply sat_ofExcept_ok
  exact traceLoop_spec hpo hord hD (E.length + 1) _ [] [] s binv_init
    (h.addDirectP d.flip _ (fun _ k hk => by cases hk)) (by simp)

/-- `self.trace_element(e, ·)` on a caching semilattice: same result and same guarantees as on a plain `POSet`,
    provided - on a side whose `tops`/`bottoms` is overridden - the cached index is the extreme element and the
    closed relation of every element is already cached -/
theorem traceElementSL_spec (hpo : IdxPO leq E) (hord : ∀ l, (ord l).Perm l) {d : Dir} {e : α}
    (hD : DownSet leq d E (cmpB leq d e E)) {G : Ghost} {s : SL α} (h : InvB leq E G true s.p)
    (hext : s.cls.has d = true → ∃ t, isExt leq d E t = true ∧ s.cache d = some t)
    (hcp : s.cls.has d = true → ∀ k, k < E.length → G.closedP d k) :
    ∃ p' r, traceElementSL leq ord d e s = ({ s with p := p' }, .ok r) ∧
      BInv leq d E (cmpB leq d e E) [] r.2 r.1 ∧
      InvB leq E ((G.addClosedP d (fun k => k < E.length)).addDirectP d.flip (fun k => k ∈ r.2)) true p' := by
  unfold traceElementSL
  cases hd : s.cls.has d
  · -- `POSet.tops / bottoms`: the scan
    have hx : extremesSL leq d s = ML.lift (extremesE leq d) s := by
      unfold extremesSL
      rw [bind_ok (get_apply s)]
      simp only [hd, Bool.false_eq_true, ↓reduceIte]
    obtain ⟨p1, st, hl, h1, hst⟩ := lift_sat (s := s) (extremesE_spec' hpo h d)
    rw [← hx] at hl
    rw [bind_ok hl]
    obtain ⟨p2, r, hl2, hb, h2⟩ := lift_sat (s := { s with p := p1 }) (traceFrom_spec hpo hord hD h1 hst)
    exact ⟨p2, r, hl2, hb, h2⟩
  · obtain ⟨t, ht, hc⟩ := hext hd
    have hpo' : IdxPO leq s.p.elems := by rw [h.elems]; exact hpo
    have hx := extremesSL_run (s := s) hpo' hd (by rw [h.elems]; exact ht) (fun _ => hc)
    rw [bind_ok hx]
    have h1 : InvB leq E (G.addClosedP d (fun k => k < E.length)) true s.p :=
      h.addClosedP d _ (fun hct k hk => h.closedPres hct d k (hcp hd k hk))
    obtain ⟨p2, r, hl2, hb, h2⟩ := lift_sat (s := s)
      (traceFrom_spec hpo hord hD h1 (extremes_of_isExt hpo ht).symm)
    exact ⟨p2, r, hl2, hb, h2⟩

/-- the same without any presence assumption (and without the promise the scan would add), transporting an
    arbitrary invariant `I` of the poset state that the scan and the trace keep -/
theorem traceElementSL_specW (hpo : IdxPO leq E) (hord : ∀ l, (ord l).Perm l) {d : Dir} {e : α}
    (hD : DownSet leq d E (cmpB leq d e E)) {G : Ghost} {s : SL α} (h : InvB leq E G true s.p)
    (hext : s.cls.has d = true → ∃ t, isExt leq d E t = true ∧ s.cache d = some t)
    (I : St α → Prop) (hIe : Keeps I (extremesE leq d)) (hIt : ∀ st, Keeps I (traceFrom leq ord d e st))
    (hI : I s.p) :
    ∃ p' r, traceElementSL leq ord d e s = ({ s with p := p' }, .ok r) ∧
      BInv leq d E (cmpB leq d e E) [] r.2 r.1 ∧
      InvB leq E (G.addDirectP d.flip (fun k => k ∈ r.2)) true p' ∧ I p' := by
  unfold traceElementSL
  cases hd : s.cls.has d
  · have hx : extremesSL leq d s = ML.lift (extremesE leq d) s := by
      unfold extremesSL
      rw [bind_ok (get_apply s)]
      simp only [hd, Bool.false_eq_true, ↓reduceIte]
    obtain ⟨p1, st, hm1, h1, hst⟩ := extremesE_spec' hpo h d
    have hl : ML.lift (extremesE leq d) s = ({ s with p := p1 }, .ok st) := by rw [lift_apply, hm1]
    have hI1 : I p1 := by have := hIe.state hI; rw [hm1] at this; exact this
    rw [← hx] at hl
    rw [bind_ok hl]
    obtain ⟨p2, r, hm2, hb, h2⟩ := traceFrom_spec (ord := ord) hpo hord hD h1.dropClosedP hst
    have hl2 : ML.lift (traceFrom leq ord d e st) ({ s with p := p1 } : SL α) = ({ s with p := p2 }, .ok r) := by
      rw [lift_apply, hm2]
    have hI2 : I p2 := by have := (hIt st).state hI1; rw [hm2] at this; exact this
    exact ⟨p2, r, hl2, hb, h2, hI2⟩
  · obtain ⟨t, ht, hc⟩ := hext hd
    have hpo' : IdxPO leq s.p.elems := by rw [h.elems]; exact hpo
    have hx := extremesSL_run (s := s) hpo' hd (by rw [h.elems]; exact ht) (fun _ => hc)
    rw [bind_ok hx]
    obtain ⟨p2, r, hm2, hb, h2⟩ := traceFrom_spec (ord := ord) hpo hord hD h (extremes_of_isExt hpo ht).symm
    have hl2 : ML.lift (traceFrom leq ord d e [t]) s = ({ s with p := p2 }, .ok r) := by
      rw [lift_apply, hm2]
    have hI2 : I p2 := by have := (hIt [t]).state hI; rw [hm2] at this; exact this
    exact ⟨p2, r, hl2, hb, h2, hI2⟩

theorem keeps_traceFrom (n x : Nat) (d : Dir) (e : α) (st : List Nat) :
    Keeps (DIC n x) (traceFrom leq ord d e st) := by
  unfold traceFrom
  exact keeps_get_bind fun s => tr_bind (tr_ofExcept _ (fun _ _ _ h => h) (fun _ h => h)) fun tv =>
    keeps_traceLoop n x _ _ _ _ _ _

/-- the `if fill_up_cache:` block of `POSet.add` on a caching semilattice, from the cache invariant and `DIC` only
    (no presence of closed entries is assumed: the traced elements get theirs from the trace itself) -/
theorem posetAddFillSL_specW {e : α} (hpo : IdxPO leq E) (hpo' : IdxPO leq (E ++ [e]))
    (hord : ∀ l, (ord l).Perm l) {s : SL α} (h : InvB leq E Ghost.none true s.p)
    (hext : ∀ d, s.cls.has d = true → ∃ t, isExt leq d E t = true ∧ s.cache d = some t)
    (hdic : DIC E.length E.length s.p) :
    ∃ p6 cl dr, posetAddFillSL leq ord e E.length s = ({ s with p := p6 }, .ok ()) ∧
      Weak.PatchInv leq E e cl dr (List.range E.length) p6 ∧ DIC E.length E.length p6 := by
  have hnn : ¬(E.length < E.length ∧ E.length < E.length) := fun hh => Nat.lt_irrefl _ hh.1
  have hn : ¬ E.length < E.length := Nat.lt_irrefl _
  have h1 := h.insertLeqOut true hnn
  have d1 : DIC E.length E.length ({ s.p with leqC := ainsert (E.length, E.length) true s.p.leqC } : St α) :=
    dic_of_same_direct hdic (fun d k h => by cases d <;> exact h) (fun d k h => by cases d <;> exact h)
  -- trace up
  obtain ⟨p2, ⟨ch, de⟩, e2, hb1, h2, d2⟩ := traceElementSL_specW (ord := ord) hpo hord (downSet_cmpB hpo' .desc)
    (s := { s with p := { s.p with leqC := ainsert (E.length, E.length) true s.p.leqC } }) h1
    (hext .desc) (DIC E.length E.length) (keeps_extremesE _ _ _) (keeps_traceFrom _ _ _ _) d1
  obtain ⟨hde, hch⟩ := trace_result hpo' hpo hb1
  simp only at h2 hde hch
  have h3 := (h2.insertDirectOut .desc ch hn).insertClosedOut .desc de hn
  have d3 : DIC E.length E.length ((p2.setDirect .desc (ainsert E.length ch (p2.direct .desc))).setClosed .desc (ainsert E.length de ((p2.setDirect .desc (ainsert E.length ch (p2.direct .desc))).closed .desc))) :=
    dic_insertClosed (dic_setDirect_insert' d2 _ _ _ (fun hlt => absurd hlt hn)) _ _ _
  -- trace down
  obtain ⟨p4, ⟨pa, an⟩, e5, hb2, h4, d4⟩ := traceElementSL_specW (ord := ord) hpo hord (downSet_cmpB hpo' .anc)
    (s := { s with p := ((p2.setDirect .desc (ainsert E.length ch (p2.direct .desc))).setClosed .desc (ainsert E.length de ((p2.setDirect .desc (ainsert E.length ch (p2.direct .desc))).closed .desc))) }) h3
    (hext .anc) (DIC E.length E.length) (keeps_extremesE _ _ _) (keeps_traceFrom _ _ _ _) d3
  obtain ⟨han, hpa⟩ := trace_result hpo' hpo hb2
  simp only at h4 han hpa
  have h5 := (h4.insertDirectOut .anc pa hn).insertClosedOut .anc an hn
  have d5 : DIC E.length E.length ((p4.setDirect .anc (ainsert E.length pa (p4.direct .anc))).setClosed .anc (ainsert E.length an ((p4.setDirect .anc (ainsert E.length pa (p4.direct .anc))).closed .anc))) :=
    dic_insertClosed (dic_setDirect_insert' d4 _ _ _ (fun hlt => absurd hlt hn)) _ _ _
  -- the closed entries of the traced elements are present: their direct entries are (the trace left them), and `DIC`
  have hlt : ∀ d k, ltD leq d (E ++ [e]) k E.length = true → k < E.length := by
    intro d k hk
    have h1 := (ltD_lt hk).1
    have h2 := (ltD_iff.mp hk).2
    simp only [List.length_append, List.length_singleton] at h1
    omega
  have h6 := (h5.addClosedP .anc (fun k => k ∈ de) (fun hct k hk => by
      have hp := h5.directPres hct .anc k (by
        simp only [Ghost.setClosedX, Ghost.setDirectX, Ghost.addDirectP, Ghost.setLeqX, Ghost.none]
        exact Or.inl (Or.inr ⟨rfl, hk⟩))
      exact d5 .anc k (hlt .desc k ((hde.2 k).mp hk)) (by have := hlt .desc k ((hde.2 k).mp hk); omega) hp)).addClosedP
    .desc (fun k => k ∈ an) (fun hct k hk => by
      have hp := h5.directPres hct .desc k (by
        simp only [Ghost.setClosedX, Ghost.setDirectX, Ghost.addDirectP, Ghost.setLeqX, Ghost.none]
        exact Or.inr ⟨rfl, hk⟩)
      exact d5 .desc k (hlt .anc k ((han.2 k).mp hk)) (by have := hlt .anc k ((han.2 k).mp hk); omega) hp)
  have hcl : ∀ d, (Dir.casesOn (motive := fun _ => List Nat) d de an).Nodup ∧
      ∀ x, x ∈ (Dir.casesOn (motive := fun _ => List Nat) d de an) ↔
        ltD leq d (E ++ [e]) x E.length = true := by
    intro d; cases d
    · exact hde
    · exact han
  have hdr : ∀ d, (Dir.casesOn (motive := fun _ => List Nat) d ch pa).Nodup ∧
      ∀ x, x ∈ (Dir.casesOn (motive := fun _ => List Nat) d ch pa) ↔
        isCover leq d (E ++ [e]) x E.length = true := by
    intro d; cases d
    · exact hch
    · exact hpa
  have hP := Weak.patchInv_init (cl := fun d => Dir.casesOn (motive := fun _ => List Nat) d de an)
    (dr := fun d => Dir.casesOn (motive := fun _ => List Nat) d ch pa) hpo' h6 hcl hdr
    (by
      intro p
      simp only [Ghost.setClosedX, Ghost.setDirectX, Ghost.addClosedP, Ghost.addDirectP, Ghost.setLeqX,
        Ghost.none])
    (by
      intro d k
      simp only [Ghost.setClosedX, Ghost.setDirectX, Ghost.addClosedP, Ghost.addDirectP, Ghost.setLeqX,
        Ghost.none]
      cases d <;> by_cases hk : k = E.length <;> simp [hk])
    (by
      intro d k
      simp only [Ghost.setClosedX, Ghost.setDirectX, Ghost.addClosedP, Ghost.addDirectP, Ghost.setLeqX,
        Ghost.none]
      cases d <;> by_cases hk : k = E.length <;> simp [hk])
    (by
      intro d k hk
      simp only [Ghost.setClosedX, Ghost.setDirectX, Ghost.addClosedP, Ghost.addDirectP, Ghost.setLeqX,
        Ghost.none]
      cases d <;> simp [Dir.flip] <;> exact hk)
    (by
      intro d k hk
      simp only [Ghost.setClosedX, Ghost.setDirectX, Ghost.addClosedP, Ghost.addDirectP, Ghost.setLeqX,
        Ghost.none]
      cases d <;> simp [Dir.flip] <;> exact hk)
  obtain ⟨p6, u, hm8, h6'⟩ := Weak.addPatchLoop_spec hpo' hcl hdr hP
  have e8 : ML.lift (M.forM (addPatch E.length) (List.range E.length))
      ({ s with p := ((p4.setDirect .anc (ainsert E.length pa (p4.direct .anc))).setClosed .anc (ainsert E.length an ((p4.setDirect .anc (ainsert E.length pa (p4.direct .anc))).closed .anc))) } : SL α)
      = ({ s with p := p6 }, .ok u) := by rw [lift_apply, hm8]
  have d6 : DIC E.length E.length p6 := by
    have := (keeps_forM (I := DIC E.length E.length) (f := addPatch (α := α) E.length)
      (fun i => keeps_addPatch _ _ E.length i) (List.range E.length)).state d5
    rw [hm8] at this; exact this
  refine ⟨p6, _, _, ?_, h6', d6⟩
  unfold posetAddFillSL
  exact (bind_ok (lift_modify _ s)).trans <| (bind_ok e2).trans <| (bind_ok (lift_modify _ _)).trans <|
    (bind_ok (lift_modify _ _)).trans <| (bind_ok e5).trans <| (bind_ok (lift_modify _ _)).trans <|
    (bind_ok (lift_modify _ _)).trans e8

/-- on a caching instance, every side the class overrides has the closed relation of every element cached -/
def Complete (s : SL α) : Prop :=
  s.p.useCache = true → ∀ d, s.cls.has d = true → ∀ k, k < s.p.elems.length →
    (alookup k (s.p.closed d)).isSome = true

/-- the `if fill_up_cache:` block of `POSet.add` on a caching semilattice: returns normally, changes only the
    poset part, and ends in the loop invariant of C09's patching loop for the whole range -/
theorem posetAddFillSL_spec {e : α} (hpo : IdxPO leq E) (hpo' : IdxPO leq (E ++ [e]))
    (hord : ∀ l, (ord l).Perm l) {s : SL α} (h : InvB leq E Ghost.none true s.p)
    (hext : ∀ d, s.cls.has d = true → ∃ t, isExt leq d E t = true ∧ s.cache d = some t)
    (hcomp : ∀ d, s.cls.has d = true → ∀ k, k < E.length → (alookup k (s.p.closed d)).isSome = true) :
    ∃ p6 cl dr, posetAddFillSL leq ord e E.length s = ({ s with p := p6 }, .ok ()) ∧
      PatchInv leq E e cl dr (List.range E.length) p6 := by
  have hnn : ¬(E.length < E.length ∧ E.length < E.length) := fun hh => Nat.lt_irrefl _ hh.1
  have hn : ¬ E.length < E.length := Nat.lt_irrefl _
  -- the presence the scans would have produced, as promises of the ghost
  have h0 : InvB leq E ((Ghost.none.addClosedP .desc (fun k => s.cls.has .desc = true ∧ k < E.length)).addClosedP
      .anc (fun k => s.cls.has .anc = true ∧ k < E.length)) true s.p :=
    (h.addClosedP .desc _ (fun _ k hk => hcomp .desc hk.1 k hk.2)).addClosedP .anc _
      (fun _ k hk => hcomp .anc hk.1 k hk.2)
  -- `self._cache_leq[(n, n)] = True`
  have h1 := h0.insertLeqOut true hnn
  -- trace up
  obtain ⟨p2, ⟨ch, de⟩, e2, hb1, h2⟩ := traceElementSL_spec (ord := ord) hpo hord (downSet_cmpB hpo' .desc)
    (s := { s with p := { s.p with leqC := ainsert (E.length, E.length) true s.p.leqC } }) h1
    (hext .desc) (fun hd k hk => by
      simp only [Ghost.setLeqX, Ghost.addClosedP, Ghost.none]
      have hd' : s.cls.has Dir.desc = true := hd
      exact Or.inl (Or.inr ⟨trivial, hd', hk⟩))
  obtain ⟨hde, hch⟩ := trace_result hpo' hpo hb1
  simp only at h2 hde hch
  have h3 := (h2.insertDirectOut .desc ch hn).insertClosedOut .desc de hn
  -- trace down
  obtain ⟨p4, ⟨pa, an⟩, e5, hb2, h4⟩ := traceElementSL_spec (ord := ord) hpo hord (downSet_cmpB hpo' .anc)
    (s := { s with p := ((p2.setDirect .desc (ainsert E.length ch (p2.direct .desc))).setClosed .desc (ainsert E.length de ((p2.setDirect .desc (ainsert E.length ch (p2.direct .desc))).closed .desc))) }) h3
    (hext .anc) (fun hd k hk => by
      simp only [Ghost.setLeqX, Ghost.addClosedP, Ghost.addDirectP, Ghost.setDirectX, Ghost.setClosedX, Ghost.none]
      have hd' : s.cls.has Dir.anc = true := hd
      exact Or.inl (Or.inr ⟨trivial, hd', hk⟩))
  obtain ⟨han, hpa⟩ := trace_result hpo' hpo hb2
  simp only at h4 han hpa
  have h5 := (h4.insertDirectOut .anc pa hn).insertClosedOut .anc an hn
  -- the loop
  have hcl : ∀ d, (Dir.casesOn (motive := fun _ => List Nat) d de an).Nodup ∧
      ∀ x, x ∈ (Dir.casesOn (motive := fun _ => List Nat) d de an) ↔
        ltD leq d (E ++ [e]) x E.length = true := by
    intro d; cases d
    · exact hde
    · exact han
  have hdr : ∀ d, (Dir.casesOn (motive := fun _ => List Nat) d ch pa).Nodup ∧
      ∀ x, x ∈ (Dir.casesOn (motive := fun _ => List Nat) d ch pa) ↔
        isCover leq d (E ++ [e]) x E.length = true := by
    intro d; cases d
    · exact hch
    · exact hpa
  have hP := patchInv_init (cl := fun d => Dir.casesOn (motive := fun _ => List Nat) d de an)
    (dr := fun d => Dir.casesOn (motive := fun _ => List Nat) d ch pa) hpo' h5 hcl hdr
    (by
      intro p
      simp only [Ghost.setClosedX, Ghost.setDirectX, Ghost.addClosedP, Ghost.addDirectP, Ghost.setLeqX,
        Ghost.none])
    (by
      intro d k
      simp only [Ghost.setClosedX, Ghost.setDirectX, Ghost.addClosedP, Ghost.addDirectP, Ghost.setLeqX,
        Ghost.none]
      cases d <;> by_cases hk : k = E.length <;> simp [hk])
    (by
      intro d k
      simp only [Ghost.setClosedX, Ghost.setDirectX, Ghost.addClosedP, Ghost.addDirectP, Ghost.setLeqX,
        Ghost.none]
      cases d <;> by_cases hk : k = E.length <;> simp [hk])
    (by
      intro d k hk
      simp only [Ghost.setClosedX, Ghost.setDirectX, Ghost.addClosedP, Ghost.addDirectP, Ghost.setLeqX,
        Ghost.none]
      cases d <;> simp [hk])
    (by
      intro d k hk
      simp only [Ghost.setClosedX, Ghost.setDirectX, Ghost.addClosedP, Ghost.addDirectP, Ghost.setLeqX,
        Ghost.none]
      cases d <;> simp [Dir.flip] <;> exact hk)
  obtain ⟨p6, u, e8, h6⟩ := lift_sat
    (s := { s with p := ((p4.setDirect .anc (ainsert E.length pa (p4.direct .anc))).setClosed .anc (ainsert E.length an ((p4.setDirect .anc (ainsert E.length pa (p4.direct .anc))).closed .anc))) })
    (addPatchLoop_spec hpo' hcl hdr hP)
  refine ⟨p6, _, _, ?_, h6⟩
  unfold posetAddFillSL
  exact (bind_ok (lift_modify _ s)).trans <| (bind_ok e2).trans <| (bind_ok (lift_modify _ _)).trans <|
    (bind_ok (lift_modify _ _)).trans <| (bind_ok e5).trans <| (bind_ok (lift_modify _ _)).trans <|
    (bind_ok (lift_modify _ _)).trans e8

end
end Fca.SemiLattice

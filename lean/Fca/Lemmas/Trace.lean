/-
  Fca.Lemmas.Trace — correctness of the worklist of `trace_context` (part A, generic in the
  traced context) and the order-theoretic facts about a list of genuine concepts with its
  true cover relation (part B).
-/
import Fca.Model.Trace
import Fca.Spec.Trace
import Fca.Lemmas.Galois
import Fca.Lemmas.AllI
namespace Fca.Trace
open Fca

/-! ## Part A — the worklist -/

/-- reachability along `children` edges -/
inductive Reach (ch : Nat → List Nat) (a : Nat) : Nat → Prop
  | refl : Reach ch a a
  | step {b c : Nat} : Reach ch a b → c ∈ ch b → Reach ch a c

/-- everything memoised in `concept_extents` is what `stored_extension` would compute -/
def CacheInv (extOf : Nat → List Nat) (ca : Cache) : Prop :=
  ∀ c e, ca.lookup c = some e → e = (extOf c).eraseDups

theorem storedExtension_spec {extOf : Nat → List Nat} {ca : Cache} (h : CacheInv extOf ca) (c : Nat) :
    (storedExtension extOf ca c).2 = (extOf c).eraseDups ∧ CacheInv extOf (storedExtension extOf ca c).1 := by
  unfold storedExtension
  split
  · rename_i e he
    exact ⟨h c e he, h⟩
  · rename_i hn
    refine ⟨rfl, ?_⟩
    intro c' e' hl
    simp only [List.lookup_cons] at hl
    split at hl
    · rename_i heq
      have : c' = c := by simpa using heq
      subst this; cases hl; rfl
    · exact h c' e' hl

theorem mem_setAdd {s : List Nat} {c x : Nat} : x ∈ setAdd s c ↔ x ∈ s ∨ x = c := by
  unfold setAdd
  split
  · rename_i h
    have : c ∈ s := by simpa using h
    constructor
    · exact Or.inl
    · rintro (h | rfl) <;> assumption
  · simp

theorem setAdd_of_not_mem {s : List Nat} {c : Nat} (h : c ∉ s) : setAdd s c = s ++ [c] := by
  unfold setAdd
  rw [if_neg]; simpa using h

theorem mem_setUnion {a b : List Nat} {x : Nat} : x ∈ setUnion a b ↔ x ∈ a ∨ x ∈ b := by
  unfold setUnion
  simp only [List.mem_append, List.mem_filter, Bool.not_eq_true', List.contains_eq_mem,
    decide_eq_false_iff_not]
  constructor
  · rintro (h | h)
    · exact Or.inl h
    · exact Or.inr h.1
  · rintro (h | h)
    · exact Or.inl h
    · by_cases hx : x ∈ a
      · exact Or.inl hx
      · exact Or.inr ⟨h, hx⟩

theorem unionExts_spec {extOf : Nat → List Nat} (ks : List Nat) :
    ∀ (ca : Cache) (acc : List Nat), CacheInv extOf ca →
      CacheInv extOf (unionExts extOf ks ca acc).1 ∧
      ∀ g, g ∈ (unionExts extOf ks ca acc).2 ↔ g ∈ acc ∨ ∃ k ∈ ks, g ∈ extOf k := by
  induction ks with
  | nil => intro ca acc h; simp [unionExts, h]
  | cons k ks ih =>
    intro ca acc h
    obtain ⟨h2, hc⟩ := storedExtension_spec h k
    obtain ⟨ihc, ihm⟩ := ih (storedExtension extOf ca k).1 (setUnion acc (storedExtension extOf ca k).2) hc
    simp only [unionExts]
    refine ⟨ihc, ?_⟩
    intro g
    rw [ihm g, mem_setUnion, h2, List.mem_eraseDups]
    simp only [List.mem_cons, exists_eq_or_imp]
    constructor
    · rintro ((h | h) | h)
      · exact Or.inl h
      · exact Or.inr (Or.inl h)
      · exact Or.inr (Or.inr h)
    · rintro (h | h | h)
      · exact Or.inl (Or.inl h)
      · exact Or.inl (Or.inr h)
      · exact Or.inr h

theorem newConcepts_spec {extOf : Nat → List Nat} (visited queue : List Nat) (ks : List Nat) :
    ∀ (ca : Cache), CacheInv extOf ca →
      CacheInv extOf (newConcepts extOf visited queue ks ca).1 ∧
      (newConcepts extOf visited queue ks ca).2
        = ks.filter (fun k => decide ((extOf k).eraseDups.length > 0) && !visited.contains k && !queue.contains k) := by
  induction ks with
  | nil => intro ca h; simp [newConcepts, h]
  | cons k ks ih =>
    intro ca h
    obtain ⟨h2, hc⟩ := storedExtension_spec h k
    obtain ⟨ihc, ihm⟩ := ih (storedExtension extOf ca k).1 hc
    simp only [newConcepts, List.filter_cons, h2]
    split
    · exact ⟨ihc, by rw [ihm]⟩
    · exact ⟨ihc, ihm⟩

theorem eraseDups_length_pos {l : List Nat} : l.eraseDups.length > 0 ↔ l ≠ [] := by
  constructor
  · intro h hl; subst hl; simp at h
  · intro h
    cases l with
    | nil => exact absurd rfl h
    | cons a as => rw [List.eraseDups_cons]; simp

theorem insertBySupport_perm (L : Lat) (x : Nat) : ∀ l : List Nat, (insertBySupport L x l).Perm (x :: l) := by
  intro l
  induction l with
  | nil => exact List.Perm.refl _
  | cons y ys ih =>
    simp only [insertBySupport]
    split
    · exact List.Perm.refl _
    · exact (List.Perm.cons y ih).trans (List.Perm.swap x y ys)

theorem sortBySupport_perm (L : Lat) : ∀ l : List Nat, (sortBySupport L l).Perm l := by
  intro l
  induction l with
  | nil => exact List.Perm.refl _
  | cons x xs ih =>
    simp only [sortBySupport]
    exact (insertBySupport_perm L x _).trans (List.Perm.cons x ih)

/-! ### the dictionaries of sets -/

theorem addAt_length (tbl : List (List Nat)) (g c : Nat) : (addAt tbl g c).length = tbl.length := by
  simp [addAt]

theorem mem_addAt {tbl : List (List Nat)} {g c h i : Nat} :
    i ∈ (addAt tbl g c).getD h [] ↔ i ∈ tbl.getD h [] ∨ (h = g ∧ g < tbl.length ∧ i = c) := by
  unfold addAt
  rw [List.getD_eq_getElem?_getD, List.getD_eq_getElem?_getD, List.getElem?_modify]
  by_cases hh : h < tbl.length
  · rw [List.getElem?_eq_getElem hh]
    simp only [Option.map_eq_map, Option.map_some, Option.getD_some]
    by_cases hg : g = h
    · subst hg
      simp only [↓reduceIte, mem_setAdd, true_and]
      constructor
      · rintro (h | h)
        · exact Or.inl h
        · exact Or.inr ⟨hh, h⟩
      · rintro (h | ⟨_, h⟩)
        · exact Or.inl h
        · exact Or.inr h
    · simp only [hg, ↓reduceIte]
      constructor
      · exact Or.inl
      · rintro (h | ⟨h1, _, _⟩)
        · exact h
        · exact absurd h1.symm hg
  · rw [List.getElem?_eq_none (by omega)]
    simp only [Option.map_eq_map, Option.map_none, Option.getD_none, List.not_mem_nil, false_or,
      false_iff, not_and]
    intro h1 h2; omega

theorem addAll_length (gs : List Nat) : ∀ (tbl : List (List Nat)) (c : Nat),
    (addAll tbl gs c).length = tbl.length := by
  induction gs with
  | nil => intro tbl c; rfl
  | cons g gs ih =>
    intro tbl c
    simp only [addAll, List.foldl_cons]
    have := ih (addAt tbl g c) c
    simp only [addAll] at this
    rw [this, addAt_length]

theorem mem_addAll (gs : List Nat) : ∀ (tbl : List (List Nat)) (c h i : Nat),
    i ∈ (addAll tbl gs c).getD h [] ↔ i ∈ tbl.getD h [] ∨ (h ∈ gs ∧ h < tbl.length ∧ i = c) := by
  induction gs with
  | nil => intro tbl c h i; simp [addAll]
  | cons g gs ih =>
    intro tbl c h i
    simp only [addAll, List.foldl_cons]
    have := ih (addAt tbl g c) c h i
    simp only [addAll] at this
    rw [this, mem_addAt, addAt_length]
    simp only [List.mem_cons]
    constructor
    · rintro ((h1 | ⟨h1, h2, h3⟩) | ⟨h1, h2, h3⟩)
      · exact Or.inl h1
      · exact Or.inr ⟨Or.inl h1, h1 ▸ h2, h3⟩
      · exact Or.inr ⟨Or.inr h1, h2, h3⟩
    · rintro (h1 | ⟨h1 | h1, h2, h3⟩)
      · exact Or.inl (Or.inl h1)
      · exact Or.inl (Or.inr ⟨h1, h1 ▸ h2, h3⟩)
      · exact Or.inr ⟨h1, h2, h3⟩

/-! ### the loop invariant -/

/-- what the theorems assume about the lattice-as-data and the traced context -/
structure Hyps (L : Lat) (extOf : Nat → List Nat) (nObj : Nat) : Prop where
  top_lt : L.top < L.size
  child_lt : ∀ i, ∀ j ∈ L.children.getD i [], j < L.size
  child_nodup : ∀ i, (L.children.getD i []).Nodup
  /-- extensions only contain object indexes of the traced context -/
  ext_lt : ∀ i, ∀ g ∈ extOf i, g < nObj
  /-- satisfaction is inherited upward along an edge -/
  up : ∀ i, ∀ j ∈ L.children.getD i [], ∀ g ∈ extOf j, g ∈ extOf i
  /-- every element is reachable from the top along edges -/
  reach : ∀ i, i < L.size → Reach (fun p => L.children.getD p []) L.top i

structure Inv (L : Lat) (extOf : Nat → List Nat) (nObj : Nat) (s : St) : Prop where
  cache : CacheInv extOf s.cache
  nodup : (s.queue ++ s.visited).Nodup
  lt : ∀ x ∈ s.queue ++ s.visited, x < L.size
  top : L.top ∈ s.queue ++ s.visited
  closed : ∀ v ∈ s.visited, ∀ j ∈ L.children.getD v [], extOf j ≠ [] → j ∈ s.queue ++ s.visited
  lenB : s.bottom.length = nObj
  lenT : s.traced.length = nObj
  traced : ∀ g, g < nObj → ∀ i, i ∈ s.traced.getD g [] ↔ i ∈ s.visited ∧ g ∈ extOf i
  bottom : ∀ g, g < nObj → ∀ i, i ∈ s.bottom.getD g [] ↔
    i ∈ s.visited ∧ g ∈ extOf i ∧ ∀ j ∈ L.children.getD i [], g ∉ extOf j

theorem inv_init (L : Lat) (extOf : Nat → List Nat) (nObj : Nat) (h : Hyps L extOf nObj) :
    Inv L extOf nObj (initSt L nObj) := by
  refine ⟨?_, ?_, ?_, ?_, ?_, ?_, ?_, ?_, ?_⟩
  · intro c e hl; simp [initSt] at hl
  · simp [initSt]
  · intro x hx; simp [initSt] at hx; subst hx; exact h.top_lt
  · simp [initSt]
  · intro v hv; simp [initSt] at hv
  · simp [initSt]
  · simp [initSt]
  · intro g hg i
    simp [initSt, List.getD_eq_getElem?_getD, hg]
  · intro g hg i
    simp [initSt, List.getD_eq_getElem?_getD, hg]

theorem step_visited (L : Lat) (extOf : Nat → List Nat) (s : St) (c : Nat) (rest : List Nat) :
    (step L extOf s c rest).visited = setAdd s.visited c := rfl

theorem inv_step {L : Lat} {extOf : Nat → List Nat} {nObj : Nat} (h : Hyps L extOf nObj)
    {s : St} {c : Nat} {rest : List Nat} (hi : Inv L extOf nObj s) (hq : s.queue = c :: rest) :
    Inv L extOf nObj (step L extOf s c rest) ∧ (step L extOf s c rest).visited = s.visited ++ [c] := by
  -- facts about the popped element
  have hnd := hi.nodup
  rw [hq] at hnd
  have hcv : c ∉ s.visited := by
    intro hc
    have := (List.nodup_append.mp hnd).2.2 c List.mem_cons_self c hc
    exact this rfl
  have hcr : c ∉ rest := by
    have := (List.nodup_append.mp hnd).1
    exact (List.nodup_cons.mp this).1
  have hvis : setAdd s.visited c = s.visited ++ [c] := setAdd_of_not_mem hcv
  -- the cache-threaded pieces
  obtain ⟨e1, c1⟩ := storedExtension_spec hi.cache c
  obtain ⟨c2, m2⟩ := unionExts_spec (L.children.getD c []) (storedExtension extOf s.cache c).1 [] c1
  obtain ⟨c3, e3⟩ := newConcepts_spec (setAdd s.visited c) rest (L.children.getD c [])
    (unionExts extOf (L.children.getD c []) (storedExtension extOf s.cache c).1 []).1 c2
  have hnew : ∀ x, x ∈ (newConcepts extOf (setAdd s.visited c) rest (L.children.getD c [])
      (unionExts extOf (L.children.getD c []) (storedExtension extOf s.cache c).1 []).1).2 ↔
      x ∈ L.children.getD c [] ∧ extOf x ≠ [] ∧ x ∉ s.visited ∧ x ≠ c ∧ x ∉ rest := by
    intro x
    rw [e3, hvis]
    simp only [List.mem_filter, Bool.and_eq_true, decide_eq_true_eq, Bool.not_eq_true',
      List.contains_eq_mem, decide_eq_false_iff_not, List.mem_append, List.mem_singleton, not_or,
      eraseDups_length_pos]
    constructor
    · rintro ⟨a, ⟨b, c', d⟩, e⟩; exact ⟨a, b, c', d, e⟩
    · rintro ⟨a, b, c', d, e⟩; exact ⟨a, ⟨b, c', d⟩, e⟩
  have hnewnd : (newConcepts extOf (setAdd s.visited c) rest (L.children.getD c [])
      (unionExts extOf (L.children.getD c []) (storedExtension extOf s.cache c).1 []).1).2.Nodup := by
    rw [e3]; exact List.Nodup.sublist List.filter_sublist (h.child_nodup c)
  have hsortmem : ∀ x, x ∈ sortBySupport L (newConcepts extOf (setAdd s.visited c) rest (L.children.getD c [])
      (unionExts extOf (L.children.getD c []) (storedExtension extOf s.cache c).1 []).1).2 ↔
      x ∈ L.children.getD c [] ∧ extOf x ≠ [] ∧ x ∉ s.visited ∧ x ≠ c ∧ x ∉ rest := by
    intro x; rw [(sortBySupport_perm L _).mem_iff]; exact hnew x
  have hsortnd : (sortBySupport L (newConcepts extOf (setAdd s.visited c) rest (L.children.getD c [])
      (unionExts extOf (L.children.getD c []) (storedExtension extOf s.cache c).1 []).1).2).Nodup := by
    exact (sortBySupport_perm L _).nodup_iff.mpr hnewnd
  have hclt : c < L.size := hi.lt c (by rw [hq]; simp)
  have hqueue : (step L extOf s c rest).queue = rest ++ sortBySupport L
      (newConcepts extOf (setAdd s.visited c) rest (L.children.getD c [])
      (unionExts extOf (L.children.getD c []) (storedExtension extOf s.cache c).1 []).1).2 := rfl
  generalize sortBySupport L (newConcepts extOf (setAdd s.visited c) rest (L.children.getD c [])
      (unionExts extOf (L.children.getD c []) (storedExtension extOf s.cache c).1 []).1).2 = Q
      at hsortmem hsortnd hqueue
  refine ⟨⟨?_, ?_, ?_, ?_, ?_, ?_, ?_, ?_, ?_⟩, ?_⟩
  · exact c3
  · -- nodup of the new queue ++ visited
    rw [hqueue, step_visited, hvis]
    have hnd' := List.nodup_append.mp hnd
    have hrest_nd : rest.Nodup := (List.nodup_cons.mp hnd'.1).2
    rw [List.nodup_append]
    refine ⟨?_, ?_, ?_⟩
    · rw [List.nodup_append]
      refine ⟨hrest_nd, hsortnd, ?_⟩
      intro a ha b hb hab
      subst hab
      exact ((hsortmem a).mp hb).2.2.2.2 ha
    · rw [List.nodup_append]
      refine ⟨hnd'.2.1, by simp, ?_⟩
      intro a ha b hb hab
      simp only [List.mem_singleton] at hb
      subst hab; subst hb; exact hcv ha
    · intro a ha b hb hab
      subst hab
      rcases List.mem_append.mp ha with ha | ha
      · rcases List.mem_append.mp hb with hb | hb
        · exact hnd'.2.2 a (List.mem_cons_of_mem _ ha) a hb rfl
        · simp only [List.mem_singleton] at hb; subst hb; exact hcr ha
      · have := (hsortmem a).mp ha
        rcases List.mem_append.mp hb with hb | hb
        · exact this.2.2.1 hb
        · simp only [List.mem_singleton] at hb; exact this.2.2.2.1 hb
  · -- everything is an index of the lattice
    intro x hx
    rw [hqueue, step_visited, hvis] at hx
    simp only [List.mem_append, List.mem_singleton] at hx
    rcases hx with (hx | hx) | (hx | hx)
    · exact hi.lt x (by rw [hq]; simp [hx])
    · exact h.child_lt c x ((hsortmem x).mp hx).1
    · exact hi.lt x (by simp [hx])
    · subst hx; exact hclt
  · -- the top stays
    rw [hqueue, step_visited, hvis]
    have := hi.top
    rw [hq] at this
    simp only [List.mem_append, List.mem_cons] at this
    simp only [List.mem_append, List.mem_singleton]
    rcases this with (h1 | h1) | h1
    · exact Or.inr (Or.inr h1)
    · exact Or.inl (Or.inl h1)
    · exact Or.inr (Or.inl h1)
  · -- closure under non-empty children
    intro v hv j hj hne
    rw [step_visited, hvis] at hv
    rw [hqueue, step_visited, hvis]
    simp only [List.mem_append, List.mem_singleton] at hv ⊢
    rcases hv with hv | hv
    · have := hi.closed v hv j hj hne
      rw [hq] at this
      simp only [List.mem_append, List.mem_cons] at this
      rcases this with (h1 | h1) | h1
      · exact Or.inr (Or.inr h1)
      · exact Or.inl (Or.inl h1)
      · exact Or.inr (Or.inl h1)
    · subst hv
      by_cases h1 : j ∈ s.visited
      · exact Or.inr (Or.inl h1)
      by_cases h2 : j = v
      · exact Or.inr (Or.inr h2)
      by_cases h3 : j ∈ rest
      · exact Or.inl (Or.inl h3)
      · exact Or.inl (Or.inr ((hsortmem j).mpr ⟨hj, hne, h1, h2, h3⟩))
  · show (addAll s.bottom _ c).length = nObj
    rw [addAll_length]; exact hi.lenB
  · show (addAll s.traced _ c).length = nObj
    rw [addAll_length]; exact hi.lenT
  · -- traced
    intro g hg i
    show i ∈ (addAll s.traced (storedExtension extOf s.cache c).2 c).getD g [] ↔ _
    rw [mem_addAll, hi.traced g hg i, step_visited, hvis, e1, List.mem_eraseDups, hi.lenT]
    simp only [List.mem_append, List.mem_singleton]
    constructor
    · rintro (⟨h1, h2⟩ | ⟨h1, _, h3⟩)
      · exact ⟨Or.inl h1, h2⟩
      · subst h3; exact ⟨Or.inr rfl, h1⟩
    · rintro ⟨h1 | h1, h2⟩
      · exact Or.inl ⟨h1, h2⟩
      · subst h1; exact Or.inr ⟨h2, hg, rfl⟩
  · -- bottom
    intro g hg i
    show i ∈ (addAll s.bottom ((storedExtension extOf s.cache c).2.filter fun g =>
      !(unionExts extOf (L.children.getD c []) (storedExtension extOf s.cache c).1 []).2.contains g) c).getD g [] ↔ _
    rw [mem_addAll, hi.bottom g hg i, step_visited, hvis, e1, hi.lenB]
    simp only [List.mem_filter, List.mem_eraseDups, Bool.not_eq_true', List.contains_eq_mem,
      decide_eq_false_iff_not, m2 g, List.not_mem_nil, false_or, not_exists, not_and,
      List.mem_append, List.mem_singleton]
    constructor
    · rintro (⟨h1, h2, h3⟩ | ⟨⟨h1, h2⟩, _, h3⟩)
      · exact ⟨Or.inl h1, h2, h3⟩
      · subst h3; exact ⟨Or.inr rfl, h1, h2⟩
    · rintro ⟨h1 | h1, h2, h3⟩
      · exact Or.inl ⟨h1, h2, h3⟩
      · subst h1; exact Or.inr ⟨⟨h2, h3⟩, hg, rfl⟩
  · rw [step_visited, hvis]

/-- pigeonhole: once `len(self)` concepts have been visited the queue is empty -/
theorem queue_empty_of_full {L : Lat} {extOf : Nat → List Nat} {nObj : Nat} {s : St}
    (hi : Inv L extOf nObj s) (hfull : s.visited.length = L.size) : s.queue = [] := by
  cases hq : s.queue with
  | nil => rfl
  | cons q qs =>
    exfalso
    have hnd := hi.nodup
    rw [hq] at hnd
    have hnd2 : (q :: s.visited).Nodup := by
      rw [List.nodup_cons]
      have h' := List.nodup_append.mp hnd
      exact ⟨fun hm => h'.2.2 q List.mem_cons_self q hm rfl, h'.2.1⟩
    have hsub : (q :: s.visited) ⊆ List.range L.size := by
      intro x hx
      rw [List.mem_range]
      apply hi.lt x
      rw [hq]
      rcases List.mem_cons.mp hx with rfl | hx
      · simp
      · simp [hx]
    have := List.Nodup.length_le_of_subset hnd2 hsub
    simp only [List.length_cons, List.length_range] at this
    omega

theorem loop_spec {L : Lat} {extOf : Nat → List Nat} {nObj : Nat} (h : Hyps L extOf nObj) :
    ∀ (fuel : Nat) (s : St), Inv L extOf nObj s → s.visited.length + fuel = L.size →
      Inv L extOf nObj (loop L extOf fuel s) ∧ (loop L extOf fuel s).queue = [] := by
  intro fuel
  induction fuel with
  | zero =>
    intro s hi hf
    unfold loop
    exact ⟨hi, queue_empty_of_full hi (by omega)⟩
  | succ k ih =>
    intro s hi hf
    unfold loop
    split
    · rename_i hq; exact ⟨hi, hq⟩
    · rename_i c rest hq
      obtain ⟨hi', hv'⟩ := inv_step h hi hq
      apply ih _ hi'
      rw [hv']; simp only [List.length_append, List.length_cons, List.length_nil]; omega

/-- the generic result: after the loop, every object's traced set is the set of concepts whose extension
    in the traced context contains it, and its bottom set the traced concepts none of whose children does. -/
theorem traceCore_spec {L : Lat} {extOf : Nat → List Nat} {nObj : Nat} (h : Hyps L extOf nObj) :
    (traceCore L extOf nObj).traced.length = nObj ∧ (traceCore L extOf nObj).bottom.length = nObj ∧
    ∀ g, g < nObj → ∀ i,
      (i ∈ (traceCore L extOf nObj).traced.getD g [] ↔ i < L.size ∧ g ∈ extOf i) ∧
      (i ∈ (traceCore L extOf nObj).bottom.getD g [] ↔
        i < L.size ∧ g ∈ extOf i ∧ ∀ j ∈ L.children.getD i [], g ∉ extOf j) := by
  obtain ⟨hi, hq⟩ := loop_spec h L.size (initSt L nObj) (inv_init L extOf nObj h) (by simp [initSt])
  change Inv L extOf nObj (traceCore L extOf nObj) at hi
  change (traceCore L extOf nObj).queue = [] at hq
  have hvis : ∀ g i, i < L.size → g ∈ extOf i → i ∈ (traceCore L extOf nObj).visited := by
    intro g i hlt hg
    have hr := h.reach i hlt
    induction hr with
    | refl =>
      have := hi.top
      rw [hq] at this
      simpa using this
    | step hab hc ih =>
      rename_i b c
      have hb : b < L.size := by
        apply Classical.byContradiction
        intro hb
        have : L.children.getD b [] = [] := by
          rw [List.getD_eq_getElem?_getD, List.getElem?_eq_none (by unfold Lat.size at hb; omega)]; rfl
        simp only [this] at hc
        cases hc
      have hgb := h.up b c hc g hg
      have hbv := ih hb hgb
      have := hi.closed b hbv c hc (by intro he; rw [he] at hg; cases hg)
      rw [hq] at this
      simpa using this
  refine ⟨hi.lenT, hi.lenB, ?_⟩
  intro g hg i
  constructor
  · rw [hi.traced g hg i]
    constructor
    · rintro ⟨h1, h2⟩
      exact ⟨hi.lt i (by simp [h1]), h2⟩
    · rintro ⟨h1, h2⟩
      exact ⟨hvis g i h1 h2, h2⟩
  · rw [hi.bottom g hg i]
    constructor
    · rintro ⟨h1, h2, h3⟩
      exact ⟨hi.lt i (by simp [h1]), h2, h3⟩
    · rintro ⟨h1, h2, h3⟩
      exact ⟨hvis g i h1 h2, h2, h3⟩


/-! ## Part B — a list of extents under inclusion, with its true cover relation -/

open Fca.Spec

theorem subset_iff {a b : List Nat} : Spec.subset a b = true ↔ ∀ x ∈ a, x ∈ b := by
  simp [Spec.subset, List.all_eq_true]

theorem ssubset_iff {a b : List Nat} :
    Spec.ssubset a b = true ↔ (∀ x ∈ a, x ∈ b) ∧ ¬ (∀ x ∈ b, x ∈ a) := by
  simp [Spec.ssubset, List.all_eq_true]

theorem ssubset_length {a b : List Nat} (ha : a.Nodup) (h : Spec.ssubset a b = true) :
    a.length < b.length := by
  obtain ⟨h1, h2⟩ := ssubset_iff.mp h
  have hex : ∃ x, x ∈ b ∧ x ∉ a := by
    apply Classical.byContradiction
    intro hne
    apply h2
    intro x hx
    apply Classical.byContradiction
    intro hxa
    exact hne ⟨x, hx, hxa⟩
  obtain ⟨x, hxb, hxa⟩ := hex
  have hnd : (x :: a).Nodup := List.nodup_cons.mpr ⟨hxa, ha⟩
  have hsub : (x :: a) ⊆ b := by
    intro y hy
    rcases List.mem_cons.mp hy with rfl | hy
    · exact hxb
    · exact h1 y hy
  have := List.Nodup.length_le_of_subset hnd hsub
  simp only [List.length_cons] at this
  omega

theorem mem_lowerCovers {exts : List (List Nat)} {i j : Nat} :
    j ∈ Spec.lowerCovers exts i ↔
      j < exts.length ∧ Spec.ssubset (exts.getD j []) (exts.getD i []) = true ∧
      ∀ k, k < exts.length → ¬ (Spec.ssubset (exts.getD j []) (exts.getD k []) = true ∧
        Spec.ssubset (exts.getD k []) (exts.getD i []) = true) := by
  unfold Spec.lowerCovers
  simp only [List.mem_filter, List.mem_range, Bool.and_eq_true, Bool.not_eq_true',
    List.any_eq_false, not_and, Bool.not_eq_true]

theorem lowerCovers_nodup (exts : List (List Nat)) (i : Nat) : (Spec.lowerCovers exts i).Nodup := by
  unfold Spec.lowerCovers
  exact List.Nodup.sublist List.filter_sublist List.nodup_range

theorem exists_min_of_ne_nil (f : Nat → Nat) : ∀ (l : List Nat), l ≠ [] →
    ∃ x, x ∈ l ∧ ∀ y ∈ l, f x ≤ f y := by
  intro l
  induction l with
  | nil => intro h; exact absurd rfl h
  | cons a as ih =>
    intro _
    by_cases has : as = []
    · subst has
      exact ⟨a, List.mem_cons_self, by intro y hy; simp at hy; subst hy; exact Nat.le_refl _⟩
    · obtain ⟨x, hx, hmin⟩ := ih has
      by_cases hax : f a ≤ f x
      · refine ⟨a, List.mem_cons_self, ?_⟩
        intro y hy
        rcases List.mem_cons.mp hy with rfl | hy
        · exact Nat.le_refl _
        · exact Nat.le_trans hax (hmin y hy)
      · refine ⟨x, List.mem_cons_of_mem _ hx, ?_⟩
        intro y hy
        rcases List.mem_cons.mp hy with rfl | hy
        · omega
        · exact hmin y hy

theorem exists_max_of_ne_nil (f : Nat → Nat) : ∀ (l : List Nat), l ≠ [] →
    ∃ x, x ∈ l ∧ ∀ y ∈ l, f y ≤ f x := by
  intro l
  induction l with
  | nil => intro h; exact absurd rfl h
  | cons a as ih =>
    intro _
    by_cases has : as = []
    · subst has
      exact ⟨a, List.mem_cons_self, by intro y hy; simp at hy; subst hy; exact Nat.le_refl _⟩
    · obtain ⟨x, hx, hmax⟩ := ih has
      by_cases hax : f x ≤ f a
      · refine ⟨a, List.mem_cons_self, ?_⟩
        intro y hy
        rcases List.mem_cons.mp hy with rfl | hy
        · exact Nat.le_refl _
        · exact Nat.le_trans (hmax y hy) hax
      · refine ⟨x, List.mem_cons_of_mem _ hx, ?_⟩
        intro y hy
        rcases List.mem_cons.mp hy with rfl | hy
        · omega
        · exact hmax y hy

theorem ssubset_trans {a b c : List Nat} (h1 : Spec.ssubset a b = true) (h2 : Spec.ssubset b c = true) :
    Spec.ssubset a c = true := by
  rw [ssubset_iff] at *
  refine ⟨fun x hx => h2.1 x (h1.1 x hx), ?_⟩
  intro h
  exact h1.2 (fun x hx => h x (h2.1 x hx))

theorem ssubset_of_subset_of_ssubset {a b c : List Nat} (h1 : ∀ x ∈ a, x ∈ b)
    (h2 : Spec.ssubset b c = true) : Spec.ssubset a c = true := by
  rw [ssubset_iff] at *
  refine ⟨fun x hx => h2.1 x (h1 x hx), ?_⟩
  intro h
  exact h2.2 (fun x hx => h1 x (h x hx))

section order
variable {exts : List (List Nat)} (hnd : ∀ i, i < exts.length → (exts.getD i []).Nodup)
include hnd

/-- every element strictly below some element has an upper cover in the list -/
theorem exists_parent {i k : Nat} (hk : k < exts.length)
    (hik : Spec.ssubset (exts.getD i []) (exts.getD k []) = true) (hi : i < exts.length) :
    ∃ p, p < exts.length ∧ i ∈ Spec.lowerCovers exts p := by
  let U := (List.range exts.length).filter fun k => Spec.ssubset (exts.getD i []) (exts.getD k [])
  have hkU : k ∈ U := List.mem_filter.mpr ⟨List.mem_range.mpr hk, hik⟩
  obtain ⟨p, hpU, hmin⟩ := exists_min_of_ne_nil (fun k => (exts.getD k []).length) U
    (by intro h; rw [h] at hkU; cases hkU)
  obtain ⟨hp1, hp2⟩ := List.mem_filter.mp hpU
  have hp : p < exts.length := List.mem_range.mp hp1
  refine ⟨p, hp, mem_lowerCovers.mpr ⟨hi, hp2, ?_⟩⟩
  rintro m hm ⟨him, hmp⟩
  have hmU : m ∈ U := List.mem_filter.mpr ⟨List.mem_range.mpr hm, him⟩
  have h1 := hmin m hmU
  have h2 := ssubset_length (hnd m hm) hmp
  omega

/-- below `i`, above any `d < i`, there is a lower cover of `i` -/
theorem exists_cover_above {d i : Nat} (hd : d < exts.length)
    (hdi : Spec.ssubset (exts.getD d []) (exts.getD i []) = true) :
    ∃ j, j ∈ Spec.lowerCovers exts i ∧ ∀ x ∈ exts.getD d [], x ∈ exts.getD j [] := by
  let U := (List.range exts.length).filter fun k =>
    Spec.subset (exts.getD d []) (exts.getD k []) && Spec.ssubset (exts.getD k []) (exts.getD i [])
  have hdU : d ∈ U := List.mem_filter.mpr ⟨List.mem_range.mpr hd, by
    simp only [Bool.and_eq_true]; exact ⟨subset_iff.mpr (fun x hx => hx), hdi⟩⟩
  obtain ⟨j, hjU, hmax⟩ := exists_max_of_ne_nil (fun k => (exts.getD k []).length) U
    (by intro h; rw [h] at hdU; cases hdU)
  obtain ⟨hj1, hj2⟩ := List.mem_filter.mp hjU
  simp only [Bool.and_eq_true] at hj2
  have hj : j < exts.length := List.mem_range.mp hj1
  refine ⟨j, mem_lowerCovers.mpr ⟨hj, hj2.2, ?_⟩, subset_iff.mp hj2.1⟩
  rintro m hm ⟨hjm, hmi⟩
  have hmU : m ∈ U := List.mem_filter.mpr ⟨List.mem_range.mpr hm, by
    simp only [Bool.and_eq_true]
    exact ⟨subset_iff.mpr (fun x hx => (ssubset_iff.mp hjm).1 x (subset_iff.mp hj2.1 x hx)), hmi⟩⟩
  have h1 := hmax m hmU
  have h2 := ssubset_length (hnd j hj) hjm
  omega

/-- every element is reachable from the greatest element by a descending chain of covers -/
theorem reach_top {top : Nat} (htop : top < exts.length)
    (hgt : ∀ i, i < exts.length → i ≠ top → Spec.ssubset (exts.getD i []) (exts.getD top []) = true) :
    ∀ i, i < exts.length → Reach (fun p => Spec.lowerCovers exts p) top i := by
  have main : ∀ m i, i < exts.length → (exts.getD top []).length - (exts.getD i []).length = m →
      Reach (fun p => Spec.lowerCovers exts p) top i := by
    intro m
    induction m using Nat.strongRecOn with
    | _ m ih =>
      intro i hi hm
      by_cases hit : i = top
      · subst hit; exact Reach.refl
      · obtain ⟨p, hp, hip⟩ := exists_parent hnd htop (hgt i hi hit) hi
        have hlt := (mem_lowerCovers.mp hip).2.1
        have h1 := ssubset_length (hnd i hi) hlt
        have h2 : (exts.getD p []).length ≤ (exts.getD top []).length := by
          by_cases hpt : p = top
          · subst hpt; exact Nat.le_refl _
          · exact Nat.le_of_lt (ssubset_length (hnd p hp) (hgt p hp hpt))
        have hr := ih ((exts.getD top []).length - (exts.getD p []).length) (by omega) p hp rfl
        exact Reach.step hr hip
  intro i hi
  exact main _ i hi rfl

end order

theorem Reach.mono {ch ch' : Nat → List Nat} (h : ∀ b c, c ∈ ch b → c ∈ ch' b) {a x : Nat}
    (hr : Reach ch a x) : Reach ch' a x := by
  induction hr with
  | refl => exact Reach.refl
  | step _ hc ih => exact Reach.step ih (h _ _ hc)

/-! ### a list of genuine concepts of a training table -/

section concepts
variable {t : Table} {cs : List (List Nat × List Nat)}
  (hC : ∀ c ∈ cs, Spec.isConcept t c.1 c.2 = true)
include hC

theorem concept_at {i : Nat} (hi : i < cs.length) :
    Spec.isConcept t ((cs.map Prod.fst).getD i []) ((cs.map Prod.snd).getD i []) = true := by
  rw [List.getD_eq_getElem?_getD, List.getD_eq_getElem?_getD, List.getElem?_map, List.getElem?_map,
    List.getElem?_eq_getElem hi]
  exact hC _ (List.getElem_mem hi)

theorem extent_nodup {i : Nat} (hi : i < cs.length) : ((cs.map Prod.fst).getD i []).Nodup := by
  have := (isConcept_iff t).mp (concept_at hC hi)
  rw [← this.1]; exact extAll_nodup t _

theorem intent_lt {i : Nat} (hi : i < cs.length) : ∀ a ∈ (cs.map Prod.snd).getD i [], a < t.width := by
  have := (isConcept_iff t).mp (concept_at hC hi)
  rw [← this.2]; exact intAll_lt t

/-- the key lemma: a larger extent has a smaller intent -/
theorem intent_anti {i j : Nat} (hi : i < cs.length) (hj : j < cs.length)
    (h : ∀ x ∈ (cs.map Prod.fst).getD j [], x ∈ (cs.map Prod.fst).getD i []) :
    ∀ a ∈ (cs.map Prod.snd).getD i [], a ∈ (cs.map Prod.snd).getD j [] :=
  (concept_order t (concept_at hC hj) (concept_at hC hi)).mp h

end concepts

/-- `FormalContext.extension_i(B)` (no base) on a well-formed table, for in-range `B` -/
theorem mem_extensionI (K : Ctx) (hwf : K.table.WF) (B : List Nat) (hB : ∀ a ∈ B, a < K.nAttributes)
    (g : Nat) : g ∈ K.extensionI B none ↔ g < K.nObjects ∧ ∀ a ∈ B, K.table.get g a = true := by
  unfold Ctx.extensionI
  split
  · rename_i h0
    have : B = [] := List.eq_nil_of_length_eq_zero h0
    subst this
    simp [Ctx.nObjects]
  · rw [allI_axis1 K.table hwf K.backend none (some B) (by intro rs h; cases h)
      (by intro cs h; cases h; exact hB)]
    simp [List.mem_filter, Ctx.nObjects, List.all_eq_true]


/-! ### the returned dictionaries -/

theorem idxKeys_get : ∀ (tbl : List (List Nat)) (k g : Nat),
    (idxKeys tbl k)[g]? = tbl[g]?.map (fun s => (Key.idx (k + g), s)) := by
  intro tbl
  induction tbl with
  | nil => intro k g; simp [idxKeys]
  | cons s ss ih =>
    intro k g
    cases g with
    | zero => simp [idxKeys]
    | succ g =>
      simp only [idxKeys, List.getElem?_cons_succ, ih (k + 1) g]
      have : k + 1 + g = k + (g + 1) := by omega
      rw [this]

theorem nameKeys_ok (names : List String) : ∀ (tbl : List (List Nat)) (k : Nat),
    k + tbl.length ≤ names.length →
    ∃ r, nameKeys names tbl k = .ok r ∧
      ∀ g, r[g]? = tbl[g]?.map (fun s => (Key.name (names.getD (k + g) ""), s)) := by
  intro tbl
  induction tbl with
  | nil => intro k _; exact ⟨[], rfl, by intro g; simp⟩
  | cons s ss ih =>
    intro k hk
    simp only [List.length_cons] at hk
    obtain ⟨r, hr, hget⟩ := ih (k + 1) (by omega)
    have hk' : k < names.length := by omega
    refine ⟨(Key.name names[k], s) :: r, ?_, ?_⟩
    · simp only [nameKeys, List.getElem?_eq_getElem hk', hr]
    · intro g
      cases g with
      | zero =>
        simp [List.getD_eq_getElem?_getD, List.getElem?_eq_getElem hk']
      | succ g =>
        simp only [List.getElem?_cons_succ, hget g]
        have : k + 1 + g = k + (g + 1) := by omega
        rw [this]

theorem keys_of_get {α : Type} (d : List (Key × α)) (tbl : List α) (key : Nat → Key)
    (h : ∀ g, d[g]? = tbl[g]?.map (fun s => (key g, s))) :
    d.map Prod.fst = (List.range tbl.length).map key := by
  apply List.ext_getElem?
  intro g
  rw [List.getElem?_map, h g, List.getElem?_map]
  by_cases hg : g < tbl.length
  · rw [List.getElem?_eq_getElem hg, List.getElem?_range hg]; rfl
  · rw [List.getElem?_eq_none (by omega), List.getElem?_eq_none (by simp; omega)]; rfl

/-- the result of `trace_context` on a non-monotone lattice: both dictionaries have one entry per object,
    in object order, keyed by index or name as requested, holding the sets built by the loop -/
theorem traceContext_ok (L : Lat) (extOf : Nat → List Nat) (nObj : Nat) (names : List String)
    (useIdx : Bool) (hmono : L.isMonotone = false) (hn : names.length = nObj)
    (hlb : (traceCore L extOf nObj).bottom.length = nObj)
    (hlt : (traceCore L extOf nObj).traced.length = nObj) :
    ∃ b t, traceContext L extOf nObj names useIdx = .ok (b, t) ∧
      b.map Prod.fst = (List.range nObj).map (Spec.keyOf useIdx names) ∧
      t.map Prod.fst = (List.range nObj).map (Spec.keyOf useIdx names) ∧
      ∀ g, g < nObj →
        b[g]? = some (Spec.keyOf useIdx names g, (traceCore L extOf nObj).bottom.getD g []) ∧
        t[g]? = some (Spec.keyOf useIdx names g, (traceCore L extOf nObj).traced.getD g []) := by
  unfold traceContext
  rw [hmono]
  simp only [Bool.false_eq_true, ↓reduceIte]
  generalize traceCore L extOf nObj = s at hlb hlt ⊢
  cases useIdx with
  | true =>
    simp only [↓reduceIte]
    refine ⟨_, _, rfl, ?_, ?_, ?_⟩
    · rw [← hlb]
      apply keys_of_get
      intro g; rw [idxKeys_get]; simp [Spec.keyOf]
    · rw [← hlt]
      apply keys_of_get
      intro g; rw [idxKeys_get]; simp [Spec.keyOf]
    · intro g hg
      rw [idxKeys_get, idxKeys_get, List.getElem?_eq_getElem (by omega), List.getElem?_eq_getElem (by omega)]
      simp [Spec.keyOf, List.getD_eq_getElem?_getD, hlb, hlt, hg]
  | false =>
    simp only [Bool.false_eq_true, ↓reduceIte]
    obtain ⟨b, hb, hbg⟩ := nameKeys_ok names s.bottom 0 (by omega)
    obtain ⟨t, ht, htg⟩ := nameKeys_ok names s.traced 0 (by omega)
    rw [hb, ht]
    refine ⟨b, t, rfl, ?_, ?_, ?_⟩
    · rw [← hlb]
      apply keys_of_get
      intro g; rw [hbg]; simp [Spec.keyOf]
    · rw [← hlt]
      apply keys_of_get
      intro g; rw [htg]; simp [Spec.keyOf]
    · intro g hg
      rw [hbg, htg, List.getElem?_eq_getElem (by omega), List.getElem?_eq_getElem (by omega)]
      simp [Spec.keyOf, List.getD_eq_getElem?_getD, hlb, hlt, hg]

/-! ### the specification functions -/

theorem satisfies_iff {t₂ : Table} {B : List Nat} {g : Nat} :
    Spec.satisfies t₂ B g = true ↔ ∀ a ∈ B, t₂.get g a = true := by
  simp [Spec.satisfies, List.all_eq_true]

theorem mem_describing {t₂ : Table} {intents : List (List Nat)} {g i : Nat} :
    i ∈ Spec.describing t₂ intents g ↔ i < intents.length ∧ ∀ a ∈ intents.getD i [], t₂.get g a = true := by
  simp [Spec.describing, List.mem_filter, satisfies_iff]

theorem mem_minimalOf {exts : List (List Nat)} {S : List Nat} {i : Nat} :
    i ∈ Spec.minimalOf exts S ↔
      i ∈ S ∧ ∀ d ∈ S, ¬ Spec.ssubset (exts.getD d []) (exts.getD i []) = true := by
  simp [Spec.minimalOf, List.mem_filter]

/-! ### from the order data to the hypotheses of the worklist theorem -/

section orderdata
variable {exts : List (List Nat)} {L : Lat} (hO : Spec.IsOrderData exts L)
include hO

theorem children_oob {b : Nat} (hb : ¬ b < exts.length) : L.children.getD b [] = [] := by
  rw [List.getD_eq_getElem?_getD, List.getElem?_eq_none (by rw [hO.size]; omega)]; rfl

theorem mem_children_iff (b c : Nat) :
    c ∈ L.children.getD b [] ↔ c ∈ Spec.lowerCovers exts b := by
  by_cases hb : b < exts.length
  · exact (hO.covers b hb).mem_iff
  · rw [children_oob hO hb]
    constructor
    · intro h; cases h
    · intro h
      have h2 := (mem_lowerCovers.mp h).2.1
      have : exts.getD b [] = [] := by
        rw [List.getD_eq_getElem?_getD, List.getElem?_eq_none (by omega)]; rfl
      rw [this, ssubset_iff] at h2
      exact absurd (fun x hx => by cases hx) h2.2

theorem parent_lt {i j : Nat} (hj : j ∈ L.children.getD i []) : i < exts.length := by
  apply Classical.byContradiction
  intro hi
  rw [children_oob hO hi] at hj; cases hj

/-- the hypotheses of the worklist theorem hold for every traced context in which satisfaction is
    inherited upward -/
theorem hyps_of_upward {extOf : Nat → List Nat} {nObj : Nat}
    (hext : ∀ i, ∀ g ∈ extOf i, g < nObj) (hup : Spec.Upward exts extOf) : Hyps L extOf nObj := by
  refine ⟨?_, ?_, ?_, hext, ?_, ?_⟩
  · unfold Lat.size; rw [hO.size]; exact hO.top_lt
  · intro i j hj
    have := (mem_lowerCovers.mp ((mem_children_iff hO i j).mp hj)).1
    unfold Lat.size; rw [hO.size]; omega
  · intro i
    by_cases hi : i < exts.length
    · exact (hO.covers i hi).nodup_iff.mpr (lowerCovers_nodup _ _)
    · rw [children_oob hO hi]; exact List.nodup_nil
  · intro i j hj g hg
    have hcov := mem_lowerCovers.mp ((mem_children_iff hO i j).mp hj)
    exact hup i j (parent_lt hO hj) hcov.1 (ssubset_iff.mp hcov.2.1).1 g hg
  · intro i hi
    unfold Lat.size at hi; rw [hO.size] at hi
    have := reach_top hO.nodup hO.top_lt hO.top_greatest i hi
    exact Reach.mono (fun b c hc => (mem_children_iff hO b c).mpr hc) this

/-- "no child describes `g`" is "minimal among the describing concepts" -/
theorem no_child_iff_minimal {extOf : Nat → List Nat} (hup : Spec.Upward exts extOf) {i g : Nat} :
    (∀ j ∈ L.children.getD i [], g ∉ extOf j) ↔
      ∀ d, d < exts.length → g ∈ extOf d → ¬ Spec.ssubset (exts.getD d []) (exts.getD i []) = true := by
  constructor
  · intro h d hd hgd hlt
    obtain ⟨j, hj, hdj⟩ := exists_cover_above hO.nodup hd hlt
    have hjlt := (mem_lowerCovers.mp hj).1
    exact h j ((mem_children_iff hO i j).mpr hj) (hup j d hjlt hd hdj g hgd)
  · intro h j hj hgj
    have hcov := mem_lowerCovers.mp ((mem_children_iff hO i j).mp hj)
    exact h j hcov.1 hgj hcov.2.1

/-- the generic statement: for order data with true covers and a traced context with upward-inherited
    satisfaction, `trace_context` returns, per object and under the requested key, exactly the concepts
    whose extension in the traced context contains the object, and exactly the minimal ones among them -/
theorem traceContext_spec {extOf : Nat → List Nat} {nObj : Nat} (names : List String) (useIdx : Bool)
    (hmono : L.isMonotone = false) (hn : names.length = nObj)
    (hext : ∀ i, ∀ g ∈ extOf i, g < nObj) (hup : Spec.Upward exts extOf) :
    ∃ b t, traceContext L extOf nObj names useIdx = .ok (b, t) ∧
      b.map Prod.fst = (List.range nObj).map (Spec.keyOf useIdx names) ∧
      t.map Prod.fst = (List.range nObj).map (Spec.keyOf useIdx names) ∧
      ∀ g, g < nObj → ∃ S T,
        b[g]? = some (Spec.keyOf useIdx names g, S) ∧ t[g]? = some (Spec.keyOf useIdx names g, T) ∧
        (∀ i, i ∈ T ↔ i < exts.length ∧ g ∈ extOf i) ∧
        (∀ i, i ∈ S ↔ (i < exts.length ∧ g ∈ extOf i) ∧
          ∀ d, d < exts.length → g ∈ extOf d → ¬ Spec.ssubset (exts.getD d []) (exts.getD i []) = true) := by
  have hH := hyps_of_upward hO hext hup
  obtain ⟨hlt, hlb, hmem⟩ := traceCore_spec hH
  obtain ⟨b, t, hok, hkb, hkt, hget⟩ := traceContext_ok L extOf nObj names useIdx hmono hn hlb hlt
  refine ⟨b, t, hok, hkb, hkt, ?_⟩
  intro g hg
  refine ⟨_, _, (hget g hg).1, (hget g hg).2, ?_, ?_⟩
  · intro i
    rw [(hmem g hg i).1]; unfold Lat.size; rw [hO.size]
  · intro i
    rw [(hmem g hg i).2]; unfold Lat.size; rw [hO.size]
    constructor
    · rintro ⟨h1, h2, h3⟩
      exact ⟨⟨h1, h2⟩, (no_child_iff_minimal hO hup).mp h3⟩
    · rintro ⟨⟨h1, h2⟩, h3⟩
      exact ⟨h1, h2, (no_child_iff_minimal hO hup).mpr h3⟩

end orderdata

/-! ### a list of genuine concepts gives order data and upward inheritance -/

section formal
variable {tTrain : Table} {cs : List (List Nat × List Nat)} {L : Lat}
  (hL : Spec.IsTraceLatticeOf tTrain cs L)
include hL

theorem IsTraceLatticeOf.orderData : Spec.IsOrderData (cs.map Prod.fst) L := by
  have hlen : (cs.map Prod.fst).length = cs.length := by simp
  refine ⟨?_, ?_, ?_, ?_, ?_⟩
  · intro i hi; rw [hlen] at hi; exact extent_nodup hL.concepts hi
  · rw [hlen]; exact hL.size
  · intro i hi; rw [hlen] at hi; exact hL.covers i hi
  · rw [hlen]; exact hL.top_lt
  · intro i hi; rw [hlen] at hi; exact hL.top_greatest i hi

theorem intents_in_range (K : Ctx) (hw : K.table.width = tTrain.width) :
    ∀ c, ∀ a ∈ (cs.map Prod.snd).getD c [], a < K.nAttributes := by
  intro c a ha
  by_cases hc : c < cs.length
  · have := intent_lt hL.concepts hc a ha
    unfold Ctx.nAttributes; omega
  · rw [List.getD_eq_getElem?_getD, List.getElem?_eq_none (by simp; omega)] at ha
    cases ha

/-- the key lemma at the level of a traced `FormalContext` over the same attributes -/
theorem upward_formal (K : Ctx) (hwf : K.table.WF) (hw : K.table.width = tTrain.width) :
    Spec.Upward (cs.map Prod.fst) (fun c => K.extensionI ((cs.map Prod.snd).getD c []) none) := by
  intro i j hi hj hsub g hg
  simp only [List.length_map] at hi hj
  have hrange := intents_in_range hL K hw
  simp only at hg ⊢
  rw [mem_extensionI K hwf _ (hrange j) g] at hg
  rw [mem_extensionI K hwf _ (hrange i) g]
  exact ⟨hg.1, fun a ha => hg.2 a (intent_anti hL.concepts hi hj hsub a ha)⟩

theorem ext_lt_formal (K : Ctx) (hwf : K.table.WF) (hw : K.table.width = tTrain.width) :
    ∀ i, ∀ g ∈ (fun c => K.extensionI ((cs.map Prod.snd).getD c []) none) i, g < K.nObjects := by
  intro i g hg
  exact ((mem_extensionI K hwf _ (intents_in_range hL K hw i) g).mp hg).1

end formal

end Fca.Trace

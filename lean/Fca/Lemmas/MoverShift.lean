/-
  Lemmas for `shift_node`: sorting by rank, the rank bijection `Bij`, and the rotation performed by the swap loop.
-/
import Fca.Lemmas.Mover
namespace Fca.Mover
open Fca.Layout (VErr)

/-! ### sorting by rank -/

theorem insertByNat_perm (key : Nat → Nat) (x : Nat) : ∀ l : List Nat, (insertByNat key x l).Perm (x :: l)
  | [] => List.Perm.refl _
  | y :: ys => by
    simp only [insertByNat]
    split
    · exact List.Perm.refl _
    · exact ((insertByNat_perm key x ys).cons y).trans (List.Perm.swap x y ys)

theorem sortByNat_perm (key : Nat → Nat) : ∀ l : List Nat, (sortByNat key l).Perm l
  | [] => List.Perm.refl _
  | x :: xs => (insertByNat_perm key x _).trans ((sortByNat_perm key xs).cons x)

theorem insertByNat_sorted (key : Nat → Nat) (x : Nat) : ∀ l : List Nat,
    l.Pairwise (fun a b => key a ≤ key b) → (insertByNat key x l).Pairwise (fun a b => key a ≤ key b)
  | [], _ => by simp [insertByNat]
  | y :: ys, h => by
    simp only [insertByNat]
    have hy := List.pairwise_cons.mp h
    split
    · rename_i hle
      refine List.pairwise_cons.mpr ⟨?_, h⟩
      intro z hz
      rcases List.mem_cons.mp hz with rfl | hz
      · exact hle
      · exact Nat.le_trans hle (hy.1 z hz)
    · rename_i hle
      refine List.pairwise_cons.mpr ⟨?_, insertByNat_sorted key x ys hy.2⟩
      intro z hz
      rcases List.mem_cons.mp ((insertByNat_perm key x ys).mem_iff.mp hz) with rfl | hz
      · omega
      · exact hy.1 z hz

theorem sortByNat_sorted (key : Nat → Nat) : ∀ l : List Nat,
    (sortByNat key l).Pairwise (fun a b => key a ≤ key b)
  | [] => List.Pairwise.nil
  | x :: xs => insertByNat_sorted key x _ (sortByNat_sorted key xs)

/-- two strictly ascending lists with the same members are equal -/
theorem sorted_ext : ∀ (l₁ l₂ : List Nat), l₁.Pairwise (· < ·) → l₂.Pairwise (· < ·) →
    (∀ x, x ∈ l₁ ↔ x ∈ l₂) → l₁ = l₂
  | [], [], _, _, _ => rfl
  | [], b :: bs, _, _, h => by have := (h b).mpr List.mem_cons_self; cases this
  | a :: as, [], _, _, h => by have := (h a).mp List.mem_cons_self; cases this
  | a :: as, b :: bs, h1, h2, h => by
    obtain ⟨ha, has⟩ := List.pairwise_cons.mp h1
    obtain ⟨hb, hbs⟩ := List.pairwise_cons.mp h2
    have hab : a = b := by
      rcases List.mem_cons.mp ((h a).mp List.mem_cons_self) with e | e
      · exact e
      · rcases List.mem_cons.mp ((h b).mpr List.mem_cons_self) with e' | e'
        · exact e'.symm
        · have := hb a e; have := ha b e'; omega
    subst hab
    congr 1
    apply sorted_ext as bs has hbs
    intro x
    constructor
    · intro hx
      rcases List.mem_cons.mp ((h x).mp (List.mem_cons_of_mem _ hx)) with e | e
      · have := ha x hx; omega
      · exact e
    · intro hx
      rcases List.mem_cons.mp ((h x).mpr (List.mem_cons_of_mem _ hx)) with e | e
      · have := hb x hx; omega
      · exact e

/-! ### the rank bijection -/

/-- the ranks of every level are a bijection onto the slots of the level -/
structure Bij (m : St) : Prop where
  inj  : ∀ a b, a < m.n → b < m.n → m.lvl a = m.lvl b → m.ord a = m.ord b → a = b
  surj : ∀ l r, l < m.posPeers.length → r < (m.row l).length → ∃ el, el < m.n ∧ m.lvl el = l ∧ m.ord el = r

theorem mem_peersIds {m : St} {l x : Nat} : x ∈ peersIds m l ↔ x < m.n ∧ m.lvl x = l := by
  unfold peersIds
  rw [(sortByNat_perm _ _).mem_iff]
  simp [List.mem_filter]

theorem peersIds_nodup (m : St) (l : Nat) : (peersIds m l).Nodup := by
  unfold peersIds
  rw [(sortByNat_perm _ _).nodup_iff]
  exact List.Pairwise.filter _ List.nodup_range

theorem peersIds_ranks {m : St} (hw : WF m) (hb : Bij m) {l : Nat} (hl : l < m.posPeers.length) :
    (peersIds m l).map m.ord = List.range (m.row l).length := by
  apply sorted_ext
  · -- strictly ascending ranks
    rw [List.pairwise_map]
    have h1 : (peersIds m l).Pairwise (fun a b => m.ord a ≤ m.ord b) := sortByNat_sorted _ _
    have h2 : (peersIds m l).Pairwise (· ≠ ·) := peersIds_nodup m l
    have h3 := h1.and h2
    refine List.Pairwise.imp_of_mem ?_ h3
    intro a b ha hb' ⟨hle, hne⟩
    obtain ⟨han, hal⟩ := mem_peersIds.mp ha
    obtain ⟨hbn, hbl⟩ := mem_peersIds.mp hb'
    rcases Nat.lt_or_ge (m.ord a) (m.ord b) with h | h
    · exact h
    · exact absurd (hb.inj a b han hbn (hal.trans hbl.symm) (Nat.le_antisymm hle h)) hne
  · exact List.pairwise_lt_range
  · intro r
    simp only [List.mem_map, List.mem_range]
    constructor
    · rintro ⟨x, hx, rfl⟩
      obtain ⟨hxn, hxl⟩ := mem_peersIds.mp hx
      have := hw.ord_lt x hxn
      rw [hxl] at this; exact this
    · intro hr
      obtain ⟨el, h1, h2, h3⟩ := hb.surj l r hl hr
      exact ⟨el, mem_peersIds.mpr ⟨h1, h2⟩, h3⟩

/-- the transposition of two nodes -/
def tr (a b x : Nat) : Nat := if x = a then b else if x = b then a else x

theorem tr_tr (a b x : Nat) : tr a b (tr a b x) = x := by
  unfold tr; split <;> split <;> (try split) <;> (try split) <;> omega

theorem swap_ord_tr {m m' : St} {a b : Nat} (hw : WF m) (h : swapNodes m a b = .ok m') (x : Nat) :
    m'.ord x = m.ord (tr a b x) := by
  unfold tr
  split
  · rename_i e; subst e; exact swap_ord_a hw.len_ord h
  · split
    · rename_i e; subst e; exact swap_ord_b hw.len_ord h
    · rename_i h1 h2; exact swap_ord_other h h1 h2

theorem swap_bij {m m' : St} {a b : Nat} (hw : WF m) (hb : Bij m) (h : swapNodes m a b = .ok m') : Bij m' := by
  obtain ⟨_, hl, _, hpp⟩ := swap_frame h
  obtain ⟨ha, hbn, hlab, _⟩ := swapNodes_ok h
  have hlvl : ∀ el, m'.lvl el = m.lvl el := by intro el; simp only [St.lvl, hl]
  have hrow : ∀ l, m'.row l = m.row l := by intro l; simp only [St.row, hpp]
  have hn : m'.n = m.n := by simp only [St.n, hl]
  have htl : ∀ x, m.lvl (tr a b x) = m.lvl x := by
    intro x; unfold tr; split
    · rename_i e; subst e; exact hlab.symm
    · split
      · rename_i e; subst e; exact hlab
      · rfl
  have htn : ∀ x, x < m.n → tr a b x < m.n := by
    intro x hx; unfold tr; split
    · exact hbn
    · split
      · exact ha
      · exact hx
  constructor
  · intro x y hx hy hxy hoxy
    rw [hn] at hx hy
    rw [hlvl, hlvl] at hxy
    rw [swap_ord_tr hw h, swap_ord_tr hw h] at hoxy
    have := hb.inj _ _ (htn x hx) (htn y hy) (by rw [htl, htl]; exact hxy) hoxy
    have h2 := congrArg (tr a b) this
    rw [tr_tr, tr_tr] at h2
    exact h2
  · intro l r hl' hr
    rw [hpp] at hl'
    rw [hrow] at hr
    obtain ⟨el, h1, h2, h3⟩ := hb.surj l r hl' hr
    refine ⟨tr a b el, by rw [hn]; exact htn el h1, by rw [hlvl, htl]; exact h2, ?_⟩
    rw [swap_ord_tr hw h, tr_tr]; exact h3

theorem swapLoop_bij {i : Nat} : ∀ {ns : List Nat} {m m' : St}, WF m → Bij m → swapLoop m i ns = .ok m' → Bij m'
  | [], m, m', _, hb, h => by cases h; exact hb
  | s :: ss, m, m', hw, hb, h => by
    simp only [swapLoop] at h
    split at h
    · cases h
    · rename_i m1 h1
      exact swapLoop_bij (swap_wf hw h1) (swap_bij hw hb h1) h

theorem setRow_bij {m : St} (hw : WF m) (hb : Bij m) (l p : Nat) (x : Rat) : Bij (setRow m l p x) := by
  have hrl : ∀ l', ((setRow m l p x).row l').length = (m.row l').length := by
    intro l'
    by_cases h : l = l'
    · subst h
      by_cases h2 : l < m.posPeers.length
      · rw [setRow_row_same _ _ _ _ h2, List.length_set]
      · simp only [setRow, St.row]
        rw [List.set_eq_of_length_le (by omega)]
    · rw [setRow_row_other _ _ _ _ _ h]
  constructor
  · exact hb.inj
  · intro l' r hl' hr
    rw [hrl] at hr
    simp only [setRow, List.length_set] at hl'
    exact hb.surj l' r hl' hr

/-- the swap loop rotates the ranks along `i :: ns` -/
theorem swapLoop_rotate {i : Nat} : ∀ {ns : List Nat} {m m' : St}, WF m → swapLoop m i ns = .ok m' →
    (i :: ns).Nodup →
    m'.ord i = m.ord ((i :: ns).getLast (List.cons_ne_nil _ _)) ∧
    (∀ s (h : s < ns.length), m'.ord (ns[s]) = m.ord ((i :: ns)[s]'(by simp only [List.length_cons]; omega))) ∧
    (∀ j, j ∉ i :: ns → m'.ord j = m.ord j)
  | [], m, m', _, h, _ => by
    cases h
    exact ⟨rfl, fun s h => absurd h (Nat.not_lt_zero _), fun _ _ => rfl⟩
  | s0 :: ss, m, m', hw, h, hnd => by
    simp only [swapLoop] at h
    split at h
    · cases h
    · rename_i m1 h1
      have hnd' : (i :: ss).Nodup := by
        have := List.nodup_cons.mp hnd
        have h2 := List.nodup_cons.mp this.2
        exact List.nodup_cons.mpr ⟨fun hm => this.1 (List.mem_cons_of_mem _ hm), h2.2⟩
      have his0 : i ≠ s0 := by
        intro e; have := (List.nodup_cons.mp hnd).1; exact this (e ▸ List.mem_cons_self)
      have hs0ss : s0 ∉ ss := (List.nodup_cons.mp (List.nodup_cons.mp hnd).2).1
      have hiss : i ∉ ss := fun hm => (List.nodup_cons.mp hnd).1 (List.mem_cons_of_mem _ hm)
      obtain ⟨r1, r2, r3⟩ := swapLoop_rotate (swap_wf hw h1) h hnd'
      have e_i : m1.ord i = m.ord s0 := swap_ord_a hw.len_ord h1
      have e_s0 : m1.ord s0 = m.ord i := swap_ord_b hw.len_ord h1
      have e_o : ∀ j, j ≠ i → j ≠ s0 → m1.ord j = m.ord j := fun j a b => swap_ord_other h1 a b
      refine ⟨?_, ?_, ?_⟩
      · rw [r1]
        cases ss with
        | nil => simp only [List.getLast_singleton]; exact e_i
        | cons t ts =>
          simp only [List.getLast_cons (List.cons_ne_nil _ _)] 
          have hmem : (t :: ts).getLast (List.cons_ne_nil _ _) ∈ t :: ts := List.getLast_mem _
          apply e_o
          · intro e; exact hiss (e ▸ hmem)
          · intro e; exact hs0ss (e ▸ hmem)
      · intro s hs
        cases s with
        | zero =>
          simp only [List.getElem_cons_zero]
          rw [r3 s0 (by
            intro hm
            rcases List.mem_cons.mp hm with e | e
            · exact his0 e.symm
            · exact hs0ss e)]
          exact e_s0
        | succ s =>
          simp only [List.getElem_cons_succ]
          simp only [List.length_cons] at hs
          have hs' : s < ss.length := by omega
          rw [r2 s hs']
          cases s with
          | zero => simp only [List.getElem_cons_zero]; exact e_i
          | succ s =>
            simp only [List.getElem_cons_succ]
            have hmem : ss[s]'(by omega) ∈ ss := List.getElem_mem _
            apply e_o
            · intro e; exact hiss (e ▸ hmem)
            · intro e; exact hs0ss (e ▸ hmem)
      · intro j hj
        have hj1 : j ≠ i := fun e => hj (e ▸ List.mem_cons_self)
        have hj2 : j ≠ s0 := fun e => hj (e ▸ List.mem_cons_of_mem _ List.mem_cons_self)
        have hj3 : j ∉ ss := fun hm => hj (List.mem_cons_of_mem _ (List.mem_cons_of_mem _ hm))
        rw [r3 j (by
          intro hm
          rcases List.mem_cons.mp hm with e | e
          · exact hj1 e
          · exact hj3 e)]
        exact e_o j hj1 hj2

theorem peersIds_getElem {m : St} (hw : WF m) (hb : Bij m) {l : Nat} (hl : l < m.posPeers.length) :
    (peersIds m l).length = (m.row l).length ∧
    ∀ q (h : q < (peersIds m l).length), m.ord ((peersIds m l)[q]) = q := by
  have hmap := peersIds_ranks hw hb hl
  have hlen : (peersIds m l).length = (m.row l).length := by
    have := congrArg List.length hmap
    simpa using this
  refine ⟨hlen, ?_⟩
  intro q h
  have h1 : ((peersIds m l).map m.ord)[q]'(by simpa using h) = m.ord ((peersIds m l)[q]) := by simp
  rw [← h1]
  simp only [hmap, List.getElem_range]

theorem peersIds_at {m : St} (hw : WF m) (hb : Bij m) {j l : Nat} (hj : j < m.n) (hjl : m.lvl j = l)
    {ids : List Nat} (hids : peersIds m l = ids) :
    ∃ h : m.ord j < ids.length, ids[m.ord j] = j := by
  subst hids; subst hjl
  have hl := hw.lvl_lt j hj
  obtain ⟨hlen, hget⟩ := peersIds_getElem hw hb hl
  have ho := hw.ord_lt j hj
  refine ⟨by rw [hlen]; exact ho, ?_⟩
  have hmem : (peersIds m (m.lvl j))[m.ord j]'(by rw [hlen]; exact ho) ∈ peersIds m (m.lvl j) := List.getElem_mem _
  obtain ⟨h1, h2⟩ := mem_peersIds.mp hmem
  exact hb.inj _ _ h1 hj h2 (hget _ _)

/-- `shift_node(i, k)` with `k ≥ 0` -/
theorem shift_right {m m' : St} (hw : WF m) (hb : Bij m) {i : Nat} {k : Int} (hk : 0 ≤ k)
    (h : shiftNode m i k = .ok m') :
    let p := m.ord i
    let t := min k.natAbs ((m.row (m.lvl i)).length - (p + 1))
    m'.ord i = p + t ∧
    ∀ j, j < m.n → m.lvl j = m.lvl i →
      (p < m.ord j → m.ord j ≤ p + t → m'.ord j = m.ord j - 1) ∧
      (m.ord j < p ∨ p + t < m.ord j → m'.ord j = m.ord j) := by
  intro p t
  obtain ⟨hi, hloop⟩ := shiftNode_ok h
  have hl := hw.lvl_lt i hi
  obtain ⟨hlen, hget⟩ := peersIds_getElem hw hb hl
  generalize hids : peersIds m (m.lvl i) = ids at hlen hget
  have hns : nodesToSwap m i k = (ids.drop (p + 1)).take k.natAbs := by
    simp only [nodesToSwap, hids, hk, ↓reduceIte, p]
  rw [hns] at hloop
  generalize hnsd : (ids.drop (p + 1)).take k.natAbs = ns at hloop
  have hnl : ns.length = t := by
    rw [← hnsd, List.length_take, List.length_drop, hlen]
  have hnget : ∀ s (hs : s < ns.length), ∃ hq : p + 1 + s < ids.length, ns[s] = ids[p + 1 + s] := by
    intro s hs
    have hq : p + 1 + s < ids.length := by rw [hlen]; rw [hnl] at hs; omega
    refine ⟨hq, ?_⟩
    subst hnsd
    simp only [List.getElem_take, List.getElem_drop]
  have hnord : ∀ s (hs : s < ns.length), m.ord ns[s] = p + 1 + s := by
    intro s hs
    obtain ⟨hq, e⟩ := hnget s hs
    rw [e]; exact hget _ hq
  have hsub : ns.Sublist ids := by
    rw [← hnsd]; exact (List.take_sublist _ _).trans (List.drop_sublist _ _)
  have hndns : ns.Nodup := List.Nodup.sublist hsub (hids ▸ peersIds_nodup m (m.lvl i))
  have hmem_ord : ∀ x ∈ ns, p < m.ord x ∧ m.ord x ≤ p + t := by
    intro x hx
    obtain ⟨s, hs, rfl⟩ := List.getElem_of_mem hx
    rw [hnord s hs]; rw [hnl] at hs; omega
  have hnd : (i :: ns).Nodup := by
    refine List.nodup_cons.mpr ⟨?_, hndns⟩
    intro hm
    have := (hmem_ord i hm).1
    exact Nat.lt_irrefl _ this
  obtain ⟨r1, r2, r3⟩ := swapLoop_rotate hw hloop hnd
  constructor
  · rw [r1, List.getLast_eq_getElem]
    simp only [List.length_cons, Nat.add_sub_cancel]
    by_cases ht : ns.length = 0
    · have : ns = [] := List.eq_nil_of_length_eq_zero ht
      subst this
      simp only [List.length_nil, List.getElem_cons_zero]
      rw [← hnl]; rfl
    · obtain ⟨u, hu⟩ := Nat.exists_eq_succ_of_ne_zero ht
      simp only [hu, List.getElem_cons_succ]
      rw [hnord u (by omega)]
      omega
  · intro j hj hjl
    obtain ⟨hq, hat⟩ := peersIds_at hw hb hj hjl hids
    constructor
    · intro h1 h2
      have hs : m.ord j - (p + 1) < ns.length := by rw [hnl]; omega
      obtain ⟨_, e⟩ := hnget _ hs
      have hidx : p + 1 + (m.ord j - (p + 1)) = m.ord j := by omega
      have hjn : ns[m.ord j - (p + 1)] = j := by
        rw [e]; simp only [hidx]; exact hat
      have := r2 _ hs
      rw [hjn] at this
      rw [this]
      by_cases h0 : m.ord j - (p + 1) = 0
      · simp only [h0, List.getElem_cons_zero]; omega
      · obtain ⟨u, hu⟩ := Nat.exists_eq_succ_of_ne_zero h0
        simp only [hu, List.getElem_cons_succ]
        rw [hnord u (by omega)]
        omega
    · intro h1
      apply r3
      intro hm
      rcases List.mem_cons.mp hm with e | e
      · subst e; omega
      · have := hmem_ord j e; omega

/-- `shift_node(i, k)` with `k < 0` -/
theorem shift_left {m m' : St} (hw : WF m) (hb : Bij m) {i : Nat} {k : Int} (hk : k < 0)
    (h : shiftNode m i k = .ok m') :
    let p := m.ord i
    let t := min k.natAbs p
    m'.ord i = p - t ∧
    ∀ j, j < m.n → m.lvl j = m.lvl i →
      (p - t ≤ m.ord j → m.ord j < p → m'.ord j = m.ord j + 1) ∧
      (m.ord j < p - t ∨ p < m.ord j → m'.ord j = m.ord j) := by
  intro p t
  obtain ⟨hi, hloop⟩ := shiftNode_ok h
  have hl := hw.lvl_lt i hi
  have hpc := hw.ord_lt i hi
  obtain ⟨hlen, hget⟩ := peersIds_getElem hw hb hl
  generalize hids : peersIds m (m.lvl i) = ids at hlen hget
  have hk' : ¬ (0 ≤ k) := by omega
  have hns : nodesToSwap m i k = ((ids.take p).reverse).take k.natAbs := by
    simp only [nodesToSwap, hids, hk', ↓reduceIte, p]
  rw [hns] at hloop
  generalize hnsd : ((ids.take p).reverse).take k.natAbs = ns at hloop
  have hpl : p < ids.length := by rw [hlen]; exact hpc
  have htk : (ids.take p).length = p := by rw [List.length_take]; omega
  have hnl : ns.length = t := by
    rw [← hnsd, List.length_take, List.length_reverse, htk]
  have hnget : ∀ s (hs : s < ns.length), ∃ hq : p - 1 - s < ids.length, ns[s] = ids[p - 1 - s] := by
    intro s hs
    have hq : p - 1 - s < ids.length := by omega
    refine ⟨hq, ?_⟩
    subst hnsd
    simp only [List.getElem_take, List.getElem_reverse, htk]
  have hnord : ∀ s (hs : s < ns.length), m.ord ns[s] = p - 1 - s := by
    intro s hs
    obtain ⟨hq, e⟩ := hnget s hs
    rw [e]; exact hget _ hq
  have hndns : ns.Nodup := by
    rw [← hnsd]
    refine List.Nodup.sublist (List.take_sublist _ _) ?_
    rw [(List.reverse_perm _).nodup_iff]
    exact List.Nodup.sublist (List.take_sublist p ids) (hids ▸ peersIds_nodup m (m.lvl i))
  have hmem_ord : ∀ x ∈ ns, p - t ≤ m.ord x ∧ m.ord x < p := by
    intro x hx
    obtain ⟨s, hs, rfl⟩ := List.getElem_of_mem hx
    rw [hnord s hs]; rw [hnl] at hs; omega
  have hnd : (i :: ns).Nodup := by
    refine List.nodup_cons.mpr ⟨?_, hndns⟩
    intro hm
    have := (hmem_ord i hm).2
    exact Nat.lt_irrefl _ this
  obtain ⟨r1, r2, r3⟩ := swapLoop_rotate hw hloop hnd
  constructor
  · rw [r1, List.getLast_eq_getElem]
    simp only [List.length_cons, Nat.add_sub_cancel]
    by_cases ht : ns.length = 0
    · have : ns = [] := List.eq_nil_of_length_eq_zero ht
      subst this
      simp only [List.length_nil, List.getElem_cons_zero]
      rw [← hnl]; rfl
    · obtain ⟨u, hu⟩ := Nat.exists_eq_succ_of_ne_zero ht
      simp only [hu, List.getElem_cons_succ]
      rw [hnord u (by omega)]
      omega
  · intro j hj hjl
    obtain ⟨hq, hat⟩ := peersIds_at hw hb hj hjl hids
    constructor
    · intro h1 h2
      have hs : p - 1 - m.ord j < ns.length := by rw [hnl]; omega
      obtain ⟨_, e⟩ := hnget _ hs
      have hidx : p - 1 - (p - 1 - m.ord j) = m.ord j := by omega
      have hjn : ns[p - 1 - m.ord j] = j := by
        rw [e]; simp only [hidx]; exact hat
      have := r2 _ hs
      rw [hjn] at this
      rw [this]
      by_cases h0 : p - 1 - m.ord j = 0
      · simp only [h0, List.getElem_cons_zero]; omega
      · obtain ⟨u, hu⟩ := Nat.exists_eq_succ_of_ne_zero h0
        simp only [hu, List.getElem_cons_succ]
        rw [hnord u (by omega)]
        omega
    · intro h1
      apply r3
      intro hm
      rcases List.mem_cons.mp hm with e | e
      · subst e; omega
      · have := hmem_ord j e; omega

/-! ### the loaded state has the bijection; every operation keeps it -/

theorem insertByKey_perm (key : Nat → Rat) (x : Nat) : ∀ l : List Nat, (insertByKey key x l).Perm (x :: l)
  | [] => List.Perm.refl _
  | y :: ys => by
    simp only [insertByKey]
    split
    · exact List.Perm.refl _
    · exact ((insertByKey_perm key x ys).cons y).trans (List.Perm.swap x y ys)

theorem sortByKey_perm (key : Nat → Rat) : ∀ l : List Nat, (sortByKey key l).Perm l
  | [] => List.Perm.refl _
  | x :: xs => (insertByKey_perm key x _).trans ((sortByKey_perm key xs).cons x)

theorem peersOf_nodup (val : List (Rat × Rat)) (levels : List Nat) (l : Nat) : (peersOf val levels l).Nodup := by
  unfold peersOf
  rw [(sortByKey_perm _ _).nodup_iff]
  exact List.Pairwise.filter _ List.nodup_range

theorem mem_peersOf {val : List (Rat × Rat)} {levels : List Nat} {l x : Nat} :
    x ∈ peersOf val levels l ↔ x < val.length ∧ levels.getD x 0 = l := by
  unfold peersOf
  rw [(sortByKey_perm _ _).mem_iff]
  simp [List.mem_filter]

/-- a freshly loaded state has the rank bijection -/
theorem loadState_bij (d : Dir) (val : List (Rat × Rat)) : Bij (loadState d val) := by
  generalize hLC : sortedSetDesc (val.map (·.2)) = LC
  generalize hlevels : levelsOf LC val = levels
  have hF1 : (loadState d val).levels = levels := by simp only [loadState, hLC, hlevels]
  have hF2 : (loadState d val).peersOrder = (List.range val.length).map fun el =>
      (((List.range LC.length).map (peersOf val levels)).getD (levels.getD el 0) []).idxOf el := by
    simp only [loadState, hLC, hlevels]
  have hF4 : (loadState d val).posPeers =
      ((List.range LC.length).map (peersOf val levels)).map fun ps => ps.map (keyOf val) := by
    simp only [loadState, hLC, hlevels]
  have hlen : levels.length = val.length := by rw [← hlevels]; simp only [levelsOf, List.length_map]
  have hn : (loadState d val).n = val.length := by simp only [St.n, hF1, hlen]
  have hw := (loadState_spec d val).1
  have hpl : (loadState d val).posPeers.length = LC.length := by
    rw [hF4]; simp only [List.length_map, List.length_range]
  have hlvl : ∀ el, (loadState d val).lvl el = levels.getD el 0 := by
    intro el; simp only [St.lvl, hF1]
  have hpo : ∀ l, l < LC.length →
      ((List.range LC.length).map (peersOf val levels)).getD l [] = peersOf val levels l :=
    fun l hl => getD_map_range _ _ _ _ hl
  have hlevlt : ∀ el, el < val.length → levels.getD el 0 < LC.length := by
    intro el hel
    have := hw.lvl_lt el (hn ▸ hel)
    rw [hlvl, hpl] at this; exact this
  have hord : ∀ el, el < val.length →
      (loadState d val).ord el = (peersOf val levels (levels.getD el 0)).idxOf el := by
    intro el hel
    simp only [St.ord, hF2]
    rw [getD_map_range _ _ _ _ hel, hpo _ (hlevlt el hel)]
  have hrowlen : ∀ l, l < LC.length → ((loadState d val).row l).length = (peersOf val levels l).length := by
    intro l hl
    simp only [St.row, hF4]
    rw [List.map_map, getD_map_range _ _ _ _ hl]
    simp only [Function.comp, List.length_map]
  constructor
  · intro a b ha hb hl ho
    rw [hn] at ha hb
    rw [hlvl, hlvl] at hl
    rw [hord a ha, hord b hb, ← hl] at ho
    have hma : a ∈ peersOf val levels (levels.getD a 0) := mem_peersOf.mpr ⟨ha, rfl⟩
    have hmb : b ∈ peersOf val levels (levels.getD a 0) := mem_peersOf.mpr ⟨hb, hl.symm⟩
    have h1 := List.getElem_idxOf (List.idxOf_lt_length_iff.mpr hma)
    have h2 := List.getElem_idxOf (List.idxOf_lt_length_iff.mpr hmb)
    rw [← h1, ← h2]
    simp only [ho]
  · intro l r hl hr
    rw [hpl] at hl
    rw [hrowlen l hl] at hr
    have hmem : (peersOf val levels l)[r] ∈ peersOf val levels l := List.getElem_mem _
    obtain ⟨h1, h2⟩ := mem_peersOf.mp hmem
    refine ⟨(peersOf val levels l)[r], by rw [hn]; exact h1, by rw [hlvl]; exact h2, ?_⟩
    rw [hord _ h1, h2]
    exact (peersOf_nodup val levels l).idxOf_getElem r hr

/-! ### every operation keeps the bijection -/

theorem shift_bij {m m' : St} {i : Nat} {k : Int} (hw : WF m) (hb : Bij m) (h : shiftNode m i k = .ok m') : Bij m' :=
  swapLoop_bij hw hb (shiftNode_ok h).2

theorem jitter_bij {m m' : St} {i : Nat} {dx : Rat} (hw : WF m) (hb : Bij m) (h : jitterNode m i dx = .ok m') : Bij m' := by
  obtain ⟨_, h | ⟨k, m1, h1, h⟩⟩ := jitterNode_ok h
  · subst h; exact setRow_bij hw hb _ _ _
  · subst h; exact setRow_bij (shift_wf hw h1) (shift_bij hw hb h1) _ _ _

theorem step_bij {m m' : St} {o : Op} (hw : WF m) (hb : Bij m) (h : step m o = .ok m') : Bij m' := by
  cases o with
  | swap a b => exact swap_bij hw hb h
  | shift i k => exact shift_bij hw hb h
  | jitter i dx => exact jitter_bij hw hb h
  | place i x => exact jitter_bij hw hb (placeNode_ok h).2

theorem run_bij : ∀ (ops : List Op) (m : St), WF m → Bij m → Bij (run m ops)
  | [], m, _, hb => hb
  | o :: os, m, hw, hb => by
    simp only [run]
    split
    · rename_i m1 h1
      exact run_bij os m1 (step_wf hw h1) (step_bij hw hb h1)
    · exact run_bij os m hw hb

/-- every node `shift_node` swaps with is a valid peer of `i` -/
theorem nodesToSwap_peers {m : St} {i : Nat} {k : Int} : ∀ s ∈ nodesToSwap m i k, s < m.n ∧ m.lvl s = m.lvl i := by
  intro s hs
  apply mem_peersIds.mp
  simp only [nodesToSwap] at hs
  have h1 := List.mem_of_mem_take hs
  split at h1
  · exact List.mem_of_mem_drop h1
  · exact List.mem_of_mem_take (List.mem_reverse.mp h1)

end Fca.Mover

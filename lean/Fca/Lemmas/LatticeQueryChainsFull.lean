/-
  Fca.Lemmas.LatticeQueryChainsFull — the rest of `ConceptLattice._get_chains`: the two dictionaries keyed by
  concept (`__hash__`/`__eq__`) return positions, so `map_isort_i` / `map_i_isort` are mutually inverse
  permutations compatible with the sorted order; every round of the outer loop starts at an unvisited concept,
  so the rounds terminate within `n` rounds and the chains cover all concepts.
-/
import Fca.Lemmas.LatticeQueryChains
namespace Fca.LQ
open Fca Fca.Spec

/-- `FormalConcept.__eq__` on concepts of one table is equality -/
theorem conceptEq_iff {t : Table} {a b : Concept} (ha : isConcept t a.1 a.2 = true)
    (hb : isConcept t b.1 b.2 = true) : conceptEq a b = true ↔ a = b := by
  unfold conceptEq
  constructor
  · intro h
    split at h
    · cases h
    · rename_i hlen
      have hlen' : a.1.length = b.1.length := by simpa using hlen
      have hsub : ∀ g ∈ a.1, g ∈ b.1 := by simpa [List.all_eq_true] using h
      apply Classical.byContradiction
      intro hne
      have := support_lt ha hb hsub hne
      omega
  · rintro rfl
    simp [List.all_eq_true]

theorem dictIdxFrom_none {t : Table} : ∀ (l : Lat) (off : Nat) (c : Concept),
    (∀ d ∈ l, isConcept t d.1 d.2 = true) → isConcept t c.1 c.2 = true → c ∉ l →
    dictIdxFrom l off c = none
  | [], _, _, _, _, _ => rfl
  | y :: ys, off, c, hl, hc, hn => by
    unfold dictIdxFrom
    rw [dictIdxFrom_none ys (off + 1) c (fun d hd => hl d (List.mem_cons_of_mem _ hd)) hc
      (fun h => hn (List.mem_cons_of_mem _ h))]
    simp only
    have : ¬ conceptEq y c = true := by
      rw [conceptEq_iff (hl y List.mem_cons_self) hc]
      intro e; exact hn (e ▸ List.mem_cons_self)
    rw [if_neg this]

/-- the dictionary `{c: idx for idx, c in enumerate(l)}` returns the position of each listed concept -/
theorem dictIdxFrom_getElem {t : Table} : ∀ (l : Lat) (off : Nat),
    (∀ d ∈ l, isConcept t d.1 d.2 = true) → l.Nodup →
    ∀ k (hk : k < l.length), dictIdxFrom l off l[k] = some (off + k)
  | [], _, _, _, k, hk => by simp at hk
  | y :: ys, off, hl, hnd, k, hk => by
    rw [List.nodup_cons] at hnd
    unfold dictIdxFrom
    cases k with
    | zero =>
      simp only [List.getElem_cons_zero]
      rw [dictIdxFrom_none ys (off + 1) y (fun d hd => hl d (List.mem_cons_of_mem _ hd))
        (hl y List.mem_cons_self) hnd.1]
      simp only
      have : conceptEq y y = true := (conceptEq_iff (hl y List.mem_cons_self) (hl y List.mem_cons_self)).mpr rfl
      rw [if_pos this]; rfl
    | succ k' =>
      simp only [List.getElem_cons_succ]
      rw [dictIdxFrom_getElem ys (off + 1) (fun d hd => hl d (List.mem_cons_of_mem _ hd)) hnd.2 k'
        (by simpa using hk)]
      simp only
      congr 1; omega

theorem dictIdx_getElem {t : Table} {l : Lat} (hl : ∀ d ∈ l, isConcept t d.1 d.2 = true) (hnd : l.Nodup)
    (k : Nat) (hk : k < l.length) : dictIdx l l[k] = some k := by
  unfold dictIdx
  rw [dictIdxFrom_getElem l 0 hl hnd k hk]; simp

/-- `[d[x] for x in xs]` when every look-up succeeds -/
theorem mapM_some {α : Type} (f : α → Option Nat) : ∀ (l : List α),
    (∀ x ∈ l, ∃ y, f x = some y) →
    ∃ ys, l.mapM f = some ys ∧ ys.length = l.length ∧
      ∀ k (hk : k < l.length), f l[k] = some (ys.getD k 0)
  | [], _ => ⟨[], rfl, rfl, fun k hk => by simp at hk⟩
  | x :: xs, h => by
    obtain ⟨y, hy⟩ := h x List.mem_cons_self
    obtain ⟨ys, hys, hlen, hget⟩ := mapM_some f xs (fun z hz => h z (List.mem_cons_of_mem _ hz))
    refine ⟨y :: ys, ?_, by simp [hlen], ?_⟩
    · rw [List.mapM_cons, hy, hys]; rfl
    · intro k hk
      cases k with
      | zero => simpa using hy
      | succ k' =>
        simp only [List.getElem_cons_succ, List.getD_cons_succ]
        exact hget k' (by simpa using hk)

theorem dictIdx_spec {t : Table} {l : Lat} (hl : ∀ d ∈ l, isConcept t d.1 d.2 = true) (hnd : l.Nodup)
    {c : Concept} (hc : c ∈ l) : ∃ j, dictIdx l c = some j ∧ j < l.length ∧ conc l j = c := by
  obtain ⟨k, hk, e⟩ := List.mem_iff_getElem.mp hc
  refine ⟨k, ?_, hk, ?_⟩
  · rw [← e]; exact dictIdx_getElem hl hnd k hk
  · unfold conc
    rw [List.getD_eq_getElem?_getD, List.getElem?_eq_getElem hk]; exact e

theorem conc_eq_getElem {l : Lat} {k : Nat} (hk : k < l.length) : conc l k = l[k] := by
  unfold conc
  rw [List.getD_eq_getElem?_getD, List.getElem?_eq_getElem hk]; rfl

/-- the two index maps of `_get_chains` -/
theorem chainMaps_ok {t : Table} {cs : Lat} (H : IsConceptList t cs) :
    ∃ isortI iIsort, chainMaps cs = .ok (isortI, iIsort) ∧
      (∀ s, s < cs.length → isortI.getD s 0 < cs.length ∧
        conc cs (isortI.getD s 0) = conc (sortConcepts cs) s) ∧
      (∀ i, i < cs.length → iIsort.getD i 0 < cs.length ∧
        conc (sortConcepts cs) (iIsort.getD i 0) = conc cs i) := by
  have Hs := H.sort
  have hlen : (sortConcepts cs).length = cs.length := (sortConcepts_perm cs).length_eq
  have hl : ∀ d ∈ cs, isConcept t d.1 d.2 = true := fun d hd => H.mem_iff.mp hd
  have hls : ∀ d ∈ sortConcepts cs, isConcept t d.1 d.2 = true := fun d hd => Hs.mem_iff.mp hd
  obtain ⟨a, ha, _, hga⟩ := mapM_some (fun c => dictIdx cs c) (sortConcepts cs) (fun c hc => by
    obtain ⟨j, hj, _⟩ := dictIdx_spec hl H.nodup ((sortConcepts_perm cs).mem_iff.mp hc)
    exact ⟨j, hj⟩)
  obtain ⟨b, hb, _, hgb⟩ := mapM_some (fun c => dictIdx (sortConcepts cs) c) cs (fun c hc => by
    obtain ⟨j, hj, _⟩ := dictIdx_spec hls Hs.nodup ((sortConcepts_perm cs).mem_iff.mpr hc)
    exact ⟨j, hj⟩)
  refine ⟨a, b, ?_, ?_, ?_⟩
  · unfold chainMaps
    simp only [ha, hb]
  · intro s hs
    have hs' : s < (sortConcepts cs).length := by rw [hlen]; exact hs
    have hmem : (sortConcepts cs)[s] ∈ cs := (sortConcepts_perm cs).mem_iff.mp (List.getElem_mem hs')
    obtain ⟨j, hj, hjl, hjc⟩ := dictIdx_spec hl H.nodup hmem
    have := hga s hs'
    rw [hj] at this
    simp only [Option.some.injEq] at this
    rw [← this, conc_eq_getElem hs']
    exact ⟨hjl, hjc⟩
  · intro i hi
    have hmem : cs[i] ∈ sortConcepts cs := (sortConcepts_perm cs).mem_iff.mpr (List.getElem_mem hi)
    obtain ⟨j, hj, hjl, hjc⟩ := dictIdx_spec hls Hs.nodup hmem
    have := hgb i hi
    rw [hj] at this
    simp only [Option.some.injEq] at this
    rw [← this, conc_eq_getElem hi]
    exact ⟨by rw [← hlen]; exact hjl, hjc⟩

section loops
variable {P : Nat → List Nat} {isortI iIsort : List Nat} {n topIdx : Nat}

/-- what the outer loop needs in addition: the two index maps are mutually inverse on `[0, n)` -/
structure LoopSetup (P : Nat → List Nat) (isortI iIsort : List Nat) (n topIdx : Nat) : Prop where
  climb : ChainSetup P iIsort n topIdx
  inv : ∀ i, i < n → isortI.getD (iIsort.getD i 0) 0 = i
  inv' : ∀ s, s < n → iIsort.getD (isortI.getD s 0) 0 = s
  rngS : ∀ s, s < n → isortI.getD s 0 < n

theorem chainStart_ok (visited : List Nat) : ∀ k,
    (∃ s, s < k ∧ isortI.getD s 0 ∉ visited) →
    ∃ s, s < k ∧ chainStart isortI visited k = .ok (isortI.getD s 0, s) ∧ isortI.getD s 0 ∉ visited
  | 0, ⟨_, h, _⟩ => by omega
  | k + 1, ⟨s, hs, hn⟩ => by
    unfold chainStart
    simp only
    by_cases hv : isortI.getD k 0 ∈ visited
    · have : visited.contains (isortI.getD k 0) = true := by simpa using hv
      rw [if_pos this]
      have hsk : s < k := by
        rcases Nat.lt_or_ge s k with h | h
        · exact h
        · have : s = k := by omega
          subst this; exact absurd hv hn
      obtain ⟨s', hs', hok, hn'⟩ := chainStart_ok visited k ⟨s, hsk, hn⟩
      exact ⟨s', by omega, hok, hn'⟩
    · have : ¬ visited.contains (isortI.getD k 0) = true := by simpa using hv
      rw [if_neg this]
      exact ⟨k, by omega, rfl, hv⟩

theorem exists_unvisited (S : LoopSetup P isortI iIsort n topIdx) {visited : List Nat}
    (hlt : visited.length < n) : ∃ s, s < n ∧ isortI.getD s 0 ∉ visited := by
  apply Classical.byContradiction
  intro hno
  have hall : ∀ i ∈ List.range n, i ∈ visited := by
    intro i hi
    have hin := List.mem_range.mp hi
    apply Classical.byContradiction
    intro hiv
    apply hno
    refine ⟨iIsort.getD i 0, S.climb.rng i hin, ?_⟩
    rw [S.inv i hin]; exact hiv
  have := List.Nodup.length_le_of_subset List.nodup_range (fun x hx => hall x hx)
  rw [List.length_range] at this
  omega

/-- `for x in chain: visited.add(x)` -/
def insertAll (chain visited : List Nat) : List Nat :=
  chain.foldl (fun v x => if v.contains x then v else x :: v) visited

theorem insertAll_spec : ∀ (chain v : List Nat), v.Nodup →
    (insertAll chain v).Nodup ∧ (∀ x, x ∈ insertAll chain v ↔ x ∈ v ∨ x ∈ chain) ∧
    v.length ≤ (insertAll chain v).length ∧
    (∀ x ∈ chain, x ∉ v → v.length < (insertAll chain v).length)
  | [], v, h => ⟨h, fun x => by simp [insertAll], Nat.le_refl _, fun x hx => by cases hx⟩
  | a :: rest, v, h => by
    unfold insertAll
    rw [List.foldl_cons]
    by_cases ha : a ∈ v
    · have hc : v.contains a = true := by simpa using ha
      rw [if_pos hc]
      obtain ⟨h1, h2, h3, h4⟩ := insertAll_spec rest v h
      refine ⟨h1, fun x => ?_, h3, fun x hx hxv => ?_⟩
      · rw [show List.foldl _ v rest = insertAll rest v from rfl, h2 x, List.mem_cons]
        constructor
        · rintro (h | h)
          · exact Or.inl h
          · exact Or.inr (Or.inr h)
        · rintro (h | h | h)
          · exact Or.inl h
          · rw [h]; exact Or.inl ha
          · exact Or.inr h
      · rcases List.mem_cons.mp hx with e | hx'
        · rw [e] at hxv; exact absurd ha hxv
        · exact h4 x hx' hxv
    · have hc : ¬ v.contains a = true := by simpa using ha
      rw [if_neg hc]
      obtain ⟨h1, h2, h3, _⟩ := insertAll_spec rest (a :: v) (List.nodup_cons.mpr ⟨ha, h⟩)
      have h3' : v.length + 1 ≤ (insertAll rest (a :: v)).length := by simpa using h3
      rw [show List.foldl (fun v x => if v.contains x then v else x :: v) (a :: v) rest
        = insertAll rest (a :: v) from rfl]
      refine ⟨h1, fun x => ?_, by omega, fun x _ _ => by omega⟩
      rw [h2 x, List.mem_cons, List.mem_cons]
      constructor
      · rintro ((h | h) | h)
        · exact Or.inr (Or.inl h)
        · exact Or.inl h
        · exact Or.inr (Or.inr h)
      · rintro (h | h | h)
        · exact Or.inl (Or.inr h)
        · exact Or.inl (Or.inl h)
        · exact Or.inr h

/-- a chain as `get_chains` returns it: starts at the top, every step goes from a parent to one of its
    children, all members are valid indexes -/
def GoodChain (P : Nat → List Nat) (n topIdx : Nat) (ch : List Nat) : Prop :=
  ch.head? = some topIdx ∧ Steps (fun p c => p ∈ P c) ch ∧ ∀ x ∈ ch, x < n

theorem chainsLoop_ok (S : LoopSetup P isortI iIsort n topIdx) : ∀ (fuel : Nat) (visited : List Nat)
    (chains : List (List Nat)),
    visited.Nodup → (∀ x ∈ visited, x < n) → (∀ x ∈ visited, ∃ ch ∈ chains, x ∈ ch) →
    (∀ ch ∈ chains, GoodChain P n topIdx ch) → n + 1 ≤ fuel + visited.length →
    ∃ chs, chainsLoop P isortI iIsort n fuel visited chains = .ok chs ∧
      (∀ i, i < n → ∃ ch ∈ chs, i ∈ ch) ∧ ∀ ch ∈ chs, GoodChain P n topIdx ch
  | 0, visited, chains, hnd, hlt, _, _, hf => by
    have := List.Nodup.length_le_of_subset hnd (l₂ := List.range n)
      (fun x hx => List.mem_range.mpr (hlt x hx))
    rw [List.length_range] at this
    omega
  | fuel + 1, visited, chains, hnd, hlt, hcov, hgood, hf => by
    unfold chainsLoop
    by_cases hv : visited.length < n
    · rw [if_pos hv]
      obtain ⟨s, hs, hok, hnv⟩ := chainStart_ok (isortI := isortI) visited n (exists_unvisited S hv)
      rw [hok]
      simp only
      have hcin : isortI.getD s 0 < n := S.rngS s hs
      obtain ⟨path, hclimb, hh, hl, hst, hb⟩ :=
        climb_ok S.climb (n + 1) (isortI.getD s 0) [] hcin (by have := S.climb.rng _ hcin; omega)
      rw [S.inv' s hs] at hclimb
      rw [hclimb]
      simp only [List.nil_append]
      have hci_mem : isortI.getD s 0 ∈ path := by
        cases path with
        | nil => cases hh
        | cons a r =>
          simp only [List.head?_cons, Option.some.injEq] at hh
          rw [hh]; exact List.mem_cons_self
      obtain ⟨v1, v2, _, v4⟩ := insertAll_spec path visited hnd
      have hlen := v4 _ hci_mem hnv
      apply chainsLoop_ok S fuel (insertAll path visited) (chains ++ [path.reverse]) v1
      · intro x hx
        rcases (v2 x).mp hx with h | h
        · exact hlt x h
        · exact hb x h
      · intro x hx
        rcases (v2 x).mp hx with h | h
        · obtain ⟨ch, hch, hxc⟩ := hcov x h
          exact ⟨ch, List.mem_append_left _ hch, hxc⟩
        · exact ⟨path.reverse, List.mem_append_right _ List.mem_cons_self, List.mem_reverse.mpr h⟩
      · intro ch hch
        rcases List.mem_append.mp hch with h | h
        · exact hgood ch h
        · rw [List.mem_singleton.mp h]
          refine ⟨by rw [List.head?_reverse]; exact hl, steps_reverse _ path hst,
            fun x hx => hb x (List.mem_reverse.mp hx)⟩
      · omega
    · rw [if_neg hv]
      refine ⟨chains, rfl, ?_, hgood⟩
      intro i hi
      apply Classical.byContradiction
      intro hno
      have hiv : i ∉ visited := fun h => hno (hcov i h)
      have := length_lt_of_ssubset hnd (b := List.range n) (fun g hg => List.mem_range.mpr (hlt g hg))
        (List.mem_range.mpr hi) hiv
      rw [List.length_range] at this
      omega

end loops

theorem IsConceptList.exists_top {t : Table} {cs : Lat} (H : IsConceptList t cs) :
    ∃ k, k < cs.length ∧ top cs = .ok k ∧ extOf cs k = List.range t.height := by
  obtain ⟨k, hk, he, _⟩ := H.exists_idx (isConcept_of_attrs t (B := []) (fun _ h => by cases h))
  rw [extAll_nil] at he
  refine ⟨k, hk, ?_, he⟩
  apply PQ.top_eq_of_greatest H.isPO hk
  intro j hj
  rw [H.leq_iff hj k, he]
  intro g hg
  exact List.mem_range.mpr (H.ext_lt hj g hg)

/-- the inner-loop setup holds for the parents relation of a concept list, as soon as `iIsort` holds positions
    in the sorted listing -/
theorem chainSetup_of {t : Table} {cs : Lat} (H : IsConceptList t cs) {ord : List Nat → List Nat}
    (ho : PQ.IsOrder ord) {iIsort : List Nat}
    (hpos : ∀ i, i < cs.length → iIsort.getD i 0 < cs.length ∧
      conc (sortConcepts cs) (iIsort.getD i 0) = conc cs i)
    {k : Nat} (hk : k < cs.length) (hek : extOf cs k = List.range t.height) :
    ChainSetup (parents cs ord) iIsort cs.length k := by
  have Hs := H.sort
  have hp := sortConcepts_supports cs
  have hlen : (sortConcepts cs).length = cs.length := (sortConcepts_perm cs).length_eq
  have h0 : extOf (sortConcepts cs) 0 = List.range t.height := by
    rw [extOf_zero_of_head (head_of_sorted Hs hp)]; exact extAll_nil t
  have hmono : ∀ a b, a < b → b < cs.length →
      (extOf (sortConcepts cs) b).length ≤ (extOf (sortConcepts cs) a).length := by
    intro a b hab hb
    have := (List.pairwise_iff_getElem.mp hp) a b (by omega) (by omega) hab
    simpa [extOf, conc, List.getD_eq_getElem?_getD, List.getElem?_eq_getElem, hlen, hb,
      show a < cs.length by omega] using this
  have hext : ∀ i, i < cs.length → extOf (sortConcepts cs) (iIsort.getD i 0) = extOf cs i := by
    intro i hi; unfold extOf; rw [(hpos i hi).2]
  refine ⟨?_, ?_, ?_, fun i hi => (hpos i hi).1⟩
  · intro i hi _ p hpP
    obtain ⟨hpn, hle, hne⟩ := H.parents_lt ho hpP
    refine ⟨hpn, ?_⟩
    have hlt := H.ext_len_lt hi hpn hle (fun e => hne e.symm)
    rw [← hext i hi, ← hext p hpn] at hlt
    rcases Nat.lt_trichotomy (iIsort.getD p 0) (iIsort.getD i 0) with h | h | h
    · exact h
    · rw [h] at hlt; omega
    · have := hmono _ _ h (hpos p hpn).1; omega
  · intro i hi hne hnil
    have hik : i ≠ k := by
      intro e
      apply hne
      have : extOf (sortConcepts cs) (iIsort.getD i 0) = extOf (sortConcepts cs) 0 := by
        rw [hext i hi, e, hek, h0]
      exact Hs.ext_inj (by rw [hlen]; exact (hpos i hi).1) (by rw [hlen]; omega) this
    have hka : k ∈ ancestors cs i := by
      refine PQ.mem_ancestors.mpr ⟨hk, ?_, fun e => hik e.symm⟩
      rw [H.leq_iff hi k, hek]
      exact fun g hg => List.mem_range.mpr (H.ext_lt hi g hg)
    obtain ⟨j, hj, _⟩ := H.parent_below ho hka
    rw [hnil] at hj; cases hj
  · intro i hi hz
    apply H.ext_inj hi hk
    rw [← hext i hi, hz, h0, hek]

/-- `get_chains()` succeeds; every chain starts at the top and steps parent → child; the chains cover all -/
theorem chains_ok {t : Table} {cs : Lat} (H : IsConceptList t cs) {ord : List Nat → List Nat}
    (ho : PQ.IsOrder ord) :
    ∃ chs k, k < cs.length ∧ top cs = .ok k ∧ extOf cs k = List.range t.height ∧
      chains cs ord = .ok chs ∧ (∀ i, i < cs.length → ∃ ch ∈ chs, i ∈ ch) ∧
      ∀ ch ∈ chs, GoodChain (parents cs ord) cs.length k ch := by
  obtain ⟨k, hk, htop, hek⟩ := H.exists_top
  obtain ⟨isortI, iIsort, hmaps, hS, hI⟩ := chainMaps_ok H
  have hlen : (sortConcepts cs).length = cs.length := (sortConcepts_perm cs).length_eq
  have S : LoopSetup (parents cs ord) isortI iIsort cs.length k := by
    refine ⟨chainSetup_of H ho hI hk hek, ?_, ?_, fun s hs => (hS s hs).1⟩
    · intro i hi
      have h1 := hI i hi
      have h2 := hS _ h1.1
      exact (List.getD_inj h2.1 hi H.nodup).mp (h2.2.trans h1.2)
    · intro s hs
      have h1 := hS s hs
      have h2 := hI _ h1.1
      exact (List.getD_inj (by rw [hlen]; exact h2.1) (by rw [hlen]; exact hs) H.sort.nodup).mp
        (h2.2.trans h1.2)
  obtain ⟨chs, hok, hcov, hgood⟩ := chainsLoop_ok S (cs.length + 1) [] [] List.nodup_nil
    (fun x hx => by cases hx) (fun x hx => by cases hx) (fun ch hch => by cases hch) (by simp)
  refine ⟨chs, k, hk, htop, hek, ?_, hcov, hgood⟩
  unfold chains getChains
  rw [hmaps]
  exact hok

theorem steps_imp_mem {R R' : Nat → Nat → Prop} : ∀ (l : List Nat),
    (∀ x ∈ l, ∀ y ∈ l, R x y → R' x y) → Steps R l → Steps R' l
  | [], _, _ => trivial
  | x :: rest, h, hs => by
    refine ⟨fun y hy => ?_, steps_imp_mem rest
      (fun a ha b hb => h a (List.mem_cons_of_mem _ ha) b (List.mem_cons_of_mem _ hb)) hs.2⟩
    have hyr : y ∈ rest := by
      cases rest with
      | nil => cases hy
      | cons b r => simp only [List.head?_cons, Option.some.injEq] at hy; rw [← hy]; exact List.mem_cons_self
    exact h x List.mem_cons_self y (List.mem_cons_of_mem _ hyr) (hs.1 y hy)

theorem chainSteps_of_steps (exts : List (List Nat)) : ∀ (ch : List Nat),
    Steps (fun p c => c ∈ Spec.lowerCovers exts p) ch → Spec.chainSteps exts ch = true
  | [], _ => rfl
  | [_], _ => rfl
  | p :: c :: rest, hs => by
    unfold Spec.chainSteps
    rw [Bool.and_eq_true]
    refine ⟨?_, chainSteps_of_steps exts (c :: rest) hs.2⟩
    have := hs.1 c rfl
    simpa using this

end Fca.LQ

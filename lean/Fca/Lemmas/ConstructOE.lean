/-
  Fca.Lemmas.ConstructOE — `order_extents_comparison`: translating the cover relation of the
  topologically sorted copy back through `topo_to_id_map` gives the cover relation of the original list
  (the cover relation is equivariant under re-listing).
-/
import Fca.Lemmas.ConstructBasic
namespace Fca.Construct
open Fca.Spec

/-- facts about a permutation `idToTopo` of `range n` and its inverse `t ↦ idToTopo.idxOf t` -/
structure PermOK (n : Nat) (idToTopo : List Nat) : Prop where
  perm : idToTopo.Perm (List.range n)

namespace PermOK
variable {n : Nat} {p : List Nat}

theorem length (h : PermOK n p) : p.length = n := by simpa using h.perm.length_eq
theorem nodup (h : PermOK n p) : p.Nodup := h.perm.nodup_iff.mpr List.nodup_range
theorem mem_iff (h : PermOK n p) {t : Nat} : t ∈ p ↔ t < n := by rw [h.perm.mem_iff, List.mem_range]

/-- `σ t = idxOf t` is a valid index -/
theorem inv_lt (h : PermOK n p) {t : Nat} (ht : t < n) : p.idxOf t < n := by
  rw [← h.length]; exact List.idxOf_lt_length_of_mem (h.mem_iff.mpr ht)

/-- `τ (σ t) = t` -/
theorem get_inv (h : PermOK n p) {t : Nat} (ht : t < n) : p.getD (p.idxOf t) 0 = t := by
  have hl : p.idxOf t < p.length := List.idxOf_lt_length_of_mem (h.mem_iff.mpr ht)
  rw [List.getD_eq_getElem?_getD, List.getElem?_eq_getElem hl]
  simp only [Option.getD_some]
  exact List.getElem_idxOf hl

theorem get_lt (h : PermOK n p) {i : Nat} (hi : i < n) : p.getD i 0 < n := by
  apply h.mem_iff.mp
  rw [List.getD_eq_getElem?_getD, List.getElem?_eq_getElem (by rw [h.length]; exact hi)]
  exact List.getElem_mem _

/-- `σ (τ i) = i` -/
theorem inv_get (h : PermOK n p) {i : Nat} (hi : i < n) : p.idxOf (p.getD i 0) = i := by
  have hl : i < p.length := by rw [h.length]; exact hi
  rw [List.getD_eq_getElem?_getD, List.getElem?_eq_getElem hl]
  exact h.nodup.idxOf_getElem i hl

theorem inv_inj (h : PermOK n p) {s t : Nat} (hs : s < n) (ht : t < n) (e : p.idxOf s = p.idxOf t) :
    s = t := by
  rw [← h.get_inv hs, ← h.get_inv ht, e]

end PermOK

theorem lookup_map_of_unique {σ : Nat → Nat} {f : Nat → List Nat} {i t0 : Nat} :
    ∀ l : List Nat, t0 ∈ l → σ t0 = i → (∀ t ∈ l, σ t = i → t = t0) →
      (l.map fun t => (σ t, f t)).lookup i = some (f t0) := by
  intro l
  induction l with
  | nil => intro h; cases h
  | cons y ys ih =>
    intro hmem hσ huniq
    simp only [List.map_cons, List.lookup_cons]
    by_cases hy : σ y = i
    · have : y = t0 := huniq y (List.mem_cons_self ..) hy
      subst this
      simp [hy]
    · have hne : (i == σ y) = false := by simpa using (fun e => hy e.symm)
      rw [hne]
      have hm : t0 ∈ ys := by
        rcases List.mem_cons.mp hmem with e | hm
        · subst e; exact absurd hσ hy
        · exact hm
      exact ih hm hσ (fun t ht => huniq t (List.mem_cons_of_mem _ ht))

/-- the re-listed extents -/
def topoList (cs : List Ext) (idToTopo : List Nat) : List Ext :=
  (List.range cs.length).map fun t => cs.getD (idToTopo.idxOf t) []

theorem ssubAt_topoList (cs : List Ext) {p : List Nat} {s t : Nat} (hs : s < cs.length) (ht : t < cs.length) :
    ssubAt (topoList cs p) s t = ssubAt cs (p.idxOf s) (p.idxOf t) := by
  unfold ssubAt topoList
  simp [List.getD_eq_getElem?_getD, hs, ht]

theorem orderExtents_covers (cs : List Ext) (p : List Nat) (hp : PermOK cs.length p) {i : Nat}
    (hi : i < cs.length) :
    (dictGet (orderExtentsComparison cs.length p (Spec.covers (topoList cs p))) i).Nodup ∧
    SameSetC (dictGet (orderExtentsComparison cs.length p (Spec.covers (topoList cs p))) i)
      (Spec.covers cs i) := by
  have hτ := hp.get_lt hi
  have hlook : (orderExtentsComparison cs.length p (Spec.covers (topoList cs p))).lookup i
      = some ((Spec.covers (topoList cs p) (p.getD i 0)).map fun t => p.idxOf t) := by
    unfold orderExtentsComparison
    apply lookup_map_of_unique (σ := fun t => p.idxOf t)
      (f := fun t => (Spec.covers (topoList cs p) t).map fun t => p.idxOf t)
    · exact List.mem_range.mpr hτ
    · exact hp.inv_get hi
    · intro t ht e
      have ht' := List.mem_range.mp ht
      have : p.idxOf t = p.idxOf (p.getD i 0) := by rw [e, hp.inv_get hi]
      exact hp.inv_inj ht' hτ this
  have hlenT : (topoList cs p).length = cs.length := by simp [topoList]
  unfold dictGet
  rw [hlook]
  simp only [Option.getD_some]
  have hmemT : ∀ s, s ∈ Spec.covers (topoList cs p) (p.getD i 0) ↔
      s < cs.length ∧ ssubAt cs (p.idxOf s) i = true ∧
        ∀ k, k < cs.length → ssubAt cs (p.idxOf s) (p.idxOf k) = true → ssubAt cs (p.idxOf k) i = false := by
    intro s
    unfold Spec.covers
    rw [mem_coversBy, hlenT]
    constructor
    · rintro ⟨h1, h2, h3⟩
      rw [ssubAt_topoList cs h1 hτ, hp.inv_get hi] at h2
      refine ⟨h1, h2, fun k hk hsk => ?_⟩
      have := h3 k hk (by rw [ssubAt_topoList cs h1 hk]; exact hsk)
      rw [ssubAt_topoList cs hk hτ, hp.inv_get hi] at this
      exact this
    · rintro ⟨h1, h2, h3⟩
      refine ⟨h1, by rw [ssubAt_topoList cs h1 hτ, hp.inv_get hi]; exact h2, fun k hk hsk => ?_⟩
      rw [ssubAt_topoList cs h1 hk] at hsk
      rw [ssubAt_topoList cs hk hτ, hp.inv_get hi]
      exact h3 k hk hsk
  constructor
  · -- injective image of a duplicate-free list
    have hnd : (Spec.covers (topoList cs p) (p.getD i 0)).Nodup := nodup_coversBy
    unfold List.Nodup
    rw [List.pairwise_map]
    apply List.Pairwise.imp_of_mem _ hnd
    intro a b ha hb hab e
    exact hab (hp.inv_inj ((hmemT a).mp ha).1 ((hmemT b).mp hb).1 e)
  · intro x
    rw [List.mem_map]
    unfold Spec.covers
    rw [mem_coversBy]
    constructor
    · rintro ⟨s, hs, rfl⟩
      obtain ⟨h1, h2, h3⟩ := (hmemT s).mp hs
      refine ⟨hp.inv_lt h1, h2, fun k hk hsk => ?_⟩
      have hk' := hp.get_lt hk
      have := h3 (p.getD k 0) hk' (by rw [hp.inv_get hk]; exact hsk)
      rw [hp.inv_get hk] at this; exact this
    · rintro ⟨h1, h2, h3⟩
      refine ⟨p.getD x 0, (hmemT _).mpr ⟨hp.get_lt h1, ?_, ?_⟩, hp.inv_get h1⟩
      · rw [hp.inv_get h1]; exact h2
      · intro k hk hsk
        rw [hp.inv_get h1] at hsk
        exact h3 _ (hp.inv_lt hk) hsk

/-- every index is a key of the returned dictionary -/
theorem orderExtents_keys (cs : List Ext) (p : List Nat) (hp : PermOK cs.length p)
    (cov : Nat → List Nat) :
    ((orderExtentsComparison cs.length p cov).map (·.1)).Perm (List.range cs.length) := by
  unfold orderExtentsComparison
  simp only [List.map_map]
  have : (List.map ((fun x => x.1) ∘ fun iTopo => (p.idxOf iTopo, (cov iTopo).map fun t => p.idxOf t))
      (List.range cs.length)) = (List.range cs.length).map fun t => p.idxOf t := by
    apply List.map_congr_left; intro a _; rfl
  rw [this]
  -- a duplicate-free list of `n` indexes below `n`
  have hnd : ((List.range cs.length).map fun t => p.idxOf t).Nodup := by
    unfold List.Nodup
    rw [List.pairwise_map]
    apply List.Pairwise.imp_of_mem _ (List.nodup_range (n := cs.length))
    intro a b ha hb hab e
    exact hab (hp.inv_inj (List.mem_range.mp ha) (List.mem_range.mp hb) e)
  have hsub : ∀ x ∈ ((List.range cs.length).map fun t => p.idxOf t), x ∈ List.range cs.length := by
    intro x hx
    obtain ⟨t, ht, rfl⟩ := List.mem_map.mp hx
    exact List.mem_range.mpr (hp.inv_lt (List.mem_range.mp ht))
  have hback := nodup_subset_of_length_le hnd hsub (by simp)
  rw [List.perm_ext_iff_of_nodup hnd List.nodup_range]
  intro x
  exact ⟨hsub x, hback x⟩

end Fca.Construct

/-
  Fca.Lemmas.ConstructBasic — set-as-list algebra of `Model/Construct`, the concept comparison
  `ltC` = strict inclusion on duplicate-free extents, and the order facts shared by all C12 proofs.
-/
import Fca.Model.Construct
import Fca.Spec.Covers
namespace Fca.Construct
open Fca.Spec

/-! ### sets as lists -/

theorem mem_addSet {s : List Nat} {x y : Nat} : x ∈ addSet s y ↔ x ∈ s ∨ x = y := by
  unfold addSet
  split
  · rename_i h
    simp only [List.contains_eq_mem, decide_eq_true_eq] at h
    constructor
    · exact Or.inl
    · rintro (h1 | rfl) <;> assumption
  · simp

theorem nodup_addSet {s : List Nat} {y : Nat} (h : s.Nodup) : (addSet s y).Nodup := by
  unfold addSet
  split
  · exact h
  · rename_i hc
    simp only [List.contains_eq_mem, decide_eq_true_eq] at hc
    rw [List.nodup_append]
    refine ⟨h, by simp, ?_⟩
    intro a ha b hb
    simp only [List.mem_singleton] at hb
    subst hb
    intro hab; subst hab; exact hc ha

theorem length_addSet_le {s : List Nat} {y : Nat} : s.length ≤ (addSet s y).length := by
  unfold addSet; split <;> simp

theorem length_addSet_of_not_mem {s : List Nat} {y : Nat} (h : y ∉ s) :
    (addSet s y).length = s.length + 1 := by
  unfold addSet
  rw [if_neg (by simpa using h)]; simp

theorem mem_union {s t : List Nat} {x : Nat} : x ∈ union s t ↔ x ∈ s ∨ x ∈ t := by
  unfold union
  induction t generalizing s with
  | nil => simp
  | cons y ys ih =>
    simp only [List.foldl_cons, List.mem_cons]
    rw [ih, mem_addSet]
    constructor
    · rintro ((h | h) | h)
      · exact Or.inl h
      · exact Or.inr (Or.inl h)
      · exact Or.inr (Or.inr h)
    · rintro (h | h | h)
      · exact Or.inl (Or.inl h)
      · exact Or.inl (Or.inr h)
      · exact Or.inr h

theorem nodup_union {s t : List Nat} (h : s.Nodup) : (union s t).Nodup := by
  unfold union
  induction t generalizing s with
  | nil => simpa
  | cons y ys ih => exact ih (nodup_addSet h)

theorem length_union_le {s t : List Nat} : s.length ≤ (union s t).length := by
  unfold union
  induction t generalizing s with
  | nil => simp
  | cons y ys ih => exact Nat.le_trans length_addSet_le ih

theorem length_union_lt {s t : List Nat} {y : Nat} (hy : y ∈ t) (hn : y ∉ s) :
    s.length < (union s t).length := by
  unfold union
  induction t generalizing s with
  | nil => cases hy
  | cons z zs ih =>
    simp only [List.foldl_cons]
    by_cases hz : y = z
    · subst hz
      have h1 := length_addSet_of_not_mem hn
      have h2 := @length_union_le (addSet s y) zs
      unfold union at h2
      omega
    · have hy' : y ∈ zs := by
        rcases List.mem_cons.mp hy with h | h
        · exact absurd h hz
        · exact h
      have hn' : y ∉ addSet s z := by
        rw [mem_addSet]; rintro (h | h)
        · exact hn h
        · exact hz h
      have := ih hy' hn'
      have h2 := @length_addSet_le s z
      omega

theorem mem_diff {s t : List Nat} {x : Nat} : x ∈ diff s t ↔ x ∈ s ∧ x ∉ t := by
  simp [diff]

theorem nodup_diff {s t : List Nat} (h : s.Nodup) : (diff s t).Nodup := by
  unfold diff; exact h.filter _

/-! ### dictionaries as lists of sets -/

theorem getD_set_self {D : List (List Nat)} {k : Nat} {v : List Nat} (hk : k < D.length) :
    (D.set k v).getD k [] = v := by
  simp [List.getD_eq_getElem?_getD, hk]

theorem getD_set_ne {D : List (List Nat)} {k i : Nat} {v : List Nat} (h : i ≠ k) :
    (D.set k v).getD i [] = D.getD i [] := by
  simp only [List.getD_eq_getElem?_getD]
  rw [List.getElem?_set_ne (Ne.symm h)]

theorem set_getD_self {D : List (List Nat)} {k : Nat} (hk : k < D.length) :
    D.set k (D.getD k []) = D := by
  apply List.ext_getElem
  · simp
  · intro i h1 h2
    by_cases hik : i = k
    · subst hik; simp [List.getD_eq_getElem?_getD, List.getElem?_eq_getElem hk]
    · simp [Ne.symm hik]

/-! ### stable insertion sort -/

theorem mem_insertBy {le : Nat → Nat → Bool} {x y : Nat} {l : List Nat} :
    y ∈ insertBy le x l ↔ y = x ∨ y ∈ l := by
  induction l with
  | nil => simp [insertBy]
  | cons z zs ih =>
    unfold insertBy
    split
    · simp
    · simp only [List.mem_cons, ih]
      constructor
      · rintro (h | h | h)
        · exact Or.inr (Or.inl h)
        · exact Or.inl h
        · exact Or.inr (Or.inr h)
      · rintro (h | h | h)
        · exact Or.inr (Or.inl h)
        · exact Or.inl h
        · exact Or.inr (Or.inr h)

theorem perm_insertBy (le : Nat → Nat → Bool) (x : Nat) (l : List Nat) :
    (insertBy le x l).Perm (x :: l) := by
  induction l with
  | nil => simp [insertBy]
  | cons z zs ih =>
    unfold insertBy
    split
    · exact List.Perm.refl _
    · exact (List.Perm.cons z ih).trans (List.Perm.swap x z zs)

theorem perm_sortBy (le : Nat → Nat → Bool) (l : List Nat) : (sortBy le l).Perm l := by
  unfold sortBy
  induction l with
  | nil => exact List.Perm.refl _
  | cons x xs ih =>
    simp only [List.foldr_cons]
    exact (perm_insertBy le x _).trans (List.Perm.cons x ih)

theorem mem_sortBy {le : Nat → Nat → Bool} {l : List Nat} {y : Nat} : y ∈ sortBy le l ↔ y ∈ l :=
  (perm_sortBy le l).mem_iff

theorem mem_sortAsc {l : List Nat} {y : Nat} : y ∈ sortAsc l ↔ y ∈ l := mem_sortBy

theorem nodup_sortBy {le : Nat → Nat → Bool} {l : List Nat} (h : l.Nodup) : (sortBy le l).Nodup :=
  (perm_sortBy le l).nodup_iff.mpr h

theorem length_sortBy {le : Nat → Nat → Bool} {l : List Nat} : (sortBy le l).length = l.length :=
  (perm_sortBy le l).length_eq

/-- insertion keeps a list sorted w.r.t. any relation `R` that the comparison `le` decides
    "one way": `le x y → R x y` and `¬ le x y → R y x`, `R` transitive. -/
theorem pairwise_insertBy {le : Nat → Nat → Bool} {R : Nat → Nat → Prop}
    (h1 : ∀ x y, le x y = true → R x y) (h2 : ∀ x y, le x y = false → R y x)
    (htr : ∀ x y z, R x y → R y z → R x z) {x : Nat} {l : List Nat} (hl : l.Pairwise R) :
    (insertBy le x l).Pairwise R := by
  induction l with
  | nil => simp [insertBy]
  | cons z zs ih =>
    unfold insertBy
    split
    · rename_i hle
      rw [List.pairwise_cons]
      refine ⟨?_, hl⟩
      intro a ha
      rcases List.mem_cons.mp ha with rfl | ha
      · exact h1 _ _ hle
      · exact htr _ _ _ (h1 _ _ hle) (List.rel_of_pairwise_cons hl ha)
    · rename_i hle
      have hle' : le x z = false := by simpa using hle
      rw [List.pairwise_cons]
      refine ⟨?_, ih hl.of_cons⟩
      intro a ha
      rcases mem_insertBy.mp ha with rfl | ha
      · exact h2 _ _ hle'
      · exact List.rel_of_pairwise_cons hl ha

theorem pairwise_sortBy {le : Nat → Nat → Bool} {R : Nat → Nat → Prop}
    (h1 : ∀ x y, le x y = true → R x y) (h2 : ∀ x y, le x y = false → R y x)
    (htr : ∀ x y z, R x y → R y z → R x z) (l : List Nat) : (sortBy le l).Pairwise R := by
  unfold sortBy
  induction l with
  | nil => simp
  | cons x xs ih => exact pairwise_insertBy h1 h2 htr ih

/-! ### concept comparison = strict inclusion -/

theorem sub_iff {a b : List Nat} : sub a b = true ↔ ∀ x ∈ a, x ∈ b := by
  simp [sub]

theorem nodup_subset_of_length_le {a b : List Nat} (ha : a.Nodup) (hab : ∀ x ∈ a, x ∈ b)
    (hlen : b.length ≤ a.length) : ∀ x ∈ b, x ∈ a := by
  intro x hx
  apply Classical.byContradiction
  intro hxa
  have hnd : (x :: a).Nodup := List.nodup_cons.mpr ⟨hxa, ha⟩
  have hsub : (x :: a) ⊆ b := by
    intro y hy
    rcases List.mem_cons.mp hy with rfl | hy
    · exact hx
    · exact hab y hy
  have := hnd.length_le_of_subset hsub
  simp only [List.length_cons] at this
  omega

theorem ltC_eq_ssub {a b : List Nat} (ha : a.Nodup) (hb : b.Nodup) : ltC a b = ssub a b := by
  unfold ltC leC ssub
  by_cases h1 : a.length = b.length
  · simp only [h1, beq_self_eq_true, if_true]
    symm
    rw [Bool.and_eq_false_iff]
    by_cases hs : sub a b = true
    · right
      have := nodup_subset_of_length_le ha (sub_iff.mp hs) (by omega)
      simp [sub_iff.mpr this]
    · left; simpa using hs
  · have hbeq : (a.length == b.length) = false := by simpa using h1
    simp only [hbeq, Bool.false_eq_true, if_false]
    by_cases h2 : a.length > b.length
    · simp only [h2, if_true]
      symm
      rw [Bool.and_eq_false_iff]
      left
      apply Bool.eq_false_iff.mpr
      intro hs
      have := ha.length_le_of_subset (fun x hx => sub_iff.mp hs x hx)
      omega
    · simp only [h2, if_false]
      have hns : sub b a = false := by
        apply Bool.eq_false_iff.mpr
        intro hs
        have := hb.length_le_of_subset (fun x hx => sub_iff.mp hs x hx)
        omega
      rw [hns]; simp [sub]

theorem ltC_length {a b : List Nat} (h : ltC a b = true) : a.length < b.length := by
  unfold ltC leC at h
  by_cases h1 : a.length = b.length
  · simp [h1] at h
  · by_cases h2 : a.length > b.length
    · simp [h2] at h
    · omega

/-- all listed extents are duplicate-free -/
def ExtsNodup (cs : List Ext) : Prop := ∀ e ∈ cs, e.Nodup

instance (cs : List Ext) : Decidable (ExtsNodup cs) := by unfold ExtsNodup; infer_instance

theorem nodup_getD {cs : List Ext} (h : ExtsNodup cs) (i : Nat) : (cs.getD i []).Nodup := by
  rw [List.getD_eq_getElem?_getD]
  cases hi : cs[i]? with
  | none => simp
  | some e => exact h e (List.mem_of_getElem? hi)

theorem ltAt_eq_ssubAt {cs : List Ext} (h : ExtsNodup cs) : ltAt cs = ssubAt cs := by
  funext i j
  exact ltC_eq_ssub (nodup_getD h i) (nodup_getD h j)

theorem ssub_trans {a b c : List Nat} (h1 : ssub a b = true) (h2 : ssub b c = true) :
    ssub a c = true := by
  simp only [ssub, Bool.and_eq_true, Bool.not_eq_true', sub_iff] at *
  refine ⟨fun x hx => h2.1 x (h1.1 x hx), ?_⟩
  apply Bool.eq_false_iff.mpr
  intro hca
  rw [sub_iff] at hca
  have : sub b a = true := sub_iff.mpr (fun x hx => hca x (h2.1 x hx))
  rw [h1.2] at this; cases this

/-! ### generic order facts -/

/-- what the generic models need of `lt i j` (= `concepts[i] < concepts[j]`) -/
structure StrictOrd (lt : Nat → Nat → Bool) (rank : Nat → Nat) : Prop where
  trans : ∀ i j k, lt i j = true → lt j k = true → lt i k = true
  rank_lt : ∀ i j, lt i j = true → rank i < rank j

theorem StrictOrd.irrefl {lt rank} (h : StrictOrd lt rank) (i : Nat) : lt i i = false := by
  apply Bool.eq_false_iff.mpr
  intro hi
  have := h.rank_lt i i hi
  omega

theorem StrictOrd.asymm {lt rank} (h : StrictOrd lt rank) {i j : Nat} (hij : lt i j = true) :
    lt j i = false := by
  apply Bool.eq_false_iff.mpr
  intro hji
  have := h.rank_lt i j hij
  have := h.rank_lt j i hji
  omega

theorem strictOrd_ltAt (cs : List Ext) (h : ExtsNodup cs) : StrictOrd (ltAt cs) (suppAt cs) where
  trans := by
    intro i j k h1 h2
    rw [ltAt_eq_ssubAt h] at *
    exact ssub_trans h1 h2
  rank_lt := by
    intro i j hij
    exact ltC_length hij

theorem mem_coversBy {n : Nat} {lt : Nat → Nat → Bool} {i j : Nat} :
    j ∈ coversBy n lt i ↔ j < n ∧ lt j i = true ∧ ∀ k, k < n → lt j k = true → lt k i = false := by
  simp only [coversBy, List.mem_filter, List.mem_range, Bool.and_eq_true, Bool.not_eq_true',
    List.any_eq_false, Bool.and_eq_true, not_and, Bool.not_eq_true]

theorem mem_upperCoversBy {n : Nat} {lt : Nat → Nat → Bool} {i j : Nat} :
    j ∈ upperCoversBy n lt i ↔ j < n ∧ lt i j = true ∧ ∀ k, k < n → lt i k = true → lt k j = false := by
  simp only [upperCoversBy, List.mem_filter, List.mem_range, Bool.and_eq_true, Bool.not_eq_true',
    List.any_eq_false, Bool.and_eq_true, not_and, Bool.not_eq_true]

theorem nodup_coversBy {n : Nat} {lt : Nat → Nat → Bool} {i : Nat} : (coversBy n lt i).Nodup := by
  unfold coversBy; exact (List.nodup_range).filter _

theorem nodup_upperCoversBy {n : Nat} {lt : Nat → Nat → Bool} {i : Nat} :
    (upperCoversBy n lt i).Nodup := by
  unfold upperCoversBy; exact (List.nodup_range).filter _

/-- below every `a`, every strictly smaller `x` sits under a lower cover's … upper neighbour:
    if `x < k < a` then some `b < a` has `x` as a lower cover. -/
theorem exists_cover_above {n : Nat} {lt : Nat → Nat → Bool} {rank : Nat → Nat} (h : StrictOrd lt rank)
    {x a : Nat} (hx : x < n) :
    ∀ k, k < n → lt x k = true → lt k a = true →
      ∃ b, b < n ∧ lt b a = true ∧ x ∈ coversBy n lt b := by
  intro k
  induction hr : rank k using Nat.strongRecOn generalizing k with
  | _ r ih =>
    intro hk hxk hka
    by_cases hex : ∃ m, m < n ∧ lt x m = true ∧ lt m k = true
    · obtain ⟨m, hm, hxm, hmk⟩ := hex
      have hrm := h.rank_lt m k hmk
      exact ih (rank m) (by omega) m rfl hm hxm (h.trans _ _ _ hmk hka)
    · refine ⟨k, hk, hka, mem_coversBy.mpr ⟨hx, hxk, ?_⟩⟩
      intro m hm hxm
      apply Bool.eq_false_iff.mpr
      intro hmk
      exact hex ⟨m, hm, hxm, hmk⟩

/-- dual: if `x < k < a` then some lower cover `b` of `a` has `x < b` -/
theorem exists_cover_below {n : Nat} {lt : Nat → Nat → Bool} {rank : Nat → Nat} (h : StrictOrd lt rank)
    {x a : Nat} :
    ∀ k, k < n → lt x k = true → lt k a = true →
      ∃ b, b ∈ coversBy n lt a ∧ (b = k ∨ lt k b = true) := by
  intro k
  induction hr : rank a - rank k using Nat.strongRecOn generalizing k with
  | _ r ih =>
    intro hk hxk hka
    by_cases hex : ∃ m, m < n ∧ lt k m = true ∧ lt m a = true
    · obtain ⟨m, hm, hkm, hma⟩ := hex
      have h1 := h.rank_lt k m hkm
      have h2 := h.rank_lt m a hma
      obtain ⟨b, hb, hb2⟩ := ih (rank a - rank m) (by omega) m rfl hm (h.trans _ _ _ hxk hkm) hma
      refine ⟨b, hb, Or.inr ?_⟩
      rcases hb2 with rfl | hb2
      · exact hkm
      · exact h.trans _ _ _ hkm hb2
    · refine ⟨k, mem_coversBy.mpr ⟨hk, hka, ?_⟩, Or.inl rfl⟩
      intro m hm hkm
      apply Bool.eq_false_iff.mpr
      intro hma
      exact hex ⟨m, hm, hkm, hma⟩

/-! ### returned dictionaries -/

/-- a children dictionary `{i: set}` is the (lower) cover relation of the list -/
def IsCoverDict (cs : List Ext) (out : List (List Nat)) : Prop :=
  out.length = cs.length ∧
  ∀ i, i < cs.length → (out.getD i []).Nodup ∧ SameSetC (out.getD i []) (Spec.covers cs i)

/-- a parents dictionary is the upper cover relation of the list -/
def IsUpperCoverDict (cs : List Ext) (out : List (List Nat)) : Prop :=
  out.length = cs.length ∧
  ∀ i, i < cs.length → (out.getD i []).Nodup ∧ SameSetC (out.getD i []) (Spec.upperCoversC cs i)

theorem isCoverDict_of_eq {cs : List Ext} {out : List (List Nat)} (h : out = coversDict cs) :
    IsCoverDict cs out := by
  subst h
  refine ⟨by simp [coversDict], fun i hi => ?_⟩
  have : (coversDict cs).getD i [] = Spec.covers cs i := by
    simp [coversDict, List.getD_eq_getElem?_getD, hi]
  rw [this]
  exact ⟨nodup_coversBy, fun _ => Iff.rfl⟩

theorem isUpperCoverDict_of_eq {cs : List Ext} {out : List (List Nat)} (h : out = upperCoversDict cs) :
    IsUpperCoverDict cs out := by
  subst h
  refine ⟨by simp [upperCoversDict], fun i hi => ?_⟩
  have : (upperCoversDict cs).getD i [] = Spec.upperCoversC cs i := by
    simp [upperCoversDict, List.getD_eq_getElem?_getD, hi]
  rw [this]
  exact ⟨nodup_upperCoversBy, fun _ => Iff.rfl⟩

theorem isTop_of_B {cs : List Ext} {t : Nat} (h : isTopB cs t = true) : IsTop cs t := by
  simp only [isTopB, Bool.and_eq_true, decide_eq_true_eq, List.all_eq_true, List.mem_range,
    Bool.or_eq_true, beq_iff_eq] at h
  refine ⟨h.1, fun j hj hne => ?_⟩
  rcases h.2 j hj with e | e
  · exact absurd e hne
  · exact e

theorem isBottom_of_B {cs : List Ext} {b : Nat} (h : isBottomB cs b = true) : IsBottom cs b := by
  simp only [isBottomB, Bool.and_eq_true, decide_eq_true_eq, List.all_eq_true, List.mem_range,
    Bool.or_eq_true, beq_iff_eq] at h
  refine ⟨h.1, fun j hj hne => ?_⟩
  rcases h.2 j hj with e | e
  · exact absurd e hne
  · exact e

/-- the reversed relation -/
def flipR (L : Nat → Nat → Bool) : Nat → Nat → Bool := fun i j => L j i

theorem mem_coversBy_flip {m : Nat} {L : Nat → Nat → Bool} {i x : Nat} :
    x ∈ coversBy m (flipR L) i ↔ x ∈ upperCoversBy m L i := by
  rw [mem_coversBy, mem_upperCoversBy]
  unfold flipR
  constructor
  · rintro ⟨h1, h2, h3⟩
    refine ⟨h1, h2, fun k hk hik => ?_⟩
    apply Bool.eq_false_iff.mpr
    intro hkx
    have := h3 k hk hkx
    rw [hik] at this; cases this
  · rintro ⟨h1, h2, h3⟩
    refine ⟨h1, h2, fun k hk hkx => ?_⟩
    apply Bool.eq_false_iff.mpr
    intro hik
    have := h3 k hk hik
    rw [hkx] at this; cases this

theorem mem_upperCoversBy_flip {m : Nat} {L : Nat → Nat → Bool} {i x : Nat} :
    x ∈ upperCoversBy m (flipR L) i ↔ x ∈ coversBy m L i := by
  have := @mem_coversBy_flip m (flipR L) i x
  exact this.symm

theorem strictOrd_flip {L : Nat → Nat → Bool} {rk : Nat → Nat} (h : StrictOrd L rk) (W : Nat)
    (hW : ∀ i, rk i < W) : StrictOrd (flipR L) (fun i => W - rk i) where
  trans := by intro i j k h1 h2; exact h.trans k j i h2 h1
  rank_lt := by
    intro i j hij
    have := h.rank_lt j i hij
    have := hW i
    omega

/-- a non-member of the upper covers that is above `i` has something in between -/
theorem exists_between_of_not_upper {m : Nat} {L : Nat → Nat → Bool} {i c : Nat} (hc : c < m)
    (hic : L i c = true) (hn : c ∉ upperCoversBy m L i) :
    ∃ k, k < m ∧ L i k = true ∧ L k c = true := by
  apply Classical.byContradiction
  intro hex
  apply hn
  refine mem_upperCoversBy.mpr ⟨hc, hic, fun k hk hik => ?_⟩
  apply Bool.eq_false_iff.mpr
  intro hkc
  exact hex ⟨k, hk, hik, hkc⟩

end Fca.Construct

/-
  Lemmas/SemiLatticeSpec — order-theoretic facts behind C11 (no state machine here):
  the greatest / least element of a finite partial order, its relation with the list of maximal / minimal
  elements (`Fresh.extremes`, what `POSet.tops / bottoms` compute), and how it moves when an element is appended
  or erased.
-/
import Fca.Lemmas.PosetDel2
import Fca.Lemmas.PosetStep
import Fca.Spec.SemiLattice
set_option linter.unusedSectionVars false
namespace Fca.SemiLattice
open Fca Fca.Poset Fca.Poset.Fresh Fca.SemiLattice.Spec

section
variable {α : Type} [DecidableEq α] {leq : α → α → Bool} {E : List α}

theorem isExt_iff {d : Dir} {t : Nat} :
    isExt leq d E t = true ↔ t < E.length ∧ ∀ i, i < E.length → relD leq d E t i = true := by
  unfold isExt
  simp only [Bool.and_eq_true, decide_eq_true_eq, List.all_eq_true, List.mem_range]

theorem isExt_unique (hpo : IdxPO leq E) {d : Dir} {t t' : Nat} (h : isExt leq d E t = true)
    (h' : isExt leq d E t' = true) : t = t' := by
  rw [isExt_iff] at h h'
  exact relD_antisymm hpo d (h.2 t' h'.1) (h'.2 t h.1)

theorem greatest_eq_some_iff (hpo : IdxPO leq E) {d : Dir} {t : Nat} :
    greatest leq d E = some t ↔ isExt leq d E t = true := by
  unfold greatest
  constructor
  · intro h; exact List.find?_some h
  · intro h
    have hmem : t ∈ List.range E.length := List.mem_range.mpr (isExt_iff.mp h).1
    cases hf : (List.range E.length).find? (isExt leq d E) with
    | none =>
      rw [List.find?_eq_none] at hf
      exact absurd h (hf t hmem)
    | some t' =>
      rw [isExt_unique hpo (List.find?_some hf) h]

theorem greatest_eq_none_iff {d : Dir} :
    greatest leq d E = none ↔ ∀ t, isExt leq d E t = false := by
  unfold greatest
  rw [List.find?_eq_none]
  constructor
  · intro h t
    by_cases ht : t < E.length
    · simpa using h t (List.mem_range.mpr ht)
    · cases hx : isExt leq d E t
      · rfl
      · exact absurd (isExt_iff.mp hx).1 ht
  · intro h t _; simp [h t]

/-- a duplicate-free list whose only possible member is `t`, and which contains `t`, is `[t]` -/
theorem eq_singleton_of_mem {l : List Nat} {t : Nat} (hnd : l.Nodup) (ht : t ∈ l) (hall : ∀ x ∈ l, x = t) :
    l = [t] := by
  have hp : l.Perm [t] := by
    apply (List.perm_ext_iff_of_nodup hnd (by simp)).mpr
    intro x
    constructor
    · intro hx; simp [hall x hx]
    · intro hx; simp at hx; subst hx; exact ht
  exact List.perm_singleton.mp hp

theorem mem_extremes {d : Dir} {i : Nat} :
    i ∈ extremes leq d E ↔ i < E.length ∧ ∀ x, ltD leq d E x i = false := by
  unfold extremes
  simp only [List.mem_filter, List.mem_range, List.isEmpty_iff]
  constructor
  · rintro ⟨hi, he⟩
    refine ⟨hi, fun x => ?_⟩
    cases hx : ltD leq d E x i
    · rfl
    · have : x ∈ closed leq d E i := mem_closed.mpr hx
      rw [he] at this; cases this
  · rintro ⟨hi, he⟩
    refine ⟨hi, List.eq_nil_iff_forall_not_mem.mpr fun x hx => ?_⟩
    have := mem_closed.mp hx
    rw [he x] at this; cases this

theorem nodup_extremes (d : Dir) : (extremes leq d E).Nodup :=
  (pairwise_lt_filter_range _ _).imp (fun h => Nat.ne_of_lt h)

/-- the greatest (least) element is the only maximal (minimal) one -/
theorem extremes_of_isExt (hpo : IdxPO leq E) {d : Dir} {t : Nat} (h : isExt leq d E t = true) :
    extremes leq d E = [t] := by
  obtain ⟨ht, hall⟩ := isExt_iff.mp h
  apply eq_singleton_of_mem (nodup_extremes d)
  · rw [mem_extremes]
    refine ⟨ht, fun x => ?_⟩
    cases hx : ltD leq d E x t
    · rfl
    · obtain ⟨h1, h2⟩ := ltD_iff.mp hx
      exact absurd (relD_antisymm hpo d h1 (hall x (relD_lt h1).1)) h2
  · intro m hm
    obtain ⟨hml, hmx⟩ := mem_extremes.mp hm
    by_cases hne : m = t
    · exact hne
    · have : ltD leq d E t m = true := ltD_iff.mpr ⟨hall m hml, fun e => hne e.symm⟩
      rw [hmx t] at this; cases this

/-- in a finite partial order a unique maximal (minimal) element is the greatest (least) one -/
theorem isExt_of_extremes (hpo : IdxPO leq E) {d : Dir} {t : Nat} (h : extremes leq d E = [t]) :
    isExt leq d E t = true := by
  have ht : t ∈ extremes leq d E := by rw [h]; simp
  rw [isExt_iff]
  refine ⟨(mem_extremes.mp ht).1, fun i hi => ?_⟩
  obtain ⟨m, hm, him, hmax⟩ := exists_maximal hpo d.flip (List.range E.length)
    (fun y hy => List.mem_range.mp hy) i (List.mem_range.mpr hi)
  have hmext : m ∈ extremes leq d E := by
    rw [mem_extremes]
    refine ⟨List.mem_range.mp hm, fun x => ?_⟩
    cases hx : ltD leq d E x m
    · rfl
    · have hxl : x ∈ List.range E.length := List.mem_range.mpr (ltD_lt hx).1
      have := hmax x hxl
      rw [ltD_flip, hx] at this; cases this
  rw [h] at hmext
  simp at hmext
  subst hmext
  rw [relD_flip] at him
  exact him

theorem extremes_singleton_iff (hpo : IdxPO leq E) {d : Dir} {t : Nat} :
    extremes leq d E = [t] ↔ isExt leq d E t = true :=
  ⟨isExt_of_extremes hpo, extremes_of_isExt hpo⟩

/-- `len(tops) == 1` iff there is a greatest element -/
theorem extremes_length_one_iff (hpo : IdxPO leq E) {d : Dir} :
    (extremes leq d E).length = 1 ↔ ∃ t, isExt leq d E t = true := by
  constructor
  · intro h
    obtain ⟨t, ht⟩ := List.length_eq_one_iff.mp h
    exact ⟨t, isExt_of_extremes hpo ht⟩
  · rintro ⟨t, ht⟩
    rw [extremes_of_isExt hpo ht]; rfl

/-! ### the element at the extreme index -/

theorem relD_eq {d : Dir} {i j : Nat} (hi : i < E.length) (hj : j < E.length) :
    relD leq d E i j = (match d with
      | .desc => leq E[i] E[j]
      | .anc => leq E[j] E[i]) := by
  cases d <;> simp only [relD]
  · exact rel_eq hi hj
  · exact rel_eq hj hi

/-! ### appending an element -/

theorem relD_append_left {d : Dir} {e : α} {a b : Nat} (ha : a < E.length) (hb : b < E.length) :
    relD leq d (E ++ [e]) a b = relD leq d E a b := by
  cases d <;> simp only [relD]
  · exact rel_append_left ha hb
  · exact rel_append_left hb ha

/-- `e` is on the inner side of the extreme `E[t]`: the extreme keeps its index -/
theorem isExt_append_inner {d : Dir} {t : Nat} {e x : α} (h : isExt leq d E t = true) (hx : E[t]? = some x)
    (hin : (match d with
      | .desc => leq x e
      | .anc => leq e x) = true) :
    isExt leq d (E ++ [e]) t = true := by
  obtain ⟨ht, hall⟩ := isExt_iff.mp h
  rw [isExt_iff]
  simp only [List.length_append, List.length_singleton]
  refine ⟨by omega, fun i hi => ?_⟩
  by_cases hi' : i < E.length
  · rw [relD_append_left ht hi']; exact hall i hi'
  · have hie : i = E.length := by omega
    subst hie
    have h1 : (E ++ [e])[t]? = some x := by rw [List.getElem?_append_left ht, hx]
    have h2 : (E ++ [e])[E.length]? = some e := by simp
    cases d <;> simp only [relD, rel, h1, h2] <;> exact hin

/-- `e` is beyond the extreme (above the top / below the bottom): it becomes the extreme, at the last index -/
theorem isExt_append_beyond {e x : α} (hpoU : IdxPO leq (E ++ [e])) {d : Dir} {t : Nat}
    (h : isExt leq d E t = true) (hx : E[t]? = some x)
    (hbe : (match d with
      | .desc => leq e x
      | .anc => leq x e) = true) :
    isExt leq d (E ++ [e]) E.length = true := by
  obtain ⟨ht, hall⟩ := isExt_iff.mp h
  rw [isExt_iff]
  simp only [List.length_append, List.length_singleton]
  refine ⟨by omega, fun i hi => ?_⟩
  have h1 : (E ++ [e])[t]? = some x := by rw [List.getElem?_append_left ht, hx]
  have h2 : (E ++ [e])[E.length]? = some e := by simp
  have hnt : relD leq d (E ++ [e]) E.length t = true := by
    cases d <;> simp only [relD, rel, h1, h2] <;> exact hbe
  by_cases hi' : i < E.length
  · have : relD leq d (E ++ [e]) t i = true := by rw [relD_append_left ht hi']; exact hall i hi'
    exact relD_trans hpoU d hnt this
  · have hie : i = E.length := by omega
    subst hie
    exact relD_refl hpoU d (by simp)

/-! ### erasing an element -/

theorem relD_eraseIdx (d : Dir) (k i j : Nat) :
    relD leq d (E.eraseIdx k) i j = relD leq d E (up k i) (up k j) := by
  cases d <;> simp only [relD] <;> exact rel_eraseIdx _ _ _

/-- erasing a non-extreme index: the extreme moves down by one iff it was behind the erased position -/
theorem isExt_eraseIdx {d : Dir} {t k : Nat} (h : isExt leq d E t = true) (hk : k < E.length) (hne : t ≠ k) :
    isExt leq d (E.eraseIdx k) (decrIdx t k) = true := by
  obtain ⟨ht, hall⟩ := isExt_iff.mp h
  rw [isExt_iff, List.length_eraseIdx_of_lt hk]
  refine ⟨decr_lt ht hne hk, fun i hi => ?_⟩
  rw [relD_eraseIdx, up_decr hne]
  exact hall _ (up_lt hk hi)

end
end Fca.SemiLattice

/-
  Fca.Lemmas.MVContext — helper lemmas for property C14 (many-valued contexts).
  Part 1: per-column extension = filter by `covers`; the narrowing loop = conjunctive filter;
          per-column Galois lemmas; closure laws of `clSpec`.
-/
import Fca.Spec.MVContext
import Fca.Lemmas.Galois
namespace Fca.MV
open Fca

/-! ### per-column extension -/

theorem setLeq_eq_all (row s : List Nat) : Col.setLeq row s = row.all fun x => s.contains x := by
  unfold Col.setLeq
  rw [Bool.eq_iff_iff]
  simp only [beq_iff_eq, List.filter_eq_self, List.all_eq_true]

theorem Col.extensionI_eq (c : Col) (d : DVal) (base : List Nat) (h : c.typed d = true) :
    c.extensionI d base = .ok (base.filter (c.covers d)) := by
  cases c with
  | interval data =>
    cases d with
    | ival o =>
      cases o with
      | none =>
        simp only [Col.extensionI]; congr 1; symm
        rw [List.filter_eq_nil_iff]; intro a _; simp [Col.covers]
      | some p =>
        obtain ⟨lo, hi⟩ := p
        simp only [Col.extensionI]; congr 1
    | sval _ => simp [Col.typed] at h
    | bval _ => simp [Col.typed] at h
  | set data =>
    cases d with
    | sval o =>
      cases o with
      | none =>
        simp only [Col.extensionI]; congr 1; symm
        rw [List.filter_eq_nil_iff]; intro a _; simp [Col.covers]
      | some s =>
        simp only [Col.extensionI]
        congr 1
        apply List.filter_congr
        intro g _
        simp only [Col.covers]
        exact setLeq_eq_all _ _
    | ival _ => simp [Col.typed] at h
    | bval _ => simp [Col.typed] at h
  | attr data =>
    cases d with
    | bval b =>
      cases b with
      | false =>
        simp only [Col.extensionI, Bool.not_false, ↓reduceIte]; congr 1; symm
        rw [List.filter_eq_self]; intro a _; simp [Col.covers]
      | true =>
        simp only [Col.extensionI, Bool.not_true, Bool.false_eq_true, ↓reduceIte]; congr 1
    | ival _ => simp [Col.typed] at h
    | sval _ => simp [Col.typed] at h

/-! ### the narrowing loop -/

theorem MVCtx.coversAll_cons (K : MVCtx) (p : Nat × DVal) (rest : Desc) (g : Nat) :
    K.coversAll (p :: rest) g =
      ((match K.cols[p.1]? with | some c => c.covers p.2 g | none => false) && K.coversAll rest g) := by
  rfl

theorem MVCtx.extLoop_eq (K : MVCtx) (desc : Desc) (ext : List Nat) (hwt : K.WellTyped desc) :
    MVCtx.extLoop K.cols desc ext = .ok (ext.filter (K.coversAll desc)) := by
  induction desc generalizing ext with
  | nil =>
    simp only [MVCtx.extLoop]; congr 1; symm
    rw [List.filter_eq_self]; intro a _; simp [MVCtx.coversAll]
  | cons p rest ih =>
    obtain ⟨i, d⟩ := p
    have hp := hwt (i, d) List.mem_cons_self
    obtain ⟨c, hc, hty⟩ := hp
    have hrest : K.WellTyped rest := fun q hq => hwt q (List.mem_cons_of_mem _ hq)
    simp only at hc hty
    have hfun : K.coversAll ((i, d) :: rest) = fun g => (c.covers d g && K.coversAll rest g) := by
      funext g; rw [MVCtx.coversAll_cons]; simp [hc]
    simp only [MVCtx.extLoop, hc, Col.extensionI_eq c d ext hty]
    split
    · rename_i hlen
      have hnil : ext.filter (c.covers d) = [] := List.eq_nil_of_length_eq_zero hlen
      rw [hnil, hfun]
      congr 1
      symm
      rw [List.filter_eq_nil_iff]
      intro a ha
      have := (List.filter_eq_nil_iff.mp hnil) a ha
      simp only [Bool.and_eq_true, not_and]
      intro h1; exact absurd h1 this
    · rw [ih _ hrest, hfun, List.filter_filter]
      congr 1
      apply List.filter_congr
      intro g _
      exact Bool.and_comm _ _

theorem MVCtx.extensionI_eq (K : MVCtx) (desc : Desc) (base : Option (List Nat)) (hwt : K.WellTyped desc) :
    K.extensionI desc base = .ok (K.extSpec desc (base.getD (List.range K.nObjects))) := by
  unfold MVCtx.extensionI MVCtx.extSpec
  split
  · simp
  · rw [MVCtx.extLoop_eq K desc _ hwt]; simp
  · rw [MVCtx.extLoop_eq K desc _ hwt]; simp

/-! ### the description computed by `intention_i` -/

theorem MVCtx.mem_intentionI (K : MVCtx) (A : List Nat) (p : Nat × DVal) :
    p ∈ K.intentionI A ↔ ∃ c, K.cols[p.1]? = some c ∧ p.2 = c.intentionI A := by
  unfold MVCtx.intentionI
  simp only [List.mem_map]
  constructor
  · rintro ⟨ci, hci, rfl⟩
    exact ⟨ci.1, List.mem_zipIdx_iff_getElem?.mp hci, rfl⟩
  · rintro ⟨c, hc, hd⟩
    refine ⟨(c, p.1), List.mem_zipIdx_iff_getElem?.mpr hc, ?_⟩
    obtain ⟨i, d⟩ := p
    simp only at hd
    simp [hd]

theorem Col.typed_intentionI (c : Col) (A : List Nat) : c.typed (c.intentionI A) = true := by
  cases c <;> rfl

theorem Col.typed_bottom (c : Col) : c.typed c.bottom = true := by
  cases c <;> rfl

theorem MVCtx.wellTyped_intentionI (K : MVCtx) (A : List Nat) : K.WellTyped (K.intentionI A) := by
  intro p hp
  obtain ⟨c, hc, hd⟩ := (K.mem_intentionI A p).mp hp
  exact ⟨c, hc, by rw [hd]; exact c.typed_intentionI A⟩

theorem MVCtx.mem_bottomDesc (K : MVCtx) (p : Nat × DVal) :
    p ∈ K.bottomDesc ↔ ∃ c, K.cols[p.1]? = some c ∧ p.2 = c.bottom := by
  unfold MVCtx.bottomDesc
  simp only [List.mem_map]
  constructor
  · rintro ⟨ci, hci, rfl⟩
    exact ⟨ci.1, List.mem_zipIdx_iff_getElem?.mp hci, rfl⟩
  · rintro ⟨c, hc, hd⟩
    refine ⟨(c, p.1), List.mem_zipIdx_iff_getElem?.mpr hc, ?_⟩
    obtain ⟨i, d⟩ := p
    simp only at hd
    simp [hd]

theorem MVCtx.wellTyped_bottomDesc (K : MVCtx) : K.WellTyped K.bottomDesc := by
  intro p hp
  obtain ⟨c, hc, hd⟩ := (K.mem_bottomDesc p).mp hp
  exact ⟨c, hc, by rw [hd]; exact c.typed_bottom⟩

/-- `g` is covered by the description of `A` iff every column's own description of `A` covers it -/
theorem MVCtx.coversAll_intentionI (K : MVCtx) (A : List Nat) (g : Nat) :
    K.coversAll (K.intentionI A) g = true ↔
      ∀ (i : Nat) (c : Col), K.cols[i]? = some c → c.covers (c.intentionI A) g = true := by
  unfold MVCtx.coversAll
  rw [List.all_eq_true]
  constructor
  · intro h i c hc
    have := h (i, c.intentionI A) ((K.mem_intentionI A _).mpr ⟨c, hc, rfl⟩)
    simpa [hc] using this
  · intro h p hp
    obtain ⟨c, hc, hd⟩ := (K.mem_intentionI A p).mp hp
    rw [hc, hd]
    exact h p.1 c hc

theorem MVCtx.coversAll_bottomDesc (K : MVCtx) (g : Nat) :
    K.coversAll K.bottomDesc g = true ↔ ∀ (i : Nat) (c : Col), K.cols[i]? = some c → c.covers c.bottom g = true := by
  unfold MVCtx.coversAll
  rw [List.all_eq_true]
  constructor
  · intro h i c hc
    have := h (i, c.bottom) ((K.mem_bottomDesc _).mpr ⟨c, hc, rfl⟩)
    simpa [hc] using this
  · intro h p hp
    obtain ⟨c, hc, hd⟩ := (K.mem_bottomDesc p).mp hp
    rw [hc, hd]
    exact h p.1 c hc

theorem MVCtx.mem_clSpec (K : MVCtx) (A : List Nat) (g : Nat) :
    g ∈ K.clSpec A ↔ g < K.nObjects ∧ ∀ (i : Nat) (c : Col), K.cols[i]? = some c → c.covers (c.intentionI A) g = true := by
  unfold MVCtx.clSpec MVCtx.extSpec
  rw [List.mem_filter, List.mem_range, K.coversAll_intentionI]

theorem MVCtx.mem_extBottom (K : MVCtx) (g : Nat) :
    g ∈ K.extBottom ↔ g < K.nObjects ∧ ∀ (i : Nat) (c : Col), K.cols[i]? = some c → c.covers c.bottom g = true := by
  unfold MVCtx.extBottom MVCtx.extSpec
  rw [List.mem_filter, List.mem_range, K.coversAll_bottomDesc]

/-- the closure as the code computes it is the spec closure -/
theorem MVCtx.cl_eq (K : MVCtx) (A : List Nat) : K.cl A = .ok (K.clSpec A) := by
  unfold MVCtx.cl MVCtx.clSpec
  rw [K.extensionI_eq _ none (K.wellTyped_intentionI A)]
  rfl

/-! ### per-column Galois lemmas -/

theorem ivLoop_bounds (data : List (Int × Int)) (gs : List Nat) (acc : Int × Int) :
    (Col.ivLoop data gs acc).1 ≤ acc.1 ∧ acc.2 ≤ (Col.ivLoop data gs acc).2 ∧
    ∀ g ∈ gs, (Col.ivLoop data gs acc).1 ≤ (data.getD g (0, 0)).1 ∧
              (data.getD g (0, 0)).2 ≤ (Col.ivLoop data gs acc).2 := by
  induction gs generalizing acc with
  | nil => simp [Col.ivLoop]
  | cons g gs ih =>
    simp only [Col.ivLoop]
    generalize hv : data.getD g (0, 0) = v
    generalize ha1 : (if v.1 < acc.1 then v.1 else acc.1) = a1
    generalize ha2 : (if v.2 > acc.2 then v.2 else acc.2) = a2
    have b1 : a1 ≤ acc.1 ∧ a1 ≤ v.1 := by rw [← ha1]; split <;> omega
    have b2 : acc.2 ≤ a2 ∧ v.2 ≤ a2 := by rw [← ha2]; split <;> omega
    obtain ⟨h1, h2, h3⟩ := ih (a1, a2)
    simp only at h1 h2
    refine ⟨by omega, by omega, ?_⟩
    intro x hx
    rcases List.mem_cons.mp hx with rfl | hx
    · rw [hv]; constructor <;> omega
    · exact h3 x hx

theorem ivLoop_least (data : List (Int × Int)) (gs : List Nat) (acc : Int × Int) (lo hi : Int)
    (hacc : lo ≤ acc.1 ∧ acc.2 ≤ hi)
    (h : ∀ g ∈ gs, lo ≤ (data.getD g (0, 0)).1 ∧ (data.getD g (0, 0)).2 ≤ hi) :
    lo ≤ (Col.ivLoop data gs acc).1 ∧ (Col.ivLoop data gs acc).2 ≤ hi := by
  induction gs generalizing acc with
  | nil => simpa [Col.ivLoop] using hacc
  | cons g gs ih =>
    simp only [Col.ivLoop]
    apply ih
    · have := h g List.mem_cons_self
      generalize data.getD g (0, 0) = v at this
      simp only
      constructor
      · split <;> omega
      · split <;> omega
    · intro x hx; exact h x (List.mem_cons_of_mem _ hx)

theorem mem_unionL {a b : List Nat} {x : Nat} : x ∈ Col.unionL a b ↔ x ∈ a ∨ x ∈ b := by
  unfold Col.unionL
  simp only [List.mem_append, List.mem_filter, List.contains_eq_mem, Bool.not_eq_eq_eq_not,
    Bool.not_true, decide_eq_false_iff_not]
  constructor
  · rintro (h | ⟨h, _⟩)
    · exact Or.inl h
    · exact Or.inr h
  · rintro (h | h)
    · exact Or.inl h
    · by_cases hx : x ∈ a
      · exact Or.inl hx
      · exact Or.inr ⟨h, hx⟩

theorem mem_foldl_unionL (data : List (List Nat)) (objs : List Nat) (acc : List Nat) (x : Nat) :
    x ∈ objs.foldl (fun acc g => Col.unionL acc (data.getD g [])) acc ↔
      x ∈ acc ∨ ∃ g ∈ objs, x ∈ data.getD g [] := by
  induction objs generalizing acc with
  | nil => simp
  | cons g gs ih =>
    simp only [List.foldl_cons, ih, mem_unionL, List.mem_cons, exists_eq_or_imp]
    constructor
    · rintro ((h | h) | h)
      · exact Or.inl h
      · exact Or.inr (Or.inl h)
      · exact Or.inr (Or.inr h)
    · rintro (h | h | h)
      · exact Or.inl (Or.inl h)
      · exact Or.inl (Or.inr h)
      · exact Or.inr h

theorem mem_setIntention (data : List (List Nat)) (objs : List Nat) (x : Nat) :
    x ∈ Col.setIntention data objs ↔ ∃ g ∈ objs, x ∈ data.getD g [] := by
  unfold Col.setIntention
  rw [mem_foldl_unionL]
  simp

/-- (G1) every object of `A` falls under the column's description of `A` -/
theorem Col.covers_intention (c : Col) (A : List Nat) (g : Nat) (hg : g ∈ A) :
    c.covers (c.intentionI A) g = true := by
  cases c with
  | interval data =>
    cases A with
    | nil => cases hg
    | cons g0 rest =>
      simp only [Col.intentionI, Col.ivIntention, Col.covers, Col.ivIn, Bool.and_eq_true,
        decide_eq_true_eq]
      have hb := ivLoop_bounds data rest (data.getD g0 (0, 0))
      rcases List.mem_cons.mp hg with rfl | hg
      · exact ⟨hb.1, hb.2.1⟩
      · exact hb.2.2 g hg
  | set data =>
    simp only [Col.intentionI, Col.covers, List.all_eq_true, List.contains_eq_mem, decide_eq_true_eq]
    intro x hx
    exact (mem_setIntention data A x).mpr ⟨g, hg, hx⟩
  | attr data =>
    simp only [Col.intentionI, Col.covers, Col.attrIntention]
    cases A with
    | nil => cases hg
    | cons a as =>
      simp only [List.isEmpty_cons, Bool.false_eq_true, ↓reduceIte, Bool.or_eq_true,
        Bool.not_eq_eq_eq_not, Bool.not_true]
      by_cases hall : (a :: as).all (fun g => data.getD g false) = true
      · right; exact (List.all_eq_true.mp hall) g hg
      · left; simpa using hall

/-- (G2) the column's description of a non-empty `A` is the most specific one covering `A` -/
theorem Col.intention_least (c : Col) (A : List Nat) (hA : A ≠ []) (d : DVal)
    (hd : ∀ g ∈ A, c.covers d g = true) (g' : Nat) (hg' : c.covers (c.intentionI A) g' = true) :
    c.covers d g' = true := by
  obtain ⟨a, as, rfl⟩ := List.exists_cons_of_ne_nil hA
  cases c with
  | interval data =>
    cases d with
    | ival o =>
      cases o with
      | none => have := hd a List.mem_cons_self; simp [Col.covers] at this
      | some p =>
        obtain ⟨lo, hi⟩ := p
        simp only [Col.intentionI, Col.ivIntention, Col.covers, Col.ivIn, Bool.and_eq_true,
          decide_eq_true_eq] at hg' hd ⊢
        have hl := ivLoop_least data as (data.getD a (0, 0)) lo hi (hd a List.mem_cons_self)
          (fun g hg => hd g (List.mem_cons_of_mem _ hg))
        omega
    | sval _ => have := hd a List.mem_cons_self; simp [Col.covers] at this
    | bval _ => have := hd a List.mem_cons_self; simp [Col.covers] at this
  | set data =>
    cases d with
    | sval o =>
      cases o with
      | none => have := hd a List.mem_cons_self; simp [Col.covers] at this
      | some s =>
        simp only [Col.intentionI, Col.covers, List.all_eq_true, List.contains_eq_mem,
          decide_eq_true_eq] at hg' hd ⊢
        intro x hx
        obtain ⟨g, hgA, hxg⟩ := (mem_setIntention data (a :: as) x).mp (hg' x hx)
        exact hd g hgA x hxg
    | ival _ => have := hd a List.mem_cons_self; simp [Col.covers] at this
    | bval _ => have := hd a List.mem_cons_self; simp [Col.covers] at this
  | attr data =>
    cases d with
    | bval b =>
      cases b with
      | false => simp [Col.covers]
      | true =>
        simp only [Col.intentionI, Col.covers, Col.attrIntention, List.isEmpty_cons,
          Bool.false_eq_true, ↓reduceIte, Bool.not_true, Bool.false_or, Bool.or_eq_true,
          Bool.not_eq_eq_eq_not] at hg' hd ⊢
        rcases hg' with h | h
        · exfalso
          have : (a :: as).all (fun g => data.getD g false) = true := List.all_eq_true.mpr hd
          rw [this] at h; cases h
        · exact h
    | ival _ => have := hd a List.mem_cons_self; simp [Col.covers] at this
    | sval _ => have := hd a List.mem_cons_self; simp [Col.covers] at this

/-! ### closure laws on `clSpec` -/

theorem MVCtx.clSpec_extensive (K : MVCtx) (A : List Nat) (hA : ∀ g ∈ A, g < K.nObjects) :
    ∀ g ∈ A, g ∈ K.clSpec A := by
  intro g hg
  rw [K.mem_clSpec]
  exact ⟨hA g hg, fun i c _ => c.covers_intention A g hg⟩

/-- `d covers A ⇒ ext (int A) ⊆ ext d`, for the description of another object set -/
theorem MVCtx.clSpec_mono (K : MVCtx) (A B : List Nat) (hA : A ≠ []) (hAB : ∀ g ∈ A, g ∈ B) :
    ∀ g ∈ K.clSpec A, g ∈ K.clSpec B := by
  intro g hg
  rw [K.mem_clSpec] at hg ⊢
  refine ⟨hg.1, fun i c hc => ?_⟩
  exact c.intention_least A hA (c.intentionI B) (fun a ha => c.covers_intention B a (hAB a ha)) g
    (hg.2 i c hc)

theorem MVCtx.clSpec_ne_nil (K : MVCtx) (A : List Nat) (hA : A ≠ []) (hr : ∀ g ∈ A, g < K.nObjects) :
    K.clSpec A ≠ [] := by
  obtain ⟨a, as, rfl⟩ := List.exists_cons_of_ne_nil hA
  intro h
  have := K.clSpec_extensive (a :: as) hr a List.mem_cons_self
  rw [h] at this; cases this

theorem MVCtx.clSpec_idem (K : MVCtx) (A : List Nat) (hA : A ≠ []) (hr : ∀ g ∈ A, g < K.nObjects) :
    K.clSpec (K.clSpec A) = K.clSpec A := by
  have hne := K.clSpec_ne_nil A hA hr
  unfold MVCtx.clSpec MVCtx.extSpec
  apply Spec.filter_eq_of_mem_iff
  intro g hg
  have hgn := List.mem_range.mp hg
  have e1 := K.mem_clSpec (K.clSpec A) g
  have e2 := K.mem_clSpec A g
  unfold MVCtx.clSpec MVCtx.extSpec at e1 e2
  rw [List.mem_filter] at e1 e2
  constructor
  · intro h
    have hin : g ∈ K.clSpec (K.clSpec A) := by
      unfold MVCtx.clSpec MVCtx.extSpec; exact List.mem_filter.mpr ⟨hg, h⟩
    -- `int A` covers all of `cl A`, so `cl (cl A) ⊆ cl A`
    rw [K.mem_clSpec] at hin
    have : g ∈ K.clSpec A := by
      rw [K.mem_clSpec]
      refine ⟨hgn, fun i c hc => ?_⟩
      refine c.intention_least (K.clSpec A) hne (c.intentionI A) ?_ g (hin.2 i c hc)
      intro x hx
      exact ((K.mem_clSpec A x).mp hx).2 i c hc
    unfold MVCtx.clSpec MVCtx.extSpec at this
    exact (List.mem_filter.mp this).2
  · intro h
    have hin : g ∈ K.clSpec A := by
      unfold MVCtx.clSpec MVCtx.extSpec; exact List.mem_filter.mpr ⟨hg, h⟩
    have := K.clSpec_mono A (K.clSpec A) hA (K.clSpec_extensive A hr) g hin
    unfold MVCtx.clSpec MVCtx.extSpec at this
    exact (List.mem_filter.mp this).2

theorem MVCtx.clSpec_lt (K : MVCtx) (A : List Nat) : ∀ g ∈ K.clSpec A, g < K.nObjects := by
  intro g hg; exact ((K.mem_clSpec A g).mp hg).1

/-- the closure only depends on the set of objects, not on their order or repetitions -/
theorem MVCtx.clSpec_congr (K : MVCtx) (A B : List Nat) (hA : A ≠ []) (hB : B ≠ [])
    (h : ∀ g, g ∈ A ↔ g ∈ B) : K.clSpec A = K.clSpec B := by
  unfold MVCtx.clSpec MVCtx.extSpec
  apply Spec.filter_eq_of_mem_iff
  intro g hg
  have e1 := K.clSpec_mono A B hA (fun x hx => (h x).mp hx) g
  have e2 := K.clSpec_mono B A hB (fun x hx => (h x).mpr hx) g
  unfold MVCtx.clSpec MVCtx.extSpec at e1 e2
  simp only [List.mem_filter] at e1 e2
  exact ⟨fun hh => (e1 ⟨hg, hh⟩).2, fun hh => (e2 ⟨hg, hh⟩).2⟩

end Fca.MV

namespace Fca.MV
open Fca

/-- any well-typed description that covers a non-empty `A` covers the whole closure of `A` -/
theorem MVCtx.clSpec_least (K : MVCtx) (A : List Nat) (hA : A ≠ []) (desc : Desc) (hwt : K.WellTyped desc)
    (hcov : ∀ g ∈ A, K.coversAll desc g = true) : ∀ g ∈ K.clSpec A, K.coversAll desc g = true := by
  intro g hg
  have hg2 := ((K.mem_clSpec A g).mp hg).2
  unfold MVCtx.coversAll at hcov ⊢
  rw [List.all_eq_true]
  intro p hp
  obtain ⟨c, hc, _⟩ := hwt p hp
  simp only [hc]
  refine c.intention_least A hA p.2 ?_ g (hg2 p.1 c hc)
  intro a ha
  have := List.all_eq_true.mp (hcov a ha) p hp
  simpa [hc] using this

end Fca.MV

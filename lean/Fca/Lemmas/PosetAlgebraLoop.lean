/-
  Lemmas/PosetAlgebraLoop — the loop of `_combine_caches` (`combineLoop`), `dict.items()` (`items`), and what
  they say about `combineSet` / `combineLeq`:
  * every entry of the combined cache satisfies any predicate that holds for the mapped entries of both caches
    and is stable under the merge (`combineLoop_good`);
  * an entry of the combined cache stems from a key of one of the caches that maps to it (`combineSet_origin`);
  * the mapped value of every key that maps is contained in the combined entry (`combineSet_fromA/B`).
-/
import Fca.Lemmas.PosetAlgebraIdx
import Fca.Lemmas.PosetDel
set_option linter.unusedSectionVars false
namespace Fca.Poset
open Fca Fca.Poset.Fresh

section loop
variable {κ β : Type} [DecidableEq κ]

theorem mem_items {c : List (κ × β)} {k : κ} {v : β} : (k, v) ∈ items c ↔ alookup k c = some v := by
  unfold items
  rw [List.mem_filterMap]
  constructor
  · rintro ⟨k', _, h⟩
    cases hl : alookup k' c with
    | none => rw [hl] at h; cases h
    | some w =>
      rw [hl] at h
      simp only [Option.map_some, Option.some.injEq, Prod.mk.injEq] at h
      obtain ⟨rfl, rfl⟩ := h
      exact hl
  · intro h
    refine ⟨k, mem_dedupKeys.mpr (by rw [h]; rfl), ?_⟩
    rw [h]; rfl

theorem items_nil : items ([] : List (κ × β)) = [] := rfl

variable (mapK : κ → Option κ) (mapV : β → β) (merge : β → β → β)

theorem combineLoop_nil (acc : List (κ × β)) : combineLoop mapK mapV merge acc [] = acc := rfl

theorem combineLoop_cons_none (acc : List (κ × β)) (k : κ) (v : β) (rest : List (κ × β)) (h : mapK k = none) :
    combineLoop mapK mapV merge acc ((k, v) :: rest) = combineLoop mapK mapV merge acc rest := by
  simp only [combineLoop, h]

theorem combineLoop_cons_some (acc : List (κ × β)) (k : κ) (v : β) (rest : List (κ × β)) (ck : κ)
    (h : mapK k = some ck) :
    combineLoop mapK mapV merge acc ((k, v) :: rest) =
      combineLoop mapK mapV merge
        (ainsert ck (match alookup ck acc with
          | some old => merge (mapV v) old
          | none => mapV v) acc) rest := by
  cases h2 : alookup ck acc <;> simp only [combineLoop, h, h2]

/-- S1: a predicate on entries that holds for the start cache and for every mapped entry, and is stable under the
    merge, holds for every entry of the combined cache -/
theorem combineLoop_good (Good : κ → β → Prop)
    (hmerge : ∀ ck x y, Good ck x → Good ck y → Good ck (merge x y))
    (L : List (κ × β)) (hL : ∀ k v ck, (k, v) ∈ L → mapK k = some ck → Good ck (mapV v))
    (acc : List (κ × β)) (hacc : ∀ ck cv, alookup ck acc = some cv → Good ck cv) :
    ∀ ck cv, alookup ck (combineLoop mapK mapV merge acc L) = some cv → Good ck cv := by
  induction L generalizing acc with
  | nil => exact hacc
  | cons p rest ih =>
    obtain ⟨k, v⟩ := p
    have hrest : ∀ k v ck, (k, v) ∈ rest → mapK k = some ck → Good ck (mapV v) :=
      fun k v ck h => hL k v ck (List.mem_cons_of_mem _ h)
    cases hk : mapK k with
    | none =>
      rw [combineLoop_cons_none _ _ _ _ _ _ _ hk]
      exact ih hrest acc hacc
    | some ck' =>
      rw [combineLoop_cons_some _ _ _ _ _ _ _ _ hk]
      apply ih hrest
      intro ck cv hl
      rw [alookup_ainsert] at hl
      split at hl
      · rename_i e; subst e
        cases hl
        have hv := hL k v ck List.mem_cons_self hk
        cases ho : alookup ck acc with
        | none => exact hv
        | some old => exact hmerge _ _ _ hv (hacc _ _ ho)
      · exact hacc _ _ hl

/-- S4: where an entry of the combined cache comes from -/
theorem combineLoop_origin (L : List (κ × β)) (acc : List (κ × β)) (ck : κ) (cv : β)
    (h : alookup ck (combineLoop mapK mapV merge acc L) = some cv) :
    (alookup ck acc).isSome = true ∨ ∃ k v, (k, v) ∈ L ∧ mapK k = some ck := by
  induction L generalizing acc with
  | nil => left; rw [combineLoop_nil] at h; rw [h]; rfl
  | cons p rest ih =>
    obtain ⟨k, v⟩ := p
    cases hk : mapK k with
    | none =>
      rw [combineLoop_cons_none _ _ _ _ _ _ _ hk] at h
      rcases ih acc h with h' | ⟨k', v', hm, hk'⟩
      · exact Or.inl h'
      · exact Or.inr ⟨k', v', List.mem_cons_of_mem _ hm, hk'⟩
    | some ck' =>
      rw [combineLoop_cons_some _ _ _ _ _ _ _ _ hk] at h
      rcases ih _ h with h' | ⟨k', v', hm, hk'⟩
      · rw [alookup_ainsert] at h'
        split at h'
        · rename_i e; subst e
          exact Or.inr ⟨k, v, List.mem_cons_self, hk⟩
        · exact Or.inl h'
      · exact Or.inr ⟨k', v', List.mem_cons_of_mem _ hm, hk'⟩

end loop

section setloop
variable {κ : Type} [DecidableEq κ] (mapK : κ → Option κ) (mapV : List Nat → List Nat)

/-- S2: with the set union as merge, an entry only grows -/
theorem combineLoop_acc_sub (L : List (κ × List Nat)) (acc : List (κ × List Nat)) (ck : κ) (old : List Nat)
    (h : alookup ck acc = some old) :
    ∃ cv, alookup ck (combineLoop mapK mapV setUnion acc L) = some cv ∧ ∀ x ∈ old, x ∈ cv := by
  induction L generalizing acc old with
  | nil => exact ⟨old, h, fun _ hx => hx⟩
  | cons p rest ih =>
    obtain ⟨k, v⟩ := p
    cases hk : mapK k with
    | none =>
      rw [combineLoop_cons_none _ _ _ _ _ _ _ hk]
      exact ih acc old h
    | some ck' =>
      rw [combineLoop_cons_some _ _ _ _ _ _ _ _ hk]
      by_cases e : ck = ck'
      · subst e
        rw [h]
        obtain ⟨cv, hcv, hsub⟩ := ih (ainsert ck (setUnion (mapV v) old) acc) (setUnion (mapV v) old)
          (by rw [alookup_ainsert]; simp)
        exact ⟨cv, hcv, fun x hx => hsub x (mem_setUnion.mpr (Or.inr hx))⟩
      · exact ih _ old (by rw [alookup_ainsert]; simp [e, h])

/-- S3: the mapped value of every key that maps is contained in the combined entry -/
theorem combineLoop_item_sub (L : List (κ × List Nat)) (acc : List (κ × List Nat)) (k : κ) (v : List Nat) (ck : κ)
    (hm : (k, v) ∈ L) (hk : mapK k = some ck) :
    ∃ cv, alookup ck (combineLoop mapK mapV setUnion acc L) = some cv ∧ ∀ x ∈ mapV v, x ∈ cv := by
  induction L generalizing acc with
  | nil => cases hm
  | cons p rest ih =>
    obtain ⟨k', v'⟩ := p
    rcases List.mem_cons.mp hm with e | hm'
    · cases e
      rw [combineLoop_cons_some _ _ _ _ _ _ _ _ hk]
      cases ho : alookup ck acc with
      | none =>
        obtain ⟨cv, hcv, hsub⟩ := combineLoop_acc_sub mapK mapV rest (ainsert ck (mapV v) acc) ck (mapV v)
          (by rw [alookup_ainsert]; simp)
        exact ⟨cv, hcv, hsub⟩
      | some old =>
        obtain ⟨cv, hcv, hsub⟩ := combineLoop_acc_sub mapK mapV rest (ainsert ck (setUnion (mapV v) old) acc) ck
          (setUnion (mapV v) old) (by rw [alookup_ainsert]; simp)
        exact ⟨cv, hcv, fun x hx => hsub x (mem_setUnion.mpr (Or.inl hx))⟩
    · cases hk' : mapK k' with
      | none =>
        rw [combineLoop_cons_none _ _ _ _ _ _ _ hk']
        exact ih acc hm'
      | some ck' =>
        rw [combineLoop_cons_some _ _ _ _ _ _ _ _ hk']
        exact ih _ hm'

end setloop

/-! ### `combineSet` -/
section combineSet
variable {α : Type} [DecidableEq α]

theorem mem_mapSet {m : Nat → Option Nat} {v : List Nat} {x : Nat} : x ∈ mapSet m v ↔ ∃ i ∈ v, m i = some x := by
  unfold mapSet
  rw [mem_toSet, List.mem_filterMap]

theorem nodup_mapSet (m : Nat → Option Nat) (v : List Nat) : (mapSet m v).Nodup := nodup_toSet _

theorem isEmpty_items {κ β : Type} [DecidableEq κ] {c : List (κ × β)} (h : c.isEmpty = true) : items c = [] := by
  cases c with
  | nil => rfl
  | cons p l => cases h

/-- the early `return {}` of `_combine_caches` is what the two loops give anyway -/
theorem combineSet_eq (ca : Cache) (EA : List α) (cb : Cache) (EB C : List α) :
    combineSet ca EA cb EB C =
      combineLoop (idxMap EB C) (mapSet (idxMap EB C)) setUnion
        (combineLoop (idxMap EA C) (mapSet (idxMap EA C)) setUnion [] (items ca)) (items cb) := by
  unfold combineSet
  split
  · rename_i h
    simp only [Bool.and_eq_true] at h
    rw [isEmpty_items h.1, isEmpty_items h.2]
    rfl
  · rfl

theorem combineLeq_eq (ca : LeqCache) (EA : List α) (cb : LeqCache) (EB C : List α) :
    combineLeq ca EA cb EB C =
      combineLoop (mapPair (idxMap EB C)) id (fun (n _o : Bool) => n)
        (combineLoop (mapPair (idxMap EA C)) id (fun (n _o : Bool) => n) [] (items ca)) (items cb) := by
  unfold combineLeq
  split
  · rename_i h
    simp only [Bool.and_eq_true] at h
    rw [isEmpty_items h.1, isEmpty_items h.2]
    rfl
  · rfl

variable (ca : Cache) (EA : List α) (cb : Cache) (EB C : List α)

theorem combineSet_good (Good : Nat → List Nat → Prop)
    (hmerge : ∀ ck x y, Good ck x → Good ck y → Good ck (setUnion x y))
    (hA : ∀ k v ck, alookup k ca = some v → idxMap EA C k = some ck → Good ck (mapSet (idxMap EA C) v))
    (hB : ∀ k v ck, alookup k cb = some v → idxMap EB C k = some ck → Good ck (mapSet (idxMap EB C) v)) :
    ∀ ck cv, alookup ck (combineSet ca EA cb EB C) = some cv → Good ck cv := by
  rw [combineSet_eq]
  apply combineLoop_good _ _ _ Good hmerge
  · intro k v ck hm; exact hB k v ck (mem_items.mp hm)
  · apply combineLoop_good _ _ _ Good hmerge
    · intro k v ck hm; exact hA k v ck (mem_items.mp hm)
    · intro ck cv h; simp at h

theorem combineSet_origin {ck : Nat} {cv : List Nat} (h : alookup ck (combineSet ca EA cb EB C) = some cv) :
    (∃ k v, alookup k ca = some v ∧ idxMap EA C k = some ck) ∨
      (∃ k v, alookup k cb = some v ∧ idxMap EB C k = some ck) := by
  rw [combineSet_eq] at h
  rcases combineLoop_origin _ _ _ _ _ _ _ h with h' | ⟨k, v, hm, hk⟩
  · left
    cases hl : alookup ck (combineLoop (idxMap EA C) (mapSet (idxMap EA C)) setUnion [] (items ca)) with
    | none => rw [hl] at h'; cases h'
    | some w =>
      rcases combineLoop_origin _ _ _ _ _ _ _ hl with h'' | ⟨k, v, hm, hk⟩
      · simp at h''
      · exact ⟨k, v, mem_items.mp hm, hk⟩
  · exact Or.inr ⟨k, v, mem_items.mp hm, hk⟩

theorem combineSet_fromA {k ck : Nat} {v : List Nat} (hl : alookup k ca = some v) (hk : idxMap EA C k = some ck) :
    ∃ cv, alookup ck (combineSet ca EA cb EB C) = some cv ∧ ∀ x ∈ mapSet (idxMap EA C) v, x ∈ cv := by
  rw [combineSet_eq]
  obtain ⟨cv1, h1, s1⟩ := combineLoop_item_sub (idxMap EA C) (mapSet (idxMap EA C)) (items ca) [] k v ck
    (mem_items.mpr hl) hk
  obtain ⟨cv2, h2, s2⟩ := combineLoop_acc_sub (idxMap EB C) (mapSet (idxMap EB C)) (items cb) _ ck cv1 h1
  exact ⟨cv2, h2, fun x hx => s2 x (s1 x hx)⟩

theorem combineSet_fromB {k ck : Nat} {v : List Nat} (hl : alookup k cb = some v) (hk : idxMap EB C k = some ck) :
    ∃ cv, alookup ck (combineSet ca EA cb EB C) = some cv ∧ ∀ x ∈ mapSet (idxMap EB C) v, x ∈ cv := by
  rw [combineSet_eq]
  exact combineLoop_item_sub (idxMap EB C) (mapSet (idxMap EB C)) (items cb) _ k v ck (mem_items.mpr hl) hk

end combineSet
end Fca.Poset

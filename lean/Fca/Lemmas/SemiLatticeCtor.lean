/-
  Lemmas/SemiLatticeCtor — the constructors, the single-step summary of the semilattice machine, and the
  element-level (list-order independent) reading of "greatest / least element".
-/
import Fca.Lemmas.SemiLatticeStep
set_option linter.unusedSectionVars false
set_option linter.unusedVariables false
namespace Fca.SemiLattice
open Fca Fca.Poset Fca.Poset.Fresh Fca.SemiLattice.Spec

section
variable {α : Type} [DecidableEq α] {leq : α → α → Bool} {ord : List Nat → List Nat} {U : α → Prop}

/-! ### constructors -/

/-- the check part of `UpperSemiLattice.__init__` / `LowerSemiLattice.__init__` on any state whose poset caches
    are sound (in particular the freshly initialised one) -/
theorem ctorSide_run {E : List α} (hpo : IdxPO leq E) {c0 : Bool} {s : SL α} (h : InvB leq E Ghost.none c0 s.p)
    (d : Dir) (uc : Bool) :
    ∃ p', InvB leq E Ghost.none c0 p' ∧ ctorSide leq d uc s =
      if (extremes leq d E).length = 1 then
        ((if uc = true then ({ s with p := p' } : SL α).setCache d (extremes leq d E).head? else { s with p := p' }),
          .ok ())
      else ({ s with p := p' }, .error .ValueError) := by
  obtain ⟨p', b, hrun, hinv, hb⟩ := extremesE_spec (ord := id) hpo (fun l => List.Perm.refl l) h d
  refine ⟨p', hinv, ?_⟩
  have hl : ML.lift (extremesE leq d) s = ({ s with p := p' }, .ok (extremes leq d E)) := by
    rw [lift_apply, hrun, hb]
  unfold ctorSide
  rw [bind_ok hl]
  by_cases h1 : (extremes leq d E).length = 1
  · simp only [h1, bne_self_eq_false, Bool.false_eq_true, ↓reduceIte]
    cases uc <;> rfl
  · have : ((extremes leq d E).length != 1) = true := by simpa using h1
    simp only [this, ↓reduceIte, h1]
    rfl

/-- every side the class guards has a greatest / least element -/
def HasExtremes (leq : α → α → Bool) (cls : Cls) (E : List α) : Prop :=
  ∀ d, cls.has d = true → ∃ t, isExt leq d E t = true

theorem ctor_spec (hpoU : PO leq U) (cls : Cls) (E : List α) (c : Bool) (hnd : E.Nodup) (hU : ∀ a ∈ E, U a) :
    (E ≠ [] ∧ HasExtremes leq cls E →
      ∃ s, ctor leq cls E c = .ok s ∧ s.cls = cls ∧ s.p.elems = E ∧ s.p.useCache = c ∧ InvTop leq s ∧
        InvB leq E Ghost.none c s.p) ∧
    (¬ (E ≠ [] ∧ HasExtremes leq cls E) → ctor leq cls E c = .error .ValueError) := by
  have hpo : IdxPO leq E := idxPO_of hpoU hnd hU
  by_cases hE : E = []
  · subst hE
    exact ⟨fun h => absurd rfl h.1, fun _ => rfl⟩
  have hlen : ¬ E.length = 0 := fun h => hE (List.length_eq_zero_iff.mp h)
  have hinit : InvB leq E Ghost.none c (init E c) := by
    refine InvB.ofOk rfl rfl (fun _ a b r h => ?_) (fun _ d k v h => ?_) (fun _ d k v h => ?_)
    · simp [init] at h
    · cases d <;> simp [init, St.closed] at h
    · cases d <;> simp [init, St.direct] at h
  -- one guarded side
  have one : ∀ (d : Dir) (s : SL α), InvB leq E Ghost.none c s.p →
      ((∃ t, isExt leq d E t = true) → ∃ s1 t, ctorSide leq d c s = (s1, .ok ()) ∧ InvB leq E Ghost.none c s1.p ∧
        s1.cls = s.cls ∧ isExt leq d E t = true ∧ (c = true → s1.cache d = some t) ∧
        s1.cache d.flip = s.cache d.flip) ∧
      ((¬ ∃ t, isExt leq d E t = true) → ∃ s', ctorSide leq d c s = (s', .error .ValueError)) := by
    intro d s hs
    obtain ⟨p', hp', hrun⟩ := ctorSide_run hpo hs d c
    constructor
    · rintro ⟨t, ht⟩
      have hx := extremes_of_isExt hpo ht
      rw [hx] at hrun
      simp only [List.length_cons, List.length_nil, Nat.zero_add, ↓reduceIte, List.head?_cons] at hrun
      cases c
      · exact ⟨_, t, hrun, hp', rfl, ht, fun h => (by cases h), rfl⟩
      · refine ⟨_, t, hrun, ?_, ?_, ht, fun _ => ?_, ?_⟩
        · simp only [↓reduceIte, p_setCache]; exact hp'
        · simp only [↓reduceIte, cls_setCache]
        · simp only [↓reduceIte, cache_setCache]
        · simp only [↓reduceIte, cache_setCache_flip']; cases d <;> rfl
    · intro hno
      have : ¬ (extremes leq d E).length = 1 := fun h1 => hno ((extremes_length_one_iff hpo).mp h1)
      rw [if_neg this] at hrun
      exact ⟨_, hrun⟩
  -- assemble: a final state with the per-side facts satisfies the claim
  have fin : ∀ (s1 : SL α), InvB leq E Ghost.none c s1.p → s1.cls = cls →
      (∀ d, cls.has d = true → ∃ t, isExt leq d E t = true ∧ (c = true → s1.cache d = some t)) →
      s1.cls = cls ∧ s1.p.elems = E ∧ s1.p.useCache = c ∧ InvTop leq s1 ∧ InvB leq E Ghost.none c s1.p := by
    intro s1 hp hc hall
    refine ⟨hc, hp.elems, hp.flag, ⟨fun d hd => ?_⟩, hp⟩
    rw [hc] at hd
    obtain ⟨t, ht, hct⟩ := hall d hd
    exact ⟨t, by rw [hp.elems]; exact ht, fun hu => hct (by rw [← hp.flag]; exact hu)⟩
  cases cls with
  | upper =>
    obtain ⟨hyes, hno⟩ := one .anc ⟨.upper, init E c, none, none⟩ hinit
    constructor
    · rintro ⟨_, hex⟩
      obtain ⟨s1, t, hrun, hp1, hc1, ht, hct, _⟩ := hyes (hex .anc rfl)
      simp only [ctor, hlen, ↓reduceIte, hrun]
      refine ⟨s1, rfl, fin s1 hp1 hc1 fun d hd => ?_⟩
      cases d
      · cases hd
      · exact ⟨t, ht, hct⟩
    · intro hn
      have : ¬ ∃ t, isExt leq .anc E t = true := by
        intro hex
        apply hn
        refine ⟨hE, fun d hd => ?_⟩
        cases d
        · cases hd
        · exact hex
      obtain ⟨s', hs'⟩ := hno this
      simp only [ctor, hlen, ↓reduceIte, hs']
  | lower =>
    obtain ⟨hyes, hno⟩ := one .desc ⟨.lower, init E c, none, none⟩ hinit
    constructor
    · rintro ⟨_, hex⟩
      obtain ⟨s1, t, hrun, hp1, hc1, ht, hct, _⟩ := hyes (hex .desc rfl)
      simp only [ctor, hlen, ↓reduceIte, hrun]
      refine ⟨s1, rfl, fin s1 hp1 hc1 fun d hd => ?_⟩
      cases d
      · exact ⟨t, ht, hct⟩
      · cases hd
    · intro hn
      have : ¬ ∃ t, isExt leq .desc E t = true := by
        intro hex
        apply hn
        refine ⟨hE, fun d hd => ?_⟩
        cases d
        · exact hex
        · cases hd
      obtain ⟨s', hs'⟩ := hno this
      simp only [ctor, hlen, ↓reduceIte, hs']
  | lattice =>
    obtain ⟨hyes, hno⟩ := one .desc ⟨.lattice, init E c, none, none⟩ hinit
    constructor
    · rintro ⟨_, hex⟩
      obtain ⟨s1, t, hrun, hp1, hc1, ht, hct, _⟩ := hyes (hex .desc rfl)
      obtain ⟨hyes2, _⟩ := one .anc s1 hp1
      obtain ⟨s2, t2, hrun2, hp2, hc2, ht2, hct2, hfl2⟩ := hyes2 (hex .anc rfl)
      have hm : (do ctorSide leq .desc c; ctorSide leq .anc c : ML α Unit)
          ⟨.lattice, init E c, none, none⟩ = (s2, .ok ()) := (bind_ok hrun).trans hrun2
      simp only [ctor, hlen, ↓reduceIte]
      rw [hm]
      refine ⟨s2, rfl, fin s2 hp2 (hc2.trans hc1) fun d hd => ?_⟩
      cases d
      · refine ⟨t, ht, fun hc => ?_⟩
        have : s2.cache Dir.desc = s1.cache Dir.desc := hfl2
        rw [this]; exact hct hc
      · exact ⟨t2, ht2, hct2⟩
    · intro hn
      by_cases hb : ∃ t, isExt leq .desc E t = true
      · obtain ⟨s1, t, hrun, hp1, hc1, ht, hct, _⟩ := hyes hb
        obtain ⟨_, hno2⟩ := one .anc s1 hp1
        have : ¬ ∃ t, isExt leq .anc E t = true := by
          intro hex
          apply hn
          refine ⟨hE, fun d hd => ?_⟩
          cases d
          · exact hb
          · exact hex
        obtain ⟨s', hs'⟩ := hno2 this
        have hm : (do ctorSide leq .desc c; ctorSide leq .anc c : ML α Unit)
            ⟨.lattice, init E c, none, none⟩ = (s', .error .ValueError) := (bind_ok hrun).trans hs'
        simp only [ctor, hlen, ↓reduceIte]
        rw [hm]
      · obtain ⟨s', hs'⟩ := hno hb
        have hm : (do ctorSide leq .desc c; ctorSide leq .anc c : ML α Unit)
            ⟨.lattice, init E c, none, none⟩ = (s', .error .ValueError) := bind_err hs'
        simp only [ctor, hlen, ↓reduceIte]
        rw [hm]

/-! ### one step of the machine -/

def isMutationSL : OpSL α → Bool
  | .op o => isMutation o
  | .extreme _ => false

/-- the elements an operation brings in belong to the universe `U` -/
def OpInSL (U : α → Prop) : OpSL α → Prop
  | .op o => OpIn U o
  | .extreme _ => True

def refusalSL (leq : α → α → Bool) (cls : Cls) (E : List α) : OpSL α → Option PyErr
  | .op o => refusal leq cls E o
  | .extreme _ => none

theorem invTop_of_frame {s s' : SL α} (hI : InvTop leq s) (hc : s'.cls = s.cls) (he : s'.p.elems = s.p.elems)
    (hu : s'.p.useCache = s.p.useCache) (ht : s'.cacheTop = s.cacheTop) (hb : s'.cacheBottom = s.cacheBottom) :
    InvTop leq s' := by
  refine ⟨fun d hd => ?_⟩
  rw [hc] at hd
  obtain ⟨t, h1, h2⟩ := hI.ext d hd
  refine ⟨t, by rw [he]; exact h1, fun h => ?_⟩
  rw [hu] at h
  have := h2 h
  cases d <;> simp only [SL.cache] at this ⊢
  · rw [hb]; exact this
  · rw [ht]; exact this

theorem addNext_eq_next (E : List α) (e : α) (f : Bool) : addNext E e = next E (.add e f) := rfl

/-- One step under the invariant: a refused operation returns the refusal's exception and the very same state;
    a query, or a mutation that returns normally, re-establishes the invariant over the specified next
    element list. -/
theorem stepSL_spec (hpoU : PO leq U) {s : SL α} (hI : InvTop leq s) (hnd : s.p.elems.Nodup)
    (hU : ∀ a ∈ s.p.elems, U a) (op : OpSL α) (hin : OpInSL U op) :
    (∀ e, refusalSL leq s.cls s.p.elems op = some e → stepSL leq ord s op = (s, .err e)) ∧
    ((isMutationSL op = false ∨ ∀ e, (stepSL leq ord s op).2 ≠ .err e) →
      InvTop leq (stepSL leq ord s op).1 ∧ (stepSL leq ord s op).1.p.elems = nextSL leq s.cls s.p.elems op ∧
      (stepSL leq ord s op).1.cls = s.cls ∧ (stepSL leq ord s op).1.p.useCache = s.p.useCache) := by
  have hpo : IdxPO leq s.p.elems := idxPO_of hpoU hnd hU
  have query : ∀ o : Op α, isMutation o = false →
      let p' := (step leq ord s.p o).1
      InvTop leq ({ s with p := p' } : SL α) ∧ p'.elems = s.p.elems ∧ p'.useCache = s.p.useCache := by
    intro o ho p'
    have := step_query_frame (leq := leq) (ord := ord) s.p o ho
    exact ⟨invTop_of_frame hI rfl this.1 this.2 rfl rfl, this.1, this.2⟩
  cases op with
  | extreme d =>
    refine ⟨fun e h => by simp [refusalSL] at h, fun _ => ?_⟩
    cases hd : s.cls.has d
    · simp only [stepSL, hd, Bool.false_eq_true, ↓reduceIte, nextSL]
      refine ⟨hI, ?_, ?_, ?_⟩ <;> first | trivial | rfl
    · obtain ⟨t, ht, hc⟩ := hI.ext d hd
      simp only [stepSL, hd, ↓reduceIte, nextSL, extremeE_run hpo ht hc]
      refine ⟨hI, ?_, ?_, ?_⟩ <;> first | trivial | rfl
  | op o =>
    cases o with
    | extremes d =>
      refine ⟨fun e h => by simp [refusalSL, refusal] at h, fun _ => ?_⟩
      cases hd : s.cls.has d
      · have hrun : extremesSL leq d s = ML.lift (extremesE leq d) s := by
          unfold extremesSL
          rw [bind_ok (get_apply s)]
          simp only [hd, Bool.false_eq_true, ↓reduceIte]
        have hf := (frame_extremesE (leq := leq) d).h s.p
        simp only [stepSL, hrun, lift_apply, nextSL, refusal, next]
        refine ⟨invTop_of_frame hI rfl hf.1 hf.2 rfl rfl, hf.1, ?_, hf.2⟩
        first | trivial | rfl
      · obtain ⟨t, ht, hc⟩ := hI.ext d hd
        simp only [stepSL, extremesSL_run hpo hd ht hc, nextSL, refusal, next]
        refine ⟨hI, ?_, ?_, ?_⟩ <;> first | trivial | rfl
    | add e f =>
      obtain ⟨h1, h2⟩ := addSL_spec (ord := ord) hpoU hI hnd hU (e := e) hin f
      constructor
      · intro er h
        simp only [refusalSL] at h
        have her : er = .ValueError := by
          simp only [refusal] at h
          split at h <;> simp_all
        subst her
        simp only [stepSL, h1 h, outOf]
      · intro hacc
        have hacc' : ∀ er, (stepSL leq ord s (.op (.add e f))).2 ≠ .err er := by
          rcases hacc with h | h
          · simp [isMutationSL, isMutation] at h
          · exact h
        cases hr : addSL leq ord e f s with
        | mk s' r =>
          simp only [stepSL, hr] at hacc' ⊢
          cases r with
          | error er => exact absurd rfl (hacc' er)
          | ok u =>
            have hnone : refusal leq s.cls s.p.elems (.add e f) = none := by
              cases hx : refusal leq s.cls s.p.elems (.add e f) with
              | none => rfl
              | some er =>
                have her : er = .ValueError := by
                  simp only [refusal] at hx
                  split at hx <;> simp_all
                subst her
                rw [h1 hx] at hr
                cases hr
            have := h2 hnone s' hr
            simp only [nextSL, hnone]
            exact ⟨this.1, this.2.1, this.2.2.1, this.2.2.2⟩
    | del k =>
      obtain ⟨h1, h2⟩ := delSL_spec (ord := ord) hpoU hI hnd hU k
      constructor
      · intro er h
        simp only [refusalSL] at h
        simp only [stepSL, h1 er h, outOf]
      · intro hacc
        have hacc' : ∀ er, (stepSL leq ord s (.op (.del k))).2 ≠ .err er := by
          rcases hacc with h | h
          · simp [isMutationSL, isMutation] at h
          · exact h
        cases hr : delSL leq ord k s with
        | mk s' r =>
          simp only [stepSL, hr] at hacc' ⊢
          cases r with
          | error er => exact absurd rfl (hacc' er)
          | ok u =>
            have hnone : refusal leq s.cls s.p.elems (.del k) = none := by
              cases hx : refusal leq s.cls s.p.elems (.del k) with
              | none => rfl
              | some er => rw [h1 er hx] at hr; cases hr
            have := h2 hnone s' hr
            simp only [nextSL, hnone, next]
            exact ⟨this.1, this.2.1, this.2.2.1, this.2.2.2⟩
    | remove e =>
      obtain ⟨h1, h2⟩ := removeSL_spec (ord := ord) hpoU hI hnd hU e
      constructor
      · intro er h
        simp only [refusalSL] at h
        simp only [stepSL, h1 er h, outOf]
      · intro hacc
        have hacc' : ∀ er, (stepSL leq ord s (.op (.remove e))).2 ≠ .err er := by
          rcases hacc with h | h
          · simp [isMutationSL, isMutation] at h
          · exact h
        cases hr : removeSL leq ord e s with
        | mk s' r =>
          simp only [stepSL, hr] at hacc' ⊢
          cases r with
          | error er => exact absurd rfl (hacc' er)
          | ok u =>
            have hnone : refusal leq s.cls s.p.elems (.remove e) = none := by
              cases hx : refusal leq s.cls s.p.elems (.remove e) with
              | none => rfl
              | some er => rw [h1 er hx] at hr; cases hr
            have := h2 hnone s' hr
            simp only [nextSL, hnone]
            exact ⟨this.1, this.2.1, this.2.2.1, this.2.2.2⟩
    | leq i j =>
      have := query (.leq i j) rfl
      exact ⟨fun e h => by simp [refusalSL, refusal] at h, fun _ => ⟨this.1, this.2.1, rfl, this.2.2⟩⟩
    | closed d i =>
      have := query (.closed d i) rfl
      exact ⟨fun e h => by simp [refusalSL, refusal] at h, fun _ => ⟨this.1, this.2.1, rfl, this.2.2⟩⟩
    | direct d i =>
      have := query (.direct d i) rfl
      exact ⟨fun e h => by simp [refusalSL, refusal] at h, fun _ => ⟨this.1, this.2.1, rfl, this.2.2⟩⟩
    | bound d S =>
      have := query (.bound d S) rfl
      exact ⟨fun e h => by simp [refusalSL, refusal] at h, fun _ => ⟨this.1, this.2.1, rfl, this.2.2⟩⟩
    | index e =>
      have := query (.index e) rfl
      exact ⟨fun e h => by simp [refusalSL, refusal] at h, fun _ => ⟨this.1, this.2.1, rfl, this.2.2⟩⟩
    | eqOther O =>
      have := query (.eqOther O) rfl
      exact ⟨fun e h => by simp [refusalSL, refusal] at h, fun _ => ⟨this.1, this.2.1, rfl, this.2.2⟩⟩
    | fillUp k =>
      have := query (.fillUp k) rfl
      exact ⟨fun e h => by simp [refusalSL, refusal] at h, fun _ => ⟨this.1, this.2.1, rfl, this.2.2⟩⟩

end
end Fca.SemiLattice

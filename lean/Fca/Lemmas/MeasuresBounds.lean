/-
  Fca.Lemmas.MeasuresBounds — counting the non-generators of a concept between the child extents,
  and the exact-fraction arithmetic of `stability_bounds` / `log_stability_lbound`.
-/
import Fca.Lemmas.MeasuresLattice
import Mathlib.Algebra.Order.Field.Basic
import Mathlib.Algebra.Order.Field.Rat
import Mathlib.Tactic.Ring
import Mathlib.Tactic.Linarith
import Mathlib.Tactic.FieldSimp
namespace Fca.Measures
open Fca Fca.Spec

/-! ### the helper lists of the model -/

theorem dedup_of_nodup : ∀ {l : List Nat}, l.Nodup → dedup l = l
  | [], _ => rfl
  | x :: xs, h => by
    obtain ⟨hx, hxs⟩ := List.nodup_cons.mp h
    simp only [dedup, dedup_of_nodup hxs]
    congr 1
    apply List.filter_eq_self.mpr
    intro y hy
    simp only [bne_iff_ne, ne_eq]
    rintro rfl
    exact hx hy

/-- `len(set(A) - set(D)) + |A ∩ D| = |A|` for a duplicate-free `A` -/
theorem setDiffLen_add {A : List Nat} (hA : A.Nodup) (D : List Nat) :
    setDiffLen A D + A.countP (fun g => D.contains g) = A.length := by
  unfold setDiffLen
  rw [dedup_of_nodup hA, ← List.countP_eq_length_filter]
  have := List.length_eq_countP_add_countP (fun g => D.contains g) (l := A)
  have e : (fun a => decide ¬(D.contains a) = true) = (fun g => !(D.contains g)) := by
    funext a; cases D.contains a <;> rfl
  rw [e] at this
  omega

/-- extent of the concept number `j` (empty when out of range) -/
def extOf (L : Lattice) (j : Nat) : List Nat := (L.concepts.map Prod.fst).getD j []

theorem extOf_eq (L : Lattice) {j : Nat} {c : List Nat × List Nat} (hj : L.concepts[j]? = some c) :
    extOf L j = c.1 := exts_getD L hj

theorem get_ok (L : Lattice) {j : Nat} {c : List Nat × List Nat} (hj : L.concepts[j]? = some c) :
    L.get j = .ok c := by
  simp [Lattice.get, hj]

theorem invDiff_eq (L : Lattice) (A : List Nat) (cs : List Nat) (hcs : ∀ j ∈ cs, j < L.concepts.length) :
    invDiff L A cs = .ok (cs.map fun j => pow2neg (setDiffLen A (extOf L j))) := by
  induction cs with
  | nil => rfl
  | cons j rest ih =>
    obtain ⟨c, hc⟩ := get_of_lt L (hcs j List.mem_cons_self)
    have ih' := ih (fun k hk => hcs k (List.mem_cons_of_mem _ hk))
    simp only [invDiff, get_ok L hc, ih', List.map_cons, extOf_eq L hc]
    rfl

theorem deltas_eq (L : Lattice) (A : List Nat) (cs : List Nat) (hcs : ∀ j ∈ cs, j < L.concepts.length) :
    deltas L A cs = .ok (cs.map fun j => setDiffLen A (extOf L j)) := by
  induction cs with
  | nil => rfl
  | cons j rest ih =>
    obtain ⟨c, hc⟩ := get_of_lt L (hcs j List.mem_cons_self)
    have ih' := ih (fun k hk => hcs k (List.mem_cons_of_mem _ hk))
    simp only [deltas, get_ok L hc, ih', List.map_cons, extOf_eq L hc]
    rfl

theorem pyMax_mem : ∀ {xs : List Rat} {m : Rat}, pyMax xs = .ok m → m ∈ xs
  | [], _, h => by cases h
  | x :: xs, m, h => by
    simp only [pyMax, Except.ok.injEq] at h
    subst h
    have : ∀ (l : List Rat) (a : Rat), l.foldl (fun m y => if m < y then y else m) a ∈ a :: l := by
      intro l
      induction l with
      | nil => intro a; simp
      | cons y ys ih =>
        intro a
        simp only [List.foldl_cons]
        have := ih (if a < y then y else a)
        rcases List.mem_cons.mp this with h1 | h1
        · rw [h1]; split <;> simp
        · exact List.mem_cons_of_mem _ (List.mem_cons_of_mem _ h1)
    exact this xs x

theorem pyMax_ok_of_ne_nil {xs : List Rat} (h : xs ≠ []) : ∃ m, pyMax xs = .ok m := by
  cases xs with
  | nil => exact absurd rfl h
  | cons x xs => exact ⟨_, rfl⟩

theorem pyMin_spec : ∀ {xs : List Nat} {m : Nat}, pyMin xs = .ok m → m ∈ xs ∧ ∀ x ∈ xs, m ≤ x
  | [], _, h => by cases h
  | x :: xs, m, h => by
    simp only [pyMin, Except.ok.injEq] at h
    subst h
    have : ∀ (l : List Nat) (a : Nat),
        l.foldl (fun m y => if y < m then y else m) a ∈ a :: l ∧
        ∀ z ∈ a :: l, l.foldl (fun m y => if y < m then y else m) a ≤ z := by
      intro l
      induction l with
      | nil => intro a; simp
      | cons y ys ih =>
        intro a
        simp only [List.foldl_cons]
        have hv : (if y < a then y else a) ≤ a ∧ (if y < a then y else a) ≤ y ∧
            ((if y < a then y else a) = a ∨ (if y < a then y else a) = y) := by split <;> omega
        generalize (if y < a then y else a) = v at hv ⊢
        obtain ⟨h1, h2⟩ := ih v
        constructor
        · rcases List.mem_cons.mp h1 with h1 | h1
          · rw [h1]; rcases hv.2.2 with e | e <;> simp [e]
          · exact List.mem_cons_of_mem _ (List.mem_cons_of_mem _ h1)
        · intro z hz
          have hmin := h2 v List.mem_cons_self
          rcases List.mem_cons.mp hz with rfl | hz
          · omega
          · rcases List.mem_cons.mp hz with rfl | hz
            · omega
            · exact h2 z (List.mem_cons_of_mem _ hz)
    exact this xs x

theorem pyMin_ok_of_ne_nil {xs : List Nat} (h : xs ≠ []) : ∃ m, pyMin xs = .ok m := by
  cases xs with
  | nil => exact absurd rfl h
  | cons x xs => exact ⟨_, rfl⟩

/-! ### counting non-generators -/

/-- number of subsets of `A` whose intention is not `B` -/
def nonGenCount (t : Table) (A B : List Nat) : Nat :=
  (sublists A).countP fun S => !(intAll t S == B)

theorem gen_add_nongen (t : Table) (A B : List Nat) :
    genCount t A B + nonGenCount t A B = 2 ^ A.length := by
  unfold genCount nonGenCount
  rw [← length_sublists A]
  have := List.length_eq_countP_add_countP (fun S => intAll t S == B) (l := sublists A)
  have e : (fun a => decide ¬(intAll t a == B) = true) = (fun S => !(intAll t S == B)) := by
    funext a; cases (intAll t a == B) <;> rfl
  rw [e] at this
  omega

/-- `|A ∩ D_j|` -/
def kOf (L : Lattice) (A : List Nat) (j : Nat) : Nat := A.countP fun g => (extOf L j).contains g

section
variable {t : Table} {L : Lattice} (h : IsLatticeOf t L)
include h

theorem children_lt {i : Nat} {A B : List Nat} (hi : L.concepts[i]? = some (A, B)) :
    ∀ j ∈ L.childrenOf i, j < L.concepts.length := by
  intro j hj
  obtain ⟨D, E, hc, _, _⟩ := child_facts h hi hj
  rcases Nat.lt_or_ge j L.concepts.length with hlt | hge
  · exact hlt
  · rw [List.getElem?_eq_none hge] at hc; cases hc

/-- the non-generators are exactly the subsets of `A` contained in some child extent -/
theorem nonGenCount_eq {i : Nat} {A B : List Nat} (hi : L.concepts[i]? = some (A, B)) :
    nonGenCount t A B = (sublists A).countP fun S =>
      (L.childrenOf i).any fun j => S.all fun g => (extOf L j).contains g := by
  unfold nonGenCount
  apply List.countP_congr
  intro S hS
  have hSA := mem_of_mem_sublists hS
  simp only [Bool.not_eq_true', beq_eq_false_iff_ne, ne_eq, List.any_eq_true, List.all_eq_true,
    List.contains_eq_mem, decide_eq_true_eq]
  constructor
  · intro hne
    obtain ⟨j, D, E, hj, hc, hsub⟩ := nongen_under_child h hi hSA hne
    exact ⟨j, hj, by rw [extOf_eq L hc]; exact hsub⟩
  · rintro ⟨j, hj, hsub⟩
    obtain ⟨D, E, hc, _, _⟩ := child_facts h hi hj
    rw [extOf_eq L hc] at hsub
    exact under_child_nongen h hi hj hc hsub

/-- `#non-generators ≤ Σ_children 2^{|D|}` -/
theorem nonGenCount_le_sum {i : Nat} {A B : List Nat} (hi : L.concepts[i]? = some (A, B)) :
    nonGenCount t A B ≤ ((L.childrenOf i).map fun j => 2 ^ kOf L A j).sum := by
  rw [nonGenCount_eq h hi]
  refine Nat.le_trans (countP_any_le_sum (L.childrenOf i)
    (fun j (S : List Nat) => S.all fun g => (extOf L j).contains g) (sublists A)) ?_
  apply Nat.le_of_eq
  congr 1
  apply List.map_congr_left
  intro j _
  exact countP_sublists_all _ A

/-- `2^{|D|} ≤ #non-generators` for every child `D` -/
theorem pow_le_nonGenCount {i j : Nat} {A B : List Nat} (hi : L.concepts[i]? = some (A, B))
    (hj : j ∈ L.childrenOf i) : 2 ^ kOf L A j ≤ nonGenCount t A B := by
  rw [nonGenCount_eq h hi]
  unfold kOf
  rw [← countP_sublists_all]
  apply List.countP_mono_left
  intro S _ hS
  simp only [List.any_eq_true]
  exact ⟨j, hj, hS⟩

/-- a concept without children is generated by every subset of its extent -/
theorem nonGenCount_childless {i : Nat} {A B : List Nat} (hi : L.concepts[i]? = some (A, B))
    (hch : L.childrenOf i = []) : nonGenCount t A B = 0 := by
  have := nonGenCount_le_sum h hi
  rw [hch] at this
  simpa using this

theorem extent_nodup {i : Nat} {A B : List Nat} (hi : L.concepts[i]? = some (A, B)) : A.Nodup := by
  rw [← ((isConcept_iff t).mp (isConcept_of_get h hi)).1]
  exact extAll_nodup t _

theorem delta_add_k {i : Nat} {A B : List Nat} (hi : L.concepts[i]? = some (A, B)) (j : Nat) :
    setDiffLen A (extOf L j) + kOf L A j = A.length :=
  setDiffLen_add (extent_nodup h hi) _

end

/-! ### exact fractions -/

theorem pow2neg_eq {d k n : Nat} (hdk : d + k = n) : pow2neg d = ((2 ^ k : Nat) : Rat) / ((2 ^ n : Nat) : Rat) := by
  unfold pow2neg
  subst hdk
  push_cast
  rw [pow_add]
  field_simp

theorem pySum_map_div (cs : List Nat) (g : Nat → Nat) (D : Rat) :
    pySum (cs.map fun j => ((g j : Nat) : Rat) / D) = (((cs.map g).sum : Nat) : Rat) / D := by
  unfold pySum
  have : ∀ (a : Rat), (cs.map fun j => ((g j : Nat) : Rat) / D).foldl (· + ·) a
      = a + (((cs.map g).sum : Nat) : Rat) / D := by
    induction cs with
    | nil => intro a; simp
    | cons j rest ih =>
      intro a
      simp only [List.map_cons, List.foldl_cons, ih, List.sum_cons]
      push_cast
      ring
  rw [this 0]; ring

/-- `Σ_j 2^{k_j} · 2^{dmin} ≤ #children · 2^n` when `k_j + dmin ≤ n` for every child -/
theorem sum_pow_mul_le (cs : List Nat) (k : Nat → Nat) (dmin n : Nat) (hk : ∀ j ∈ cs, k j + dmin ≤ n) :
    ((cs.map fun j => 2 ^ k j).sum) * 2 ^ dmin ≤ cs.length * 2 ^ n := by
  induction cs with
  | nil => simp
  | cons j rest ih =>
    have ih' := ih (fun x hx => hk x (List.mem_cons_of_mem _ hx))
    have hj := hk j List.mem_cons_self
    have : 2 ^ k j * 2 ^ dmin ≤ 2 ^ n := by
      rw [← Nat.pow_add]; exact Nat.pow_le_pow_right (by omega) hj
    simp only [List.map_cons, List.sum_cons, List.length_cons, Nat.add_mul]
    omega

end Fca.Measures

/-
  Fca.Lemmas.LatticeQuerySort — `sort_concepts`: the key order is a total preorder, so the (stable merge) sort
  yields a list sorted by it; the concept with the strictly largest / smallest extent comes first / last.
-/
import Fca.Lemmas.LatticeQueryConcept
namespace Fca.LQ
open Fca Fca.Spec

theorem keyLe_trans (a b c : Concept) (h₁ : keyLe a b = true) (h₂ : keyLe b c = true) : keyLe a c = true := by
  unfold keyLe at *
  simp only [Bool.or_eq_true, decide_eq_true_eq, Bool.and_eq_true, beq_iff_eq] at *
  rcases h₁ with h₁ | ⟨e₁, s₁⟩ <;> rcases h₂ with h₂ | ⟨e₂, s₂⟩
  · left; omega
  · left; omega
  · left; omega
  · right; exact ⟨by omega, String.le_trans s₁ s₂⟩

theorem keyLe_total (a b : Concept) : (keyLe a b || keyLe b a) = true := by
  unfold keyLe
  simp only [Bool.or_eq_true, decide_eq_true_eq, Bool.and_eq_true, beq_iff_eq]
  rcases Nat.lt_trichotomy a.1.length b.1.length with h | h | h
  · right; left; exact h
  · rcases String.le_total (extKey a.1) (extKey b.1) with s | s
    · left; right; exact ⟨h, s⟩
    · right; right; exact ⟨h.symm, s⟩
  · left; left; exact h

theorem keyLe_len {a b : Concept} (h : keyLe a b = true) : b.1.length ≤ a.1.length := by
  unfold keyLe at h
  simp only [Bool.or_eq_true, decide_eq_true_eq, Bool.and_eq_true, beq_iff_eq] at h
  rcases h with h | ⟨e, _⟩ <;> omega

theorem sortConcepts_perm (cs : Lat) : (sortConcepts cs).Perm cs := List.mergeSort_perm cs keyLe

theorem sortConcepts_pairwise (cs : Lat) : (sortConcepts cs).Pairwise (fun a b => keyLe a b = true) :=
  List.pairwise_mergeSort keyLe_trans keyLe_total cs

theorem sortConcepts_supports (cs : Lat) :
    (sortConcepts cs).Pairwise (fun a b => b.1.length ≤ a.1.length) :=
  List.Pairwise.imp keyLe_len (sortConcepts_pairwise cs)

theorem IsConceptList.sort {t : Table} {cs : Lat} (H : IsConceptList t cs) :
    IsConceptList t (sortConcepts cs) := (sortConcepts_perm cs).trans H

/-- a duplicate-free list strictly inside another one is strictly shorter -/
theorem length_lt_of_ssubset {a b : List Nat} (hnd : a.Nodup) (hsub : ∀ g ∈ a, g ∈ b) {x : Nat}
    (hxb : x ∈ b) (hxa : x ∉ a) : a.length < b.length := by
  have h1 : a.length ≤ (b.erase x).length := by
    apply List.Nodup.length_le_of_subset hnd
    intro g hg
    exact (List.mem_erase_of_ne (fun (e : g = x) => hxa (by rw [← e]; exact hg))).mpr (hsub g hg)
  have h2 : (b.erase x).length = b.length - 1 := by rw [List.length_erase]; simp [hxb]
  have h3 : 1 ≤ b.length := List.length_pos_of_mem hxb
  omega

/-- two different concepts with nested extents have supports that differ -/
theorem support_lt {t : Table} {c d : Concept} (hc : isConcept t c.1 c.2 = true)
    (hd : isConcept t d.1 d.2 = true) (hsub : ∀ g ∈ c.1, g ∈ d.1) (hne : c ≠ d) :
    c.1.length < d.1.length := by
  rw [isConcept_iff] at hc hd
  have hnsub : ¬ ∀ g ∈ d.1, g ∈ c.1 := by
    intro hback
    apply hne
    have he : c.1 = d.1 := by
      apply PQ.sorted_ext
      · rw [← hc.1]; exact extAll_sorted t _
      · rw [← hd.1]; exact extAll_sorted t _
      · exact fun x => ⟨hsub x, hback x⟩
    apply Prod.ext he
    rw [← hc.2, ← hd.2, he]
  have : ∃ x, x ∈ d.1 ∧ x ∉ c.1 := by
    apply Classical.byContradiction
    intro hno
    apply hnsub
    intro g hg
    apply Classical.byContradiction
    intro hgc
    exact hno ⟨g, hg, hgc⟩
  obtain ⟨x, hxd, hxc⟩ := this
  exact length_lt_of_ssubset (by rw [← hc.1]; exact extAll_nodup t _) hsub hxd hxc

theorem head_of_pairwise {α} {R : α → α → Prop} : ∀ {l : List α} {c : α}, l.Pairwise R → c ∈ l →
    (∀ d ∈ l, d ≠ c → ¬ R d c) → l.head? = some c
  | [], _, _, h, _ => by cases h
  | a :: rest, c, hp, hc, hno => by
    rw [List.pairwise_cons] at hp
    rcases List.mem_cons.mp hc with e | hcr
    · rw [e]; rfl
    · by_cases e : a = c
      · rw [e]; rfl
      · exact absurd (hp.1 c hcr) (hno a List.mem_cons_self e)

theorem getLast_of_pairwise {α} {R : α → α → Prop} : ∀ {l : List α} {c : α}, l.Pairwise R → c ∈ l →
    (∀ d ∈ l, d ≠ c → ¬ R c d) → l.getLast? = some c
  | [], _, _, h, _ => by cases h
  | [a], c, _, hc, _ => by
    rcases List.mem_cons.mp hc with e | h
    · rw [e]; rfl
    · cases h
  | a :: b :: rest, c, hp, hc, hno => by
    rw [List.pairwise_cons] at hp
    rw [List.getLast?_cons_cons]
    by_cases hcr : c ∈ b :: rest
    · exact getLast_of_pairwise hp.2 hcr (fun d hd => hno d (List.mem_cons_of_mem _ hd))
    · have e : c = a := by
        rcases List.mem_cons.mp hc with e | h
        · exact e
        · exact absurd h hcr
      subst e
      have hb : b ≠ c := fun e => hcr (e ▸ List.mem_cons_self)
      exact absurd (hp.1 b List.mem_cons_self) (hno b (List.mem_cons_of_mem _ List.mem_cons_self) hb)

theorem supportsNonIncreasing_of_pairwise : ∀ {l : Lat},
    l.Pairwise (fun a b => b.1.length ≤ a.1.length) → Spec.supportsNonIncreasing l = true
  | [], _ => rfl
  | [_], _ => rfl
  | a :: b :: rest, hp => by
    rw [List.pairwise_cons] at hp
    unfold Spec.supportsNonIncreasing
    rw [Bool.and_eq_true, decide_eq_true_eq]
    exact ⟨hp.1 b List.mem_cons_self, supportsNonIncreasing_of_pairwise hp.2⟩

/-- in a support-sorted enumeration of all concepts the first concept is the top one -/
theorem head_of_sorted {t : Table} {l : Lat} (H : IsConceptList t l)
    (hp : l.Pairwise (fun a b => b.1.length ≤ a.1.length)) :
    l.head? = some (extAll t [], closureAttr t []) := by
  have hct : Spec.isConcept t (extAll t []) (closureAttr t []) = true :=
    isConcept_of_attrs t (B := []) (fun _ h => by cases h)
  apply head_of_pairwise hp ((H.mem_iff (c := (extAll t [], closureAttr t []))).mpr hct)
  intro d hd hne
  have hdc := H.mem_iff.mp hd
  have hsub : ∀ g ∈ d.1, g ∈ (extAll t [], closureAttr t []).1 := by
    intro g hg
    show g ∈ extAll t []
    rw [extAll_nil]
    have : g ∈ extAll t d.2 := by rw [((isConcept_iff t).mp hdc).1]; exact hg
    exact List.mem_range.mpr (extAll_lt t g this)
  have := support_lt hdc hct hsub hne
  show ¬ (extAll t []).length ≤ d.1.length
  simp only at this
  omega

/-- … and the last concept is the bottom one -/
theorem getLast_of_sorted {t : Table} {l : Lat} (H : IsConceptList t l)
    (hp : l.Pairwise (fun a b => b.1.length ≤ a.1.length)) :
    l.getLast? = some (extAll t (List.range t.width), closureAttr t (List.range t.width)) := by
  have hcb : Spec.isConcept t (extAll t (List.range t.width)) (closureAttr t (List.range t.width)) = true :=
    isConcept_of_attrs t (fun _ h => List.mem_range.mp h)
  apply getLast_of_pairwise hp ((H.mem_iff (c := (_, _))).mpr hcb)
  intro d hd hne
  have hdc := H.mem_iff.mp hd
  have hsub : ∀ g ∈ (extAll t (List.range t.width), closureAttr t (List.range t.width)).1, g ∈ d.1 := by
    intro g hg
    rw [← ((isConcept_iff t).mp hdc).1]
    refine extAll_antitone t (fun a ha => List.mem_range.mpr ?_) g hg
    have : a ∈ intAll t d.1 := by rw [((isConcept_iff t).mp hdc).2]; exact ha
    exact intAll_lt t a this
  have := support_lt hcb hdc hsub (fun e => hne e.symm)
  show ¬ d.1.length ≤ (extAll t (List.range t.width)).length
  simp only at this
  omega

theorem extOf_zero_of_head {l : Lat} {c : Concept} (h : l.head? = some c) : extOf l 0 = c.1 := by
  cases l with
  | nil => cases h
  | cons a rest => simp only [List.head?_cons, Option.some.injEq] at h; subst h; rfl

theorem extOf_last_of_getLast {l : Lat} {c : Concept} (h : l.getLast? = some c) :
    extOf l (l.length - 1) = c.1 := by
  unfold extOf conc
  rw [List.getD_eq_getElem?_getD, ← List.getLast?_eq_getElem?, h]
  rfl

end Fca.LQ

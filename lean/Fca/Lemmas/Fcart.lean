/-
  Lemmas for `fcart_layout`: the x coordinate is strictly monotone in the rank, and the ranks
  `id_on_lvl` of a level are pairwise different (sorting permutes, enumeration is injective,
  later levels do not touch earlier ones).
-/
import Fca.Lemmas.Layout
namespace Fca.Layout

theorem fcartX_lt (cl : List Nat) (ld : List (List Nat)) (idOn : List Nat) (i j : Nat)
    (hl : cl.getD i 0 = cl.getD j 0) (h : idOn.getD i 0 < idOn.getD j 0) :
    fcartX cl ld idOn i < fcartX cl ld idOn j := by
  unfold fcartX
  rw [hl]
  generalize ((ld.getD (cl.getD j 0) []).length : Nat) = cnt
  have hc : (0 : Rat) < (cnt : Rat) + 1 := by
    have : (0 : Rat) ≤ (cnt : Rat) := by exact_mod_cast Nat.zero_le cnt
    grind
  have hinv : (0 : Rat) < ((cnt : Rat) + 1)⁻¹ := Rat.inv_pos.mpr hc
  have hab : ((idOn.getD i 0 : Nat) : Rat) < ((idOn.getD j 0 : Nat) : Rat) := by exact_mod_cast h
  rw [Rat.div_def, Rat.div_def]
  have h1 : 2 * (((idOn.getD i 0 : Nat) : Rat) + 1) < 2 * (((idOn.getD j 0 : Nat) : Rat) + 1) := by grind
  have h2 := Rat.mul_lt_mul_of_pos_right h1 hinv
  grind

theorem fcartX_inj (cl : List Nat) (ld : List (List Nat)) (idOn : List Nat) (i j : Nat)
    (hl : cl.getD i 0 = cl.getD j 0) (h : fcartX cl ld idOn i = fcartX cl ld idOn j) :
    idOn.getD i 0 = idOn.getD j 0 := by
  rcases Nat.lt_trichotomy (idOn.getD i 0) (idOn.getD j 0) with hlt | heq | hgt
  · have := fcartX_lt cl ld idOn i j hl hlt
    rw [h] at this; exact absurd this Rat.lt_irrefl
  · exact heq
  · have := fcartX_lt cl ld idOn j i hl.symm hgt
    rw [h] at this; exact absurd this Rat.lt_irrefl

/-! ### `id_on_lvl` -/

theorem getD_set_eq' (l : List Nat) (i : Nat) (x : Nat) (h : i < l.length) : (l.set i x).getD i 0 = x := by
  simp [List.getD_eq_getElem?_getD, h]

theorem getD_set_ne' (l : List Nat) (i j : Nat) (x : Nat) (h : i ≠ j) : (l.set i x).getD j 0 = l.getD j 0 := by
  simp [List.getD_eq_getElem?_getD, h]

theorem assignIds_spec : ∀ (es : List Nat) (k : Nat) (idOn : List Nat), es.Nodup → (∀ e ∈ es, e < idOn.length) →
    (assignIds es k idOn).length = idOn.length ∧
    (∀ s (h : s < es.length), (assignIds es k idOn).getD es[s] 0 = k + s) ∧
    (∀ j, j ∉ es → (assignIds es k idOn).getD j 0 = idOn.getD j 0)
  | [], k, idOn, _, _ => ⟨rfl, fun s h => absurd h (Nat.not_lt_zero _), fun _ _ => rfl⟩
  | e :: es, k, idOn, hnd, hr => by
    obtain ⟨hne, hnd'⟩ := List.nodup_cons.mp hnd
    have hr' : ∀ x ∈ es, x < (idOn.set e k).length := by
      intro x hx; rw [List.length_set]; exact hr x (List.mem_cons_of_mem _ hx)
    obtain ⟨a, b, c⟩ := assignIds_spec es (k + 1) (idOn.set e k) hnd' hr'
    simp only [assignIds]
    refine ⟨by rw [a, List.length_set], ?_, ?_⟩
    · intro s hs
      cases s with
      | zero =>
        simp only [List.getElem_cons_zero, Nat.add_zero]
        rw [c e hne]
        exact getD_set_eq' _ _ _ (hr e List.mem_cons_self)
      | succ s =>
        simp only [List.getElem_cons_succ]
        rw [b s (by simpa using hs)]
        omega
    · intro j hj
      have h1 : j ≠ e := fun e' => hj (e' ▸ List.mem_cons_self)
      have h2 : j ∉ es := fun hm => hj (List.mem_cons_of_mem _ hm)
      rw [c j h2]
      exact getD_set_ne' _ _ _ _ (Ne.symm h1)

/-- enumerating a duplicate-free list gives its members pairwise different ids and touches nothing else -/
theorem assignIds_inj (es : List Nat) (idOn : List Nat) (hnd : es.Nodup) (hr : ∀ e ∈ es, e < idOn.length) :
    (assignIds es 0 idOn).length = idOn.length ∧
    (∀ a b, a ∈ es → b ∈ es → a ≠ b → (assignIds es 0 idOn).getD a 0 ≠ (assignIds es 0 idOn).getD b 0) ∧
    (∀ j, j ∉ es → (assignIds es 0 idOn).getD j 0 = idOn.getD j 0) := by
  obtain ⟨a, b, c⟩ := assignIds_spec es 0 idOn hnd hr
  refine ⟨a, ?_, c⟩
  intro x y hx hy hxy
  obtain ⟨s, hs, rfl⟩ := List.getElem_of_mem hx
  obtain ⟨t, ht, rfl⟩ := List.getElem_of_mem hy
  rw [b s hs, b t ht]
  intro e
  have : s = t := by omega
  subst this
  exact hxy rfl

theorem insertPair_perm (a : Rat × Nat) : ∀ l : List (Rat × Nat), (insertPair a l).Perm (a :: l)
  | [] => List.Perm.refl _
  | b :: bs => by
    simp only [insertPair]
    split
    · exact List.Perm.refl _
    · exact ((insertPair_perm a bs).cons b).trans (List.Perm.swap a b bs)

theorem sortPairs_perm : ∀ l : List (Rat × Nat), (sortPairs l).Perm l
  | [] => List.Perm.refl _
  | a :: as => (insertPair_perm a _).trans ((sortPairs_perm as).cons a)

theorem mapM_length {α β} (f : α → Except VErr β) : ∀ (l : List α) (r : List β), l.mapM f = .ok r → r.length = l.length
  | [], r, h => by
    simp only [List.mapM_nil, pure, Except.pure] at h
    cases h; rfl
  | a :: as, r, h => by
    simp only [List.mapM_cons, bind, Except.bind, pure, Except.pure] at h
    split at h
    · cases h
    · rename_i b hb
      split at h
      · cases h
      · rename_i bs hbs
        cases h
        simp only [List.length_cons, mapM_length f as bs hbs]

theorem zip_map_snd {α β} : ∀ (l₁ : List α) (l₂ : List β), l₁.length = l₂.length → (l₁.zip l₂).map (·.2) = l₂
  | [], [], _ => rfl
  | [], _ :: _, h => by simp at h
  | _ :: _, [], h => by simp at h
  | a :: as, b :: bs, h => by
    simp only [List.zip_cons_cons, List.map_cons, zip_map_snd as bs (by simpa using h)]

theorem fcartLevel_spec {P : PosetData} {c : Rat} {dpth : Int} {cl : List Nat} {ld : List (List Nat)}
    {idOn idOn' : List Nat} {lvl : Nat} {elems : List Nat}
    (h : fcartLevel P c dpth cl ld idOn lvl elems = .ok idOn') (hnd : elems.Nodup)
    (hr : ∀ e ∈ elems, e < idOn.length) :
    idOn'.length = idOn.length ∧
    (∀ a b, a ∈ elems → b ∈ elems → a ≠ b → idOn'.getD a 0 ≠ idOn'.getD b 0) ∧
    (∀ j, j ∉ elems → idOn'.getD j 0 = idOn.getD j 0) := by
  unfold fcartLevel at h
  split at h
  · split at h
    · cases h
    · rename_i prios hp
      cases h
      have hlen := mapM_length _ _ _ hp
      have hperm : ((sortPairs (prios.zip elems)).map (·.2)).Perm elems := by
        have := (sortPairs_perm (prios.zip elems)).map (·.2)
        rw [zip_map_snd prios elems hlen] at this
        exact this
      obtain ⟨a, b, c⟩ := assignIds_inj _ idOn (hperm.nodup_iff.mpr hnd)
        (fun e he => hr e (hperm.mem_iff.mp he))
      exact ⟨a, fun x y hx hy => b x y (hperm.mem_iff.mpr hx) (hperm.mem_iff.mpr hy),
        fun j hj => c j (fun hm => hj (hperm.mem_iff.mp hm))⟩
  · cases h
    exact assignIds_inj elems idOn hnd hr

theorem fcartLevels_spec {P : PosetData} {c : Rat} {dpth : Int} {cl : List Nat} {ld : List (List Nat)} :
    ∀ (rest : List (List Nat)) (lvl : Nat) (idOn idOnF : List Nat),
    fcartLevels P c dpth cl ld rest lvl idOn = .ok idOnF →
    rest.Pairwise (fun a b => ∀ x ∈ a, x ∉ b) → (∀ es ∈ rest, es.Nodup ∧ ∀ e ∈ es, e < idOn.length) →
    idOnF.length = idOn.length ∧
    (∀ es ∈ rest, ∀ a b, a ∈ es → b ∈ es → a ≠ b → idOnF.getD a 0 ≠ idOnF.getD b 0)
  | [], _, idOn, idOnF, h, _, _ => by
    simp only [fcartLevels] at h; cases h
    exact ⟨rfl, fun es hes => by cases hes⟩
  | es0 :: rest, lvl, idOn, idOnF, h, hpw, hall => by
    simp only [fcartLevels] at h
    split at h
    · cases h
    · rename_i idOn1 h1
      obtain ⟨hd0, hdr⟩ := List.pairwise_cons.mp hpw
      obtain ⟨hnd0, hr0⟩ := hall es0 List.mem_cons_self
      obtain ⟨a1, b1, c1⟩ := fcartLevel_spec h1 hnd0 hr0
      have hall' : ∀ es ∈ rest, es.Nodup ∧ ∀ e ∈ es, e < idOn1.length := by
        intro es hes
        obtain ⟨x, y⟩ := hall es (List.mem_cons_of_mem _ hes)
        exact ⟨x, fun e he => by rw [a1]; exact y e he⟩
      -- later levels do not touch the members of `es0`
      have hkeep : ∀ (rest' : List (List Nat)) (lvl' : Nat) (i1 iF : List Nat),
          fcartLevels P c dpth cl ld rest' lvl' i1 = .ok iF →
          (∀ es ∈ rest', es.Nodup ∧ ∀ e ∈ es, e < i1.length) →
          ∀ j, (∀ es ∈ rest', j ∉ es) → iF.getD j 0 = i1.getD j 0 := by
        intro rest'
        induction rest' with
        | nil => intro _ i1 iF h _ j _; simp only [fcartLevels] at h; cases h; rfl
        | cons e0 r ih =>
          intro lvl' i1 iF h hall j hj
          simp only [fcartLevels] at h
          split at h
          · cases h
          · rename_i i2 h2
            obtain ⟨x, y⟩ := hall e0 List.mem_cons_self
            obtain ⟨a2, _, c2⟩ := fcartLevel_spec h2 x y
            rw [ih _ i2 iF h (fun es hes => by
              obtain ⟨x', y'⟩ := hall es (List.mem_cons_of_mem _ hes)
              exact ⟨x', fun e he => by rw [a2]; exact y' e he⟩) j
              (fun es hes => hj es (List.mem_cons_of_mem _ hes))]
            exact c2 j (hj e0 List.mem_cons_self)
      obtain ⟨aF, bF⟩ := fcartLevels_spec rest (lvl + 1) idOn1 idOnF h hdr hall'
      refine ⟨by rw [aF, a1], ?_⟩
      intro es hes a b ha hb hab
      rcases List.mem_cons.mp hes with e | hes'
      · subst e
        rw [hkeep rest (lvl + 1) idOn1 idOnF h hall' a (fun es' hes' => hd0 es' hes' a ha),
          hkeep rest (lvl + 1) idOn1 idOnF h hall' b (fun es' hes' => hd0 es' hes' b hb)]
        exact b1 a b ha hb hab
      · exact bF es hes' a b ha hb hab

theorem foldl_max_ge : ∀ (l : List Nat) (a : Nat), a ≤ l.foldl max a ∧ ∀ x ∈ l, x ≤ l.foldl max a
  | [], a => ⟨Nat.le_refl _, fun x hx => by cases hx⟩
  | y :: ys, a => by
    obtain ⟨h1, h2⟩ := foldl_max_ge ys (max a y)
    simp only [List.foldl_cons]
    refine ⟨by omega, ?_⟩
    intro x hx
    rcases List.mem_cons.mp hx with rfl | hx
    · omega
    · exact h2 x hx

theorem levelsDict_facts (l : List Nat) :
    (levelsDict l).Pairwise (fun a b => ∀ x ∈ a, x ∉ b) ∧
    (∀ es ∈ levelsDict l, es.Nodup ∧ ∀ e ∈ es, e < l.length) ∧
    (∀ i, i < l.length → ∃ es ∈ levelsDict l, ∀ j, j ∈ es ↔ j < l.length ∧ l.getD j 0 = l.getD i 0) := by
  unfold levelsDict
  refine ⟨?_, ?_, ?_⟩
  · rw [List.pairwise_map]
    refine List.Pairwise.imp ?_ List.pairwise_lt_range
    intro a b hab x hx hx'
    simp only [List.mem_filter, List.mem_range, beq_iff_eq] at hx hx'
    omega
  · intro es hes
    obtain ⟨lv, _, rfl⟩ := List.mem_map.mp hes
    refine ⟨List.Pairwise.filter _ List.nodup_range, ?_⟩
    intro e he
    exact List.mem_range.mp (List.mem_filter.mp he).1
  · intro i hi
    refine ⟨_, List.mem_map.mpr ⟨l.getD i 0, ?_, rfl⟩, ?_⟩
    · apply List.mem_range.mpr
      have : l.getD i 0 ∈ l := by
        rw [List.getD_eq_getElem?_getD, List.getElem?_eq_getElem hi]
        simp only [Option.getD_some, List.getElem_mem]
      have := (foldl_max_ge l 0).2 _ this
      omega
    · intro j
      simp only [List.mem_filter, List.mem_range, beq_iff_eq]

/-- the fcart model gives pairwise different positions to different elements -/
theorem fcart_distinct {cl : List Nat} {ld : List (List Nat)} {idOn : List Nat} {P : PosetData} {c : Rat} {dpth : Int}
    (hld : ld = levelsDict cl) (hn : cl.length = P.n)
    (hi : fcartLevels P c dpth cl ld ld 0 (List.replicate P.n 0) = .ok idOn)
    (i j : Nat) (hil : i < cl.length) (hjl : j < cl.length) (hij : i ≠ j) :
    (fcartX cl ld idOn i, fcartY cl ld i) ≠ (fcartX cl ld idOn j, fcartY cl ld j) := by
  intro he
  have hx : fcartX cl ld idOn i = fcartX cl ld idOn j := congrArg Prod.fst he
  have hy : fcartY cl ld i = fcartY cl ld j := congrArg Prod.snd he
  have hL : 0 < ld.length := by rw [hld]; exact levelsDict_length_pos cl
  have hlv := fcartY_inj cl ld i j hL hy
  have hid := fcartX_inj cl ld idOn i j hlv hx
  obtain ⟨hpw, hall, hmem⟩ := levelsDict_facts cl
  rw [← hld] at hpw hall hmem
  obtain ⟨_, hinj⟩ := fcartLevels_spec ld 0 _ idOn hi hpw (fun es hes => by
    obtain ⟨a, b⟩ := hall es hes
    exact ⟨a, fun e he => by rw [List.length_replicate, ← hn]; exact b e he⟩)
  obtain ⟨es, hes, hiff⟩ := hmem i hil
  exact hinj es hes i j ((hiff i).mpr ⟨hil, rfl⟩) ((hiff j).mpr ⟨hjl, hlv.symm⟩) hij hid

end Fca.Layout

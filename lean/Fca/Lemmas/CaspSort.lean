/-
  Fca.Lemmas.CaspSort — `topologicalSorting`: the stable sort is a permutation that passes
  `checkTopologicallySorted`; on a duplicate-free list `orig_to_topsort_indices_map` is the index of each
  element in the sorted list, a permutation of `range n`; and the three list-level hypotheses
  (duplicate-free, sorted, closed under `&`) give the abstract family `Fam`.
-/
import Fca.Lemmas.CaspIncl
import Batteries.Data.List.Perm
import Mathlib.Data.List.Nodup
namespace Fca.Casp

/-! ### `check_topologically_sorted` -/

theorem check_pairwise : ∀ {l : List Bits}, checkTopologicallySorted true l = true →
    l.Pairwise (fun a b => count1 a ≤ count1 b) := by
  intro l
  induction l with
  | nil => intro _; exact List.Pairwise.nil
  | cons a r ih =>
    intro h
    cases r with
    | nil => exact List.pairwise_singleton _ _
    | cons b r =>
      simp only [checkTopologicallySorted, if_true, Bool.and_eq_true, decide_eq_true_eq] at h
      have hp := ih h.2
      refine List.Pairwise.cons ?_ hp
      intro x hx
      rcases List.mem_cons.mp hx with rfl | hx
      · exact h.1
      · exact Nat.le_trans h.1 ((List.pairwise_cons.mp hp).1 x hx)

theorem pairwise_check : ∀ {l : List Bits}, l.Pairwise (fun a b => count1 a ≤ count1 b) →
    checkTopologicallySorted true l = true := by
  intro l
  induction l with
  | nil => intro _; rfl
  | cons a r ih =>
    intro h
    cases r with
    | nil => rfl
    | cons b r =>
      have := List.pairwise_cons.mp h
      simp only [checkTopologicallySorted, if_true, Bool.and_eq_true, decide_eq_true_eq]
      exact ⟨this.1 b (List.mem_cons_self ..), ih this.2⟩

/-! ### the stable sort -/

theorem keyLe_count {a b : Bits} (h : keyLe true a b = true) : count1 a ≤ count1 b := by
  simp only [keyLe, if_true, Bool.or_eq_true, decide_eq_true_eq, Bool.and_eq_true, beq_iff_eq] at h
  omega

theorem not_keyLe_count {a b : Bits} (h : ¬ keyLe true a b = true) : count1 b ≤ count1 a := by
  simp only [keyLe, if_true, Bool.or_eq_true, decide_eq_true_eq, Bool.and_eq_true, beq_iff_eq] at h
  omega

theorem insertSorted_perm (asc : Bool) (x : Bits) : ∀ l, (insertSorted asc x l).Perm (x :: l) := by
  intro l
  induction l with
  | nil => exact List.Perm.refl _
  | cons y r ih =>
    simp only [insertSorted]
    split
    · exact List.Perm.refl _
    · exact (List.Perm.cons y ih).trans (List.Perm.swap x y r)

theorem stableSort_perm (asc : Bool) : ∀ l, (stableSort asc l).Perm l := by
  intro l
  induction l with
  | nil => exact List.Perm.refl _
  | cons x r ih => exact (insertSorted_perm asc x _).trans (List.Perm.cons x ih)

theorem insertSorted_pairwise (x : Bits) : ∀ l, l.Pairwise (fun a b => count1 a ≤ count1 b) →
    (insertSorted true x l).Pairwise (fun a b => count1 a ≤ count1 b) := by
  intro l
  induction l with
  | nil => intro _; exact List.pairwise_singleton _ _
  | cons y r ih =>
    intro h
    have hy := List.pairwise_cons.mp h
    simp only [insertSorted]
    split
    · rename_i hk
      refine List.Pairwise.cons ?_ h
      intro z hz
      rcases List.mem_cons.mp hz with rfl | hz
      · exact keyLe_count hk
      · exact Nat.le_trans (keyLe_count hk) (hy.1 z hz)
    · rename_i hk
      refine List.Pairwise.cons ?_ (ih hy.2)
      intro z hz
      rcases List.mem_cons.mp ((insertSorted_perm true x r).mem_iff.mp hz) with rfl | hz
      · exact not_keyLe_count hk
      · exact hy.1 z hz

theorem stableSort_pairwise : ∀ l, (stableSort true l).Pairwise (fun a b => count1 a ≤ count1 b) := by
  intro l
  induction l with
  | nil => exact List.Pairwise.nil
  | cons x r ih => exact insertSorted_pairwise x _ ih

theorem stableSort_check (l : List Bits) : checkTopologicallySorted true (stableSort true l) = true :=
  pairwise_check (stableSort_pairwise l)

/-! ### the dictionaries `{el: i}` -/

theorem lastIdxFrom_nodup {α : Type} [DecidableEq α] [BEq α] [LawfulBEq α] : ∀ (l : List α) (k : Nat) (x : α), l.Nodup → x ∈ l →
    lastIdxFrom l k x = some (k + l.idxOf x) := by
  intro l
  induction l with
  | nil => intro k x _ h; cases h
  | cons y ys ih =>
    intro k x hnd hx
    have hnd' := List.nodup_cons.mp hnd
    simp only [lastIdxFrom]
    by_cases hy : y = x
    · subst hy
      have : lastIdxFrom ys (k + 1) y = none := by
        have hnot := hnd'.1
        clear ih hx hnd hnd'
        induction ys generalizing k with
        | nil => rfl
        | cons z zs ih2 =>
          simp only [lastIdxFrom]
          rw [ih2 (k + 1) (fun h => hnot (List.mem_cons_of_mem _ h))]
          have : ¬ z = y := fun e => hnot (e ▸ List.mem_cons_self ..)
          simp [this]
      rw [this]
      simp
    · have hx' : x ∈ ys := by
        rcases List.mem_cons.mp hx with e | h
        · exact absurd e.symm hy
        · exact h
      rw [ih (k + 1) x hnd'.2 hx']
      have : (y == x) = false := by simpa using hy
      simp [List.idxOf_cons, this]
      omega

theorem lastIdx?_nodup {α : Type} [DecidableEq α] [BEq α] [LawfulBEq α] {l : List α} {x : α} (hnd : l.Nodup) (hx : x ∈ l) :
    lastIdx? l x = some (l.idxOf x) := by
  unfold lastIdx?
  rw [lastIdxFrom_nodup l 0 x hnd hx]
  simp

theorem lookupAll_nodup {α : Type} [DecidableEq α] [BEq α] [LawfulBEq α] {l : List α} (hnd : l.Nodup) :
    ∀ xs : List α, (∀ x ∈ xs, x ∈ l) → lookupAll l xs = .ok (xs.map l.idxOf) := by
  intro xs
  induction xs with
  | nil => intro _; rfl
  | cons x xs ih =>
    intro h
    simp only [lookupAll, lastIdx?_nodup hnd (h x (List.mem_cons_self ..)),
      ih (fun y hy => h y (List.mem_cons_of_mem _ hy)), List.map_cons]

/-- `topological_sorting` on a duplicate-free list -/
theorem topologicalSorting_nodup {els : List Bits} (hnd : els.Nodup) :
    topologicalSorting els true = .ok (stableSort true els, els.map (stableSort true els).idxOf) := by
  have hp := stableSort_perm true els
  have h := lookupAll_nodup (hp.nodup_iff.mpr hnd) els (fun x hx => hp.mem_iff.mpr hx)
  simp only [topologicalSorting, h]

/-- the index map of a permutation of a duplicate-free list is a permutation of `range n` -/
theorem idxMap_perm {α : Type} [DecidableEq α] [BEq α] [LawfulBEq α] {l l' : List α} (hp : l'.Perm l) (hnd : l.Nodup) :
    (l.map l'.idxOf).Perm (List.range l.length) := by
  have hnd' : l'.Nodup := hp.nodup_iff.mpr hnd
  have hinj : (l.map l'.idxOf).Nodup := by
    rw [List.nodup_map_iff_inj_on hnd]
    intro x hx y hy e
    have hx' : x ∈ l' := hp.mem_iff.mpr hx
    have := List.getElem_idxOf (List.idxOf_lt_length_of_mem hx')
    have hy' : y ∈ l' := hp.mem_iff.mpr hy
    have h2 := List.getElem_idxOf (List.idxOf_lt_length_of_mem hy')
    rw [← this, ← h2]
    simp [e]
  have hsub : l.map l'.idxOf ⊆ List.range l.length := by
    intro t ht
    obtain ⟨x, hx, rfl⟩ := List.mem_map.mp ht
    rw [List.mem_range, ← hp.length_eq]
    exact List.idxOf_lt_length_of_mem (hp.mem_iff.mpr hx)
  exact (List.subperm_of_subset hinj hsub).perm_of_length_le (by simp)

/-! ### from the list to the abstract family -/

/-- the list is closed under `&` -/
def Closed (intents : List Bits) : Prop := ∀ a ∈ intents, ∀ b ∈ intents, band a b ∈ intents

theorem fam_of_list {intents : List Bits} {nA : Nat} (hu : Uniform intents nA) (hnd : intents.Nodup)
    (hs : checkTopologicallySorted true intents = true) (hc : Closed intents) :
    Fam intents.length (hasOf intents) := by
  have hget : ∀ k, (hk : k < intents.length) → intents.getD k [] = intents[k] := by
    intro k hk
    rw [List.getD_eq_getElem?_getD, List.getElem?_eq_getElem hk]; rfl
  have hext : ∀ i j, i < intents.length → j < intents.length → (∀ m, hasOf intents i m → hasOf intents j m) →
      (∀ m, hasOf intents j m → hasOf intents i m) → intents.getD i [] = intents.getD j [] := by
    intro i j hi hj h1 h2
    apply bits_ext
    · rw [hu _ (getD_mem hi), hu _ (getD_mem hj)]
    · intro m
      have a := h1 m
      have b := h2 m
      unfold hasOf at a b
      cases h : bit (intents.getD i []) m <;> cases h' : bit (intents.getD j []) m <;> simp_all
  refine ⟨?_, ?_, ?_⟩
  · intro i j hi hj h1 h2
    have e := hext i j hi hj h1 h2
    rw [hget i hi, hget j hj] at e
    exact (List.Nodup.getElem_inj_iff hnd).mp e
  · intro i j hi hj h1 h2
    have hcount := count1_le_of_sub (a := intents.getD i []) (b := intents.getD j [])
      (by rw [hu _ (getD_mem hi), hu _ (getD_mem hj)]) h1
    have hne : intents.getD i [] ≠ intents.getD j [] := by
      intro e
      apply h2
      intro m hm
      unfold hasOf at *
      rw [e]; exact hm
    have hlt : count1 (intents.getD i []) < count1 (intents.getD j []) := by
      rcases Nat.lt_or_ge (count1 (intents.getD i [])) (count1 (intents.getD j [])) with h | h
      · exact h
      · exact absurd (hcount.2 (Nat.le_antisymm hcount.1 h)) hne
    false_or_by_contra
    rename_i hn
    rcases Nat.lt_or_ge j i with hji | hji
    · have := List.pairwise_iff_getElem.mp (check_pairwise hs) j i hj hi hji
      rw [hget i hi, hget j hj] at hlt
      omega
    · have : i = j := by omega
      subst this
      exact h2 h1
  · intro i j hi hj
    have hmem := hc _ (getD_mem hi) _ (getD_mem hj)
    obtain ⟨k, hk, e⟩ := List.getElem_of_mem hmem
    refine ⟨k, hk, fun m => ?_⟩
    unfold hasOf
    rw [hget k hk, e, bit_band, Bool.and_eq_true]

end Fca.Casp

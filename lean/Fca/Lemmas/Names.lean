/-
  Fca.Lemmas.Names — the name→index dictionary and a pigeonhole fact.
-/
import Fca.Model.Basic
import Batteries.Data.List.Perm
namespace Fca

theorem nameIdxFrom_lt (names : List String) (k : Nat) (x : String) (i : Nat)
    (h : nameIdxFrom names k x = some i) : k ≤ i ∧ i < k + names.length := by
  induction names generalizing k with
  | nil => simp [nameIdxFrom] at h
  | cons y ys ih =>
    simp only [nameIdxFrom] at h
    split at h
    · rename_i j hj
      cases h
      have := ih (k + 1) hj
      simp only [List.length_cons]; omega
    · split at h
      · cases h; simp
      · cases h

theorem nameIdx_lt {names : List String} {x : String} {i : Nat} (h : nameIdx names x = some i) :
    i < names.length := by
  have := nameIdxFrom_lt names 0 x i h; omega

theorem nameIdxFrom_get (names : List String) (k : Nat) (x : String) (i : Nat)
    (h : nameIdxFrom names k x = some i) : names[i - k]? = some x := by
  induction names generalizing k with
  | nil => simp [nameIdxFrom] at h
  | cons y ys ih =>
    simp only [nameIdxFrom] at h
    split at h
    · rename_i j hj
      cases h
      have hb := nameIdxFrom_lt ys (k + 1) x _ hj
      have := ih (k + 1) hj
      have e : i - k = (i - (k + 1)) + 1 := by omega
      rw [e, List.getElem?_cons_succ]; exact this
    · split at h
      · rename_i hyx
        cases h; simp [hyx]
      · cases h

/-- the dictionary returns an index that carries the name -/
theorem nameIdx_get {names : List String} {x : String} {i : Nat} (h : nameIdx names x = some i) :
    names[i]? = some x := by
  have := nameIdxFrom_get names 0 x i h; simpa using this

theorem nameIdxFrom_none (names : List String) (k : Nat) (x : String) :
    nameIdxFrom names k x = none ↔ x ∉ names := by
  induction names generalizing k with
  | nil => simp [nameIdxFrom]
  | cons y ys ih =>
    simp only [nameIdxFrom, List.mem_cons, not_or]
    constructor
    · intro h
      split at h
      · cases h
      · rename_i hn
        split at h
        · cases h
        · rename_i hyx
          exact ⟨fun e => hyx e.symm, (ih (k + 1)).mp hn⟩
    · rintro ⟨h1, h2⟩
      rw [(ih (k + 1)).mpr h2]
      have : ¬ y = x := fun e => h1 e.symm
      simp [this]

/-- a name is unknown to the dictionary exactly when it is not a name of the context -/
theorem nameIdx_none {names : List String} {x : String} : nameIdx names x = none ↔ x ∉ names :=
  nameIdxFrom_none names 0 x

/-- with pairwise distinct names the dictionary is the inverse of indexing -/
theorem nameIdx_of_get {names : List String} (hnd : names.Nodup) {x : String} {i : Nat}
    (h : names[i]? = some x) : nameIdx names x = some i := by
  have hmem : x ∈ names := List.mem_of_getElem? h
  cases hk : nameIdx names x with
  | none => exact absurd hmem (nameIdx_none.mp hk)
  | some j =>
    have hj := nameIdx_get hk
    have hjl := nameIdx_lt hk
    have hil : i < names.length := by
      rcases List.getElem?_eq_some_iff.mp h with ⟨hl, _⟩; exact hl
    have h1 : names[i] = x := by
      rcases List.getElem?_eq_some_iff.mp h with ⟨_, e⟩; exact e
    have h2 : names[j] = x := by
      rcases List.getElem?_eq_some_iff.mp hj with ⟨_, e⟩; exact e
    have : i = j := (List.getElem_inj (h₀ := hil) (h₁ := hjl) hnd).mp (h1.trans h2.symm)
    rw [this]

theorem namesToIdx_ok (names : List String) (xs : List String) (is : List Nat)
    (h : namesToIdx names xs = .ok is) :
    is.length = xs.length ∧ (∀ i ∈ is, i < names.length) ∧
      is.map (fun i => names.getD i "") = xs := by
  induction xs generalizing is with
  | nil => simp [namesToIdx] at h; cases h; simp
  | cons x xs ih =>
    simp only [namesToIdx] at h
    split at h
    · cases h
    · rename_i i hi
      split at h
      · cases h
      · rename_i js hjs
        cases h
        obtain ⟨h1, h2, h3⟩ := ih js hjs
        refine ⟨by simp [h1], ?_, ?_⟩
        · intro k hk
          rcases List.mem_cons.mp hk with rfl | hk
          · exact nameIdx_lt hi
          · exact h2 k hk
        · rw [List.map_cons, h3]
          simp [List.getD_eq_getElem?_getD, nameIdx_get hi]

theorem namesToIdx_error (names : List String) (xs : List String) :
    (∃ x ∈ xs, x ∉ names) ↔ namesToIdx names xs = .error .KeyError := by
  induction xs with
  | nil => simp [namesToIdx]
  | cons x xs ih =>
    simp only [namesToIdx, List.mem_cons, exists_eq_or_imp]
    cases hx : nameIdx names x with
    | none => simp [nameIdx_none.mp hx]
    | some i =>
      have hmem : x ∈ names := List.mem_of_getElem? (nameIdx_get hx)
      cases hr : namesToIdx names xs with
      | error e =>
        simp only [hmem, not_true_eq_false, false_or]
        constructor
        · intro h'; rw [ih.mp h'] at hr; cases hr; rfl
        · intro h'; cases h'; exact ih.mpr hr
      | ok js =>
        simp only [hmem, not_true_eq_false, false_or, reduceCtorEq, iff_false]
        intro h'; rw [ih.mp h'] at hr; cases hr

/-- pigeonhole: a duplicate-free list of `n` numbers below `n` contains every number below `n` -/
theorem nodup_full {A : List Nat} {n : Nat} (hnd : A.Nodup) (hlt : ∀ g ∈ A, g < n)
    (hlen : A.length = n) : ∀ g, g < n → g ∈ A := by
  have hsub : A ⊆ List.range n := fun g hg => List.mem_range.mpr (hlt g hg)
  have hsp := List.subperm_of_subset hnd hsub
  have hperm := hsp.perm_of_length_le (by simp [hlen])
  intro g hg
  exact hperm.mem_iff.mpr (List.mem_range.mpr hg)

end Fca

/-
  Fca.Lemmas.MeasuresStab — the `stability` loop counts the generating subsets:
  model stability = `Spec.stabilityDef`.
-/
import Fca.Lemmas.MeasuresCount
import Fca.Lemmas.AllI
namespace Fca.Measures
open Fca Fca.Spec

/-- `context.intention_i(gs)` (no base) is `gs'` in context order, on every backend -/
theorem intentionI_none (K : Ctx) (hwf : K.table.WF) (S : List Nat) (hS : ∀ g ∈ S, g < K.table.height) :
    K.intentionI S none = intAll K.table S := by
  unfold Ctx.intentionI intAll Spec.int
  split
  · rename_i h0
    have : S = [] := List.eq_nil_of_length_eq_zero h0
    subst this
    simp only [List.all_nil, Ctx.nAttributes]
    exact (List.filter_eq_self.mpr (fun _ _ => rfl)).symm
  · rw [allI_axis0 K.table hwf K.backend S none hS (by intro cs h; cases h)]
    rfl

/-- two filters of the same list with the same members are the same list -/
theorem filter_eq_of_same_members {l : List Nat} {p q : Nat → Bool}
    (h : ∀ x, x ∈ l.filter p ↔ x ∈ l.filter q) : l.filter p = l.filter q := by
  apply filter_eq_of_mem_iff
  intro x hx
  have := h x
  simp only [List.mem_filter, hx, true_and] at this
  exact this

theorem setEq_iff (a b : List Nat) : setEq a b = true ↔ ∀ x, x ∈ a ↔ x ∈ b := by
  simp only [setEq, Bool.and_eq_true, List.all_eq_true, List.contains_eq_mem, decide_eq_true_eq]
  constructor
  · rintro ⟨h1, h2⟩ x; exact ⟨h1 x, h2 x⟩
  · intro h; exact ⟨fun x hx => (h x).mp hx, fun x hx => (h x).mpr hx⟩

/-- on intents (filters of `range width`) set equality is list equality -/
theorem setEq_intAll (t : Table) (S A : List Nat) :
    setEq (intAll t S) (intAll t A) = (intAll t S == intAll t A) := by
  rw [Bool.eq_iff_iff, setEq_iff, beq_iff_eq]
  constructor
  · intro h
    unfold intAll Spec.int at *
    exact filter_eq_of_same_members h
  · intro h x; rw [h]

theorem stabilityLoop_eq (K : Ctx) (B : List Nat) (l : List (List Nat)) (x : Nat) :
    stabilityLoop K B l x = x + l.countP (fun gs => setEq (K.intentionI gs none) B) := by
  induction l generalizing x with
  | nil => simp [stabilityLoop]
  | cons gs rest ih =>
    simp only [stabilityLoop, ih, List.countP_cons]
    omega

theorem mem_sublists_lt {A S : List Nat} {n : Nat} (hA : ∀ g ∈ A, g < n) (hS : S ∈ sublists A) :
    ∀ g ∈ S, g < n := fun g hg => hA g (mem_of_mem_sublists hS g hg)

/-- the counter of the `stability` loop is the number of generating subsets -/
theorem stabilityLoop_genCount (K : Ctx) (hwf : K.table.WF) (A B : List Nat)
    (h : isConcept K.table A B = true) :
    stabilityLoop K B (powerset A) 0 = genCount K.table A B := by
  rw [stabilityLoop_eq, Nat.zero_add, (powerset_perm_sublists A).countP_eq]
  unfold genCount
  obtain ⟨hext, hint⟩ := (isConcept_iff K.table).mp h
  have hA : ∀ g ∈ A, g < K.table.height := by
    rw [← hext]; exact extAll_lt K.table
  apply List.countP_congr
  intro S hS
  rw [intentionI_none K hwf S (mem_sublists_lt hA hS), ← hint, setEq_intAll]

end Fca.Measures

/-
  Fca.Lemmas.ConstructRemove — `remove_concept`, generic part: transitive closures computed by
  `get_all_{sub,super}concepts_dict`, the pruning loop (= maximal elements of the candidates), the
  reconnection of the neighbours of the removed index, and the index shift.
-/
import Fca.Lemmas.ConstructBasic
import Fca.Lemmas.ConstructAdd
namespace Fca.Construct
open Fca.Spec

variable {n : Nat} {L : Nat → Nat → Bool} {rk : Nat → Nat}

/-! ### transitive closure dictionaries -/

/-- every recorded value is the set of all indexes strictly below its key -/
def AccOK (n : Nat) (L : Nat → Nat → Bool) (acc : List (Nat × List Nat)) : Prop :=
  ∀ c a, acc.lookup c = some a → a.Nodup ∧ ∀ x, x ∈ a ↔ (x < n ∧ L x c = true)

def Known (acc : List (Nat × List Nat)) (c : Nat) : Prop := ∃ a, acc.lookup c = some a

theorem closure_inner (acc : List (Nat × List Nat)) :
    ∀ (l cur : List Nat), cur.Nodup → (∀ p ∈ l, Known acc p) →
      ∃ res, l.foldl (closureStep acc) (.ok cur) = .ok res ∧ res.Nodup ∧
        ∀ x, x ∈ res ↔ x ∈ cur ∨ ∃ p ∈ l, ∃ a, acc.lookup p = some a ∧ x ∈ a := by
  intro l
  induction l with
  | nil => intro cur hc _; exact ⟨cur, rfl, hc, by simp⟩
  | cons p ps ih =>
    intro cur hc hk
    obtain ⟨a, ha⟩ := hk p (List.mem_cons_self ..)
    simp only [List.foldl_cons, closureStep, ha]
    obtain ⟨res, h1, h2, h3⟩ := ih (union cur a) (nodup_union hc)
      (fun q hq => hk q (List.mem_cons_of_mem _ hq))
    refine ⟨res, h1, h2, fun x => ?_⟩
    rw [h3 x, mem_union]
    constructor
    · rintro ((h | h) | ⟨q, hq, b, hb, hx⟩)
      · exact Or.inl h
      · exact Or.inr ⟨p, List.mem_cons_self .., a, ha, h⟩
      · exact Or.inr ⟨q, List.mem_cons_of_mem _ hq, b, hb, hx⟩
    · rintro (h | ⟨q, hq, b, hb, hx⟩)
      · exact Or.inl (Or.inl h)
      · rcases List.mem_cons.mp hq with rfl | hq
        · rw [ha] at hb; cases hb; exact Or.inl (Or.inr hx)
        · exact Or.inr ⟨q, hq, b, hb, hx⟩

theorem closureDict_ok (h : StrictOrd L rk) (D : List (List Nat)) (hlen : D.length = n)
    (hD : ∀ c, c < n → (D.getD c []).Nodup ∧ SameSetC (D.getD c []) (coversBy n L c))
    (ord : List Nat → List Nat) (hperm : ∀ xs, (ord xs).Perm xs) :
    ∀ (rest : List Nat) (acc : List (Nat × List Nat)),
      rest.Pairwise (fun a b => rk a ≤ rk b) → (∀ x ∈ rest, x < n) →
      (∀ p, p < n → Known acc p ∨ p ∈ rest) → AccOK n L acc →
      ∃ acc', closureDict D ord rest acc = .ok acc' ∧ AccOK n L acc' ∧ ∀ p, p < n → Known acc' p := by
  intro rest
  induction rest with
  | nil =>
    intro acc _ _ hcov hok
    refine ⟨acc, rfl, hok, fun p hp => ?_⟩
    rcases hcov p hp with h1 | h1
    · exact h1
    · cases h1
  | cons c rest ih =>
    intro acc hpw hlt hcov hok
    have hc : c < n := hlt c (List.mem_cons_self ..)
    have hcl : c < D.length := by rw [hlen]; exact hc
    have hget : D[c]? = some (D.getD c []) := by
      rw [List.getD_eq_getElem?_getD, List.getElem?_eq_getElem hcl]; rfl
    obtain ⟨d1, d2⟩ := hD c hc
    -- the lower covers of `c` have been processed before
    have hkn : ∀ p ∈ ord (D.getD c []), Known acc p := by
      intro p hp
      have hp' := mem_coversBy.mp ((d2 p).mp ((hperm _).mem_iff.mp hp))
      rcases hcov p hp'.1 with h1 | h1
      · exact h1
      · exfalso
        have hr := h.rank_lt p c hp'.2.1
        rcases List.mem_cons.mp h1 with e | h1
        · subst e; omega
        · have := List.rel_of_pairwise_cons hpw h1; omega
    obtain ⟨a, ha1, ha2, ha3⟩ := closure_inner acc (ord (D.getD c [])) (D.getD c []) d1 hkn
    unfold closureDict
    simp only [hget]
    rw [ha1]
    simp only
    have hok' : AccOK n L ((c, a) :: acc) := by
      intro c' a' hl
      rw [List.lookup_cons] at hl
      by_cases e : c' = c
      · subst e
        simp only [beq_self_eq_true] at hl
        cases hl
        refine ⟨ha2, fun x => ?_⟩
        rw [ha3 x]
        constructor
        · rintro (hx | ⟨p, hp, b, hb, hx⟩)
          · have := mem_coversBy.mp ((d2 x).mp hx); exact ⟨this.1, this.2.1⟩
          · have hp' := mem_coversBy.mp ((d2 p).mp ((hperm _).mem_iff.mp hp))
            have hxb := ((hok p b hb).2 x).mp hx
            exact ⟨hxb.1, h.trans _ _ _ hxb.2 hp'.2.1⟩
        · rintro ⟨hx, hxc⟩
          by_cases hmid : ∃ k, k < n ∧ L x k = true ∧ L k c' = true
          · obtain ⟨k, hk, hxk, hkc⟩ := hmid
            obtain ⟨b, hb, hb2⟩ := exists_cover_below h (x := x) (a := c') k hk hxk hkc
            have hxb : L x b = true := by
              rcases hb2 with rfl | hb2
              · exact hxk
              · exact h.trans _ _ _ hxk hb2
            have hbo : b ∈ ord (D.getD c' []) := (hperm _).mem_iff.mpr ((d2 b).mpr hb)
            obtain ⟨ab, hab⟩ := hkn b hbo
            exact Or.inr ⟨b, hbo, ab, hab, ((hok b ab hab).2 x).mpr ⟨hx, hxb⟩⟩
          · left
            apply (d2 x).mpr
            refine mem_coversBy.mpr ⟨hx, hxc, fun k hk hxk => ?_⟩
            apply Bool.eq_false_iff.mpr
            intro hkc
            exact hmid ⟨k, hk, hxk, hkc⟩
      · have : (c' == c) = false := by simpa using e
        rw [this] at hl
        exact hok c' a' hl
    apply ih ((c, a) :: acc) hpw.of_cons (fun x hx => hlt x (List.mem_cons_of_mem _ hx)) _ hok'
    intro p hp
    by_cases e : p = c
    · subst e; left; exact ⟨a, by simp⟩
    · rcases hcov p hp with ⟨b, hb⟩ | h1
      · left; refine ⟨b, ?_⟩
        rw [List.lookup_cons]
        have : (p == c) = false := by simpa using e
        rw [this]; exact hb
      · rcases List.mem_cons.mp h1 with e' | h1
        · exact absurd e' e
        · exact Or.inr h1

/-- a closure dictionary as `remove_concept` needs it -/
def ClosureOK (n : Nat) (L : Nat → Nat → Bool) (closure : List (Nat × List Nat)) : Prop :=
  ∀ c, c < n → ∃ a, closure.lookup c = some a ∧ ∀ x, x ∈ a ↔ (x < n ∧ L x c = true)

theorem closureOK_of (h : StrictOrd L rk) (D : List (List Nat)) (hlen : D.length = n)
    (hD : ∀ c, c < n → (D.getD c []).Nodup ∧ SameSetC (D.getD c []) (coversBy n L c))
    (ord : List Nat → List Nat) (hperm : ∀ xs, (ord xs).Perm xs) (order : List Nat)
    (hpw : order.Pairwise (fun a b => rk a ≤ rk b)) (hp : order.Perm (List.range n)) :
    ∃ cl, closureDict D ord order [] = .ok cl ∧ ClosureOK n L cl := by
  obtain ⟨cl, h1, h2, h3⟩ := closureDict_ok h D hlen hD ord hperm order [] hpw
    (fun x hx => List.mem_range.mp (hp.mem_iff.mp hx))
    (fun p hpn => Or.inr (hp.mem_iff.mpr (List.mem_range.mpr hpn)))
    (fun c a hl => by simp at hl)
  refine ⟨cl, h1, fun c hc => ?_⟩
  obtain ⟨a, ha⟩ := h3 c hc
  exact ⟨a, ha, (h2 c a ha).2⟩

/-! ### the pruning loop keeps exactly the maximal candidates -/

/-- `m` is a maximal element of the candidate set `s1` -/
def IsMax (L : Nat → Nat → Bool) (s1 : List Nat) (m : Nat) : Prop := m ∈ s1 ∧ ∀ c ∈ s1, L m c = false

theorem pruneBy_inv {cl : List (Nat × List Nat)} (hcl : ClosureOK n L cl) (s1 : List Nat)
    (hs1 : ∀ y ∈ s1, y < n) :
    ∀ (lst S : List Nat), (∀ c ∈ lst, c < n) → S.Nodup → (∀ y ∈ S, y ∈ s1) → (∀ m, IsMax L s1 m → m ∈ S) →
      ∃ S', pruneBy cl lst S = .ok S' ∧ S'.Nodup ∧ (∀ y ∈ S', y ∈ S) ∧ (∀ m, IsMax L s1 m → m ∈ S') ∧
        ∀ m ∈ lst, IsMax L s1 m → ∀ y ∈ S', L y m = false := by
  intro lst
  induction lst with
  | nil => intro S _ hnd _ hmax; exact ⟨S, rfl, hnd, fun _ h => h, hmax, by simp⟩
  | cons c rest ih =>
    intro S hlst hnd hsub hmax
    have hc : c < n := hlst c (List.mem_cons_self ..)
    unfold pruneBy
    by_cases hcS : S.contains c = true
    · simp only [hcS, Bool.not_true, Bool.false_eq_true, if_false]
      obtain ⟨a, ha, hax⟩ := hcl c hc
      rw [ha]
      simp only
      have hcS' : c ∈ S := by simpa using hcS
      obtain ⟨S', h1, h2, h3, h4, h5⟩ := ih (diff S a) (fun x hx => hlst x (List.mem_cons_of_mem _ hx))
        (nodup_diff hnd) (fun y hy => hsub y (mem_diff.mp hy).1)
        (fun m hm => mem_diff.mpr ⟨hmax m hm, fun hma => by
          have := (hax m).mp hma
          rw [hm.2 c (hsub c hcS')] at this; cases this.2⟩)
      refine ⟨S', h1, h2, fun y hy => (mem_diff.mp (h3 y hy)).1, h4, ?_⟩
      intro m hm hmm y hy
      rcases List.mem_cons.mp hm with e | hm
      · subst e
        apply Bool.eq_false_iff.mpr
        intro hym
        have hyS := mem_diff.mp (h3 y hy)
        exact hyS.2 ((hax y).mpr ⟨hs1 y (hsub y hyS.1), hym⟩)
      · exact h5 m hm hmm y hy
    · simp only [hcS, Bool.not_false, if_true]
      obtain ⟨S', h1, h2, h3, h4, h5⟩ := ih S (fun x hx => hlst x (List.mem_cons_of_mem _ hx)) hnd hsub hmax
      refine ⟨S', h1, h2, h3, h4, ?_⟩
      intro m hm hmm y hy
      rcases List.mem_cons.mp hm with e | hm
      · subst e
        have : m ∈ S := hmax m hmm
        exact absurd (by simpa using this) hcS
      · exact h5 m hm hmm y hy

/-- above every candidate there is a maximal candidate -/
theorem exists_max_above (h : StrictOrd L rk) (s1 : List Nat) :
    ∀ d y c, rk c = d → c ∈ s1 → (y = c ∨ L y c = true) → ∃ m, IsMax L s1 m ∧ (y = m ∨ L y m = true) := by
  -- induction on the number of ranks above `c` inside `s1`: use a bound on the ranks of `s1`
  have hb : ∃ B, ∀ c ∈ s1, rk c ≤ B := by
    refine ⟨(s1.map rk).foldl max 0, fun c hc => ?_⟩
    exact (le_foldl_max (s1.map rk) 0).2 (rk c) (List.mem_map.mpr ⟨c, hc, rfl⟩)
  obtain ⟨B, hB⟩ := hb
  intro d y c hd hc hyc
  induction hm : B - rk c using Nat.strongRecOn generalizing c d with
  | _ k ih =>
    by_cases hex : ∃ c' ∈ s1, L c c' = true
    · obtain ⟨c', hc', hcc'⟩ := hex
      have h1 := h.rank_lt c c' hcc'
      have h2 := hB c' hc'
      have h3 := hB c hc
      refine ih (B - rk c') (by omega) (rk c') c' rfl hc' ?_ rfl
      right
      rcases hyc with rfl | hyc
      · exact hcc'
      · exact h.trans _ _ _ hyc hcc'
    · refine ⟨c, ⟨hc, fun c' hc' => ?_⟩, hyc⟩
      apply Bool.eq_false_iff.mpr
      intro hcc'
      exact hex ⟨c', hc', hcc'⟩

theorem pruneBy_max (h : StrictOrd L rk) {cl : List (Nat × List Nat)} (hcl : ClosureOK n L cl)
    (s1 lst : List Nat) (hs1 : ∀ y ∈ s1, y < n) (hnd : s1.Nodup) (hlst : ∀ c, c ∈ lst ↔ c ∈ s1) :
    ∃ S', pruneBy cl lst s1 = .ok S' ∧ S'.Nodup ∧ ∀ y, y ∈ S' ↔ IsMax L s1 y := by
  obtain ⟨S', h1, h2, h3, h4, h5⟩ := pruneBy_inv hcl s1 hs1 lst s1
    (fun c hc => hs1 c ((hlst c).mp hc)) hnd (fun _ hy => hy) (fun m hm => hm.1)
  refine ⟨S', h1, h2, fun y => ⟨fun hy => ?_, h4 y⟩⟩
  refine ⟨h3 y hy, fun c hc => ?_⟩
  apply Bool.eq_false_iff.mpr
  intro hyc
  obtain ⟨m, hm, hym⟩ := exists_max_above h s1 (rk c) y c rfl hc (Or.inr hyc)
  have hym' : L y m = true := by
    rcases hym with e | hym
    · subst e
      have := hm.2 c hc; rw [hyc] at this; cases this
    · exact hym
  have := h5 m ((hlst m).mpr hm.1) hm y hy
  rw [hym'] at this; cases this

/-! ### the lower covers once the index `ci` is gone (old indexing) -/

/-- `y` is a lower cover of `x` among the indexes different from `ci` -/
def NewCov (n : Nat) (L : Nat → Nat → Bool) (ci x y : Nat) : Prop :=
  y < n ∧ y ≠ ci ∧ L y x = true ∧ ∀ k, k < n → k ≠ ci → L y k = true → L k x = false

/-- for an upper cover `x` of `ci`: the maximal elements of `(covers x - {ci}) ∪ covers ci` -/
theorem isMax_iff_newCov (h : StrictOrd L rk) {ci x : Nat}
    (hxU : x ∈ upperCoversBy n L ci) (s1 : List Nat)
    (hs1 : ∀ y, y ∈ s1 ↔ (y ∈ coversBy n L x ∧ y ≠ ci) ∨ y ∈ coversBy n L ci) (y : Nat) :
    IsMax L s1 y ↔ NewCov n L ci x y := by
  have hxU' := mem_upperCoversBy.mp hxU
  constructor
  · rintro ⟨hy, hmax⟩
    rcases (hs1 y).mp hy with ⟨hyx, hne⟩ | hyc
    · have hyx' := mem_coversBy.mp hyx
      exact ⟨hyx'.1, hne, hyx'.2.1, fun k hk _ hyk => hyx'.2.2 k hk hyk⟩
    · have hyc' := mem_coversBy.mp hyc
      have hyne : y ≠ ci := by intro e; subst e; rw [h.irrefl] at hyc'; cases hyc'.2.1
      refine ⟨hyc'.1, hyne, h.trans _ _ _ hyc'.2.1 hxU'.2.1, fun k hk hkne hyk => ?_⟩
      apply Bool.eq_false_iff.mpr
      intro hkx
      obtain ⟨b, hb, hb2⟩ := exists_cover_below h (x := y) (a := x) k hk hyk hkx
      have hyb : L y b = true := by
        rcases hb2 with rfl | hb2
        · exact hyk
        · exact h.trans _ _ _ hyk hb2
      have hbne : b ≠ ci := by
        intro e; subst e
        rcases hb2 with rfl | hb2
        · exact hkne rfl
        · have := hyc'.2.2 k hk hyk; rw [hb2] at this; cases this
      have := hmax b ((hs1 b).mpr (Or.inl ⟨hb, hbne⟩))
      rw [hyb] at this; cases this
  · rintro ⟨hy, hne, hyx, hno⟩
    have hmem : y ∈ s1 := by
      apply (hs1 y).mpr
      by_cases hyc : L y ci = true
      · right
        refine mem_coversBy.mpr ⟨hy, hyc, fun k hk hyk => ?_⟩
        apply Bool.eq_false_iff.mpr
        intro hkc
        have hkne : k ≠ ci := by intro e; subst e; rw [h.irrefl] at hkc; cases hkc
        have := hno k hk hkne hyk
        rw [h.trans _ _ _ hkc hxU'.2.1] at this; cases this
      · left
        refine ⟨mem_coversBy.mpr ⟨hy, hyx, fun k hk hyk => ?_⟩, hne⟩
        by_cases hkne : k = ci
        · subst hkne; exact absurd hyk hyc
        · exact hno k hk hkne hyk
    refine ⟨hmem, fun c hc => ?_⟩
    apply Bool.eq_false_iff.mpr
    intro hyc
    rcases (hs1 c).mp hc with ⟨hcx, hcne⟩ | hcc
    · have hcx' := mem_coversBy.mp hcx
      have := hno c hcx'.1 hcne hyc
      rw [hcx'.2.1] at this; cases this
    · have hcc' := mem_coversBy.mp hcc
      have hcne : c ≠ ci := by intro e; subst e; rw [h.irrefl] at hcc'; cases hcc'.2.1
      have := hno c hcc'.1 hcne hyc
      rw [h.trans _ _ _ hcc'.2.1 hxU'.2.1] at this; cases this

/-- for every other index the lower covers do not change -/
theorem covers_iff_newCov (h : StrictOrd L rk) {ci x : Nat} (hx : x < n) (hci : ci < n)
    (hxU : x ∉ upperCoversBy n L ci) (y : Nat) :
    y ∈ coversBy n L x ↔ NewCov n L ci x y := by
  constructor
  · intro hy
    have hy' := mem_coversBy.mp hy
    refine ⟨hy'.1, ?_, hy'.2.1, fun k hk _ hyk => hy'.2.2 k hk hyk⟩
    intro e; subst e
    exact hxU (mem_upperCoversBy.mpr ⟨hx, hy'.2.1, fun k hk hyk => hy'.2.2 k hk hyk⟩)
  · rintro ⟨hy, hne, hyx, hno⟩
    refine mem_coversBy.mpr ⟨hy, hyx, fun k hk hyk => ?_⟩
    by_cases hkne : k = ci
    · subst hkne
      apply Bool.eq_false_iff.mpr
      intro hkx
      obtain ⟨m, hm, hkm, hmx⟩ := exists_between_of_not_upper hx hkx hxU
      have hmne : m ≠ k := by intro e; subst e; rw [h.irrefl] at hkm; cases hkm
      have := hno m hm hmne (h.trans _ _ _ hyk hkm)
      rw [hmx] at this; cases this
    · exact hno k hk hkne hyk

/-- one reconnection: the entry of an upper cover `x` of `ci` becomes its new lower covers -/
theorem reconnect_ok (h : StrictOrd L rk) {cl : List (Nat × List Nat)} (hcl : ClosureOK n L cl)
    (le : Nat → Nat → Bool) (ord : List Nat → List Nat) (hperm : ∀ xs, (ord xs).Perm xs)
    {ci x : Nat} (others : List Nat) (minusSelf : Bool) (D : List (List Nat))
    (hxU : x ∈ upperCoversBy n L ci) (hoth : others.Nodup ∧ SameSetC others (coversBy n L ci))
    (hDx : (D.getD x []).Nodup ∧ SameSetC (D.getD x []) (coversBy n L x)) :
    ∃ S', reconnect cl le ord ci others minusSelf D x = .ok (D.set x S') ∧ S'.Nodup ∧
      ∀ y, y ∈ S' ↔ NewCov n L ci x y := by
  have hxU' := mem_upperCoversBy.mp hxU
  have hxo : x ∉ others := by
    intro hx
    have := mem_coversBy.mp ((hoth.2 x).mp hx)
    have h2 := h.asymm this.2.1
    rw [hxU'.2.1] at h2; cases h2
  have hoth' : ∀ y, y ∈ (if minusSelf then diff others [x] else others) ↔ y ∈ coversBy n L ci := by
    intro y
    split
    · rw [mem_diff, hoth.2 y]
      constructor
      · exact fun hh => hh.1
      · intro hy
        refine ⟨hy, ?_⟩
        intro hyx
        have : y = x := by simpa using hyx
        subst this
        exact hxo ((hoth.2 y).mpr hy)
    · exact hoth.2 y
  have hs1 : ∀ y, y ∈ union (diff (D.getD x []) [ci]) (if minusSelf then diff others [x] else others)
      ↔ (y ∈ coversBy n L x ∧ y ≠ ci) ∨ y ∈ coversBy n L ci := by
    intro y
    rw [mem_union, mem_diff, hDx.2 y, hoth' y]
    simp
  have hs1lt : ∀ y ∈ union (diff (D.getD x []) [ci]) (if minusSelf then diff others [x] else others), y < n := by
    intro y hy
    rcases (hs1 y).mp hy with hh | hh
    · exact (mem_coversBy.mp hh.1).1
    · exact (mem_coversBy.mp hh).1
  obtain ⟨S', p1, p2, p3⟩ := pruneBy_max h hcl _ (sortBy le (ord (union (diff (D.getD x []) [ci])
      (if minusSelf then diff others [x] else others)))) hs1lt (nodup_union (nodup_diff hDx.1))
    (fun c => by rw [mem_sortBy, (hperm _).mem_iff])
  unfold reconnect
  simp only
  rw [p1]
  exact ⟨S', rfl, p2, fun y => by rw [p3 y]; exact isMax_iff_newCov h hxU _ hs1 y⟩

theorem reconnectAll_ok (h : StrictOrd L rk) {cl : List (Nat × List Nat)} (hcl : ClosureOK n L cl)
    (le : Nat → Nat → Bool) (ord : List Nat → List Nat) (hperm : ∀ xs, (ord xs).Perm xs)
    {ci : Nat} (others : List Nat) (minusSelf : Bool)
    (hoth : others.Nodup ∧ SameSetC others (coversBy n L ci)) :
    ∀ (xs : List Nat) (D : List (List Nat)), xs.Nodup → D.length = n →
      (∀ x ∈ xs, x ∈ upperCoversBy n L ci ∧ (D.getD x []).Nodup ∧ SameSetC (D.getD x []) (coversBy n L x)) →
      ∃ D', reconnectAll cl le ord ci others minusSelf xs D = .ok D' ∧ D'.length = n ∧
        (∀ x ∈ xs, (D'.getD x []).Nodup ∧ ∀ y, y ∈ D'.getD x [] ↔ NewCov n L ci x y) ∧
        (∀ x, x ∉ xs → D'.getD x [] = D.getD x []) := by
  intro xs
  induction xs with
  | nil => intro D _ hl _; exact ⟨D, rfl, hl, by simp, fun _ _ => rfl⟩
  | cons x rest ih =>
    intro D hnd hl hall
    have hnd' := List.nodup_cons.mp hnd
    obtain ⟨hxU, hDx1, hDx2⟩ := hall x (List.mem_cons_self ..)
    obtain ⟨S', e1, e2, e3⟩ := reconnect_ok h hcl le ord hperm others minusSelf D hxU hoth ⟨hDx1, hDx2⟩
    have hxn : x < D.length := by rw [hl]; exact (mem_upperCoversBy.mp hxU).1
    unfold reconnectAll
    rw [e1]
    simp only
    obtain ⟨D', f1, f2, f3, f4⟩ := ih (D.set x S') hnd'.2 (by simpa using hl)
      (fun x' hx' => by
        have hne : x' ≠ x := fun e => hnd'.1 (e ▸ hx')
        rw [getD_set_ne hne]
        exact hall x' (List.mem_cons_of_mem _ hx'))
    refine ⟨D', f1, f2, ?_, ?_⟩
    · intro x' hx'
      rcases List.mem_cons.mp hx' with e | hx'
      · subst e
        rw [f4 x' hnd'.1, getD_set_self hxn]
        exact ⟨e2, e3⟩
      · exact f3 x' hx'
    · intro x' hx'
      have hne : x' ≠ x := fun e => hx' (e ▸ List.mem_cons_self ..)
      rw [f4 x' (fun hm => hx' (List.mem_cons_of_mem _ hm)), getD_set_ne hne]

/-! ### the index shift -/

/-- new index ↦ old index -/
def upIdx (ci j : Nat) : Nat := if j < ci then j else j + 1

theorem decrement_upIdx (ci j : Nat) : decrement (upIdx ci j) ci = j := by
  unfold decrement upIdx; split <;> split <;> omega

theorem upIdx_decrement {ci y : Nat} (h : y ≠ ci) : upIdx ci (decrement y ci) = y := by
  unfold decrement upIdx; split <;> split <;> omega

theorem upIdx_ne (ci j : Nat) : upIdx ci j ≠ ci := by
  unfold upIdx; split <;> omega

theorem upIdx_lt {ci j n : Nat} (hci : ci < n) (hj : j < n - 1) : upIdx ci j < n := by
  unfold upIdx; split <;> omega

theorem decrement_lt {ci y n : Nat} (hci : ci < n) (hy : y < n) (hne : y ≠ ci) : decrement y ci < n - 1 := by
  unfold decrement; split <;> omega

theorem getD_eraseIdx {α : Type} (l : List α) (ci j : Nat) (d : α) :
    (l.eraseIdx ci).getD j d = l.getD (upIdx ci j) d := by
  simp only [List.getD_eq_getElem?_getD, List.getElem?_eraseIdx, upIdx]
  split <;> rfl

/-- the shifted dictionary lists the covers of the order transported along `upIdx` -/
theorem reindex_ok {ci : Nat} (hci : ci < n) (D' : List (List Nat)) (hlen : D'.length = n)
    (hD' : ∀ x, x < n → x ≠ ci → (D'.getD x []).Nodup ∧ ∀ y, y ∈ D'.getD x [] ↔ NewCov n L ci x y) :
    (reindex ci D').length = n - 1 ∧
    ∀ j, j < n - 1 → ((reindex ci D').getD j []).Nodup ∧
      SameSetC ((reindex ci D').getD j [])
        (coversBy (n - 1) (fun a b => L (upIdx ci a) (upIdx ci b)) j) := by
  unfold reindex
  refine ⟨by rw [List.length_map, List.length_eraseIdx, hlen]; simp [hci], fun j hj => ?_⟩
  have hget : ((D'.eraseIdx ci).map fun s => s.map fun v => decrement v ci).getD j []
      = (D'.getD (upIdx ci j) []).map fun v => decrement v ci := by
    rw [List.getD_eq_getElem?_getD, List.getElem?_map, ← getD_eraseIdx D' ci j []]
    rw [List.getD_eq_getElem?_getD]
    cases (D'.eraseIdx ci)[j]? <;> rfl
  rw [hget]
  obtain ⟨d1, d2⟩ := hD' (upIdx ci j) (upIdx_lt hci hj) (upIdx_ne ci j)
  constructor
  · unfold List.Nodup
    rw [List.pairwise_map]
    apply List.Pairwise.imp_of_mem _ d1
    intro a b ha hb hab e
    have ha' := ((d2 a).mp ha).2.1
    have hb' := ((d2 b).mp hb).2.1
    apply hab
    rw [← upIdx_decrement ha', ← upIdx_decrement hb', e]
  · intro x
    rw [List.mem_map, mem_coversBy]
    constructor
    · rintro ⟨y, hy, rfl⟩
      obtain ⟨y1, y2, y3, y4⟩ := (d2 y).mp hy
      refine ⟨decrement_lt hci y1 y2, by rw [upIdx_decrement y2]; exact y3, fun k hk hyk => ?_⟩
      rw [upIdx_decrement y2] at hyk
      exact y4 (upIdx ci k) (upIdx_lt hci hk) (upIdx_ne ci k) hyk
    · rintro ⟨x1, x2, x3⟩
      refine ⟨upIdx ci x, (d2 _).mpr ⟨upIdx_lt hci x1, upIdx_ne ci x, x2, fun k hk hkne hyk => ?_⟩,
        decrement_upIdx ci x⟩
      have := x3 (decrement k ci) (decrement_lt hci hk hkne) (by rw [upIdx_decrement hkne]; exact hyk)
      rw [upIdx_decrement hkne] at this; exact this

end Fca.Construct

/-
  Fca.Lemmas.ConstructSweep2 — instantiation of the sweep theorem on extent lists: listing positions,
  chains delivered by `_get_chains`, batch schedules of the parallel variant.
-/
import Fca.Lemmas.ConstructSweep
import Fca.Lemmas.ConstructTree
namespace Fca.Construct
open Fca.Spec

/-- consecutive strict inclusions make the whole chain strictly descending -/
theorem desc_of_chainStepsOK {lt : Nat → Nat → Bool} {rk : Nat → Nat} (h : StrictOrd lt rk)
    {par : Nat → Option Nat} :
    ∀ ch, chainStepsOK lt par ch = true → ch.Pairwise (fun a b => lt b a = true) := by
  intro ch
  induction ch with
  | nil => intro _; exact List.Pairwise.nil
  | cons p rest ih =>
    cases rest with
    | nil => intro _; simp
    | cons c rest' =>
      intro hs
      simp only [chainStepsOK, Bool.and_eq_true] at hs
      have hrec := ih hs.2
      rw [List.pairwise_cons]
      refine ⟨?_, hrec⟩
      intro x hx
      rcases List.mem_cons.mp hx with e | hx
      · subst e; exact hs.1.2
      · exact h.trans _ _ _ (List.rel_of_pairwise_cons hrec hx) hs.1.2

/-- in a list sorted by non-increasing support, a larger support sits at a smaller position -/
theorem idxOf_lt_of_supp_lt {l : List Nat} {supp : Nat → Nat}
    (hpw : l.Pairwise (fun a b => supp b ≤ supp a)) {a b : Nat} (ha : a ∈ l) (hb : b ∈ l)
    (hlt : supp a < supp b) : l.idxOf b < l.idxOf a := by
  have hia := List.idxOf_lt_length_of_mem ha
  have hib := List.idxOf_lt_length_of_mem hb
  apply Classical.byContradiction
  intro hn
  have hle : l.idxOf a ≤ l.idxOf b := by omega
  rcases Nat.lt_or_eq_of_le hle with h1 | h1
  · have := (List.pairwise_iff_getElem.mp hpw) (l.idxOf a) (l.idxOf b) hia hib h1
    rw [List.getElem_idxOf hia, List.getElem_idxOf hib] at this
    omega
  · have e : l[l.idxOf a] = l[l.idxOf b] := by simp [h1]
    rw [List.getElem_idxOf hia, List.getElem_idxOf hib] at e
    subst e; omega

/-- the sequential scan order -/
theorem scanOrderOK_seq (chains : List (List Nat)) :
    ScanOrderOK chains (fun _ => List.range chains.length) := by
  intro c chI; simp

theorem mem_batches {nJobs nChains k chI : Nat} (hk : k < (batches nJobs nChains).length) :
    chI ∈ (batches nJobs nChains).getD k [] ↔ (∃ r, r < nJobs ∧ k * nJobs + r = chI) ∧ chI < nChains := by
  unfold batches at hk ⊢
  simp only [List.length_map, List.length_range] at hk
  rw [List.getD_eq_getElem?_getD, List.getElem?_map, List.getElem?_range hk]
  simp only [Option.map_some, Option.getD_some, List.mem_filterMap, List.mem_range]
  constructor
  · rintro ⟨r, hr, he⟩
    split at he
    · rename_i hlt
      cases he
      exact ⟨⟨r, hr, rfl⟩, hlt⟩
    · cases he
  · rintro ⟨⟨r, hr, he⟩, hlt⟩
    exact ⟨r, hr, by rw [if_pos (by rw [he]; exact hlt), he]⟩

/-- the scan order produced by batches of `nJobs` chains, each batch permuted by the schedule -/
theorem scanOrderOK_par (chains : List (List Nat)) {nJobs : Nat} (hj : 1 ≤ nJobs)
    (sched : Nat → Nat → List Nat → List Nat) (hsched : ∀ c k b, (sched c k b).Perm b) :
    ScanOrderOK chains (fun cCur => (List.range (batches nJobs chains.length).length).flatMap
      fun k => sched cCur k ((batches nJobs chains.length).getD k [])) := by
  intro c chI
  simp only [List.mem_flatMap, List.mem_range]
  constructor
  · rintro ⟨k, hk, hm⟩
    rw [(hsched _ _ _).mem_iff] at hm
    exact ((mem_batches hk).mp hm).2
  · intro hlt
    have hlenB : (batches nJobs chains.length).length = (chains.length + nJobs - 1) / nJobs := by
      simp [batches]
    have hkk : chI / nJobs < (batches nJobs chains.length).length := by
      rw [hlenB]
      have h1 := Nat.div_mul_le_self chI nJobs
      have : (chI / nJobs + 1) * nJobs ≤ chains.length + nJobs - 1 := by
        rw [Nat.add_mul]; omega
      exact (Nat.le_div_iff_mul_le (by omega)).mpr this
    refine ⟨chI / nJobs, hkk, ?_⟩
    rw [(hsched _ _ _).mem_iff, mem_batches hkk]
    refine ⟨⟨chI % nJobs, Nat.mod_lt _ (by omega), ?_⟩, hlt⟩
    rw [Nat.mul_comm]; exact Nat.div_add_mod chI nJobs

/-- unpacking the chain checker -/
theorem chains_facts {n : Nat} {lt : Nat → Nat → Bool} {rk : Nat → Nat} (h : StrictOrd lt rk)
    {par : Nat → Option Nat} {top : Nat} {chains : List (List Nat)}
    (hok : chainsOK n lt par top chains = true) :
    (∀ ch ∈ chains, ∀ x ∈ ch, x < n) ∧ (∀ ch ∈ chains, ch.Pairwise (fun a b => lt b a = true)) ∧
    (∀ ch ∈ chains, ch.head? = some top) ∧ (∀ i, i < n → ∃ ch ∈ chains, i ∈ ch) := by
  simp only [chainsOK, Bool.and_eq_true, List.all_eq_true, List.any_eq_true, List.mem_range,
    List.contains_eq_mem, decide_eq_true_eq, beq_iff_eq] at hok
  refine ⟨fun ch hch x hx => (hok.1 ch hch).2 x hx,
    fun ch hch => desc_of_chainStepsOK h ch (hok.1 ch hch).1.2,
    fun ch hch => (hok.1 ch hch).1.1, fun i hi => hok.2 i hi⟩

/-- the listing positions respect the order: a strict superconcept is listed earlier -/
theorem posOK_sortView (cs : List Ext) (hnd : ExtsNodup cs) (isSorted : Bool)
    (hsorted : isSorted = true → ∀ i j, i < cs.length → j < cs.length → ssubAt cs j i = true → i < j) :
    ∀ a b, a < cs.length → b < cs.length → ltAt cs a b = true →
      (sortView cs isSorted).pos b < (sortView cs isSorted).pos a := by
  intro a b ha hb hlt
  cases isSorted with
  | true =>
    simp only [sortView, if_true, id]
    rw [ltAt_eq_ssubAt hnd] at hlt
    exact hsorted rfl b a hb ha hlt
  | false =>
    simp only [sortView, Bool.false_eq_true, if_false, posIn]
    have hsv := sortViewOK_unsorted cs
    have hI : (sortView cs false).isortI = sortedIdx cs := by simp [sortView]
    have hmem : ∀ i, i < cs.length → i ∈ sortedIdx cs := fun i hi => by rw [← hI]; exact hsv.mem_iff.mpr hi
    exact idxOf_lt_of_supp_lt (pairwise_sortedIdx cs) (hmem a ha) (hmem b hb) (ltC_length hlt)

end Fca.Construct

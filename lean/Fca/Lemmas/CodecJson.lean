/-
  Fca.Lemmas.CodecJson — tree-level round trips: FormalContext json / pandas.
-/
import Fca.Model.CodecJson
import Fca.Lemmas.CodecCxt
namespace Fca.Codec

theorem mapME_map_ok {α β γ : Type} (f : β → Except CErr γ) (g : α → β) (h : α → γ) :
    ∀ xs : List α, (∀ x ∈ xs, f (g x) = .ok (h x)) → mapME f (xs.map g) = .ok (xs.map h)
  | [], _ => rfl
  | x :: xs, hx => by
    simp only [List.map_cons, mapME, hx x (by simp),
      mapME_map_ok f g h xs (fun y hy => hx y (List.mem_cons_of_mem _ hy))]

theorem mapME_ok {α β : Type} (f : α → Except CErr β) (h : α → β) (xs : List α)
    (hx : ∀ x ∈ xs, f x = .ok (h x)) : mapME f xs = .ok (xs.map h) := by
  have := mapME_map_ok f id h xs (by simpa using hx)
  simpa using this

theorem namesOf_arr (ns : List Str) : namesOf (some (.arr (ns.map jStr))) = .ok (some ns) := by
  have := mapME_map_ok asName jStr id ns (fun _ _ => rfl)
  simp only [List.map_id] at this
  simp only [namesOf, this]

theorem indsIn_nats (is : List Nat) : indsIn (.arr (is.map jNat)) = .ok (is.map Int.ofNat) := by
  simp only [indsIn]
  exact mapME_map_ok _ jNat _ is (fun _ _ => rfl)

/-- membership bitmap of the index list of a row gives the row back -/
theorem row_of_inds (r : List Bool) :
    ((List.range r.length).map fun ind =>
      ((indsOf r.length r).map Int.ofNat).contains (Int.ofNat ind)) = r := by
  apply List.ext_getElem
  · simp
  · intro i h1 h2
    simp only [List.length_map, List.length_range] at h1
    simp only [List.getElem_map, List.getElem_range]
    rw [Bool.eq_iff_iff]
    simp only [List.contains_iff_mem, List.mem_map, indsOf, List.mem_filter, List.mem_range]
    constructor
    · rintro ⟨n, ⟨_, hn⟩, e⟩
      have : n = i := Int.ofNat.inj e
      subst this
      simpa [List.getD_eq_getElem?_getD, List.getElem?_eq_getElem h1] using hn
    · intro hi
      exact ⟨i, ⟨h1, by simpa [List.getD_eq_getElem?_getD, List.getElem?_eq_getElem h1] using hi⟩, rfl⟩

theorem lineInds_row (m : Nat) (r : List Bool) :
    lineInds (JV.obj [("Count".toList, jNat (r.count true)), ("Inds".toList, .arr ((indsOf m r).map jNat))])
      = .ok ((indsOf m r).map Int.ofNat) := by
  simp [lineInds, JV.getKey, JV.lookup, indsIn_nats]

theorem readJson_writeJson (K : Cxt) (hwf : K.WF) (hn : K.rows ≠ []) :
    readJsonTree (writeJsonTree K) = .ok K := by
  obtain ⟨hlen, hrows⟩ := hwf
  have hnA : K.nAttrs = K.attrs.length := widthOf_eq K.rows _ hn hrows
  have hdata : mapME lineInds
      (K.rows.map fun r => JV.obj [("Count".toList, jNat (r.count true)),
        ("Inds".toList, .arr ((indsOf K.nAttrs r).map jNat))])
      = .ok (K.rows.map fun r => (indsOf K.nAttrs r).map Int.ofNat) :=
    mapME_map_ok _ _ _ _ (fun r _ => lineInds_row _ r)
  have hrec : dataOf K.attrs.length (K.rows.map fun r => (indsOf K.nAttrs r).map Int.ofNat) = K.rows := by
    unfold dataOf
    rw [List.map_map]
    conv => rhs; rw [← List.map_id K.rows]
    apply List.map_congr_left
    intro r hr
    have hl := hrows r hr
    simp only [Function.comp, hnA, id]
    rw [← hl]
    exact row_of_inds r
  have hmk := mkCxt_ok K.rows K.objs K.attrs K.descr hn hlen hrows
  have hbuild : ∀ dj : Option JV, descrOf dj = .ok K.descr →
      readJsonBuild (some (.arr (K.objs.map jStr))) (some (.arr (K.attrs.map jStr))) dj
        (K.rows.map fun r => (indsOf K.nAttrs r).map Int.ofNat) = .ok K := by
    intro dj hdj
    simp only [readJsonBuild, namesOf_arr, Except.bind, hdj, hrec, hmk]
  unfold readJsonTree writeJsonTree
  cases hd : K.descr with
  | none =>
    have h1 : ∀ x y : JV, JV.getOpt (.obj ([] ++ [("ObjNames".toList, x), ("Params".toList, y)])) "ObjNames".toList
        = .ok (some x) := by intro x y; simp [JV.getOpt, JV.lookup]
    have h2 : ∀ x y : JV, JV.getOpt (.obj ([] ++ [("ObjNames".toList, x), ("Params".toList, y)])) "Params".toList
        = .ok (some y) := by intro x y; simp [JV.getOpt, JV.lookup]
    have h3 : ∀ x y : JV, JV.getOpt (.obj ([] ++ [("ObjNames".toList, x), ("Params".toList, y)])) "Description".toList
        = .ok none := by intro x y; simp [JV.getOpt, JV.lookup]
    have h4 : ∀ x : JV, paramsAttrNames (some (.obj [("AttrNames".toList, x)])) = .ok (some x) := by
      intro x; simp [paramsAttrNames, JV.getOpt, JV.lookup]
    have h5 : ∀ (x : JV) (ls : List JV), dataLines (.obj [("Count".toList, x), ("Data".toList, .arr ls)]) = .ok ls := by
      intro x ls; simp [dataLines, JV.getKey, JV.lookup]
    simp only [h1, h2, h3, h4, h5, Except.bind, hdata]
    exact hbuild none (by rw [hd]; rfl)
  | some d =>
    have h1 : ∀ z x y : JV, JV.getOpt (.obj ([("Description".toList, z)] ++ [("ObjNames".toList, x), ("Params".toList, y)]))
        "ObjNames".toList = .ok (some x) := by intro z x y; simp [JV.getOpt, JV.lookup]
    have h2 : ∀ z x y : JV, JV.getOpt (.obj ([("Description".toList, z)] ++ [("ObjNames".toList, x), ("Params".toList, y)]))
        "Params".toList = .ok (some y) := by intro z x y; simp [JV.getOpt, JV.lookup]
    have h3 : ∀ z x y : JV, JV.getOpt (.obj ([("Description".toList, z)] ++ [("ObjNames".toList, x), ("Params".toList, y)]))
        "Description".toList = .ok (some z) := by intro z x y; simp [JV.getOpt, JV.lookup]
    have h4 : ∀ x : JV, paramsAttrNames (some (.obj [("AttrNames".toList, x)])) = .ok (some x) := by
      intro x; simp [paramsAttrNames, JV.getOpt, JV.lookup]
    have h5 : ∀ (x : JV) (ls : List JV), dataLines (.obj [("Count".toList, x), ("Data".toList, .arr ls)]) = .ok ls := by
      intro x ls; simp [dataLines, JV.getKey, JV.lookup]
    simp only [h1, h2, h3, h4, h5, Except.bind, hdata]
    exact hbuild (some (jStr d)) (by rw [hd]; rfl)

end Fca.Codec

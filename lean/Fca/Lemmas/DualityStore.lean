/-
  Fca.Lemmas.DualityStore — helper lemmas for the store of context objects (class H5) and for the
  exact-prefix reading of the `'not '` toggle (class H6).  Core only.
-/
import Fca.Model.DualityStore
import Fca.Lemmas.Duality
namespace Fca.Dual
open Fca Fca.Spec

/-! ## the toggle looks at the exact prefix `'not '` and at nothing else -/

theorem notPrefix_isPrefixOf_iff (cs : List Char) : notPrefix.isPrefixOf cs = true ↔ notPrefix <+: cs :=
  List.isPrefixOf_iff_prefix

/-- a name that starts with `'not '` is `'not '` + its toggle -/
theorem toggleL_of_prefix {cs : List Char} (h : notPrefix <+: cs) : notPrefix ++ toggleL cs = cs := by
  have h1 : toggleL cs = cs.drop 4 := by
    unfold toggleL; rw [if_pos (List.isPrefixOf_iff_prefix.mpr h)]
  rw [h1]
  have := List.prefix_iff_eq_append.mp h
  rwa [notPrefix_length] at this

/-- every other name gets the prefix -/
theorem toggleL_of_not_prefix {cs : List Char} (h : ¬ notPrefix <+: cs) : toggleL cs = notPrefix ++ cs := by
  unfold toggleL
  rw [if_neg (fun hp => h (List.isPrefixOf_iff_prefix.mp hp))]

theorem toggleNot_toList (s : String) : (toggleNot s).toList = toggleL s.toList := by
  rw [toggleNot_eq, String.toList_ofList]

/-- a name without the exact prefix does not start with `'not not '` either -/
theorem nameOK_of_not_prefix {s : String} (h : ¬ notPrefix <+: s.toList) : NameOK s := by
  unfold NameOK
  cases h5 : (notPrefix ++ notPrefix).isPrefixOf s.toList with
  | false => rfl
  | true =>
    exfalso
    have hp := List.isPrefixOf_iff_prefix.mp h5
    exact h (List.IsPrefix.trans (List.prefix_append _ _) hp)

/-! ## last write wins -/

theorem lastOr_nil {α} (d : α) : lastOr d [] = d := rfl

theorem lastOr_cons {α} (d x : α) (l : List α) : lastOr d (x :: l) = lastOr x l := by
  unfold lastOr
  rw [List.getLast?_cons]
  rfl

/-- what a valid setter call is for a context with `n` objects and `m` attributes -/
def MutValid (n m : Nat) : Mut → Prop
  | .objs ns => ns.length = n
  | .attrs ns => ns.length = m
  | .data rows => rows.length = n ∧ ∀ r ∈ rows, r.length = m

/-- the shape invariant of a context object -/
structure Shaped (n m : Nat) (K : Ctx) : Prop where
  wf : K.table.WF
  h : K.table.height = n
  w : K.table.width = m
  objs : K.objNames.length = n
  attrs : K.attrNames.length = m

theorem mkTable_shape {n m : Nat} (hn : 1 ≤ n) {rows : List Row} (hl : rows.length = n)
    (hr : ∀ r ∈ rows, r.length = m) :
    (mkTable rows).WF ∧ (mkTable rows).height = n ∧ (mkTable rows).width = m := by
  cases rows with
  | nil => simp at hl; omega
  | cons r rs =>
    have hw : (mkTable (r :: rs)).width = m := by
      show ((r :: rs).headD []).length = m
      exact hr r (List.mem_cons_self ..)
    refine ⟨?_, hl, hw⟩
    intro x hx
    rw [hw]
    exact hr x hx

theorem applyMut_valid {n m : Nat} (hn : 1 ≤ n) {K : Ctx} (hK : Shaped n m K) {x : Mut} (hx : MutValid n m x) :
    ∃ K', applyMut K x = .ok K' ∧ Shaped n m K' ∧ ∀ ms, finalCtx K (x :: ms) = finalCtx K' ms := by
  cases x with
  | objs ns =>
    refine ⟨{ K with objNames := ns }, ?_, ⟨hK.wf, hK.h, hK.w, hx, hK.attrs⟩, fun ms => ?_⟩
    · have : ns.length = K.table.height := by rw [hK.h]; exact hx
      simp [applyMut, this]
    · simp [finalCtx, List.filterMap_cons, Mut.objs?, Mut.attrs?, Mut.table?, lastOr_cons]
  | attrs ns =>
    refine ⟨{ K with attrNames := ns }, ?_, ⟨hK.wf, hK.h, hK.w, hK.objs, hx⟩, fun ms => ?_⟩
    · have : ns.length = K.table.width := by rw [hK.w]; exact hx
      simp [applyMut, this]
    · simp [finalCtx, List.filterMap_cons, Mut.objs?, Mut.attrs?, Mut.table?, lastOr_cons]
  | data rows =>
    obtain ⟨h1, h2, h3⟩ := mkTable_shape hn hx.1 hx.2
    refine ⟨{ K with table := mkTable rows }, rfl, ⟨h1, h2, h3, hK.objs, hK.attrs⟩, fun ms => ?_⟩
    simp [finalCtx, List.filterMap_cons, Mut.objs?, Mut.attrs?, Mut.table?, lastOr_cons]

theorem finalCtx_nil (K : Ctx) : finalCtx K [] = K := rfl

theorem applyMuts_final {n m : Nat} (hn : 1 ≤ n) (muts : List Mut) :
    ∀ K : Ctx, Shaped n m K → (∀ x ∈ muts, MutValid n m x) →
      applyMuts K muts = .ok (finalCtx K muts) ∧ Shaped n m (finalCtx K muts) := by
  induction muts with
  | nil => intro K hK _; exact ⟨rfl, hK⟩
  | cons x ms ih =>
    intro K hK hv
    obtain ⟨K', h1, h2, h3⟩ := applyMut_valid hn hK (hv x (List.mem_cons_self ..))
    obtain ⟨h4, h5⟩ := ih K' h2 (fun y hy => hv y (List.mem_cons_of_mem _ hy))
    rw [h3 ms]
    refine ⟨?_, h5⟩
    simp only [applyMuts, h1]
    exact h4

/-! ## frame property of the store -/

theorem getElem?_lt_of_some {α} {l : List α} {j : Nat} {a : α} (h : l[j]? = some a) : j < l.length := by
  by_cases hj : j < l.length
  · exact hj
  · rw [List.getElem?_eq_none (by omega)] at h; cases h

theorem runStore_frame (ops : List HOp) :
    ∀ (S S' : List Ctx), runStore S ops = .ok S' → ∀ (j : Nat) (K : Ctx), S[j]? = some K →
      ∃ K', applyMuts K (ownMuts j ops) = .ok K' ∧ S'[j]? = some K' := by
  induction ops with
  | nil =>
    intro S S' h j K hK
    simp only [runStore, Except.ok.injEq] at h
    subst h
    exact ⟨K, rfl, hK⟩
  | cons op ops ih =>
    intro S S' h j K hK
    have hj := getElem?_lt_of_some hK
    simp only [runStore] at h
    cases hs : stepStore S op with
    | error e => rw [hs] at h; cases h
    | ok S1 =>
      rw [hs] at h
      cases op with
      | derive src d =>
        simp only [stepStore] at hs
        cases hsrc : S[src]? with
        | none => simp only [hsrc] at hs; cases hs
        | some Ks =>
          simp only [hsrc] at hs
          cases hd : derive Ks d with
          | error e => simp only [hd] at hs; cases hs
          | ok D =>
            simp only [hd, Except.ok.injEq] at hs
            subst hs
            exact ih _ S' h j K (by rw [List.getElem?_append_left hj]; exact hK)
      | fresh Kn =>
        simp only [stepStore, Except.ok.injEq] at hs
        subst hs
        exact ih _ S' h j K (by rw [List.getElem?_append_left hj]; exact hK)
      | set i x =>
        simp only [stepStore] at hs
        cases hi : S[i]? with
        | none => simp only [hi] at hs; cases hs
        | some Ki =>
          simp only [hi] at hs
          cases hm : applyMut Ki x with
          | error e => simp only [hm] at hs; cases hs
          | ok K1 =>
            simp only [hm, Except.ok.injEq] at hs
            subst hs
            by_cases hij : i = j
            · subst hij
              rw [hK] at hi
              cases hi
              obtain ⟨K', h1, h2⟩ := ih _ S' h i K1 (by rw [List.getElem?_set_self hj])
              refine ⟨K', ?_, h2⟩
              simp only [ownMuts, if_true, applyMuts, hm]
              exact h1
            · obtain ⟨K', h1, h2⟩ := ih _ S' h j K (by rw [List.getElem?_set_ne hij]; exact hK)
              refine ⟨K', ?_, h2⟩
              simp only [ownMuts, if_neg hij]
              exact h1

theorem runStore_append (ops₁ ops₂ : List HOp) :
    ∀ S, runStore S (ops₁ ++ ops₂) =
      match runStore S ops₁ with
      | .error e => .error e
      | .ok S₁ => runStore S₁ ops₂ := by
  induction ops₁ with
  | nil => intro S; rfl
  | cons op ops ih =>
    intro S
    simp only [List.cons_append, runStore]
    cases stepStore S op with
    | error e => rfl
    | ok S1 => exact ih S1

/-- the fast enumeration of monotone concepts through `allConceptsFast` of the complemented table -/
theorem mem_monoConceptsFast2 (t : Table) (hwf : t.WF) {A B : List Nat}
    (fast : Table → List (List Nat × List Nat))
    (hfast : ∀ C D, (C, D) ∈ fast (complement t) ↔ isConcept (complement t) C D = true) :
    (A, B) ∈ ((fast (complement t)).map fun p => (compl t.height p.1, p.2)) ↔ isMonoConcept t A B = true := by
  simp only [List.mem_map, Prod.mk.injEq]
  constructor
  · rintro ⟨⟨C, B'⟩, hp, rfl, rfl⟩
    exact isMonoConcept_of_complement t hwf ((hfast _ _).mp hp)
  · intro h
    refine ⟨(compl t.height A, B), (hfast _ _).mpr (isConcept_complement_of_mono t hwf h), ?_, rfl⟩
    have hA := ((isMonoConcept_iff t).mp h).1
    rw [← hA]
    exact extMonoAll_canon t B

end Fca.Dual

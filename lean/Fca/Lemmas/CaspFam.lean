/-
  Fca.Lemmas.CaspFam — the order-theoretic argument behind `sort_intents_inclusion`, free of bit arrays.

  A family of `n` sets is given by `has k m` ("set number `k` contains `m`").  It is listed so that a strict
  subset always comes first (`lt_of_ssub`: what the ascending topological order gives), holds no set twice
  (`antisymm`) and contains the intersection of any two members (`inter`).  For a member `i`, the routine
  collects as `children` the indexes `k` that are, for some `m ∉ set i`, the FIRST listed member containing
  `set i ∪ {m}` (`Child`).  Then: every child is a strict superset; every strict superset contains a child
  (`exists_child_le`); children ∪ their strict supersets = all strict supersets (`trans_iff`); children that
  are not strict supersets of another child = the upper covers (`cover_iff`).
-/
namespace Fca.Casp

structure Fam (n : Nat) (has : Nat → Nat → Prop) : Prop where
  antisymm : ∀ i j, i < n → j < n → (∀ m, has i m → has j m) → (∀ m, has j m → has i m) → i = j
  lt_of_ssub : ∀ i j, i < n → j < n → (∀ m, has i m → has j m) → ¬ (∀ m, has j m → has i m) → i < j
  inter : ∀ i j, i < n → j < n → ∃ k, k < n ∧ ∀ m, has k m ↔ (has i m ∧ has j m)

section
variable {n : Nat} {has : Nat → Nat → Prop}

/-- inclusion / strict inclusion of the listed sets -/
def Le (has : Nat → Nat → Prop) (i j : Nat) : Prop := ∀ m, has i m → has j m
def SSub (has : Nat → Nat → Prop) (i j : Nat) : Prop := Le has i j ∧ ¬ Le has j i

/-- `j` is a smallest strict superset of `i` among the `n` listed sets -/
def UpperCover (n : Nat) (has : Nat → Nat → Prop) (i j : Nat) : Prop :=
  SSub has i j ∧ ¬ ∃ k, k < n ∧ SSub has i k ∧ SSub has k j

/-- member `k` contains `set i ∪ {m}` -/
def Above (n : Nat) (has : Nat → Nat → Prop) (i m k : Nat) : Prop := k < n ∧ Le has i k ∧ has k m

/-- `k` is recorded in `children` while member `i` is processed -/
def Child (n : Nat) (has : Nat → Nat → Prop) (i k : Nat) : Prop :=
  ∃ m, ¬ has i m ∧ Above n has i m k ∧ ∀ j, j < k → ¬ Above n has i m j

theorem Le.trans {i j k : Nat} (a : Le has i j) (b : Le has j k) : Le has i k := fun m h => b m (a m h)

theorem SSub.trans {i j k : Nat} (a : SSub has i j) (b : SSub has j k) : SSub has i k :=
  ⟨a.1.trans b.1, fun h => b.2 (h.trans a.1)⟩

theorem SSub.trans_le {i j k : Nat} (a : SSub has i j) (b : Le has j k) : SSub has i k :=
  ⟨a.1.trans b, fun h => a.2 (b.trans h)⟩

theorem Le.trans_ssub {i j k : Nat} (a : Le has i j) (b : SSub has j k) : SSub has i k :=
  ⟨a.trans b.1, fun h => b.2 (h.trans a)⟩

theorem exists_least (P : Nat → Prop) : ∀ j, P j → ∃ k, P k ∧ ∀ j', j' < k → ¬ P j' := by
  intro j
  induction j using Nat.strongRecOn with
  | _ j ih =>
    intro hj
    by_cases h : ∃ j', j' < j ∧ P j'
    · obtain ⟨j', hlt, hp⟩ := h
      exact ih j' hlt hp
    · exact ⟨j, hj, fun j' hlt hp => h ⟨j', hlt, hp⟩⟩

theorem Child.lt_and_ssub {i k : Nat} (c : Child n has i k) : k < n ∧ SSub has i k := by
  obtain ⟨m, hm, ⟨hk, hle, hkm⟩, _⟩ := c
  exact ⟨hk, hle, fun h => hm (h m hkm)⟩

theorem exists_child_le (F : Fam n has) {i j : Nat} (hj : j < n) (h : SSub has i j) :
    ∃ k, Child n has i k ∧ Le has k j := by
  have : ∃ m, has j m ∧ ¬ has i m := by
    false_or_by_contra
    rename_i hn
    exact h.2 fun m hm => Classical.byContradiction fun hc => hn ⟨m, hm, hc⟩
  obtain ⟨m, hjm, him⟩ := this
  obtain ⟨k, hk, hmin⟩ := exists_least (Above n has i m) j ⟨hj, h.1, hjm⟩
  refine ⟨k, ⟨m, him, hk, hmin⟩, ?_⟩
  obtain ⟨k', hk', hmeet⟩ := F.inter k j hk.1 hj
  have habove : Above n has i m k' :=
    ⟨hk', fun x hx => (hmeet x).mpr ⟨hk.2.1 x hx, h.1 x hx⟩, (hmeet m).mpr ⟨hk.2.2, hjm⟩⟩
  have hle' : Le has k' k := fun x hx => ((hmeet x).mp hx).1
  have hge : Le has k k' := by
    false_or_by_contra
    rename_i hn
    exact hmin k' (F.lt_of_ssub k' k hk' hk.1 hle' hn) habove
  exact fun x hx => ((hmeet x).mp (hge x hx)).2

/-- `trans_lattice[i] = children | trans_children` holds exactly the strict supersets -/
theorem trans_iff (F : Fam n has) {i j : Nat} (hi : i < n) :
    (Child n has i j ∨ ∃ c, Child n has i c ∧ (j < n ∧ SSub has c j)) ↔ (j < n ∧ SSub has i j) := by
  have _ := hi
  constructor
  · rintro (c | ⟨c, hc, hj, hs⟩)
    · exact c.lt_and_ssub
    · exact ⟨hj, hc.lt_and_ssub.2.trans hs⟩
  · rintro ⟨hj, hs⟩
    obtain ⟨k, hk, hle⟩ := exists_child_le F hj hs
    by_cases hjk : Le has j k
    · have : k = j := F.antisymm k j hk.lt_and_ssub.1 hj hle hjk
      exact .inl (this ▸ hk)
    · exact .inr ⟨k, hk, hj, hle, hjk⟩

/-- `lattice[i] = children & ~trans_children` holds exactly the upper covers -/
theorem cover_iff (F : Fam n has) {i j : Nat} (hi : i < n) :
    (Child n has i j ∧ ¬ ∃ c, Child n has i c ∧ (j < n ∧ SSub has c j)) ↔ (j < n ∧ UpperCover n has i j) := by
  have _ := hi
  constructor
  · rintro ⟨hc, hno⟩
    obtain ⟨hj, hs⟩ := hc.lt_and_ssub
    refine ⟨hj, hs, ?_⟩
    rintro ⟨k, hk, hik, hkj⟩
    obtain ⟨c, hcc, hle⟩ := exists_child_le F hk hik
    exact hno ⟨c, hcc, hj, hle.trans_ssub hkj⟩
  · rintro ⟨hj, hs, hno⟩
    obtain ⟨c, hcc, hle⟩ := exists_child_le F hj hs
    have hjc : Le has j c := by
      false_or_by_contra
      rename_i hn
      exact hno ⟨c, hcc.lt_and_ssub.1, hcc.lt_and_ssub.2, hle, hn⟩
    have : c = j := F.antisymm c j hcc.lt_and_ssub.1 hj hle hjc
    subst this
    refine ⟨hcc, ?_⟩
    rintro ⟨c', hc', _, hs'⟩
    exact hno ⟨c', hc'.lt_and_ssub.1, hc'.lt_and_ssub.2, hs'⟩

end
end Fca.Casp

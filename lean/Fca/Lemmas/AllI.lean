/-
  Fca.Lemmas.AllI — `all_i` / `any_i` of every backend are order-preserving filters.
-/
import Fca.Lemmas.BinTable
namespace Fca

theorem Table.data_eq_map_row (t : Table) : t.data = (List.range t.height).map t.row := by
  apply List.ext_getElem
  · simp [Table.height]
  · intro k h1 h2
    simp [Table.row, List.getD_eq_getElem?_getD, List.getElem?_eq_getElem h1]

theorem N.slice_none_rows (t : Table) (cols : Option (List Nat)) :
    N.slice t none cols = N.slice t (some (List.range t.height)) cols := by
  simp only [N.slice]
  rw [← Table.data_eq_map_row]

section
variable (t : Table) (h : t.WF)
include h

/-- rows meeting `all` over the selected columns, in the order of the row selection -/
theorem allI_axis1 (b : Backend) (rows : Option (List Nat)) (cols : Option (List Nat))
    (hr : ∀ rs, rows = some rs → ∀ i ∈ rs, i < t.height)
    (hc : ∀ cs, cols = some cs → ∀ c ∈ cs, c < t.width) :
    allI b t 1 rows cols
      = (rows.getD (List.range t.height)).filter fun i =>
          (cols.getD (List.range t.width)).all fun j => t.get i j := by
  have hrange : ∀ i ∈ List.range t.height, i < t.height := fun i hi => List.mem_range.mp hi
  cases b with
  | lists =>
    cases rows with
    | none =>
      have e : L.allPerRow t none cols = L.allPerRow t (some (List.range t.height)) cols := rfl
      simp only [allI, L.allI, Nat.one_ne_zero, ↓reduceIte, L.pairFilter, e,
        L.allPerRow_eq t h _ hrange, List.length_map, List.length_range, Option.getD_none]
      exact zipFilter_map _ _
    | some rs =>
      simp only [allI, L.allI, Nat.one_ne_zero, ↓reduceIte, L.pairFilter,
        L.allPerRow_eq t h rs (hr rs rfl), Option.getD_some]
      exact zipFilter_map _ _
  | bitarray =>
    cases rows with
    | none =>
      have e : B.allPerRow t none cols = B.allPerRow t (some (List.range t.height)) cols := rfl
      simp only [allI, B.allI, Nat.one_ne_zero, ↓reduceIte, B.pickI, e,
        B.allPerRow_eq t h _ hrange cols hc, Option.getD_none]
      exact search1_map_range _ _
    | some rs =>
      simp only [allI, B.allI, Nat.one_ne_zero, ↓reduceIte, B.pickI,
        B.allPerRow_eq t h rs (hr rs rfl) cols hc, Option.getD_some]
      exact search1_pick _ _
  | numpy =>
    cases rows with
    | none =>
      have e : N.allAxis t 1 none cols = N.allAxis t 1 (some (List.range t.height)) cols := by
        simp only [N.allAxis, N.slice_none_rows]
      simp only [allI, N.allI, Nat.one_ne_zero, ↓reduceIte, N.maskI, e,
        N.allAxis1_eq t h _ hrange, Option.getD_none]
      exact zipFilter_map _ _
    | some rs =>
      simp only [allI, N.allI, Nat.one_ne_zero, ↓reduceIte, N.maskI,
        N.allAxis1_eq t h rs (hr rs rfl), Option.getD_some]
      exact zipFilter_map _ _

theorem anyI_axis1 (b : Backend) (rows : Option (List Nat)) (cols : Option (List Nat))
    (hr : ∀ rs, rows = some rs → ∀ i ∈ rs, i < t.height)
    (hc : ∀ cs, cols = some cs → ∀ c ∈ cs, c < t.width) :
    anyI b t 1 rows cols
      = (rows.getD (List.range t.height)).filter fun i =>
          (cols.getD (List.range t.width)).any fun j => t.get i j := by
  have hrange : ∀ i ∈ List.range t.height, i < t.height := fun i hi => List.mem_range.mp hi
  cases b with
  | lists =>
    cases rows with
    | none =>
      have e : L.anyPerRow t none cols = L.anyPerRow t (some (List.range t.height)) cols := rfl
      simp only [anyI, L.anyI, Nat.one_ne_zero, ↓reduceIte, L.pairFilter, e,
        L.anyPerRow_eq t h _ hrange, List.length_map, List.length_range, Option.getD_none]
      exact zipFilter_map _ _
    | some rs =>
      simp only [anyI, L.anyI, Nat.one_ne_zero, ↓reduceIte, L.pairFilter,
        L.anyPerRow_eq t h rs (hr rs rfl), Option.getD_some]
      exact zipFilter_map _ _
  | bitarray =>
    cases rows with
    | none =>
      have e : B.anyPerRow t none cols = B.anyPerRow t (some (List.range t.height)) cols := rfl
      simp only [anyI, B.anyI, Nat.one_ne_zero, ↓reduceIte, B.pickI, e,
        B.anyPerRow_eq t h _ hrange cols hc, Option.getD_none]
      exact search1_map_range _ _
    | some rs =>
      simp only [anyI, B.anyI, Nat.one_ne_zero, ↓reduceIte, B.pickI,
        B.anyPerRow_eq t h rs (hr rs rfl) cols hc, Option.getD_some]
      exact search1_pick _ _
  | numpy =>
    cases rows with
    | none =>
      have e : N.anyAxis t 1 none cols = N.anyAxis t 1 (some (List.range t.height)) cols := by
        simp only [N.anyAxis, N.slice_none_rows]
      simp only [anyI, N.anyI, Nat.one_ne_zero, ↓reduceIte, N.maskI, e,
        N.anyAxis1_eq t h _ hrange, Option.getD_none]
      exact zipFilter_map _ _
    | some rs =>
      simp only [anyI, N.anyI, Nat.one_ne_zero, ↓reduceIte, N.maskI,
        N.anyAxis1_eq t h rs (hr rs rfl), Option.getD_some]
      exact zipFilter_map _ _

/-- columns meeting `all` over the selected rows, in the order of the column selection -/
theorem allI_axis0 (b : Backend) (rows : List Nat) (cols : Option (List Nat))
    (hr : ∀ i ∈ rows, i < t.height)
    (hc : ∀ cs, cols = some cs → ∀ c ∈ cs, c < t.width) :
    allI b t 0 (some rows) cols
      = (cols.getD (List.range t.width)).filter fun c => rows.all fun i => t.get i c := by
  cases b with
  | lists =>
    cases cols with
    | none =>
      simp only [allI, L.allI, ↓reduceIte, L.pairFilter, L.allPerColumn_eq, List.length_map,
        List.length_range, Option.getD_none]
      exact zipFilter_map _ _
    | some cs =>
      simp only [allI, L.allI, ↓reduceIte, L.pairFilter, L.allPerColumn_eq, Option.getD_some]
      exact zipFilter_map _ _
  | bitarray =>
    cases cols with
    | none =>
      simp only [allI, B.allI, ↓reduceIte, B.pickI, B.allPerColumn_eq t h rows hr none hc,
        Option.getD_none]
      exact search1_map_range _ _
    | some cs =>
      simp only [allI, B.allI, ↓reduceIte, B.pickI, B.allPerColumn_eq t h rows hr (some cs) hc,
        Option.getD_some]
      exact search1_pick _ _
  | numpy =>
    cases cols with
    | none =>
      simp only [allI, N.allI, ↓reduceIte, N.maskI, N.allAxis0_eq, Option.getD_none]
      exact zipFilter_map _ _
    | some cs =>
      simp only [allI, N.allI, ↓reduceIte, N.maskI, N.allAxis0_eq, Option.getD_some]
      exact zipFilter_map _ _

theorem anyI_axis0 (b : Backend) (rows : List Nat) (cols : Option (List Nat))
    (hr : ∀ i ∈ rows, i < t.height)
    (hc : ∀ cs, cols = some cs → ∀ c ∈ cs, c < t.width) :
    anyI b t 0 (some rows) cols
      = (cols.getD (List.range t.width)).filter fun c => rows.any fun i => t.get i c := by
  cases b with
  | lists =>
    cases cols with
    | none =>
      simp only [anyI, L.anyI, ↓reduceIte, L.pairFilter, L.anyPerColumn_eq, List.length_map,
        List.length_range, Option.getD_none]
      exact zipFilter_map _ _
    | some cs =>
      simp only [anyI, L.anyI, ↓reduceIte, L.pairFilter, L.anyPerColumn_eq, Option.getD_some]
      exact zipFilter_map _ _
  | bitarray =>
    cases cols with
    | none =>
      simp only [anyI, B.anyI, ↓reduceIte, B.pickI, B.anyPerColumn_eq t h rows hr none hc,
        Option.getD_none]
      exact search1_map_range _ _
    | some cs =>
      simp only [anyI, B.anyI, ↓reduceIte, B.pickI, B.anyPerColumn_eq t h rows hr (some cs) hc,
        Option.getD_some]
      exact search1_pick _ _
  | numpy =>
    cases cols with
    | none =>
      simp only [anyI, N.anyI, ↓reduceIte, N.maskI, N.anyAxis0_eq, Option.getD_none]
      exact zipFilter_map _ _
    | some cs =>
      simp only [anyI, N.anyI, ↓reduceIte, N.maskI, N.anyAxis0_eq, Option.getD_some]
      exact zipFilter_map _ _

end
end Fca

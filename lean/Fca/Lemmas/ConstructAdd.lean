/-
  Fca.Lemmas.ConstructAdd — `add_concept`: the two searches find the upper / lower covers of the new
  concept, and the dictionary updates turn the cover relation of the list into the one of the enlarged list.
-/
import Fca.Lemmas.ConstructBasic
import Fca.Lemmas.ConstructBfs
import Fca.Lemmas.ConstructTree
import Fca.Lemmas.ConstructTopBottom
namespace Fca.Construct
open Fca.Spec

/-! ### generic facts about adding the index `n` to a strict order on `0 … n` -/

variable {n : Nat} {L : Nat → Nat → Bool} {rk : Nat → Nat}

/-- the result of the downward search is the set of upper covers of the new index -/
theorem mem_upper_new_iff (h : StrictOrd L rk) {x : Nat} :
    x ∈ upperCoversBy (n + 1) L n ↔
      x < n ∧ L n x = true ∧ ∀ s ∈ coversBy n L x, L n s = false := by
  rw [mem_upperCoversBy]
  constructor
  · rintro ⟨h1, h2, h3⟩
    have hxn : x ≠ n := by
      intro e; subst e; rw [h.irrefl] at h2; cases h2
    refine ⟨by omega, h2, fun s hs => ?_⟩
    have hs' := mem_coversBy.mp hs
    apply Bool.eq_false_iff.mpr
    intro hns
    have := h3 s (by omega) hns
    rw [hs'.2.1] at this; cases this
  · rintro ⟨h1, h2, h3⟩
    refine ⟨by omega, h2, fun k hk hnk => ?_⟩
    apply Bool.eq_false_iff.mpr
    intro hkx
    have hkn : k ≠ n := by
      intro e; subst e; rw [h.irrefl] at hnk; cases hnk
    obtain ⟨b, hb, hb2⟩ := exists_cover_below (n := n) h (x := n) (a := x) k (by omega) hnk hkx
    have hnb : L n b = true := by
      rcases hb2 with rfl | hb2
      · exact hnk
      · exact h.trans _ _ _ hnk hb2
    have := h3 b hb
    rw [hnb] at this; cases this

/-- dictionary update `for s in U: d[s] = (d[s] - Dn) | {n}` reads as expected -/
theorem foldl_update_getD (g : List Nat → List Nat) :
    ∀ (l : List Nat) (D : List (List Nat)), l.Nodup → (∀ s ∈ l, s < D.length) →
      (l.foldl (fun d s => d.set s (g (d.getD s []))) D).length = D.length ∧
      ∀ i, (l.foldl (fun d s => d.set s (g (d.getD s []))) D).getD i []
        = if i ∈ l then g (D.getD i []) else D.getD i [] := by
  intro l
  induction l with
  | nil => intro D _ _; simp
  | cons s rest ih =>
    intro D hnd hlt
    have hnd' := List.nodup_cons.mp hnd
    have hs : s < D.length := hlt s (List.mem_cons_self ..)
    obtain ⟨ih1, ih2⟩ := ih (D.set s (g (D.getD s []))) hnd'.2
      (fun x hx => by simpa using hlt x (List.mem_cons_of_mem _ hx))
    simp only [List.foldl_cons]
    refine ⟨by simpa using ih1, fun i => ?_⟩
    rw [ih2 i]
    by_cases his : i = s
    · subst his
      simp only [hnd'.1, if_false, List.mem_cons_self, if_true]
      exact getD_set_self hs
    · rw [getD_set_ne his]
      simp [his]

/-- lower covers after the index `n` has been added -/
theorem covers_succ_iff (h : StrictOrd L rk) {c x : Nat} (hc : c < n) :
    x ∈ coversBy (n + 1) L c ↔
      (c ∈ upperCoversBy (n + 1) L n ∧ ((x ∈ coversBy n L c ∧ x ∉ coversBy (n + 1) L n) ∨ x = n)) ∨
      (c ∉ upperCoversBy (n + 1) L n ∧ x ∈ coversBy n L c) := by
  have hnn : L n n = false := h.irrefl n
  by_cases hU : c ∈ upperCoversBy (n + 1) L n
  · have hU' := mem_upperCoversBy.mp hU
    constructor
    · intro hx
      left
      refine ⟨hU, ?_⟩
      have hx' := mem_coversBy.mp hx
      by_cases hxn : x = n
      · exact Or.inr hxn
      · left
        have hxlt : x < n := by omega
        refine ⟨mem_coversBy.mpr ⟨hxlt, hx'.2.1, fun k hk hxk => hx'.2.2 k (by omega) hxk⟩, ?_⟩
        intro hxD
        have hxD' := mem_coversBy.mp hxD
        have := hx'.2.2 n (by omega) hxD'.2.1
        rw [hU'.2.1] at this; cases this
    · rintro (⟨_, hx⟩ | ⟨hnU, _⟩)
      · rcases hx with ⟨hx, hxD⟩ | rfl
        · have hx' := mem_coversBy.mp hx
          refine mem_coversBy.mpr ⟨by omega, hx'.2.1, fun k hk hxk => ?_⟩
          by_cases hkn : k = n
          · subst hkn
            -- then `x` would be a lower cover of the new index
            exfalso
            apply hxD
            refine mem_coversBy.mpr ⟨by omega, hxk, fun m hm hxm => ?_⟩
            apply Bool.eq_false_iff.mpr
            intro hmk
            have hmn : m ≠ k := by intro e; subst e; rw [hnn] at hmk; cases hmk
            have := hx'.2.2 m (by omega) hxm
            rw [h.trans _ _ _ hmk hU'.2.1] at this; cases this
          · exact hx'.2.2 k (by omega) hxk
        · exact mem_coversBy.mpr ⟨by omega, hU'.2.1, fun k hk hnk => hU'.2.2 k hk hnk⟩
      · exact absurd hU hnU
  · constructor
    · intro hx
      right
      refine ⟨hU, ?_⟩
      have hx' := mem_coversBy.mp hx
      have hxn : x ≠ n := by
        intro e; subst e
        exact hU (mem_upperCoversBy.mpr ⟨by omega, hx'.2.1, fun k hk hnk => hx'.2.2 k hk hnk⟩)
      exact mem_coversBy.mpr ⟨by omega, hx'.2.1, fun k hk hxk => hx'.2.2 k (by omega) hxk⟩
    · rintro (⟨hU', _⟩ | ⟨_, hx⟩)
      · exact absurd hU' hU
      · have hx' := mem_coversBy.mp hx
        refine mem_coversBy.mpr ⟨by omega, hx'.2.1, fun k hk hxk => ?_⟩
        by_cases hkn : k = n
        · subst hkn
          apply Bool.eq_false_iff.mpr
          intro hkc
          obtain ⟨m, hm, hkm, hmc⟩ := exists_between_of_not_upper (by omega) hkc hU
          have hmk : m ≠ k := by intro e; subst e; rw [hnn] at hkm; cases hkm
          have := hx'.2.2 m (by omega) (h.trans _ _ _ hxk hkm)
          rw [hmc] at this; cases this
        · exact hx'.2.2 k (by omega) hxk

/-- the loop over the direct superconcepts followed by `d[n] = Dn` yields the enlarged cover relation -/
theorem update_covers (h : StrictOrd L rk) (D : List (List Nat)) (hlen : D.length = n)
    (hD : ∀ c, c < n → (D.getD c []).Nodup ∧ SameSetC (D.getD c []) (coversBy n L c))
    (U Dn ordU : List Nat) (hUnd : U.Nodup) (hU : SameSetC U (upperCoversBy (n + 1) L n))
    (hDnnd : Dn.Nodup) (hDn : SameSetC Dn (coversBy (n + 1) L n)) (hordU : ordU.Perm U) :
    ((ordU.foldl (fun d s => d.set s (addSet (diff (d.getD s []) Dn) n)) D) ++ [Dn]).length = n + 1 ∧
    ∀ c, c < n + 1 →
      (((ordU.foldl (fun d s => d.set s (addSet (diff (d.getD s []) Dn) n)) D) ++ [Dn]).getD c []).Nodup ∧
      SameSetC (((ordU.foldl (fun d s => d.set s (addSet (diff (d.getD s []) Dn) n)) D) ++ [Dn]).getD c [])
        (coversBy (n + 1) L c) := by
  have hmemU : ∀ s, s ∈ ordU ↔ s ∈ upperCoversBy (n + 1) L n := fun s => by rw [hordU.mem_iff]; exact hU s
  have hlt : ∀ s ∈ ordU, s < D.length := by
    intro s hs
    have := (mem_upper_new_iff h).mp ((hmemU s).mp hs)
    omega
  obtain ⟨f1, f2⟩ := foldl_update_getD (fun x => addSet (diff x Dn) n) ordU D
    (hordU.nodup_iff.mpr hUnd) hlt
  generalize hF : (ordU.foldl (fun d s => d.set s (addSet (diff (d.getD s []) Dn) n)) D) = F at f1 f2 ⊢
  have hFlen : F.length = n := by rw [f1, hlen]
  refine ⟨by rw [List.length_append, hFlen]; rfl, fun c hc => ?_⟩
  by_cases hcn : c = n
  · subst hcn
    have : (F ++ [Dn]).getD c [] = Dn := by
      rw [List.getD_eq_getElem?_getD, List.getElem?_append_right (by omega), hFlen]
      simp
    rw [this]
    exact ⟨hDnnd, hDn⟩
  · have hc' : c < n := by omega
    have : (F ++ [Dn]).getD c []
        = if c ∈ ordU then addSet (diff (D.getD c []) Dn) n else D.getD c [] := by
      rw [List.getD_eq_getElem?_getD, List.getElem?_append_left (by omega), ← List.getD_eq_getElem?_getD]
      exact f2 c
    rw [this]
    obtain ⟨d1, d2⟩ := hD c hc'
    constructor
    · split
      · exact nodup_addSet (nodup_diff d1)
      · exact d1
    · intro x
      rw [covers_succ_iff h hc']
      by_cases hcU : c ∈ ordU
      · rw [if_pos hcU, mem_addSet, mem_diff, d2 x, hDn x]
        have := (hmemU c).mp hcU
        constructor
        · intro hx; exact Or.inl ⟨this, hx⟩
        · rintro (⟨_, hx⟩ | ⟨hn, _⟩)
          · exact hx
          · exact absurd this hn
      · rw [if_neg hcU, d2 x]
        have : c ∉ upperCoversBy (n + 1) L n := fun e => hcU ((hmemU c).mpr e)
        constructor
        · intro hx; exact Or.inr ⟨this, hx⟩
        · rintro (⟨hU', _⟩ | ⟨_, hx⟩)
          · exact absurd hU' this
          · exact hx

/-! ### instantiation on extent lists -/

theorem coversBy_congr {m : Nat} {L1 L2 : Nat → Nat → Bool} (hL : ∀ i j, i < m → j < m → L1 i j = L2 i j)
    {c x : Nat} (hc : c < m) : x ∈ coversBy m L1 c ↔ x ∈ coversBy m L2 c := by
  rw [mem_coversBy, mem_coversBy]
  constructor
  · rintro ⟨h1, h2, h3⟩
    refine ⟨h1, by rw [← hL x c h1 hc]; exact h2, fun k hk hxk => ?_⟩
    rw [← hL k c hk hc]; exact h3 k hk (by rw [hL x k h1 hk]; exact hxk)
  · rintro ⟨h1, h2, h3⟩
    refine ⟨h1, by rw [hL x c h1 hc]; exact h2, fun k hk hxk => ?_⟩
    rw [hL k c hk hc]; exact h3 k hk (by rw [← hL x k h1 hk]; exact hxk)

theorem getD_append_left' (cs : List Ext) (new : Ext) {i : Nat} (hi : i < cs.length) :
    (cs ++ [new]).getD i [] = cs.getD i [] := by
  simp [List.getD_eq_getElem?_getD, List.getElem?_append_left hi]

theorem getD_append_new (cs : List Ext) (new : Ext) : (cs ++ [new]).getD cs.length [] = new := by
  simp [List.getD_eq_getElem?_getD]

theorem length_le_foldl_add (l : List Nat) (a : Nat) :
    a ≤ l.foldl (· + ·) a ∧ ∀ x ∈ l, x ≤ l.foldl (· + ·) a := by
  induction l generalizing a with
  | nil => simp
  | cons y ys ih =>
    simp only [List.foldl_cons]
    obtain ⟨h1, h2⟩ := ih (a + y)
    refine ⟨by omega, fun x hx => ?_⟩
    rcases List.mem_cons.mp hx with rfl | hx
    · omega
    · exact h2 x hx

theorem getD_length_le_edges (d : List (List Nat)) (c : Nat) :
    (d.getD c []).length ≤ (d.map List.length).foldl (· + ·) 0 := by
  rw [List.getD_eq_getElem?_getD]
  cases hc : d[c]? with
  | none => simp
  | some e =>
    exact (length_le_foldl_add (d.map List.length) 0).2 e.length
      (List.mem_map.mpr ⟨e, List.mem_of_getElem? hc, rfl⟩)

/-- what `add_concept` is given: the correct cover relation of a list with a greatest and a least concept,
    the true extreme indexes (or `None`), and a new concept that keeps both extremes unique -/
structure AddInput (cs : List Ext) (new : Ext) (r : Rel) (t0 b0 : Nat) : Prop where
  nodup : ExtsNodup (cs ++ [new])
  len : 2 ≤ cs.length
  fresh : ∀ c ∈ cs, eqC new c = false
  sub : IsCoverDict cs r.sub
  sup : IsUpperCoverDict cs r.sup
  top : IsTop cs t0
  bot : IsBottom cs b0
  rtop : r.top = none ∨ r.top = some t0
  rbot : r.bot = none ∨ r.bot = some b0
  top' : ∃ t', IsTop (cs ++ [new]) t'
  bot' : ∃ b', IsBottom (cs ++ [new]) b'

section
variable {cs : List Ext} {new : Ext} {r : Rel} {t0 b0 : Nat}

theorem AddInput.nodupCs (hin : AddInput cs new r t0 b0) : ExtsNodup cs :=
  fun e he => hin.nodup e (List.mem_append_left _ he)

/-- the order of the enlarged list restricted to old indexes is the old one -/
theorem ltAt_append_old (cs : List Ext) (new : Ext) {i j : Nat} (hi : i < cs.length) (hj : j < cs.length) :
    ltAt (cs ++ [new]) i j = ltAt cs i j := by
  unfold ltAt; rw [getD_append_left' cs new hi, getD_append_left' cs new hj]

theorem ltAt_new_left (cs : List Ext) (new : Ext) {s : Nat} (hs : s < cs.length) :
    ltAt (cs ++ [new]) cs.length s = ltC new (cs.getD s []) := by
  unfold ltAt; rw [getD_append_new, getD_append_left' cs new hs]

theorem ltAt_new_right (cs : List Ext) (new : Ext) {s : Nat} (hs : s < cs.length) :
    ltAt (cs ++ [new]) s cs.length = ltC (cs.getD s []) new := by
  unfold ltAt; rw [getD_append_new, getD_append_left' cs new hs]

theorem AddInput.tb (hin : AddInput cs new r t0 b0) : addTopBottom cs new r = (some t0, some b0) := by
  have hnd := hin.nodupCs
  have hg : getTopBottom cs.length (suppAt cs) = (some t0, some b0) := by
    apply getTopBottom_eq hin.top.1 hin.bot.1
    · intro j hj hne
      have := hin.top.2 j hj hne
      rw [← ltAt_eq_ssubAt hnd] at this
      exact ltC_length this
    · intro j hj hne
      have := hin.bot.2 j hj hne
      rw [← ltAt_eq_ssubAt hnd] at this
      exact ltC_length this
  unfold addTopBottom
  rcases hin.rtop with e1 | e1 <;> rcases hin.rbot with e2 | e2 <;> rw [e1, e2] <;> simp only
  · exact hg
  · exact hg
  · exact hg
  · split
    · exact hg
    · rfl

/-- facts about the enlarged order used by all three branches -/
structure AddFacts (cs : List Ext) (new : Ext) (t0 b0 : Nat) : Prop where
  so : StrictOrd (ltAt (cs ++ [new])) (suppAt (cs ++ [new]))
  topL : ∀ j, j < cs.length → j ≠ t0 → ltAt (cs ++ [new]) j t0 = true
  botL : ∀ j, j < cs.length → j ≠ b0 → ltAt (cs ++ [new]) b0 j = true
  t0lt : t0 < cs.length
  b0lt : b0 < cs.length
  ne : t0 ≠ b0

theorem AddInput.facts (hin : AddInput cs new r t0 b0) : AddFacts cs new t0 b0 := by
  have hnd := hin.nodupCs
  refine ⟨strictOrd_ltAt _ hin.nodup, ?_, ?_, hin.top.1, hin.bot.1, ?_⟩
  · intro j hj hne
    rw [ltAt_append_old cs new hj hin.top.1, ltAt_eq_ssubAt hnd]; exact hin.top.2 j hj hne
  · intro j hj hne
    rw [ltAt_append_old cs new hin.bot.1 hj, ltAt_eq_ssubAt hnd]; exact hin.bot.2 j hj hne
  · intro e
    -- with two concepts the top cannot also be the bottom
    have hlen := hin.len
    have : ∃ j, j < cs.length ∧ j ≠ t0 := by
      by_cases h0 : t0 = 0
      · exact ⟨1, by omega, by omega⟩
      · exact ⟨0, by omega, fun e => h0 e.symm⟩
    obtain ⟨j, hj, hne⟩ := this
    have h1 := hin.top.2 j hj hne
    have h2 := hin.bot.2 j hj (by rw [← e]; exact hne)
    rw [← e] at h2
    rw [← ltAt_eq_ssubAt hnd] at h1 h2
    have := (strictOrd_ltAt cs hnd).asymm h1
    rw [h2] at this; cases this

theorem isTop_iff_L (cs' : List Ext) (hnd : ExtsNodup cs') (t : Nat) :
    IsTop cs' t ↔ t < cs'.length ∧ ∀ j, j < cs'.length → j ≠ t → ltAt cs' j t = true := by
  unfold IsTop; rw [ltAt_eq_ssubAt hnd]

theorem isBottom_iff_L (cs' : List Ext) (hnd : ExtsNodup cs') (b : Nat) :
    IsBottom cs' b ↔ b < cs'.length ∧ ∀ j, j < cs'.length → j ≠ b → ltAt cs' b j = true := by
  unfold IsBottom; rw [ltAt_eq_ssubAt hnd]

/-- branch `new > top` -/
theorem add_branchA (f : AddFacts cs new t0 b0)
    (hA : ltAt (cs ++ [new]) t0 cs.length = true) :
    SameSetC [] (upperCoversBy (cs.length + 1) (ltAt (cs ++ [new])) cs.length) ∧
    SameSetC [t0] (coversBy (cs.length + 1) (ltAt (cs ++ [new])) cs.length) ∧
    (∀ j, j < cs.length + 1 → j ≠ cs.length → ltAt (cs ++ [new]) j cs.length = true) ∧
    (∀ j, j < cs.length + 1 → j ≠ b0 → ltAt (cs ++ [new]) b0 j = true) := by
  have hall : ∀ j, j < cs.length → ltAt (cs ++ [new]) j cs.length = true := by
    intro j hj
    by_cases e : j = t0
    · rw [e]; exact hA
    · exact f.so.trans _ _ _ (f.topL j hj e) hA
  refine ⟨?_, ?_, ?_, ?_⟩
  · intro x
    constructor
    · intro h; cases h
    · intro h
      have h' := (mem_upper_new_iff f.so).mp h
      have := f.so.asymm (hall x h'.1)
      rw [h'.2.1] at this; cases this
  · intro x
    rw [mem_coversBy]
    constructor
    · intro h
      have : x = t0 := by simpa using h
      subst this
      refine ⟨by have := f.t0lt; omega, hA, fun k hk hxk => ?_⟩
      apply Bool.eq_false_iff.mpr
      intro hkn'
      by_cases hkn : k = cs.length
      · subst hkn
        rw [f.so.irrefl] at hkn'; cases hkn'
      · have hkx : k ≠ x := by intro e; subst e; rw [f.so.irrefl] at hxk; cases hxk
        have := f.so.asymm (f.topL k (by omega) hkx)
        rw [hxk] at this; cases this
    · rintro ⟨h1, h2, h3⟩
      have hxn : x ≠ cs.length := by intro e; subst e; rw [f.so.irrefl] at h2; cases h2
      by_cases e : x = t0
      · simp [e]
      · have := h3 t0 (by have := f.t0lt; omega) (f.topL x (by omega) e)
        rw [hA] at this; cases this
  · intro j hj hne; exact hall j (by omega)
  · intro j hj hne
    by_cases hjn : j = cs.length
    · subst hjn; exact hall b0 f.b0lt
    · exact f.botL j (by omega) hne

/-- branch `new < bottom` -/
theorem add_branchB (f : AddFacts cs new t0 b0)
    (hB : ltAt (cs ++ [new]) cs.length b0 = true) :
    SameSetC [b0] (upperCoversBy (cs.length + 1) (ltAt (cs ++ [new])) cs.length) ∧
    SameSetC [] (coversBy (cs.length + 1) (ltAt (cs ++ [new])) cs.length) ∧
    (∀ j, j < cs.length + 1 → j ≠ t0 → ltAt (cs ++ [new]) j t0 = true) ∧
    (∀ j, j < cs.length + 1 → j ≠ cs.length → ltAt (cs ++ [new]) cs.length j = true) := by
  have hall : ∀ j, j < cs.length → ltAt (cs ++ [new]) cs.length j = true := by
    intro j hj
    by_cases e : j = b0
    · rw [e]; exact hB
    · exact f.so.trans _ _ _ hB (f.botL j hj e)
  refine ⟨?_, ?_, ?_, ?_⟩
  · intro x
    rw [mem_upperCoversBy]
    constructor
    · intro h
      have : x = b0 := by simpa using h
      subst this
      refine ⟨by have := f.b0lt; omega, hB, fun k hk hnk => ?_⟩
      apply Bool.eq_false_iff.mpr
      intro hkx
      by_cases hkn : k = cs.length
      · subst hkn; rw [f.so.irrefl] at hnk; cases hnk
      · have hkx' : k ≠ x := by intro e; subst e; rw [f.so.irrefl] at hkx; cases hkx
        have := f.so.asymm (f.botL k (by omega) hkx')
        rw [hkx] at this; cases this
    · rintro ⟨h1, h2, h3⟩
      have hxn : x ≠ cs.length := by intro e; subst e; rw [f.so.irrefl] at h2; cases h2
      by_cases e : x = b0
      · simp [e]
      · have := h3 b0 (by have := f.b0lt; omega) hB
        rw [f.botL x (by omega) e] at this; cases this
  · intro x
    constructor
    · intro h; cases h
    · intro h
      have h' := mem_coversBy.mp h
      have hxn : x ≠ cs.length := by intro e; subst e; rw [f.so.irrefl] at h'; cases h'.2.1
      have := f.so.asymm (hall x (by omega))
      rw [h'.2.1] at this; cases this
  · intro j hj hne
    by_cases hjn : j = cs.length
    · subst hjn; exact hall t0 f.t0lt
    · exact f.topL j (by omega) hne
  · intro j hj hne; exact hall j (by omega)

/-- `B ^ r < fuel` for every rank below the exponent of `addFuel` -/
theorem pow_lt_addFuel {fuel e : Nat} (hf : addFuel cs new r ≤ fuel)
    (he : e ≤ walkFuel (cs ++ [new])) :
    ((r.sub.map List.length).foldl (· + ·) 0 + (r.sup.map List.length).foldl (· + ·) 0 + 2) ^ e < fuel := by
  unfold addFuel at hf
  have := Nat.pow_le_pow_right (n := (r.sub.map List.length).foldl (· + ·) 0
    + (r.sup.map List.length).foldl (· + ·) 0 + 2) (by omega) he
  simp only at hf
  omega

/-- branch "in between": both searches succeed and return the covers of the new index -/
theorem add_branchC (hin : AddInput cs new r t0 b0) (ord : List Nat → List Nat)
    (hperm : ∀ xs, (ord xs).Perm xs) {fuel : Nat} (hf : addFuel cs new r ≤ fuel)
    (hnA : ltAt (cs ++ [new]) t0 cs.length = false) (hnB : ltAt (cs ++ [new]) cs.length b0 = false) :
    ∃ dsup dsub,
      bfsDirect r.sub (fun s => ltC new (cs.getD s [])) ord fuel [t0] [] [] = .ok dsup ∧
      bfsDirect r.sup (fun s => ltC (cs.getD s []) new) ord fuel [b0] [] [] = .ok dsub ∧
      dsup.Nodup ∧ SameSetC dsup (upperCoversBy (cs.length + 1) (ltAt (cs ++ [new])) cs.length) ∧
      dsub.Nodup ∧ SameSetC dsub (coversBy (cs.length + 1) (ltAt (cs ++ [new])) cs.length) ∧
      (∀ j, j < cs.length + 1 → j ≠ t0 → ltAt (cs ++ [new]) j t0 = true) ∧
      (∀ j, j < cs.length + 1 → j ≠ b0 → ltAt (cs ++ [new]) b0 j = true) := by
  have f := hin.facts
  have hnd := hin.nodupCs
  have hlen' : (cs ++ [new]).length = cs.length + 1 := by simp
  -- the new concept lies strictly between bottom and top
  have hnt : ltAt (cs ++ [new]) cs.length t0 = true := by
    obtain ⟨t', ht'⟩ := hin.top'
    rw [isTop_iff_L _ hin.nodup, hlen'] at ht'
    have ht'n : t' ≠ cs.length := by
      intro e; subst e
      have := ht'.2 t0 (by have := f.t0lt; omega) (by have := f.t0lt; omega)
      rw [hnA] at this; cases this
    have ht't0 : t' = t0 := by
      apply Classical.byContradiction
      intro e
      have h1 := ht'.2 t0 (by have := f.t0lt; omega) (fun e' => e e'.symm)
      have h2 := f.topL t' (by omega) e
      have := f.so.asymm h1
      rw [h2] at this; cases this
    rw [← ht't0]
    exact ht'.2 cs.length (by omega) (fun e => ht'n e.symm)
  have hbn : ltAt (cs ++ [new]) b0 cs.length = true := by
    obtain ⟨b', hb'⟩ := hin.bot'
    rw [isBottom_iff_L _ hin.nodup, hlen'] at hb'
    have hb'n : b' ≠ cs.length := by
      intro e; subst e
      have := hb'.2 b0 (by have := f.b0lt; omega) (by have := f.b0lt; omega)
      rw [hnB] at this; cases this
    have hb'b0 : b' = b0 := by
      apply Classical.byContradiction
      intro e
      have h1 := hb'.2 b0 (by have := f.b0lt; omega) (fun e' => e e'.symm)
      have h2 := f.botL b' (by omega) e
      have := f.so.asymm h1
      rw [h2] at this; cases this
    rw [← hb'b0]
    exact hb'.2 cs.length (by omega) (fun e => hb'n e.symm)
  -- the adjacency dictionaries in terms of the enlarged order
  have hsubD : ∀ c, c < cs.length → SameSetC (r.sub.getD c []) (coversBy cs.length (ltAt (cs ++ [new])) c) := by
    intro c hc x
    rw [(hin.sub.2 c hc).2 x]
    unfold Spec.covers
    rw [← ltAt_eq_ssubAt hnd]
    exact coversBy_congr (fun i j hi hj => (ltAt_append_old cs new hi hj).symm) hc
  have hsupD : ∀ c, c < cs.length →
      SameSetC (r.sup.getD c []) (coversBy cs.length (flipR (ltAt (cs ++ [new]))) c) := by
    intro c hc x
    rw [(hin.sup.2 c hc).2 x]
    unfold Spec.upperCoversC
    rw [← ltAt_eq_ssubAt hnd, ← mem_coversBy_flip]
    exact coversBy_congr (fun i j hi hj => by unfold flipR; exact (ltAt_append_old cs new hj hi).symm) hc
  have hW : ∀ i, suppAt (cs ++ [new]) i < walkFuel (cs ++ [new]) := suppAt_lt_walkFuel _
  have hsoF := strictOrd_flip f.so (walkFuel (cs ++ [new])) hW
  -- the search from the top
  have ctxU : BfsCtx cs.length (ltAt (cs ++ [new])) (suppAt (cs ++ [new])) r.sub
      (fun s => ltC new (cs.getD s [])) t0
      ((r.sub.map List.length).foldl (· + ·) 0 + (r.sup.map List.length).foldl (· + ·) 0 + 2) := by
    refine ⟨f.so, hin.sub.1, hsubD, ?_, ?_, f.t0lt, ?_, ?_⟩
    · intro c _; have := getD_length_le_edges r.sub c; omega
    · intro s c hs hc hg hsc
      rw [← ltAt_new_left cs new hs] at hg
      rw [← ltAt_new_left cs new hc]
      exact f.so.trans _ _ _ hg hsc
    · rw [← ltAt_new_left cs new f.t0lt]; exact hnt
    · intro c hc _
      by_cases e : c = t0
      · exact Or.inl e
      · exact Or.inr (f.topL c hc e)
  have ctxD : BfsCtx cs.length (flipR (ltAt (cs ++ [new])))
      (fun i => walkFuel (cs ++ [new]) - suppAt (cs ++ [new]) i) r.sup
      (fun s => ltC (cs.getD s []) new) b0
      ((r.sub.map List.length).foldl (· + ·) 0 + (r.sup.map List.length).foldl (· + ·) 0 + 2) := by
    refine ⟨hsoF, hin.sup.1, hsupD, ?_, ?_, f.b0lt, ?_, ?_⟩
    · intro c _; have := getD_length_le_edges r.sup c; omega
    · intro s c hs hc hg hsc
      rw [← ltAt_new_right cs new hs] at hg
      rw [← ltAt_new_right cs new hc]
      unfold flipR at hsc
      exact f.so.trans _ _ _ hsc hg
    · rw [← ltAt_new_right cs new f.b0lt]; exact hbn
    · intro c hc _
      by_cases e : c = b0
      · exact Or.inl e
      · right; unfold flipR; exact f.botL c hc e
  obtain ⟨dsup, e1, nd1, ch1⟩ := bfsDirect_ok ctxU ord hperm fuel [t0] [] [] (bfsInv_init ctxU)
    (by rw [phi_cons]; simp only [phi, List.map_nil, List.sum_nil, Nat.add_zero]
        exact pow_lt_addFuel hf (Nat.le_of_lt (hW t0)))
  obtain ⟨dsub, e2, nd2, ch2⟩ := bfsDirect_ok ctxD ord hperm fuel [b0] [] [] (bfsInv_init ctxD)
    (by rw [phi_cons]; simp only [phi, List.map_nil, List.sum_nil, Nat.add_zero]
        exact pow_lt_addFuel hf (Nat.sub_le _ _))
  refine ⟨dsup, dsub, e1, e2, nd1, ?_, nd2, ?_, ?_, ?_⟩
  · intro x
    rw [ch1 x, mem_upper_new_iff f.so]
    constructor
    · rintro ⟨h1, h2, h3⟩
      refine ⟨h1, by rw [ltAt_new_left cs new h1]; exact h2, fun s hs => ?_⟩
      have hs' := (hsubD x h1 s).mpr hs
      have hsn := (mem_coversBy.mp hs).1
      rw [ltAt_new_left cs new hsn]; exact h3 s hs'
    · rintro ⟨h1, h2, h3⟩
      refine ⟨h1, by rw [← ltAt_new_left cs new h1]; exact h2, fun s hs => ?_⟩
      have hs' := (hsubD x h1 s).mp hs
      have hsn := (mem_coversBy.mp hs').1
      rw [← ltAt_new_left cs new hsn]; exact h3 s hs'
  · intro x
    rw [ch2 x, ← mem_upperCoversBy_flip, mem_upper_new_iff hsoF]
    constructor
    · rintro ⟨h1, h2, h3⟩
      refine ⟨h1, by unfold flipR; rw [ltAt_new_right cs new h1]; exact h2, fun s hs => ?_⟩
      have hs' := (hsupD x h1 s).mpr hs
      have hsn := (mem_coversBy.mp hs).1
      unfold flipR; rw [ltAt_new_right cs new hsn]; exact h3 s hs'
    · rintro ⟨h1, h2, h3⟩
      refine ⟨h1, by unfold flipR at h2; rw [← ltAt_new_right cs new h1]; exact h2, fun s hs => ?_⟩
      have hs' := (hsupD x h1 s).mp hs
      have hsn := (mem_coversBy.mp hs').1
      have := h3 s hs'
      unfold flipR at this
      rw [← ltAt_new_right cs new hsn]; exact this
  · intro j hj hne
    by_cases hjn : j = cs.length
    · subst hjn; exact hnt
    · exact f.topL j (by omega) hne
  · intro j hj hne
    by_cases hjn : j = cs.length
    · subst hjn; exact hbn
    · exact f.botL j (by omega) hne

/-- the three-way branch of `add_concept` -/
theorem addDirect_ok (hin : AddInput cs new r t0 b0) (ord : List Nat → List Nat)
    (hperm : ∀ xs, (ord xs).Perm xs) {fuel : Nat} (hf : addFuel cs new r ≤ fuel) :
    ∃ dsup dsub t' b', addDirect cs new r ord fuel t0 b0 = .ok (dsup, dsub, t', b') ∧
      dsup.Nodup ∧ SameSetC dsup (upperCoversBy (cs.length + 1) (ltAt (cs ++ [new])) cs.length) ∧
      dsub.Nodup ∧ SameSetC dsub (coversBy (cs.length + 1) (ltAt (cs ++ [new])) cs.length) ∧
      IsTop (cs ++ [new]) t' ∧ IsBottom (cs ++ [new]) b' := by
  have f := hin.facts
  have hlen' : (cs ++ [new]).length = cs.length + 1 := by simp
  unfold addDirect
  by_cases hA : ltC (cs.getD t0 []) new = true
  · rw [if_pos hA]
    rw [← ltAt_new_right cs new f.t0lt] at hA
    obtain ⟨a1, a2, a3, a4⟩ := add_branchA f hA
    refine ⟨[], [t0], cs.length, b0, rfl, List.nodup_nil, a1, by simp, a2, ?_, ?_⟩
    · rw [isTop_iff_L _ hin.nodup, hlen']; exact ⟨by omega, a3⟩
    · rw [isBottom_iff_L _ hin.nodup, hlen']; exact ⟨by have := f.b0lt; omega, a4⟩
  · rw [if_neg hA]
    by_cases hB : ltC new (cs.getD b0 []) = true
    · rw [if_pos hB]
      rw [← ltAt_new_left cs new f.b0lt] at hB
      obtain ⟨a1, a2, a3, a4⟩ := add_branchB f hB
      refine ⟨[b0], [], t0, cs.length, rfl, by simp, a1, List.nodup_nil, a2, ?_, ?_⟩
      · rw [isTop_iff_L _ hin.nodup, hlen']; exact ⟨by have := f.t0lt; omega, a3⟩
      · rw [isBottom_iff_L _ hin.nodup, hlen']; exact ⟨by omega, a4⟩
    · rw [if_neg hB]
      have hA' : ltAt (cs ++ [new]) t0 cs.length = false := by
        rw [ltAt_new_right cs new f.t0lt]; simpa using hA
      have hB' : ltAt (cs ++ [new]) cs.length b0 = false := by
        rw [ltAt_new_left cs new f.b0lt]; simpa using hB
      obtain ⟨dsup, dsub, e1, e2, c1, c2, c3, c4, c5, c6⟩ := add_branchC hin ord hperm hf hA' hB'
      rw [e1, e2]
      refine ⟨dsup, dsub, t0, b0, rfl, c1, c2, c3, c4, ?_, ?_⟩
      · rw [isTop_iff_L _ hin.nodup, hlen']; exact ⟨by have := f.t0lt; omega, c5⟩
      · rw [isBottom_iff_L _ hin.nodup, hlen']; exact ⟨by have := f.b0lt; omega, c6⟩

/-- `add_concept` turns the cover relation (both directions) and the extreme indexes of the list into
    those of the enlarged list -/
theorem addConcept_ok (hin : AddInput cs new r t0 b0) (ord : List Nat → List Nat)
    (hperm : ∀ xs, (ord xs).Perm xs) {fuel : Nat} (hf : addFuel cs new r ≤ fuel) :
    ∃ r', addConcept cs new r ord fuel = .ok r' ∧
      IsCoverDict (cs ++ [new]) r'.sub ∧ IsUpperCoverDict (cs ++ [new]) r'.sup ∧
      ∃ t' b', r'.top = some t' ∧ IsTop (cs ++ [new]) t' ∧ r'.bot = some b' ∧ IsBottom (cs ++ [new]) b' := by
  have f := hin.facts
  have hnd := hin.nodupCs
  have hlen' : (cs ++ [new]).length = cs.length + 1 := by simp
  obtain ⟨dsup, dsub, t', b', hd, n1, s1, n2, s2, ht, hb⟩ := addDirect_ok hin ord hperm hf
  have hfresh : (cs.any fun c => eqC new c) = false := by
    rw [List.any_eq_false]; intro c hc; rw [hin.fresh c hc]; simp
  have hlen : ¬ cs.length < 2 := by have := hin.len; omega
  unfold addConcept
  rw [hfresh]
  simp only [Bool.false_eq_true, if_false, hlen, hin.tb, hd]
  refine ⟨_, rfl, ?_, ?_, t', b', rfl, ht, rfl, hb⟩
  · -- children dictionary
    have hD : ∀ c, c < cs.length →
        (r.sub.getD c []).Nodup ∧ SameSetC (r.sub.getD c []) (coversBy cs.length (ltAt (cs ++ [new])) c) := by
      intro c hc
      refine ⟨(hin.sub.2 c hc).1, fun x => ?_⟩
      rw [(hin.sub.2 c hc).2 x]
      unfold Spec.covers
      rw [← ltAt_eq_ssubAt hnd]
      exact coversBy_congr (fun i j hi hj => (ltAt_append_old cs new hi hj).symm) hc
    obtain ⟨u1, u2⟩ := update_covers f.so r.sub hin.sub.1 hD dsup dsub (ord dsup) n1 s1 n2 s2 (hperm dsup)
    unfold IsCoverDict addFinish
    simp only
    rw [hlen']
    refine ⟨u1, fun i hi => ?_⟩
    unfold Spec.covers
    rw [hlen', ← ltAt_eq_ssubAt hin.nodup]
    exact u2 i hi
  · -- parents dictionary: the same statement for the reversed order
    have hW : ∀ i, suppAt (cs ++ [new]) i < walkFuel (cs ++ [new]) := suppAt_lt_walkFuel _
    have hsoF := strictOrd_flip f.so (walkFuel (cs ++ [new])) hW
    have hD : ∀ c, c < cs.length → (r.sup.getD c []).Nodup ∧
        SameSetC (r.sup.getD c []) (coversBy cs.length (flipR (ltAt (cs ++ [new]))) c) := by
      intro c hc
      refine ⟨(hin.sup.2 c hc).1, fun x => ?_⟩
      rw [(hin.sup.2 c hc).2 x]
      unfold Spec.upperCoversC
      rw [← ltAt_eq_ssubAt hnd, ← mem_coversBy_flip]
      exact coversBy_congr (fun i j hi hj => by unfold flipR; exact (ltAt_append_old cs new hj hi).symm) hc
    have s2' : SameSetC dsub (upperCoversBy (cs.length + 1) (flipR (ltAt (cs ++ [new]))) cs.length) :=
      fun x => by rw [s2 x, mem_upperCoversBy_flip]
    have s1' : SameSetC dsup (coversBy (cs.length + 1) (flipR (ltAt (cs ++ [new]))) cs.length) :=
      fun x => by rw [s1 x, mem_coversBy_flip]
    obtain ⟨u1, u2⟩ := update_covers hsoF r.sup hin.sup.1 hD dsub dsup (ord dsub) n2 s2' n1 s1' (hperm dsub)
    unfold IsUpperCoverDict addFinish
    simp only
    rw [hlen']
    refine ⟨u1, fun i hi => ⟨(u2 i hi).1, fun x => ?_⟩⟩
    rw [(u2 i hi).2 x, mem_coversBy_flip]
    unfold Spec.upperCoversC
    rw [hlen', ← ltAt_eq_ssubAt hin.nodup]

end

end Fca.Construct

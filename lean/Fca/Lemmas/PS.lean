/-
  Fca.Lemmas.PS — helper lemmas for the pattern-structure models (C13).
-/
import Fca.Model.PS
import Fca.Spec.PS
import Fca.Lemmas.BinTable
import Mathlib.Data.List.Sort
namespace Fca.PS
open Fca

/-! ### the comprehension loop and numpy fancy indexing -/

theorem filterLoop_eq {α} (data : List α) (p : α → Bool) (bs : List Nat)
    (h : ∀ g ∈ bs, g < data.length) :
    filterLoop data p bs = .ok (bs.filter fun g => (data[g]?).any p) := by
  induction bs with
  | nil => rfl
  | cons g gs ih =>
    have hg : g < data.length := h g List.mem_cons_self
    have ih' := ih (fun x hx => h x (List.mem_cons_of_mem _ hx))
    simp only [filterLoop, List.getElem?_eq_getElem hg, ih', List.filter_cons, Option.any_some]

theorem filterLoop_err {α} (data : List α) (p : α → Bool) (bs : List Nat)
    (h : ∃ g ∈ bs, data.length ≤ g) :
    filterLoop data p bs = .error .IndexError := by
  induction bs with
  | nil => obtain ⟨g, hg, _⟩ := h; cases hg
  | cons g gs ih =>
    by_cases hg : g < data.length
    · have : ∃ g ∈ gs, data.length ≤ g := by
        obtain ⟨x, hx, hxl⟩ := h
        rcases List.mem_cons.mp hx with rfl | hx'
        · omega
        · exact ⟨x, hx', hxl⟩
      simp only [filterLoop, List.getElem?_eq_getElem hg, ih this]
    · have : data[g]? = none := List.getElem?_eq_none (by omega)
      simp only [filterLoop, this]

theorem npTake_eq {α} (col : List α) (dflt : α) (idx : List Nat) (h : ∀ i ∈ idx, i < col.length) :
    npTake col idx = .ok (idx.map fun i => col.getD i dflt) := by
  induction idx with
  | nil => rfl
  | cons i is ih =>
    have hi : i < col.length := h i List.mem_cons_self
    have ih' := ih (fun x hx => h x (List.mem_cons_of_mem _ hx))
    simp [npTake, List.getElem?_eq_getElem hi, ih', List.getD_eq_getElem?_getD]

theorem npTake_err {α} (col : List α) (idx : List Nat) (h : ∃ i ∈ idx, col.length ≤ i) :
    npTake col idx = .error .IndexError := by
  induction idx with
  | nil => obtain ⟨g, hg, _⟩ := h; cases hg
  | cons i is ih =>
    by_cases hi : i < col.length
    · have : ∃ g ∈ is, col.length ≤ g := by
        obtain ⟨x, hx, hxl⟩ := h
        rcases List.mem_cons.mp hx with rfl | hx'
        · omega
        · exact ⟨x, hx', hxl⟩
      simp only [npTake, List.getElem?_eq_getElem hi, ih this]
    · have : col[i]? = none := List.getElem?_eq_none (by omega)
      simp only [npTake, this]

/-- either every index is in range or one is not -/
theorem inRange_or_not (idx : List Nat) (n : Nat) : (∀ i ∈ idx, i < n) ∨ (∃ i ∈ idx, n ≤ i) := by
  by_cases h : ∀ i ∈ idx, i < n
  · exact Or.inl h
  · right
    simp only [not_forall] at h
    obtain ⟨i, hi, hn⟩ := h
    exact ⟨i, hi, by omega⟩

/-! ### min / max folds -/

theorem foldl_min_spec (f : Int → Int → Int)
    (hf : ∀ m v, (f m v = m ∨ f m v = v) ∧ f m v ≤ m ∧ f m v ≤ v) (xs : List Int) (x : Int) :
    xs.foldl f x ∈ x :: xs ∧ ∀ y ∈ x :: xs, xs.foldl f x ≤ y := by
  induction xs generalizing x with
  | nil => simp
  | cons a as ih =>
    obtain ⟨hmem, hle⟩ := ih (f x a)
    obtain ⟨hsel, h1, h2⟩ := hf x a
    simp only [List.foldl_cons]
    constructor
    · rcases List.mem_cons.mp hmem with h | h
      · rcases hsel with h' | h'
        · rw [h, h']; exact List.mem_cons_self
        · rw [h, h']; exact List.mem_cons_of_mem _ List.mem_cons_self
      · exact List.mem_cons_of_mem _ (List.mem_cons_of_mem _ h)
    · intro y hy
      have hfx := hle (f x a) List.mem_cons_self
      rcases List.mem_cons.mp hy with rfl | hy
      · omega
      · rcases List.mem_cons.mp hy with rfl | hy
        · omega
        · exact hle y (List.mem_cons_of_mem _ hy)

theorem foldl_max_spec (f : Int → Int → Int)
    (hf : ∀ m v, (f m v = m ∨ f m v = v) ∧ m ≤ f m v ∧ v ≤ f m v) (xs : List Int) (x : Int) :
    xs.foldl f x ∈ x :: xs ∧ ∀ y ∈ x :: xs, y ≤ xs.foldl f x := by
  induction xs generalizing x with
  | nil => simp
  | cons a as ih =>
    obtain ⟨hmem, hle⟩ := ih (f x a)
    obtain ⟨hsel, h1, h2⟩ := hf x a
    simp only [List.foldl_cons]
    constructor
    · rcases List.mem_cons.mp hmem with h | h
      · rcases hsel with h' | h'
        · rw [h, h']; exact List.mem_cons_self
        · rw [h, h']; exact List.mem_cons_of_mem _ List.mem_cons_self
      · exact List.mem_cons_of_mem _ (List.mem_cons_of_mem _ h)
    · intro y hy
      have hfx := hle (f x a) List.mem_cons_self
      rcases List.mem_cons.mp hy with rfl | hy
      · omega
      · rcases List.mem_cons.mp hy with rfl | hy
        · omega
        · exact hle y (List.mem_cons_of_mem _ hy)

theorem pySel_min (m v : Int) :
    ((if v < m then v else m) = m ∨ (if v < m then v else m) = v) ∧
      (if v < m then v else m) ≤ m ∧ (if v < m then v else m) ≤ v := by
  split <;> omega

theorem pySel_max (m v : Int) :
    ((if v > m then v else m) = m ∨ (if v > m then v else m) = v) ∧
      m ≤ (if v > m then v else m) ∧ v ≤ (if v > m then v else m) := by
  split <;> omega

theorem npSel_min (m v : Int) : (min m v = m ∨ min m v = v) ∧ min m v ≤ m ∧ min m v ≤ v := by
  rw [Int.min_def]; split <;> omega

theorem npSel_max (m v : Int) : (max m v = m ∨ max m v = v) ∧ m ≤ max m v ∧ v ≤ max m v := by
  rw [Int.max_def]; split <;> omega

/-- `m` is a least element of `xs` -/
def IsMin (xs : List Int) (m : Int) : Prop := m ∈ xs ∧ ∀ y ∈ xs, m ≤ y
/-- `m` is a greatest element of `xs` -/
def IsMax (xs : List Int) (m : Int) : Prop := m ∈ xs ∧ ∀ y ∈ xs, y ≤ m

theorem IsMin.unique {xs ys : List Int} {m m' : Int} (h : IsMin xs m) (h' : IsMin ys m')
    (hmem : ∀ a, a ∈ xs ↔ a ∈ ys) : m = m' := by
  have h1 := h.2 m' ((hmem m').mpr h'.1)
  have h2 := h'.2 m ((hmem m).mp h.1)
  omega

theorem IsMax.unique {xs ys : List Int} {m m' : Int} (h : IsMax xs m) (h' : IsMax ys m')
    (hmem : ∀ a, a ∈ xs ↔ a ∈ ys) : m = m' := by
  have h1 := h.2 m' ((hmem m').mpr h'.1)
  have h2 := h'.2 m ((hmem m).mp h.1)
  omega

theorem pyMin_ok {xs : List Int} (hne : xs ≠ []) : ∃ m, pyMin xs = .ok m ∧ IsMin xs m := by
  cases xs with
  | nil => exact absurd rfl hne
  | cons x xs => exact ⟨_, rfl, foldl_min_spec _ pySel_min xs x⟩

theorem pyMax_ok {xs : List Int} (hne : xs ≠ []) : ∃ m, pyMax xs = .ok m ∧ IsMax xs m := by
  cases xs with
  | nil => exact absurd rfl hne
  | cons x xs => exact ⟨_, rfl, foldl_max_spec _ pySel_max xs x⟩

theorem npMin_ok {xs : List Int} (hne : xs ≠ []) : ∃ m, npMin xs = .ok m ∧ IsMin xs m := by
  cases xs with
  | nil => exact absurd rfl hne
  | cons x xs => exact ⟨_, rfl, foldl_min_spec _ npSel_min xs x⟩

theorem npMax_ok {xs : List Int} (hne : xs ≠ []) : ∃ m, npMax xs = .ok m ∧ IsMax xs m := by
  cases xs with
  | nil => exact absurd rfl hne
  | cons x xs => exact ⟨_, rfl, foldl_max_spec _ npSel_max xs x⟩

/-! ### IntervalPS / IntervalNumpyPS `intention_i` -/

/-- left end of object `g` (total) -/
def L (data : List Iv) (g : Nat) : Int := (data.map (·.1)).getD g 0
/-- right end of object `g` (total) -/
def R (data : List Iv) (g : Nat) : Int := (data.map (·.2)).getD g 0

theorem getElem?_LR {data : List Iv} {g : Nat} {v : Iv} (h : data[g]? = some v) :
    L data g = v.1 ∧ R data g = v.2 := by
  simp [L, R, List.getD_eq_getElem?_getD, List.getElem?_map, h]

theorem getElem?_of_lt {data : List Iv} {g : Nat} (hg : g < data.length) :
    data[g]? = some (L data g, R data g) := by
  have h := List.getElem?_eq_getElem hg
  obtain ⟨h1, h2⟩ := getElem?_LR h
  rw [h, h1, h2]

theorem pyIntLoop_eq (data : List Iv) (gs : List Nat) (hr : ∀ g ∈ gs, g < data.length) (mn mx : Int) :
    pyIntLoop data (mn, mx) gs
      = .ok ((gs.map (L data)).foldl (fun m v => if v < m then v else m) mn,
             (gs.map (R data)).foldl (fun m v => if v > m then v else m) mx) := by
  induction gs generalizing mn mx with
  | nil => rfl
  | cons g gs ih =>
    have hg : g < data.length := hr g List.mem_cons_self
    simp only [pyIntLoop, getElem?_of_lt hg, List.map_cons, List.foldl_cons]
    exact ih (fun x hx => hr x (List.mem_cons_of_mem _ hx)) _ _

theorem pyIntLoop_err (data : List Iv) (gs : List Nat) (h : ∃ g ∈ gs, data.length ≤ g) (acc : Iv) :
    pyIntLoop data acc gs = .error .IndexError := by
  induction gs generalizing acc with
  | nil => obtain ⟨g, hg, _⟩ := h; cases hg
  | cons g gs ih =>
    obtain ⟨mn, mx⟩ := acc
    by_cases hg : g < data.length
    · have : ∃ g ∈ gs, data.length ≤ g := by
        obtain ⟨x, hx, hxl⟩ := h
        rcases List.mem_cons.mp hx with rfl | hx'
        · omega
        · exact ⟨x, hx', hxl⟩
      simp only [pyIntLoop, getElem?_of_lt hg]
      exact ih this _
    · have : data[g]? = none := List.getElem?_eq_none (by omega)
      simp only [pyIntLoop, this]

theorem pyIntentionI_eq (data : List Iv) (g0 : Nat) (rest : List Nat)
    (hr : ∀ g ∈ g0 :: rest, g < data.length) :
    pyIntentionI data (g0 :: rest)
      = .ok (some ((rest.map (L data)).foldl (fun m v => if v < m then v else m) (L data g0),
                   (rest.map (R data)).foldl (fun m v => if v > m then v else m) (R data g0))) := by
  have hg : g0 < data.length := hr g0 List.mem_cons_self
  simp only [pyIntentionI, List.length_cons, Nat.add_one_ne_zero, ↓reduceIte, getElem?_of_lt hg,
    pyIntLoop_eq data rest (fun x hx => hr x (List.mem_cons_of_mem _ hx))]

theorem pyIntentionI_err (data : List Iv) (objs : List Nat) (h : ∃ g ∈ objs, data.length ≤ g) :
    pyIntentionI data objs = .error .IndexError := by
  cases objs with
  | nil => obtain ⟨g, hg, _⟩ := h; cases hg
  | cons g0 rest =>
    by_cases hg : g0 < data.length
    · have : ∃ g ∈ rest, data.length ≤ g := by
        obtain ⟨x, hx, hxl⟩ := h
        rcases List.mem_cons.mp hx with rfl | hx'
        · omega
        · exact ⟨x, hx', hxl⟩
      simp only [pyIntentionI, List.length_cons, Nat.add_one_ne_zero, ↓reduceIte, getElem?_of_lt hg,
        pyIntLoop_err data rest this]
    · have : data[g0]? = none := List.getElem?_eq_none (by omega)
      simp only [pyIntentionI, List.length_cons, Nat.add_one_ne_zero, ↓reduceIte, this]

theorem pySel_min_eq : (fun (m v : Int) => if v < m then v else m) = fun m v => min m v := by
  funext m v; rw [Int.min_def]; split <;> split <;> omega

theorem pySel_max_eq : (fun (m v : Int) => if v > m then v else m) = fun m v => max m v := by
  funext m v; rw [Int.max_def]; split <;> split <;> omega

theorem isEmpty_false_of_lt {α} {data : List α} {g : Nat} (hg : g < data.length) : data.isEmpty = false := by
  cases data with
  | nil => simp at hg
  | cons _ _ => rfl

theorem npIntentionI_eq (data : List Iv) (g0 : Nat) (rest : List Nat)
    (hr : ∀ g ∈ g0 :: rest, g < data.length) :
    npIntentionI data (g0 :: rest)
      = .ok (some ((rest.map (L data)).foldl min (L data g0), (rest.map (R data)).foldl max (R data g0))) := by
  have hg : g0 < data.length := hr g0 List.mem_cons_self
  have h1 := npTake_eq (data.map (·.1)) 0 (g0 :: rest) (by simpa using hr)
  have h2 := npTake_eq (data.map (·.2)) 0 (g0 :: rest) (by simpa using hr)
  simp only [npIntentionI, List.length_cons, Nat.add_one_ne_zero, ↓reduceIte, isEmpty_false_of_lt hg,
    Bool.false_eq_true, h1, h2, List.map_cons, npMin, npMax]
  rfl

/-- the two interval engines compute the same `intention_i` on every input (also the error) -/
theorem npIntentionI_eq_py (data : List Iv) (objs : List Nat) :
    npIntentionI data objs = pyIntentionI data objs := by
  cases objs with
  | nil => rfl
  | cons g0 rest =>
    rcases inRange_or_not (g0 :: rest) data.length with hr | hbad
    · rw [npIntentionI_eq data g0 rest hr, pyIntentionI_eq data g0 rest hr, pySel_min_eq, pySel_max_eq]
    · rw [pyIntentionI_err data _ hbad]
      simp only [npIntentionI, List.length_cons, Nat.add_one_ne_zero, ↓reduceIte]
      split
      · rfl
      · rw [npTake_err (data.map (·.1)) (g0 :: rest) (by simpa using hbad)]

/-- `h` is the hull of the intervals of `A`: it contains each of them and both ends are attained -/
def Hull (data : List Iv) (A : List Nat) (h : Iv) : Prop :=
  (∀ g ∈ A, h.1 ≤ L data g ∧ R data g ≤ h.2) ∧ (∃ g ∈ A, L data g = h.1) ∧ (∃ g ∈ A, R data g = h.2)

theorem pyIntentionI_hull (data : List Iv) (A : List Nat) (hne : A ≠ []) (hr : ∀ g ∈ A, g < data.length) :
    ∃ h, pyIntentionI data A = .ok (some h) ∧ Hull data A h := by
  cases A with
  | nil => exact absurd rfl hne
  | cons g0 rest =>
    refine ⟨_, pyIntentionI_eq data g0 rest hr, ?_⟩
    obtain ⟨hm1, hm2⟩ := foldl_min_spec _ pySel_min (rest.map (L data)) (L data g0)
    obtain ⟨hx1, hx2⟩ := foldl_max_spec _ pySel_max (rest.map (R data)) (R data g0)
    rw [← List.map_cons (f := L data)] at hm1 hm2
    rw [← List.map_cons (f := R data)] at hx1 hx2
    refine ⟨?_, ?_, ?_⟩
    · intro g hgA
      exact ⟨hm2 _ (List.mem_map_of_mem hgA), hx2 _ (List.mem_map_of_mem hgA)⟩
    · obtain ⟨g, hgA, hgv⟩ := List.mem_map.mp hm1
      exact ⟨g, hgA, hgv⟩
    · obtain ⟨g, hgA, hgv⟩ := List.mem_map.mp hx1
      exact ⟨g, hgA, hgv⟩

/-! ### IntervalPS / IntervalNumpyPS `extension_i` -/

theorem ext_ivCovers_none (data : List Iv) (base : List Nat) :
    Spec.PS.ext Spec.PS.ivCovers data none base = [] := by
  unfold Spec.PS.ext
  apply List.filter_eq_nil_iff.mpr
  intro g _
  cases data[g]? <;> simp [Spec.PS.ivCovers]

/-- `IntervalPS.extension_i` returns the base objects covered by the description, by original index,
    in base order -/
theorem pyExtensionI_exact (data : List Iv) (d : IvDesc) (s : Option Iv) (hs : ivUnpack d = .ok s)
    (base : Option (List Nat)) (hb : ∀ bs, base = some bs → ∀ g ∈ bs, g < data.length) :
    pyExtensionI data d base
      = .ok (Spec.PS.ext Spec.PS.ivCovers data s (base.getD (List.range data.length))) := by
  unfold pyExtensionI
  rw [hs]
  cases s with
  | none => simp only [ext_ivCovers_none]
  | some v =>
    obtain ⟨mn, mx⟩ := v
    cases base with
    | none =>
      simp only [Option.getD_none]
      rw [filterLoop_eq _ _ _ (fun g hg => List.mem_range.mp hg)]
      rfl
    | some bs =>
      simp only [Option.getD_some]
      rw [filterLoop_eq _ _ _ (hb bs rfl)]
      rfl

theorem search1_map_data {α} (data : List α) (p : α → Bool) :
    search1 (data.map p) = (List.range data.length).filter fun g => (data[g]?).any p := by
  unfold search1
  simp only [List.length_map]
  apply List.filter_congr
  intro i hi
  have hi' : i < data.length := List.mem_range.mp hi
  simp [List.getD_eq_getElem?_getD, List.getElem?_map, List.getElem?_eq_getElem hi']

/-- the two interval engines compute the same `extension_i` on every input of a column with at
    least one row (results and errors) -/
theorem npExtensionI_eq_py (data : List Iv) (hne : data ≠ []) (d : IvDesc) (base : Option (List Nat)) :
    npExtensionI data d base = pyExtensionI data d base := by
  have hemp : data.isEmpty = false := by cases data with
    | nil => exact absurd rfl hne
    | cons _ _ => rfl
  unfold npExtensionI pyExtensionI
  cases hd : ivUnpack d with
  | error e => rfl
  | ok s =>
    cases s with
    | none => rfl
    | some v =>
      obtain ⟨mn, mx⟩ := v
      simp only [hemp, Bool.false_eq_true, ↓reduceIte]
      cases base with
      | none =>
        simp only []
        rw [filterLoop_eq _ _ _ (fun g hg => List.mem_range.mp hg), List.map_map, List.map_map,
          zipWith_map_map_self, search1_map_data]
        rfl
      | some bs =>
        simp only []
        rcases inRange_or_not bs data.length with hr | hbad
        · rw [npTake_eq (data.map (·.1)) 0 bs (by simpa using hr),
            npTake_eq (data.map (·.2)) 0 bs (by simpa using hr), filterLoop_eq _ _ _ hr]
          simp only [List.map_map, zipWith_map_map_self, zipFilter_map]
          congr 1
          apply List.filter_congr
          intro g hg
          rw [getElem?_of_lt (hr g hg)]
          rfl
        · rw [npTake_err (data.map (·.1)) bs (by simpa using hbad), filterLoop_err _ _ _ hbad]

/-! ### `sorted`, `set`, `np.unique` -/

theorem orderedInsert_eq (x : Int) (l : List Int) :
    orderedInsert x l = List.orderedInsert (· ≤ ·) x l := by
  induction l with
  | nil => rfl
  | cons y ys ih => simp only [orderedInsert, List.orderedInsert, ih]

theorem pySorted_eq (l : List Int) : pySorted l = l.insertionSort (· ≤ ·) := by
  induction l with
  | nil => rfl
  | cons x xs ih =>
    have : pySorted (x :: xs) = orderedInsert x (pySorted xs) := rfl
    rw [this, ih, orderedInsert_eq]
    rfl

theorem mem_pySorted {l : List Int} {x : Int} : x ∈ pySorted l ↔ x ∈ l := by
  rw [pySorted_eq]; exact List.mem_insertionSort _

theorem length_pySorted (l : List Int) : (pySorted l).length = l.length := by
  rw [pySorted_eq]; exact List.length_insertionSort _ _

theorem pairwise_pySorted (l : List Int) : (pySorted l).Pairwise (· ≤ ·) := by
  rw [pySorted_eq]; exact List.pairwise_insertionSort _ _

theorem perm_pySorted (l : List Int) : (pySorted l).Perm l := by
  rw [pySorted_eq]; exact List.perm_insertionSort _ _

theorem pySorted_of_pairwise {l : List Int} (h : l.Pairwise (· ≤ ·)) : pySorted l = l := by
  rw [pySorted_eq]; exact List.Pairwise.insertionSort_eq h

theorem pySorted_idem (l : List Int) : pySorted (pySorted l) = pySorted l :=
  pySorted_of_pairwise (pairwise_pySorted l)

theorem mem_pySet {l : List Int} {x : Int} : x ∈ pySet l ↔ x ∈ l := by
  induction l with
  | nil => simp [pySet]
  | cons y ys ih =>
    simp only [pySet, List.mem_cons, List.mem_filter, ih, bne_iff_ne, ne_eq]
    constructor
    · rintro (h | ⟨h, _⟩)
      · exact Or.inl h
      · exact Or.inr h
    · rintro (h | h)
      · exact Or.inl h
      · by_cases hxy : x = y
        · exact Or.inl hxy
        · exact Or.inr ⟨h, hxy⟩

theorem nodup_pySet (l : List Int) : (pySet l).Nodup := by
  induction l with
  | nil => simp [pySet]
  | cons y ys ih =>
    simp only [pySet, List.nodup_cons, List.mem_filter, bne_iff_ne, ne_eq, not_true_eq_false,
      and_false, not_false_eq_true, true_and]
    exact ih.filter _

theorem pySet_ne_nil {l : List Int} (h : l ≠ []) : pySet l ≠ [] := by
  cases l with
  | nil => exact absurd rfl h
  | cons _ _ => simp [pySet]

theorem dedupAdj_spec (l : List Int) (h : l.Pairwise (· ≤ ·)) :
    (dedupAdj l).Pairwise (· < ·) ∧ ∀ a, a ∈ dedupAdj l ↔ a ∈ l := by
  induction l using dedupAdj.induct with
  | case1 => simp [dedupAdj]
  | case2 x => simp [dedupAdj]
  | case3 y rest ih =>
    have h' := (List.pairwise_cons.mp h).2
    obtain ⟨ih1, ih2⟩ := ih h'
    simp only [dedupAdj, ↓reduceIte]
    refine ⟨ih1, ?_⟩
    intro a
    rw [ih2 a]
    simp only [List.mem_cons]
    constructor
    · intro hh; exact Or.inr hh
    · rintro (hh | hh)
      · exact Or.inl hh
      · exact hh
  | case4 x y rest hxy ih =>
    have hx := (List.pairwise_cons.mp h).1
    have h' := (List.pairwise_cons.mp h).2
    obtain ⟨ih1, ih2⟩ := ih h'
    simp only [dedupAdj, hxy, ↓reduceIte]
    have hy' := (List.pairwise_cons.mp h').1
    refine ⟨List.pairwise_cons.mpr ⟨?_, ih1⟩, ?_⟩
    · intro a ha
      have ha' := (ih2 a).mp ha
      have hxy' : x ≤ y := hx y List.mem_cons_self
      rcases List.mem_cons.mp ha' with rfl | har
      · omega
      · have := hy' a har
        omega
    · intro a
      simp only [List.mem_cons, ih2 a]

theorem npUnique_eq (l : List Int) : npUnique l = pySorted (pySet l) := by
  unfold npUnique
  obtain ⟨h1, h2⟩ := dedupAdj_spec (pySorted l) (pairwise_pySorted l)
  have hnd : (pySorted (pySet l)).Nodup := (perm_pySorted _).nodup_iff.mpr (nodup_pySet l)
  have h3 : (pySorted (pySet l)).Pairwise (· < ·) :=
    ((pairwise_pySorted (pySet l)).and hnd).imp (fun ⟨hle, hne⟩ => by omega)
  apply List.Pairwise.eq_of_mem_iff h1 h3
  intro a
  rw [h2 a, mem_pySorted, mem_pySorted, mem_pySet]

theorem mem_npUnique {l : List Int} {x : Int} : x ∈ npUnique l ↔ x ∈ l := by
  rw [npUnique_eq, mem_pySorted, mem_pySet]

theorem length_npUnique (l : List Int) : (npUnique l).length = (pySet l).length := by
  rw [npUnique_eq, length_pySorted]

theorem npUnique_ne_nil {l : List Int} (h : l ≠ []) : npUnique l ≠ [] := by
  intro hh
  have := length_npUnique l
  rw [hh] at this
  exact pySet_ne_nil h (List.eq_nil_of_length_eq_zero this.symm)

/-! ### `to_bin_attr_extents` / `n_bin_attrs` of the two interval engines -/

theorem npMin_unique_eq_pyMin_set {l : List Int} (h : l ≠ []) : npMin (npUnique l) = pyMin (pySet l) := by
  obtain ⟨m, hm, hm'⟩ := npMin_ok (npUnique_ne_nil h)
  obtain ⟨m', hp, hp'⟩ := pyMin_ok (pySet_ne_nil h)
  rw [hm, hp, hm'.unique hp' (fun a => by rw [mem_npUnique, mem_pySet])]

theorem npMax_unique_eq_pyMax_set {l : List Int} (h : l ≠ []) : npMax (npUnique l) = pyMax (pySet l) := by
  obtain ⟨m, hm, hm'⟩ := npMax_ok (npUnique_ne_nil h)
  obtain ⟨m', hp, hp'⟩ := pyMax_ok (pySet_ne_nil h)
  rw [hm, hp, hm'.unique hp' (fun a => by rw [mem_npUnique, mem_pySet])]

theorem map_ne_nil' {α β} {l : List α} (f : α → β) (h : l ≠ []) : l.map f ≠ [] := by
  cases l with
  | nil => exact absurd rfl h
  | cons _ _ => simp

theorem npBinExtents_eq_py (data : List Iv) (hne : data ≠ []) : npBinExtents data = pyBinExtents data := by
  have hemp : data.isEmpty = false := by cases data with
    | nil => exact absurd rfl hne
    | cons _ _ => rfl
  unfold npBinExtents pyBinExtents
  simp only [hemp, Bool.false_eq_true, ↓reduceIte]
  rw [npMin_unique_eq_pyMin_set (map_ne_nil' _ hne), npMax_unique_eq_pyMax_set (map_ne_nil' _ hne)]
  simp only [npUnique_eq, pySorted_idem, List.map_map]
  rfl

theorem npNBinAttrs_eq_py (data : List Iv) (hne : data ≠ []) : npNBinAttrs data = pyNBinAttrs data := by
  have hemp : data.isEmpty = false := by cases data with
    | nil => exact absurd rfl hne
    | cons _ _ => rfl
  unfold npNBinAttrs pyNBinAttrs
  simp only [hemp, Bool.false_eq_true, ↓reduceIte, length_npUnique]

theorem length_drop_one_add {α} (l : List α) (h : l ≠ []) : (l.drop 1).length + 1 = l.length := by
  cases l with
  | nil => exact absurd rfl h
  | cons _ _ => simp

theorem pyBinExtents_length (data : List Iv) (hne : data ≠ []) :
    ∃ bins, pyBinExtents data = .ok bins ∧ pyNBinAttrs data = .ok bins.length := by
  have hemp : data.isEmpty = false := by cases data with
    | nil => exact absurd rfl hne
    | cons _ _ => rfl
  obtain ⟨m, hm, _⟩ := pyMin_ok (pySet_ne_nil (map_ne_nil' (fun v : Iv => v.1) hne))
  obtain ⟨m', hm', _⟩ := pyMax_ok (pySet_ne_nil (map_ne_nil' (fun v : Iv => v.2) hne))
  unfold pyBinExtents pyNBinAttrs
  simp only [hemp, Bool.false_eq_true, ↓reduceIte, hm, hm']
  refine ⟨_, rfl, ?_⟩
  have h1 := length_drop_one_add (pySorted (pySet (data.map (·.1))))
    (by intro hh; have := length_pySorted (pySet (data.map (·.1))); rw [hh] at this
        exact pySet_ne_nil (map_ne_nil' _ hne) (List.eq_nil_of_length_eq_zero this.symm))
  have h2 := length_drop_one_add (pySorted (pySet (data.map (·.2)))).reverse
    (by intro hh; have := length_pySorted (pySet (data.map (·.2))); rw [← List.length_reverse, hh] at this
        exact pySet_ne_nil (map_ne_nil' _ hne) (List.eq_nil_of_length_eq_zero this.symm))
  simp only [List.length_append, List.length_map, List.length_cons, List.length_nil,
    List.length_reverse, length_pySorted] at h1 h2 ⊢
  congr 1
  omega

/-- every binary attribute `IntervalPS.to_bin_attr_extents` yields is the extension (as a flag
    vector over all objects) of the description printed in its name -/
theorem pyBinExtents_sem (data : List Iv) (bins : List IvBinAttr) (h : pyBinExtents data = .ok bins) :
    ∀ b ∈ bins, b.2 = data.map (Spec.PS.ivCovers b.1) := by
  by_cases hne : data = []
  · subst hne; simp [pyBinExtents] at h
  have hemp : data.isEmpty = false := by cases data with
    | nil => exact absurd rfl hne
    | cons _ _ => rfl
  obtain ⟨m, hm, hmin⟩ := pyMin_ok (pySet_ne_nil (map_ne_nil' (fun v : Iv => v.1) hne))
  obtain ⟨m', hm', hmax⟩ := pyMax_ok (pySet_ne_nil (map_ne_nil' (fun v : Iv => v.2) hne))
  have hL : ∀ v ∈ data, m ≤ v.1 := fun v hv =>
    hmin.2 _ (mem_pySet.mpr (List.mem_map_of_mem hv))
  have hR : ∀ v ∈ data, v.2 ≤ m' := fun v hv =>
    hmax.2 _ (mem_pySet.mpr (List.mem_map_of_mem hv))
  unfold pyBinExtents at h
  simp only [hemp, Bool.false_eq_true, ↓reduceIte, hm, hm', Except.ok.injEq] at h
  subst h
  intro b hb
  simp only [List.mem_append, List.mem_cons, List.mem_map, List.not_mem_nil, or_false] at hb
  rcases hb with ((rfl | ⟨lb, _, rfl⟩) | ⟨rb, _, rfl⟩) | rfl
  · rw [replicate_eq_map]
    apply List.map_congr_left
    intro v hv
    simp [Spec.PS.ivCovers, hL v hv, hR v hv]
  · apply List.map_congr_left
    intro v hv
    simp [Spec.PS.ivCovers, hR v hv]
  · apply List.map_congr_left
    intro v hv
    simp [Spec.PS.ivCovers, hL v hv]
  · rw [replicate_eq_map]
    apply List.map_congr_left
    intro v _
    simp [Spec.PS.ivCovers]

/-! ### SetPS -/

theorem mem_setUnion {a b : VSet} {x : Int} : x ∈ setUnion a b ↔ x ∈ a ∨ x ∈ b := by
  simp only [setUnion, List.mem_append, List.mem_filter, List.contains_eq_mem, Bool.not_eq_true',
    decide_eq_false_iff_not]
  constructor
  · rintro (h | ⟨h, _⟩)
    · exact Or.inl h
    · exact Or.inr h
  · rintro (h | h)
    · exact Or.inl h
    · by_cases hx : x ∈ a
      · exact Or.inl hx
      · exact Or.inr ⟨h, hx⟩

/-- the code's test `row & d == row` is "row ⊆ d" -/
theorem setSubsetTest (row d : VSet) : setEq (setInter row d) row = row.all fun x => d.contains x := by
  rw [Bool.eq_iff_iff]
  simp only [setEq, setInter, Bool.and_eq_true, List.all_eq_true, List.mem_filter, List.contains_eq_mem,
    decide_eq_true_eq]
  constructor
  · rintro ⟨_, h2⟩ x hx
    exact (h2 x hx).2
  · intro h
    exact ⟨fun x hx => hx.1, fun x hx => ⟨hx, h x hx⟩⟩

theorem ext_setCovers_none (data : List VSet) (base : List Nat) :
    Spec.PS.ext Spec.PS.setCovers data none base = [] := by
  unfold Spec.PS.ext
  apply List.filter_eq_nil_iff.mpr
  intro g _
  cases data[g]? <;> simp [Spec.PS.setCovers]

theorem setExtensionI_exact (data : List VSet) (d : Option VSet) (base : Option (List Nat))
    (hb : ∀ bs, base = some bs → ∀ g ∈ bs, g < data.length) :
    setExtensionI data d base
      = .ok (Spec.PS.ext Spec.PS.setCovers data d (base.getD (List.range data.length))) := by
  unfold setExtensionI
  cases d with
  | none => simp only [ext_setCovers_none]
  | some ds =>
    have hp : (fun row => setEq (setInter row ds) row) = Spec.PS.setCovers (some ds) := by
      funext row; exact setSubsetTest row ds
    cases base with
    | none =>
      simp only [Option.getD_none]
      rw [filterLoop_eq _ _ _ (fun g hg => List.mem_range.mp hg), hp]
      rfl
    | some bs =>
      simp only [Option.getD_some]
      rw [filterLoop_eq _ _ _ (hb bs rfl), hp]
      rfl

theorem setIntLoop_mem (data : List VSet) (gs : List Nat) (hr : ∀ g ∈ gs, g < data.length) (acc : VSet) :
    ∃ r, setIntLoop data acc gs = .ok r ∧
      ∀ x, x ∈ r ↔ x ∈ acc ∨ ∃ g ∈ gs, ∃ row, data[g]? = some row ∧ x ∈ row := by
  induction gs generalizing acc with
  | nil => exact ⟨acc, rfl, by simp⟩
  | cons g gs ih =>
    have hg : g < data.length := hr g List.mem_cons_self
    obtain ⟨r, hr1, hr2⟩ := ih (fun x hx => hr x (List.mem_cons_of_mem _ hx)) (setUnion acc data[g])
    refine ⟨r, by simp only [setIntLoop, List.getElem?_eq_getElem hg, hr1], ?_⟩
    intro x
    rw [hr2 x, mem_setUnion]
    constructor
    · rintro ((h | h) | ⟨g', hg', row, hrow, hx⟩)
      · exact Or.inl h
      · exact Or.inr ⟨g, List.mem_cons_self, data[g], List.getElem?_eq_getElem hg, h⟩
      · exact Or.inr ⟨g', List.mem_cons_of_mem _ hg', row, hrow, hx⟩
    · rintro (h | ⟨g', hg', row, hrow, hx⟩)
      · exact Or.inl (Or.inl h)
      · rcases List.mem_cons.mp hg' with rfl | hg''
        · rw [List.getElem?_eq_getElem hg] at hrow
          cases hrow
          exact Or.inl (Or.inr hx)
        · exact Or.inr ⟨g', hg'', row, hrow, hx⟩

theorem setIntLoop_err (data : List VSet) (gs : List Nat) (h : ∃ g ∈ gs, data.length ≤ g) (acc : VSet) :
    setIntLoop data acc gs = .error .IndexError := by
  induction gs generalizing acc with
  | nil => obtain ⟨g, hg, _⟩ := h; cases hg
  | cons g gs ih =>
    by_cases hg : g < data.length
    · have : ∃ g ∈ gs, data.length ≤ g := by
        obtain ⟨x, hx, hxl⟩ := h
        rcases List.mem_cons.mp hx with rfl | hx'
        · omega
        · exact ⟨x, hx', hxl⟩
      simp only [setIntLoop, List.getElem?_eq_getElem hg]
      exact ih this _
    · have : data[g]? = none := List.getElem?_eq_none (by omega)
      simp only [setIntLoop, this]

/-! #### `combinations` and the count `2 ** n_uniq` -/

theorem sum_map_add (l : List Nat) (f g : Nat → Nat) :
    (l.map fun k => f k + g k).sum = (l.map f).sum + (l.map g).sum := by
  induction l with
  | nil => rfl
  | cons x xs ih => simp only [List.map_cons, List.sum_cons, ih]; omega

theorem combs_zero (xs : List Int) : combs xs 0 = [[]] := by
  cases xs <;> rfl

theorem combs_count (xs : List Int) (N : Nat) (h : xs.length ≤ N) :
    ((List.range (N + 1)).map fun k => (combs xs k).length).sum = 2 ^ xs.length := by
  induction xs generalizing N with
  | nil =>
    rw [List.range_succ_eq_map]
    simp [combs, List.map_map, Function.comp_def]
  | cons x xs ih =>
    cases N with
    | zero => simp at h
    | succ M =>
      have hM : xs.length ≤ M := by simpa using h
      have h1 := ih M hM
      have h2 := ih (M + 1) (by omega)
      rw [List.range_succ_eq_map] at h2 ⊢
      simp only [List.map_cons, List.map_map, Function.comp_def, List.sum_cons, combs_zero,
        List.length_cons, List.length_nil, combs, List.length_append, List.length_map,
        Nat.succ_eq_add_one] at h2 ⊢
      rw [sum_map_add, h1]
      rw [Nat.pow_succ]
      omega

theorem setBinExtents_length (data : List VSet) : (setBinExtents data).length = setNBinAttrs data := by
  unfold setBinExtents setNBinAttrs
  simp only [List.length_flatMap, List.length_map, List.map_reverse, List.sum_reverse]
  rw [combs_count _ _ (Nat.le_refl _), length_pySorted]

/-- every binary attribute `SetPS.to_bin_attr_extents` yields is the extension of its description -/
theorem setBinExtents_sem (data : List VSet) :
    ∀ b ∈ setBinExtents data, b.2 = data.map (Spec.PS.setCovers (some b.1)) := by
  intro b hb
  simp only [setBinExtents, List.mem_flatMap, List.mem_map] at hb
  obtain ⟨_, _, comb, _, rfl⟩ := hb
  apply List.map_congr_left
  intro row _
  exact setSubsetTest row comb

/-! ### AttributePS -/

theorem attrAllLoop_eq (data : List Bool) (gs : List Nat) (hr : ∀ g ∈ gs, g < data.length) :
    attrAllLoop data gs = .ok (gs.all fun g => (data[g]?).any id) := by
  induction gs with
  | nil => rfl
  | cons g gs ih =>
    have hg : g < data.length := hr g List.mem_cons_self
    have ih' := ih (fun x hx => hr x (List.mem_cons_of_mem _ hx))
    simp only [attrAllLoop, List.getElem?_eq_getElem hg, List.all_cons, Option.any_some, id]
    cases hv : data[g]
    · simp
    · simp [ih']

theorem attrExtensionI_exact' (data : List Bool) (d : Bool) (bs : List Nat)
    (hbase : ∀ g ∈ bs, g < data.length) :
    (if !d then Except.ok bs else filterLoop data (fun v => v) bs)
      = .ok (Spec.PS.ext Spec.PS.attrCovers data d bs) := by
  cases d with
  | false =>
    simp only [Bool.not_false, ↓reduceIte, Spec.PS.ext]
    congr 1
    symm
    apply List.filter_eq_self.mpr
    intro g hg
    simp [List.getElem?_eq_getElem (hbase g hg), Spec.PS.attrCovers]
  | true =>
    simp only [Bool.not_true, Bool.false_eq_true, ↓reduceIte]
    rw [filterLoop_eq _ _ _ hbase]
    congr 1

theorem attrExtensionI_exact (data : List Bool) (d : Bool) (base : Option (List Nat))
    (hb : ∀ bs, base = some bs → ∀ g ∈ bs, g < data.length) :
    attrExtensionI data d base
      = .ok (Spec.PS.ext Spec.PS.attrCovers data d (base.getD (List.range data.length))) := by
  unfold attrExtensionI
  cases base with
  | none => exact attrExtensionI_exact' data d _ (fun g hg => List.mem_range.mp hg)
  | some bs => exact attrExtensionI_exact' data d bs (hb bs rfl)

/-! ### Galois facts at the level of the specification -/

theorem mem_ext {V D} (covers : D → V → Bool) (data : List V) (d : D) (base : List Nat) (g : Nat) :
    g ∈ Spec.PS.ext covers data d base ↔ g ∈ base ∧ (data[g]?).any (covers d) = true := by
  simp [Spec.PS.ext, List.mem_filter]

theorem ivCovers_getElem? {data : List Iv} {g : Nat} (hg : g < data.length) (a b : Int) :
    (data[g]?).any (Spec.PS.ivCovers (some (a, b))) = true ↔ a ≤ L data g ∧ R data g ≤ b := by
  rw [getElem?_of_lt hg]
  simp [Spec.PS.ivCovers]

/-- the hull covers every object of `A` -/
theorem hull_extensive (data : List Iv) (A : List Nat) (h : Iv) (hh : Hull data A h)
    (hA : ∀ g ∈ A, g < data.length) (base : List Nat) :
    ∀ g ∈ A, g ∈ base → g ∈ Spec.PS.ext Spec.PS.ivCovers data (some h) base := by
  intro g hgA hgb
  obtain ⟨a, b⟩ := h
  rw [mem_ext, ivCovers_getElem? (hA g hgA)]
  exact ⟨hgb, hh.1 g hgA⟩

/-- the hull is the most specific description covering all of `A` -/
theorem hull_most_specific (data : List Iv) (A : List Nat) (h : Iv) (hh : Hull data A h)
    (hA : ∀ g ∈ A, g < data.length) (s : Option Iv)
    (hcov : Spec.PS.coversAll Spec.PS.ivCovers data s A = true) (base : List Nat)
    (hb : ∀ g ∈ base, g < data.length) :
    ∀ g ∈ Spec.PS.ext Spec.PS.ivCovers data (some h) base, g ∈ Spec.PS.ext Spec.PS.ivCovers data s base := by
  obtain ⟨a, b⟩ := h
  obtain ⟨_, ⟨gl, hglA, hgl⟩, ⟨gr, hgrA, hgr⟩⟩ := hh
  simp only [Spec.PS.coversAll, List.all_eq_true] at hcov
  cases s with
  | none =>
    have := hcov gl hglA
    rw [getElem?_of_lt (hA gl hglA)] at this
    simp [Spec.PS.ivCovers] at this
  | some v =>
    obtain ⟨c, e⟩ := v
    have h1 := (ivCovers_getElem? (hA gl hglA) c e).mp (hcov gl hglA)
    have h2 := (ivCovers_getElem? (hA gr hgrA) c e).mp (hcov gr hgrA)
    simp only at hgl hgr
    intro g hg
    rw [mem_ext] at hg ⊢
    have hgb := hb g hg.1
    rw [ivCovers_getElem? hgb] at hg ⊢
    exact ⟨hg.1, by omega, by omega⟩

theorem ivUnpack_ofOpt (o : Option Iv) : ivUnpack (IvDesc.ofOpt o) = .ok o := by
  cases o with
  | none => rfl
  | some v => obtain ⟨a, b⟩ := v; rfl

theorem setCovers_getElem? {data : List VSet} {g : Nat} (hg : g < data.length) (s : VSet) :
    (data[g]?).any (Spec.PS.setCovers (some s)) = true ↔ ∀ x ∈ data[g], x ∈ s := by
  rw [List.getElem?_eq_getElem hg]
  simp [Spec.PS.setCovers]

theorem attrCovers_getElem? {data : List Bool} {g : Nat} (hg : g < data.length) (d : Bool) :
    (data[g]?).any (Spec.PS.attrCovers d) = true ↔ (d = true → data[g] = true) := by
  rw [List.getElem?_eq_getElem hg]
  cases d <;> simp [Spec.PS.attrCovers]

theorem baseInRange_getD {base : Option (List Nat)} {n : Nat}
    (h : ∀ bs, base = some bs → ∀ x ∈ bs, x < n) :
    ∀ g ∈ base.getD (List.range n), g < n := by
  cases base with
  | none => intro g hg; exact List.mem_range.mp hg
  | some bs => exact h bs rfl

theorem data_ne_nil_of_inRange {α} {data : List α} {A : List Nat} (hne : A ≠ [])
    (hA : ∀ x ∈ A, x < data.length) : data ≠ [] := by
  cases A with
  | nil => exact absurd rfl hne
  | cons g _ =>
    intro h
    have := hA g List.mem_cons_self
    rw [h] at this
    simp at this

end Fca.PS

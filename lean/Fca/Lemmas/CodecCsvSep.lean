/-
  Fca.Lemmas.CodecCsvSep — the `.csv` round trip for an arbitrary (multi-character) separator none of
  whose characters occurs in a field.
-/
import Fca.Lemmas.CodecCsv
namespace Fca.Codec

/-- no character of `l` is a character of the separator -/
def Disj (sep l : Str) : Prop := ∀ ch ∈ l, ch ∉ sep
instance (sep l : Str) : Decidable (Disj sep l) := by unfold Disj; infer_instance

/-- a field the csv format can carry with separator `sep` -/
def FieldOkS (sep l : Str) : Prop := Disj sep l ∧ nl ∉ l ∧ cr ∉ l
instance (sep l : Str) : Decidable (FieldOkS sep l) := by unfold FieldOkS; infer_instance

theorem isPrefixOf_head_ne (d c : Char) (sep t : Str) (h : c ≠ d) : (d :: sep).isPrefixOf (c :: t) = false := by
  have : (d == c) = false := by simpa using fun e => h e.symm
  simp [List.isPrefixOf, this]

theorem occurs_disj (d : Char) (sep : Str) : ∀ s : Str, Disj (d :: sep) s → occurs (d :: sep) s = false
  | [], _ => rfl
  | c :: s, h => by
    have hc : c ≠ d := fun e => h c (by simp) (by simp [e])
    simp only [occurs, isPrefixOf_head_ne d c sep s hc, Bool.false_or]
    exact occurs_disj d sep s (fun ch hch => h ch (List.mem_cons_of_mem _ hch))

theorem noEarly_disj (d : Char) (sep tail : Str) : ∀ a : Str, Disj (d :: sep) a →
    noEarly (d :: sep) a tail = true
  | [], _ => rfl
  | c :: a, h => by
    have hc : c ≠ d := fun e => h c (by simp) (by simp [e])
    simp only [noEarly, List.cons_append, isPrefixOf_head_ne d c sep _ hc, Bool.not_false, Bool.true_and]
    exact noEarly_disj d sep tail a (fun ch hch => h ch (List.mem_cons_of_mem _ hch))

/-- `sep.join(ls).split(sep) == ls` when no piece shares a character with `sep` -/
theorem splitOn_join_disj (sep : Str) (hsep : sep ≠ []) : ∀ ls : List Str, ls ≠ [] → (∀ l ∈ ls, Disj sep l) →
    splitOn sep (pyJoin sep ls) = ls
  | [], h, _ => absurd rfl h
  | [x], _, h => by
    cases sep with
    | nil => exact absurd rfl hsep
    | cons d sep' =>
      simp only [pyJoin, splitOn]
      exact splitGo_no_occ _ x (occurs_disj d sep' x (h x (by simp)))
  | x :: y :: r, _, h => by
    have ih := splitOn_join_disj sep hsep (y :: r) (by simp) (fun l hl => h l (List.mem_cons_of_mem _ hl))
    cases sep with
    | nil => exact absurd rfl hsep
    | cons d sep' =>
      simp only [pyJoin, splitOn] at ih ⊢
      rw [List.append_assoc, splitGo_first (d :: sep') (by simp) _ x (noEarly_disj d sep' _ x (h x (by simp))), ih]

theorem csvLines_fields_sep (sep : Str) (hsep : sep ≠ []) (wt wf : Str) (hne : wt ≠ wf)
    (hwt : Disj sep wt) (hwf : Disj sep wf) :
    ∀ ps : List (Str × List Bool), (∀ p ∈ ps, Disj sep p.1) →
    csvLines sep wt wf (ps.map fun p => pyJoin sep (p.1 :: p.2.map (word wt wf)))
      = .ok (ps.map (·.1), ps.map (·.2))
  | [], _ => rfl
  | p :: ps, h => by
    have hsplit : splitOn sep (pyJoin sep (p.1 :: p.2.map (word wt wf))) = p.1 :: p.2.map (word wt wf) := by
      apply splitOn_join_disj sep hsep _ (by simp)
      intro l hl
      rcases List.mem_cons.mp hl with rfl | hl
      · exact h p (by simp)
      · obtain ⟨v, _, rfl⟩ := List.mem_map.mp hl
        cases v
        · exact hwf
        · exact hwt
    simp only [List.map_cons, csvLines, hsplit, csvVals_words wt wf hne,
      csvLines_fields_sep sep hsep wt wf hne hwt hwf ps (fun q hq => h q (List.mem_cons_of_mem _ hq))]

theorem readCsv_writeCsv_sep (K : Cxt) (sep wt wf : Str)
    (hwf : K.WF) (hn : K.rows ≠ []) (hm : K.attrs ≠ [])
    (hsep : sep ≠ [] ∧ nl ∉ sep ∧ cr ∉ sep) (hne : wt ≠ wf) (hwt : FieldOkS sep wt) (hwf' : FieldOkS sep wf)
    (hobjs : ∀ g ∈ K.objs, FieldOkS sep g) (hattrs : ∀ a ∈ K.attrs, FieldOkS sep a) :
    csvViaFile K sep wt wf = .ok { K with descr := none } := by
  obtain ⟨hlen, hrows⟩ := hwf
  have hmpos : 0 < K.attrs.length := List.length_pos_iff.mpr hm
  have hrne : ∀ r ∈ K.rows, r ≠ [] := fun r hr e => by
    have := hrows r hr; rw [e] at this; simp at this; omega
  have hfields : ∀ fs ∈ csvFields K wt wf, ∀ f ∈ fs, FieldOkS sep f := by
    intro fs hfs f hf
    simp only [csvFields, List.mem_cons, List.mem_map] at hfs
    rcases hfs with rfl | ⟨p, hp, rfl⟩
    · rcases List.mem_cons.mp hf with rfl | hf
      · simp [FieldOkS, Disj]
      · exact hattrs f hf
    · rcases List.mem_cons.mp hf with rfl | hf
      · exact hobjs _ (List.of_mem_zip hp).1
      · obtain ⟨v, _, rfl⟩ := List.mem_map.mp hf
        cases v
        · exact hwf'
        · exact hwt
  have hlen2 : ∀ fs ∈ csvFields K wt wf, ∃ a b r, fs = a :: b :: r := by
    intro fs hfs
    simp only [csvFields, List.mem_cons, List.mem_map] at hfs
    rcases hfs with rfl | ⟨p, hp, rfl⟩
    · cases h : K.attrs with
      | nil => exact absurd h hm
      | cons a as => exact ⟨_, _, _, rfl⟩
    · have := hrne p.2 (List.of_mem_zip hp).2
      cases h : p.2 with
      | nil => exact absurd h this
      | cons v vs => exact ⟨_, _, _, rfl⟩
  have hline : ∀ l ∈ (csvFields K wt wf).map (pyJoin sep), NameOk l ∧ cr ∉ l := by
    intro l hl
    obtain ⟨fs, hfs, rfl⟩ := List.mem_map.mp hl
    obtain ⟨a, b, r, rfl⟩ := hlen2 fs hfs
    refine ⟨⟨?_, ?_⟩, ?_⟩
    · intro e
      simp only [pyJoin, List.append_eq_nil_iff] at e
      exact hsep.1 e.1.2
    · intro hmem
      rcases mem_pyJoin _ _ _ hmem with h | ⟨f, hf, hx⟩
      · exact hsep.2.1 h
      · exact (hfields _ hfs f hf).2.1 hx
    · intro hmem
      rcases mem_pyJoin _ _ _ hmem with h | ⟨f, hf, hx⟩
      · exact hsep.2.2 h
      · exact (hfields _ hfs f hf).2.2 hx
  have hlinesne : (csvFields K wt wf).map (pyJoin sep) ≠ [] := by simp [csvFields]
  have hfile : fileRoundTrip (writeCsv K sep wt wf) = writeCsv K sep wt wf := by
    apply fileRoundTrip_id
    rw [writeCsv_eq K sep wt wf hm hrne]
    intro hmem
    rcases mem_unlines _ _ hmem with h | ⟨l, hl, hx⟩
    · simp [cr, nl] at h
    · exact (hline l hl).2 hx
  have hsepE : sep.isEmpty = false := by
    cases sep with
    | nil => exact absurd rfl hsep.1
    | cons _ _ => rfl
  unfold csvViaFile readCsvText
  rw [hfile, writeCsv_eq K sep wt wf hm hrne,
    stripNl_unlines _ hlinesne (fun l hl => (hline l hl).1),
    splitOn_join_single nl _ hlinesne (fun l hl => (hline l hl).1.2)]
  simp only [csvFields, List.map_cons, hsepE, Bool.false_eq_true, ↓reduceIte, List.map_map]
  have hheader : splitOn sep (pyJoin sep ([] :: K.attrs)) = [] :: K.attrs :=
    splitOn_join_disj sep hsep.1 _ (by simp) (fun l hl => by
      rcases List.mem_cons.mp hl with rfl | hl
      · simp [Disj]
      · exact (hattrs l hl).1)
  have hbody := csvLines_fields_sep sep hsep.1 wt wf hne hwt.1 hwf'.1 (K.objs.zip K.rows)
    (fun p hp => (hobjs _ (List.of_mem_zip hp).1).1)
  obtain ⟨hz1, hz2⟩ := zip_unzip K.objs K.rows hlen
  rw [hz1, hz2] at hbody
  have hcomp : (List.map (pyJoin sep ∘ fun p : Str × List Bool => p.1 :: List.map (word wt wf) p.2)
      (K.objs.zip K.rows)) = (K.objs.zip K.rows).map fun p => pyJoin sep (p.1 :: p.2.map (word wt wf)) := rfl
  rw [hheader, hcomp, hbody]
  simp only [List.drop_succ_cons, List.drop_zero]
  exact mkCxt_ok K.rows K.objs K.attrs none hn hlen hrows

end Fca.Codec

/-
  Fca.Lemmas.Codec — `split`/`join`/`strip` inverse lemmas for the Python string primitives
  of `Fca.Model.Codec` (core Lean only).
-/
import Fca.Model.Codec
namespace Fca.Codec

/-! ### occurrences of a separator -/

/-- `sep` occurs somewhere in `s` (as a contiguous block) -/
def occurs (sep : Str) : Str → Bool
  | [] => false
  | c :: cs => sep.isPrefixOf (c :: cs) || occurs sep cs

/-- no occurrence of `sep` in `a ++ tail` starts inside `a` -/
def noEarly (sep : Str) : Str → Str → Bool
  | [], _ => true
  | c :: cs, tail => !sep.isPrefixOf (c :: cs ++ tail) && noEarly sep cs tail

theorem splitGo_no_occ (sep : Str) : ∀ s : Str, occurs sep s = false → splitGo sep 0 s = [s]
  | [], _ => rfl
  | c :: cs, h => by
    simp only [occurs, Bool.or_eq_false_iff] at h
    simp only [splitGo, h.1, Bool.false_eq_true, ↓reduceIte, splitGo_no_occ sep cs h.2, consHead]

theorem splitGo_skip (sep : Str) : ∀ (x : Str) (k : Nat) (rest : Str), x.length = k →
    splitGo sep k (x ++ rest) = splitGo sep 0 rest
  | [], k, rest, h => by simp at h; subst h; rfl
  | c :: x, k, rest, h => by
    cases k with
    | zero => simp at h
    | succ k =>
      simp only [List.cons_append, splitGo]
      exact splitGo_skip sep x k rest (by simpa using h)

theorem isPrefixOf_self_append (sep rest : Str) : sep.isPrefixOf (sep ++ rest) = true := by
  induction sep with
  | nil => simp [List.isPrefixOf]
  | cons d sep ih => simp [ih]

/-- the first separator is found where it was put -/
theorem splitGo_first (sep : Str) (hsep : sep ≠ []) (rest : Str) : ∀ a : Str,
    noEarly sep a (sep ++ rest) = true →
    splitGo sep 0 (a ++ (sep ++ rest)) = a :: splitGo sep 0 rest
  | [], _ => by
    cases sep with
    | nil => exact absurd rfl hsep
    | cons d sep' =>
      have hp := isPrefixOf_self_append (d :: sep') rest
      simp only [List.nil_append, List.cons_append] at hp ⊢
      simp only [splitGo, hp, ↓reduceIte, List.length_cons, Nat.add_sub_cancel]
      rw [splitGo_skip (d :: sep') sep' sep'.length rest rfl]
  | c :: a, h => by
    simp only [noEarly, Bool.and_eq_true, Bool.not_eq_true'] at h
    simp only [List.cons_append] at h ⊢
    simp only [splitGo, h.1, Bool.false_eq_true, ↓reduceIte, splitGo_first sep hsep rest a h.2, consHead]

/-! ### single-character separators -/

theorem isPrefixOf_single (c d : Char) (t : Str) : [c].isPrefixOf (d :: t) = (c == d) := by
  simp [List.isPrefixOf]

theorem occurs_single (c : Char) : ∀ s : Str, c ∉ s → occurs [c] s = false
  | [], _ => rfl
  | d :: s, h => by
    simp only [List.mem_cons, not_or] at h
    simp only [occurs, isPrefixOf_single, Bool.or_eq_false_iff, occurs_single c s h.2, and_true]
    simpa using h.1

theorem noEarly_single (c : Char) (tail : Str) : ∀ a : Str, c ∉ a → noEarly [c] a tail = true
  | [], _ => rfl
  | d :: a, h => by
    simp only [List.mem_cons, not_or] at h
    simp only [noEarly, List.cons_append, isPrefixOf_single, Bool.and_eq_true, Bool.not_eq_true',
      noEarly_single c tail a h.2, and_true]
    simpa using h.1

/-- `c.join(ls).split(c) == ls` when no piece contains `c` (and there is at least one piece) -/
theorem splitOn_join_single (c : Char) : ∀ ls : List Str, ls ≠ [] → (∀ l ∈ ls, c ∉ l) →
    splitOn [c] (pyJoin [c] ls) = ls
  | [], h, _ => absurd rfl h
  | [x], _, h => by
    simp only [pyJoin, splitOn]
    exact splitGo_no_occ [c] x (occurs_single c x (h x (by simp)))
  | x :: y :: r, _, h => by
    have ih := splitOn_join_single c (y :: r) (by simp) (fun l hl => h l (List.mem_cons_of_mem _ hl))
    simp only [pyJoin, splitOn] at ih ⊢
    rw [List.append_assoc, splitGo_first [c] (by simp) _ x (noEarly_single c _ x (h x (by simp))), ih]

/-- one piece, one separator, then arbitrary text -/
theorem splitOn_single_first (c : Char) (a rest : Str) (h : c ∉ a) :
    splitOn [c] (a ++ c :: rest) = a :: splitOn [c] rest := by
  have := splitGo_first [c] (by simp) rest a (noEarly_single c _ a h)
  simpa [splitOn] using this

/-! ### lines: `'\n'.join(ls) + '\n'` -/

/-- every line followed by a newline -/
def unlines : List Str → Str
  | [] => []
  | l :: ls => l ++ nl :: unlines ls

theorem unlines_append (xs ys : List Str) : unlines (xs ++ ys) = unlines xs ++ unlines ys := by
  induction xs with
  | nil => rfl
  | cons x xs ih => simp [unlines, ih]

theorem join_nl_eq_unlines : ∀ ls : List Str, ls ≠ [] → pyJoin [nl] ls ++ [nl] = unlines ls
  | [], h => absurd rfl h
  | [x], _ => by simp [pyJoin, unlines]
  | x :: y :: r, _ => by
    have ih := join_nl_eq_unlines (y :: r) (by simp)
    simp only [pyJoin, unlines, List.append_assoc, List.cons_append, List.nil_append] at ih ⊢
    rw [ih]

/-- `rstrip` leaves a string alone when what follows survives -/
theorem rstripNl_append (s t : Str) (h : rstripNl t ≠ []) : rstripNl (s ++ t) = s ++ rstripNl t := by
  induction s with
  | nil => rfl
  | cons c s ih =>
    simp only [List.cons_append, rstripNl, ih]
    cases hst : s ++ rstripNl t with
    | nil =>
      have : rstripNl t = [] := by
        have := congrArg List.length hst
        simp at this
        exact this.2
      exact absurd this h
    | cons d r => rfl

theorem rstripNl_line (l : Str) (h : nl ∉ l) : rstripNl (l ++ [nl]) = l := by
  induction l with
  | nil => simp [rstripNl]
  | cons c l ih =>
    simp only [List.mem_cons, not_or] at h
    simp only [List.cons_append, rstripNl, ih h.2]
    cases l with
    | nil =>
      have : (c == nl) = false := by simpa using fun e => h.1 e.symm
      simp [this]
    | cons d r => rfl

theorem pyJoin_ne_nil (sep : Str) : ∀ ls : List Str, (∃ l ∈ ls, l ≠ []) → pyJoin sep ls ≠ []
  | [], h => by simp at h
  | [x], h => by simpa [pyJoin] using h
  | x :: y :: r, h => by
    intro e
    simp only [pyJoin, List.append_eq_nil_iff] at e
    obtain ⟨l, hl, hne⟩ := h
    rcases List.mem_cons.mp hl with rfl | hl
    · exact hne e.1.1
    · exact pyJoin_ne_nil sep (y :: r) ⟨l, hl, hne⟩ e.2

/-- stripping the final newline of a block of non-empty, newline-free lines -/
theorem rstripNl_unlines : ∀ ls : List Str, ls ≠ [] → (∀ l ∈ ls, l ≠ [] ∧ nl ∉ l) →
    rstripNl (unlines ls) = pyJoin [nl] ls
  | [], h, _ => absurd rfl h
  | [x], _, h => by
    simp only [unlines, pyJoin]
    exact rstripNl_line x (h x (by simp)).2
  | x :: y :: r, _, h => by
    have ih := rstripNl_unlines (y :: r) (by simp) (fun l hl => h l (List.mem_cons_of_mem _ hl))
    have hne : rstripNl (unlines (y :: r)) ≠ [] := by
      rw [ih]
      exact pyJoin_ne_nil _ _ ⟨y, by simp, (h y (by simp)).1⟩
    have : unlines (x :: y :: r) = (x ++ [nl]) ++ unlines (y :: r) := by simp [unlines]
    rw [this, rstripNl_append _ _ hne, ih]
    simp only [pyJoin]

theorem lstripNl_of_head (c : Char) (s : Str) (h : c ≠ nl) : lstripNl (c :: s) = c :: s := by
  have : (c == nl) = false := by simpa using h
  simp [lstripNl, this]

/-- a text-mode file returns what was written when no carriage return is involved -/
theorem fileRoundTripGo_id : ∀ s : Str, cr ∉ s → fileRoundTripGo false s = s
  | [], _ => rfl
  | c :: s, h => by
    simp only [List.mem_cons, not_or] at h
    have : (c == cr) = false := by simpa using fun e => h.1 e.symm
    simp only [fileRoundTripGo, this, Bool.false_eq_true, ↓reduceIte, Bool.and_false,
      fileRoundTripGo_id s h.2]

theorem fileRoundTrip_id (s : Str) (h : cr ∉ s) : fileRoundTrip s = s := fileRoundTripGo_id s h

end Fca.Codec

/-
  Fca.Lemmas.MinGen — combinatorics of `itertools.combinations` and the loop lemmas of the
  minimal-generator search.
-/
import Fca.Model.MinGen
import Fca.Spec.MinGen
import Fca.Lemmas.Galois
import Fca.Props.C01
namespace Fca
open List

/-! ### `combinations l k` = the `k`-element sublists of `l`, each once -/

theorem mem_combinations {l : List Nat} {k : Nat} {s : List Nat} :
    s ∈ combinations l k ↔ s.Sublist l ∧ s.length = k := by
  induction l generalizing k s with
  | nil =>
    cases k with
    | zero => simp [combinations]
    | succ k =>
      simp only [combinations, List.not_mem_nil, List.sublist_nil, false_iff, not_and]
      rintro rfl; simp
  | cons x xs ih =>
    cases k with
    | zero =>
      simp only [combinations, List.mem_singleton, List.length_eq_zero_iff]
      constructor
      · rintro rfl; exact ⟨List.nil_sublist _, rfl⟩
      · exact fun h => h.2
    | succ k =>
      simp only [combinations, List.mem_append, List.mem_map]
      constructor
      · rintro (⟨s', hs', rfl⟩ | h)
        · obtain ⟨h1, h2⟩ := ih.mp hs'
          exact ⟨h1.cons_cons x, by simp [h2]⟩
        · obtain ⟨h1, h2⟩ := ih.mp h
          exact ⟨h1.cons x, h2⟩
      · rintro ⟨hsub, hlen⟩
        cases hsub with
        | cons _ h => exact Or.inr (ih.mpr ⟨h, hlen⟩)
        | cons_cons _ h =>
          rename_i s'
          exact Or.inl ⟨s', ih.mpr ⟨h, by simpa using hlen⟩, rfl⟩

theorem nodup_combinations {l : List Nat} (hl : l.Nodup) (k : Nat) : (combinations l k).Nodup := by
  induction l generalizing k with
  | nil => cases k <;> simp [combinations]
  | cons x xs ih =>
    cases k with
    | zero => simp [combinations]
    | succ k =>
      have hx : x ∉ xs := (List.nodup_cons.mp hl).1
      have hxs : xs.Nodup := (List.nodup_cons.mp hl).2
      simp only [combinations]
      rw [List.nodup_append]
      refine ⟨?_, ih hxs _, ?_⟩
      · have := ih hxs k
        unfold List.Nodup at this ⊢
        exact List.Pairwise.map _ (fun a b hab h => hab (List.cons.inj h).2) this
      · intro a ha b hb hab
        obtain ⟨s', _, rfl⟩ := List.mem_map.mp ha
        subst hab
        have := (mem_combinations.mp hb).1
        exact hx (this.subset List.mem_cons_self)

/-! ### the `set` of tuples -/

theorem mem_setAdd {acc : List (List Nat)} {x s : List Nat} :
    s ∈ setAdd acc x ↔ s ∈ acc ∨ s = x := by
  unfold setAdd
  split
  · rename_i h
    have hx : x ∈ acc := by simpa using h
    constructor
    · exact Or.inl
    · rintro (h | rfl)
      · exact h
      · exact hx
  · simp

theorem nodup_setAdd {acc : List (List Nat)} {x : List Nat} (h : acc.Nodup) : (setAdd acc x).Nodup := by
  unfold setAdd
  split
  · exact h
  · rename_i hx
    have hx' : x ∉ acc := by simpa using hx
    rw [List.nodup_append]
    refine ⟨h, by simp, ?_⟩
    intro a ha b hb hab
    simp only [List.mem_singleton] at hb
    subst hb; subst hab
    exact hx' ha

/-! ### one level of the search -/

/-- the closure test of the loop body -/
def Ctx.genTest (K : Ctx) (intent bg bo c : List Nat) : Bool :=
  mgSetEq (K.intentionI (K.extensionI (bg ++ c) (some bo)) none) intent

theorem mem_minGenLevel (K : Ctx) (intent bg bo : List Nat) (cs : List (List Nat))
    (acc : List (List Nat)) (s : List Nat) :
    s ∈ K.minGenLevel intent bg bo cs acc ↔
      s ∈ acc ∨ ∃ c ∈ cs, K.genTest intent bg bo c = true ∧ s = pySorted (bg ++ c) := by
  induction cs generalizing acc with
  | nil => simp [Ctx.minGenLevel]
  | cons c rest ih =>
    simp only [Ctx.minGenLevel]
    rw [ih]
    by_cases ht : K.genTest intent bg bo c = true
    · have ht' : mgSetEq (K.intentionI (K.extensionI (bg ++ c) (some bo)) none) intent = true := ht
      simp only [ht', ↓reduceIte, mem_setAdd, List.mem_cons]
      constructor
      · rintro ((h | h) | ⟨c', hc', h1, h2⟩)
        · exact Or.inl h
        · exact Or.inr ⟨c, Or.inl rfl, ht, h⟩
        · exact Or.inr ⟨c', Or.inr hc', h1, h2⟩
      · rintro (h | ⟨c', (rfl | hc'), h1, h2⟩)
        · exact Or.inl (Or.inl h)
        · exact Or.inl (Or.inr h2)
        · exact Or.inr ⟨c', hc', h1, h2⟩
    · have ht' : ¬ mgSetEq (K.intentionI (K.extensionI (bg ++ c) (some bo)) none) intent = true := ht
      simp only [ht', Bool.false_eq_true, ↓reduceIte, List.mem_cons]
      constructor
      · rintro (h | ⟨c', hc', h1, h2⟩)
        · exact Or.inl h
        · exact Or.inr ⟨c', Or.inr hc', h1, h2⟩
      · rintro (h | ⟨c', (rfl | hc'), h1, h2⟩)
        · exact Or.inl h
        · exact absurd h1 ht
        · exact Or.inr ⟨c', hc', h1, h2⟩

theorem nodup_minGenLevel (K : Ctx) (intent bg bo : List Nat) (cs : List (List Nat))
    (acc : List (List Nat)) (h : acc.Nodup) : (K.minGenLevel intent bg bo cs acc).Nodup := by
  induction cs generalizing acc with
  | nil => simpa [Ctx.minGenLevel] using h
  | cons c rest ih =>
    simp only [Ctx.minGenLevel]
    apply ih
    split
    · exact nodup_setAdd h
    · exact h

/-! ### the level loop with its `break` -/

/-- the generators found at level `k` (starting from an empty set) -/
def Ctx.lvl (K : Ctx) (intent bg bo attrs : List Nat) (k : Nat) : List (List Nat) :=
  K.minGenLevel intent bg bo (combinations attrs k) []

theorem minGenLoop_cons (K : Ctx) (intent bg bo attrs : List Nat) (k : Nat) (ks : List Nat) :
    K.minGenLoop intent bg bo attrs (k :: ks) [] =
      if (K.lvl intent bg bo attrs k).length > 0 then K.lvl intent bg bo attrs k
      else K.minGenLoop intent bg bo attrs ks (K.lvl intent bg bo attrs k) := rfl

theorem minGenLoop_spec (K : Ctx) (intent bg bo attrs : List Nat) (ks : List Nat) :
    (K.minGenLoop intent bg bo attrs ks [] = [] ∧ ∀ k ∈ ks, K.lvl intent bg bo attrs k = []) ∨
    (∃ pre k post, ks = pre ++ k :: post ∧ K.minGenLoop intent bg bo attrs ks [] = K.lvl intent bg bo attrs k
        ∧ K.lvl intent bg bo attrs k ≠ [] ∧ ∀ k' ∈ pre, K.lvl intent bg bo attrs k' = []) := by
  induction ks with
  | nil => left; simp [Ctx.minGenLoop]
  | cons k ks ih =>
    rw [minGenLoop_cons]
    by_cases hk : (K.lvl intent bg bo attrs k).length > 0
    · right
      refine ⟨[], k, ks, rfl, ?_, ?_, by simp⟩
      · rw [if_pos hk]
      · intro h; rw [h] at hk; simp at hk
    · have hk0 : K.lvl intent bg bo attrs k = [] := by
        apply List.eq_nil_of_length_eq_zero; omega
      rw [if_neg hk, hk0]
      rcases ih with ⟨h1, h2⟩ | ⟨pre, k1, post, h1, h2, h3, h4⟩
      · left
        refine ⟨h1, ?_⟩
        intro k' hk'
        rcases List.mem_cons.mp hk' with rfl | hk'
        · exact hk0
        · exact h2 k' hk'
      · right
        refine ⟨k :: pre, k1, post, by simp [h1], h2, h3, ?_⟩
        intro k' hk'
        rcases List.mem_cons.mp hk' with rfl | hk'
        · exact hk0
        · exact h4 k' hk'

/-! ### the closure test is the specification's closure test -/

theorem mgSetEq_iff {a b : List Nat} : mgSetEq a b = true ↔ Spec.SameSet a b := by
  unfold mgSetEq Spec.SameSet
  simp only [Bool.and_eq_true, List.all_eq_true, List.contains_eq_mem, decide_eq_true_eq]
  constructor
  · rintro ⟨h1, h2⟩ x; exact ⟨h1 x, h2 x⟩
  · intro h; exact ⟨fun x => (h x).mp, fun x => (h x).mpr⟩

theorem mem_attrsToIterate {K : Ctx} {bg : List Nat} {a : Nat} :
    a ∈ K.attrsToIterate bg ↔ a < K.nAttributes ∧ a ∉ bg := by
  simp [Ctx.attrsToIterate, List.mem_filter]

theorem genTest_iff (K : Ctx) (hwf : K.table.WF) (intent bg bo c : List Nat)
    (hbg : ∀ a ∈ bg, a < K.nAttributes) (hc : ∀ a ∈ c, a < K.nAttributes)
    (hbo : ∀ g ∈ bo, g < K.nObjects) :
    K.genTest intent bg bo c = true ↔ Spec.SameSet (Spec.clBase K.table bo (bg ++ c)) intent := by
  unfold Ctx.genTest
  have hin : C01.InRange (bg ++ c) K.nAttributes := by
    intro a ha
    rcases List.mem_append.mp ha with h | h
    · exact hbg a h
    · exact hc a h
  rw [C01.extension_i_exact K hwf (bg ++ c) (some bo) hin (by intro bs h; cases h; exact hbo)]
  simp only [Option.getD_some]
  have hext : C01.InRange (Spec.ext K.table (bg ++ c) bo) K.nObjects := by
    intro g hg
    exact hbo g ((Spec.mem_ext K.table).mp hg).1
  rw [C01.intention_i_exact K hwf _ none hext (by intro bs h; cases h)]
  rw [mgSetEq_iff]
  rfl

/-- membership in one level, in terms of sublists -/
theorem mem_lvl (K : Ctx) (intent bg bo attrs : List Nat) (k : Nat) (s : List Nat) :
    s ∈ K.lvl intent bg bo attrs k ↔
      ∃ D, D.Sublist attrs ∧ D.length = k ∧ K.genTest intent bg bo D = true ∧ s = pySorted (bg ++ D) := by
  unfold Ctx.lvl
  rw [mem_minGenLevel]
  simp only [List.not_mem_nil, false_or]
  constructor
  · rintro ⟨c, hc, h1, h2⟩
    obtain ⟨h3, h4⟩ := mem_combinations.mp hc
    exact ⟨c, h3, h4, h1, h2⟩
  · rintro ⟨c, h3, h4, h1, h2⟩
    exact ⟨c, mem_combinations.mpr ⟨h3, h4⟩, h1, h2⟩

theorem mem_pre_of_lt {pre post : List Nat} {k n k' : Nat} (h : List.range n = pre ++ k :: post)
    (hk' : k' < k) : k' ∈ pre := by
  have hsorted : (pre ++ k :: post).Pairwise (· < ·) := h ▸ List.pairwise_lt_range
  have hkmem : k ∈ List.range n := by rw [h]; simp
  have hk'mem : k' ∈ List.range n := by
    have := List.mem_range.mp hkmem
    exact List.mem_range.mpr (by omega)
  rw [h] at hk'mem
  rcases List.mem_append.mp hk'mem with h1 | h1
  · exact h1
  · exfalso
    rcases List.mem_cons.mp h1 with rfl | h2
    · omega
    · have := (List.pairwise_append.mp hsorted).2.1
      have := List.rel_of_pairwise_cons this h2
      omega

theorem lt_of_mem_pre {pre post : List Nat} {k n k' : Nat} (h : List.range n = pre ++ k :: post)
    (hk' : k' ∈ pre) : k' < k := by
  have hsorted : (pre ++ k :: post).Pairwise (· < ·) := h ▸ List.pairwise_lt_range
  exact (List.pairwise_append.mp hsorted).2.2 k' hk' k List.mem_cons_self

/-- the search result in "completion" form: the members are the `sorted(bg ++ D)` for the sublists
    `D` of `attrs` of minimum length that pass the closure test. -/
theorem mem_minGenLoop_range (K : Ctx) (intent bg bo attrs : List Nat) (s : List Nat) :
    s ∈ K.minGenLoop intent bg bo attrs (List.range (attrs.length + 1)) [] ↔
      ∃ D, D.Sublist attrs ∧ K.genTest intent bg bo D = true ∧
        (∀ D', D'.Sublist attrs → K.genTest intent bg bo D' = true → D.length ≤ D'.length) ∧
        s = pySorted (bg ++ D) := by
  rcases minGenLoop_spec K intent bg bo attrs (List.range (attrs.length + 1)) with
    ⟨h1, h2⟩ | ⟨pre, k, post, h1, h2, h3, h4⟩
  · rw [h1]
    simp only [List.not_mem_nil, false_iff, not_exists, not_and]
    intro D hD hT _ _
    have hlen : D.length ∈ List.range (attrs.length + 1) :=
      List.mem_range.mpr (Nat.lt_succ_of_le hD.length_le)
    have := h2 _ hlen
    have hm : pySorted (bg ++ D) ∈ K.lvl intent bg bo attrs D.length :=
      (mem_lvl ..).mpr ⟨D, hD, rfl, hT, rfl⟩
    rw [this] at hm
    exact absurd hm List.not_mem_nil
  · rw [h2, mem_lvl]
    constructor
    · rintro ⟨D, hD, hlen, hT, hs⟩
      refine ⟨D, hD, hT, ?_, hs⟩
      intro D' hD' hT'
      by_cases hlt : D'.length < D.length
      · exfalso
        have hpre : D'.length ∈ pre := mem_pre_of_lt h1 (by omega)
        have := h4 _ hpre
        have hm : pySorted (bg ++ D') ∈ K.lvl intent bg bo attrs D'.length :=
          (mem_lvl ..).mpr ⟨D', hD', rfl, hT', rfl⟩
        rw [this] at hm
        exact absurd hm List.not_mem_nil
      · omega
    · rintro ⟨D, hD, hT, hmin, hs⟩
      refine ⟨D, hD, ?_, hT, hs⟩
      -- level k is non-empty: some D₀ of length k passes; minimality gives |D| ≤ k
      obtain ⟨s0, hs0⟩ := List.exists_mem_of_ne_nil _ h3
      obtain ⟨D0, hD0, hlen0, hT0, _⟩ := (mem_lvl ..).mp hs0
      have hle : D.length ≤ k := hlen0 ▸ hmin D0 hD0 hT0
      by_cases hlt : D.length < k
      · exfalso
        have hpre : D.length ∈ pre := mem_pre_of_lt h1 hlt
        have := h4 _ hpre
        have hm : pySorted (bg ++ D) ∈ K.lvl intent bg bo attrs D.length :=
          (mem_lvl ..).mpr ⟨D, hD, rfl, hT, rfl⟩
        rw [this] at hm
        exact absurd hm List.not_mem_nil
      · omega

theorem nodup_minGenLoop (K : Ctx) (intent bg bo attrs : List Nat) (ks : List Nat) :
    (K.minGenLoop intent bg bo attrs ks []).Nodup := by
  rcases minGenLoop_spec K intent bg bo attrs ks with ⟨h1, _⟩ | ⟨_, k, _, _, h2, _, _⟩
  · rw [h1]; exact List.nodup_nil
  · rw [h2]; exact nodup_minGenLevel _ _ _ _ _ _ List.nodup_nil

/-! ### sorted tuples are canonical representations of attribute sets -/

theorem mgInsertSorted_perm (a : Nat) (l : List Nat) : (mgInsertSorted a l).Perm (a :: l) := by
  induction l with
  | nil => exact List.Perm.refl _
  | cons b bs ih =>
    simp only [mgInsertSorted]
    split
    · exact List.Perm.refl _
    · exact (List.Perm.cons b ih).trans (List.Perm.swap a b bs)

theorem insertSorted_le (a : Nat) (l : List Nat) (h : l.Pairwise (· ≤ ·)) :
    (mgInsertSorted a l).Pairwise (· ≤ ·) := by
  induction l with
  | nil => simp [mgInsertSorted]
  | cons b bs ih =>
    simp only [mgInsertSorted]
    split
    · rename_i hab
      refine List.pairwise_cons.mpr ⟨?_, h⟩
      intro x hx
      rcases List.mem_cons.mp hx with rfl | hx
      · exact hab
      · have := List.rel_of_pairwise_cons h hx; omega
    · rename_i hab
      refine List.pairwise_cons.mpr ⟨?_, ih h.tail⟩
      intro x hx
      rcases List.mem_cons.mp ((mgInsertSorted_perm a bs).mem_iff.mp hx) with rfl | hx
      · omega
      · exact List.rel_of_pairwise_cons h hx

theorem pySorted_perm (l : List Nat) : (pySorted l).Perm l := by
  induction l with
  | nil => exact List.Perm.refl _
  | cons a l ih => exact (mgInsertSorted_perm a _).trans (List.Perm.cons a ih)

theorem pySorted_le (l : List Nat) : (pySorted l).Pairwise (· ≤ ·) := by
  induction l with
  | nil => exact List.Pairwise.nil
  | cons a l ih => exact insertSorted_le a _ ih

theorem mem_pySorted {l : List Nat} {a : Nat} : a ∈ pySorted l ↔ a ∈ l := (pySorted_perm l).mem_iff

theorem length_pySorted (l : List Nat) : (pySorted l).length = l.length := (pySorted_perm l).length_eq

theorem pySorted_lt {l : List Nat} (h : l.Nodup) : (pySorted l).Pairwise (· < ·) := by
  have hnd : (pySorted l).Nodup := (pySorted_perm l).symm.nodup h
  have hle := pySorted_le l
  have := hle.and hnd
  exact this.imp (by intro a b hab; omega)

/-- a strictly ascending list is determined by its members -/
theorem eq_of_sorted_of_same {a b : List Nat} (ha : a.Pairwise (· < ·)) (hb : b.Pairwise (· < ·))
    (h : ∀ x, x ∈ a ↔ x ∈ b) : a = b := by
  have hna : a.Nodup := ha.imp (by intro x y hxy; omega)
  have hnb : b.Nodup := hb.imp (by intro x y hxy; omega)
  have hp : a.Perm b := (List.perm_ext_iff_of_nodup hna hnb).mpr h
  exact List.Perm.eq_of_pairwise (le := (· < ·)) (by intro x y _ _ h1 h2; omega) ha hb hp

theorem pySorted_eq_of_sorted {l s : List Nat} (hl : l.Nodup) (hs : s.Pairwise (· < ·))
    (h : ∀ x, x ∈ l ↔ x ∈ s) : pySorted l = s :=
  eq_of_sorted_of_same (pySorted_lt hl) hs (fun x => mem_pySorted.trans (h x))

/-- a strictly ascending in-range list is a sublist of `range m` -/
theorem sublist_range_of_sorted {s : List Nat} {m : Nat} (hs : s.Pairwise (· < ·))
    (hm : ∀ a ∈ s, a < m) : s.Sublist (List.range m) := by
  have : s = (List.range m).filter (fun a => s.contains a) := by
    apply eq_of_sorted_of_same hs (List.Pairwise.filter _ List.pairwise_lt_range)
    intro x
    simp only [List.mem_filter, List.mem_range, List.contains_eq_mem, decide_eq_true_eq]
    exact ⟨fun h => ⟨hm x h, h⟩, fun h => h.2⟩
  rw [this]
  exact List.filter_sublist

theorem clBase_congr (t : Table) (bo : List Nat) {X Y : List Nat} (h : ∀ a, a ∈ X ↔ a ∈ Y) :
    Spec.clBase t bo X = Spec.clBase t bo Y := by
  unfold Spec.clBase
  congr 1
  unfold Spec.ext
  apply List.filter_congr
  intro g _
  rw [Bool.eq_iff_iff]
  simp only [List.all_eq_true]
  exact ⟨fun H a ha => H a ((h a).mpr ha), fun H a ha => H a ((h a).mp ha)⟩

theorem nodup_append_sublist_attrs {K : Ctx} {bg D : List Nat} (hbg : bg.Nodup)
    (hD : D.Sublist (K.attrsToIterate bg)) : (bg ++ D).Nodup := by
  have hattrs : (K.attrsToIterate bg).Nodup :=
    List.Nodup.sublist List.filter_sublist List.nodup_range
  rw [List.nodup_append]
  refine ⟨hbg, List.Nodup.sublist hD hattrs, ?_⟩
  intro a ha b hb hab
  subst hab
  exact (mem_attrsToIterate.mp (hD.subset hb)).2 ha

/-- completion `D` ↦ attribute set `sorted(bg ++ D)` -/
theorem isGen_of_completion (K : Ctx) (intent bg bo D : List Nat) (hbgn : bg.Nodup)
    (hbg : ∀ a ∈ bg, a < K.nAttributes)
    (hD : D.Sublist (K.attrsToIterate bg))
    (hcl : Spec.SameSet (Spec.clBase K.table bo (bg ++ D)) intent) :
    Spec.IsGen K.table intent bg bo (pySorted (bg ++ D)) ∧
      (pySorted (bg ++ D)).length = bg.length + D.length := by
  refine ⟨⟨pySorted_lt (nodup_append_sublist_attrs hbgn hD), ?_, ?_, ?_⟩, ?_⟩
  · intro a ha
    rcases List.mem_append.mp (mem_pySorted.mp ha) with h | h
    · exact hbg a h
    · exact (mem_attrsToIterate.mp (hD.subset h)).1
  · intro a ha
    exact mem_pySorted.mpr (List.mem_append_left _ ha)
  · rw [clBase_congr K.table bo (fun a => mem_pySorted)]
    exact hcl
  · rw [length_pySorted, List.length_append]

/-- attribute set `S ⊇ bg` ↦ completion `S ∖ bg` -/
theorem completion_of_isGen (K : Ctx) (intent bg bo S : List Nat) (hbgn : bg.Nodup)
    (hS : Spec.IsGen K.table intent bg bo S) :
    let D := S.filter fun a => !(bg.contains a)
    D.Sublist (K.attrsToIterate bg) ∧ pySorted (bg ++ D) = S ∧
      Spec.SameSet (Spec.clBase K.table bo (bg ++ D)) intent ∧ S.length = bg.length + D.length := by
  intro D
  obtain ⟨hs, hm, hsub, hcl⟩ := hS
  have hDsub : D.Sublist (K.attrsToIterate bg) :=
    (sublist_range_of_sorted hs hm).filter _
  have hmem : ∀ x, x ∈ bg ++ D ↔ x ∈ S := by
    intro x
    simp only [D, List.mem_append, List.mem_filter, Bool.not_eq_true', List.contains_eq_mem,
      decide_eq_false_iff_not]
    constructor
    · rintro (h | h)
      · exact hsub x h
      · exact h.1
    · intro h
      by_cases hx : x ∈ bg
      · exact Or.inl hx
      · exact Or.inr ⟨h, hx⟩
  have hnd := nodup_append_sublist_attrs hbgn hDsub
  have hsorted : pySorted (bg ++ D) = S := pySorted_eq_of_sorted hnd hs hmem
  refine ⟨hDsub, hsorted, ?_, ?_⟩
  · rw [clBase_congr K.table bo hmem]; exact hcl
  · rw [← List.length_append, ← length_pySorted (bg ++ D), hsorted]

/-- a non-empty family of lists has a member of least length -/
theorem exists_min_length {P : List Nat → Prop} {S : List Nat} (hS : P S) :
    ∃ S0, P S0 ∧ ∀ S', P S' → S0.length ≤ S'.length := by
  generalize hn : S.length = n
  induction n using Nat.strongRecOn generalizing S with
  | _ n ih =>
    by_cases h : ∃ S', P S' ∧ S'.length < n
    · obtain ⟨S', hS', hlt⟩ := h
      exact ih _ hlt hS' rfl
    · refine ⟨S, hS, ?_⟩
      intro S' hS'
      by_cases hlt : S'.length < n
      · exact absurd ⟨S', hS', hlt⟩ h
      · omega

/-! ### name ↔ index translation -/

/-- ascending duplicate-free version of an index list: what the by-name translation produces -/
def normIdx (n : Nat) (I : List Nat) : List Nat := (List.range n).filter (I.contains ·)

theorem mem_normIdx {n : Nat} {I : List Nat} {i : Nat} : i ∈ normIdx n I ↔ i < n ∧ i ∈ I := by
  simp [normIdx, List.mem_filter]

theorem idxOfNamesIn_map (names : List String) (hnd : names.Nodup) (I : List Nat)
    (hI : ∀ i ∈ I, i < names.length) :
    Ctx.idxOfNamesIn names (I.map fun i => names.getD i "") = normIdx names.length I := by
  unfold Ctx.idxOfNamesIn normIdx
  apply List.filter_congr
  intro i hi
  have hil : i < names.length := List.mem_range.mp hi
  rw [Bool.eq_iff_iff]
  simp only [List.contains_eq_mem, List.mem_map, decide_eq_true_eq]
  constructor
  · rintro ⟨j, hj, hji⟩
    have hjl := hI j hj
    rw [List.getD_eq_getElem?_getD, List.getD_eq_getElem?_getD, List.getElem?_eq_getElem hjl,
      List.getElem?_eq_getElem hil] at hji
    simp only [Option.getD_some] at hji
    have : j = i := (List.getElem_inj (h₀ := hjl) (h₁ := hil) hnd).mp hji
    exact this ▸ hj
  · intro h; exact ⟨i, h, rfl⟩

theorem clBase_congr2 (t : Table) {bo bo' X Y : List Nat} (hb : ∀ g, g ∈ bo ↔ g ∈ bo')
    (h : ∀ a, a ∈ X ↔ a ∈ Y) : Spec.clBase t bo X = Spec.clBase t bo' Y := by
  rw [clBase_congr t bo h]
  unfold Spec.clBase
  apply Spec.intAll_eq_of_mem_iff
  intro a _
  simp only [Spec.mem_ext]
  exact ⟨fun H g hg => H g ⟨(hb g).mpr hg.1, hg.2⟩, fun H g hg => H g ⟨(hb g).mp hg.1, hg.2⟩⟩

/-- the search depends on `intent` and the base objects only as sets, and on the base generator only
    up to order (for in-range arguments on a well-formed table) -/
theorem minGenLevel_congr (K : Ctx) (intent bg bo intent' bg' bo' : List Nat)
    (cs : List (List Nat)) (acc : List (List Nat))
    (hT : ∀ c ∈ cs, K.genTest intent bg bo c = K.genTest intent' bg' bo' c)
    (hS : ∀ c ∈ cs, pySorted (bg ++ c) = pySorted (bg' ++ c)) :
    K.minGenLevel intent bg bo cs acc = K.minGenLevel intent' bg' bo' cs acc := by
  induction cs generalizing acc with
  | nil => rfl
  | cons c rest ih =>
    simp only [Ctx.minGenLevel]
    have h1 := hT c List.mem_cons_self
    unfold Ctx.genTest at h1
    rw [h1, hS c List.mem_cons_self]
    exact ih _ (fun c' hc' => hT c' (List.mem_cons_of_mem _ hc')) (fun c' hc' => hS c' (List.mem_cons_of_mem _ hc'))

theorem minGenLoop_congr (K : Ctx) (intent bg bo intent' bg' bo' attrs : List Nat)
    (ks : List Nat) (acc : List (List Nat))
    (hT : ∀ c, c.Sublist attrs → K.genTest intent bg bo c = K.genTest intent' bg' bo' c)
    (hS : ∀ c, c.Sublist attrs → pySorted (bg ++ c) = pySorted (bg' ++ c)) :
    K.minGenLoop intent bg bo attrs ks acc = K.minGenLoop intent' bg' bo' attrs ks acc := by
  induction ks generalizing acc with
  | nil => rfl
  | cons k ks ih =>
    simp only [Ctx.minGenLoop]
    rw [minGenLevel_congr K intent bg bo intent' bg' bo' (combinations attrs k) acc
      (fun c hc => hT c (mem_combinations.mp hc).1) (fun c hc => hS c (mem_combinations.mp hc).1)]
    split
    · rfl
    · exact ih _

theorem pySorted_congr {a b : List Nat} (h : a.Perm b) : pySorted a = pySorted b := by
  apply List.Perm.eq_of_pairwise (le := (· ≤ ·)) (by intro x y _ _ h1 h2; omega)
    (pySorted_le a) (pySorted_le b)
  exact (pySorted_perm a).trans (h.trans (pySorted_perm b).symm)

theorem normIdx_perm {n : Nat} {G : List Nat} (hG : ∀ i ∈ G, i < n) (hnd : G.Nodup) :
    (normIdx n G).Perm G := by
  apply (List.perm_ext_iff_of_nodup (List.Nodup.sublist List.filter_sublist List.nodup_range) hnd).mpr
  intro i
  rw [show (i ∈ List.filter (fun x => G.contains x) (List.range n)) = (i ∈ normIdx n G) from rfl,
    mem_normIdx]
  exact ⟨fun h => h.2, fun h => ⟨hG i h, h⟩⟩

theorem getMinimalGeneratorsI_norm (K : Ctx) (hwf : K.table.WF) (I G O : List Nat)
    (hI : ∀ a ∈ I, a < K.nAttributes) (hG : ∀ a ∈ G, a < K.nAttributes) (hGn : G.Nodup) (hO : ∀ g ∈ O, g < K.nObjects) :
    K.getMinimalGeneratorsI (normIdx K.nAttributes I) (some (normIdx K.nAttributes G))
        (some (normIdx K.nObjects O))
      = K.getMinimalGeneratorsI I (some G) (some O) := by
  unfold Ctx.getMinimalGeneratorsI
  simp only
  have hperm := normIdx_perm hG hGn
  have hattrs : K.attrsToIterate (normIdx K.nAttributes G) = K.attrsToIterate G := by
    unfold Ctx.attrsToIterate
    apply List.filter_congr
    intro a _
    congr 1
    rw [Bool.eq_iff_iff]
    simp only [List.contains_eq_mem, decide_eq_true_eq]
    exact hperm.mem_iff
  rw [hattrs]
  congr 1
  apply minGenLoop_congr
  · intro c hc
    have hcr : ∀ a ∈ c, a < K.nAttributes := fun a ha => (mem_attrsToIterate.mp (hc.subset ha)).1
    have hG' : ∀ a ∈ normIdx K.nAttributes G, a < K.nAttributes := fun a ha => (mem_normIdx.mp ha).1
    have hO' : ∀ g ∈ normIdx K.nObjects O, g < K.nObjects := fun g hg => (mem_normIdx.mp hg).1
    rw [Bool.eq_iff_iff, genTest_iff K hwf _ _ _ c hG' hcr hO', genTest_iff K hwf _ _ _ c hG hcr hO]
    rw [clBase_congr2 K.table (bo := normIdx K.nObjects O) (bo' := O)
      (X := normIdx K.nAttributes G ++ c) (Y := G ++ c)
      (fun g => by rw [mem_normIdx]; exact ⟨fun h => h.2, fun h => ⟨hO g h, h⟩⟩)
      (fun a => by simp only [List.mem_append, hperm.mem_iff])]
    unfold Spec.SameSet
    have hmem : ∀ x, x ∈ normIdx K.nAttributes I ↔ x ∈ I := fun x => by
      rw [mem_normIdx]; exact ⟨fun h => h.2, fun h => ⟨hI x h, h⟩⟩
    exact ⟨fun H x => (H x).trans (hmem x), fun H x => (H x).trans (hmem x).symm⟩
  · intro c _
    exact pySorted_congr (hperm.append_right c)

/-- the search depends on `intent` and the base objects only as sets (repetitions and order are irrelevant)
    and on a duplicate-free base generator only up to order: the two calls return the same LIST -/
theorem getMinimalGeneratorsI_congr (K : Ctx) (hwf : K.table.WF) (I I' G G' O O' : List Nat)
    (hG : ∀ a ∈ G, a < K.nAttributes) (hGn : G.Nodup) (hGn' : G'.Nodup) (hO : ∀ g ∈ O, g < K.nObjects)
    (hI : ∀ a, a ∈ I ↔ a ∈ I') (hGG : ∀ a, a ∈ G ↔ a ∈ G') (hOO : ∀ g, g ∈ O ↔ g ∈ O') :
    K.getMinimalGeneratorsI I (some G) (some O) = K.getMinimalGeneratorsI I' (some G') (some O') := by
  unfold Ctx.getMinimalGeneratorsI
  simp only
  have hperm : G.Perm G' := (List.perm_ext_iff_of_nodup hGn hGn').mpr hGG
  have hattrs : K.attrsToIterate G = K.attrsToIterate G' := by
    unfold Ctx.attrsToIterate
    apply List.filter_congr
    intro a _
    congr 1
    rw [Bool.eq_iff_iff]
    simp only [List.contains_eq_mem, decide_eq_true_eq]
    exact hGG a
  rw [hattrs]
  congr 1
  apply minGenLoop_congr
  · intro c hc
    have hcr : ∀ a ∈ c, a < K.nAttributes := fun a ha => (mem_attrsToIterate.mp (hc.subset ha)).1
    have hG' : ∀ a ∈ G', a < K.nAttributes := fun a ha => hG a ((hGG a).mpr ha)
    have hO' : ∀ g ∈ O', g < K.nObjects := fun g hg => hO g ((hOO g).mpr hg)
    rw [Bool.eq_iff_iff, genTest_iff K hwf _ _ _ c hG hcr hO, genTest_iff K hwf _ _ _ c hG' hcr hO']
    rw [clBase_congr2 K.table (bo := O) (bo' := O') (X := G ++ c) (Y := G' ++ c) hOO
      (fun a => by simp only [List.mem_append, hGG a])]
    unfold Spec.SameSet
    exact ⟨fun H x => (H x).trans (hI x), fun H x => (H x).trans (hI x).symm⟩
  · intro c _
    exact pySorted_congr (hperm.append_right c)

/-- the by-name translation reads the given names as a set -/
theorem idxOfNamesIn_congr (names : List String) {sel sel' : List String} (h : ∀ x, x ∈ sel ↔ x ∈ sel') :
    Ctx.idxOfNamesIn names sel = Ctx.idxOfNamesIn names sel' := by
  unfold Ctx.idxOfNamesIn
  apply List.filter_congr
  intro i _
  rw [Bool.eq_iff_iff]
  simp only [List.contains_eq_mem, decide_eq_true_eq]
  exact h _

theorem normIdx_range (n : Nat) : normIdx n (List.range n) = List.range n := by
  unfold normIdx
  apply List.filter_eq_self.mpr
  intro a ha
  simpa using ha

/-! ### the driver's brute-force oracle computes exactly the minimum generators -/

theorem mem_sublists_iff {l s : List Nat} : s ∈ Spec.sublists l ↔ s.Sublist l := by
  induction l generalizing s with
  | nil => simp [Spec.sublists]
  | cons x xs ih =>
    simp only [Spec.sublists, List.mem_append, List.mem_map]
    constructor
    · rintro (h | ⟨s', hs', rfl⟩)
      · exact (ih.mp h).cons x
      · exact (ih.mp hs').cons_cons x
    · intro h
      cases h with
      | cons _ h => exact Or.inl (ih.mpr h)
      | cons_cons _ h => exact Or.inr ⟨_, ih.mpr h, rfl⟩

theorem sameSetB_iff {a b : List Nat} : Spec.sameSetB a b = true ↔ Spec.SameSet a b := mgSetEq_iff

theorem mem_genCands {t : Table} {intent bg bo S : List Nat} :
    S ∈ Spec.genCands t intent bg bo ↔ Spec.IsGen t intent bg bo S := by
  unfold Spec.genCands Spec.IsGen
  rw [List.mem_filter, mem_sublists_iff, Bool.and_eq_true, sameSetB_iff]
  simp only [List.all_eq_true, List.contains_eq_mem, decide_eq_true_eq]
  constructor
  · rintro ⟨hsub, hbg, hcl⟩
    refine ⟨List.Pairwise.sublist hsub List.pairwise_lt_range, ?_, hbg, hcl⟩
    intro a ha
    exact List.mem_range.mp (hsub.subset ha)
  · rintro ⟨hs, hm, hbg, hcl⟩
    exact ⟨sublist_range_of_sorted hs hm, hbg, hcl⟩

theorem mem_minGensSpec {t : Table} {intent bg bo S : List Nat} :
    S ∈ Spec.minGensSpec t intent bg bo ↔ Spec.IsMinGen t intent bg bo S := by
  unfold Spec.minGensSpec Spec.IsMinGen
  simp only [List.mem_filter, List.all_eq_true, decide_eq_true_eq, mem_genCands]

theorem nodup_sublists {l : List Nat} (h : l.Nodup) : (Spec.sublists l).Nodup := by
  induction l with
  | nil => simp [Spec.sublists]
  | cons x xs ih =>
    have hx : x ∉ xs := (List.nodup_cons.mp h).1
    have hxs := ih (List.nodup_cons.mp h).2
    simp only [Spec.sublists]
    rw [List.nodup_append]
    refine ⟨hxs, ?_, ?_⟩
    · unfold List.Nodup at hxs ⊢
      exact List.Pairwise.map _ (fun a b hab h => hab (List.cons.inj h).2) hxs
    · intro a ha b hb hab
      obtain ⟨s', _, rfl⟩ := List.mem_map.mp hb
      subst hab
      exact hx ((mem_sublists_iff.mp ha).subset List.mem_cons_self)

theorem nodup_minGensSpec (t : Table) (intent bg bo : List Nat) :
    (Spec.minGensSpec t intent bg bo).Nodup := by
  unfold Spec.minGensSpec Spec.genCands
  exact List.Nodup.sublist List.filter_sublist
    (List.Nodup.sublist List.filter_sublist (nodup_sublists List.nodup_range))

end Fca

/-
  Lemmas for the multipartite layout model (`Fca.Model.LayoutMP`): every node's final position is an
  affine image, with a positive factor, of (slot inside its layer, index of its layer); layers are
  ordered by level.  From that: total, injective, strictly antitone in the level.
-/
import Fca.Model.LayoutMP
import Fca.Lemmas.Layout
import Fca.Lemmas.Fcart
namespace Fca.Layout

/-! ### generic list facts -/

theorem lookup_of_mem_nodup {β : Type} : ∀ (d : List (Nat × β)) (v : Nat) (p : β),
    (d.map Prod.fst).Nodup → (v, p) ∈ d → d.lookup v = some p
  | [], _, _, _, h => by cases h
  | (a, b) :: rest, v, p, hnd, h => by
    simp only [List.map_cons, List.nodup_cons] at hnd
    rw [List.lookup_cons]
    rcases List.mem_cons.mp h with e | h'
    · cases e
      simp
    · have hne : (v == a) = false := by
        simp only [beq_eq_false_iff_ne, ne_eq]
        intro e
        subst e
        exact hnd.1 (List.mem_map.mpr ⟨(v, p), h', rfl⟩)
      rw [hne]
      exact lookup_of_mem_nodup rest v p hnd.2 h'

theorem mem_zip_map_range {α β : Type} (layer : List α) (f : Nat → β) (k : Nat) (v : α)
    (h : layer[k]? = some v) : (v, f k) ∈ layer.zip ((List.range layer.length).map f) := by
  rw [List.mem_iff_getElem?]
  refine ⟨k, ?_⟩
  rw [List.getElem?_zip_eq_some]
  refine ⟨h, ?_⟩
  have hk : k < layer.length := by
    rcases Nat.lt_or_ge k layer.length with h' | h'
    · exact h'
    · rw [List.getElem?_eq_none h'] at h; cases h
  simp [hk]

theorem idx_lt_of_sorted {ks : List Nat} (h : ks.Pairwise (· < ·)) {a b x y : Nat}
    (ha : ks[a]? = some x) (hb : ks[b]? = some y) (hxy : y < x) : b < a := by
  rcases Nat.lt_trichotomy a b with hlt | heq | hgt
  · exfalso
    obtain ⟨ha', rfl⟩ := List.getElem?_eq_some_iff.mp ha
    obtain ⟨hb', rfl⟩ := List.getElem?_eq_some_iff.mp hb
    have := (List.pairwise_iff_getElem.mp h) a b ha' hb' hlt
    omega
  · exfalso
    subst heq
    rw [ha] at hb
    cases hb
    omega
  · exact hgt

/-! ### the loop over the layers -/

theorem mpLayerPos_length (W i h : Nat) : (mpLayerPos W i h).length = h := by
  simp [mpLayerPos]

theorem mpLoop_fst (W : Nat) : ∀ (layers : List (List Nat)) (i : Nat), (mpLoop W i layers).1 = layers.flatten
  | [], _ => rfl
  | layer :: rest, i => by
    simp only [mpLoop, List.flatten_cons, mpLoop_fst W rest (i + 1)]

theorem mpLoop_len (W : Nat) : ∀ (layers : List (List Nat)) (i : Nat),
    (mpLoop W i layers).2.length = (mpLoop W i layers).1.length
  | [], _ => rfl
  | layer :: rest, i => by
    simp only [mpLoop, List.length_append, mpLayerPos_length, mpLoop_len W rest (i + 1)]

/-- the raw (unscaled) row of slot `k` of layer number `i` -/
def mpRaw (W i k h : Nat) : Rat × Rat :=
  ((i : Rat) - ((W : Rat) - 1) / 2, (k : Rat) - ((h : Rat) - 1) / 2)

theorem mpLoop_mem (W : Nat) : ∀ (layers : List (List Nat)) (i j : Nat) (layer : List Nat) (k v : Nat),
    layers[j]? = some layer → layer[k]? = some v →
    (v, mpRaw W (i + j) k layer.length) ∈ (mpLoop W i layers).1.zip (mpLoop W i layers).2
  | [], _, _, _, _, _, h, _ => by simp at h
  | layer0 :: rest, i, j, layer, k, v, hj, hk => by
    simp only [mpLoop]
    rw [List.zip_append (by rw [mpLayerPos_length])]
    cases j with
    | zero =>
      simp only [List.getElem?_cons_zero, Option.some.injEq] at hj
      subst hj
      exact List.mem_append_left _ (mem_zip_map_range layer0 (fun k => mpRaw W i k layer0.length) k v hk)
    | succ j =>
      simp only [List.getElem?_cons_succ] at hj
      have := mpLoop_mem W rest (i + 1) j layer k v hj hk
      have e : i + 1 + j = i + (j + 1) := by omega
      rw [e] at this
      exact List.mem_append_right _ this

/-! ### rescaling is an affine map with a positive factor -/

theorem rescaleLayout_affine (ps : List (Rat × Rat)) :
    ∃ s mx my : Rat, 0 < s ∧ rescaleLayout ps = ps.map fun p => ((p.1 - mx) * s, (p.2 - my) * s) := by
  unfold rescaleLayout
  simp only
  generalize meanQ (ps.map (·.1)) = mx
  generalize meanQ (ps.map (·.2)) = my
  split
  · rename_i hlim
    refine ⟨1 / maxAbs (ps.map fun p => (p.1 - mx, p.2 - my)), mx, my, ?_, ?_⟩
    · rw [Rat.div_def, Rat.one_mul]
      exact Rat.inv_pos.mpr hlim
    · rw [List.map_map]
      rfl
  · refine ⟨1, mx, my, by decide, ?_⟩
    apply List.map_congr_left
    intro p _
    simp only [Rat.mul_one]

/-! ### the layers -/

theorem mpKeys_sorted (l : List Nat) : (mpKeys l).Pairwise (· < ·) :=
  List.Pairwise.filter _ List.pairwise_lt_range

theorem mem_mpGroup (l : List Nat) (k v : Nat) : v ∈ mpGroup l k ↔ v < l.length ∧ l.getD v 0 = k := by
  simp only [mpGroup, List.mem_filter, List.mem_range, beq_iff_eq]

theorem mem_mpKeys (l : List Nat) (v : Nat) (hv : v < l.length) : l.getD v 0 ∈ mpKeys l := by
  have hm : l.getD v 0 ∈ l := by
    rw [List.getD_eq_getElem?_getD, List.getElem?_eq_getElem hv]
    simp only [Option.getD_some, List.getElem_mem]
  simp only [mpKeys, List.mem_filter, List.mem_range, List.contains_eq_mem, decide_eq_true_eq]
  have := (foldl_max_ge l 0).2 _ hm
  exact ⟨by omega, hm⟩

theorem mpLayers_nodup (l : List Nat) (ord : List Nat → List Nat) (hord : ∀ g, (ord g).Perm g) :
    (mpLayers l ord).flatten.Nodup := by
  rw [List.Nodup, List.pairwise_flatten]
  constructor
  · intro g hg
    obtain ⟨k, _, rfl⟩ := List.mem_map.mp hg
    exact (hord _).nodup_iff.mpr (List.Pairwise.filter _ List.nodup_range)
  · unfold mpLayers
    rw [List.pairwise_map]
    refine List.Pairwise.imp ?_ (mpKeys_sorted l)
    intro a b hab x hx y hy e
    subst e
    have h1 := ((mem_mpGroup l a x).mp ((hord _).mem_iff.mp hx)).2
    have h2 := ((mem_mpGroup l b x).mp ((hord _).mem_iff.mp hy)).2
    omega

/-- the keys of the position dictionary are pairwise different -/
theorem mpDict_keys_nodup (l : List Nat) (ord : List Nat → List Nat) (hord : ∀ g, (ord g).Perm g) :
    ((mpDict l ord).map Prod.fst).Nodup := by
  unfold mpDict
  simp only
  have hlen : (mpLoop (mpLayers l ord).length 0 (mpLayers l ord)).1.length ≤
      ((rescaleLayout (mpLoop (mpLayers l ord).length 0 (mpLayers l ord)).2).map fun p => (p.2, p.1)).length := by
    obtain ⟨s, mx, my, _, e⟩ := rescaleLayout_affine (mpLoop (mpLayers l ord).length 0 (mpLayers l ord)).2
    rw [e, List.length_map, List.length_map, mpLoop_len]
    exact Nat.le_refl _
  rw [List.map_fst_zip hlen]
  rw [mpLoop_fst]
  exact mpLayers_nodup l ord hord

/-- Every node's position: with `i` the index of its level among the occurring levels and `k` its slot in
    the iteration order of its layer, `x = (k − (height−1)/2 − my)·s`, `y = −(i − cw − mx)·s` for
    constants `s > 0`, `cw`, `mx`, `my` that do not depend on the node. -/
theorem mpNode_affine (l : List Nat) (ord : List Nat → List Nat) (hord : ∀ g, (ord g).Perm g) :
    ∃ s cw mx my : Rat, 0 < s ∧ ∀ v, v < l.length →
      ∃ i k : Nat, (mpKeys l)[i]? = some (l.getD v 0) ∧ (ord (mpGroup l (l.getD v 0)))[k]? = some v ∧
        mpNode l ord v =
          (((k : Rat) - (((ord (mpGroup l (l.getD v 0))).length : Rat) - 1) / 2 - my) * s,
           -(((i : Rat) - cw - mx) * s)) := by
  obtain ⟨s, mx, my, hs, hr⟩ := rescaleLayout_affine (mpLoop (mpLayers l ord).length 0 (mpLayers l ord)).2
  refine ⟨s, (((mpLayers l ord).length : Rat) - 1) / 2, mx, my, hs, ?_⟩
  intro v hv
  obtain ⟨i, hi⟩ := List.getElem?_of_mem (mem_mpKeys l v hv)
  have hvm : v ∈ ord (mpGroup l (l.getD v 0)) :=
    (hord _).mem_iff.mpr ((mem_mpGroup l _ v).mpr ⟨hv, rfl⟩)
  obtain ⟨k, hk⟩ := List.getElem?_of_mem hvm
  refine ⟨i, k, hi, hk, ?_⟩
  have hlayer : (mpLayers l ord)[i]? = some (ord (mpGroup l (l.getD v 0))) := by
    simp only [mpLayers, List.getElem?_map, hi, Option.map_some]
  have hmem := mpLoop_mem (mpLayers l ord).length (mpLayers l ord) 0 i _ k v hlayer hk
  rw [Nat.zero_add] at hmem
  have hd : (v, ((mpRaw (mpLayers l ord).length i k (ord (mpGroup l (l.getD v 0))).length).2 - my) * s,
      ((mpRaw (mpLayers l ord).length i k (ord (mpGroup l (l.getD v 0))).length).1 - mx) * s) ∈ mpDict l ord := by
    unfold mpDict
    simp only
    rw [hr, List.map_map, List.zip_map_right]
    exact List.mem_map.mpr ⟨_, hmem, rfl⟩
  have hl := lookup_of_mem_nodup _ _ _ (mpDict_keys_nodup l ord hord) hd
  simp only [mpNode, hl, mpRaw]

/-! ### consequences: strictly antitone in the level, injective -/

theorem mp_lt_of_lt (a b : Nat) (c s : Rat) (hs : 0 < s) (h : b < a) :
    ((b : Rat) - c) * s < ((a : Rat) - c) * s := by
  have hab : ((b : Nat) : Rat) < ((a : Nat) : Rat) := by exact_mod_cast h
  have h1 : (b : Rat) - c < (a : Rat) - c := by grind
  exact Rat.mul_lt_mul_of_pos_right h1 hs

theorem mp_inj (a b : Nat) (c s : Rat) (hs : 0 < s) (h : ((a : Rat) - c) * s = ((b : Rat) - c) * s) :
    a = b := by
  rcases Nat.lt_trichotomy a b with hlt | heq | hgt
  · have := mp_lt_of_lt b a c s hs hlt
    rw [h] at this; exact absurd this Rat.lt_irrefl
  · exact heq
  · have := mp_lt_of_lt a b c s hs hgt
    rw [h] at this; exact absurd this Rat.lt_irrefl

/-- different nodes get different positions, and a node of a smaller level is drawn strictly higher -/
theorem mpNode_facts (l : List Nat) (ord : List Nat → List Nat) (hord : ∀ g, (ord g).Perm g) :
    (∀ a b, a < l.length → b < l.length → a ≠ b → mpNode l ord a ≠ mpNode l ord b) ∧
    (∀ a b, a < l.length → b < l.length → l.getD b 0 < l.getD a 0 → (mpNode l ord a).2 < (mpNode l ord b).2) := by
  obtain ⟨s, cw, mx, my, hs, hall⟩ := mpNode_affine l ord hord
  constructor
  · intro a b ha hb hab he
    obtain ⟨i, k, hi, hk, ea⟩ := hall a ha
    obtain ⟨i', k', hi', hk', eb⟩ := hall b hb
    rw [ea, eb] at he
    have hy := congrArg Prod.snd he
    have hx := congrArg Prod.fst he
    simp only at hx hy
    have hy' : ((i : Rat) - (cw + mx)) * s = ((i' : Rat) - (cw + mx)) * s := by grind
    have hii := mp_inj i i' (cw + mx) s hs hy'
    subst hii
    rw [hi] at hi'
    have hlv : l.getD a 0 = l.getD b 0 := Option.some.inj hi'
    rw [← hlv] at hx hk'
    have hx' : ((k : Rat) - ((((ord (mpGroup l (l.getD a 0))).length : Rat) - 1) / 2 + my)) * s =
        ((k' : Rat) - ((((ord (mpGroup l (l.getD a 0))).length : Rat) - 1) / 2 + my)) * s := by grind
    have hkk := mp_inj k k' _ s hs hx'
    subst hkk
    rw [hk] at hk'
    exact hab (Option.some.inj hk')
  · intro a b ha hb hlt
    obtain ⟨i, k, hi, _, ea⟩ := hall a ha
    obtain ⟨i', k', hi', _, eb⟩ := hall b hb
    rw [ea, eb]
    have hidx : i' < i := idx_lt_of_sorted (mpKeys_sorted l) hi hi' hlt
    have := mp_lt_of_lt i i' (cw + mx) s hs hidx
    simp only
    grind

theorem yOf_mpLayout (P : PosetData) (l : List Nat) (ord : List Nat → List Nat) (i : Nat) (hi : i < P.n) :
    yOf (mpLayout P l ord) i = (mpNode l ord i).2 := by
  simp [yOf, mpLayout, List.getD_eq_getElem?_getD, hi]

end Fca.Layout

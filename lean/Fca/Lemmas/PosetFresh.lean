/-
  Lemmas/PosetFresh — the index-level order induced by `leq` on an element list, and membership
  characterisations of the `Fresh` answers.
-/
import Fca.Lemmas.PosetBasic
set_option linter.unusedSectionVars false
namespace Fca.Poset
open Fca Fca.Poset.Fresh

section
variable {α : Type} [DecidableEq α] (leq : α → α → Bool)

/-- `leq` is a partial order on the universe `U` of elements -/
structure PO (U : α → Prop) : Prop where
  refl : ∀ a, U a → leq a a = true
  antisymm : ∀ a b, U a → U b → leq a b = true → leq b a = true → a = b
  trans : ∀ a b c, U a → U b → U c → leq a b = true → leq b c = true → leq a c = true

/-- the order on the indexes of `E` -/
structure IdxPO (E : List α) : Prop where
  refl : ∀ i, i < E.length → rel leq E i i = true
  antisymm : ∀ i j, rel leq E i j = true → rel leq E j i = true → i = j
  trans : ∀ i j k, rel leq E i j = true → rel leq E j k = true → rel leq E i k = true

variable {leq}

theorem rel_lt {E : List α} {i j : Nat} (h : rel leq E i j = true) : i < E.length ∧ j < E.length := by
  unfold rel at h
  split at h
  · rename_i x y hx hy
    exact ⟨(List.getElem?_eq_some_iff.mp hx).1, (List.getElem?_eq_some_iff.mp hy).1⟩
  · cases h

theorem rel_eq {E : List α} {i j : Nat} (hi : i < E.length) (hj : j < E.length) :
    rel leq E i j = leq E[i] E[j] := by
  unfold rel
  simp [List.getElem?_eq_getElem hi, List.getElem?_eq_getElem hj]

theorem idxPO_of {U : α → Prop} (hpo : PO leq U) {E : List α} (hnd : E.Nodup) (hU : ∀ a ∈ E, U a) :
    IdxPO leq E := by
  refine ⟨?_, ?_, ?_⟩
  · intro i hi
    rw [rel_eq hi hi]; exact hpo.refl _ (hU _ (List.getElem_mem hi))
  · intro i j h1 h2
    obtain ⟨hi, hj⟩ := rel_lt h1
    rw [rel_eq hi hj] at h1; rw [rel_eq hj hi] at h2
    have := hpo.antisymm _ _ (hU _ (List.getElem_mem hi)) (hU _ (List.getElem_mem hj)) h1 h2
    exact (List.getElem_inj hnd).mp this
  · intro i j k h1 h2
    obtain ⟨hi, hj⟩ := rel_lt h1
    obtain ⟨_, hk⟩ := rel_lt h2
    rw [rel_eq hi hj] at h1; rw [rel_eq hj hk] at h2; rw [rel_eq hi hk]
    exact hpo.trans _ _ _ (hU _ (List.getElem_mem hi)) (hU _ (List.getElem_mem hj)) (hU _ (List.getElem_mem hk)) h1 h2

/-! ### the directed relations -/

theorem relD_lt {d : Dir} {E : List α} {i j : Nat} (h : relD leq d E i j = true) :
    i < E.length ∧ j < E.length := by
  cases d <;> simp only [relD] at h
  · exact rel_lt h
  · exact (rel_lt h).symm

theorem relD_flip (d : Dir) (E : List α) (i j : Nat) : relD leq d.flip E i j = relD leq d E j i := by
  cases d <;> rfl

theorem ltD_flip (d : Dir) (E : List α) (i j : Nat) : ltD leq d.flip E i j = ltD leq d E j i := by
  unfold ltD
  rw [relD_flip]
  by_cases h : i = j
  · subst h; rfl
  · have : j ≠ i := fun e => h e.symm
    have e1 : (i != j) = true := by simpa using h
    have e2 : (j != i) = true := by simpa using this
    rw [e1, e2]

variable {E : List α} (hpo : IdxPO leq E)
include hpo

theorem relD_refl (d : Dir) {i : Nat} (hi : i < E.length) : relD leq d E i i = true := by
  cases d <;> exact hpo.refl i hi

theorem relD_antisymm (d : Dir) {i j : Nat} (h1 : relD leq d E i j = true) (h2 : relD leq d E j i = true) :
    i = j := by
  cases d
  · exact hpo.antisymm i j h1 h2
  · exact hpo.antisymm i j h2 h1

theorem relD_trans (d : Dir) {i j k : Nat} (h1 : relD leq d E i j = true) (h2 : relD leq d E j k = true) :
    relD leq d E i k = true := by
  cases d
  · exact hpo.trans i j k h1 h2
  · exact hpo.trans k j i h2 h1

omit hpo in
theorem ltD_iff {d : Dir} {i k : Nat} : ltD leq d E i k = true ↔ relD leq d E i k = true ∧ i ≠ k := by
  unfold ltD; simp

omit hpo in
theorem ltD_lt {d : Dir} {i k : Nat} (h : ltD leq d E i k = true) : i < E.length ∧ k < E.length :=
  relD_lt (ltD_iff.mp h).1

theorem ltD_trans (d : Dir) {i j k : Nat} (h1 : ltD leq d E i j = true) (h2 : ltD leq d E j k = true) :
    ltD leq d E i k = true := by
  rw [ltD_iff] at *
  refine ⟨relD_trans hpo d h1.1 h2.1, ?_⟩
  intro e; subst e
  exact h1.2 (relD_antisymm hpo d h1.1 h2.1)

theorem ltD_asymm (d : Dir) {i j : Nat} (h1 : ltD leq d E i j = true) (h2 : ltD leq d E j i = true) : False := by
  rw [ltD_iff] at *
  exact h1.2 (relD_antisymm hpo d h1.1 h2.1)

omit hpo in
theorem ltD_irrefl (d : Dir) (i : Nat) : ltD leq d E i i = false := by
  unfold ltD; simp

theorem ltD_of_relD_ltD (d : Dir) {i j k : Nat} (h1 : relD leq d E i j = true) (h2 : ltD leq d E j k = true) :
    ltD leq d E i k = true := by
  by_cases e : i = j
  · subst e; exact h2
  · exact ltD_trans hpo d (ltD_iff.mpr ⟨h1, e⟩) h2

theorem ltD_of_ltD_relD (d : Dir) {i j k : Nat} (h1 : ltD leq d E i j = true) (h2 : relD leq d E j k = true) :
    ltD leq d E i k = true := by
  by_cases e : j = k
  · subst e; exact h1
  · exact ltD_trans hpo d h1 (ltD_iff.mpr ⟨h2, e⟩)

/-! ### membership in the Fresh answers -/

omit hpo in
theorem mem_closed {d : Dir} {x k : Nat} : x ∈ closed leq d E k ↔ ltD leq d E x k = true := by
  unfold closed
  simp only [List.mem_filter, List.mem_range, and_iff_right_iff_imp]
  exact fun h => (ltD_lt h).1

omit hpo in
theorem nodup_closed (d : Dir) (k : Nat) : (closed leq d E k).Nodup :=
  (pairwise_lt_filter_range _ _).imp (fun h => Nat.ne_of_lt h)

omit hpo in
theorem isCover_iff {d : Dir} {x k : Nat} :
    isCover leq d E x k = true ↔
      ltD leq d E x k = true ∧ ∀ z, ltD leq d E x z = true → ltD leq d E z k = true → False := by
  unfold isCover
  simp only [Bool.and_eq_true, List.all_eq_true, List.mem_range, Bool.not_eq_true', Bool.and_eq_false_imp]
  constructor
  · rintro ⟨h1, h2⟩
    refine ⟨h1, fun z hz1 hz2 => ?_⟩
    have := h2 z (ltD_lt hz2).1 hz1
    rw [hz2] at this; cases this
  · rintro ⟨h1, h2⟩
    refine ⟨h1, fun z _ hz1 => ?_⟩
    cases h : ltD leq d E z k
    · rfl
    · exact (h2 z hz1 h).elim

omit hpo in
theorem mem_direct {d : Dir} {x k : Nat} : x ∈ direct leq d E k ↔ isCover leq d E x k = true := by
  unfold direct
  simp only [List.mem_filter, List.mem_range, and_iff_right_iff_imp]
  exact fun h => (ltD_lt (isCover_iff.mp h).1).1

omit hpo in
theorem nodup_direct (d : Dir) (k : Nat) : (direct leq d E k).Nodup :=
  (pairwise_lt_filter_range _ _).imp (fun h => Nat.ne_of_lt h)

/-! ### finite-order facts -/

/-- a non-empty finite set of indexes has a `d`-maximal element above any given member:
    `∃ m ∈ l, x ≤ m ∧ nothing in l is strictly `d`-above m` (where "above" means `ltD d m ·`) -/
theorem exists_maximal (d : Dir) (l : List Nat) (hl : ∀ y ∈ l, y < E.length) :
    ∀ x ∈ l, ∃ m ∈ l, relD leq d E x m = true ∧ ∀ y ∈ l, ltD leq d E m y = false := by
  induction l with
  | nil => intro x hx; cases hx
  | cons a l ih =>
    have hl' : ∀ y ∈ l, y < E.length := fun y hy => hl y (List.mem_cons_of_mem _ hy)
    -- first: an element maximal within `l` above x, or x = a
    intro x hx
    -- candidate inside the tail
    have key : ∀ x ∈ l, ∃ m ∈ a :: l, relD leq d E x m = true ∧ ∀ y ∈ a :: l, ltD leq d E m y = false := by
      intro x hx
      obtain ⟨m, hm, hxm, hmax⟩ := ih hl' x hx
      cases hma : ltD leq d E m a
      · refine ⟨m, List.mem_cons_of_mem _ hm, hxm, ?_⟩
        intro y hy
        rcases List.mem_cons.mp hy with rfl | hy
        · exact hma
        · exact hmax y hy
      · -- a is strictly above m: then a is maximal
        refine ⟨a, List.mem_cons_self, relD_trans hpo d hxm (ltD_iff.mp hma).1, ?_⟩
        intro y hy
        rcases List.mem_cons.mp hy with rfl | hy
        · exact ltD_irrefl d _
        · cases h : ltD leq d E a y
          · rfl
          · have := hmax y hy
            rw [ltD_trans hpo d hma h] at this; cases this
    rcases List.mem_cons.mp hx with rfl | hx
    · -- x = a: either something in l is strictly above a, or a is maximal
      by_cases hex : ∃ y ∈ l, ltD leq d E x y = true
      · obtain ⟨y, hy, hxy⟩ := hex
        obtain ⟨m, hm, hym, hmax⟩ := key y hy
        exact ⟨m, hm, relD_trans hpo d (ltD_iff.mp hxy).1 hym, hmax⟩
      · refine ⟨x, List.mem_cons_self, relD_refl hpo d (hl x List.mem_cons_self), ?_⟩
        intro y hy
        rcases List.mem_cons.mp hy with rfl | hy
        · exact ltD_irrefl d _
        · cases h : ltD leq d E x y
          · rfl
          · exact (hex ⟨y, hy, h⟩).elim
    · exact key x hx

/-- below (in direction `d`) every `k` that has something strictly on its `d` side there is a cover,
    and it can be chosen above any given `x` with `ltD x k` -/
theorem exists_cover_above (d : Dir) {x k : Nat} (h : ltD leq d E x k = true) :
    ∃ c, isCover leq d E c k = true ∧ relD leq d E x c = true := by
  have hl : ∀ y ∈ closed leq d E k, y < E.length := fun y hy => (ltD_lt (mem_closed.mp hy)).1
  obtain ⟨m, hm, hxm, hmax⟩ := exists_maximal hpo d (closed leq d E k) hl x (mem_closed.mpr h)
  refine ⟨m, isCover_iff.mpr ⟨mem_closed.mp hm, ?_⟩, hxm⟩
  intro z hz1 hz2
  have := hmax z (mem_closed.mpr hz2)
  rw [hz1] at this; cases this

end
end Fca.Poset

/-
  Lemmas/PosetAlgebra — `_combine_multiple_caches` produces only `Fresh` values:
  * `CacheExact leq s`: the elements of `s` are duplicate free and every entry of its five caches is the `Fresh`
    value for its elements (what the C09 invariant says about a caching instance; trivially true of the empty
    cache view of an uncached one);
  * the combined closed relation is sound for every operator (`closed_good`) and complete: for `&`/`-` because
    every element of the result belongs to the operand the entry comes from, for `|`/`^` because an entry is kept
    only when both operands had it cached (`combineClosed_exact`);
  * the maximal elements of an exact strict down-set (up-set) are exactly the lower (upper) covers
    (`combineDirect_exact`);
  * hence `combineMulti_exact`.
-/
import Fca.Lemmas.PosetAlgebraLoop
import Fca.Lemmas.PosetQuery
set_option linter.unusedSectionVars false
namespace Fca.Poset
open Fca Fca.Poset.Fresh

section
variable {α : Type} [DecidableEq α] {leq : α → α → Bool}

/-- the elements of `s` are duplicate free and every cache entry of `s` is the `Fresh` value -/
structure CacheExact (leq : α → α → Bool) (s : St α) : Prop where
  nodup : s.elems.Nodup
  leqOk : ∀ a b r, alookup (a, b) s.leqC = some r →
    a < s.elems.length ∧ b < s.elems.length ∧ r = rel leq s.elems a b
  closedOk : ∀ d k v, alookup k (s.closed d) = some v →
    k < s.elems.length ∧ v.Nodup ∧ ∀ x, x ∈ v ↔ ltD leq d s.elems x k = true
  directOk : ∀ d k v, alookup k (s.direct d) = some v →
    k < s.elems.length ∧ v.Nodup ∧ ∀ x, x ∈ v ↔ isCover leq d s.elems x k = true

theorem cacheExact_of_invB {s : St α} (hnd : s.elems.Nodup) (h : InvB leq s.elems Ghost.none true s) :
    CacheExact leq s := by
  refine ⟨hnd, fun a b r hl => ?_, fun d k v hl => ?_, fun d k v hl => ?_⟩
  · obtain ⟨h1, h2, h3⟩ := h.leqOk rfl a b r hl
    exact ⟨h1, h2, h3 h1 h2⟩
  · obtain ⟨h1, h2, h3⟩ := h.closedOk rfl d k v hl
    exact ⟨h1, h2, h3 h1⟩
  · obtain ⟨h1, h2, h3⟩ := h.directOk rfl d k v hl
    exact ⟨h1, h2, h3 h1⟩

theorem cacheExact_init {E : List α} (c : Bool) (hnd : E.Nodup) : CacheExact leq (init E c) := by
  refine ⟨hnd, fun a b r hl => ?_, fun d k v hl => ?_, fun d k v hl => ?_⟩
  · simp [init] at hl
  · cases d <;> simp [init, St.closed] at hl
  · cases d <;> simp [init, St.direct] at hl

theorem invB_of_cacheExact {s : St α} (h : CacheExact leq s) (c : Bool) (hc : s.useCache = c) :
    InvB leq s.elems Ghost.none c s :=
  InvB.ofOk rfl hc (fun _ a b r hl => h.leqOk a b r hl) (fun _ d k v hl => h.closedOk d k v hl)
    (fun _ d k v hl => h.directOk d k v hl)

@[simp] theorem cacheView_elems (b : St α) : b.cacheView.elems = b.elems := by
  unfold St.cacheView; split <;> rfl

/-- the cache view of the second operand holds `Fresh` values only -/
theorem cacheExact_cacheView {b : St α} (hnd : b.elems.Nodup)
    (h : InvB leq b.elems Ghost.none b.useCache b) : CacheExact leq b.cacheView := by
  unfold St.cacheView
  split
  · rename_i hc
    rw [hc] at h
    exact cacheExact_of_invB hnd h
  · exact cacheExact_init false hnd

/-! ### the closed relations -/

/-- a combined closed entry is in range, duplicate free, and contains only strict relatives -/
def GoodClosed (leq : α → α → Bool) (d : Dir) (C : List α) (ck : Nat) (cv : List Nat) : Prop :=
  ck < C.length ∧ cv.Nodup ∧ ∀ x ∈ cv, ltD leq d C x ck = true

theorem goodClosed_mapped {s : St α} (hs : CacheExact leq s) {C : List α} {d : Dir} {k ck : Nat} {v : List Nat}
    (hl : alookup k (s.closed d) = some v) (hk : idxMap s.elems C k = some ck) :
    GoodClosed leq d C ck (mapSet (idxMap s.elems C) v) := by
  refine ⟨(idxMap_lt hk).2, nodup_mapSet _ _, fun x hx => ?_⟩
  obtain ⟨i, hi, hix⟩ := mem_mapSet.mp hx
  rw [ltD_idxMap hs.nodup d hix hk]
  exact ((hs.closedOk d k v hl).2.2 i).mp hi

theorem goodClosed_union {d : Dir} {C : List α} {ck : Nat} {x y : List Nat}
    (hx : GoodClosed leq d C ck x) (hy : GoodClosed leq d C ck y) : GoodClosed leq d C ck (setUnion x y) := by
  refine ⟨hx.1, nodup_setUnion hx.2.1 hy.2.1, fun z hz => ?_⟩
  rcases mem_setUnion.mp hz with h | h
  · exact hx.2.2 z h
  · exact hy.2.2 z h

theorem closed_good {a b : St α} (ha : CacheExact leq a) (hb : CacheExact leq b) (C : List α) (d : Dir) :
    ∀ ck cv, alookup ck (combineSet (a.closed d) a.elems (b.closed d) b.elems C) = some cv →
      GoodClosed leq d C ck cv :=
  combineSet_good _ _ _ _ _ (GoodClosed leq d C) (fun _ _ _ => goodClosed_union)
    (fun _ _ _ hl hk => goodClosed_mapped ha hl hk) (fun _ _ _ hl hk => goodClosed_mapped hb hl hk)

/-- an entry that stems from a key cached in the first operand contains every strict relative whose element
    belongs to the first operand -/
theorem completeA {a b : St α} (ha : CacheExact leq a) {C : List α} (hC : C.Nodup) {d : Dir} {k ck : Nat}
    {v cv : List Nat} (hl : alookup k (a.closed d) = some v) (hk : idxMap a.elems C k = some ck)
    (hcv : alookup ck (combineSet (a.closed d) a.elems (b.closed d) b.elems C) = some cv)
    {x : Nat} {e : α} (hx : ltD leq d C x ck = true) (hxe : C[x]? = some e) (he : e ∈ a.elems) : x ∈ cv := by
  obtain ⟨cv', h1, hsub⟩ := combineSet_fromA (a.closed d) a.elems (b.closed d) b.elems C hl hk
  rw [hcv] at h1; cases h1
  obtain ⟨i, hi⟩ := idxMap_surj hC hxe he
  apply hsub
  rw [mem_mapSet]
  refine ⟨i, ?_, hi⟩
  rw [(ha.closedOk d k v hl).2.2 i, ← ltD_idxMap ha.nodup d hi hk]
  exact hx

theorem completeB {a b : St α} (hb : CacheExact leq b) {C : List α} (hC : C.Nodup) {d : Dir} {k ck : Nat}
    {v cv : List Nat} (hl : alookup k (b.closed d) = some v) (hk : idxMap b.elems C k = some ck)
    (hcv : alookup ck (combineSet (a.closed d) a.elems (b.closed d) b.elems C) = some cv)
    {x : Nat} {e : α} (hx : ltD leq d C x ck = true) (hxe : C[x]? = some e) (he : e ∈ b.elems) : x ∈ cv := by
  obtain ⟨cv', h1, hsub⟩ := combineSet_fromB (a.closed d) a.elems (b.closed d) b.elems C hl hk
  rw [hcv] at h1; cases h1
  obtain ⟨i, hi⟩ := idxMap_surj hC hxe he
  apply hsub
  rw [mem_mapSet]
  refine ⟨i, ?_, hi⟩
  rw [(hb.closedOk d k v hl).2.2 i, ← ltD_idxMap hb.nodup d hi hk]
  exact hx

/-- every entry of a closed cache over `C` is the `Fresh` value -/
def ClosedExactC (leq : α → α → Bool) (d : Dir) (C : List α) (cl : Cache) : Prop :=
  ∀ k v, alookup k cl = some v → k < C.length ∧ v.Nodup ∧ ∀ x, x ∈ v ↔ ltD leq d C x k = true

theorem filterKeysE_ok {keep : Nat → Except PyErr Bool} : ∀ {c c' : Cache}, filterKeysE keep c = .ok c' →
    ∀ k v, alookup k c' = some v → alookup k c = some v ∧ keep k = .ok true := by
  intro c
  induction c with
  | nil =>
    intro c' h k v hl
    simp only [filterKeysE] at h
    cases h
    simp at hl
  | cons p rest ih =>
    intro c' h k v hl
    obtain ⟨pk, pv⟩ := p
    simp only [filterKeysE] at h
    cases hkp : keep pk with
    | error e => rw [hkp] at h; cases h
    | ok bb =>
      rw [hkp] at h
      cases hr : filterKeysE keep rest with
      | error e => rw [hr] at h; cases h
      | ok r =>
        rw [hr] at h
        simp only [Except.ok.injEq] at h
        subst h
        cases bb with
        | true =>
          simp only [↓reduceIte, alookup_cons] at hl ⊢
          by_cases e : k = pk
          · subst e
            simp only [↓reduceIte] at hl ⊢
            exact ⟨hl, hkp⟩
          · simp only [e, ↓reduceIte] at hl ⊢
            exact ih hr k v hl
        | false =>
          simp only [Bool.false_eq_true, ↓reduceIte] at hl
          obtain ⟨h1, h2⟩ := ih hr k v hl
          refine ⟨?_, h2⟩
          rw [alookup_cons]
          by_cases e : k = pk
          · subst e
            rw [hkp] at h2; cases h2
          · simp [e, h1]

theorem keepE_true {a b : St α} {C : List α} {d : Dir} {idx : Nat} (h : keepE a b C d idx = .ok true) :
    ∃ el ia ib va vb, C[idx]? = some el ∧ el ∈ a.elems ∧ el ∈ b.elems ∧
      dictIdx? el a.elems = some ia ∧ alookup ia (a.closed d) = some va ∧
      dictIdx? el b.elems = some ib ∧ alookup ib (b.closed d) = some vb := by
  unfold keepE at h
  split at h
  · cases h
  · rename_i el hel
    split at h
    · rename_i hmem
      split at h
      · cases h
      · rename_i ia hia
        split at h
        · rename_i hsa
          split at h
          · cases h
          · rename_i ib hib
            simp only [Except.ok.injEq] at h
            obtain ⟨va, hva⟩ := Option.isSome_iff_exists.mp hsa
            obtain ⟨vb, hvb⟩ := Option.isSome_iff_exists.mp h
            exact ⟨el, ia, ib, va, vb, hel, hmem.1, hmem.2, hia, hva, hib, hvb⟩
        · cases h
    · cases h

theorem combineClosed_exact {a b : St α} (ha : CacheExact leq a) (hb : CacheExact leq b) (op : SetOp)
    {C : List α} (hC : C = combineElems op a.elems b.elems) (d : Dir) {cl : Cache}
    (h : combineClosed op a b C d = .ok cl) : ClosedExactC leq d C cl := by
  have hCn : C.Nodup := hC ▸ nodup_combineElems op ha.nodup hb.nodup
  have hgood := closed_good ha hb C d
  -- completeness of an entry of the combined cache, given where the strict relatives' elements live
  unfold combineClosed at h
  intro k v hl
  by_cases hdrop : op.dropNotCommon = true
  · -- `|`, `^`: kept only when common and cached in both operands
    simp only [hdrop, ↓reduceIte] at h
    obtain ⟨hl', hkeep⟩ := filterKeysE_ok h k v hl
    obtain ⟨hk, hnd, hsound⟩ := hgood k v hl'
    refine ⟨hk, hnd, fun x => ⟨hsound x, fun hx => ?_⟩⟩
    obtain ⟨el, ia, ib, va, vb, hel, hea, heb, hia, hva, hib, hvb⟩ := keepE_true hkeep
    have hka : idxMap a.elems C ia = some k := idxMap_of_elems hCn (dictIdx?_some hia) hel
    have hkb : idxMap b.elems C ib = some k := idxMap_of_elems hCn (dictIdx?_some hib) hel
    have hxl := (ltD_lt hx).1
    have hxe : C[x]? = some C[x] := List.getElem?_eq_getElem hxl
    have hmem : C[x] ∈ combineElems op a.elems b.elems := hC ▸ List.getElem_mem hxl
    rcases combineElems_sub op _ _ _ hmem with he | he
    · exact completeA ha hCn hva hka hl' hx hxe he
    · exact completeB hb hCn hvb hkb hl' hx hxe he
  · -- `&`, `-`
    simp only [hdrop, Bool.false_eq_true, ↓reduceIte, Except.ok.injEq] at h
    subst h
    obtain ⟨hk, hnd, hsound⟩ := hgood k v hl
    refine ⟨hk, hnd, fun x => ⟨hsound x, fun hx => ?_⟩⟩
    have hxl := (ltD_lt hx).1
    have hxe : C[x]? = some C[x] := List.getElem?_eq_getElem hxl
    have hmem : C[x] ∈ combineElems op a.elems b.elems := hC ▸ List.getElem_mem hxl
    rw [mem_combineElems] at hmem
    rcases combineSet_origin _ _ _ _ _ hl with ⟨ka, va, hva, hka⟩ | ⟨kb, vb, hvb, hkb⟩
    · have he : C[x] ∈ a.elems := by
        cases op <;> simp only [SetOp.sem] at hmem
        · exact hmem.1
        · exact absurd rfl hdrop
        · exact absurd rfl hdrop
        · exact hmem.1
      exact completeA ha hCn hva hka hl hx hxe he
    · cases op
      · exact completeB hb hCn hvb hkb hl hx hxe (by simpa [SetOp.sem] using hmem.2)
      · exact absurd rfl hdrop
      · exact absurd rfl hdrop
      · -- `-`: no key of the second operand maps into the result
        exfalso
        obtain ⟨e', h1, h2⟩ := idxMap_some hkb
        have hin : e' ∈ combineElems .sub a.elems b.elems := hC ▸ List.mem_of_getElem? h2
        rw [mem_combineElems] at hin
        exact hin.2 (List.mem_of_getElem? h1)

/-! ### the direct relations -/

theorem leqNocache_ok {E : List α} {i j : Nat} {r : Bool} (h : leqNocache leq E i j = .ok r) :
    r = rel leq E i j := by
  unfold leqNocache at h
  unfold rel
  split at h
  · rename_i x y hx hy
    rw [hx, hy]
    simpa using h.symm
  · cases h

theorem leqDirNocache_ok {d : Dir} {E : List α} {i j : Nat} {r : Bool} (h : leqDirNocache leq d E i j = .ok r) :
    r = relD leq d E i j := by
  cases d <;> exact leqNocache_ok h

theorem dominatedE_ok (d : Dir) (C : List α) (i : Nat) : ∀ (l : List Nat) (b : Bool),
    dominatedE leq d C i l = .ok b → (b = true ↔ ∃ j ∈ l, j ≠ i ∧ relD leq d C i j = true) := by
  intro l
  induction l with
  | nil =>
    intro b h
    simp only [dominatedE, Except.ok.injEq] at h
    subst h
    simp
  | cons j js ih =>
    intro b h
    simp only [dominatedE] at h
    by_cases hji : j = i
    · simp only [hji, ↓reduceIte] at h
      rw [ih b h]
      constructor
      · rintro ⟨j', hj', hne, hr⟩
        exact ⟨j', List.mem_cons_of_mem _ hj', hne, hr⟩
      · rintro ⟨j', hj', hne, hr⟩
        rcases List.mem_cons.mp hj' with e | hj''
        · exact absurd (e.trans hji) hne
        · exact ⟨j', hj'', hne, hr⟩
    · simp only [hji, ↓reduceIte] at h
      cases hq : leqDirNocache leq d C i j with
      | error e => rw [hq] at h; cases h
      | ok r =>
        rw [hq] at h
        have hr := leqDirNocache_ok hq
        cases r with
        | true =>
          simp only [Except.ok.injEq] at h
          subst h
          simp only [true_iff]
          exact ⟨j, List.mem_cons_self, hji, hr.symm⟩
        | false =>
          simp only at h
          rw [ih b h]
          constructor
          · rintro ⟨j', hj', hne, hr'⟩
            exact ⟨j', List.mem_cons_of_mem _ hj', hne, hr'⟩
          · rintro ⟨j', hj', hne, hr'⟩
            rcases List.mem_cons.mp hj' with e | hj''
            · subst e
              rw [← hr] at hr'; cases hr'
            · exact ⟨j', hj'', hne, hr'⟩

theorem maximalE_ok (d : Dir) (C : List α) (rels : List Nat) : ∀ (is r : List Nat),
    maximalE leq d C rels is = .ok r →
      (∀ x, x ∈ r ↔ x ∈ is ∧ dominatedE leq d C x rels = .ok false) ∧
      (∀ x ∈ is, ∃ b, dominatedE leq d C x rels = .ok b) ∧ (is.Nodup → r.Nodup) := by
  intro is
  induction is with
  | nil =>
    intro r h
    simp only [maximalE, Except.ok.injEq] at h
    subst h
    simp
  | cons i is' ih =>
    intro r h
    simp only [maximalE] at h
    cases hd : dominatedE leq d C i rels with
    | error e => rw [hd] at h; cases h
    | ok b =>
      rw [hd] at h
      cases hm : maximalE leq d C rels is' with
      | error e => rw [hm] at h; cases h
      | ok r' =>
        rw [hm] at h
        simp only [Except.ok.injEq] at h
        obtain ⟨ih1, ih2, ih3⟩ := ih r' hm
        refine ⟨fun x => ?_, fun x hx => ?_, fun hnd => ?_⟩
        · cases b with
          | true =>
            simp only [↓reduceIte] at h
            subst h
            rw [ih1 x, List.mem_cons]
            constructor
            · rintro ⟨h1, h2⟩; exact ⟨Or.inr h1, h2⟩
            · rintro ⟨h1 | h1, h2⟩
              · subst h1; rw [hd] at h2; cases h2
              · exact ⟨h1, h2⟩
          | false =>
            simp only [Bool.false_eq_true, ↓reduceIte] at h
            subst h
            rw [List.mem_cons, List.mem_cons, ih1 x]
            constructor
            · rintro (h1 | ⟨h1, h2⟩)
              · subst h1; exact ⟨Or.inl rfl, hd⟩
              · exact ⟨Or.inr h1, h2⟩
            · rintro ⟨h1 | h1, h2⟩
              · exact Or.inl h1
              · exact Or.inr ⟨h1, h2⟩
        · rcases List.mem_cons.mp hx with e | hx'
          · subst e; exact ⟨b, hd⟩
          · exact ih2 x hx'
        · have hnd' := List.nodup_cons.mp hnd
          have hr' := ih3 hnd'.2
          cases b with
          | true => simp only [↓reduceIte] at h; subst h; exact hr'
          | false =>
            simp only [Bool.false_eq_true, ↓reduceIte] at h
            subst h
            exact List.nodup_cons.mpr ⟨fun hin => hnd'.1 ((ih1 i).mp hin).1, hr'⟩

theorem directLoop_ok (d : Dir) (C : List α) (keys : List Nat) : ∀ (L : List (Nat × List Nat)) (acc r : Cache),
    directLoop leq d C keys acc L = .ok r → ∀ k v, alookup k r = some v →
      alookup k acc = some v ∨ ∃ rels, (k, rels) ∈ L ∧ maximalE leq d C rels rels = .ok v := by
  intro L
  induction L with
  | nil =>
    intro acc r h k v hl
    simp only [directLoop, Except.ok.injEq] at h
    subst h
    exact Or.inl hl
  | cons p rest ih =>
    intro acc r h k v hl
    obtain ⟨idx, rels⟩ := p
    simp only [directLoop] at h
    split at h
    · cases hm : maximalE leq d C rels rels with
      | error e => rw [hm] at h; cases h
      | ok dir =>
        rw [hm] at h
        rcases ih _ r h k v hl with h' | ⟨rels', hmem, hmx⟩
        · rw [alookup_ainsert] at h'
          split at h'
          · rename_i e; subst e
            cases h'
            exact Or.inr ⟨rels, List.mem_cons_self, hm⟩
          · exact Or.inl h'
        · exact Or.inr ⟨rels', List.mem_cons_of_mem _ hmem, hmx⟩
    · rcases ih _ r h k v hl with h' | ⟨rels', hmem, hmx⟩
      · exact Or.inl h'
      · exact Or.inr ⟨rels', List.mem_cons_of_mem _ hmem, hmx⟩

/-- every entry of a direct cache over `C` is the `Fresh` value -/
def DirectExactC (leq : α → α → Bool) (d : Dir) (C : List α) (dc : Cache) : Prop :=
  ∀ k v, alookup k dc = some v → k < C.length ∧ v.Nodup ∧ ∀ x, x ∈ v ↔ isCover leq d C x k = true

/-- the maximal elements of an exact strict down-set (up-set) are exactly the lower (upper) covers -/
theorem combineDirect_exact {a b : St α} {C : List α} {d : Dir} {cl dc : Cache} (hcl : ClosedExactC leq d C cl)
    (h : combineDirect leq a b C d cl = .ok dc) : DirectExactC leq d C dc := by
  unfold combineDirect at h
  intro k v hl
  rcases directLoop_ok d C _ _ _ _ h k v hl with h' | ⟨rels, hmem, hmx⟩
  · simp at h'
  · obtain ⟨hk, hnd, hex⟩ := hcl k rels (mem_items.mp hmem)
    obtain ⟨m1, m2, m3⟩ := maximalE_ok d C rels rels v hmx
    refine ⟨hk, m3 hnd, fun x => ?_⟩
    rw [m1 x, isCover_iff]
    constructor
    · rintro ⟨hx, hdom⟩
      refine ⟨(hex x).mp hx, fun z hz1 hz2 => ?_⟩
      have := (dominatedE_ok d C x rels false hdom).mpr
        ⟨z, (hex z).mpr hz2, fun e => (ltD_iff.mp hz1).2 e.symm, (ltD_iff.mp hz1).1⟩
      cases this
    · rintro ⟨hx, hno⟩
      have hxr := (hex x).mpr hx
      obtain ⟨bb, hb⟩ := m2 x hxr
      cases bb with
      | false => exact ⟨hxr, hb⟩
      | true =>
        exfalso
        obtain ⟨j, hj, hne, hr⟩ := (dominatedE_ok d C x rels true hb).mp rfl
        exact hno j (ltD_iff.mpr ⟨hr, fun e => hne e.symm⟩) ((hex j).mp hj)

/-! ### the comparison cache -/

def GoodLeq (leq : α → α → Bool) (C : List α) (ck : Nat × Nat) (r : Bool) : Prop :=
  ck.1 < C.length ∧ ck.2 < C.length ∧ r = rel leq C ck.1 ck.2

theorem mapPair_some {m : Nat → Option Nat} {k ck : Nat × Nat} (h : mapPair m k = some ck) :
    m k.1 = some ck.1 ∧ m k.2 = some ck.2 := by
  unfold mapPair at h
  cases h1 : m k.1 with
  | none => simp [h1] at h
  | some x =>
    cases h2 : m k.2 with
    | none => simp [h1, h2] at h
    | some y =>
      simp only [h1, h2, Option.some.injEq] at h
      subst h
      exact ⟨rfl, rfl⟩

theorem goodLeq_mapped {s : St α} (hs : CacheExact leq s) {C : List α} {k ck : Nat × Nat} {v : Bool}
    (hl : alookup k s.leqC = some v) (hk : mapPair (idxMap s.elems C) k = some ck) : GoodLeq leq C ck (id v) := by
  obtain ⟨h1, h2⟩ := mapPair_some hk
  obtain ⟨_, _, hv⟩ := hs.leqOk k.1 k.2 v hl
  exact ⟨(idxMap_lt h1).2, (idxMap_lt h2).2, by rw [rel_idxMap h1 h2]; exact hv⟩

theorem combineLeq_good {a b : St α} (ha : CacheExact leq a) (hb : CacheExact leq b) (C : List α) :
    ∀ ck r, alookup ck (combineLeq a.leqC a.elems b.leqC b.elems C) = some r → GoodLeq leq C ck r := by
  rw [combineLeq_eq]
  apply combineLoop_good _ _ _ (GoodLeq leq C) (fun _ _ _ hx _ => hx)
  · intro k v ck hm hk; exact goodLeq_mapped hb (mem_items.mp hm) hk
  · apply combineLoop_good _ _ _ (GoodLeq leq C) (fun _ _ _ hx _ => hx)
    · intro k v ck hm hk; exact goodLeq_mapped ha (mem_items.mp hm) hk
    · intro ck cv h; simp at h

/-! ### `_combine_multiple_caches` -/

/-- structure of a normal result, whatever the caches hold -/
theorem combineMulti_shape {a b : St α} {op : SetOp} {C : List α} {r : St α}
    (h : combineMulti leq op a b C = .ok r) : r.elems = C ∧ r.useCache = true := by
  cases hde : combineClosed op a b C .desc with
  | error e => simp [combineMulti, hde] at h
  | ok de =>
    cases han : combineClosed op a b C .anc with
    | error e => simp [combineMulti, hde, han] at h
    | ok an =>
      cases hch : combineDirect leq a b C .desc de with
      | error e => simp [combineMulti, hde, han, hch] at h
      | ok ch =>
        cases hpa : combineDirect leq a b C .anc an with
        | error e => simp [combineMulti, hde, han, hch, hpa] at h
        | ok pa =>
          simp only [combineMulti, hde, han, hch, hpa, Except.ok.injEq] at h
          subst h
          exact ⟨rfl, rfl⟩

/-- the result of an operator has the combined element list and the cache flag of the first operand -/
theorem combine_shape {op : SetOp} {same : Bool} {a b r : St α} (h : combine leq op same a b = .ok r) :
    r.elems = combineElems op a.elems b.elems ∧ r.useCache = a.useCache ∧ same = true := by
  unfold combine at h
  split at h
  · rename_i hs
    split at h
    · rename_i hc
      obtain ⟨h1, h2⟩ := combineMulti_shape h
      exact ⟨h1, by rw [h2, hc], hs⟩
    · rename_i hc
      simp only [Except.ok.injEq] at h
      subst h
      exact ⟨rfl, by simp [init, hc], hs⟩
  · cases h

theorem combineMulti_exact {a b : St α} (ha : CacheExact leq a) (hb : CacheExact leq b) (op : SetOp)
    {C : List α} (hC : C = combineElems op a.elems b.elems) {r : St α}
    (h : combineMulti leq op a b C = .ok r) : CacheExact leq r ∧ r.elems = C ∧ r.useCache = true := by
  cases hde : combineClosed op a b C .desc with
  | error e => simp [combineMulti, hde] at h
  | ok de =>
    cases han : combineClosed op a b C .anc with
    | error e => simp [combineMulti, hde, han] at h
    | ok an =>
      cases hch : combineDirect leq a b C .desc de with
      | error e => simp [combineMulti, hde, han, hch] at h
      | ok ch =>
        cases hpa : combineDirect leq a b C .anc an with
        | error e => simp [combineMulti, hde, han, hch, hpa] at h
        | ok pa =>
          simp only [combineMulti, hde, han, hch, hpa, Except.ok.injEq] at h
          subst h
          have e1 := combineClosed_exact ha hb op hC .desc hde
          have e2 := combineClosed_exact ha hb op hC .anc han
          have e3 := combineDirect_exact e1 hch
          have e4 := combineDirect_exact e2 hpa
          refine ⟨⟨hC ▸ nodup_combineElems op ha.nodup hb.nodup, fun x y rr hl => ?_, fun d k v hl => ?_,
            fun d k v hl => ?_⟩, rfl, rfl⟩
          · exact combineLeq_good ha hb C (x, y) rr hl
          · cases d
            · exact e1 k v hl
            · exact e2 k v hl
          · cases d
            · exact e3 k v hl
            · exact e4 k v hl

end
end Fca.Poset

/-
  Lemmas/PosetDel2 — `decrement_dict`: removing index `k` and shifting commutes with `Fresh`;
  the specification of `__delitem__` and `remove`.
-/
import Fca.Lemmas.PosetDel
set_option linter.unusedSectionVars false
namespace Fca.Poset
open Fca Fca.Poset.Fresh

section
variable {α : Type} [DecidableEq α] {leq : α → α → Bool} {ord : List Nat → List Nat}
variable {E : List α}

/-- position in `E` of the element at position `i` of `E.eraseIdx k` -/
def up (k i : Nat) : Nat := if i < k then i else i + 1

theorem decr_up (k i : Nat) : decrIdx (up k i) k = i := by
  unfold decrIdx up; split <;> split <;> omega

theorem up_decr {k x : Nat} (h : x ≠ k) : up k (decrIdx x k) = x := by
  unfold decrIdx up; split <;> split <;> omega

theorem up_ne (k i : Nat) : up k i ≠ k := by
  unfold up; split <;> omega

theorem up_inj {k i j : Nat} (h : up k i = up k j) : i = j := by
  unfold up at h; split at h <;> split at h <;> omega

theorem up_lt {k i n : Nat} (hk : k < n) (hi : i < n - 1) : up k i < n := by
  unfold up; split <;> omega

theorem decr_lt {k x n : Nat} (hx : x < n) (hxk : x ≠ k) (hk : k < n) : decrIdx x k < n - 1 := by
  unfold decrIdx; split <;> omega

theorem getElem?_eraseIdx_up (k i : Nat) : (E.eraseIdx k)[i]? = E[up k i]? := by
  unfold up
  rw [List.getElem?_eraseIdx]
  split <;> rfl

theorem rel_eraseIdx (k i j : Nat) : rel leq (E.eraseIdx k) i j = rel leq E (up k i) (up k j) := by
  unfold rel
  rw [getElem?_eraseIdx_up, getElem?_eraseIdx_up]

theorem filterMap_congr' {β γ : Type} {f g : β → Option γ} {l : List β} (h : ∀ p ∈ l, f p = g p) :
    l.filterMap f = l.filterMap g := by
  induction l with
  | nil => rfl
  | cons a l ih =>
    rw [List.filterMap_cons, List.filterMap_cons, h a List.mem_cons_self,
      ih (fun p hp => h p (List.mem_cons_of_mem _ hp))]

theorem nodup_map_of_injOn {f : Nat → Nat} {l : List Nat} (hl : l.Nodup)
    (hf : ∀ a ∈ l, ∀ b ∈ l, f a = f b → a = b) : (l.map f).Nodup := by
  induction l with
  | nil => simp
  | cons a l ih =>
    rw [List.map_cons, List.nodup_cons]
    rw [List.nodup_cons] at hl
    refine ⟨?_, ih hl.2 (fun x hx y hy => hf x (List.mem_cons_of_mem _ hx) y (List.mem_cons_of_mem _ hy))⟩
    intro hm
    obtain ⟨b, hb, hab⟩ := List.mem_map.mp hm
    have := hf b (List.mem_cons_of_mem _ hb) a List.mem_cons_self hab
    subst this
    exact hl.1 hb

theorem ltD_eraseIdx (d : Dir) (k i j : Nat) :
    ltD leq d (E.eraseIdx k) i j = ltD leq d E (up k i) (up k j) := by
  unfold ltD relD
  have : (i != j) = (up k i != up k j) := by
    rw [Bool.eq_iff_iff]
    simp only [bne_iff_ne, ne_eq]
    exact ⟨fun h e => h (up_inj e), fun h e => h (by rw [e])⟩
  cases d <;> simp only [rel_eraseIdx, this]

theorem isCover_eraseIdx (d : Dir) (k x j : Nat) :
    isCover leq d (E.eraseIdx k) x j = true ↔ coverK leq d E k (up k x) (up k j) := by
  rw [isCover_iff, coverK, ltD_eraseIdx]
  constructor
  · rintro ⟨h1, h2⟩
    refine ⟨h1, fun z hz hz1 hz2 => h2 (decrIdx z k) ?_ ?_⟩
    · rw [ltD_eraseIdx, up_decr hz]; exact hz1
    · rw [ltD_eraseIdx, up_decr hz]; exact hz2
  · rintro ⟨h1, h2⟩
    refine ⟨h1, fun z hz1 hz2 => h2 (up k z) (up_ne k z) ?_ ?_⟩
    · rw [← ltD_eraseIdx]; exact hz1
    · rw [← ltD_eraseIdx]; exact hz2

/-! ### the decremented dictionaries -/

theorem decrementCache_eq (c : Cache) (k : Nat) :
    decrementCache c k = c.filterMap fun p =>
      if (fun j => decide (j ≠ k)) p.1 then
        some ((fun j => decrIdx j k) p.1, (fun v : List Nat => (v.filter (fun i => i ≠ k)).map (fun i => decrIdx i k)) p.2)
      else none := by
  unfold decrementCache
  apply filterMap_congr'
  intro p _
  by_cases h : p.1 = k <;> simp [h]

theorem decr_inj {k a b : Nat} (ha : a ≠ k) (hb : b ≠ k) (h : decrIdx a k = decrIdx b k) : a = b := by
  unfold decrIdx at h; split at h <;> split at h <;> omega

theorem alookup_decrementCache {c : Cache} {k j' : Nat} {v' : List Nat}
    (h : alookup j' (decrementCache c k) = some v') :
    ∃ j v, j ≠ k ∧ decrIdx j k = j' ∧ alookup j c = some v ∧
      v' = (v.filter (fun i => i ≠ k)).map (fun i => decrIdx i k) := by
  rw [decrementCache_eq] at h
  obtain ⟨j, v, hk, hj, hl, hv⟩ := alookup_filterMap_some (fun j => decide (j ≠ k)) (fun j => decrIdx j k)
    (fun v : List Nat => (v.filter (fun i => i ≠ k)).map (fun i => decrIdx i k)) c j' v' h
  exact ⟨j, v, by simpa using hk, hj, hl, hv.symm⟩

theorem mem_decrVal {v : List Nat} {k x' : Nat} :
    x' ∈ (v.filter (fun i => i ≠ k)).map (fun i => decrIdx i k) ↔ up k x' ∈ v := by
  simp only [List.mem_map, List.mem_filter, decide_eq_true_eq]
  constructor
  · rintro ⟨x, ⟨hx, hxk⟩, rfl⟩
    rw [up_decr hxk]; exact hx
  · intro h
    exact ⟨up k x', ⟨h, up_ne k x'⟩, decr_up k x'⟩

theorem nodup_decrVal {v : List Nat} (k : Nat) (hv : v.Nodup) :
    ((v.filter (fun i => i ≠ k)).map (fun i => decrIdx i k)).Nodup := by
  apply nodup_map_of_injOn (hv.filter _)
  intro a ha b hb hab
  simp only [List.mem_filter, decide_eq_true_eq] at ha hb
  exact decr_inj ha.2 hb.2 hab

theorem alookup_decrementLeq {c : List ((Nat × Nat) × Bool)} {k a' b' : Nat} {r : Bool}
    (h : alookup (a', b') (decrementLeq c k) = some r) :
    ∃ a b, a ≠ k ∧ b ≠ k ∧ decrIdx a k = a' ∧ decrIdx b k = b' ∧ alookup (a, b) c = some r := by
  have e : decrementLeq c k = c.filterMap fun p =>
      if (fun q : Nat × Nat => decide (q.1 ≠ k) && decide (q.2 ≠ k)) p.1 then
        some ((fun q : Nat × Nat => (decrIdx q.1 k, decrIdx q.2 k)) p.1, (fun b : Bool => b) p.2)
      else none := by
    unfold decrementLeq
    apply filterMap_congr'
    intro p _
    by_cases h1 : p.1.1 = k <;> by_cases h2 : p.1.2 = k <;> simp [h1, h2]
  rw [e] at h
  obtain ⟨q, v, hk, hj, hl, hv⟩ := alookup_filterMap_some
    (fun q : Nat × Nat => decide (q.1 ≠ k) && decide (q.2 ≠ k))
    (fun q : Nat × Nat => (decrIdx q.1 k, decrIdx q.2 k)) (fun b : Bool => b) c (a', b') r h
  obtain ⟨a, b⟩ := q
  simp only [ne_eq, Bool.and_eq_true, decide_eq_true_eq, Prod.mk.injEq] at hk hj
  subst hv
  exact ⟨a, b, hk.1, hk.2, hj.1, hj.2, hl⟩

/-- `decrement_dict` on all five caches turns the caches left by `reconnect_relatives` into correct caches of
    the poset without element `k` -/
theorem decrement_inv {k : Nat} (hk : k < E.length) {s : St α} (h : InvR leq E k s)
    (he : s.elems = E.eraseIdx k) (hf : s.useCache = true) :
    InvB leq (E.eraseIdx k) Ghost.none true
      { s with leqC := decrementLeq s.leqC k, descC := decrementCache s.descC k,
               ancC := decrementCache s.ancC k, chilC := decrementCache s.chilC k,
               parC := decrementCache s.parC k } := by
  have hlen : (E.eraseIdx k).length = E.length - 1 := List.length_eraseIdx_of_lt hk
  refine InvB.ofOk he hf (fun _ => ?_) (fun _ => ?_) (fun _ => ?_)
  · intro a' b' r hl
    obtain ⟨a, b, hak, hbk, rfl, rfl, hl'⟩ := alookup_decrementLeq hl
    obtain ⟨h1, h2, h3⟩ := h.leqOk a b r hl'
    rw [hlen]
    refine ⟨decr_lt h1 hak hk, decr_lt h2 hbk hk, ?_⟩
    rw [rel_eraseIdx, up_decr hak, up_decr hbk]; exact h3
  · intro d j' v' hl
    have hl2 : alookup j' (decrementCache (s.closed d) k) = some v' := by cases d <;> exact hl
    obtain ⟨j, v, hjk, rfl, hl', rfl⟩ := alookup_decrementCache hl2
    obtain ⟨h1, h2, h3⟩ := h.closedOk d j v hl'
    rw [hlen]
    refine ⟨decr_lt h1 hjk hk, nodup_decrVal k h2, fun x' => ?_⟩
    rw [mem_decrVal, h3 hjk (up k x') (up_ne k x'), ltD_eraseIdx, up_decr hjk]
  · intro d j' v' hl
    have hl2 : alookup j' (decrementCache (s.direct d) k) = some v' := by cases d <;> exact hl
    obtain ⟨j, v, hjk, rfl, hl', rfl⟩ := alookup_decrementCache hl2
    obtain ⟨h1, h2, h3⟩ := h.directOk d j v hl'
    rw [hlen]
    refine ⟨decr_lt h1 hjk hk, nodup_decrVal k h2, fun x' => ?_⟩
    rw [mem_decrVal, h3 hjk (up k x') (up_ne k x'), isCover_eraseIdx, up_decr hjk]

/-! ### `__delitem__` and `remove` -/

variable (hpo : IdxPO leq E) (hord : ∀ l, (ord l).Perm l)
include hpo hord

theorem delE_spec {k : Nat} (hk : k < E.length) {c : Bool} {s : St α} (h : InvB leq E Ghost.none c s) :
    Sat (delE ord k) s (fun s' _ => InvB leq (E.eraseIdx k) Ghost.none c s') := by
  unfold delE
  apply sat_bind; apply sat_get
  rw [h.elems, if_pos hk]
  apply sat_bind; apply sat_modify
  by_cases hc : s.useCache = true
  · rw [if_pos hc]
    have hct : c = true := h.flag.symm.trans hc
    subst hct
    apply sat_bind
    rw [h.elems]
    apply sat_mono (reconnectRelatives_spec hpo hord (E.eraseIdx k) h)
    rintro s1 _ ⟨hR, he, hf⟩
    apply sat_modify
    exact decrement_inv hk hR he hf
  · rw [if_neg hc]
    apply sat_pure
    have hcf : c = false := by
      rw [← h.flag]; simpa using hc
    subst hcf
    exact InvB.ofOk (by rw [h.elems]) h.flag (fun e => (by cases e)) (fun e => (by cases e)) (fun e => (by cases e))

omit hpo hord in
theorem delE_error {k : Nat} {s : St α} (hk : ¬ k < s.elems.length) :
    delE ord k s = (s, .error .IndexError) := by
  unfold delE
  show M.bind M.get _ s = _
  unfold M.bind M.get
  simp only [if_neg hk]
  rfl

end
end Fca.Poset

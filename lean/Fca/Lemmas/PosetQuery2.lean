/-
  Lemmas/PosetQuery2 — `index`, `==`, `fill_up_*`.
-/
import Fca.Lemmas.PosetQuery
set_option linter.unusedSectionVars false
namespace Fca.Poset
open Fca Fca.Poset.Fresh

section
variable {α : Type} [DecidableEq α] {leq : α → α → Bool} {ord : List Nat → List Nat}
variable {E : List α} {G : Ghost} {c : Bool}

theorem indexOf?_some_of_mem {e : α} {l : List α} (h : e ∈ l) : ∃ i, indexOf? e l = some i := by
  induction l with
  | nil => cases h
  | cons x xs ih =>
    unfold indexOf?
    by_cases hx : e = x
    · exact ⟨0, by simp [hx]⟩
    · have : e ∈ xs := by
        rcases List.mem_cons.mp h with h | h
        · exact absurd h hx
        · exact h
      obtain ⟨i, hi⟩ := ih this
      exact ⟨i + 1, by simp [hx, hi]⟩

theorem indexOf?_none_of_not_mem {e : α} {l : List α} (h : e ∉ l) : indexOf? e l = none := by
  induction l with
  | nil => rfl
  | cons x xs ih =>
    unfold indexOf?
    have hx : e ≠ x := fun e' => h (e' ▸ List.mem_cons_self)
    have : e ∉ xs := fun h' => h (List.mem_cons_of_mem _ h')
    simp [hx, ih this]

theorem indexOf?_spec {e : α} {l : List α} {i : Nat} (h : indexOf? e l = some i) : l[i]? = some e := by
  induction l generalizing i with
  | nil => cases h
  | cons x xs ih =>
    unfold indexOf? at h
    by_cases hx : e = x
    · simp [hx] at h; subst h; simp [hx]
    · simp only [hx, ↓reduceIte, Option.map_eq_some_iff] at h
      obtain ⟨j, hj, rfl⟩ := h
      simpa using ih hj

theorem indexOf?_getElem {l : List α} (hnd : l.Nodup) {i : Nat} (hi : i < l.length) :
    indexOf? l[i] l = some i := by
  obtain ⟨j, hj⟩ := indexOf?_some_of_mem (List.getElem_mem hi)
  have := indexOf?_spec hj
  have hjl : j < l.length := (List.getElem?_eq_some_iff.mp this).1
  rw [List.getElem?_eq_getElem hjl, Option.some.injEq] at this
  rw [hj, (List.getElem_inj hnd).mp this]

theorem indexE_run (s : St α) (e : α) :
    (indexE e) s = (s, match indexOf? e s.elems with
      | some i => .ok i
      | none => .error .KeyError) := by
  unfold indexE
  show M.bind M.get _ s = _
  unfold M.bind M.get
  simp only
  cases indexOf? e s.elems <;> rfl

theorem setEq_congr {a a' b : List Nat} (h : ∀ x, x ∈ a ↔ x ∈ a') : setEq a b = setEq a' b := by
  unfold setEq
  rw [Bool.eq_iff_iff]
  simp only [Bool.and_eq_true, List.all_eq_true, decide_eq_true_eq]
  constructor
  · rintro ⟨h1, h2⟩; exact ⟨fun x hx => h1 x ((h x).mpr hx), fun x hx => (h x).mp (h2 x hx)⟩
  · rintro ⟨h1, h2⟩; exact ⟨fun x hx => h1 x ((h x).mp hx), fun x hx => (h x).mpr (h2 x hx)⟩

variable (hpo : IdxPO leq E)
include hpo

theorem eqLoop_spec (O : List α) (hEO : ∀ x ∈ E, x ∈ O) (l : List Nat) (hl : ∀ i ∈ l, i < E.length)
    {s : St α} (h : InvB leq E G c s) :
    Sat (eqLoop leq O l) s (fun s' r => InvB leq E G c s' ∧
      r = l.all (eqAt leq E O)) := by
  induction l generalizing s with
  | nil => exact sat_pure ⟨h, rfl⟩
  | cons i is ih =>
    have hi : i < E.length := hl i List.mem_cons_self
    unfold eqLoop
    apply sat_bind
    apply sat_get
    apply sat_bind
    apply sat_mono (closedE_spec hpo h .desc hi)
    rintro s1 mine ⟨h1, hmine⟩
    rw [h.elems]
    obtain ⟨oi, hoi⟩ := indexOf?_some_of_mem (hEO _ (List.getElem_mem hi))
    simp only [List.getElem?_eq_getElem hi, hoi, List.all_cons, eqAt]
    rw [setEq_congr hmine.2]
    split
    · rename_i hh
      rw [hh, Bool.true_and]
      exact ih (fun j hj => hl j (List.mem_cons_of_mem _ hj)) h1
    · rename_i hh
      apply sat_pure
      refine ⟨h1, ?_⟩
      simp only [Bool.not_eq_true] at hh
      rw [hh, Bool.false_and]

theorem eqE_spec (O : List α) {s : St α} (h : InvB leq E G c s) :
    Sat (eqE leq O) s (fun s' r => InvB leq E G c s' ∧ r = eqOther leq E O) := by
  unfold eqE
  apply sat_bind
  apply sat_get
  rw [h.elems]
  unfold eqOther
  split
  · rename_i hh
    rw [hh, Bool.true_and]
    have hEO : ∀ x ∈ E, x ∈ O := by
      simp only [Bool.and_eq_true, List.all_eq_true, decide_eq_true_eq] at hh
      exact hh.1
    exact eqLoop_spec hpo O hEO _ (fun i hi => List.mem_range.mp hi) h
  · rename_i hh
    simp only [Bool.not_eq_true] at hh
    rw [hh, Bool.false_and]
    exact sat_pure ⟨h, rfl⟩

/-! ### fill_up_* -/

theorem fillLeq_spec {s : St α} (h : InvB leq E G c s) :
    Sat (fillLeq leq) s (fun s' _ => InvB leq E G c s') := by
  unfold fillLeq
  apply sat_bind
  apply sat_get
  rw [h.elems]
  apply sat_forM (InvB leq E G c) _ _ ?_ s h
  intro i hi s1 h1
  apply sat_forM (InvB leq E G c) _ _ ?_ s1 h1
  intro j hj s2 h2
  apply sat_bind
  apply sat_get
  split
  · exact sat_pure h2
  · apply sat_bind
    apply sat_mono (leqE_spec hpo h2 (List.mem_range.mp hi) (List.mem_range.mp hj))
    rintro s3 r ⟨h3, _⟩
    exact sat_pure h3

theorem fillClosed_spec (d : Dir) {s : St α} (h : InvB leq E G c s) :
    Sat (fillClosed leq d) s (fun s' _ => InvB leq E G c s') := by
  unfold fillClosed
  apply sat_bind
  apply sat_get
  rw [h.elems]
  apply sat_forM (InvB leq E G c) _ _ ?_ s h
  intro i hi s1 h1
  apply sat_bind
  apply sat_mono (closedE_spec hpo h1 d (List.mem_range.mp hi))
  rintro s3 r ⟨h3, _⟩
  exact sat_pure h3

variable (hord : ∀ l, (ord l).Perm l)
include hord

theorem fillDirect_spec (d : Dir) {s : St α} (h : InvB leq E G c s) :
    Sat (fillDirect leq ord d) s (fun s' _ => InvB leq E G c s') := by
  unfold fillDirect
  apply sat_bind
  apply sat_get
  rw [h.elems]
  apply sat_forM (InvB leq E G c) _ _ ?_ s h
  intro i hi s1 h1
  apply sat_bind
  apply sat_mono (directE_spec hpo hord h1 d (List.mem_range.mp hi))
  rintro s3 r ⟨h3, _⟩
  exact sat_pure h3

theorem fillE_spec (k : FillKind) {s : St α} (h : InvB leq E G true s) :
    Sat (fillE leq ord k) s (fun s' _ => InvB leq E G true s') := by
  unfold fillE
  apply sat_bind
  apply sat_get
  rw [h.flag]
  simp only [↓reduceIte]
  cases k
  · exact fillLeq_spec hpo h
  · exact fillClosed_spec hpo .desc h
  · exact fillClosed_spec hpo .anc h
  · exact fillDirect_spec hpo hord .desc h
  · exact fillDirect_spec hpo hord .anc h
  · simp only
    apply sat_bind
    apply sat_mono (fillLeq_spec hpo h)
    intro s1 _ h1
    apply sat_bind
    apply sat_mono (fillClosed_spec hpo .desc h1)
    intro s2 _ h2
    apply sat_bind
    apply sat_mono (fillClosed_spec hpo .anc h2)
    intro s3 _ h3
    apply sat_bind
    apply sat_mono (fillDirect_spec hpo hord .desc h3)
    intro s4 _ h4
    exact fillDirect_spec hpo hord .anc h4

end
end Fca.Poset

/-
  Fca.Lemmas.MVHist — helper lemmas for property C14, part 4: named binarisation and histories of one context.
-/
import Fca.Model.MVHist
import Fca.Lemmas.MVBinarize
namespace Fca.MV
open Fca

theorem zipIdx_map_fst' {α β} (l : List α) (k : Nat) (f : α → β) :
    (l.zipIdx k).map (fun p => f p.1) = l.map f := by
  induction l generalizing k with
  | nil => rfl
  | cons x xs ih => simp [List.zipIdx_cons, ih]

theorem zipIdx_flatMap_fst {α β} (l : List α) (k : Nat) (f : α → List β) :
    (l.zipIdx k).flatMap (fun p => f p.1) = l.flatMap f := by
  induction l generalizing k with
  | nil => rfl
  | cons x xs ih => simp [List.zipIdx_cons, ih]

namespace MVCtx

/-- forgetting the names of the produced pairs gives the produced extents, in order — whatever the names are -/
theorem binAttrNamed_map_snd (K : MVCtx) (nm : Nat → Nat → String) :
    (K.binAttrNamed nm).map (·.2) = K.binAttrExtents := by
  unfold binAttrNamed binAttrExtents
  rw [List.map_flatMap]
  have : (fun cj : Col × Nat => (cj.1.binAttrExtents.zipIdx.map fun ek => (nm cj.2 ek.2, ek.1)).map (·.2))
      = fun cj => cj.1.binAttrExtents := by
    funext cj
    rw [List.map_map]
    exact (zipIdx_map_fst' cj.1.binAttrExtents 0 id).trans (List.map_id _)
  rw [this]
  exact zipIdx_flatMap_fst K.cols 0 Col.binAttrExtents

theorem binAttrNamed_length (K : MVCtx) (nm : Nat → Nat → String) :
    (K.binAttrNamed nm).length = K.binAttrExtents.length := by
  rw [← binAttrNamed_map_snd K nm, List.length_map]

end MVCtx

theorem Col.setCell_len (c : Col) (i : Nat) (v : Cell) : (c.setCell i v).len = c.len := by
  cases c <;> cases v <;> simp [Col.setCell, Col.len]

namespace MVCtx

theorem step_nObjects (K : MVCtx) (s : Step) : (K.step s).nObjects = K.nObjects := by
  cases s <;> rfl

theorem step_wf (K : MVCtx) (s : Step) (hwf : K.WF) (hv : s.Valid K) : (K.step s).WF := by
  cases s with
  | query q => exact hwf
  | setData j c =>
    intro c' hc'
    rcases List.mem_or_eq_of_mem_set hc' with h | h
    · exact hwf c' h
    · subst h; exact hv
  | setCell j i v =>
    intro c' hc'
    show c'.len = K.nObjects
    simp only [step] at hc'
    rw [List.mem_iff_getElem] at hc'
    obtain ⟨k, hk, rfl⟩ := hc'
    rw [List.getElem_modify]
    rw [List.length_modify] at hk
    split
    · rw [Col.setCell_len]; exact hwf _ (List.getElem_mem _)
    · exact hwf _ (List.getElem_mem _)
  | setPS cols => exact hv.2
  | setObjNames ns => exact hwf

theorem step_cols_ne_nil (K : MVCtx) (s : Step) (hc : K.cols ≠ []) (hv : s.Valid K) : (K.step s).cols ≠ [] := by
  cases s with
  | query q => exact hc
  | setData j c => simp [step, hc]
  | setCell j i v =>
    show K.cols.modify j _ ≠ []
    intro h
    have := congrArg List.length h
    rw [List.length_modify] at this
    exact hc (List.eq_nil_of_length_eq_zero this)
  | setPS cols => exact hv.1
  | setObjNames ns => exact hc

theorem run_invariants (K : MVCtx) (steps : List Step) (hwf : K.WF) (hc : K.cols ≠ []) (hv : K.HistValid steps) :
    (K.run steps).WF ∧ (K.run steps).cols ≠ [] ∧ (K.run steps).nObjects = K.nObjects := by
  induction steps generalizing K with
  | nil => exact ⟨hwf, hc, rfl⟩
  | cons s rest ih =>
    obtain ⟨h1, h2, h3⟩ := ih (K.step s) (K.step_wf s hwf hv.1) (K.step_cols_ne_nil s hc hv.1) hv.2
    exact ⟨h1, h2, h3.trans (K.step_nObjects s)⟩

end MVCtx
end Fca.MV

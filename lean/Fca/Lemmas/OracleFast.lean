/-
  Fca.Lemmas.OracleFast — `Spec.allConceptsFast` (enumeration over the smaller side) lists exactly the
  formal concepts, each once.
-/
import Fca.Lemmas.Galois
import Fca.Lemmas.CbONodup
import Fca.Spec.Miners
namespace Fca.Spec
open Fca

theorem mem_allConceptsFast (t : Table) (h : t.WF) {A B : List Nat} :
    (A, B) ∈ allConceptsFast t ↔ isConcept t A B = true := by
  unfold allConceptsFast
  split
  · exact mem_allConcepts t
  · rw [List.mem_map]
    constructor
    · rintro ⟨p, hp, he⟩
      simp only [Prod.mk.injEq] at he
      have : (p.1, p.2) ∈ allConcepts (transpose t) := hp
      rw [mem_allConcepts, isConcept_transpose t h, he.1, he.2] at this
      exact this
    · intro hc
      refine ⟨(B, A), ?_, rfl⟩
      rw [mem_allConcepts, isConcept_transpose t h]
      exact hc

theorem allConceptsFast_nodup (t : Table) : (allConceptsFast t).Nodup := by
  unfold allConceptsFast
  split
  · exact allConcepts_nodup t
  · apply CbOM.nodup_map_of_inj_on (allConcepts_nodup _)
    intro a _ b _ he
    simp only [Prod.mk.injEq] at he
    exact Prod.ext he.2 he.1

end Fca.Spec

/-
  Fca.Lemmas.ConstructPruned — two invariances behind the size-gated scenario class (H8):

  * the hypotheses of the C12 theorems are inherited by every SUB-LIST that keeps the greatest concept
    (`TreeInput.sublist`, `TopoSorted.sublist`): a pruned list needs no closure under intersection;
  * the specification, and with it every routine's result, depends on the extents only AS SETS
    (`covers_sameExtents`): the order in which a concept lists its objects, and the size of the object
    indexes, are irrelevant.
-/
import Fca.Lemmas.ConstructHyps
namespace Fca.Construct
open Fca.Spec

/-! ### extents as sets -/

/-- two listings of the same concepts: equally long, and position by position the same SET of objects -/
def SameExtents (cs cs' : List Ext) : Prop :=
  cs.length = cs'.length ∧ ∀ i, SameSetC (cs.getD i []) (cs'.getD i [])

theorem sub_congr {a a' b b' : List Nat} (ha : SameSetC a a') (hb : SameSetC b b') : sub a b = sub a' b' := by
  rw [Bool.eq_iff_iff, sub_iff, sub_iff]
  constructor
  · intro h x hx; exact (hb x).mp (h x ((ha x).mpr hx))
  · intro h x hx; exact (hb x).mpr (h x ((ha x).mp hx))

theorem ssubAt_sameExtents {cs cs' : List Ext} (h : SameExtents cs cs') : ssubAt cs = ssubAt cs' := by
  funext j i
  unfold ssubAt ssub
  rw [sub_congr (h.2 j) (h.2 i), sub_congr (h.2 i) (h.2 j)]

/-- the cover relation is a function of the extents as sets -/
theorem covers_sameExtents {cs cs' : List Ext} (h : SameExtents cs cs') : Spec.covers cs = Spec.covers cs' := by
  funext i
  unfold Spec.covers
  rw [ssubAt_sameExtents h, h.1]

theorem isTop_sameExtents {cs cs' : List Ext} (h : SameExtents cs cs') {t : Nat} (ht : IsTop cs t) : IsTop cs' t := by
  unfold IsTop at ht ⊢
  rw [← ssubAt_sameExtents h, ← h.1]
  exact ht

theorem topoSorted_sameExtents {cs cs' : List Ext} (h : SameExtents cs cs') (ht : TopoSorted cs) : TopoSorted cs' := by
  unfold TopoSorted at ht ⊢
  rw [← ssubAt_sameExtents h, ← h.1]
  exact ht

theorem isCoverDict_sameExtents {cs cs' : List Ext} (h : SameExtents cs cs') {out : List (List Nat)}
    (ho : IsCoverDict cs' out) : IsCoverDict cs out := by
  unfold IsCoverDict at ho ⊢
  rw [covers_sameExtents h, h.1]
  exact ho

/-! ### sub-lists -/

/-- the index view of a sub-list: a strictly increasing map of positions that preserves the entries -/
theorem sublist_index_view {cs cs' : List Ext} (h : cs'.Sublist cs) :
    ∃ f : Nat → Nat, (∀ i, i < cs'.length → f i < cs.length ∧ cs'.getD i [] = cs.getD (f i) []) ∧
      ∀ i j, i < j → j < cs'.length → f i < f j := by
  obtain ⟨is, hmap, hpw⟩ := List.sublist_eq_map_getElem h
  have hlen : cs'.length = is.length := by rw [hmap, List.length_map]
  refine ⟨fun i => if hi : i < is.length then (is[i]).val else 0, ?_, ?_⟩
  · intro i hi
    have hi' : i < is.length := hlen ▸ hi
    simp only [hi', dite_true]
    refine ⟨(is[i]).isLt, ?_⟩
    have h1 : cs'.getD i [] = cs'[i] := by simp [List.getD_eq_getElem?_getD, hi]
    have h2 : cs.getD (is[i]).val [] = cs[(is[i]).val] := by
      simp [List.getD_eq_getElem?_getD, (is[i]).isLt]
    rw [h1, h2]
    simp [hmap]
  · intro i j hij hj
    have hj' : j < is.length := hlen ▸ hj
    have hi' : i < is.length := Nat.lt_trans hij hj'
    simp only [hi', hj', dite_true]
    exact (List.pairwise_iff_getElem.mp hpw) i j hi' hj' hij

theorem extsNodup_sublist {cs cs' : List Ext} (h : cs'.Sublist cs) (hnd : ExtsNodup cs) : ExtsNodup cs' :=
  fun e he => hnd e (h.subset he)

theorem ssub_irrefl (a : List Nat) : ssub a a = false := by
  unfold ssub; cases sub a a <;> rfl

/-- a sub-list of a topologically sorted list is topologically sorted -/
theorem TopoSorted.sublist {cs cs' : List Ext} (h : cs'.Sublist cs) (ht : TopoSorted cs) : TopoSorted cs' := by
  obtain ⟨f, hf, hmono⟩ := sublist_index_view h
  intro i j hi hj hlt
  have hlt' : ssubAt cs (f j) (f i) = true := by
    unfold ssubAt at hlt ⊢
    rw [← (hf j hj).2, ← (hf i hi).2]; exact hlt
  have hfij := ht (f i) (f j) (hf i hi).1 (hf j hj).1 hlt'
  apply Classical.byContradiction
  intro hij
  rcases Nat.lt_or_eq_of_le (Nat.le_of_not_lt hij) with hji | hji
  · have := hmono j i hji hi; omega
  · subst hji; omega

/-- **pruning keeps the hypotheses**: any sub-list that still contains the greatest concept satisfies
    `TreeInput` again (with the new position of that concept) — no closure under intersection, no least
    concept, no relation between the kept concepts is asked for -/
theorem TreeInput.sublist {cs cs' : List Ext} {top : Nat} {isSorted : Bool} (hin : TreeInput cs top isSorted)
    (h : cs'.Sublist cs) (hkeep : cs.getD top [] ∈ cs') : ∃ top', TreeInput cs' top' isSorted := by
  obtain ⟨f, hf, hmono⟩ := sublist_index_view h
  obtain ⟨t', ht', htop'⟩ := List.getElem_of_mem hkeep
  have hgetD : cs'.getD t' [] = cs.getD top [] := by
    simp [List.getD_eq_getElem?_getD, ht', htop']
  -- the kept copy of the greatest concept sits at the image of `top`
  have hft : f t' = top := by
    apply Classical.byContradiction
    intro hne
    have := hin.top.2 (f t') (hf t' ht').1 hne
    unfold ssubAt at this
    rw [← (hf t' ht').2, hgetD, ssub_irrefl] at this
    cases this
  refine ⟨t', extsNodup_sublist h hin.nodup, ⟨ht', fun j hj hne => ?_⟩, fun hs => TopoSorted.sublist h (hin.sorted hs)⟩
  have hfj : f j ≠ top := by
    rw [← hft]
    intro heq
    rcases Nat.lt_or_gt_of_ne hne with hlt | hlt
    · have := hmono j t' hlt ht'; omega
    · have := hmono t' j hlt hj; omega
  have := hin.top.2 (f j) (hf j hj).1 hfj
  unfold ssubAt at this ⊢
  rw [(hf j hj).2, hgetD]; exact this

/-! ### intersection-closedness (only to SAY that it is not assumed) -/

/-- the list contains (as a set) the intersection of any two of its extents — what
    `order_extents_comparison` needs and the other routines do not -/
def interClosedB (cs : List Ext) : Bool :=
  cs.all fun a => cs.all fun b => cs.any fun c =>
    sub c (a.filter fun x => b.contains x) && sub (a.filter fun x => b.contains x) c

end Fca.Construct

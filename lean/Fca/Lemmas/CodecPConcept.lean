/-
  Fca.Lemmas.CodecPConcept — `PatternConcept.to_dict(json_ready=True) / from_dict(json_ready=True)` and
  lattices of pattern concepts (tree level).
-/
import Fca.Lemmas.CodecMVCxt
namespace Fca.Codec

/-- the class of pattern structure `k` of a concept (`AttributePS` when the lookup fails) -/
def tyInd (c : PConcept) (k : Nat) : PType :=
  match typeOfInd c.ptypes c.attrNames k with
  | .ok t => t
  | .error _ => .AttributePS

/-- the class of the pattern structure called `nm` -/
def tyName (c : PConcept) (nm : Str) : PType :=
  match typeOfName c.ptypes nm with
  | .ok t => t
  | .error _ => .AttributePS

/-- what `PatternConcept.to_dict(json_ready=True)` needs to give the concept back -/
structure PConceptOk (c : PConcept) : Prop where
  inds : ∀ kv ∈ c.intentI, typeOfInd c.ptypes c.attrNames kv.1 = .ok (tyInd c kv.1) ∧ Fits (tyInd c kv.1) kv.2
  names : ∀ kv ∈ c.intent, typeOfName c.ptypes kv.1 = .ok (tyName c kv.1) ∧ Fits (tyName c kv.1) kv.2
  ext_len : c.extentI.length = c.extent.length
  int_len : c.intentI.length = c.intent.length
  meas : ∀ kv ∈ c.measures, kv.1 ≠ "Ext".toList ∧ kv.1 ≠ "Int".toList

/-- the trusted text layer for the intent descriptions of `c` -/
structure PCodecOk (c : PConcept) : Prop where
  inds : ∀ kv ∈ c.intentI, loads (dumps (valTree (tyInd c kv.1) kv.2)) = some (valTree (tyInd c kv.1) kv.2)
  names : ∀ kv ∈ c.intent, loads (dumps (valTree (tyName c kv.1) kv.2)) = some (valTree (tyName c kv.1) kv.2)

def indsJ (c : PConcept) : List (Str × JV) :=
  c.intentI.map fun kv => (natRepr kv.1, jStr (cellText (tyInd c kv.1) kv.2))

def namesJ (c : PConcept) : List (Str × JV) :=
  c.intent.map fun kv => (kv.1, jStr (cellText (tyName c kv.1) kv.2))

theorem toJsonText_fits (t : PType) (v : PVal) (h : Fits t v) : toJsonText t v = .ok (cellText t v) :=
  encCell_fits t v h

theorem fromJsonText_cellText (t : PType) (v : PVal) (h : Fits t v)
    (hc : loads (dumps (valTree t v)) = some (valTree t v)) :
    fromJsonText t (jStr (cellText t v)) = .ok v := decCell_fits t v h hc

theorem encInd_ok (c : PConcept) (h : PConceptOk c) :
    mapME (encInd c.ptypes c.attrNames) c.intentI = .ok (indsJ c) := by
  apply mapME_ok
  intro kv hkv
  obtain ⟨h1, h2⟩ := h.inds kv hkv
  simp only [encInd, h1, Except.bind, toJsonText_fits _ _ h2]

theorem encName_ok (c : PConcept) (h : PConceptOk c) :
    mapME (encName c.ptypes) c.intent = .ok (namesJ c) := by
  apply mapME_ok
  intro kv hkv
  obtain ⟨h1, h2⟩ := h.names kv hkv
  simp only [encName, h1, Except.bind, toJsonText_fits _ _ h2]

theorem decInd_ok (c : PConcept) (h : PConceptOk c) (hc : PCodecOk c) :
    mapME (decInd c.ptypes c.attrNames) (indsJ c) = .ok c.intentI := by
  have := mapME_map_ok (decInd c.ptypes c.attrNames)
    (fun kv : Nat × PVal => (natRepr kv.1, jStr (cellText (tyInd c kv.1) kv.2))) id c.intentI (by
      intro kv hkv
      obtain ⟨h1, h2⟩ := h.inds kv hkv
      simp only [decInd, pyInt_natRepr, Except.bind, h1, fromJsonText_cellText _ _ h2 (hc.inds kv hkv), id])
  simpa [indsJ] using this

theorem decName_ok (c : PConcept) (h : PConceptOk c) (hc : PCodecOk c) :
    mapME (decName c.ptypes) (namesJ c) = .ok c.intent := by
  have := mapME_map_ok (decName c.ptypes)
    (fun kv : Str × PVal => (kv.1, jStr (cellText (tyName c kv.1) kv.2))) id c.intent (by
      intro kv hkv
      obtain ⟨h1, h2⟩ := h.names kv hkv
      simp only [decName, Except.bind, h1, fromJsonText_cellText _ _ h2 (hc.names kv hkv), id])
  simpa [namesJ] using this

theorem decPTypeEntry_ok (pt : List (Str × PType)) :
    mapME decPTypeEntry (pt.map fun p => (p.1, jStr p.2.name)) = .ok pt := by
  have := mapME_map_ok decPTypeEntry (fun p : Str × PType => (p.1, jStr p.2.name)) id pt (by
    intro p _
    simp only [decPTypeEntry, decPType, jStr, ofName_name, Except.bind, id])
  simpa using this

theorem attrNamesOf_ok (ns : List Str) : attrNamesOf (.arr (ns.map jStr)) = .ok ns := by
  have := mapME_map_ok asStrT jStr id ns (fun _ _ => rfl)
  simpa [attrNamesOf] using this

theorem pIntFields_entry (c : PConcept) (h : PConceptOk c) (hc : PCodecOk c) :
    pIntFields (pIntEntry (indsJ c) (namesJ c) c.intentI.length c.ptypes c.attrNames)
      = .ok (c.intentI, c.intent, c.ptypes, c.attrNames) := by
  have k1 : ∀ a b d e f : JV, JV.getKey (.obj [("Inds".toList, a), ("Names".toList, b), ("Count".toList, d),
      ("PTypes".toList, e), ("AttrNames".toList, f)]) "PTypes".toList = .ok e := by
    intros; simp [JV.getKey, JV.lookup]
  have k2 : ∀ a b d e f : JV, JV.getKey (.obj [("Inds".toList, a), ("Names".toList, b), ("Count".toList, d),
      ("PTypes".toList, e), ("AttrNames".toList, f)]) "Inds".toList = .ok a := by
    intros; simp [JV.getKey, JV.lookup]
  have k3 : ∀ a b d e f : JV, JV.getKey (.obj [("Inds".toList, a), ("Names".toList, b), ("Count".toList, d),
      ("PTypes".toList, e), ("AttrNames".toList, f)]) "AttrNames".toList = .ok f := by
    intros; simp [JV.getKey, JV.lookup]
  have k4 : ∀ a b d e f : JV, JV.getKey (.obj [("Inds".toList, a), ("Names".toList, b), ("Count".toList, d),
      ("PTypes".toList, e), ("AttrNames".toList, f)]) "Names".toList = .ok b := by
    intros; simp [JV.getKey, JV.lookup]
  simp only [pIntFields, pIntEntry, k1, k2, k3, k4, Except.bind, asObj, decPTypeEntry_ok, attrNamesOf_ok,
    decInd_ok c h hc, decName_ok c h hc]

theorem pExtFields_entry (inds : List Int) (names : List Str) :
    pExtFields (pExtEntry inds names) = .ok (inds, names) := by
  have h1 := mapME_map_ok asIntA JV.int id inds (fun _ _ => rfl)
  have h2 := mapME_map_ok asStrA jStr id names (fun _ _ => rfl)
  simp only [List.map_id] at h1 h2
  have k1 : ∀ a b d : JV, JV.getKey (.obj [("Inds".toList, a), ("Names".toList, b), ("Count".toList, d)])
      "Inds".toList = .ok a := by intros; simp [JV.getKey, JV.lookup]
  have k2 : ∀ a b d : JV, JV.getOpt (.obj [("Inds".toList, a), ("Names".toList, b), ("Count".toList, d)])
      "Names".toList = .ok (some b) := by intros; simp [JV.getOpt, JV.lookup]
  simp only [pExtFields, pExtEntry, k1, k2, Except.bind, Option.getD_some, h1, h2]

/-- the dict `to_dict(json_ready=True)` builds -/
def PConcept.dictKVs (c : PConcept) : List (Str × JV) :=
  JV.dictSet "Context_Hash".toList (jOptInt c.contextHash)
    (addMeasures c.measures
      [("Ext".toList, pExtEntry c.extentI c.extent),
       ("Int".toList, pIntEntry (indsJ c) (namesJ c) c.intentI.length c.ptypes c.attrNames),
       ("Supp".toList, jNat c.extentI.length)])

/-- what `from_dict` makes of it: the same concept, its measures extended by `Supp`, `Context_Hash` -/
def PConcept.readBack (c : PConcept) : PConcept :=
  ⟨c.extentI, c.extent, c.intentI, c.intent, c.ptypes, c.attrNames, measuresOf c.dictKVs, c.contextHash⟩

theorem pconcept_toDict (c : PConcept) (h : PConceptOk c) : c.toDict = .ok (.obj c.dictKVs) := by
  simp only [PConcept.toDict, encInd_ok c h, encName_ok c h, Except.bind]
  rfl

theorem pconcept_lookup_int (c : PConcept) (hm : ∀ kv ∈ c.measures, kv.1 ≠ "Int".toList) :
    JV.lookup "Int".toList c.dictKVs
      = some (pIntEntry (indsJ c) (namesJ c) c.intentI.length c.ptypes c.attrNames) := by
  simp only [PConcept.dictKVs]
  rw [lookup_dictSet_ne _ _ _ (by decide), lookup_addMeasures _ _ _ hm]
  simp [JV.lookup]

theorem pconcept_fromDict (c : PConcept) (h : PConceptOk c) (hc : PCodecOk c) :
    PConcept.fromDict (.obj c.dictKVs) = .ok c.readBack := by
  have lExt : JV.lookup "Ext".toList c.dictKVs = some (pExtEntry c.extentI c.extent) := by
    simp only [PConcept.dictKVs]
    rw [lookup_dictSet_ne _ _ _ (by decide), lookup_addMeasures _ _ _ (fun kv hkv => (h.meas kv hkv).1)]
    simp [JV.lookup]
  have lInt := pconcept_lookup_int c (fun kv hkv => (h.meas kv hkv).2)
  have lHash : JV.lookup "Context_Hash".toList c.dictKVs = some (jOptInt c.contextHash) := by
    simp only [PConcept.dictKVs]
    rw [lookup_dictSet_eq]
  have hbot : isBottomStr (pIntEntry (indsJ c) (namesJ c) c.intentI.length c.ptypes c.attrNames) = false := rfl
  have e1 : (c.extentI.length != c.extent.length) = false := by simp [h.ext_len]
  have e2 : (c.intentI.length != c.intent.length) = false := by simp [h.int_len]
  simp only [PConcept.fromDict, lInt, lExt, lHash, hbot, Bool.false_eq_true, ↓reduceIte, pIntFields_entry c h hc,
    pExtFields_entry, Except.bind, e1, e2, hashOf_jOptInt, PConcept.readBack]

theorem pconcept_isPattern (c : PConcept) (hm : ∀ kv ∈ c.measures, kv.1 ≠ "Int".toList) :
    isPatternNode (.obj c.dictKVs) = .ok true := by
  simp only [isPatternNode, JV.getKey]
  rw [pconcept_lookup_int c hm]
  simp [pIntEntry, JV.lookup]

/-! ### lattices of pattern concepts -/

theorem readLatTree_pattern (md ad : JV) (n0 : JV) (ns : List JV)
    (hh : readLatHeader md ad = .ok ()) (hp : isPatternNode n0 = .ok true) :
    readLatTree (.arr [md, .obj [("Nodes".toList, .arr (n0 :: ns))], ad]) = buildPLat (n0 :: ns) := by
  simp only [readLatTree, nodesOf_obj, Except.bind, hh, hp, ↓reduceIte]

theorem readPLat_writePLat (L : Lat PConcept) (hlen : 3 ≤ L.concepts.length)
    (hc : ∀ c ∈ L.concepts, PConceptOk c) (hcod : ∀ c ∈ L.concepts, PCodecOk c) (ch : List (List Nat))
    (hre : rebuild (L.concepts.map PConcept.key) = .ok (ch, L.top, L.bottom)) :
    (writePLat L).bind readLatTree
      = .ok (.inr ⟨L.concepts.map PConcept.readBack, ch, L.top, L.bottom⟩) := by
  have hnodes : mapME PConcept.toDict L.concepts = .ok (L.concepts.map fun c => JV.obj c.dictKVs) :=
    mapME_ok _ _ _ (fun c hcm => pconcept_toDict c (hc c hcm))
  have hlt : ¬ L.concepts.length < 3 := by omega
  have hback : mapME PConcept.fromDict (L.concepts.map fun c => JV.obj c.dictKVs)
      = .ok (L.concepts.map PConcept.readBack) :=
    mapME_map_ok _ _ _ _ (fun c hcm => pconcept_fromDict c (hc c hcm) (hcod c hcm))
  have hkeys : (L.concepts.map PConcept.readBack).map PConcept.key = L.concepts.map PConcept.key := by
    rw [List.map_map]; rfl
  have hbuild : buildPLat (L.concepts.map fun c => JV.obj c.dictKVs)
      = .ok (.inr ⟨L.concepts.map PConcept.readBack, ch, L.top, L.bottom⟩) := by
    simp only [buildPLat, hback, Except.bind, hkeys, hre]
  have hw : writePLat L = .ok (.arr [
      .obj [("Top".toList, .arr [jNat L.top]), ("Bottom".toList, .arr [jNat L.bottom]),
            ("NodesCount".toList, jNat L.concepts.length), ("ArcsCount".toList, jNat (arcsTree L.children).length)],
      .obj [("Nodes".toList, .arr (L.concepts.map fun c => JV.obj c.dictKVs))],
      .obj [("Arcs".toList, .arr (arcsTree L.children))]]) := by
    simp only [writePLat, hlt, ↓reduceIte, hnodes, writeLatTree]
  rw [hw]
  simp only [Except.bind]
  cases hcs : L.concepts with
  | nil => rw [hcs] at hlen; simp at hlen
  | cons c0 cs =>
    have hc0 : isPatternNode (.obj c0.dictKVs) = .ok true :=
      pconcept_isPattern c0 (fun kv hkv => ((hc c0 (by rw [hcs]; simp)).meas kv hkv).2)
    rw [hcs] at hbuild
    simp only [List.map_cons] at hbuild ⊢
    rw [readLatTree_pattern _ _ _ _ (readLatHeader_ok _ _ _ _ _) hc0]
    exact hbuild

end Fca.Codec

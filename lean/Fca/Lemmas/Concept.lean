/-
  Fca.Lemmas.Concept — helper lemmas for C08: the membership loop and set equality as list
  inclusion, counting facts about duplicate-free lists, the insertion sort, `list.index`,
  name picking, and the closure identity `int (ext (int A)) = int A`.
-/
import Fca.Model.Concept
import Fca.Spec.Galois
import Fca.Spec.Concept
import Batteries.Data.List.Perm
namespace Fca

/-! ### membership loop / set equality -/

theorem memLoop_iff (big small : List Nat) : memLoop big small = true ↔ small ⊆ big := by
  induction small with
  | nil => simp [memLoop]
  | cons g gs ih =>
    simp only [memLoop, List.cons_subset]
    by_cases h : g ∈ big
    · simp [h, ih]
    · simp [h]

theorem memLoop_eq (big small : List Nat) : memLoop big small = decide (small ⊆ big) := by
  rw [Bool.eq_iff_iff, memLoop_iff]; simp

theorem setEq_iff (xs ys : List Nat) : setEq xs ys = true ↔ xs ⊆ ys ∧ ys ⊆ xs := by
  simp [setEq, List.subset_def]

theorem setEq_eq (xs ys : List Nat) : setEq xs ys = decide (xs ⊆ ys ∧ ys ⊆ xs) := by
  rw [Bool.eq_iff_iff, setEq_iff]; simp

/-- the membership loop looks at its two lists only as SETS: any re-listing (permutation) of either gives the same answer -/
theorem memLoop_perm {big big' small small' : List Nat} (hb : big.Perm big') (hs : small.Perm small') :
    memLoop big small = memLoop big' small' := by
  rw [memLoop_eq, memLoop_eq, decide_eq_decide]
  exact ⟨fun h x hx => hb.subset (h (hs.symm.subset hx)), fun h x hx => hb.symm.subset (h (hs.subset hx))⟩

theorem setEq_perm {xs xs' ys ys' : List Nat} (hx : xs.Perm xs') (hy : ys.Perm ys') :
    setEq xs ys = setEq xs' ys' := by
  rw [setEq_eq, setEq_eq, decide_eq_decide]
  exact ⟨fun ⟨h1, h2⟩ => ⟨fun x hx' => hy.subset (h1 (hx.symm.subset hx')), fun x hy' => hx.subset (h2 (hy.symm.subset hy'))⟩,
    fun ⟨h1, h2⟩ => ⟨fun x hx' => hy.symm.subset (h1 (hx.subset hx')), fun x hy' => hx.symm.subset (h2 (hy.subset hy'))⟩⟩

/-- rewriting the Boolean answer of a comparison through an equivalence of the decided propositions -/
theorem ok_decide_congr {ε : Type} {p q : Prop} [Decidable p] [Decidable q] (h : p ↔ q) :
    (Except.ok (decide p) : Except ε Bool) = .ok (decide q) := by
  rw [decide_eq_decide.mpr h]

theorem ok_false_decide {ε : Type} {p : Prop} [Decidable p] (h : ¬ p) :
    (Except.ok false : Except ε Bool) = .ok (decide p) := by
  rw [decide_eq_false h]

/-! ### duplicate-free lists: inclusion and length -/

/-- a duplicate-free list included in a list that is not longer contains it -/
theorem subset_of_subset_of_length_le {a b : List Nat} (ha : a.Nodup) (hab : a ⊆ b)
    (hlen : b.length ≤ a.length) : b ⊆ a :=
  ((List.subperm_of_subset ha hab).perm_of_length_le hlen).symm.subset

/-- two duplicate-free lists with the same members have the same length -/
theorem length_eq_of_subset_subset {a b : List Nat} (ha : a.Nodup) (hb : b.Nodup)
    (hab : a ⊆ b) (hba : b ⊆ a) : a.length = b.length :=
  Nat.le_antisymm (ha.length_le_of_subset hab) (hb.length_le_of_subset hba)

/-! ### insertion sort -/

theorem insertSorted_perm (x : Nat) (l : List Nat) : (insertSorted x l).Perm (x :: l) := by
  induction l with
  | nil => exact List.Perm.refl _
  | cons y ys ih =>
    simp only [insertSorted]
    split
    · exact List.Perm.refl _
    · exact (List.Perm.cons y ih).trans (List.Perm.swap x y ys)

theorem sortedNats_perm (l : List Nat) : (sortedNats l).Perm l := by
  induction l with
  | nil => exact List.Perm.refl _
  | cons x xs ih => exact (insertSorted_perm x _).trans (List.Perm.cons x ih)

theorem insertSorted_pairwise (x : Nat) (l : List Nat) (h : l.Pairwise (· ≤ ·)) :
    (insertSorted x l).Pairwise (· ≤ ·) := by
  induction l with
  | nil => simp [insertSorted]
  | cons y ys ih =>
    simp only [insertSorted]
    rw [List.pairwise_cons] at h
    split
    · rename_i hxy
      refine List.pairwise_cons.mpr ⟨?_, List.pairwise_cons.mpr h⟩
      intro z hz
      rcases List.mem_cons.mp hz with rfl | hz
      · exact hxy
      · exact Nat.le_trans hxy (h.1 z hz)
    · rename_i hxy
      refine List.pairwise_cons.mpr ⟨?_, ih h.2⟩
      intro z hz
      have := (insertSorted_perm x ys).subset hz
      rcases List.mem_cons.mp this with rfl | hz
      · omega
      · exact h.1 z hz

theorem sortedNats_pairwise (l : List Nat) : (sortedNats l).Pairwise (· ≤ ·) := by
  induction l with
  | nil => simp [sortedNats]
  | cons x xs ih => exact insertSorted_pairwise x _ ih

/-- permutations sort to the same list -/
theorem sortedNats_eq_of_perm {a b : List Nat} (h : a.Perm b) : sortedNats a = sortedNats b := by
  apply List.Perm.eq_of_pairwise (le := (· ≤ ·)) (fun x y _ _ h1 h2 => Nat.le_antisymm h1 h2)
    (sortedNats_pairwise a) (sortedNats_pairwise b)
  exact (sortedNats_perm a).trans (h.trans (sortedNats_perm b).symm)

/-- equal as sets + duplicate-free ⇒ equal sorted lists -/
theorem sortedNats_eq_of_set_eq {a b : List Nat} (ha : a.Nodup) (hb : b.Nodup)
    (h : ∀ g, g ∈ a ↔ g ∈ b) : sortedNats a = sortedNats b :=
  sortedNats_eq_of_perm ((List.perm_ext_iff_of_nodup ha hb).mpr h)

/-- and conversely the sorted list determines the set -/
theorem set_eq_of_sortedNats_eq {a b : List Nat} (h : sortedNats a = sortedNats b) :
    ∀ g, g ∈ a ↔ g ∈ b := by
  intro g
  rw [← (sortedNats_perm a).mem_iff, ← (sortedNats_perm b).mem_iff, h]

/-! ### `list.index` and name picking -/

theorem firstIndexFrom_spec (names : List String) (k : Nat) (x : String) (i : Nat)
    (h : firstIndexFrom names k x = some i) :
    k ≤ i ∧ i < k + names.length ∧ names[i - k]? = some x ∧ ∀ j, j < i - k → names[j]? ≠ some x := by
  induction names generalizing k with
  | nil => simp [firstIndexFrom] at h
  | cons y ys ih =>
    simp only [firstIndexFrom] at h
    split at h
    · rename_i hyx
      cases h
      simp [hyx]
    · rename_i hyx
      obtain ⟨h1, h2, h3, h4⟩ := ih (k + 1) h
      have e : i - k = (i - (k + 1)) + 1 := by omega
      refine ⟨by omega, by simp only [List.length_cons]; omega, ?_, ?_⟩
      · rw [e, List.getElem?_cons_succ]; exact h3
      · intro j hj
        cases j with
        | zero => simp [hyx]
        | succ j => rw [List.getElem?_cons_succ]; exact h4 j (by omega)

/-- `names.index(x) = i`: `i` is in range, carries the name, and no earlier position does -/
theorem firstIndex_spec {names : List String} {x : String} {i : Nat} (h : firstIndex names x = some i) :
    i < names.length ∧ names[i]? = some x ∧ ∀ j, j < i → names[j]? ≠ some x := by
  have := firstIndexFrom_spec names 0 x i h
  simp only [Nat.sub_zero, Nat.zero_add] at this
  exact ⟨this.2.1, this.2.2.1, this.2.2.2⟩

theorem firstIndexFrom_none (names : List String) (k : Nat) (x : String) :
    firstIndexFrom names k x = none ↔ x ∉ names := by
  induction names generalizing k with
  | nil => simp [firstIndexFrom]
  | cons y ys ih =>
    simp only [firstIndexFrom, List.mem_cons, not_or]
    split
    · rename_i hyx; simp [hyx]
    · rename_i hyx
      rw [ih]
      exact ⟨fun h => ⟨fun e => hyx e.symm, h⟩, fun h => h.2⟩

theorem firstIndex_none {names : List String} {x : String} : firstIndex names x = none ↔ x ∉ names :=
  firstIndexFrom_none names 0 x

/-- with pairwise distinct names `list.index` inverts indexing -/
theorem firstIndex_of_get {names : List String} (hnd : names.Nodup) {x : String} {i : Nat}
    (h : names[i]? = some x) : firstIndex names x = some i := by
  cases hk : firstIndex names x with
  | none => exact absurd (List.mem_of_getElem? h) (firstIndex_none.mp hk)
  | some j =>
    obtain ⟨hj, hjx, _⟩ := firstIndex_spec hk
    obtain ⟨hi, hix⟩ := List.getElem?_eq_some_iff.mp h
    obtain ⟨_, hjx'⟩ := List.getElem?_eq_some_iff.mp hjx
    have := (List.getElem_inj (h₀ := hj) (h₁ := hi) hnd).mp (hjx'.trans hix.symm)
    rw [this]

theorem namesIndex_ok (names : List String) (xs : List String) (is : List Nat)
    (h : namesIndex names xs = .ok is) :
    is.length = xs.length ∧ (∀ i ∈ is, i < names.length) ∧ is.map (fun i => names.getD i "") = xs := by
  induction xs generalizing is with
  | nil => simp only [namesIndex] at h; cases h; simp
  | cons x xs ih =>
    simp only [namesIndex] at h
    split at h
    · cases h
    · rename_i i hi
      split at h
      · cases h
      · rename_i is' his'
        cases h
        obtain ⟨h1, h2, h3⟩ := ih is' his'
        obtain ⟨hlt, hget, _⟩ := firstIndex_spec hi
        refine ⟨by simp [h1], ?_, ?_⟩
        · intro j hj
          rcases List.mem_cons.mp hj with rfl | hj
          · exact hlt
          · exact h2 j hj
        · simp only [List.map_cons, h3, List.cons.injEq, and_true]
          simp [List.getD, hget]

theorem namesIndex_error (names : List String) (xs : List String) :
    (∃ x ∈ xs, x ∉ names) ↔ namesIndex names xs = .error .ValueError := by
  induction xs with
  | nil => simp [namesIndex]
  | cons x xs ih =>
    simp only [namesIndex, List.mem_cons, exists_eq_or_imp]
    cases hx : firstIndex names x with
    | none => simp [firstIndex_none.mp hx]
    | some i =>
      have hmem : x ∈ names := by
        have := (firstIndex_spec hx).2.1
        exact List.mem_of_getElem? this
      simp only [hmem, not_true_eq_false, false_or]
      cases hr : namesIndex names xs with
      | error e =>
        simp only [hr] at ih
        constructor
        · intro h; rw [ih.mp h]
        · intro h; cases h; exact ih.mpr rfl
      | ok is =>
        simp only [hr] at ih
        constructor
        · intro h; exact absurd (ih.mp h) (by simp)
        · intro h; cases h

/-- every name known ⇒ the lookup succeeds -/
theorem namesIndex_isOk (names : List String) (xs : List String) (h : ∀ x ∈ xs, x ∈ names) :
    ∃ is, namesIndex names xs = .ok is := by
  induction xs with
  | nil => exact ⟨[], rfl⟩
  | cons x xs ih =>
    obtain ⟨is, his⟩ := ih (fun y hy => h y (List.mem_cons_of_mem _ hy))
    cases hx : firstIndex names x with
    | none => exact absurd (h x List.mem_cons_self) (firstIndex_none.mp hx)
    | some i => exact ⟨i :: is, by simp [namesIndex, hx, his]⟩

theorem pickNames_ok (names : List String) (is : List Nat) (h : ∀ i ∈ is, i < names.length) :
    pickNames names is = .ok (is.map fun i => names.getD i "") := by
  induction is with
  | nil => rfl
  | cons i is ih =>
    have hi : i < names.length := h i List.mem_cons_self
    simp only [pickNames, List.getElem?_eq_getElem hi, ih (fun j hj => h j (List.mem_cons_of_mem _ hj)),
      List.map_cons, List.getD, Option.getD_some]

theorem pickNames_error (names : List String) (is : List Nat) (h : ∃ i ∈ is, names.length ≤ i) :
    pickNames names is = .error .IndexError := by
  induction is with
  | nil => simp at h
  | cons i is ih =>
    simp only [pickNames]
    by_cases hi : i < names.length
    · simp only [List.getElem?_eq_getElem hi]
      obtain ⟨j, hj, hjl⟩ := h
      rcases List.mem_cons.mp hj with rfl | hj
      · omega
      · rw [ih ⟨j, hj, hjl⟩]
    · simp [List.getElem?_eq_none (Nat.le_of_not_lt hi)]

/-! ### the closure identity of the prime operators -/

theorem Spec.c08_mem_ext {t : Table} {B base : List Nat} {g : Nat} :
    g ∈ Spec.ext t B base ↔ g ∈ base ∧ ∀ a ∈ B, t.get g a = true := by
  simp [Spec.ext]

theorem Spec.c08_mem_int {t : Table} {A base : List Nat} {a : Nat} :
    a ∈ Spec.int t A base ↔ a ∈ base ∧ ∀ g ∈ A, t.get g a = true := by
  simp [Spec.int]

/-- `A ⊆ ext (int A)` for in-range `A` -/
theorem Spec.subset_ext_int (t : Table) (A : List Nat) (hA : ∀ g ∈ A, g < t.height) (mbase : List Nat) :
    A ⊆ Spec.ext t (Spec.int t A mbase) (List.range t.height) := by
  intro g hg
  rw [Spec.c08_mem_ext]
  refine ⟨List.mem_range.mpr (hA g hg), ?_⟩
  intro a ha
  exact (Spec.c08_mem_int.mp ha).2 g hg

/-- `int (ext (int A)) = int A`: the pair `(ext (int A), int A)` is a formal concept -/
theorem Spec.int_ext_int (t : Table) (A : List Nat) (hA : ∀ g ∈ A, g < t.height) (mbase : List Nat) :
    Spec.int t (Spec.ext t (Spec.int t A mbase) (List.range t.height)) mbase = Spec.int t A mbase := by
  unfold Spec.int
  apply List.filter_congr
  intro a ha
  rw [Bool.eq_iff_iff]
  simp only [List.all_eq_true]
  constructor
  · intro H g hg
    exact H g (Spec.subset_ext_int t A hA mbase hg)
  · intro H g hg
    have := (Spec.c08_mem_ext.mp hg).2 a
    apply this
    exact (Spec.c08_mem_int (t := t) (A := A)).mpr ⟨ha, H⟩

/-! ### all-`IntervalPS` many-valued contexts -/
namespace Interval

theorem extensionI_eq (col : Col) (d : Option Iv) (base : List Nat) :
    extensionI col d base = base.filter (inside col d) := by
  cases d with
  | none => simp [extensionI, inside]
  | some p => obtain ⟨mn, mx⟩ := p; rfl

theorem mvExtLoop_eq (l : List (Col × Option Iv)) (ext : List Nat) :
    mvExtLoop l ext = ext.filter fun g => l.all fun p => inside p.1 p.2 g := by
  induction l generalizing ext with
  | nil => simp only [mvExtLoop, List.all_nil]; exact (List.filter_eq_self.mpr (fun _ _ => rfl)).symm
  | cons p rest ih =>
    obtain ⟨c, d⟩ := p
    simp only [mvExtLoop, List.all_cons]
    split
    · rename_i h0
      have hnil : extensionI c d ext = [] := List.eq_nil_of_length_eq_zero h0
      rw [hnil]
      rw [extensionI_eq] at hnil
      symm
      rw [List.filter_eq_nil_iff] at hnil ⊢
      intro g hg
      simp [hnil g hg]
    · rw [ih, extensionI_eq, List.filter_filter]
      apply List.filter_congr
      intro g _
      exact Bool.and_comm _ _

/-- the running `(min, max)` of `IntervalPS.intention_i` is the interval hull of the visited objects -/
theorem hullLoop_spec (col : Col) (gs : List Nat) (a b : Int) :
    ((hullLoop col gs (a, b)).1 ≤ a ∧ b ≤ (hullLoop col gs (a, b)).2) ∧
    (∀ g ∈ gs, (hullLoop col gs (a, b)).1 ≤ (col.getD g (0, 0)).1 ∧
               (col.getD g (0, 0)).2 ≤ (hullLoop col gs (a, b)).2) ∧
    ((hullLoop col gs (a, b)).1 = a ∨ ∃ g ∈ gs, (hullLoop col gs (a, b)).1 = (col.getD g (0, 0)).1) ∧
    ((hullLoop col gs (a, b)).2 = b ∨ ∃ g ∈ gs, (hullLoop col gs (a, b)).2 = (col.getD g (0, 0)).2) := by
  induction gs generalizing a b with
  | nil => simp [hullLoop]
  | cons g gs ih =>
    simp only [hullLoop]
    generalize ha' : (if (col.getD g (0, 0)).1 < a then (col.getD g (0, 0)).1 else a) = a'
    generalize hb' : (if (col.getD g (0, 0)).2 > b then (col.getD g (0, 0)).2 else b) = b'
    have fa : a' ≤ a ∧ a' ≤ (col.getD g (0, 0)).1 ∧ (a' = a ∨ a' = (col.getD g (0, 0)).1) := by
      subst ha'; split <;> omega
    have fb : b ≤ b' ∧ (col.getD g (0, 0)).2 ≤ b' ∧ (b' = b ∨ b' = (col.getD g (0, 0)).2) := by
      subst hb'; split <;> omega
    obtain ⟨⟨h1, h2⟩, h3, h4, h5⟩ := ih a' b'
    refine ⟨⟨by omega, by omega⟩, ?_, ?_, ?_⟩
    · intro x hx
      rcases List.mem_cons.mp hx with rfl | hx
      · exact ⟨by omega, by omega⟩
      · exact h3 x hx
    · rcases h4 with h4 | ⟨x, hx, h4⟩
      · rcases fa.2.2 with e | e
        · exact Or.inl (by omega)
        · exact Or.inr ⟨g, List.mem_cons_self, by omega⟩
      · exact Or.inr ⟨x, List.mem_cons_of_mem _ hx, h4⟩
    · rcases h5 with h5 | ⟨x, hx, h5⟩
      · rcases fb.2.2 with e | e
        · exact Or.inl (by omega)
        · exact Or.inr ⟨g, List.mem_cons_self, by omega⟩
      · exact Or.inr ⟨x, List.mem_cons_of_mem _ hx, h5⟩

/-- `IntervalPS.intention_i(A)` for non-empty `A`: the least interval containing every object's interval -/
theorem intentionI_hull (col : Col) (A : List Nat) (hA : A ≠ []) :
    ∃ mn mx, intentionI col A = some (mn, mx) ∧
      (∀ g ∈ A, mn ≤ (col.getD g (0, 0)).1 ∧ (col.getD g (0, 0)).2 ≤ mx) ∧
      (∃ g ∈ A, mn = (col.getD g (0, 0)).1) ∧ (∃ g ∈ A, mx = (col.getD g (0, 0)).2) := by
  cases A with
  | nil => exact absurd rfl hA
  | cons g gs =>
    obtain ⟨⟨h1, h2⟩, h3, h4, h5⟩ := hullLoop_spec col gs (col.getD g (0, 0)).1 (col.getD g (0, 0)).2
    refine ⟨_, _, rfl, ?_, ?_, ?_⟩
    · intro x hx
      rcases List.mem_cons.mp hx with rfl | hx
      · exact ⟨h1, h2⟩
      · exact h3 x hx
    · rcases h4 with h4 | ⟨x, hx, h4⟩
      · exact ⟨g, List.mem_cons_self, h4⟩
      · exact ⟨x, List.mem_cons_of_mem _ hx, h4⟩
    · rcases h5 with h5 | ⟨x, hx, h5⟩
      · exact ⟨g, List.mem_cons_self, h5⟩
      · exact ⟨x, List.mem_cons_of_mem _ hx, h5⟩

/-- `MVContext.extension_i(ds)`: the objects falling into every column's description, context order
    (the early `break` on an empty intermediate extent does not change the answer) -/
theorem mvExtensionI_eq (n : Nat) (cols : List Col) (ds : List (Option Iv)) :
    mvExtensionI n cols ds = (List.range n).filter fun g => (cols.zip ds).all fun p => inside p.1 p.2 g :=
  mvExtLoop_eq _ _

theorem zip_map_all (cols : List Col) (f : Col → Option Iv) (g : Nat) :
    ((cols.zip (cols.map f)).all fun p => inside p.1 p.2 g) = cols.all fun c => inside c (f c) g := by
  induction cols with
  | nil => rfl
  | cons c cs ih => simp only [List.map_cons, List.zip_cons_cons, List.all_cons, ih]

end Interval

end Fca

/-
  Lemmas for the random-forest part of C15 (`Fca/Model/RFTree.lean`):

  * tree side: the set of rows whose descent passes a node is closed under "coordinate-wise between"
    (`path_between`) — every test on the root-to-node path is a half-space test `x[f] <= thr` / `x[f] > thr`;
  * context side: `intPS` is the (min of left ends, max of right ends) of the objects (`intPS_spec`, independent of the
    listing order: `intPS_perm`), `extLoop` is a filter (`extLoop_eq_filter`), the numeric row of an object
    (`numRow_getD`);
  * together: every column support of the path matrix is closed in the interval pattern structure when the cells are
    points (`colSupport_closed`).
-/
import Fca.Model.RFTree
import Fca.Lemmas.SofiaApprox
namespace Fca.RF
open Fca Fca.DL Fca.SofiaApprox

/-! ### the tree side -/

/-- `x` lies coordinate-wise between rows of `As` -/
def Between (As : List (List Rat)) (x : List Rat) : Prop :=
  ∀ f : Nat, (∃ a ∈ As, a.getD f 0 ≤ x.getD f 0) ∧ (∃ a ∈ As, x.getD f 0 ≤ a.getD f 0)

theorem pathFrom_subset_subtree (t : Tree) (x : List Rat) :
    ∀ fuel i, ∀ y ∈ pathFrom t x fuel i, y ∈ subtree t fuel i := by
  intro fuel
  induction fuel with
  | zero => intro i y hy; simpa [pathFrom, subtree] using hy
  | succ fuel ih =>
    intro i y hy
    unfold pathFrom at hy
    unfold subtree
    split at hy
    · rename_i l r f thr h1 h2 h3 h4
      simp only [h1, h2, h3, h4]
      split at hy
      · rename_i hl; simpa [hl] using hy
      · rename_i hl
        simp only [hl, if_false]
        split at hy
        · rcases List.mem_cons.mp hy with e | hy
          · simp [e]
          · exact List.mem_cons_of_mem _ (List.mem_append_left _ (ih _ y hy))
        · rcases List.mem_cons.mp hy with e | hy
          · simp [e]
          · exact List.mem_cons_of_mem _ (List.mem_append_right _ (ih _ y hy))
    · rename_i hno
      have hy' : y = i := by simpa using hy
      subst hy'
      split <;> first | (split <;> simp) | simp

/-- the rows whose descent from node `i` passes node `j` form a set closed under "between" -/
theorem path_between (t : Tree) (j : Nat) (As : List (List Rat)) (x : List Rat) (hb : Between As x) :
    ∀ fuel i, treeOK t fuel i = true → (∀ a ∈ As, j ∈ pathFrom t a fuel i) → j ∈ pathFrom t x fuel i := by
  intro fuel
  induction fuel with
  | zero =>
    intro i _ h
    obtain ⟨a, ha, _⟩ := (hb 0).1
    have := h a ha
    simpa [pathFrom] using this
  | succ fuel ih =>
    intro i hok h
    obtain ⟨a₀, ha₀, _⟩ := (hb 0).1
    unfold treeOK at hok
    rcases h1 : t.left[i]? with _ | l
    · have := h a₀ ha₀
      simpa [pathFrom, h1] using this
    rcases h2 : t.right[i]? with _ | r
    · have := h a₀ ha₀
      simpa [pathFrom, h1, h2] using this
    rcases h3 : t.feature[i]? with _ | f
    · have := h a₀ ha₀
      simpa [pathFrom, h1, h2, h3] using this
    rcases h4 : t.threshold[i]? with _ | thr
    · have := h a₀ ha₀
      simpa [pathFrom, h1, h2, h3, h4] using this
    by_cases hl : l = -1
    · have := h a₀ ha₀
      simpa [pathFrom, h1, h2, h3, h4, hl] using this
    simp only [h1, h2, h3, h4, hl, if_false, Bool.and_eq_true, List.all_eq_true, Bool.not_eq_true',
      List.contains_eq_mem, decide_eq_false_iff_not] at hok
    obtain ⟨⟨hdis, hokl⟩, hokr⟩ := hok
    -- the step of a row at node `i`
    have hstep : ∀ a : List Rat, pathFrom t a (fuel + 1) i =
        if a.getD f.toNat 0 ≤ thr then i :: pathFrom t a fuel l.toNat else i :: pathFrom t a fuel r.toNat := by
      intro a
      simp [pathFrom, h1, h2, h3, h4, hl]
    rw [hstep x]
    by_cases hji : j = i
    · subst hji; split <;> simp
    have hsub : ∀ a ∈ As, (a.getD f.toNat 0 ≤ thr → j ∈ pathFrom t a fuel l.toNat) ∧
        (¬ a.getD f.toNat 0 ≤ thr → j ∈ pathFrom t a fuel r.toNat) := by
      intro a ha
      have := h a ha
      rw [hstep a] at this
      constructor
      · intro hle
        rw [if_pos hle] at this
        rcases List.mem_cons.mp this with e | e
        · exact absurd e hji
        · exact e
      · intro hle
        rw [if_neg hle] at this
        rcases List.mem_cons.mp this with e | e
        · exact absurd e hji
        · exact e
    by_cases hx : x.getD f.toNat 0 ≤ thr
    · rw [if_pos hx]
      apply List.mem_cons_of_mem
      obtain ⟨a₁, ha₁, hle₁⟩ := (hb f.toNat).1
      have hj₁ : j ∈ subtree t fuel l.toNat :=
        pathFrom_subset_subtree t a₁ fuel _ j ((hsub a₁ ha₁).1 (Rat.le_trans hle₁ hx))
      apply ih l.toNat hokl
      intro a ha
      by_cases hle : a.getD f.toNat 0 ≤ thr
      · exact (hsub a ha).1 hle
      · exact absurd (pathFrom_subset_subtree t a fuel _ j ((hsub a ha).2 hle)) (hdis j hj₁)
    · rw [if_neg hx]
      apply List.mem_cons_of_mem
      obtain ⟨a₁, ha₁, hle₁⟩ := (hb f.toNat).2
      have hgt₁ : ¬ a₁.getD f.toNat 0 ≤ thr := fun hc => hx (Rat.le_trans hle₁ hc)
      have hj₁ : j ∈ subtree t fuel r.toNat :=
        pathFrom_subset_subtree t a₁ fuel _ j ((hsub a₁ ha₁).2 hgt₁)
      apply ih r.toNat hokr
      intro a ha
      by_cases hle : a.getD f.toNat 0 ≤ thr
      · exact absurd hj₁ (hdis j (pathFrom_subset_subtree t a fuel _ j ((hsub a ha).1 hle)))
      · exact (hsub a ha).2 hle

/-! ### `IntervalPS.intention_i` is (min of the left ends, max of the right ends) -/

theorem foldl_intStep_spec (D : IRows) (c : Nat) (gs : List Nat) (acc : Rat × Rat) :
    ((gs.foldl (intStep D c) acc).1 ≤ acc.1 ∧ ∀ g ∈ gs, (gs.foldl (intStep D c) acc).1 ≤ (icell D g c).1) ∧
    ((gs.foldl (intStep D c) acc).1 = acc.1 ∨ ∃ g ∈ gs, (gs.foldl (intStep D c) acc).1 = (icell D g c).1) ∧
    (acc.2 ≤ (gs.foldl (intStep D c) acc).2 ∧ ∀ g ∈ gs, (icell D g c).2 ≤ (gs.foldl (intStep D c) acc).2) ∧
    ((gs.foldl (intStep D c) acc).2 = acc.2 ∨ ∃ g ∈ gs, (gs.foldl (intStep D c) acc).2 = (icell D g c).2) := by
  induction gs generalizing acc with
  | nil => simp
  | cons g gs ih =>
    obtain ⟨⟨a1, a2⟩, a3, ⟨a4, a5⟩, a6⟩ := ih (intStep D c acc g)
    simp only [List.foldl_cons]
    have s1 : (intStep D c acc g).1 ≤ acc.1 := by simp only [intStep]; split <;> grind
    have s2 : (intStep D c acc g).1 ≤ (icell D g c).1 := by simp only [intStep]; split <;> grind
    have s3 : (intStep D c acc g).1 = acc.1 ∨ (intStep D c acc g).1 = (icell D g c).1 := by
      simp only [intStep]; split <;> simp
    have s4 : acc.2 ≤ (intStep D c acc g).2 := by simp only [intStep]; split <;> grind
    have s5 : (icell D g c).2 ≤ (intStep D c acc g).2 := by simp only [intStep]; split <;> grind
    have s6 : (intStep D c acc g).2 = acc.2 ∨ (intStep D c acc g).2 = (icell D g c).2 := by
      simp only [intStep]; split <;> simp
    refine ⟨⟨Rat.le_trans a1 s1, ?_⟩, ?_, ⟨Rat.le_trans s4 a4, ?_⟩, ?_⟩
    · intro g' hg'
      rcases List.mem_cons.mp hg' with e | e
      · subst e; exact Rat.le_trans a1 s2
      · exact a2 g' e
    · rcases a3 with e | ⟨g', hg', e⟩
      · rcases s3 with e' | e'
        · exact Or.inl (e.trans e')
        · exact Or.inr ⟨g, List.mem_cons_self, e.trans e'⟩
      · exact Or.inr ⟨g', List.mem_cons_of_mem _ hg', e⟩
    · intro g' hg'
      rcases List.mem_cons.mp hg' with e | e
      · subst e; exact Rat.le_trans s5 a4
      · exact a5 g' e
    · rcases a6 with e | ⟨g', hg', e⟩
      · rcases s6 with e' | e'
        · exact Or.inl (e.trans e')
        · exact Or.inr ⟨g, List.mem_cons_self, e.trans e'⟩
      · exact Or.inr ⟨g', List.mem_cons_of_mem _ hg', e⟩

/-- the description of a non-empty object list: a lower bound of the left ends that is attained, an upper bound of
    the right ends that is attained -/
theorem intPS_spec (D : IRows) (c : Nat) (A : List Nat) (hA : A ≠ []) :
    ∃ lo hi, intPS D c A = some (lo, hi) ∧ (∀ g ∈ A, lo ≤ (icell D g c).1 ∧ (icell D g c).2 ≤ hi) ∧
      (∃ g ∈ A, lo = (icell D g c).1) ∧ (∃ g ∈ A, hi = (icell D g c).2) := by
  cases A with
  | nil => exact absurd rfl hA
  | cons g gs =>
    obtain ⟨⟨a1, a2⟩, a3, ⟨a4, a5⟩, a6⟩ := foldl_intStep_spec D c gs (icell D g c)
    refine ⟨_, _, rfl, ?_, ?_, ?_⟩
    · intro g' hg'
      rcases List.mem_cons.mp hg' with e | e
      · subst e; exact ⟨a1, a4⟩
      · exact ⟨a2 g' e, a5 g' e⟩
    · rcases a3 with e | ⟨g', hg', e⟩
      · exact ⟨g, List.mem_cons_self, e⟩
      · exact ⟨g', List.mem_cons_of_mem _ hg', e⟩
    · rcases a6 with e | ⟨g', hg', e⟩
      · exact ⟨g, List.mem_cons_self, e⟩
      · exact ⟨g', List.mem_cons_of_mem _ hg', e⟩

/-- the description depends on the SET of objects only (the order in which scipy lists the rows of a node, and
    repetitions, do not matter) -/
theorem intPS_congr (D : IRows) (c : Nat) (A B : List Nat) (h : ∀ g, g ∈ A ↔ g ∈ B) : intPS D c A = intPS D c B := by
  by_cases hA : A = []
  · subst hA
    have : B = [] := List.eq_nil_iff_forall_not_mem.mpr fun g hg => by simpa using (h g).mpr hg
    rw [this]
  · have hB : B ≠ [] := by
      intro hB; subst hB
      exact hA (List.eq_nil_iff_forall_not_mem.mpr fun g hg => by simpa using (h g).mp hg)
    obtain ⟨lo, hi, e, b, ⟨g1, hg1, e1⟩, ⟨g2, hg2, e2⟩⟩ := intPS_spec D c A hA
    obtain ⟨lo', hi', e', b', ⟨g1', hg1', e1'⟩, ⟨g2', hg2', e2'⟩⟩ := intPS_spec D c B hB
    rw [e, e']
    have h1 : lo = lo' := Rat.le_antisymm (by rw [e1']; exact (b g1' ((h _).mpr hg1')).1)
      (by rw [e1]; exact (b' g1 ((h _).mp hg1)).1)
    have h2 : hi = hi' := Rat.le_antisymm (by rw [e2]; exact (b' g2 ((h _).mp hg2)).2)
      (by rw [e2']; exact (b g2' ((h _).mpr hg2')).2)
    rw [h1, h2]

theorem intPS_perm (D : IRows) (c : Nat) {A B : List Nat} (h : A.Perm B) : intPS D c A = intPS D c B :=
  intPS_congr D c A B fun _ => h.mem_iff

theorem intentionI_perm (D : IRows) (k : Nat) {A B : List Nat} (h : A.Perm B) :
    intentionI D k A = intentionI D k B := by
  simp only [intentionI]
  exact List.map_congr_left fun c _ => intPS_perm D c h

/-! ### `MVContext.extension_i` is a filter -/

/-- object `g` satisfies the descriptions `ds` of the columns `c, c+1, …` -/
def satAll (D : IRows) : Nat → List IDescr → Nat → Bool
  | _, [], _ => true
  | c, d :: rest, g => sat D c d g && satAll D (c + 1) rest g

theorem extLoop_eq_filter (D : IRows) : ∀ (ds : List IDescr) (c : Nat) (e : List Nat),
    extLoop D c ds e = e.filter (satAll D c ds) := by
  intro ds
  induction ds with
  | nil =>
    intro c e
    have : satAll D c [] = fun _ => true := by funext g; rfl
    simp only [extLoop, this]
    exact (List.filter_eq_self.mpr fun _ _ => rfl).symm
  | cons d rest ih =>
    intro c e
    have key : (extPS D c d e).filter (satAll D (c + 1) rest) = e.filter (satAll D c (d :: rest)) := by
      simp only [extPS, List.filter_filter, satAll]
      apply List.filter_congr
      intro g _; exact Bool.and_comm _ _
    simp only [extLoop]
    split
    · rename_i hemp
      have : extPS D c d e = [] := by simpa using hemp
      rw [← key, this]; rfl
    · rw [ih, key]

theorem satAll_range' (D : IRows) (f : Nat → IDescr) (g : Nat) : ∀ (m c : Nat),
    satAll D c ((List.range' c m).map f) g = true ↔ ∀ i, c ≤ i → i < c + m → sat D i (f i) g = true := by
  intro m
  induction m with
  | zero => intro c; simp [satAll]; intro i h1 h2; omega
  | succ m ih =>
    intro c
    simp only [List.range'_succ, List.map_cons, satAll, Bool.and_eq_true, ih]
    constructor
    · rintro ⟨h0, h⟩ i hi1 hi2
      by_cases e : i = c
      · subst e; exact h0
      · exact h i (by omega) (by omega)
    · intro h
      exact ⟨h c (Nat.le_refl _) (by omega), fun i h1 h2 => h i (by omega) (by omega)⟩

/-- `g` is in the closure of `A` iff it satisfies the description of `A` in every column -/
theorem mem_closure (D : IRows) (k : Nat) (A : List Nat) (g : Nat) :
    g ∈ closure D k A ↔ g < D.length ∧ ∀ c < k, sat D c (intPS D c A) g = true := by
  simp only [closure, extensionI, extLoop_eq_filter, List.mem_filter, List.mem_range]
  simp only [intentionI, List.range_eq_range', satAll_range']
  constructor
  · rintro ⟨h1, h2⟩; exact ⟨h1, fun c hc => h2 c (Nat.zero_le _) (by omega)⟩
  · rintro ⟨h1, h2⟩; exact ⟨h1, fun c _ hc => h2 c (by omega)⟩

theorem closure_eq_filter (D : IRows) (k : Nat) (A : List Nat) :
    closure D k A = (List.range D.length).filter (satAll D 0 (intentionI D k A)) := by
  simp only [closure, extensionI, extLoop_eq_filter]

theorem satAll_intention (D : IRows) (k : Nat) (A : List Nat) (g : Nat) :
    satAll D 0 (intentionI D k A) g = true ↔ ∀ c < k, sat D c (intPS D c A) g = true := by
  simp only [intentionI, List.range_eq_range', satAll_range']
  constructor
  · intro h c hc; exact h c (Nat.zero_le _) (by omega)
  · intro h c _ hc; exact h c (by omega)

/-- the closure of the empty object list is empty as soon as there is a column (`intention_i([])` is `None`
    everywhere, and `None` describes no object) -/
theorem closure_nil (D : IRows) (k : Nat) (hk : 0 < k) : closure D k [] = [] := by
  rw [closure_eq_filter]
  apply List.filter_eq_nil_iff.mpr
  intro g _
  rw [satAll_intention]
  intro h
  have := h 0 hk
  simp [intPS, sat] at this

/-! ### the numeric row of an object, as the tree sees it -/

/-- the row of `castRows cast (toNumeric D)` belonging to the object with cells `row` -/
def numRow (cast : Rat → Rat) (row : List ICell) : List Rat := (row.flatMap fun c => [c.1, c.2]).map cast

theorem castRows_toNumeric (cast : Rat → Rat) (D : IRows) : castRows cast (toNumeric D) = D.map (numRow cast) := by
  simp [castRows, toNumeric, numRow, List.map_map, Function.comp_def]

/-- numeric column `f` is the left (`f` even) or right (`f` odd) end of interval column `f / 2` -/
def sel (f : Nat) (c : ICell) : Rat := if f % 2 = 0 then c.1 else c.2

theorem numRow_getD (cast : Rat → Rat) : ∀ (row : List ICell) (f : Nat),
    (numRow cast row).getD f 0 = if f / 2 < row.length then cast (sel f (row.getD (f / 2) (0, 0))) else 0 := by
  intro row
  induction row with
  | nil => intro f; simp [numRow]
  | cons c rest ih =>
    intro f
    match f with
    | 0 => simp [numRow, sel]
    | 1 => simp [numRow, sel]
    | f' + 2 =>
      have h1 : (f' + 2) / 2 = f' / 2 + 1 := by omega
      have h2 : (f' + 2) % 2 = f' % 2 := by omega
      have h3 : (numRow cast (c :: rest)).getD (f' + 2) 0 = (numRow cast rest).getD f' 0 := by
        simp [numRow]
      rw [h3, ih f', h1]
      simp only [List.length_cons, Nat.add_lt_add_iff_right, sel, h2]
      simp

theorem getD_mem' {α} (l : List α) (i : Nat) (d : α) (h : i < l.length) : l.getD i d ∈ l := by
  rw [List.getD_eq_getElem?_getD, List.getElem?_eq_getElem h]
  exact List.getElem_mem h

theorem getD_ge' {α} (l : List α) (i : Nat) (d : α) (h : l.length ≤ i) : l.getD i d = d := by
  rw [List.getD_eq_getElem?_getD, List.getElem?_eq_none h]
  rfl

theorem mem_values {D : IRows} {g c : Nat} (hg : g < D.length) (hc : c < (D.getD g []).length) :
    (icell D g c).1 ∈ values D ∧ (icell D g c).2 ∈ values D := by
  have hrow : D.getD g [] ∈ D := getD_mem' _ _ _ hg
  have hcell : icell D g c ∈ D.getD g [] := getD_mem' _ _ _ hc
  simp only [values, List.mem_flatMap]
  exact ⟨⟨_, hrow, _, hcell, by simp⟩, ⟨_, hrow, _, hcell, by simp⟩⟩

theorem castMono {cast : Rat → Rat} {D : IRows} (h : castMonoOn cast D = true) {u v : Rat}
    (hu : u ∈ values D) (hv : v ∈ values D) (huv : u ≤ v) : cast u ≤ cast v := by
  simp only [castMonoOn, List.all_eq_true, Bool.or_eq_true, Bool.not_eq_true', decide_eq_false_iff_not,
    decide_eq_true_eq] at h
  rcases h u hu v hv with h' | h'
  · exact absurd huv h'
  · exact h'

/-- in a table with strictly increasing keys and non-decreasing images the lookup is monotone on the keys -/
theorem monoTable_lookup : ∀ (tbl : List (Rat × Rat)), monoTable tbl = true → ∀ u v : Rat,
    (tbl.any fun p => p.1 == u) = true → (tbl.any fun p => p.1 == v) = true → u ≤ v →
    castOfList tbl u ≤ castOfList tbl v := by
  intro tbl
  induction tbl with
  | nil => intro _ u v hu; simp at hu
  | cons p rest ih =>
    intro hm u v hu hv huv
    simp only [monoTable, Bool.and_eq_true, List.all_eq_true, decide_eq_true_eq] at hm
    obtain ⟨hp, hrest⟩ := hm
    -- looking up a key of `rest` skips `p`, and finds an image ≥ `p.2`
    have hskip : ∀ w : Rat, (rest.any fun q => q.1 == w) = true →
        castOfList (p :: rest) w = castOfList rest w ∧ p.2 ≤ castOfList rest w ∧ p.1 < w := by
      intro w hw
      obtain ⟨q, hq, hqw⟩ := List.any_eq_true.mp hw
      have hqw' : q.1 = w := by simpa using hqw
      have hlt : p.1 < w := by rw [← hqw']; exact (hp q hq).1
      have hne : (w == p.1) = false := by
        apply beq_false_of_ne
        intro e; rw [e] at hlt; exact Rat.lt_irrefl hlt
      refine ⟨by cases p; simp only [castOfList, List.lookup, hne], ?_, hlt⟩
      -- the image found in `rest` belongs to an entry of `rest`
      have : ∀ (l : List (Rat × Rat)), (∀ q ∈ l, p.2 ≤ q.2) → (l.any fun q => q.1 == w) = true →
          p.2 ≤ castOfList l w := by
        intro l
        induction l with
        | nil => intro _ h; simp at h
        | cons a l ihl =>
          intro hall hany
          obtain ⟨a1, a2⟩ := a
          by_cases e : (w == a1) = true
          · simp only [castOfList, List.lookup, e]
            exact hall (a1, a2) List.mem_cons_self
          · have e' : (w == a1) = false := by simpa using e
            have : castOfList ((a1, a2) :: l) w = castOfList l w := by simp only [castOfList, List.lookup, e']
            rw [this]
            apply ihl (fun q hq => hall q (List.mem_cons_of_mem _ hq))
            simp only [List.any_cons, Bool.or_eq_true] at hany
            rcases hany with h | h
            · have : a1 = w := by simpa using h
              rw [this] at e'; simp at e'
            · exact h
      exact this rest (fun q hq => (hp q hq).2) hw
    have hhead : castOfList (p :: rest) p.1 = p.2 := by
      cases p; simp [castOfList, List.lookup]
    simp only [List.any_cons, Bool.or_eq_true, beq_iff_eq] at hu hv
    rcases hu with hu | hu <;> rcases hv with hv | hv
    · rw [← hu, ← hv]; exact Rat.le_refl
    · obtain ⟨e, h2, _⟩ := hskip v hv
      rw [← hu, hhead, e]; exact h2
    · obtain ⟨_, _, h3⟩ := hskip u hu
      rw [← hv] at huv
      exact absurd huv (Rat.not_le.mpr h3)
    · obtain ⟨eu, _, _⟩ := hskip u hu
      obtain ⟨ev, _, _⟩ := hskip v hv
      rw [eu, ev]
      exact ih hrest u v hu hv huv

/-- what the driver evaluates implies the hypothesis of the theorems -/
theorem castMonoOn_of_table {tbl : List (Rat × Rat)} {D : IRows} (h : castTableOK tbl D = true) :
    castMonoOn (castOfList tbl) D = true := by
  simp only [castTableOK, Bool.and_eq_true, List.all_eq_true] at h
  obtain ⟨hm, hkeys⟩ := h
  simp only [castMonoOn, List.all_eq_true, Bool.or_eq_true, Bool.not_eq_true', decide_eq_false_iff_not,
    decide_eq_true_eq]
  intro u hu v hv
  by_cases huv : u ≤ v
  · exact Or.inr (monoTable_lookup tbl hm u v (hkeys u hu) (hkeys v hv) huv)
  · exact Or.inl huv

theorem rect_row {D : IRows} {k g : Nat} (h : rect D k = true) (hg : g < D.length) : (D.getD g []).length = k := by
  have hrow : D.getD g [] ∈ D := getD_mem' _ _ _ hg
  simp only [rect, List.all_eq_true, beq_iff_eq] at h
  exact h _ hrow

theorem point_cell {D : IRows} {g c : Nat} (h : pointValued D = true) : (icell D g c).1 = (icell D g c).2 := by
  simp only [pointValued, List.all_eq_true, beq_iff_eq] at h
  by_cases hg : g < D.length
  · have hrow : D.getD g [] ∈ D := getD_mem' _ _ _ hg
    by_cases hc : c < (D.getD g []).length
    · have hcell : icell D g c ∈ D.getD g [] := getD_mem' _ _ _ hc
      exact h _ hrow _ hcell
    · unfold icell; rw [getD_ge' _ _ _ (Nat.le_of_not_lt hc)]
  · unfold icell; rw [getD_ge' D _ _ (Nat.le_of_not_lt hg)]; rfl

/-- an object satisfying the description of `A` in every column lies, as a numeric row, coordinate-wise between the
    numeric rows of `A` — for POINT-valued cells -/
theorem between_of_sat {D : IRows} {k : Nat} {cast : Rat → Rat} (hrect : rect D k = true)
    (hpt : pointValued D = true) (hmono : castMonoOn cast D = true) {A : List Nat} (hA : A ≠ [])
    (hAlt : ∀ a ∈ A, a < D.length) {g : Nat} (hg : g < D.length)
    (hsat : ∀ c < k, sat D c (intPS D c A) g = true) :
    Between (A.map fun a => numRow cast (D.getD a [])) (numRow cast (D.getD g [])) := by
  intro f
  have hlen : ∀ a, a < D.length → (D.getD a []).length = k := fun a ha => rect_row hrect ha
  by_cases hf : f / 2 < k
  · obtain ⟨lo, hi, e, _, ⟨g1, hg1, e1⟩, ⟨g2, hg2, e2⟩⟩ := intPS_spec D (f / 2) A hA
    have hs := hsat (f / 2) hf
    rw [e] at hs
    simp only [sat, Bool.and_eq_true, decide_eq_true_eq] at hs
    have hval : ∀ a, a < D.length → (numRow cast (D.getD a [])).getD f 0 = cast (icell D a (f / 2)).1 := by
      intro a ha
      rw [numRow_getD, hlen a ha, if_pos hf]
      simp only [sel]
      split
      · rfl
      · exact congrArg cast (point_cell (g := a) (c := f / 2) hpt).symm
    have hmem : ∀ a, a < D.length → (icell D a (f / 2)).1 ∈ values D := fun a ha =>
      (mem_values ha (by rw [hlen a ha]; exact hf)).1
    constructor
    · refine ⟨_, List.mem_map.mpr ⟨g1, hg1, rfl⟩, ?_⟩
      rw [hval g1 (hAlt g1 hg1), hval g hg]
      exact castMono hmono (hmem _ (hAlt g1 hg1)) (hmem _ hg) (by rw [← e1]; exact hs.1)
    · refine ⟨_, List.mem_map.mpr ⟨g2, hg2, rfl⟩, ?_⟩
      rw [hval g2 (hAlt g2 hg2), hval g hg]
      apply castMono hmono (hmem _ hg) (hmem _ (hAlt g2 hg2))
      rw [point_cell (g := g) hpt, point_cell (g := g2) hpt, ← e2]
      exact hs.2
  · obtain ⟨a, ha⟩ := List.exists_mem_of_ne_nil A hA
    have hz : ∀ b, b < D.length → (numRow cast (D.getD b [])).getD f 0 = 0 := by
      intro b hb
      rw [numRow_getD, hlen b hb, if_neg hf]
    constructor <;>
    · refine ⟨_, List.mem_map.mpr ⟨a, ha, rfl⟩, ?_⟩
      rw [hz a (hAlt a ha), hz g hg]
      exact Rat.le_refl

/-! ### columns of the forest's path matrix -/

/-- the tree and the node a column of the forest's path matrix belongs to -/
def locate : List Tree → Nat → Option (Tree × Nat)
  | [], _ => none
  | t :: ts, j => if j < t.n then some (t, j) else locate ts (j - t.n)

theorem locate_mem : ∀ (ts : List Tree) (j : Nat) {t : Tree} {j' : Nat}, locate ts j = some (t, j') → t ∈ ts ∧ j' < t.n := by
  intro ts
  induction ts with
  | nil => intro j t j' h; cases h
  | cons t0 ts ih =>
    intro j t j' h
    unfold locate at h
    split at h
    · rename_i hlt
      cases h
      exact ⟨List.mem_cons_self, hlt⟩
    · obtain ⟨h1, h2⟩ := ih _ h
      exact ⟨List.mem_cons_of_mem _ h1, h2⟩

theorem pathRow_length (t : Tree) (x : List Rat) : (pathRow t x).length = t.n := by simp [pathRow]

theorem pathRow_getD (t : Tree) (x : List Rat) {j : Nat} (hj : j < t.n) :
    (pathRow t x).getD j false = (pathFrom t x t.n 0).contains j := by
  simp [pathRow, List.getD_eq_getElem?_getD, hj]

theorem forestRow_getD (x : List Rat) : ∀ (ts : List Tree) (j : Nat),
    (ts.flatMap fun t => pathRow t x).getD j false =
      match locate ts j with
      | none => false
      | some (t, j') => (pathFrom t x t.n 0).contains j' := by
  intro ts
  induction ts with
  | nil => intro j; simp [locate]
  | cons t ts ih =>
    intro j
    rw [List.flatMap_cons, List.getD_eq_getElem?_getD]
    unfold locate
    by_cases hj : j < t.n
    · rw [if_pos hj, List.getElem?_append_left (by rw [pathRow_length]; exact hj),
        ← List.getD_eq_getElem?_getD, pathRow_getD t x hj]
    · rw [if_neg hj, List.getElem?_append_right (by rw [pathRow_length]; omega), pathRow_length,
        ← List.getD_eq_getElem?_getD, ih]

/-- entry `(g, j)` of the path matrix of the forest on the data of the context -/
theorem pathMatrix_entry (D : IRows) (cast : Rat → Rat) (ts : List Tree) {g : Nat} (hg : g < D.length) (j : Nat) :
    ((pathMatrix ts (castRows cast (toNumeric D))).getD g []).getD j false =
      match locate ts j with
      | none => false
      | some (t, j') => (pathFrom t (numRow cast (D.getD g [])) t.n 0).contains j' := by
  rw [castRows_toNumeric, ← forestRow_getD]
  congr 1
  simp [pathMatrix, List.getD_eq_getElem?_getD, List.getElem?_map, List.getElem?_eq_getElem hg]

theorem pathMatrix_length (D : IRows) (cast : Rat → Rat) (ts : List Tree) :
    (pathMatrix ts (castRows cast (toNumeric D))).length = D.length := by
  simp [pathMatrix, castRows, toNumeric]

/-! ### every node extent is closed (point-valued cells) -/

theorem colSupport_closed {D : IRows} {k : Nat} {cast : Rat → Rat} {ts : List Tree} (hk : 0 < k)
    (hrect : rect D k = true) (hpt : pointValued D = true) (hmono : castMonoOn cast D = true)
    (hts : forestOK ts = true) (j : Nat) :
    closure D k (colSupport (pathMatrix ts (castRows cast (toNumeric D))) j)
      = colSupport (pathMatrix ts (castRows cast (toNumeric D))) j := by
  generalize hM : pathMatrix ts (castRows cast (toNumeric D)) = M
  have hlen : M.length = D.length := by rw [← hM]; exact pathMatrix_length D cast ts
  have hmemA : ∀ g, g ∈ colSupport M j ↔ g < D.length ∧ (M.getD g []).getD j false = true := by
    intro g; simp [colSupport, hlen]
  rw [closure_eq_filter]
  conv => rhs; unfold colSupport; rw [hlen]
  apply List.filter_congr
  intro g hg
  have hg' : g < D.length := List.mem_range.mp hg
  rw [Bool.eq_iff_iff, satAll_intention]
  constructor
  · -- an object satisfying the description of the node's rows reaches the node
    intro hsat
    by_cases hA : colSupport M j = []
    · have := hsat 0 hk
      rw [hA] at this
      simp [intPS, sat] at this
    · have hAlt : ∀ a ∈ colSupport M j, a < D.length := fun a ha => ((hmemA a).mp ha).1
      have hb := between_of_sat hrect hpt hmono hA hAlt hg' hsat
      have hentry := pathMatrix_entry D cast ts hg' j
      rw [hM] at hentry
      rw [hentry]
      rcases hloc : locate ts j with _ | ⟨t, j'⟩
      · -- a column of no tree is empty
        obtain ⟨a, ha⟩ := List.exists_mem_of_ne_nil _ hA
        have h1 := ((hmemA a).mp ha).2
        have h2 := pathMatrix_entry D cast ts ((hmemA a).mp ha).1 j
        rw [hM, hloc] at h2
        rw [h2] at h1
        cases h1
      · obtain ⟨htmem, _⟩ := locate_mem ts j hloc
        have hok : treeOK t t.n 0 = true := by
          simp only [forestOK, List.all_eq_true] at hts
          exact hts t htmem
        simp only [List.contains_eq_mem, decide_eq_true_eq]
        apply path_between t j' _ _ hb t.n 0 hok
        intro a ha
        obtain ⟨a', ha', rfl⟩ := List.mem_map.mp ha
        have h1 := ((hmemA a').mp ha').2
        have h2 := pathMatrix_entry D cast ts ((hmemA a').mp ha').1 j
        rw [hM, hloc] at h2
        rw [h2] at h1
        simpa using h1
  · -- a row of the node satisfies the description of the node's rows
    intro hentry c _
    have hgA : g ∈ colSupport M j := (hmemA g).mpr ⟨hg', hentry⟩
    obtain ⟨lo, hi, e, b, _, _⟩ := intPS_spec D c _ (List.ne_nil_of_mem hgA)
    rw [e]
    simp only [sat, Bool.and_eq_true, decide_eq_true_eq]
    exact b g hgA

/-! ### node extent = the rows that pass every test on the root-to-node path -/

theorem testsTo_subtree (t : Tree) (j : Nat) : ∀ fuel i ts, testsTo t j fuel i = some ts → j ∈ subtree t fuel i := by
  intro fuel
  induction fuel with
  | zero =>
    intro i ts h
    simp only [testsTo] at h
    split at h
    · rename_i e; simp [subtree, e]
    · cases h
  | succ fuel ih =>
    intro i ts h
    unfold testsTo at h
    unfold subtree
    by_cases e : i = j
    · subst e; split <;> first | (split <;> simp) | simp
    · rw [if_neg e] at h
      split at h
      · rename_i l r f thr h1 h2 h3 h4
        try simp only [h1, h2, h3, h4]
        split at h
        · cases h
        · rename_i hl
          rw [if_neg hl]
          split at h
          · rename_i ts' hts
            exact List.mem_cons_of_mem _ (List.mem_append_left _ (ih _ _ hts))
          · split at h
            · rename_i ts' hts
              exact List.mem_cons_of_mem _ (List.mem_append_right _ (ih _ _ hts))
            · cases h
      · cases h

/-- the descent of `x` from `i` passes `j` iff `j` is below `i` and `x` passes every test on the way -/
theorem mem_pathFrom_iff (t : Tree) (j : Nat) (x : List Rat) :
    ∀ fuel i, treeOK t fuel i = true →
      (j ∈ pathFrom t x fuel i ↔ ∃ ts, testsTo t j fuel i = some ts ∧ passes x ts = true) := by
  intro fuel
  induction fuel with
  | zero =>
    intro i _
    simp only [pathFrom, testsTo, List.mem_singleton]
    constructor
    · intro e; exact ⟨[], by simp [e], rfl⟩
    · rintro ⟨ts, h, _⟩
      split at h
      · rename_i e; exact e.symm
      · cases h
  | succ fuel ih =>
    intro i hok
    by_cases e : i = j
    · subst e
      constructor
      · intro _; exact ⟨[], by simp [testsTo], rfl⟩
      · intro _
        unfold pathFrom
        split
        · split
          · simp
          · split <;> simp
        · simp
    have hleafP : j ∈ [i] ↔ False := by simp [Ne.symm e]
    unfold treeOK at hok
    rcases h1 : t.left[i]? with _ | l
    · simp [pathFrom, testsTo, h1, e, Ne.symm e]
    rcases h2 : t.right[i]? with _ | r
    · simp [pathFrom, testsTo, h1, h2, e, Ne.symm e]
    rcases h3 : t.feature[i]? with _ | f
    · simp [pathFrom, testsTo, h1, h2, h3, e, Ne.symm e]
    rcases h4 : t.threshold[i]? with _ | thr
    · simp [pathFrom, testsTo, h1, h2, h3, h4, e, Ne.symm e]
    by_cases hl : l = -1
    · simp [pathFrom, testsTo, h1, h2, h3, h4, hl, e, Ne.symm e]
    simp only [h1, h2, h3, h4, hl, if_false, Bool.and_eq_true, List.all_eq_true, Bool.not_eq_true',
      List.contains_eq_mem, decide_eq_false_iff_not] at hok
    obtain ⟨⟨hdis, hokl⟩, hokr⟩ := hok
    have hstep : pathFrom t x (fuel + 1) i =
        if x.getD f.toNat 0 ≤ thr then i :: pathFrom t x fuel l.toNat else i :: pathFrom t x fuel r.toNat := by
      simp [pathFrom, h1, h2, h3, h4, hl]
    have htests : testsTo t j (fuel + 1) i =
        match testsTo t j fuel l.toNat with
        | some ts => some ((f.toNat, thr, true) :: ts)
        | none =>
          match testsTo t j fuel r.toNat with
          | some ts => some ((f.toNat, thr, false) :: ts)
          | none => none := by
      simp only [testsTo, h1, h2, h3, h4, hl, e, if_false]
      rfl
    rw [hstep, htests]
    have ihl := ih l.toNat hokl
    have ihr := ih r.toNat hokr
    by_cases hx : x.getD f.toNat 0 ≤ thr
    · rw [if_pos hx]
      constructor
      · intro hmem
        have hmem' : j ∈ pathFrom t x fuel l.toNat := by
          rcases List.mem_cons.mp hmem with e' | e'
          · exact absurd e'.symm e
          · exact e'
        obtain ⟨ts, hts, hp⟩ := ihl.mp hmem'
        refine ⟨(f.toNat, thr, true) :: ts, by rw [hts], ?_⟩
        simp only [passes, List.all_cons, Bool.and_eq_true] at hp ⊢
        exact ⟨by first | (rw [decide_eq_true hx]; rfl) | (rw [decide_eq_false hx]; rfl), hp⟩
      · rintro ⟨ts', hts', hp'⟩
        apply List.mem_cons_of_mem
        rcases hL : testsTo t j fuel l.toNat with _ | ts
        · rw [hL] at hts'
          rcases hR : testsTo t j fuel r.toNat with _ | ts
          · rw [hR] at hts'; cases hts'
          · rw [hR] at hts'
            cases hts'
            simp only [passes, List.all_cons, Bool.and_eq_true] at hp'
            have := hp'.1
            first
              | (rw [decide_eq_true hx] at this; exact absurd this (by decide))
              | (rw [decide_eq_false hx] at this; exact absurd this (by decide))
        · rw [hL] at hts'
          cases hts'
          simp only [passes, List.all_cons, Bool.and_eq_true] at hp'
          exact ihl.mpr ⟨ts, hL, hp'.2⟩
    · rw [if_neg hx]
      constructor
      · intro hmem
        have hmem' : j ∈ pathFrom t x fuel r.toNat := by
          rcases List.mem_cons.mp hmem with e' | e'
          · exact absurd e'.symm e
          · exact e'
        obtain ⟨ts, hts, hp⟩ := ihr.mp hmem'
        have hLnone : testsTo t j fuel l.toNat = none := by
          rcases hL : testsTo t j fuel l.toNat with _ | ts0
          · rfl
          · exact absurd (pathFrom_subset_subtree t x fuel _ j hmem') (hdis j (testsTo_subtree t j fuel _ _ hL))
        refine ⟨(f.toNat, thr, false) :: ts, by rw [hLnone, hts], ?_⟩
        simp only [passes, List.all_cons, Bool.and_eq_true] at hp ⊢
        exact ⟨by first | (rw [decide_eq_true hx]; rfl) | (rw [decide_eq_false hx]; rfl), hp⟩
      · rintro ⟨ts', hts', hp'⟩
        apply List.mem_cons_of_mem
        rcases hL : testsTo t j fuel l.toNat with _ | ts
        · rw [hL] at hts'
          rcases hR : testsTo t j fuel r.toNat with _ | ts
          · rw [hR] at hts'; cases hts'
          · rw [hR] at hts'
            cases hts'
            simp only [passes, List.all_cons, Bool.and_eq_true] at hp'
            exact ihr.mpr ⟨ts, hR, hp'.2⟩
        · rw [hL] at hts'
          cases hts'
          simp only [passes, List.all_cons, Bool.and_eq_true] at hp'
          have := hp'.1
          first
            | (rw [decide_eq_true hx] at this; exact absurd this (by decide))
            | (rw [decide_eq_false hx] at this; exact absurd this (by decide))

/-- the rows reaching node `j` of a tree = the rows of the matrix that pass every test `x[f] <= thr` / `x[f] > thr` on
    the way from the root to `j` -/
theorem colSupport_eq_tests (t : Tree) (hok : treeOK t t.n 0 = true) (X : Rows) (j : Nat) (hj : j < t.n) :
    colSupport (pathMatrix [t] X) j = (List.range X.length).filter fun g =>
      match testsTo t j t.n 0 with
      | some ts => passes (X.getD g []) ts
      | none => false := by
  have hlen : (pathMatrix [t] X).length = X.length := by simp [pathMatrix]
  unfold colSupport
  rw [hlen]
  apply List.filter_congr
  intro g hg
  have hg' : g < X.length := List.mem_range.mp hg
  have hrow : (pathMatrix [t] X).getD g [] = [t].flatMap fun t => pathRow t (X.getD g []) := by
    simp [pathMatrix, List.getD_eq_getElem?_getD, List.getElem?_map, List.getElem?_eq_getElem hg']
  rw [hrow, forestRow_getD]
  simp only [locate, hj, if_true]
  rw [Bool.eq_iff_iff]
  simp only [List.contains_eq_mem, decide_eq_true_eq]
  rw [mem_pathFrom_iff t j _ t.n 0 hok]
  constructor
  · rintro ⟨ts, hts, hp⟩; rw [hts]; exact hp
  · intro h
    rcases hts : testsTo t j t.n 0 with _ | ts
    · rw [hts] at h; cases h
    · rw [hts] at h; exact ⟨ts, rfl, h⟩

end Fca.RF

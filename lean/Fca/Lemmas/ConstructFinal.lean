/-
  Fca.Lemmas.ConstructFinal — the last loop of `construct_lattice_from_spanning_tree(_parallel)`:
  given complete `all_superconcepts` sets and candidate sets that are sound and contain every upper cover,
  the in-place reduction keeps exactly the upper covers and the inversion yields the lower covers.
-/
import Fca.Lemmas.ConstructBasic
namespace Fca.Construct
open Fca.Spec

variable {n : Nat} {lt : Nat → Nat → Bool} {rk : Nat → Nat}

/-- what the chain sweep has to establish for the final loop -/
structure SweepPost (n : Nat) (lt : Nat → Nat → Bool) (sw : Sweep) : Prop where
  allSup : ∀ c, c < n → ∀ x, x ∈ sw.allSup.getD c [] ↔ (x < n ∧ lt c x = true)
  supSound : ∀ c, c < n → ∀ x ∈ sw.supD.getD c [], x < n ∧ lt c x = true
  supCov : ∀ c, c < n → ∀ x ∈ upperCoversBy n lt c, x ∈ sw.supD.getD c []
  supNodup : ∀ c, c < n → (sw.supD.getD c []).Nodup

/-- state of the reduction loop: `pre` has been confirmed, `suf` is still to be visited -/
structure RedInv (n : Nat) (lt : Nat → Nat → Bool) (pos : Nat → Nat) (allSup : List (List Nat)) (c : Nat)
    (pre suf : List Nat) : Prop where
  nodup : (pre ++ suf).Nodup
  sound : ∀ x ∈ pre ++ suf, x < n ∧ lt c x = true
  cov : ∀ x ∈ upperCoversBy n lt c, x ∈ pre ++ suf
  preCov : ∀ x ∈ pre, x ∈ upperCoversBy n lt c
  desc : (pre ++ suf).Pairwise (fun a b => pos b ≤ pos a)
  filtered : ∀ p ∈ pre, ∀ x ∈ suf, x ∉ allSup.getD p []

theorem getD_append_length (pre suf : List Nat) (sc : Nat) :
    (pre ++ sc :: suf).getD pre.length 0 = sc := by
  simp [List.getD_eq_getElem?_getD]

theorem reduceLoop_ok (h : StrictOrd lt rk) (pos : Nat → Nat)
    (hpos : ∀ a b, a < n → b < n → lt a b = true → pos b < pos a) (allSup : List (List Nat))
    (hall : ∀ c, c < n → ∀ x, x ∈ allSup.getD c [] ↔ (x < n ∧ lt c x = true)) {c : Nat} (hc : c < n) :
    ∀ (k : Nat) (suf pre : List Nat), suf.length ≤ k → RedInv n lt pos allSup c pre suf →
      (reduceLoop allSup k pre.length (pre ++ suf)).Nodup ∧
      SameSetC (reduceLoop allSup k pre.length (pre ++ suf)) (upperCoversBy n lt c) := by
  intro k
  induction k with
  | zero =>
    intro suf pre hk inv
    have : suf = [] := List.eq_nil_of_length_eq_zero (by omega)
    subst this
    have e1 := inv.nodup
    have e2 := inv.cov
    simp only [List.append_nil] at e1 e2
    simp only [reduceLoop, List.append_nil]
    exact ⟨e1, fun x => ⟨inv.preCov x, e2 x⟩⟩
  | succ k ih =>
    intro suf pre hk inv
    cases suf with
    | nil =>
      have e1 := inv.nodup
      have e2 := inv.cov
      simp only [List.append_nil] at e1 e2
      unfold reduceLoop
      simp only [List.append_nil, Nat.le_refl, ge_iff_le, if_true]
      exact ⟨e1, fun x => ⟨inv.preCov x, e2 x⟩⟩
    | cons sc rest =>
      have hscS := inv.sound sc (by simp)
      -- `sc` is an upper cover
      have hscCov : sc ∈ upperCoversBy n lt c := by
        apply Classical.byContradiction
        intro hn
        obtain ⟨m, hm, hcm, hmsc⟩ := exists_between_of_not_upper hscS.1 hscS.2 hn
        -- an upper cover `p` of `c` below `sc`
        obtain ⟨p, hp, hp2⟩ : ∃ p, p ∈ upperCoversBy n lt c ∧ (p = m ∨ lt p m = true) := by
          -- walk down from `m` towards `c`
          have key : ∀ d m', rk m' = d → m' < n → lt c m' = true →
              ∃ p, p ∈ upperCoversBy n lt c ∧ (p = m' ∨ lt p m' = true) := by
            intro d
            induction d using Nat.strongRecOn with
            | _ d ih2 =>
              intro m' hd hm' hcm'
              by_cases hex : ∃ q, q < n ∧ lt c q = true ∧ lt q m' = true
              · obtain ⟨q, hq, hcq, hqm⟩ := hex
                have := h.rank_lt q m' hqm
                obtain ⟨p, hp, hp2⟩ := ih2 (rk q) (by omega) q rfl hq hcq
                refine ⟨p, hp, Or.inr ?_⟩
                rcases hp2 with rfl | hp2
                · exact hqm
                · exact h.trans _ _ _ hp2 hqm
              · refine ⟨m', mem_upperCoversBy.mpr ⟨hm', hcm', fun q hq hcq => ?_⟩, Or.inl rfl⟩
                apply Bool.eq_false_iff.mpr
                intro hqm
                exact hex ⟨q, hq, hcq, hqm⟩
          exact key (rk m) m rfl hm hcm
        have hpsc : lt p sc = true := by
          rcases hp2 with rfl | hp2
          · exact hmsc
          · exact h.trans _ _ _ hp2 hmsc
        have hpn := (mem_upperCoversBy.mp hp).1
        have hpmem := inv.cov p hp
        rcases List.mem_append.mp hpmem with hpre | hsuf
        · exact inv.filtered p hpre sc (List.mem_cons_self ..) ((hall p hpn sc).mpr ⟨hscS.1, hpsc⟩)
        · rcases List.mem_cons.mp hsuf with e | hrest
          · subst e; rw [h.irrefl] at hpsc; cases hpsc
          · have hd := (List.pairwise_append.mp inv.desc).2.1
            have := List.rel_of_pairwise_cons hd hrest
            have := hpos p sc hpn hscS.1 hpsc
            omega
      -- the filter leaves `pre` and `sc` alone
      have hkeep : ∀ x ∈ pre ++ [sc], (!(allSup.getD sc []).contains x) = true := by
        intro x hx
        simp only [Bool.not_eq_true', List.contains_eq_mem, decide_eq_false_iff_not]
        intro hmem
        have hxs := (hall sc hscS.1 x).mp hmem
        rcases List.mem_append.mp hx with hx | hx
        · have := (mem_upperCoversBy.mp (inv.preCov x hx)).2.2 sc hscS.1 hscS.2
          rw [hxs.2] at this; cases this
        · have : x = sc := by simpa using hx
          subst this
          rw [h.irrefl] at hxs; cases hxs.2
      have hfilter : (pre ++ sc :: rest).filter (fun i => !(allSup.getD sc []).contains i)
          = (pre ++ [sc]) ++ rest.filter (fun i => !(allSup.getD sc []).contains i) := by
        have e : pre ++ sc :: rest = (pre ++ [sc]) ++ rest := by simp
        rw [e, List.filter_append, List.filter_eq_self.mpr hkeep]
      unfold reduceLoop
      have hlt : ¬ pre.length ≥ (pre ++ sc :: rest).length := by simp
      rw [if_neg hlt, getD_append_length, hfilter]
      have hlen : (pre ++ [sc]).length = pre.length + 1 := by simp
      rw [← hlen]
      apply ih
      · have := List.length_filter_le (fun i => !(allSup.getD sc []).contains i) rest
        simp only [List.length_cons] at hk
        omega
      · -- the invariant for the next round
        have hsub : ∀ x, x ∈ (pre ++ [sc]) ++ rest.filter (fun i => !(allSup.getD sc []).contains i) →
            x ∈ pre ++ sc :: rest := by
          intro x hx
          rcases List.mem_append.mp hx with hx | hx
          · rcases List.mem_append.mp hx with hx | hx
            · exact List.mem_append_left _ hx
            · have : x = sc := by simpa using hx
              subst this; simp
          · exact List.mem_append_right _ (List.mem_cons_of_mem _ (List.mem_filter.mp hx).1)
        have hsl : ((pre ++ [sc]) ++ rest.filter (fun i => !(allSup.getD sc []).contains i)).Sublist
            (pre ++ sc :: rest) := by
          have e : pre ++ sc :: rest = (pre ++ [sc]) ++ rest := by simp
          rw [e]
          exact List.Sublist.append_left (List.filter_sublist) _
        refine ⟨inv.nodup.sublist hsl, fun x hx => inv.sound x (hsub x hx), ?_, ?_, inv.desc.sublist hsl, ?_⟩
        · intro x hx
          have hmem := inv.cov x hx
          rcases List.mem_append.mp hmem with hm | hm
          · exact List.mem_append_left _ (List.mem_append_left _ hm)
          · rcases List.mem_cons.mp hm with e | hm
            · subst e; exact List.mem_append_left _ (by simp)
            · apply List.mem_append_right
              refine List.mem_filter.mpr ⟨hm, ?_⟩
              simp only [Bool.not_eq_true', List.contains_eq_mem, decide_eq_false_iff_not]
              intro hmem2
              have hxs := (hall sc hscS.1 x).mp hmem2
              have := (mem_upperCoversBy.mp hx).2.2 sc hscS.1 hscS.2
              rw [hxs.2] at this; cases this
        · intro x hx
          rcases List.mem_append.mp hx with hx | hx
          · exact inv.preCov x hx
          · have : x = sc := by simpa using hx
            subst this; exact hscCov
        · intro p hp x hx
          have hx' := List.mem_filter.mp hx
          rcases List.mem_append.mp hp with hp | hp
          · exact inv.filtered p hp x (List.mem_cons_of_mem _ hx'.1)
          · have : p = sc := by simpa using hp
            subst this
            simpa using hx'.2

/-- `reducedSuperconcepts` = the upper covers -/
theorem reducedSuperconcepts_ok (h : StrictOrd lt rk) (pos : Nat → Nat)
    (hpos : ∀ a b, a < n → b < n → lt a b = true → pos b < pos a) (ord : List Nat → List Nat)
    (hperm : ∀ xs, (ord xs).Perm xs) {sw : Sweep} (post : SweepPost n lt sw) {c : Nat} (hc : c < n) :
    (reducedSuperconcepts pos ord sw c).Nodup ∧
    SameSetC (reducedSuperconcepts pos ord sw c) (upperCoversBy n lt c) := by
  unfold reducedSuperconcepts
  simp only
  have hmem : ∀ x, x ∈ sortBy (fun a b => decide (pos b ≤ pos a)) (ord (sw.supD.getD c [])) ↔
      x ∈ sw.supD.getD c [] := fun x => by rw [mem_sortBy, (hperm _).mem_iff]
  have inv : RedInv n lt pos sw.allSup c []
      (sortBy (fun a b => decide (pos b ≤ pos a)) (ord (sw.supD.getD c []))) := by
    refine ⟨?_, ?_, ?_, by simp, ?_, by simp⟩
    · simp only [List.nil_append]
      exact nodup_sortBy ((hperm _).nodup_iff.mpr (post.supNodup c hc))
    · intro x hx; simp only [List.nil_append] at hx; exact post.supSound c hc x ((hmem x).mp hx)
    · intro x hx; simp only [List.nil_append]; exact (hmem x).mpr (post.supCov c hc x hx)
    · simp only [List.nil_append]
      apply pairwise_sortBy
      · intro x y hxy; simpa using hxy
      · intro x y hxy
        have : ¬ pos y ≤ pos x := by simpa using hxy
        omega
      · intro x y z h1 h2; omega
  have := reduceLoop_ok h pos hpos sw.allSup post.allSup hc _ _ [] (Nat.le_refl _) inv
  simpa using this

/-! ### inverting the parents into the children dictionary -/

theorem inner_children (c : Nat) :
    ∀ (R : List Nat) (subD : List (List Nat)), (∀ s ∈ R, s < subD.length) → R.Nodup →
      (R.foldl (fun subD s => subD.set s (addSet (subD.getD s []) c)) subD).length = subD.length ∧
      ∀ s, (R.foldl (fun subD s => subD.set s (addSet (subD.getD s []) c)) subD).getD s []
        = if s ∈ R then addSet (subD.getD s []) c else subD.getD s [] := by
  intro R
  induction R with
  | nil => intro subD _ _; simp
  | cons s0 rest ih =>
    intro subD hlt hnd
    have hnd' := List.nodup_cons.mp hnd
    have hs0 : s0 < subD.length := hlt s0 (List.mem_cons_self ..)
    obtain ⟨i1, i2⟩ := ih (subD.set s0 (addSet (subD.getD s0 []) c))
      (fun s hs => by simpa using hlt s (List.mem_cons_of_mem _ hs)) hnd'.2
    simp only [List.foldl_cons]
    refine ⟨by simpa using i1, fun s => ?_⟩
    rw [i2 s]
    by_cases e : s = s0
    · subst e
      simp only [hnd'.1, if_false, List.mem_cons_self, if_true]
      exact getD_set_self hs0
    · rw [getD_set_ne e]; simp [e]

theorem finalize_children (R : Nat → List Nat) (hR : ∀ c, c < n → (R c).Nodup ∧ ∀ s ∈ R c, s < n) :
    ∀ k, k ≤ n →
      ((List.range k).foldl (fun subD c => (R c).foldl
        (fun subD s => subD.set s (addSet (subD.getD s []) c)) subD) (List.replicate n [])).length = n ∧
      ∀ s, s < n →
        (((List.range k).foldl (fun subD c => (R c).foldl
          (fun subD s => subD.set s (addSet (subD.getD s []) c)) subD) (List.replicate n [])).getD s []).Nodup ∧
        ∀ c, c ∈ ((List.range k).foldl (fun subD c => (R c).foldl
          (fun subD s => subD.set s (addSet (subD.getD s []) c)) subD) (List.replicate n [])).getD s []
          ↔ (c < k ∧ s ∈ R c) := by
  intro k
  induction k with
  | zero =>
    intro _
    refine ⟨by simp, fun s hs => ?_⟩
    have : (List.replicate n ([] : List Nat)).getD s [] = [] := by
      simp [List.getD_eq_getElem?_getD, hs]
    simp only [List.range_zero, List.foldl_nil]
    rw [this]
    simp
  | succ k ih =>
    intro hk
    obtain ⟨l1, l2⟩ := ih (by omega)
    rw [List.range_succ, List.foldl_append]
    simp only [List.foldl_cons, List.foldl_nil]
    generalize hF : ((List.range k).foldl (fun subD c => (R c).foldl
        (fun subD s => subD.set s (addSet (subD.getD s []) c)) subD) (List.replicate n [])) = F at l1 l2 ⊢
    obtain ⟨r1, r2⟩ := hR k (by omega)
    obtain ⟨i1, i2⟩ := inner_children k (R k) F (fun s hs => by rw [l1]; exact r2 s hs) r1
    refine ⟨by rw [i1, l1], fun s hs => ?_⟩
    rw [i2 s]
    obtain ⟨m1, m2⟩ := l2 s hs
    by_cases hm : s ∈ R k
    · rw [if_pos hm]
      refine ⟨nodup_addSet m1, fun c => ?_⟩
      rw [mem_addSet, m2 c]
      constructor
      · rintro (⟨h1, h2⟩ | rfl)
        · exact ⟨by omega, h2⟩
        · exact ⟨by omega, hm⟩
      · rintro ⟨h1, h2⟩
        by_cases e : c = k
        · exact Or.inr e
        · exact Or.inl ⟨by omega, h2⟩
    · rw [if_neg hm]
      refine ⟨m1, fun c => ?_⟩
      rw [m2 c]
      constructor
      · rintro ⟨h1, h2⟩; exact ⟨by omega, h2⟩
      · rintro ⟨h1, h2⟩
        by_cases e : c = k
        · subst e; exact absurd h2 hm
        · exact ⟨by omega, h2⟩

/-- the final loop turns a state satisfying `SweepPost` into the cover relation -/
theorem finalize_ok (h : StrictOrd lt rk) (pos : Nat → Nat)
    (hpos : ∀ a b, a < n → b < n → lt a b = true → pos b < pos a) (ord : List Nat → List Nat)
    (hperm : ∀ xs, (ord xs).Perm xs) {sw : Sweep} (post : SweepPost n lt sw) :
    (finalize n pos ord sw).length = n ∧
    ∀ s, s < n → ((finalize n pos ord sw).getD s []).Nodup ∧
      SameSetC ((finalize n pos ord sw).getD s []) (coversBy n lt s) := by
  have hR : ∀ c, c < n → (reducedSuperconcepts pos ord sw c).Nodup ∧
      ∀ s ∈ reducedSuperconcepts pos ord sw c, s < n := by
    intro c hc
    obtain ⟨r1, r2⟩ := reducedSuperconcepts_ok h pos hpos ord hperm post hc
    exact ⟨r1, fun s hs => (mem_upperCoversBy.mp ((r2 s).mp hs)).1⟩
  obtain ⟨f1, f2⟩ := finalize_children (reducedSuperconcepts pos ord sw) hR n (Nat.le_refl _)
  unfold finalize
  refine ⟨f1, fun s hs => ⟨(f2 s hs).1, fun c => ?_⟩⟩
  rw [(f2 s hs).2 c, mem_coversBy]
  constructor
  · rintro ⟨hc, hm⟩
    have := mem_upperCoversBy.mp ((reducedSuperconcepts_ok h pos hpos ord hperm post hc).2 s |>.mp hm)
    exact ⟨hc, this.2.1, fun k hk hck => this.2.2 k hk hck⟩
  · rintro ⟨hc, h1, h2⟩
    refine ⟨hc, ((reducedSuperconcepts_ok h pos hpos ord hperm post hc).2 s).mpr ?_⟩
    exact mem_upperCoversBy.mpr ⟨hs, h1, fun k hk hck => h2 k hk hck⟩

end Fca.Construct

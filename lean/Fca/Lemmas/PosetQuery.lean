/-
  Lemmas/PosetQuery — the cache invariant and the specifications of the query accessors:
  each preserves the invariant, keeps the elements, returns normally on in-range indexes, and its result is the
  `Fresh` value.
-/
import Fca.Lemmas.PosetFresh
set_option linter.unusedSectionVars false
namespace Fca.Poset
open Fca Fca.Poset.Fresh

section
variable {α : Type} [DecidableEq α] (leq : α → α → Bool)

/-- Ghost description of what the caches hold *outside* the valid index range of `E`, and of entries that are
    known to be present.  Outside `add` it is `Ghost.none` (nothing out of range, nothing promised); inside
    `add(e, fill_up_cache=True)` the entries of the element being added sit at key `E.length`. -/
structure Ghost where
  leqX : Nat × Nat → Option Bool
  closedX : Dir → Nat → Option (List Nat)
  directX : Dir → Nat → Option (List Nat)
  closedP : Dir → Nat → Prop
  directP : Dir → Nat → Prop

def Ghost.none : Ghost :=
  ⟨fun _ => Option.none, fun _ _ => Option.none, fun _ _ => Option.none, fun _ _ => False, fun _ _ => False⟩

/-- The cache invariant relative to an element list `E`: the state's elements are `E`, its cache flag is `c`,
    and - when the cache is on (`c = true`; an uncached instance never looks at them) - every entry whose key
    is a valid index of `E` holds the `Fresh` value, the lookups at all other keys are exactly those described by
    the ghost `G` (frame), and the entries `G` promises are present. -/
structure InvB (E : List α) (G : Ghost) (c : Bool) (s : St α) : Prop where
  elems : s.elems = E
  flag : s.useCache = c
  leqIn : c = true → ∀ a b r, a < E.length → b < E.length → alookup (a, b) s.leqC = some r → r = rel leq E a b
  leqOut : c = true → ∀ a b, ¬(a < E.length ∧ b < E.length) → alookup (a, b) s.leqC = G.leqX (a, b)
  closedIn : c = true → ∀ d k v, k < E.length → alookup k (s.closed d) = some v →
    v.Nodup ∧ ∀ x, x ∈ v ↔ ltD leq d E x k = true
  closedOut : c = true → ∀ d k, ¬ k < E.length → alookup k (s.closed d) = G.closedX d k
  directIn : c = true → ∀ d k v, k < E.length → alookup k (s.direct d) = some v →
    v.Nodup ∧ ∀ x, x ∈ v ↔ isCover leq d E x k = true
  directOut : c = true → ∀ d k, ¬ k < E.length → alookup k (s.direct d) = G.directX d k
  closedPres : c = true → ∀ d k, G.closedP d k → (alookup k (s.closed d)).isSome = true
  directPres : c = true → ∀ d k, G.directP d k → (alookup k (s.direct d)).isSome = true

variable {leq} {ord : List Nat → List Nat}
variable {E : List α} {G : Ghost} {c : Bool} (hpo : IdxPO leq E)

/-! simp facts about the cache accessors -/
@[simp] theorem closed_setClosed (s : St α) (d : Dir) (v : Cache) : (s.setClosed d v).closed d = v := by
  cases d <;> rfl
@[simp] theorem closed_setClosed_flip (s : St α) (d : Dir) (v : Cache) :
    (s.setClosed d v).closed d.flip = s.closed d.flip := by
  cases d <;> rfl
@[simp] theorem closed_setClosed_flip' (s : St α) (d : Dir) (v : Cache) :
    (s.setClosed d.flip v).closed d = s.closed d := by
  cases d <;> rfl
@[simp] theorem direct_setClosed (s : St α) (d d' : Dir) (v : Cache) : (s.setClosed d v).direct d' = s.direct d' := by
  cases d <;> cases d' <;> rfl
@[simp] theorem direct_setDirect (s : St α) (d : Dir) (v : Cache) : (s.setDirect d v).direct d = v := by
  cases d <;> rfl
@[simp] theorem direct_setDirect_flip (s : St α) (d : Dir) (v : Cache) :
    (s.setDirect d v).direct d.flip = s.direct d.flip := by
  cases d <;> rfl
@[simp] theorem direct_setDirect_flip' (s : St α) (d : Dir) (v : Cache) :
    (s.setDirect d.flip v).direct d = s.direct d := by
  cases d <;> rfl
@[simp] theorem closed_setDirect (s : St α) (d d' : Dir) (v : Cache) : (s.setDirect d v).closed d' = s.closed d' := by
  cases d <;> cases d' <;> rfl
@[simp] theorem elems_setClosed (s : St α) (d : Dir) (v : Cache) : (s.setClosed d v).elems = s.elems := by
  cases d <;> rfl
@[simp] theorem elems_setDirect (s : St α) (d : Dir) (v : Cache) : (s.setDirect d v).elems = s.elems := by
  cases d <;> rfl
@[simp] theorem flag_setClosed (s : St α) (d : Dir) (v : Cache) : (s.setClosed d v).useCache = s.useCache := by
  cases d <;> rfl
@[simp] theorem flag_setDirect (s : St α) (d : Dir) (v : Cache) : (s.setDirect d v).useCache = s.useCache := by
  cases d <;> rfl
@[simp] theorem leqC_setClosed (s : St α) (d : Dir) (v : Cache) : (s.setClosed d v).leqC = s.leqC := by
  cases d <;> rfl
@[simp] theorem leqC_setDirect (s : St α) (d : Dir) (v : Cache) : (s.setDirect d v).leqC = s.leqC := by
  cases d <;> rfl

theorem closed_setClosed_any (s : St α) (d d' : Dir) (v : Cache) :
    (s.setClosed d v).closed d' = if d' = d then v else s.closed d' := by
  cases d <;> cases d' <;> simp [St.setClosed, St.closed]

theorem direct_setDirect_any (s : St α) (d d' : Dir) (v : Cache) :
    (s.setDirect d v).direct d' = if d' = d then v else s.direct d' := by
  cases d <;> cases d' <;> simp [St.setDirect, St.direct]

/-! ### updating one cache keeps the invariant -/

theorem InvB.insertLeq {s : St α} (h : InvB leq E G c s) {a b : Nat} {r : Bool}
    (ha : a < E.length) (hb : b < E.length) (hr : r = rel leq E a b) :
    InvB leq E G c { s with leqC := ainsert (a, b) r s.leqC } := by
  refine ⟨h.elems, h.flag, ?_, ?_, h.closedIn, h.closedOut, h.directIn, h.directOut, h.closedPres, h.directPres⟩
  · intro hct a' b' r' ha' hb' hl
    simp only [alookup_ainsert] at hl
    split at hl
    · rename_i e
      cases e; cases hl
      exact hr
    · exact h.leqIn hct a' b' r' ha' hb' hl
  · intro hct a' b' hout
    simp only [alookup_ainsert]
    split
    · rename_i e; cases e; exact absurd ⟨ha, hb⟩ hout
    · exact h.leqOut hct a' b' hout

theorem InvB.insertClosed {s : St α} (h : InvB leq E G c s) {d : Dir} {k : Nat} {v : List Nat}
    (hk : k < E.length) (hv : v.Nodup) (hx : ∀ x, x ∈ v ↔ ltD leq d E x k = true) :
    InvB leq E G c (s.setClosed d (ainsert k v (s.closed d))) := by
  refine ⟨by simpa using h.elems, by simpa using h.flag, by simpa using h.leqIn, by simpa using h.leqOut,
    ?_, ?_, by simpa using h.directIn, by simpa using h.directOut, ?_, by simpa using h.directPres⟩
  · intro hct d' k' v' hk' hl
    rw [closed_setClosed_any] at hl
    split at hl
    · rename_i e; subst e
      rw [alookup_ainsert] at hl
      split at hl
      · rename_i e; subst e; cases hl; exact ⟨hv, hx⟩
      · exact h.closedIn hct _ _ _ hk' hl
    · exact h.closedIn hct _ _ _ hk' hl
  · intro hct d' k' hk'
    rw [closed_setClosed_any]
    split
    · rename_i e; subst e
      rw [alookup_ainsert]
      split
      · rename_i e; subst e; exact absurd hk hk'
      · exact h.closedOut hct _ _ hk'
    · exact h.closedOut hct _ _ hk'
  · intro hct d' k' hp
    rw [closed_setClosed_any]
    split
    · rename_i e; subst e
      rw [alookup_ainsert]
      split
      · rfl
      · exact h.closedPres hct _ _ hp
    · exact h.closedPres hct _ _ hp

theorem InvB.insertDirect {s : St α} (h : InvB leq E G c s) {d : Dir} {k : Nat} {v : List Nat}
    (hk : k < E.length) (hv : v.Nodup) (hx : ∀ x, x ∈ v ↔ isCover leq d E x k = true) :
    InvB leq E G c (s.setDirect d (ainsert k v (s.direct d))) := by
  refine ⟨by simpa using h.elems, by simpa using h.flag, by simpa using h.leqIn, by simpa using h.leqOut,
    by simpa using h.closedIn, by simpa using h.closedOut, ?_, ?_, by simpa using h.closedPres, ?_⟩
  · intro hct d' k' v' hk' hl
    rw [direct_setDirect_any] at hl
    split at hl
    · rename_i e; subst e
      rw [alookup_ainsert] at hl
      split at hl
      · rename_i e; subst e; cases hl; exact ⟨hv, hx⟩
      · exact h.directIn hct _ _ _ hk' hl
    · exact h.directIn hct _ _ _ hk' hl
  · intro hct d' k' hk'
    rw [direct_setDirect_any]
    split
    · rename_i e; subst e
      rw [alookup_ainsert]
      split
      · rename_i e; subst e; exact absurd hk hk'
      · exact h.directOut hct _ _ hk'
    · exact h.directOut hct _ _ hk'
  · intro hct d' k' hp
    rw [direct_setDirect_any]
    split
    · rename_i e; subst e
      rw [alookup_ainsert]
      split
      · rfl
      · exact h.directPres hct _ _ hp
    · exact h.directPres hct _ _ hp

/-- weaken the ghost: same out-of-range content, fewer promises -/
theorem InvB.mono {G' : Ghost} {s : St α} (h : InvB leq E G c s)
    (hl : G'.leqX = G.leqX) (hc : G'.closedX = G.closedX) (hd : G'.directX = G.directX)
    (hcp : ∀ d k, G'.closedP d k → G.closedP d k) (hdp : ∀ d k, G'.directP d k → G.directP d k) :
    InvB leq E G' c s :=
  ⟨h.elems, h.flag, h.leqIn, fun hct a b ho => by rw [hl]; exact h.leqOut hct a b ho, h.closedIn,
    fun hct d k ho => by rw [hc]; exact h.closedOut hct d k ho, h.directIn,
    fun hct d k ho => by rw [hd]; exact h.directOut hct d k ho,
    fun hct d k hp => h.closedPres hct d k (hcp d k hp), fun hct d k hp => h.directPres hct d k (hdp d k hp)⟩

/-! #### the case without out-of-range entries (`Ghost.none`): all keys are valid indexes -/

theorem InvB.leqOk {s : St α} (h : InvB leq E Ghost.none c s) (hct : c = true) (a b : Nat) (r : Bool)
    (hl : alookup (a, b) s.leqC = some r) :
    a < E.length ∧ b < E.length ∧ (a < E.length → b < E.length → r = rel leq E a b) := by
  by_cases hin : a < E.length ∧ b < E.length
  · exact ⟨hin.1, hin.2, fun ha hb => h.leqIn hct a b r ha hb hl⟩
  · have := h.leqOut hct a b hin
    rw [hl] at this; cases this

theorem InvB.closedOk {s : St α} (h : InvB leq E Ghost.none c s) (hct : c = true) (d : Dir) (k : Nat)
    (v : List Nat) (hl : alookup k (s.closed d) = some v) :
    k < E.length ∧ v.Nodup ∧ (k < E.length → ∀ x, x ∈ v ↔ ltD leq d E x k = true) := by
  by_cases hin : k < E.length
  · have := h.closedIn hct d k v hin hl
    exact ⟨hin, this.1, fun _ => this.2⟩
  · have := h.closedOut hct d k hin
    rw [hl] at this; cases this

theorem InvB.directOk {s : St α} (h : InvB leq E Ghost.none c s) (hct : c = true) (d : Dir) (k : Nat)
    (v : List Nat) (hl : alookup k (s.direct d) = some v) :
    k < E.length ∧ v.Nodup ∧ (k < E.length → ∀ x, x ∈ v ↔ isCover leq d E x k = true) := by
  by_cases hin : k < E.length
  · have := h.directIn hct d k v hin hl
    exact ⟨hin, this.1, fun _ => this.2⟩
  · have := h.directOut hct d k hin
    rw [hl] at this; cases this

/-- build the invariant from "every key is a valid index and every entry is the Fresh value" -/
theorem InvB.ofOk {s : St α} (he : s.elems = E) (hf : s.useCache = c)
    (hl : c = true → ∀ a b r, alookup (a, b) s.leqC = some r →
      a < E.length ∧ b < E.length ∧ r = rel leq E a b)
    (hc : c = true → ∀ d k v, alookup k (s.closed d) = some v →
      k < E.length ∧ v.Nodup ∧ ∀ x, x ∈ v ↔ ltD leq d E x k = true)
    (hd : c = true → ∀ d k v, alookup k (s.direct d) = some v →
      k < E.length ∧ v.Nodup ∧ ∀ x, x ∈ v ↔ isCover leq d E x k = true) :
    InvB leq E Ghost.none c s := by
  refine ⟨he, hf, fun hct a b r _ _ h => (hl hct a b r h).2.2, ?_, fun hct d k v _ h => (hc hct d k v h).2, ?_,
    fun hct d k v _ h => (hd hct d k v h).2, ?_, fun _ _ _ hp => hp.elim, fun _ _ _ hp => hp.elim⟩
  · intro hct a b hout
    cases h : alookup (a, b) s.leqC with
    | none => rfl
    | some r => have := hl hct a b r h; exact absurd ⟨this.1, this.2.1⟩ hout
  · intro hct d k hout
    cases h : alookup k (s.closed d) with
    | none => rfl
    | some v => exact absurd (hc hct d k v h).1 hout
  · intro hct d k hout
    cases h : alookup k (s.direct d) with
    | none => rfl
    | some v => exact absurd (hd hct d k v h).1 hout

/-! ### comparison -/

include hpo

theorem leqE_spec {s : St α} (h : InvB leq E G c s) {a b : Nat} (ha : a < E.length) (hb : b < E.length) :
    Sat (leqE leq a b) s (fun s' r => InvB leq E G c s' ∧ r = rel leq E a b) := by
  have hnc : leqNocache leq s.elems a b = .ok (rel leq E a b) := by
    unfold leqNocache
    rw [h.elems, List.getElem?_eq_getElem ha, List.getElem?_eq_getElem hb, rel_eq ha hb]
  unfold Sat leqE
  by_cases hc : s.useCache = true
  · have hct : c = true := h.flag.symm.trans hc
    rw [if_pos hc]
    cases h1 : alookup (a, b) s.leqC with
    | some r =>
      exact ⟨s, r, rfl, h, h.leqIn hct a b r ha hb h1⟩
    | none =>
      cases h2 : alookup b s.descC with
      | some dd =>
        refine ⟨s, _, rfl, h, ?_⟩
        have hd := (h.closedIn hct .desc b dd hb h2).2 a
        by_cases e : a = b
        · subst e; simp [hpo.refl a ha]
        · have : ltD leq .desc E a b = rel leq E a b := by simp [ltD, relD, e]
          rw [this] at hd
          rw [Bool.eq_iff_iff]
          simp [e, hd]
      | none =>
        cases h3 : alookup a s.ancC with
        | some an =>
          refine ⟨s, _, rfl, h, ?_⟩
          have hd := (h.closedIn hct .anc a an ha h3).2 b
          by_cases e : a = b
          · subst e; simp [hpo.refl a ha]
          · have e' : b ≠ a := fun x => e x.symm
            have : ltD leq .anc E b a = rel leq E a b := by simp [ltD, relD, e']
            rw [this] at hd
            rw [Bool.eq_iff_iff]
            simp [e, hd]
        | none =>
          simp only [hnc]
          exact ⟨_, _, rfl, h.insertLeq ha hb rfl, rfl⟩
  · rw [if_neg hc, hnc]
    exact ⟨s, _, rfl, h, rfl⟩

theorem leqDir_spec {s : St α} (h : InvB leq E G c s) (d : Dir) {i e : Nat} (hi : i < E.length)
    (he : e < E.length) :
    Sat (leqDir leq d i e) s (fun s' r => InvB leq E G c s' ∧ r = relD leq d E i e) := by
  cases d
  · exact leqE_spec hpo h hi he
  · exact leqE_spec hpo h he hi

/-! ### descendants / ancestors -/

theorem closedNocache_spec {s : St α} (h : InvB leq E G c s) (d : Dir) {e : Nat} (he : e < E.length) :
    Sat (closedNocache leq d e) s (fun s' r => InvB leq E G c s' ∧ r = closed leq d E e) := by
  unfold closedNocache
  apply sat_bind
  apply sat_get
  rw [h.elems]
  apply sat_mono (sat_filterM (InvB leq E G c) _ (fun i => ltD leq d E i e) (List.range E.length) ?_ s h)
  · rintro s' r ⟨h1, h2⟩; exact ⟨h1, h2⟩
  · intro i hi s1 h1
    apply sat_bind
    apply sat_mono (leqDir_spec hpo h1 d (List.mem_range.mp hi) he)
    rintro s2 r ⟨h2, rfl⟩
    exact sat_pure ⟨h2, rfl⟩

theorem closedE_spec {s : St α} (h : InvB leq E G c s) (d : Dir) {e : Nat} (he : e < E.length) :
    Sat (closedE leq d e) s (fun s' r => InvB leq E G c s' ∧ SetEq r (closed leq d E e)) := by
  unfold closedE
  apply sat_bind
  apply sat_get
  by_cases hc : s.useCache = true
  · simp only [hc, ↓reduceIte]
    cases h1 : alookup e (s.closed d) with
    | some r =>
      have := h.closedIn (h.flag.symm.trans hc) d e r he h1
      exact sat_pure ⟨h, this.1, fun x => by rw [this.2 x, mem_closed]⟩
    | none =>
      simp only
      apply sat_bind
      apply sat_mono (closedNocache_spec hpo h d he)
      rintro s1 r ⟨h2, rfl⟩
      apply sat_bind
      apply sat_modify
      apply sat_pure
      exact ⟨h2.insertClosed he (nodup_closed d e) (fun x => mem_closed),
        nodup_closed d e, fun _ => Iff.rfl⟩
  · simp only [hc, Bool.false_eq_true, ↓reduceIte]
    apply sat_mono (closedNocache_spec hpo h d he)
    rintro s1 r ⟨h2, rfl⟩
    exact ⟨h2, nodup_closed d e, fun _ => Iff.rfl⟩

/-! ### the "subtract the closed sets" loops (children/parents, join/meet epilogue) -/

/-- invariant of the subtraction loops: after processing `pre ⊆ C`, `acc` = the members of `C` that are not
    strictly on the `d` side of a processed element -/
def SubInv (d : Dir) (E : List α) (C : List Nat) (pre acc : List Nat) : Prop :=
  acc.Nodup ∧ ∀ y, y ∈ acc ↔ (y ∈ C ∧ ∀ x ∈ pre, ltD leq d E y x = false)

omit hpo in
theorem subInv_step_in {d : Dir} {C pre acc a : List Nat} {x : Nat}
    (hJ : SubInv (leq := leq) d E C pre acc) (ha : SetEq a (closed leq d E x)) :
    SubInv (leq := leq) d E C (pre ++ [x]) (setDiff acc a) := by
  refine ⟨nodup_setDiff hJ.1, fun y => ?_⟩
  rw [mem_setDiff, hJ.2 y, ha.2 y, mem_closed]
  simp only [List.mem_append, List.mem_singleton]
  constructor
  · rintro ⟨⟨hy, hp⟩, hn⟩
    refine ⟨hy, fun z hz => ?_⟩
    rcases hz with hz | rfl
    · exact hp z hz
    · simpa using hn
  · rintro ⟨hy, hp⟩
    exact ⟨⟨hy, fun z hz => hp z (Or.inl hz)⟩, by simpa using hp x (Or.inr rfl)⟩

theorem subInv_step_out {d : Dir} {C pre acc : List Nat} {x : Nat}
    (hJ : SubInv (leq := leq) d E C pre acc) (hx : x ∈ C) (hxa : x ∉ acc) :
    SubInv (leq := leq) d E C (pre ++ [x]) acc := by
  refine ⟨hJ.1, fun y => ?_⟩
  rw [hJ.2 y]
  simp only [List.mem_append, List.mem_singleton]
  constructor
  · rintro ⟨hy, hp⟩
    refine ⟨hy, fun z hz => ?_⟩
    rcases hz with hz | rfl
    · exact hp z hz
    · -- z was removed by an earlier element x' with z <_d x'; then y <_d z would give y <_d x'
      have : ¬ (z ∈ C ∧ ∀ x' ∈ pre, ltD leq d E z x' = false) := fun hh => hxa ((hJ.2 z).mpr hh)
      cases hyz : ltD leq d E y z
      · rfl
      · exfalso
        apply this
        refine ⟨hx, fun x' hx' => ?_⟩
        cases hzx : ltD leq d E z x'
        · rfl
        · have := hp x' hx'
          rw [ltD_trans hpo d hyz hzx] at this; cases this
  · rintro ⟨hy, hp⟩
    exact ⟨hy, fun z hz => hp z (Or.inl hz)⟩

/-- at the end of the loop over all of `C` the survivors are the `d`-maximal members of `C` -/
theorem subInv_final {d : Dir} {C L acc : List Nat} (hL : ∀ x, x ∈ L ↔ x ∈ C)
    (hJ : SubInv (leq := leq) d E C L acc) :
    acc.Nodup ∧ ∀ y, y ∈ acc ↔ (y ∈ C ∧ ∀ x ∈ C, ltD leq d E y x = false) := by
  refine ⟨hJ.1, fun y => ?_⟩
  rw [hJ.2 y]
  constructor
  · rintro ⟨hy, hp⟩; exact ⟨hy, fun x hx => hp x ((hL x).mpr hx)⟩
  · rintro ⟨hy, hp⟩; exact ⟨hy, fun x hx => hp x ((hL x).mp hx)⟩

/-! ### children / parents -/

variable (hord : ∀ l, (ord l).Perm l)
include hord

theorem directNocache_spec {s : St α} (h : InvB leq E G c s) (d : Dir) {e : Nat} (he : e < E.length) :
    Sat (directNocache leq ord d e) s (fun s' r => InvB leq E G c s' ∧ SetEq r (direct leq d E e)) := by
  unfold directNocache
  apply sat_bind
  apply sat_mono (closedE_spec hpo h d he)
  rintro s1 xs ⟨h1, hxs⟩
  have hmemC : ∀ x, x ∈ ord xs ↔ x ∈ xs := fun x => (hord xs).mem_iff
  have := sat_foldM (InvB leq E G c) (fun pre acc => SubInv (leq := leq) d E xs pre acc)
    (fun acc x => if x ∈ acc then do
        let a ← closedE leq d x
        pure (setDiff acc a)
      else pure acc) (ord xs) ?_ [] xs s1 h1 ⟨hxs.1, fun y => by simp⟩
  · apply sat_mono this
    rintro s2 r ⟨h2, hJ⟩
    refine ⟨h2, ?_⟩
    simp only [List.nil_append] at hJ
    obtain ⟨hnd, hmem⟩ := subInv_final hpo hmemC hJ
    refine ⟨hnd, fun y => ?_⟩
    rw [hmem y, mem_direct, isCover_iff, hxs.2 y, mem_closed]
    constructor
    · rintro ⟨hy, hp⟩
      refine ⟨hy, fun z hz1 hz2 => ?_⟩
      have := hp z ((hxs.2 z).mpr (mem_closed.mpr hz2))
      rw [hz1] at this; cases this
    · rintro ⟨hy, hp⟩
      refine ⟨hy, fun x hx => ?_⟩
      cases hyx : ltD leq d E y x
      · rfl
      · exact (hp x hyx (mem_closed.mp ((hxs.2 x).mp hx))).elim
  · intro pre x acc s2 hx h2 hJ
    have hxC : x ∈ xs := (hmemC x).mp hx
    have hxn : x < E.length := (ltD_lt (mem_closed.mp ((hxs.2 x).mp hxC))).1
    by_cases hxa : x ∈ acc
    · simp only [hxa, ↓reduceIte]
      apply sat_bind
      apply sat_mono (closedE_spec hpo h2 d hxn)
      rintro s3 a ⟨h3, ha⟩
      exact sat_pure ⟨h3, subInv_step_in hJ ha⟩
    · simp only [hxa, ↓reduceIte]
      exact sat_pure ⟨h2, subInv_step_out hpo hJ hxC hxa⟩

theorem directE_spec {s : St α} (h : InvB leq E G c s) (d : Dir) {e : Nat} (he : e < E.length) :
    Sat (directE leq ord d e) s (fun s' r => InvB leq E G c s' ∧ SetEq r (direct leq d E e)) := by
  unfold directE
  apply sat_bind
  apply sat_get
  by_cases hc : s.useCache = true
  · simp only [hc, ↓reduceIte]
    cases h1 : alookup e (s.direct d) with
    | some r =>
      have := h.directIn (h.flag.symm.trans hc) d e r he h1
      exact sat_pure ⟨h, this.1, fun x => by rw [this.2 x, mem_direct]⟩
    | none =>
      simp only
      apply sat_bind
      apply sat_mono (directNocache_spec hpo hord h d he)
      rintro s1 r ⟨h2, hr⟩
      apply sat_bind
      apply sat_modify
      apply sat_pure
      exact ⟨h2.insertDirect he hr.1 (fun x => by rw [hr.2 x, mem_direct]), hr⟩
  · simp only [hc, Bool.false_eq_true, ↓reduceIte]
    exact directNocache_spec hpo hord h d he

omit hord in
/-! ### tops / bottoms -/
theorem extremesE_spec {s : St α} (h : InvB leq E G c s) (d : Dir) :
    Sat (extremesE leq d) s (fun s' r => InvB leq E G c s' ∧ r = extremes leq d E) := by
  unfold extremesE
  apply sat_bind
  apply sat_get
  rw [h.elems]
  apply sat_mono (sat_filterM (InvB leq E G c) _ (fun i => (closed leq d E i).isEmpty) (List.range E.length) ?_ s h)
  · rintro s' r ⟨h1, h2⟩; exact ⟨h1, h2⟩
  · intro i hi s1 h1
    apply sat_bind
    apply sat_mono (closedE_spec hpo h1 d (List.mem_range.mp hi))
    rintro s2 a ⟨h2, ha⟩
    apply sat_pure
    refine ⟨h2, ?_⟩
    rw [Bool.eq_iff_iff]
    simp only [List.isEmpty_iff]
    constructor
    · intro e; subst e
      apply List.eq_nil_iff_forall_not_mem.mpr
      intro x hx; exact absurd ((ha.2 x).mpr hx) (by simp)
    · intro e
      apply List.eq_nil_iff_forall_not_mem.mpr
      intro x hx; have := (ha.2 x).mp hx; rw [e] at this; cases this

/-! ### join / meet -/

omit hpo hord in
theorem mem_bounds {d : Dir} {S : List Nat} {x : Nat} (hS : S ≠ []) (hSr : ∀ y ∈ S, y < E.length) :
    x ∈ bounds leq d E S ↔ ∀ y ∈ S, x = y ∨ ltD leq d E x y = true := by
  unfold bounds
  simp only [List.mem_filter, List.mem_range, List.all_eq_true, Bool.or_eq_true, beq_iff_eq]
  constructor
  · exact fun h => h.2
  · intro h
    refine ⟨?_, h⟩
    obtain ⟨y, hy⟩ := List.exists_mem_of_ne_nil S hS
    rcases h y hy with e | e
    · subst e; exact hSr x hy
    · exact (ltD_lt e).1

theorem boundE_spec {s : St α} (h : InvB leq E G c s) (d : Dir) (S : List Nat)
    (hne : E.length ≠ 0) (hS : ∀ y ∈ S, y < E.length) :
    Sat (boundE leq ord d S) s (fun s' r => InvB leq E G c s' ∧ r = bound leq d E S) := by
  unfold boundE
  apply sat_bind
  apply sat_get
  rw [h.elems]
  unfold bound
  simp only
  generalize hS' : (if S.isEmpty = true then List.range E.length else S) = S'
  have hS'r : ∀ y ∈ S', y < E.length := by
    subst hS'
    split
    · intro y hy; exact List.mem_range.mp hy
    · exact hS
  have hS'ne : S' ≠ [] := by
    subst hS'
    split
    · intro e
      have := congrArg List.length e
      rw [List.length_range] at this; exact hne this
    · rename_i hh; simpa using hh
  match S', hS'ne, hS'r with
  | x :: xs, hne', hS'r =>
    simp only
    have hx : x < E.length := hS'r x List.mem_cons_self
    apply sat_bind
    apply sat_mono (closedE_spec hpo h d hx)
    rintro s1 a0 ⟨h1, ha0⟩
    -- first loop: intersect
    apply sat_bind
    have l1 := sat_foldM (InvB leq E G c)
      (fun pre acc => acc.Nodup ∧ ∀ z, z ∈ acc ↔ ∀ y ∈ x :: pre, z = y ∨ ltD leq d E z y = true)
      (fun acc y => do
        let a ← closedE leq d y
        pure (setInter acc (setInsert y a))) xs ?_ [] (setInsert x a0) s1 h1
      ⟨nodup_setInsert ha0.1, fun z => by
        rw [mem_setInsert, ha0.2 z, mem_closed]; simp⟩
    · apply sat_mono l1
      rintro s2 j1 ⟨h2, hj1n, hj1⟩
      simp only [List.nil_append] at hj1
      have hj1B : ∀ z, z ∈ j1 ↔ z ∈ bounds leq d E (x :: xs) := fun z => by
        rw [hj1 z, mem_bounds hne' hS'r]
      -- second loop: subtract
      apply sat_bind
      have hmemC : ∀ y, y ∈ ord j1 ↔ y ∈ j1 := fun y => (hord j1).mem_iff
      have l2 := sat_foldM (InvB leq E G c) (fun pre acc => SubInv (leq := leq) d E j1 pre acc)
        (fun acc y => do
          let a ← closedE leq d y
          pure (setDiff acc a)) (ord j1) ?_ [] j1 s2 h2 ⟨hj1n, fun y => by simp⟩
      · apply sat_mono l2
        rintro s3 j2 ⟨h3, hJ⟩
        apply sat_pure
        refine ⟨h3, ?_⟩
        simp only [List.nil_append] at hJ
        obtain ⟨hnd, hmem⟩ := subInv_final hpo hmemC hJ
        apply single_of_setEq
        · refine ⟨hnd, fun y => ?_⟩
          rw [hmem y]
          simp only [List.mem_filter, List.all_eq_true, Bool.not_eq_true']
          rw [hj1B y]
          constructor
          · rintro ⟨hy, hp⟩; exact ⟨hy, fun z hz => hp z ((hj1B z).mpr hz)⟩
          · rintro ⟨hy, hp⟩; exact ⟨hy, fun z hz => hp z ((hj1B z).mp hz)⟩
        · exact ((pairwise_lt_filter_range _ _).imp (fun h => Nat.ne_of_lt h)).filter _
      · intro pre y acc s3 hy h3 hJ
        have hyn : y < E.length := by
          have := (hj1B y).mp ((hmemC y).mp hy)
          unfold bounds at this
          exact List.mem_range.mp (List.mem_filter.mp this).1
        apply sat_bind
        apply sat_mono (closedE_spec hpo h3 d hyn)
        rintro s4 a ⟨h4, ha⟩
        exact sat_pure ⟨h4, subInv_step_in hJ ha⟩
    · intro pre y acc s2 hy h2 hJ
      have hyn : y < E.length := hS'r y (List.mem_cons_of_mem _ hy)
      apply sat_bind
      apply sat_mono (closedE_spec hpo h2 d hyn)
      rintro s3 a ⟨h3, ha⟩
      apply sat_pure
      refine ⟨h3, nodup_setInter hJ.1, fun z => ?_⟩
      rw [mem_setInter, hJ.2 z, mem_setInsert, ha.2 z, mem_closed]
      simp only [List.mem_cons, List.mem_append, List.not_mem_nil, or_false]
      constructor
      · rintro ⟨h1, h2⟩ w hw
        rcases hw with rfl | hw | rfl
        · exact h1 w (Or.inl rfl)
        · exact h1 w (Or.inr hw)
        · exact h2
      · intro hh
        exact ⟨fun w hw => hh w (by rcases hw with rfl | hw; exact Or.inl rfl; exact Or.inr (Or.inl hw)),
          hh y (Or.inr (Or.inr rfl))⟩

end
end Fca.Poset

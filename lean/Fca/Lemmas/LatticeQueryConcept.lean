/-
  Fca.Lemmas.LatticeQueryConcept — the concept order (`FormalConcept.__le__`) on a list that enumerates
  all concepts of a table is a partial order = extent inclusion; existence of the concepts the C03/C04
  theorems name (top, bottom, meets, joins, object and attribute concepts).
-/
import Fca.Lemmas.LatticeQuery
import Fca.Lemmas.Galois
import Fca.Spec.LatticeQuery
namespace Fca.LQ
open Fca Fca.Spec

/-- the hypothesis of the C03 / C04 theorems: `cs` lists every formal concept of `t` exactly once
    (as (ascending extent, ascending intent)), in any order.  Discharged by C02. -/
def IsConceptList (t : Table) (cs : Lat) : Prop := cs.Perm (allConcepts t)

instance (t : Table) (cs : Lat) : Decidable (IsConceptList t cs) := by
  unfold IsConceptList; infer_instance

theorem isConceptList_iff_bool (t : Table) (cs : Lat) :
    Spec.isConceptList t cs = true ↔ IsConceptList t cs := by
  unfold Spec.isConceptList IsConceptList
  exact List.isPerm_iff

theorem leLoop_iff (G : List Nat) : ∀ l : List Nat, leLoop G l = true ↔ ∀ g ∈ l, g ∈ G
  | [] => by simp [leLoop]
  | g :: rest => by
    unfold leLoop
    by_cases h : G.contains g = true
    · have hg : g ∈ G := by simpa using h
      simp only [h, Bool.not_true, Bool.false_eq_true, ↓reduceIte, leLoop_iff G rest, List.mem_cons,
        forall_eq_or_imp, hg, true_and]
    · have hg : g ∉ G := by simpa using h
      have h' : G.contains g = false := by simpa using h
      simp only [h', Bool.not_false, ↓reduceIte, Bool.false_eq_true, List.mem_cons, forall_eq_or_imp, hg,
        false_and]

theorem conceptLe_sub {a b : Concept} (h : conceptLe a b = true) : ∀ g ∈ a.1, g ∈ b.1 := by
  unfold conceptLe at h
  split at h
  · cases h
  · exact (leLoop_iff _ _).mp h

theorem conceptLe_len {a b : Concept} (h : conceptLe a b = true) : a.1.length ≤ b.1.length := by
  unfold conceptLe at h
  split at h
  · cases h
  · omega

theorem conceptLe_of {a b : Concept} (hl : a.1.length ≤ b.1.length) (hs : ∀ g ∈ a.1, g ∈ b.1) :
    conceptLe a b = true := by
  unfold conceptLe
  rw [if_neg (by omega)]
  exact (leLoop_iff _ _).mpr hs

/-- for a duplicate-free extent the support shortcut never fires wrongly: `<=` is extent inclusion -/
theorem conceptLe_iff {a b : Concept} (hnd : a.1.Nodup) :
    conceptLe a b = true ↔ ∀ g ∈ a.1, g ∈ b.1 :=
  ⟨conceptLe_sub, fun h => conceptLe_of (List.Nodup.length_le_of_subset hnd (fun _ hx => h _ hx)) h⟩

theorem conceptLe_trans {a b c : Concept} (h₁ : conceptLe a b = true) (h₂ : conceptLe b c = true) :
    conceptLe a c = true :=
  conceptLe_of (Nat.le_trans (conceptLe_len h₁) (conceptLe_len h₂))
    (fun g hg => conceptLe_sub h₂ g (conceptLe_sub h₁ g hg))

theorem exts_getD (cs : Lat) (j : Nat) : (cs.map (·.1)).getD j [] = extOf cs j := by
  simp only [extOf, conc, List.getD_eq_getElem?_getD, List.getElem?_map]
  cases cs[j]? <;> rfl

theorem ints_getD (cs : Lat) (j : Nat) : (cs.map (·.2)).getD j [] = intOf cs j := by
  simp only [intOf, conc, List.getD_eq_getElem?_getD, List.getElem?_map]
  cases cs[j]? <;> rfl

theorem conc_mem {cs : Lat} {i : Nat} (hi : i < cs.length) : conc cs i ∈ cs := by
  unfold conc
  rw [List.getD_eq_getElem?_getD, List.getElem?_eq_getElem hi]
  exact List.getElem_mem hi

theorem exists_idx_of_mem {cs : Lat} {c : Concept} (h : c ∈ cs) : ∃ k, k < cs.length ∧ conc cs k = c := by
  obtain ⟨k, hk, e⟩ := List.mem_iff_getElem.mp h
  refine ⟨k, hk, ?_⟩
  unfold conc
  rw [List.getD_eq_getElem?_getD, List.getElem?_eq_getElem hk]
  exact e

theorem subset_iff {a b : List Nat} : Spec.subset a b = true ↔ ∀ g ∈ a, g ∈ b := by
  simp [Spec.subset, List.all_eq_true]

theorem ssubset_iff {a b : List Nat} :
    Spec.ssubset a b = true ↔ (∀ g ∈ a, g ∈ b) ∧ ¬ (∀ g ∈ b, g ∈ a) := by
  simp [Spec.ssubset, List.all_eq_true]

namespace IsConceptList
variable {t : Table} {cs : Lat} (H : IsConceptList t cs)
include H

theorem nodup : cs.Nodup := (List.Perm.nodup_iff H).mpr (allConcepts_nodup t)

theorem mem_iff {c : Concept} : c ∈ cs ↔ isConcept t c.1 c.2 = true := by
  rw [List.Perm.mem_iff H]
  exact mem_allConcepts t

theorem isConcept {i : Nat} (hi : i < cs.length) : isConcept t (extOf cs i) (intOf cs i) = true :=
  H.mem_iff.mp (conc_mem hi)

theorem ext_eq {i : Nat} (hi : i < cs.length) : extAll t (intOf cs i) = extOf cs i :=
  ((isConcept_iff t).mp (H.isConcept hi)).1

theorem int_eq {i : Nat} (hi : i < cs.length) : intAll t (extOf cs i) = intOf cs i :=
  ((isConcept_iff t).mp (H.isConcept hi)).2

theorem ext_nodup {i : Nat} (hi : i < cs.length) : (extOf cs i).Nodup := by
  rw [← H.ext_eq hi]; exact extAll_nodup t _

theorem ext_sorted {i : Nat} (hi : i < cs.length) : (extOf cs i).Pairwise (· < ·) := by
  rw [← H.ext_eq hi]; exact extAll_sorted t _

theorem int_sorted {i : Nat} (hi : i < cs.length) : (intOf cs i).Pairwise (· < ·) := by
  rw [← H.int_eq hi]; exact intAll_sorted t _

theorem ext_lt {i : Nat} (hi : i < cs.length) : ∀ g ∈ extOf cs i, g < t.height := by
  rw [← H.ext_eq hi]; exact extAll_lt t

theorem int_lt {i : Nat} (hi : i < cs.length) : ∀ a ∈ intOf cs i, a < t.width := by
  rw [← H.int_eq hi]; exact intAll_lt t

/-- a concept is determined by its extent, so equal extents mean the same position -/
theorem ext_inj {i j : Nat} (hi : i < cs.length) (hj : j < cs.length)
    (h : extOf cs i = extOf cs j) : i = j := by
  have hc : conc cs i = conc cs j := by
    apply Prod.ext
    · exact h
    · show intOf cs i = intOf cs j
      rw [← H.int_eq hi, ← H.int_eq hj, h]
  exact (List.getD_inj hi hj H.nodup).mp hc

/-- every concept of the table sits at some position -/
theorem exists_idx {A B : List Nat} (h : Spec.isConcept t A B = true) :
    ∃ k, k < cs.length ∧ extOf cs k = A ∧ intOf cs k = B := by
  obtain ⟨k, hk, e⟩ := exists_idx_of_mem ((H.mem_iff (c := (A, B))).mpr h)
  exact ⟨k, hk, by simp [extOf, e], by simp [intOf, e]⟩

theorem leq_iff {i : Nat} (hi : i < cs.length) (j : Nat) :
    leq cs i j = true ↔ ∀ g ∈ extOf cs i, g ∈ extOf cs j :=
  conceptLe_iff (H.ext_nodup hi)

theorem leq_antisymm {i j : Nat} (hi : i < cs.length) (hj : j < cs.length)
    (h₁ : leq cs i j = true) (h₂ : leq cs j i = true) : i = j := by
  apply H.ext_inj hi hj
  apply PQ.sorted_ext (H.ext_sorted hi) (H.ext_sorted hj)
  intro x
  exact ⟨(H.leq_iff hi j).mp h₁ x, (H.leq_iff hj i).mp h₂ x⟩

/-- the concept comparison is a partial order on the positions of the list -/
theorem isPO : PQ.IsPO (leq cs) cs.length where
  refl := fun a ha => (H.leq_iff ha a).mpr (fun _ h => h)
  trans := fun _ _ _ h₁ h₂ => conceptLe_trans h₁ h₂
  antisymm := fun _ _ ha hb h₁ h₂ => H.leq_antisymm ha hb h₁ h₂

/-- strictly below in the concept order = strictly smaller extent -/
theorem lt_iff_ssubset {i j : Nat} (hi : i < cs.length) (hj : j < cs.length) :
    (leq cs j i = true ∧ j ≠ i) ↔ Spec.ssubset (extOf cs j) (extOf cs i) = true := by
  rw [ssubset_iff, H.leq_iff hj i]
  constructor
  · rintro ⟨hle, hne⟩
    refine ⟨hle, fun hback => hne ?_⟩
    exact H.leq_antisymm hj hi ((H.leq_iff hj i).mpr hle) ((H.leq_iff hi j).mpr hback)
  · rintro ⟨hle, hnb⟩
    refine ⟨hle, ?_⟩
    rintro rfl
    exact hnb (fun _ h => h)

/-- extents are closed -/
theorem closure_ext {i : Nat} (hi : i < cs.length) : closure t (extOf cs i) = extOf cs i := by
  unfold closure
  rw [H.int_eq hi, H.ext_eq hi]

/-- the smallest extent containing `A` lies inside every extent containing `A` -/
theorem closure_sub {i : Nat} (hi : i < cs.length) {A : List Nat} (hA : ∀ g ∈ A, g ∈ extOf cs i) :
    ∀ g ∈ closure t A, g ∈ extOf cs i := by
  intro g hg
  rw [← H.closure_ext hi]
  exact closure_mono t hA g hg

end IsConceptList

/-! ### the special concepts -/

theorem extAll_nil (t : Table) : extAll t [] = List.range t.height := by
  unfold extAll ext
  exact List.filter_eq_self.mpr (fun _ _ => rfl)

/-- members of `base` lying in all extents `ext_s`, `s ∈ S` = `(⋃ intents)'` -/
theorem interAll_exts {t : Table} {cs : Lat} (H : IsConceptList t cs) {S : List Nat}
    (hS : ∀ s ∈ S, s < cs.length) :
    Spec.interAll (List.range t.height) (S.map (extOf cs)) = extAll t (S.flatMap (intOf cs)) := by
  unfold Spec.interAll extAll ext
  apply filter_eq_of_mem_iff
  intro g hg
  have hgh : g < t.height := List.mem_range.mp hg
  simp only [List.all_eq_true, List.mem_map, List.mem_flatMap, List.contains_eq_mem, decide_eq_true_eq,
    forall_exists_index, and_imp, forall_apply_eq_imp_iff₂]
  constructor
  · intro h a s hs ha
    have := h s hs
    rw [← H.ext_eq (hS s hs)] at this
    exact ((mem_extAll t).mp this).2 a ha
  · intro h s hs
    rw [← H.ext_eq (hS s hs)]
    exact (mem_extAll t).mpr ⟨hgh, fun a ha => h a s hs ha⟩

/-- members of `range width` lying in all intents `int_s`, `s ∈ S` = `(⋃ extents)'` -/
theorem interAll_ints {t : Table} {cs : Lat} (H : IsConceptList t cs) {S : List Nat}
    (hS : ∀ s ∈ S, s < cs.length) :
    Spec.interAll (List.range t.width) (S.map (intOf cs)) = intAll t (S.flatMap (extOf cs)) := by
  unfold Spec.interAll intAll int
  apply filter_eq_of_mem_iff
  intro a ha
  have haw : a < t.width := List.mem_range.mp ha
  simp only [List.all_eq_true, List.mem_map, List.mem_flatMap, List.contains_eq_mem, decide_eq_true_eq,
    forall_exists_index, and_imp, forall_apply_eq_imp_iff₂]
  constructor
  · intro h g s hs hg
    have := h s hs
    rw [← H.int_eq (hS s hs)] at this
    exact ((mem_intAll t).mp this).2 g hg
  · intro h s hs
    rw [← H.int_eq (hS s hs)]
    exact (mem_intAll t).mpr ⟨haw, fun g hg => h g s hs hg⟩

theorem mem_interAll {base : List Nat} {ls : List (List Nat)} {g : Nat} :
    g ∈ Spec.interAll base ls ↔ g ∈ base ∧ ∀ l ∈ ls, g ∈ l := by
  simp [Spec.interAll, List.mem_filter, List.all_eq_true]

end Fca.LQ

namespace Fca.LQ
open Fca Fca.Spec

theorem mem_lowerCovers {exts : List (List Nat)} {i x : Nat} :
    x ∈ Spec.lowerCovers exts i ↔ x < exts.length ∧ ssubset (exts.getD x []) (exts.getD i []) = true ∧
      ∀ k, k < exts.length → ¬ (ssubset (exts.getD x []) (exts.getD k []) = true ∧
        ssubset (exts.getD k []) (exts.getD i []) = true) := by
  simp only [Spec.lowerCovers, List.mem_filter, List.mem_range, Bool.and_eq_true, Bool.not_eq_true',
    List.any_eq_false, not_and, Bool.not_eq_true]

theorem mem_upperCovers {exts : List (List Nat)} {i x : Nat} :
    x ∈ Spec.upperCovers exts i ↔ x < exts.length ∧ ssubset (exts.getD i []) (exts.getD x []) = true ∧
      ∀ k, k < exts.length → ¬ (ssubset (exts.getD i []) (exts.getD k []) = true ∧
        ssubset (exts.getD k []) (exts.getD x []) = true) := by
  simp only [Spec.upperCovers, List.mem_filter, List.mem_range, Bool.and_eq_true, Bool.not_eq_true',
    List.any_eq_false, not_and, Bool.not_eq_true]

theorem lowerCovers_sorted (exts : List (List Nat)) (i : Nat) :
    (Spec.lowerCovers exts i).Pairwise (· < ·) :=
  List.Pairwise.filter _ List.pairwise_lt_range

theorem upperCovers_sorted (exts : List (List Nat)) (i : Nat) :
    (Spec.upperCovers exts i).Pairwise (· < ·) :=
  List.Pairwise.filter _ List.pairwise_lt_range

end Fca.LQ

/-
  Fca.Lemmas.CbOMachine — the Close-by-One worklist machine of `Model/CbO`, analysed abstractly:
  `c X g` says "object `g` lies in the closure of the combination `X`"; the two function parameters of
  the machine are tied to `c` by `Hyp`.  Results: the step function in closed form, the machine
  invariant, soundness, completeness (induction on the generator index) and duplicate-freeness.
-/
import Fca.Model.CbO
namespace Fca.CbOM
open Fca

section
variable {ι : Type} [BEq ι] [LawfulBEq ι]
variable (v : CboVariant) (n : Nat) (intention : List Nat → ι) (extIter : ι → List Nat → List Nat)
variable (c : List Nat → Nat → Bool)

/-- all indexes below `n` -/
def InR (X : List Nat) : Prop := ∀ g ∈ X, g < n

/-- what the correctness argument needs to know about the machine's two function parameters -/
structure Hyp : Prop where
  ext_iter : ∀ X base, InR n X → InR n base → extIter (intention X) base = base.filter (c X)
  c_ext : ∀ X g, g ∈ X → c X g = true
  c_trans : ∀ X Y, (∀ g ∈ X, c Y g = true) → ∀ h, c X h = true → c Y h = true
  key_of_eq : v = .fbarray → ∀ X Y, InR n X → InR n Y → (∀ g, g < n → c X g = c Y g) →
    intention X = intention Y

def lo (comb : List Nat) : Nat := match combLast comb with
  | none => 0
  | some l => l + 1
def lo2 (comb : List Nat) : Nat := match combLast comb with
  | none => 0
  | some l => l

/-- the canonicity test passes -/
def Canon (comb : List Nat) : Prop :=
  ∀ l, combLast comb = some l → ∀ g, g < l → c comb g = true → g ∈ comb

def added (comb : List Nat) : List Nat :=
  ((List.range' (lo comb) (n - lo comb)).filter fun g => !comb.contains g).filter (c comb)

def extentOf (comb : List Nat) : List Nat := comb ++ added n c comb

def children (comb : List Nat) : List (List Nat) :=
  ((List.range' (lo2 comb) (n - lo2 comb)).reverse.filter fun g => !(extentOf n c comb).contains g).map
    fun g => extentOf n c comb ++ [g]

def Closed (X : List Nat) : Prop := ∀ h, h < n → c X h = true → h ∈ X
def IsCl (X e : List Nat) : Prop := ∀ g, g ∈ e ↔ (g < n ∧ c X g = true)
def pre (X : List Nat) (k : Nat) : List Nat := X.filter fun g => decide (g < k)

variable {v n intention extIter c}

theorem mem_added {comb : List Nat} {g : Nat} :
    g ∈ added n c comb ↔ lo comb ≤ g ∧ g < n ∧ g ∉ comb ∧ c comb g = true := by
  simp only [added, List.mem_filter, List.mem_range'_1, Bool.not_eq_true', List.contains_eq_mem,
    decide_eq_false_iff_not]
  constructor
  · rintro ⟨⟨⟨h1, h2⟩, h3⟩, h4⟩; exact ⟨h1, by omega, h3, h4⟩
  · rintro ⟨h1, h2, h3, h4⟩; exact ⟨⟨⟨h1, by omega⟩, h3⟩, h4⟩

theorem combLast_mem {comb : List Nat} {l : Nat} (h : combLast comb = some l) : l ∈ comb := by
  unfold combLast at h
  exact List.mem_of_getLast? h

theorem mem_extentOf (hy : Hyp v n intention extIter c) {comb : List Nat} (hr : InR n comb)
    (hcan : Canon c comb) : IsCl n c comb (extentOf n c comb) := by
  intro g
  simp only [extentOf, List.mem_append, mem_added]
  constructor
  · rintro (h | ⟨_, h2, _, h4⟩)
    · exact ⟨hr g h, hy.c_ext comb g h⟩
    · exact ⟨h2, h4⟩
  · rintro ⟨h1, h2⟩
    by_cases hg : g ∈ comb
    · exact Or.inl hg
    · right
      refine ⟨?_, h1, hg, h2⟩
      unfold lo
      cases hl : combLast comb with
      | none => simp
      | some l =>
        simp only
        have hlm := combLast_mem hl
        by_cases hgl : g < l
        · exact absurd (hcan l hl g hgl h2) hg
        · have : g ≠ l := fun e => hg (e ▸ hlm)
          omega

theorem extentOf_nodup {comb : List Nat} (hnd : comb.Nodup) : (extentOf n c comb).Nodup := by
  unfold extentOf
  rw [List.nodup_append]
  refine ⟨hnd, ?_, ?_⟩
  · unfold added
    exact ((List.nodup_range' (step := 1) (by omega)).sublist List.filter_sublist).sublist List.filter_sublist
  · intro a ha b hb hab
    subst hab
    exact (mem_added.mp hb).2.2.1 ha

theorem mem_children {comb x : List Nat} :
    x ∈ children n c comb ↔ ∃ g, lo2 comb ≤ g ∧ g < n ∧ g ∉ extentOf n c comb ∧ x = extentOf n c comb ++ [g] := by
  simp only [children, List.mem_map, List.mem_filter, List.mem_reverse, List.mem_range'_1,
    Bool.not_eq_true', List.contains_eq_mem, decide_eq_false_iff_not]
  constructor
  · rintro ⟨g, ⟨⟨h1, h2⟩, h3⟩, rfl⟩; exact ⟨g, h1, by omega, h3, rfl⟩
  · rintro ⟨g, h1, h2, h3, rfl⟩; exact ⟨g, ⟨⟨h1, by omega⟩, h3⟩, rfl⟩

/-- the result of the step when the combination is emitted -/
def emitSt (comb : List Nat) (s : CboSt ι) : CboSt ι :=
  { stack := (children n c comb).reverse ++ s.stack
    intentsFound := if v == .fbarray then intention comb :: s.intentsFound else s.intentsFound
    extentsFound := s.extentsFound
    out := (comb, extentOf n c comb) :: s.out }

theorem range_filter_inR {comb : List Nat} {l : Nat} (hl : combLast comb = some l) (hr : InR n comb) :
    InR n ((List.range l).filter fun g => !comb.contains g) := by
  intro g hg
  have := (List.mem_filter.mp hg).1
  have h1 : g < l := List.mem_range.mp this
  have := hr l (combLast_mem hl)
  omega

theorem range'_filter_inR (comb : List Nat) (a : Nat) :
    InR n ((List.range' a (n - a)).filter fun g => !comb.contains g) := by
  intro g hg
  have := (List.mem_filter.mp hg).1
  rw [List.mem_range'_1] at this
  omega

/-- the canonicity test as the loop computes it -/
def lexB (c : List Nat → Nat → Bool) (comb : List Nat) : Bool := match combLast comb with
  | none => false
  | some l => !(((List.range l).filter fun g => !comb.contains g).filter (c comb)).isEmpty

theorem lexB_false_iff {comb : List Nat} : lexB c comb = false ↔ Canon c comb := by
  unfold lexB Canon
  cases hl : combLast comb with
  | none => simp
  | some l =>
    simp only [Bool.not_eq_false', List.isEmpty_iff, Option.some.injEq, forall_eq']
    rw [List.filter_eq_nil_iff]
    constructor
    · intro h g hgl hcg
      apply Classical.byContradiction
      intro hg
      exact h g (by simp [List.mem_filter, hgl, hg]) hcg
    · intro h g hg hcg
      simp only [List.mem_filter, List.mem_range, Bool.not_eq_true', List.contains_eq_mem,
        decide_eq_false_iff_not] at hg
      exact hg.2 (h g hg.1 hcg)

/-- closed form of one loop iteration -/
theorem cboStep_eq (hy : Hyp v n intention extIter c) (comb : List Nat) (s : CboSt ι)
    (hr : InR n comb) :
    cboStep v n intention extIter comb s =
      if (v == .fbarray && s.intentsFound.contains (intention comb)) = true then s else
      if lexB c comb = true then s else
      if (v == .objectwise && s.extentsFound.contains (extentOf n c comb)) = true then s else
      emitSt (v := v) (n := n) (intention := intention) (c := c) comb s := by
  unfold cboStep
  cases hl : combLast comb with
  | none =>
    simp only [hl]
    rw [hy.ext_iter comb _ hr (range'_filter_inR comb _)]
    simp only [lexB, extentOf, added, lo, lo2, children, emitSt, hl]
  | some l =>
    simp only [hl]
    rw [hy.ext_iter comb _ hr (range'_filter_inR comb _), hy.ext_iter comb _ hr (range_filter_inR hl hr)]
    simp only [lexB, extentOf, added, lo, lo2, children, emitSt, hl]

theorem cboStep_cases (hy : Hyp v n intention extIter c) (comb : List Nat) (s : CboSt ι)
    (hr : InR n comb) :
    (cboStep v n intention extIter comb s = s ∧
      ((v = .fbarray ∧ intention comb ∈ s.intentsFound) ∨ ¬ Canon c comb ∨
        (v = .objectwise ∧ extentOf n c comb ∈ s.extentsFound)))
    ∨ (Canon c comb ∧ (v = .fbarray → intention comb ∉ s.intentsFound) ∧
        cboStep v n intention extIter comb s = emitSt (v := v) (n := n) (intention := intention) (c := c) comb s) := by
  rw [cboStep_eq hy comb s hr]
  by_cases h1 : (v == .fbarray && s.intentsFound.contains (intention comb)) = true
  · rw [if_pos h1]
    simp only [Bool.and_eq_true, beq_iff_eq, List.contains_eq_mem, decide_eq_true_eq] at h1
    exact Or.inl ⟨rfl, Or.inl h1⟩
  · rw [if_neg h1]
    have hnf : v = .fbarray → intention comb ∉ s.intentsFound := by
      intro hv hm
      apply h1
      simp [hv, hm]
    by_cases h2 : lexB c comb = true
    · rw [if_pos h2]
      refine Or.inl ⟨rfl, Or.inr (Or.inl ?_)⟩
      intro hcan
      rw [lexB_false_iff.mpr hcan] at h2
      cases h2
    · rw [if_neg h2]
      have hcan : Canon c comb := lexB_false_iff.mp (by simpa using h2)
      by_cases h3 : (v == .objectwise && s.extentsFound.contains (extentOf n c comb)) = true
      · rw [if_pos h3]
        simp only [Bool.and_eq_true, beq_iff_eq, List.contains_eq_mem, decide_eq_true_eq] at h3
        exact Or.inl ⟨rfl, Or.inr (Or.inr h3)⟩
      · rw [if_neg h3]
        exact Or.inr ⟨hcan, hnf, rfl⟩

/-! ### the invariant -/

def Done (n : Nat) (c : List Nat → Nat → Bool) (cmb : List Nat) (out : List (List Nat × List Nat)) : Prop :=
  ¬ Canon c cmb ∨ ∃ p ∈ out, IsCl n c cmb p.2

def GoodOut (n : Nat) (c : List Nat → Nat → Bool) (p : List Nat × List Nat) : Prop :=
  InR n p.1 ∧ p.1.Nodup ∧ Canon c p.1 ∧ p.2 = extentOf n c p.1 ∧
    (∀ k, (∀ g ∈ p.2, c (pre p.2 k) g = true) → lo p.1 ≤ k)

def StackOk (n : Nat) (c : List Nat → Nat → Bool) (comb : List Nat) : Prop :=
  InR n comb ∧ comb.Nodup ∧ (comb = [] ∨ ∃ E g, comb = E ++ [g] ∧ Closed n c E ∧ g ∉ E)

structure Inv (n : Nat) (c : List Nat → Nat → Bool) (s : CboSt ι) : Prop where
  stk : ∀ comb ∈ s.stack, StackOk n c comb
  outGood : ∀ p ∈ s.out, GoodOut n c p
  kids : ∀ p ∈ s.out, ∀ g, lo p.1 ≤ g → g < n → g ∉ p.2 →
    (p.2 ++ [g]) ∈ s.stack ∨ Done n c (p.2 ++ [g]) s.out
  root : [] ∈ s.stack ∨ Done n c [] s.out
  foundOk : ∀ k ∈ s.intentsFound, ∃ p ∈ s.out, intention p.1 = k
  extF : s.extentsFound = []

variable (v n intention c) in
theorem Done_mono {cmb : List Nat} {out out' : List (List Nat × List Nat)}
    (h : ∀ p ∈ out, p ∈ out') (hd : Done n c cmb out) : Done n c cmb out' := by
  rcases hd with hd | ⟨p, hp, hcl⟩
  · exact Or.inl hd
  · exact Or.inr ⟨p, h p hp, hcl⟩

theorem IsCl_closed (hy : Hyp v n intention extIter c) {X e : List Nat} (h : IsCl n c X e) :
    Closed n c e := by
  intro g hg hcg
  rw [h g]
  refine ⟨hg, ?_⟩
  exact hy.c_trans e X (fun x hx => ((h x).mp hx).2) g hcg

theorem combLast_concat (E : List Nat) (g : Nat) : combLast (E ++ [g]) = some g := by
  simp [combLast]

theorem lo_concat (E : List Nat) (g : Nat) : lo (E ++ [g]) = g + 1 := by
  simp [lo, combLast_concat]

theorem lo2_le_lo (comb : List Nat) : lo2 comb ≤ lo comb := by
  unfold lo lo2; cases combLast comb <;> simp

theorem mem_pre {X : List Nat} {k g : Nat} : g ∈ pre X k ↔ g ∈ X ∧ g < k := by
  simp [pre, List.mem_filter]

/-- the emitted record carries the generator index of its extent -/
theorem goodOut_of_stackOk (hy : Hyp v n intention extIter c) {comb : List Nat}
    (hs : StackOk n c comb) (hcan : Canon c comb) : GoodOut n c (comb, extentOf n c comb) := by
  obtain ⟨hr, hnd, hform⟩ := hs
  refine ⟨hr, hnd, hcan, rfl, ?_⟩
  intro k hk
  rcases hform with rfl | ⟨E, g, rfl, hE, hgE⟩
  · simp [lo, combLast]
  · rw [lo_concat]
    by_cases hkg : g + 1 ≤ k
    · exact hkg
    · exfalso
      have hcl := mem_extentOf hy hr hcan
      have hge : g ∈ extentOf n c (E ++ [g]) := by
        simp [extentOf]
      have h1 := hk g hge
      have hsub : ∀ x ∈ pre (extentOf n c (E ++ [g])) k, c E x = true := by
        intro x hx
        obtain ⟨hxe, hxk⟩ := mem_pre.mp hx
        have hx2 := (hcl x).mp hxe
        have hxc := hcan g (combLast_concat E g) x (by omega) hx2.2
        simp only [List.mem_append, List.mem_singleton] at hxc
        rcases hxc with hxE | rfl
        · exact hy.c_ext E x hxE
        · omega
      have := hy.c_trans _ E hsub g h1
      exact hgE (hE g (hr g (by simp)) this)

theorem inv_init : Inv (intention := intention) n c (cboInit ι) := by
  refine ⟨?_, ?_, ?_, ?_, ?_, rfl⟩
  · intro comb hc
    simp only [cboInit, List.mem_singleton] at hc
    subst hc
    exact ⟨fun _ h => (by cases h), List.nodup_nil, Or.inl rfl⟩
  · intro p hp; simp [cboInit] at hp
  · intro p hp; simp [cboInit] at hp
  · left; simp [cboInit]
  · intro k hk; simp [cboInit] at hk

/-- one iteration preserves the invariant -/
theorem inv_step (hy : Hyp v n intention extIter c) {s : CboSt ι} {comb : List Nat} {rest : List (List Nat)}
    (hinv : Inv (intention := intention) n c s) (hst : s.stack = comb :: rest) :
    Inv (intention := intention) n c (cboStep v n intention extIter comb { s with stack := rest }) := by
  have hso : StackOk n c comb := hinv.stk comb (by rw [hst]; exact List.mem_cons_self)
  have hr := hso.1
  -- facts common to the "skip" cases: the popped combination is done
  have skip : Done n c comb s.out → Inv (intention := intention) n c { s with stack := rest } := by
    intro hd
    refine ⟨?_, hinv.outGood, ?_, ?_, hinv.foundOk, hinv.extF⟩
    · intro x hx; exact hinv.stk x (by rw [hst]; exact List.mem_cons_of_mem _ hx)
    · intro p hp g h1 h2 h3
      rcases hinv.kids p hp g h1 h2 h3 with h | h
      · rw [hst] at h
        rcases List.mem_cons.mp h with h | h
        · right; rw [h]; exact hd
        · left; exact h
      · right; exact h
    · rcases hinv.root with h | h
      · rw [hst] at h
        rcases List.mem_cons.mp h with h | h
        · right; rw [h]; exact hd
        · left; exact h
      · right; exact h
  rcases cboStep_cases hy comb { s with stack := rest } hr with ⟨heq, hcase⟩ | ⟨hcan, hnf, heq⟩
  · rw [heq]
    apply skip
    rcases hcase with ⟨_, hm⟩ | hnc | ⟨_, hm⟩
    · obtain ⟨p, hp, hpk⟩ := hinv.foundOk _ hm
      right
      refine ⟨p, hp, ?_⟩
      obtain ⟨hpr, _, hpcan, hpe, _⟩ := hinv.outGood p hp
      have hcl := mem_extentOf hy hpr hpcan
      rw [← hpe] at hcl
      intro g
      rw [hcl g]
      have : ∀ g, g < n → c p.1 g = c comb g := by
        intro g hg
        have e1 := hy.ext_iter p.1 [g] hpr (by intro x hx; simp at hx; omega)
        have e2 := hy.ext_iter comb [g] hr (by intro x hx; simp at hx; omega)
        rw [hpk] at e1
        rw [e1] at e2
        simp only [List.filter_cons, List.filter_nil] at e2
        cases h1 : c p.1 g <;> cases h2 : c comb g <;> simp [h1, h2] at e2 <;> rfl
      constructor
      · rintro ⟨h1, h2⟩; exact ⟨h1, by rw [← this g h1]; exact h2⟩
      · rintro ⟨h1, h2⟩; exact ⟨h1, by rw [this g h1]; exact h2⟩
    · exact Or.inl hnc
    · have := hinv.extF
      simp only at hm
      rw [this] at hm
      cases hm
  · rw [heq]
    have hgo := goodOut_of_stackOk hy hso hcan
    have hcl := mem_extentOf hy hr hcan
    have hclosed := IsCl_closed hy hcl
    have hmono : ∀ cmb, Done n c cmb s.out → Done n c cmb ((comb, extentOf n c comb) :: s.out) :=
      fun cmb hd => Done_mono n c (fun p hp => List.mem_cons_of_mem _ hp) hd
    have hdone : Done n c comb ((comb, extentOf n c comb) :: s.out) :=
      Or.inr ⟨_, List.mem_cons_self, hcl⟩
    refine ⟨?_, ?_, ?_, ?_, ?_, hinv.extF⟩
    · intro x hx
      simp only [emitSt, List.mem_append, List.mem_reverse] at hx
      rcases hx with hx | hx
      · obtain ⟨g, _, hgn, hge, rfl⟩ := mem_children.mp hx
        refine ⟨?_, ?_, Or.inr ⟨_, g, rfl, hclosed, hge⟩⟩
        · intro y hy'
          rcases List.mem_append.mp hy' with h | h
          · exact ((hcl y).mp h).1
          · simp at h; omega
        · rw [List.nodup_append]
          refine ⟨extentOf_nodup hso.2.1, by simp, ?_⟩
          intro a ha b hb hab
          simp at hb; subst hb; subst hab; exact hge ha
      · exact hinv.stk x (by rw [hst]; exact List.mem_cons_of_mem _ hx)
    · intro p hp
      simp only [emitSt] at hp
      rcases List.mem_cons.mp hp with rfl | hp
      · exact hgo
      · exact hinv.outGood p hp
    · intro p hp g h1 h2 h3
      simp only [emitSt] at hp ⊢
      rcases List.mem_cons.mp hp with rfl | hp
      · left
        simp only [List.mem_append, List.mem_reverse]
        left
        exact mem_children.mpr ⟨g, Nat.le_trans (lo2_le_lo comb) h1, h2, h3, rfl⟩
      · rcases hinv.kids p hp g h1 h2 h3 with h | h
        · rw [hst] at h
          rcases List.mem_cons.mp h with h | h
          · right; rw [h]; exact hdone
          · left; simp only [List.mem_append]; right; exact h
        · right; exact hmono _ h
    · simp only [emitSt]
      rcases hinv.root with h | h
      · rw [hst] at h
        rcases List.mem_cons.mp h with h | h
        · right; rw [h]; exact hdone
        · left; simp only [List.mem_append]; right; exact h
      · right; exact hmono _ h
    · intro k hk
      simp only [emitSt] at hk ⊢
      split at hk
      · rcases List.mem_cons.mp hk with rfl | hk
        · exact ⟨_, List.mem_cons_self, rfl⟩
        · obtain ⟨p, hp, hpk⟩ := hinv.foundOk k hk
          exact ⟨p, List.mem_cons_of_mem _ hp, hpk⟩
      · obtain ⟨p, hp, hpk⟩ := hinv.foundOk k hk
        exact ⟨p, List.mem_cons_of_mem _ hp, hpk⟩

/-- a successful run ends in a state with empty stack that satisfies the invariant -/
theorem loop_inv (hy : Hyp v n intention extIter c) :
    ∀ (f : Nat) (s : CboSt ι) (out : List (List Nat × List Nat)),
      Inv (intention := intention) n c s → cboLoop v n intention extIter f s = .ok out →
      ∃ s' : CboSt ι, Inv (intention := intention) n c s' ∧ s'.stack = [] ∧ out = s'.out.reverse := by
  intro f
  induction f with
  | zero => intro s out _ h; simp [cboLoop] at h
  | succ f ih =>
    intro s out hinv h
    unfold cboLoop at h
    split at h
    · rename_i hs
      injection h with h
      exact ⟨s, hinv, hs, h.symm⟩
    · rename_i comb rest hs
      exact ih _ out (inv_step hy hinv hs) h

/-! ### completeness: induction on the generator index -/

theorem c_mono (hy : Hyp v n intention extIter c) {X Y : List Nat} (h : ∀ g ∈ X, g ∈ Y) :
    ∀ g, c X g = true → c Y g = true :=
  hy.c_trans X Y (fun g hg => hy.c_ext Y g (h g hg))

theorem complete_aux (hy : Hyp v n intention extIter c) {s : CboSt ι}
    (hinv : Inv (intention := intention) n c s) (hst : s.stack = []) :
    ∀ (k : Nat) (A : List Nat), InR n A → Closed n c A → (∀ g ∈ A, c (pre A k) g = true) →
      ∃ p ∈ s.out, ∀ g, g ∈ p.2 ↔ g ∈ A := by
  intro k
  induction k with
  | zero =>
    intro A hA hcl hgen
    have hpre : pre A 0 = [] := by simp [pre]
    rw [hpre] at hgen
    rcases hinv.root with h | h
    · rw [hst] at h; cases h
    · rcases h with h | ⟨p, hp, hpc⟩
      · exfalso; apply h; intro l hl; simp [combLast] at hl
      · refine ⟨p, hp, fun g => ?_⟩
        rw [hpc g]
        constructor
        · rintro ⟨h1, h2⟩
          exact hcl g h1 (c_mono hy (X := []) (fun _ h => by cases h) g h2)
        · intro hg; exact ⟨hA g hg, hgen g hg⟩
  | succ k ih =>
    intro A hA hcl hgen
    by_cases hk : ∀ g ∈ A, c (pre A k) g = true
    · exact ih A hA hcl hk
    · -- the parent `P = (A ∩ [0,k))''`
      let P := (List.range n).filter (c (pre A k))
      have hPmem : ∀ g, g ∈ P ↔ (g < n ∧ c (pre A k) g = true) := by
        intro g; simp [P, List.mem_filter, List.mem_range]
      have hPr : InR n P := fun g hg => ((hPmem g).mp hg).1
      have hPcl : Closed n c P := by
        intro g hg hcg
        rw [hPmem]
        exact ⟨hg, hy.c_trans P (pre A k) (fun x hx => ((hPmem x).mp hx).2) g hcg⟩
      have hpreAP : ∀ g ∈ pre A k, g ∈ pre P k := by
        intro g hg
        obtain ⟨h1, h2⟩ := mem_pre.mp hg
        exact mem_pre.mpr ⟨(hPmem g).mpr ⟨hA g h1, hy.c_ext _ g hg⟩, h2⟩
      have hPgen : ∀ g ∈ P, c (pre P k) g = true := by
        intro g hg
        exact c_mono hy hpreAP g ((hPmem g).mp hg).2
      obtain ⟨p, hp, hpP⟩ := ih P hPr hPcl hPgen
      obtain ⟨hpr, hpnd, hpcan, hpe, hmin⟩ := hinv.outGood p hp
      have hPA : ∀ g ∈ P, g ∈ A := by
        intro g hg
        obtain ⟨h1, h2⟩ := (hPmem g).mp hg
        exact hcl g h1 (c_mono hy (fun x hx => (mem_pre.mp hx).1) g h2)
      -- `lo p.1 ≤ k`
      have hlo : lo p.1 ≤ k := by
        apply hmin k
        intro g hg
        have hgP := (hpP g).mp hg
        refine c_mono hy ?_ g (hPgen g hgP)
        intro x hx
        obtain ⟨h1, h2⟩ := mem_pre.mp hx
        exact mem_pre.mpr ⟨(hpP x).mpr h1, h2⟩
      have hkA : k ∈ A := by
        apply Classical.byContradiction
        intro hkA
        apply hk
        intro g hg
        refine c_mono hy ?_ g (hgen g hg)
        intro x hx
        obtain ⟨h1, h2⟩ := mem_pre.mp hx
        refine mem_pre.mpr ⟨h1, ?_⟩
        have : x ≠ k := fun e => hkA (e ▸ h1)
        omega
      have hkn : k < n := hA k hkA
      have hpre1 : ∀ x ∈ pre A (k + 1), x ∈ p.2 ++ [k] := by
        intro x hx
        obtain ⟨h1, h2⟩ := mem_pre.mp hx
        by_cases hxk : x = k
        · simp [hxk]
        · have : x ∈ pre A k := mem_pre.mpr ⟨h1, by omega⟩
          have hxP : x ∈ P := (hPmem x).mpr ⟨hA x h1, hy.c_ext _ x this⟩
          exact List.mem_append_left _ ((hpP x).mpr hxP)
      have hkp : k ∉ p.2 := by
        intro hkp
        apply hk
        intro g hg
        have h1 := hgen g hg
        have hsub : ∀ x ∈ pre A (k + 1), c (pre A k) x = true := by
          intro x hx
          rcases List.mem_append.mp (hpre1 x hx) with h | h
          · exact ((hPmem x).mp ((hpP x).mp h)).2
          · simp at h; subst h
            exact ((hPmem _).mp ((hpP _).mp hkp)).2
        exact hy.c_trans _ _ hsub g h1
      -- the closure of the child combination is `A`
      have hchildA : ∀ g, g < n → (c (p.2 ++ [k]) g = true ↔ g ∈ A) := by
        intro g hg
        constructor
        · intro h
          apply hcl g hg
          refine c_mono hy ?_ g h
          intro x hx
          rcases List.mem_append.mp hx with h | h
          · exact hPA x ((hpP x).mp h)
          · simp at h; subst h; exact hkA
        · intro h
          exact c_mono hy hpre1 g (hgen g h)
      have hcanon : Canon c (p.2 ++ [k]) := by
        intro l hl g hgl hcg
        rw [combLast_concat] at hl
        injection hl with hl
        subst hl
        have hgA := (hchildA g (by omega)).mp hcg
        have : g ∈ pre A k := mem_pre.mpr ⟨hgA, hgl⟩
        have hgP : g ∈ P := (hPmem g).mpr ⟨hA g hgA, hy.c_ext _ g this⟩
        exact List.mem_append_left _ ((hpP g).mpr hgP)
      rcases hinv.kids p hp k hlo hkn hkp with h | h
      · rw [hst] at h; cases h
      · rcases h with h | ⟨q, hq, hqc⟩
        · exact absurd hcanon h
        · refine ⟨q, hq, fun g => ?_⟩
          rw [hqc g]
          constructor
          · rintro ⟨h1, h2⟩; exact (hchildA g h1).mp h2
          · intro hg; exact ⟨hA g hg, (hchildA g (hA g hg)).mpr hg⟩

theorem pre_full {A : List Nat} (hA : InR n A) : pre A n = A := by
  unfold pre
  apply List.filter_eq_self.mpr
  intro g hg
  simp [hA g hg]

/-- every closed set is emitted -/
theorem complete (hy : Hyp v n intention extIter c) {s : CboSt ι}
    (hinv : Inv (intention := intention) n c s) (hst : s.stack = [])
    (A : List Nat) (hA : InR n A) (hcl : Closed n c A) :
    ∃ p ∈ s.out, ∀ g, g ∈ p.2 ↔ g ∈ A := by
  apply complete_aux hy hinv hst n A hA hcl
  intro g hg
  rw [pre_full hA]
  exact hy.c_ext A g hg

/-- every emission is the closure of its combination: in range, duplicate-free, closed -/
theorem sound (hy : Hyp v n intention extIter c) {s : CboSt ι}
    (hinv : Inv (intention := intention) n c s) (p : List Nat × List Nat) (hp : p ∈ s.out) :
    InR n p.2 ∧ p.2.Nodup ∧ Closed n c p.2 := by
  obtain ⟨hpr, hpnd, hpcan, hpe, _⟩ := hinv.outGood p hp
  have hcl := mem_extentOf hy hpr hpcan
  rw [← hpe] at hcl
  refine ⟨fun g hg => ((hcl g).mp hg).1, ?_, IsCl_closed hy hcl⟩
  rw [hpe]; exact extentOf_nodup hpnd

end
end Fca.CbOM

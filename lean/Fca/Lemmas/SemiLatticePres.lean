/-
  Lemmas/SemiLatticePres — presence of closed-relation cache entries (`_cache_descendants`, `_cache_ancestors`) is
  never lost by a query, and `__delitem__` keeps (re-indexed) every entry but the erased one.  Holds for every
  state (no invariant needed).  Used for the invariant `Complete` of the caching semilattice.
-/
import Fca.Lemmas.SemiLatticeHist
set_option linter.unusedSectionVars false
set_option linter.unusedVariables false
namespace Fca.Poset
open Fca

section
variable {α : Type} [DecidableEq α] {leq : α → α → Bool} {ord : List Nat → List Nat}

/-- `m` never drops an entry of a closed-relation cache -/
structure Pres {β : Type} (m : M α β) : Prop where
  h : ∀ s d k, (alookup k (s.closed d)).isSome = true → (alookup k ((m s).1.closed d)).isSome = true

theorem pres_pure {β : Type} (b : β) : Pres (pure b : M α β) := ⟨fun _ _ _ h => h⟩
theorem pres_throw {β : Type} (e : PyErr) : Pres (M.throw e : M α β) := ⟨fun _ _ _ h => h⟩
theorem pres_get : Pres (M.get : M α (St α)) := ⟨fun _ _ _ h => h⟩
theorem pres_ofExcept {β : Type} (x : Except PyErr β) : Pres (M.ofExcept x : M α β) := by
  cases x <;> exact ⟨fun _ _ _ h => h⟩
theorem pres_modify {f : St α → St α}
    (hf : ∀ s d k, (alookup k (s.closed d)).isSome = true → (alookup k ((f s).closed d)).isSome = true) :
    Pres (M.modify f : M α Unit) := ⟨hf⟩

theorem pres_bind {β γ : Type} {m : M α β} {f : β → M α γ} (hm : Pres m) (hf : ∀ b, Pres (f b)) :
    Pres (m >>= f) := by
  constructor
  intro s d k hk
  show (alookup k ((M.bind m f s).1.closed d)).isSome = true
  unfold M.bind
  have h1 := hm.h s d k hk
  cases hr : m s with
  | mk s' r =>
    rw [hr] at h1
    cases r with
    | error e => exact h1
    | ok b => exact (hf b).h s' d k h1

theorem pres_filterM {p : Nat → M α Bool} (hp : ∀ i, Pres (p i)) (l : List Nat) : Pres (M.filterM p l) := by
  induction l with
  | nil => exact pres_pure _
  | cons i is ih =>
    unfold M.filterM
    exact pres_bind (hp i) fun b => pres_bind ih fun r => pres_pure _

theorem pres_foldM {β : Type} {f : β → Nat → M α β} (hf : ∀ a x, Pres (f a x)) (acc : β) (l : List Nat) :
    Pres (M.foldM f acc l) := by
  induction l generalizing acc with
  | nil => exact pres_pure _
  | cons x xs ih =>
    unfold M.foldM
    exact pres_bind (hf acc x) fun a => ih a

theorem pres_forM {f : Nat → M α Unit} (hf : ∀ x, Pres (f x)) (l : List Nat) : Pres (M.forM f l) := by
  induction l with
  | nil => exact pres_pure _
  | cons x xs ih =>
    unfold M.forM
    exact pres_bind (hf x) fun _ => ih

theorem pres_leqE (a b : Nat) : Pres (leqE leq a b) := by
  constructor
  intro s d k hk
  unfold leqE
  split
  · split
    · exact hk
    · split
      · exact hk
      · split
        · exact hk
        · split
          · exact hk
          · cases d <;> exact hk
  · exact hk

theorem pres_leqDir (d : Dir) (i e : Nat) : Pres (leqDir leq d i e) := by
  cases d <;> exact pres_leqE _ _

theorem pres_closedNocache (d : Dir) (e : Nat) : Pres (closedNocache leq d e) := by
  unfold closedNocache
  exact pres_bind pres_get fun s => pres_filterM (fun i => pres_bind (pres_leqDir d i e) fun r => pres_pure _) _

/-- `d[k] = v` on one closed cache keeps all entries -/
theorem pres_insertClosed (d : Dir) (e : Nat) (r : List Nat) :
    Pres (M.modify fun s => s.setClosed d (ainsert e r (s.closed d)) : M α Unit) := by
  apply pres_modify
  intro s d' k hk
  rw [closed_setClosed_any]
  split
  · rename_i hd; subst hd
    rw [alookup_ainsert]
    split
    · rfl
    · exact hk
  · exact hk

theorem pres_setDirect (d : Dir) (g : St α → Cache) :
    Pres (M.modify fun s => s.setDirect d (g s) : M α Unit) :=
  pres_modify fun s d' k hk => by rw [closed_setDirect]; exact hk

theorem pres_closedE (d : Dir) (e : Nat) : Pres (closedE leq d e) := by
  unfold closedE
  refine pres_bind pres_get fun s => ?_
  split
  · split
    · exact pres_pure _
    · exact pres_bind (pres_closedNocache d e) fun r => pres_bind (pres_insertClosed d e r) fun _ => pres_pure _
  · exact pres_closedNocache d e

theorem pres_directNocache (d : Dir) (e : Nat) : Pres (directNocache leq ord d e) := by
  unfold directNocache
  refine pres_bind (pres_closedE d e) fun xs => pres_foldM (fun acc x => ?_) _ _
  split
  · exact pres_bind (pres_closedE d x) fun a => pres_pure _
  · exact pres_pure _

theorem pres_directE (d : Dir) (e : Nat) : Pres (directE leq ord d e) := by
  unfold directE
  refine pres_bind pres_get fun s => ?_
  split
  · split
    · exact pres_pure _
    · exact pres_bind (pres_directNocache d e) fun r => pres_bind (pres_setDirect d _) fun _ => pres_pure _
  · exact pres_directNocache d e

theorem pres_extremesE (d : Dir) : Pres (extremesE leq d) := by
  unfold extremesE
  exact pres_bind pres_get fun s => pres_filterM (fun i => pres_bind (pres_closedE d i) fun a => pres_pure _) _

theorem pres_boundE (d : Dir) (S : List Nat) : Pres (boundE leq ord d S) := by
  unfold boundE
  refine pres_bind pres_get fun s => ?_
  dsimp only
  split
  · exact pres_throw _
  · exact pres_bind (pres_closedE (leq := leq) d _) fun a0 =>
      pres_bind (pres_foldM (fun acc y => pres_bind (pres_closedE d y) fun a => pres_pure _) _ _) fun j1 =>
      pres_bind (pres_foldM (fun acc y => pres_bind (pres_closedE d y) fun a => pres_pure _) _ _) fun j2 =>
      pres_pure _

theorem pres_indexE (e : α) : Pres (indexE e : M α Nat) := by
  unfold indexE
  refine pres_bind pres_get fun s => ?_
  split
  · exact pres_pure _
  · exact pres_throw _

theorem pres_eqLoop (O : List α) (l : List Nat) : Pres (eqLoop leq O l) := by
  induction l with
  | nil => exact pres_pure _
  | cons i is ih =>
    unfold eqLoop
    refine pres_bind pres_get fun s => pres_bind (pres_closedE .desc i) fun mine => ?_
    split
    · exact pres_throw _
    · split
      · exact pres_throw _
      · split
        · exact ih
        · exact pres_pure _

theorem pres_eqE (O : List α) : Pres (eqE leq O) := by
  unfold eqE
  refine pres_bind pres_get fun s => ?_
  split
  · exact pres_eqLoop O _
  · exact pres_pure _

theorem pres_fillLeq : Pres (fillLeq leq : M α Unit) := by
  unfold fillLeq
  refine pres_bind pres_get fun s => pres_forM (fun i => pres_forM (fun j => ?_) _) _
  refine pres_bind pres_get fun s => ?_
  split
  · exact pres_pure _
  · exact pres_bind (pres_leqE i j) fun _ => pres_pure _

theorem pres_fillClosed (d : Dir) : Pres (fillClosed leq d : M α Unit) := by
  unfold fillClosed
  exact pres_bind pres_get fun s => pres_forM (fun i => pres_bind (pres_closedE d i) fun _ => pres_pure _) _

theorem pres_fillDirect (d : Dir) : Pres (fillDirect leq ord d : M α Unit) := by
  unfold fillDirect
  exact pres_bind pres_get fun s => pres_forM (fun i => pres_bind (pres_directE d i) fun _ => pres_pure _) _

theorem pres_fillE (k : FillKind) : Pres (fillE leq ord k : M α Unit) := by
  unfold fillE
  refine pres_bind pres_get fun s => ?_
  split
  · cases k
    · exact pres_fillLeq
    · exact pres_fillClosed _
    · exact pres_fillClosed _
    · exact pres_fillDirect _
    · exact pres_fillDirect _
    · exact pres_bind pres_fillLeq fun _ => pres_bind (pres_fillClosed _) fun _ =>
        pres_bind (pres_fillClosed _) fun _ => pres_bind (pres_fillDirect _) fun _ => pres_fillDirect _
  · exact pres_throw _

theorem step_query_pres (s : St α) (o : Op α) (ho : isMutation o = false) (d : Dir) (k : Nat)
    (hk : (alookup k (s.closed d)).isSome = true) :
    (alookup k ((step leq ord s o).1.closed d)).isSome = true := by
  cases o with
  | leq i j => exact (pres_leqE (leq := leq) i j).h s d k hk
  | closed d' i => exact (pres_closedE (leq := leq) d' i).h s d k hk
  | direct d' i => exact (pres_directE (leq := leq) (ord := ord) d' i).h s d k hk
  | extremes d' => exact (pres_extremesE (leq := leq) d').h s d k hk
  | bound d' S => exact (pres_boundE (leq := leq) (ord := ord) d' S).h s d k hk
  | index e => exact (pres_indexE e).h s d k hk
  | add e f => cases ho
  | del i => cases ho
  | remove e => cases ho
  | eqOther O => exact (pres_eqE (leq := leq) O).h s d k hk
  | fillUp k' => exact (pres_fillE (leq := leq) (ord := ord) k').h s d k hk

/-! ### `__delitem__` -/

theorem pres_lookupOrKeyError (k : Nat) (c : Cache) : Pres (lookupOrKeyError k c : M α (List Nat)) := by
  unfold lookupOrKeyError
  split
  · exact pres_pure _
  · exact pres_throw _

theorem pres_reconnectDirect (d : Dir) (item : Nat) (own : Option (List Nat)) :
    Pres (reconnectDirect ord d item own : M α Unit) := by
  unfold reconnectDirect
  refine pres_bind pres_get fun s => pres_forM (fun p => ?_) _
  refine pres_bind pres_get fun s => pres_bind (pres_lookupOrKeyError _ _) fun cur => ?_
  split
  · exact pres_setDirect _ _
  · dsimp only
    split
    · refine pres_bind (pres_foldM (fun acc c => ?_) _ _) fun nc' => pres_setDirect _ _
      exact pres_bind pres_get fun s => pres_bind (pres_lookupOrKeyError _ _) fun dc => pres_pure _
    · exact pres_setDirect _ _

theorem pres_reconnectClosed (d : Dir) (item : Nat) (own : Option (List Nat)) :
    Pres (reconnectClosed ord d item own : M α Unit) := by
  unfold reconnectClosed
  refine pres_forM (fun a => pres_bind pres_get fun s => ?_) _
  split
  · exact pres_pure _
  · exact pres_insertClosed _ _ _

theorem isSome_decrementCache {c : Cache} {k j : Nat} (hj : j ≠ k) (h : (alookup j c).isSome = true) :
    (alookup (decrIdx j k) (decrementCache c k)).isSome = true := by
  have h2 := alookup_filterMap (fun j => decide (j ≠ k)) (fun j => decrIdx j k)
    (fun v : List Nat => (v.filter (fun i => i ≠ k)).map (fun i => decrIdx i k))
    (fun a b ha hb hab => decr_inj (by simpa using ha) (by simpa using hb) hab) c j (by simpa using hj)
  rw [decrementCache_eq]
  have h3 : (alookup ((fun j => decrIdx j k) j) (c.filterMap fun p =>
      if (fun j => decide (j ≠ k)) p.1 then
        some ((fun j => decrIdx j k) p.1, (fun v : List Nat => (v.filter (fun i => i ≠ k)).map (fun i => decrIdx i k)) p.2)
      else none)).isSome = true := by
    rw [h2, Option.isSome_map]; exact h
  exact h3

/-- `m` never drops a closed-relation entry at a key other than `k` -/
structure PresNe {β : Type} (k : Nat) (m : M α β) : Prop where
  h : ∀ s d j, j ≠ k → (alookup j (s.closed d)).isSome = true → (alookup j ((m s).1.closed d)).isSome = true

theorem Pres.ne {β : Type} {m : M α β} (h : Pres m) (k : Nat) : PresNe k m := ⟨fun s d j _ hj => h.h s d j hj⟩

theorem presNe_bind {β γ : Type} {k : Nat} {m : M α β} {f : β → M α γ} (hm : PresNe k m)
    (hf : ∀ b, PresNe k (f b)) : PresNe k (m >>= f) := by
  constructor
  intro s d j hj hk
  show (alookup j ((M.bind m f s).1.closed d)).isSome = true
  unfold M.bind
  have h1 := hm.h s d j hj hk
  cases hr : m s with
  | mk s' r =>
    rw [hr] at h1
    cases r with
    | error e => exact h1
    | ok b => exact (hf b).h s' d j hj h1

theorem presNe_reconnectRelatives (k : Nat) : PresNe k (reconnectRelatives ord k : M α Unit) := by
  unfold reconnectRelatives
  refine presNe_bind (pres_get.ne k) fun s => ?_
  refine presNe_bind ⟨fun s d j hj h => ?_⟩ fun _ => ?_
  · cases d
    · exact h
    · show (alookup j (aerase k s.ancC)).isSome = true
      rw [alookup_aerase, if_neg hj]; exact h
  refine presNe_bind ⟨fun s d j hj h => ?_⟩ fun _ => ?_
  · cases d
    · show (alookup j (aerase k s.descC)).isSome = true
      rw [alookup_aerase, if_neg hj]; exact h
    · exact h
  refine presNe_bind ⟨fun s d j hj h => by cases d <;> exact h⟩ fun _ => ?_
  refine presNe_bind ⟨fun s d j hj h => by cases d <;> exact h⟩ fun _ => ?_
  exact presNe_bind ((pres_reconnectDirect _ _ _).ne k) fun _ => presNe_bind ((pres_reconnectDirect _ _ _).ne k)
    fun _ => presNe_bind ((pres_reconnectClosed _ _ _).ne k) fun _ => (pres_reconnectClosed _ _ _).ne k

/-- `del self[k]` on a caching instance: every other closed-relation entry survives, at its shifted key -/
theorem delE_pres {k : Nat} {s : St α} (hk : k < s.elems.length) (hc : s.useCache = true)
    (hok : (delE ord k s).2 = .ok ()) (d : Dir) {j : Nat}
    (hj : j ≠ k) (h : (alookup j (s.closed d)).isSome = true) :
    (alookup (decrIdx j k) ((delE ord k s).1.closed d)).isSome = true := by
  have hrec := (presNe_reconnectRelatives (α := α) (ord := ord) k).h { s with elems := s.elems.eraseIdx k } d j hj
    (by cases d <;> exact h)
  have hd : delE ord k s = (reconnectRelatives ord k >>= fun _ => (M.modify fun s => { s with
        leqC := decrementLeq s.leqC k, descC := decrementCache s.descC k, ancC := decrementCache s.ancC k,
        chilC := decrementCache s.chilC k, parC := decrementCache s.parC k } : M α Unit))
        { s with elems := s.elems.eraseIdx k } := by
    simp only [delE, bind, M.bind, M.get, M.modify, hk, hc, ↓reduceIte]
  rw [hd] at hok ⊢
  show (alookup (decrIdx j k) ((M.bind _ _ _).1.closed d)).isSome = true
  change (M.bind _ _ _).2 = _ at hok
  unfold M.bind at hok ⊢
  cases hr : reconnectRelatives ord k { s with elems := s.elems.eraseIdx k } with
  | mk s' r =>
    rw [hr] at hrec hok
    cases r with
    | error e => simp at hok
    | ok u =>
      simp only [M.modify]
      cases d
      · exact isSome_decrementCache hj hrec
      · exact isSome_decrementCache hj hrec

end
end Fca.Poset

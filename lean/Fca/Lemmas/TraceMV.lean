/-
  Fca.Lemmas.TraceMV — the many-valued half of C17: in a lattice of genuine pattern concepts of an interval
  training context, satisfaction is inherited upward (`upward_mv`), for ANY traced interval context.

    * `mem_mvExtLoop` / `mem_mvExtensionI`: the narrowing loop of `MVContext.extension_i` with its early exit
      computes the conjunction over the description's entries (= `Spec.mvSatisfies`);
    * `pyIntentionI_anti`: the interval hull (`IntervalPS.intention_i`, C13 model) is antitone in the extent —
      the description of a sub-extent is narrower; the empty extent's `None` is satisfied by nothing;
    * `mvIntLoop_anti`: the same for the whole description (one entry per column, same keys in the same order);
    * connections to the C13 model/spec (`ipsExtensionI_eq_spec`, `ipsExtensionI_eq_py`) and to the C14 model
      (`mvIntentionI_eq_mv`).
-/
import Fca.Lemmas.Trace
import Fca.Spec.TraceMV
import Fca.Lemmas.PS
import Fca.Lemmas.MVContext
namespace Fca.Trace
open Fca

/-! ### `extension_i`: the early exit does not matter -/

/-- object `g` of the column `data` falls into the interval description `d` (`None` is satisfied by nothing;
    an object the column has no cell for satisfies nothing) -/
def ipsSat (data : List (Int × Int)) (d : Option (Int × Int)) (g : Nat) : Bool :=
  match d, data[g]? with
  | some (lo, hi), some (a, b) => decide (lo ≤ a) && decide (b ≤ hi)
  | _, _ => false

theorem ipsSat_none (data : List (Int × Int)) (g : Nat) : ipsSat data none g = false := rfl

theorem mem_ipsExtensionI {data : List (Int × Int)} {d : Option (Int × Int)} {base : List Nat} {g : Nat} :
    g ∈ ipsExtensionI data d base ↔ g ∈ base ∧ ipsSat data d g = true := by
  unfold ipsExtensionI ipsSat
  cases d with
  | none => simp
  | some v =>
    obtain ⟨lo, hi⟩ := v
    simp only [List.mem_filter]
    cases data[g]? with
    | none => simp
    | some w => obtain ⟨a, b⟩ := w; simp

/-- the loop `for ps_i, description in descriptions_i.items(): extent_i = ps.extension_i(..); if empty: break`
    returns the objects of the start list satisfying EVERY entry (an early exit returns the empty list, and
    then indeed no object satisfies every entry) -/
theorem mem_mvExtLoop (K : MVCtx) (desc : Spec.MVDesc) : ∀ (ext : List Nat) (g : Nat),
    g ∈ mvExtLoop K desc ext ↔ g ∈ ext ∧ ∀ pd ∈ desc, ipsSat (K.cols.getD pd.1 []) pd.2 g = true := by
  induction desc with
  | nil => intro ext g; simp [mvExtLoop]
  | cons pd rest ih =>
    intro ext g
    obtain ⟨p, d⟩ := pd
    simp only [mvExtLoop]
    split
    · rename_i h0
      have hnil : ipsExtensionI (K.cols.getD p []) d ext = [] := List.eq_nil_of_length_eq_zero h0
      rw [hnil]
      constructor
      · intro h; cases h
      · rintro ⟨hg, hall⟩
        have : g ∈ ipsExtensionI (K.cols.getD p []) d ext :=
          mem_ipsExtensionI.mpr ⟨hg, hall (p, d) List.mem_cons_self⟩
        rw [hnil] at this; exact this
    · rw [ih, mem_ipsExtensionI]
      constructor
      · rintro ⟨⟨hg, h1⟩, h2⟩
        refine ⟨hg, ?_⟩
        intro pd hpd
        rcases List.mem_cons.mp hpd with rfl | hpd
        · exact h1
        · exact h2 pd hpd
      · rintro ⟨hg, hall⟩
        exact ⟨⟨hg, hall (p, d) List.mem_cons_self⟩, fun pd hpd => hall pd (List.mem_cons_of_mem _ hpd)⟩

theorem mem_mvExtensionI' (K : MVCtx) (desc : Spec.MVDesc) (g : Nat) :
    g ∈ mvExtensionI K desc ↔ g < K.nObjects ∧ ∀ pd ∈ desc, ipsSat (K.cols.getD pd.1 []) pd.2 g = true := by
  unfold mvExtensionI
  rw [mem_mvExtLoop, List.mem_range]

/-- `MVContext.extension_i(description)` = the objects satisfying the description (`Spec.mvSatisfies`) -/
theorem mem_mvExtensionI (K : MVCtx) (desc : Spec.MVDesc) (g : Nat) :
    g ∈ mvExtensionI K desc ↔ Spec.mvSatisfies K desc g = true := by
  rw [mem_mvExtensionI']
  unfold Spec.mvSatisfies
  simp only [Bool.and_eq_true, decide_eq_true_eq, List.all_eq_true]
  rfl

theorem mvExtensionI_lt (K : MVCtx) (desc : Spec.MVDesc) : ∀ g ∈ mvExtensionI K desc, g < K.nObjects :=
  fun g hg => ((mem_mvExtensionI' K desc g).mp hg).1

/-! ### `intention_i`: the interval hull is antitone in the extent -/

/-- every object (of every column) satisfying `d'` satisfies `d` -/
def Narrower (d' d : Option (Int × Int)) : Prop :=
  ∀ (data : List (Int × Int)) (g : Nat), ipsSat data d' g = true → ipsSat data d g = true

theorem pyIntentionI_nil (data : List (Int × Int)) : PS.pyIntentionI data [] = .ok none := rfl

/-- `IntervalPS.intention_i` of a sub-extent is a narrower description: for a non-empty sub-extent the hull
    ranges over a subset (`lo_A ≤ lo_B ∧ hi_B ≤ hi_A`), for the empty one the description is `None` -/
theorem pyIntentionI_anti (data : List (Int × Int)) (A B : List Nat) (hBA : ∀ x ∈ B, x ∈ A)
    (dA dB : Option (Int × Int)) (hA : PS.pyIntentionI data A = .ok dA)
    (hB : PS.pyIntentionI data B = .ok dB) : Narrower dB dA := by
  by_cases hBn : B = []
  · subst hBn
    rw [pyIntentionI_nil] at hB
    cases hB
    intro data' g h
    rw [ipsSat_none] at h; cases h
  · have hAn : A ≠ [] := by
      intro h; subst h
      cases B with
      | nil => exact hBn rfl
      | cons b bs => exact absurd (hBA b List.mem_cons_self) (by simp)
    have hAr : ∀ g ∈ A, g < data.length := by
      rcases PS.inRange_or_not A data.length with h | h
      · exact h
      · rw [PS.pyIntentionI_err data A h] at hA; cases hA
    have hBr : ∀ g ∈ B, g < data.length := fun g hg => hAr g (hBA g hg)
    obtain ⟨hullA, hA', HA⟩ := PS.pyIntentionI_hull data A hAn hAr
    obtain ⟨hullB, hB', HB⟩ := PS.pyIntentionI_hull data B hBn hBr
    rw [hA] at hA'; rw [hB] at hB'
    cases hA'; cases hB'
    obtain ⟨loA, hiA⟩ := hullA
    obtain ⟨loB, hiB⟩ := hullB
    obtain ⟨gl, hgl, hgl'⟩ := HB.2.1
    obtain ⟨gr, hgr, hgr'⟩ := HB.2.2
    have h1 := (HA.1 gl (hBA gl hgl)).1
    have h2 := (HA.1 gr (hBA gr hgr)).2
    simp only at hgl' hgr' h1 h2
    intro data' g h
    unfold ipsSat at h ⊢
    cases hc : data'[g]? with
    | none => rw [hc] at h; simp at h
    | some w =>
      obtain ⟨a, b⟩ := w
      rw [hc] at h
      simp only [Bool.and_eq_true, decide_eq_true_eq] at h ⊢
      constructor <;> omega

/-- the descriptions of an extent and of a sub-extent have, column by column, the same keys, and the
    sub-extent's entries are narrower -/
theorem mvIntLoop_anti (A B : List Nat) (hBA : ∀ x ∈ B, x ∈ A) (cols : List (List (Int × Int))) :
    ∀ (p : Nat) (dA dB : Spec.MVDesc), Spec.mvIntLoop A cols p = .ok dA → Spec.mvIntLoop B cols p = .ok dB →
      ∀ pd ∈ dA, ∃ pd' ∈ dB, pd'.1 = pd.1 ∧ Narrower pd'.2 pd.2 := by
  induction cols with
  | nil =>
    intro p dA dB hA _ pd hpd
    simp only [Spec.mvIntLoop] at hA
    cases hA; cases hpd
  | cons col cols ih =>
    intro p dA dB hA hB pd hpd
    simp only [Spec.mvIntLoop] at hA hB
    cases hcA : PS.pyIntentionI col A with
    | error e => rw [hcA] at hA; cases hA
    | ok a =>
      cases hcB : PS.pyIntentionI col B with
      | error e => rw [hcB] at hB; cases hB
      | ok b =>
        rw [hcA] at hA; rw [hcB] at hB
        simp only at hA hB
        cases hrA : Spec.mvIntLoop A cols (p + 1) with
        | error e => rw [hrA] at hA; cases hA
        | ok rA =>
          cases hrB : Spec.mvIntLoop B cols (p + 1) with
          | error e => rw [hrB] at hB; cases hB
          | ok rB =>
            rw [hrA] at hA; rw [hrB] at hB
            simp only at hA hB
            cases hA; cases hB
            rcases List.mem_cons.mp hpd with rfl | hpd
            · exact ⟨(p, b), List.mem_cons_self, rfl, pyIntentionI_anti col A B hBA a b hcA hcB⟩
            · obtain ⟨pd', hpd', h1, h2⟩ := ih (p + 1) rA rB hrA hrB pd hpd
              exact ⟨pd', List.mem_cons_of_mem _ hpd', h1, h2⟩

/-- the shape of `MVContext.intention_i`: one entry per column, keyed `p, p+1, …` in column order -/
theorem mvIntLoop_keys (A : List Nat) (cols : List (List (Int × Int))) :
    ∀ (p : Nat) (d : Spec.MVDesc), Spec.mvIntLoop A cols p = .ok d →
      d.map Prod.fst = List.range' p cols.length := by
  induction cols with
  | nil => intro p d h; simp only [Spec.mvIntLoop] at h; cases h; rfl
  | cons col cols ih =>
    intro p d h
    simp only [Spec.mvIntLoop] at h
    cases hc : PS.pyIntentionI col A with
    | error e => rw [hc] at h; cases h
    | ok a =>
      rw [hc] at h
      simp only at h
      cases hr : Spec.mvIntLoop A cols (p + 1) with
      | error e => rw [hr] at h; cases h
      | ok r =>
        rw [hr] at h
        simp only at h
        cases h
        simp [List.range'_succ, ih (p + 1) r hr]

/-! ### a list of genuine pattern concepts gives order data and upward inheritance -/

section mv
variable {KTrain : MVCtx} {cs : List (List Nat × Spec.MVDesc)} {L : Lat}
  (hL : Spec.IsMVTraceLatticeOf KTrain cs L)
include hL

theorem mvConcept_at {i : Nat} (hi : i < cs.length) :
    Spec.IsPatternConcept KTrain ((cs.map Prod.fst).getD i [], (cs.map Prod.snd).getD i []) := by
  rw [List.getD_eq_getElem?_getD, List.getD_eq_getElem?_getD, List.getElem?_map, List.getElem?_map,
    List.getElem?_eq_getElem hi]
  exact hL.concepts _ (List.getElem_mem hi)

theorem mvIntent_eq {i : Nat} (hi : i < cs.length) :
    Spec.mvIntentionI KTrain ((cs.map Prod.fst).getD i []) = .ok ((cs.map Prod.snd).getD i []) := by
  have h := (mvConcept_at hL hi).2.1
  simp only at h
  split at h
  · rename_i d hd; rw [hd, h]
  · exact absurd h id

/-- genuine descriptions have exactly one entry per column of the training context, in column order -/
theorem mvIntent_keys {i : Nat} (hi : i < cs.length) :
    ((cs.map Prod.snd).getD i []).map Prod.fst = List.range KTrain.cols.length := by
  have := mvIntLoop_keys _ _ 0 _ (mvIntent_eq hL hi)
  rw [this, List.range_eq_range']

theorem IsMVTraceLatticeOf.orderData : Spec.IsOrderData (cs.map Prod.fst) L := by
  have hlen : (cs.map Prod.fst).length = cs.length := by simp
  refine ⟨?_, ?_, ?_, ?_, ?_⟩
  · intro i hi; rw [hlen] at hi; exact (mvConcept_at hL hi).1
  · rw [hlen]; exact hL.size
  · intro i hi; rw [hlen] at hi; exact hL.covers i hi
  · rw [hlen]; exact hL.top_lt
  · intro i hi; rw [hlen] at hi; exact hL.top_greatest i hi

/-- **the key lemma, many-valued**: in a lattice of genuine pattern concepts of an interval training context,
    a concept above another (larger extent) describes at least the objects of ANY traced interval context
    (seen or unseen objects, whatever its shape) the lower one describes -/
theorem upward_mv (K : MVCtx) :
    Spec.Upward (cs.map Prod.fst) (fun c => mvExtensionI K ((cs.map Prod.snd).getD c [])) := by
  intro i j hi hj hsub g hg
  simp only [List.length_map] at hi hj
  simp only at hg ⊢
  rw [mem_mvExtensionI'] at hg ⊢
  refine ⟨hg.1, ?_⟩
  intro pd hpd
  obtain ⟨pd', hpd', hk, hn⟩ := mvIntLoop_anti _ _ hsub KTrain.cols 0 _ _
    (mvIntent_eq hL hi) (mvIntent_eq hL hj) pd hpd
  have := hg.2 pd' hpd'
  rw [hk] at this
  exact hn _ g this

end mv

/-- `MVContext.extension_i` only returns object indexes of the traced context -/
theorem ext_lt_mv (intents : List Spec.MVDesc) (K : MVCtx) :
    ∀ i, ∀ g ∈ (fun c => mvExtensionI K (intents.getD c [])) i, g < K.nObjects :=
  fun _ g hg => mvExtensionI_lt K _ g hg

theorem mem_mvDescribing {K : MVCtx} {intents : List Spec.MVDesc} {g i : Nat} :
    i ∈ Spec.mvDescribing K intents g ↔ i < intents.length ∧ g ∈ mvExtensionI K (intents.getD i []) := by
  simp [Spec.mvDescribing, List.mem_filter, mem_mvExtensionI]

/-- with a well-formed traced context over the same columns no lookup of the real code can fail (and none of
    the model's total lookups falls back to a default): every entry of every genuine description addresses an
    existing column of the traced context, which has a cell for every object -/
theorem mv_lookups_total {KTrain : MVCtx} {cs : List (List Nat × Spec.MVDesc)} {L : Lat}
    (hL : Spec.IsMVTraceLatticeOf KTrain cs L) {K : MVCtx} (hK : Spec.IsTracedMVCtx KTrain K) :
    ∀ i, i < cs.length → ∀ pd ∈ (cs.map Prod.snd).getD i [],
      ∃ col, K.cols[pd.1]? = some col ∧ ∀ g, g < K.nObjects → ∃ cell, col[g]? = some cell := by
  intro i hi pd hpd
  have hk : pd.1 ∈ ((cs.map Prod.snd).getD i []).map Prod.fst := List.mem_map_of_mem hpd
  rw [mvIntent_keys hL hi, List.mem_range, ← hK.cols] at hk
  refine ⟨K.cols[pd.1], List.getElem?_eq_getElem hk, ?_⟩
  intro g hg
  have hlen := hK.wf _ (List.getElem_mem hk)
  exact ⟨_, List.getElem?_eq_getElem (by omega)⟩

theorem keys_idx (names : List String) (n : Nat) :
    (List.range n).map (Spec.keyOf true names) = (List.range n).map Key.idx := rfl

theorem keys_names (names : List String) (n : Nat) (hn : names.length = n) :
    (List.range n).map (Spec.keyOf false names) = names.map Key.name := by
  apply List.ext_getElem?
  intro g
  rw [List.getElem?_map, List.getElem?_map]
  by_cases hg : g < n
  · rw [List.getElem?_range hg, List.getElem?_eq_getElem (by omega)]
    simp [Spec.keyOf, List.getD_eq_getElem?_getD, hn, hg]
  · rw [List.getElem?_eq_none (by simp; omega), List.getElem?_eq_none (by omega)]; rfl

/-! ### connections to the C13 / C14 models -/

/-- `ipsExtensionI` (Model/Trace) is the C13 specification `ext ivCovers` -/
theorem ipsExtensionI_eq_spec (data : List (Int × Int)) (d : Option (Int × Int)) (base : List Nat) :
    ipsExtensionI data d base = Spec.PS.ext Spec.PS.ivCovers data d base := by
  unfold ipsExtensionI Spec.PS.ext
  cases d with
  | none =>
    symm
    apply List.filter_eq_nil_iff.mpr
    intro g _
    cases data[g]? <;> simp [Spec.PS.ivCovers]
  | some v =>
    obtain ⟨lo, hi⟩ := v
    apply List.filter_congr
    intro g _
    cases data[g]? with
    | none => simp
    | some w => obtain ⟨a, b⟩ := w; simp [Spec.PS.ivCovers]

/-- `ipsExtensionI` is what the C13 model of `IntervalPS.extension_i` returns on in-range base objects (and the
    C13 theorems say `IntervalNumpyPS.extension_i` returns the same) -/
theorem ipsExtensionI_eq_py (data : List (Int × Int)) (d : Option (Int × Int)) (base : List Nat)
    (hb : ∀ g ∈ base, g < data.length) :
    PS.pyExtensionI data (PS.IvDesc.ofOpt d) (some base) = .ok (ipsExtensionI data d base) := by
  rw [PS.pyExtensionI_exact data _ d (PS.ivUnpack_ofOpt d) (some base)
    (by intro bs h; cases h; exact hb), ipsExtensionI_eq_spec]
  rfl

/-- on in-range objects the C13 `intention_i` is the C14 one (`Fca.MV.Col.ivIntention`) -/
theorem pyIntentionI_eq_mv (data : List (Int × Int)) (A : List Nat) (hA : ∀ g ∈ A, g < data.length) :
    PS.pyIntentionI data A = .ok (MV.Col.ivIntention data A) := by
  cases A with
  | nil => rfl
  | cons g0 rest =>
    have hg0 : g0 < data.length := hA g0 List.mem_cons_self
    have hloop : ∀ (gs : List Nat) (acc : Int × Int), (∀ g ∈ gs, g < data.length) →
        PS.pyIntLoop data acc gs = .ok (MV.Col.ivLoop data gs acc) := by
      intro gs
      induction gs with
      | nil => intro acc _; rfl
      | cons g gs ih =>
        intro acc hr
        obtain ⟨mn, mx⟩ := acc
        have hg : g < data.length := hr g List.mem_cons_self
        simp only [PS.pyIntLoop, MV.Col.ivLoop, List.getElem?_eq_getElem hg,
          List.getD_eq_getElem?_getD, Option.getD_some]
        exact ih _ (fun x hx => hr x (List.mem_cons_of_mem _ hx))
    simp only [PS.pyIntentionI, List.length_cons, Nat.add_one_ne_zero, ↓reduceIte,
      List.getElem?_eq_getElem hg0, MV.Col.ivIntention, List.getD_eq_getElem?_getD, Option.getD_some,
      hloop rest _ (fun x hx => hA x (List.mem_cons_of_mem _ hx))]

/-- the interval context of Model/Trace as a C14 many-valued context -/
def toMV (K : MVCtx) : MV.MVCtx := ⟨K.cols.map MV.Col.interval, K.nObjects, K.objNames⟩

/-- a description of Model/Trace as a C14 description -/
def toMVDesc (d : Spec.MVDesc) : MV.Desc := d.map fun pd => (pd.1, MV.DVal.ival pd.2)

theorem mvIntLoop_eq_mv (A : List Nat) (cols : List (List (Int × Int)))
    (hA : ∀ c ∈ cols, ∀ g ∈ A, g < c.length) : ∀ (p : Nat) (d : Spec.MVDesc),
    Spec.mvIntLoop A cols p = .ok d →
      ((cols.map MV.Col.interval).zipIdx p).map (fun ci => (ci.2, ci.1.intentionI A)) = toMVDesc d := by
  induction cols with
  | nil => intro p d h; simp only [Spec.mvIntLoop] at h; cases h; rfl
  | cons col cols ih =>
    intro p d h
    simp only [Spec.mvIntLoop, pyIntentionI_eq_mv col A (hA col List.mem_cons_self)] at h
    cases hr : Spec.mvIntLoop A cols (p + 1) with
    | error e => rw [hr] at h; cases h
    | ok r =>
      rw [hr] at h
      simp only at h
      cases h
      have := ih (fun c hc => hA c (List.mem_cons_of_mem _ hc)) (p + 1) r hr
      simp only [List.map_cons, List.zipIdx_cons, toMVDesc, MV.Col.intentionI] at this ⊢
      rw [this]

/-- the description required by `IsPatternConcept` is the C14 model's `MVContext.intention_i` of the extent -/
theorem mvIntentionI_eq_mv (K : MVCtx) (hwf : Spec.MVWF K) (A : List Nat) (hA : ∀ g ∈ A, g < K.nObjects)
    (d : Spec.MVDesc) (h : Spec.mvIntentionI K A = .ok d) : (toMV K).intentionI A = toMVDesc d := by
  unfold MV.MVCtx.intentionI toMV
  exact mvIntLoop_eq_mv A K.cols (fun c hc g hg => by rw [hwf c hc]; exact hA g hg) 0 d h

end Fca.Trace

/-
  Fca.Lemmas.CaspFinal — assembling `orderExtentsComparisonCode`: on a family of extents that is
  duplicate-free (as sets), closed under intersection and whose indexes are below the largest extent
  length, the code-shaped model succeeds and returns exactly the value that the specification-level
  `orderExtentsComparison` is given BY CONTRACT (`id_to_topo_map` a permutation, cover function
  `Spec.covers` of the re-listed extents).
-/
import Fca.Lemmas.CaspOE
import Fca.Lemmas.ConstructOE
namespace Fca.Casp
open Fca.Spec Fca.Construct

theorem sub_iff {a b : List Nat} : Spec.sub a b = true ↔ ∀ x ∈ a, x ∈ b := by
  simp [Spec.sub]

theorem inRange_elim {cs : List (List Nat)} (h : inRangeB cs = true) :
    ∃ N, maxLen cs = .ok N ∧ cs ≠ [] ∧ ∀ e ∈ cs, ∀ x ∈ e, x < N := by
  unfold inRangeB at h
  cases hm : maxLen cs with
  | error e => rw [hm] at h; cases h
  | ok N =>
    rw [hm] at h
    refine ⟨N, rfl, ?_, ?_⟩
    · rintro rfl; cases hm
    · simpa using h

theorem distinct_elim {cs : List (List Nat)} (h : distinctSetsB cs = true) {i j : Nat}
    (hi : i < cs.length) (hj : j < cs.length) (h1 : ∀ x ∈ cs.getD i [], x ∈ cs.getD j [])
    (h2 : ∀ x ∈ cs.getD j [], x ∈ cs.getD i []) : i = j := by
  unfold distinctSetsB at h
  rw [List.all_eq_true] at h
  have := h i (List.mem_range.mpr hi)
  rw [List.all_eq_true] at this
  have := this j (List.mem_range.mpr hj)
  rw [Bool.or_eq_true] at this
  rcases this with e | e
  · simpa using e
  · rw [sub_iff.mpr h1, sub_iff.mpr h2] at e; cases e

theorem closed_elim {cs : List (List Nat)} (h : interClosedB cs = true) {i j : Nat}
    (hi : i < cs.length) (hj : j < cs.length) :
    ∃ k, k < cs.length ∧ ∀ x, x ∈ cs.getD k [] ↔ (x ∈ cs.getD i [] ∧ x ∈ cs.getD j []) := by
  unfold interClosedB at h
  rw [List.all_eq_true] at h
  have := h i (List.mem_range.mpr hi)
  rw [List.all_eq_true] at this
  have := this j (List.mem_range.mpr hj)
  rw [List.any_eq_true] at this
  obtain ⟨k, hk, hh⟩ := this
  simp only [Bool.and_eq_true, sub_iff, List.all_eq_true, Bool.or_eq_true, Bool.not_eq_true',
    List.contains_eq_mem, decide_eq_true_eq, decide_eq_false_iff_not] at hh
  refine ⟨k, List.mem_range.mp hk, fun x => ⟨fun hx => ⟨hh.1.1 x hx, hh.1.2 x hx⟩, fun hx => ?_⟩⟩
  rcases hh.2 x hx.1 with e | e
  · exact absurd hx.2 e
  · exact e

theorem getD_eq_getElem {α : Type} {l : List α} {d : α} {k : Nat} (hk : k < l.length) : l.getD k d = l[k] := by
  rw [List.getD_eq_getElem?_getD, List.getElem?_eq_getElem hk]; rfl

/-- **the code-shaped model computes the contract value** -/
theorem oe_code_eq (cs : List (List Nat)) (hr : inRangeB cs = true) (hd : distinctSetsB cs = true)
    (hc : interClosedB cs = true) :
    ∃ p, PermOK cs.length p ∧
      orderExtentsComparisonCode cs =
        .ok (orderExtentsComparison cs.length p (Spec.covers (topoList cs p))) := by
  obtain ⟨N, hmax, hne, hrange⟩ := inRange_elim hr
  obtain ⟨bas, ebas, hlen, hu, hbit⟩ := isets2bas_spec N cs hrange
  -- the bitarrays are pairwise different
  have hnd : bas.Nodup := by
    show bas.Pairwise (· ≠ ·)
    rw [List.pairwise_iff_getElem]
    intro i j hi hj hij e
    have e' : bas.getD i [] = bas.getD j [] := by rw [getD_eq_getElem hi, getD_eq_getElem hj]; exact e
    have : i = j := distinct_elim hd (hlen ▸ hi) (hlen ▸ hj)
      (fun x hx => (hbit j x).mp (e' ▸ (hbit i x).mpr hx))
      (fun x hx => (hbit i x).mp (e' ▸ (hbit j x).mpr hx))
    omega
  -- and closed under `&`
  have hclosed : Closed bas := by
    intro a ha b hb
    obtain ⟨i, hi, rfl⟩ := List.getElem_of_mem ha
    obtain ⟨j, hj, rfl⟩ := List.getElem_of_mem hb
    obtain ⟨k, hk, hmeet⟩ := closed_elim hc (hlen ▸ hi) (hlen ▸ hj)
    have hk' : k < bas.length := hlen ▸ hk
    have : band bas[i] bas[j] = bas[k] := by
      apply bits_ext
      · rw [length_band, hu _ (List.getElem_mem hi), hu _ (List.getElem_mem hj), hu _ (List.getElem_mem hk')]
        omega
      · intro m
        have a1 := hbit i m
        have a2 := hbit j m
        have a3 := hbit k m
        rw [getD_eq_getElem hi] at a1
        rw [getD_eq_getElem hj] at a2
        rw [getD_eq_getElem hk'] at a3
        rw [bit_band]
        have := hmeet m
        cases h1 : bit bas[i] m <;> cases h2 : bit bas[j] m <;> cases h3 : bit bas[k] m <;> simp_all
    rw [this]; exact List.getElem_mem hk'
  -- the sorted copy
  have hp := stableSort_perm true bas
  have hlenT : (stableSort true bas).length = cs.length := by rw [hp.length_eq, hlen]
  have huT : Uniform (stableSort true bas) N := fun it hit => hu it (hp.mem_iff.mp hit)
  have hndT : (stableSort true bas).Nodup := hp.nodup_iff.mpr hnd
  have hclT : Closed (stableSort true bas) := fun a ha b hb =>
    hp.mem_iff.mpr (hclosed a (hp.mem_iff.mp ha) b (hp.mem_iff.mp hb))
  have hchk := stableSort_check bas
  have hneT : stableSort true bas ≠ [] := by
    intro e
    rw [e] at hlenT
    exact hne (List.length_eq_zero_iff.mp hlenT.symm)
  have F := fam_of_list huT hndT hchk hclT
  obtain ⟨st, est, inv⟩ := sortIntentsInclusion_spec hneT huT hchk F
  have inv1 := inv.shape1
  rw [hlenT] at inv1
  obtain ⟨sub, esub, hsub, hsubbit⟩ := inverseOrder_spec inv1
  -- the permutation
  have hperm0 : PermOK cs.length (bas.map (stableSort true bas).idxOf) :=
    ⟨hlen ▸ idxMap_perm hp hnd⟩
  have hpget0 : ∀ i, i < cs.length → (bas.map (stableSort true bas).idxOf).getD i 0 =
      (stableSort true bas).idxOf (bas.getD i []) := by
    intro i hi
    have hi' : i < bas.length := hlen ▸ hi
    rw [getD_eq_getElem (by simpa using hi'), getD_eq_getElem hi', List.getElem_map]
  have hcode0 : orderExtentsComparisonCode cs =
      finalDict (bas.map (stableSort true bas).idxOf) sub 0 := by
    simp only [orderExtentsComparisonCode, hmax, ebas, topologicalSorting_nodup hnd, hchk, est, esub,
      hp.length_eq, bne_self_eq_false, Bool.not_true, Bool.false_eq_true, if_false]
  obtain ⟨p, hperm, hpget, hcode⟩ : ∃ p, PermOK cs.length p ∧
      (∀ i, i < cs.length → p.getD i 0 = (stableSort true bas).idxOf (bas.getD i [])) ∧
      orderExtentsComparisonCode cs = finalDict p sub 0 := ⟨_, hperm0, hpget0, hcode0⟩
  refine ⟨p, hperm, ?_⟩
  have hfin := finalDict_perm (p := p) (n := cs.length) hperm.nodup
    (fun t ht => hperm.mem_iff.mpr ht) sub 0 (by rw [hsub.1]; omega)
    (fun row hrow s hs => by
      obtain ⟨k, hk, e⟩ := List.getElem_of_mem hrow
      have := hsub.2 k (hsub.1 ▸ hk)
      rw [getD_eq_getElem hk, e] at this
      rw [← this]; exact lt_of_bit hs)
  -- the sorted list is the re-listing of the extents through the inverse permutation
  have hK : ∀ a, a < cs.length → (stableSort true bas).getD a [] = bas.getD (p.idxOf a) [] := by
    intro a ha
    have hi := hperm.inv_lt ha
    have e1 := hperm.get_inv ha
    rw [hpget _ hi] at e1
    have hmem : bas.getD (p.idxOf a) [] ∈ stableSort true bas :=
      hp.mem_iff.mpr (getD_mem (hlen ▸ hi))
    have hlt := List.idxOf_lt_length_of_mem hmem
    have := List.getElem_idxOf hlt
    rw [← this, getD_eq_getElem (hlenT ▸ ha)]
    congr 1
    exact e1.symm
  have hTL : ∀ a, a < cs.length → (topoList cs p).getD a [] = cs.getD (p.idxOf a) [] := by
    intro a ha
    simp [topoList, List.getD_eq_getElem?_getD, ha]
  have hHas : ∀ a, a < cs.length → ∀ m, hasOf (stableSort true bas) a m ↔ m ∈ (topoList cs p).getD a [] := by
    intro a ha m
    unfold hasOf
    rw [hK a ha, hbit, hTL a ha]
  have hSS : ∀ a b, a < cs.length → b < cs.length →
      (SSub (hasOf (stableSort true bas)) a b ↔ ssubAt (topoList cs p) a b = true) := by
    intro a b ha hb
    unfold SSub Le ssubAt ssub
    rw [Bool.and_eq_true, Bool.not_eq_true', ← Bool.not_eq_true, sub_iff, sub_iff]
    simp only [hHas a ha, hHas b hb]
  have hlenTL : (topoList cs p).length = cs.length := by simp [topoList]
  rw [hcode, hfin, hsub.1]
  congr 1
  unfold orderExtentsComparison
  apply List.map_congr_left
  intro t ht
  have ht' := List.mem_range.mp ht
  have hcov : search1 (sub.getD t []) = Spec.covers (topoList cs p) t := by
    rw [search1_eq_filter, hsub.2 t ht']
    unfold Spec.covers coversBy
    rw [hlenTL]
    apply List.filter_congr
    intro s hs
    have hs' := List.mem_range.mp hs
    rw [Bool.eq_iff_iff, hsubbit, inv.lat s (Nat.zero_le _) (hlenT ▸ hs') t, hlenT,
      Bool.and_eq_true, Bool.not_eq_true', ← Bool.not_eq_true, List.any_eq_true]
    unfold UpperCover
    constructor
    · rintro ⟨_, h1, h2⟩
      refine ⟨(hSS s t hs' ht').mp h1, ?_⟩
      rintro ⟨k, hk, hh⟩
      have hk' := List.mem_range.mp hk
      rw [Bool.and_eq_true] at hh
      exact h2 ⟨k, hk', (hSS s k hs' hk').mpr hh.1, (hSS k t hk' ht').mpr hh.2⟩
    · rintro ⟨h1, h2⟩
      refine ⟨ht', (hSS s t hs' ht').mpr h1, ?_⟩
      rintro ⟨k, hk, hh1, hh2⟩
      refine h2 ⟨k, List.mem_range.mpr hk, ?_⟩
      rw [Bool.and_eq_true]
      exact ⟨(hSS s k hs' hk).mp hh1, (hSS k t hk ht').mp hh2⟩
  rw [Nat.zero_add, hcov]

/-- the result, in the words of `Fca.C12.order_extents_covers` -/
theorem oe_code_exact (cs : List (List Nat)) (hr : inRangeB cs = true) (hd : distinctSetsB cs = true)
    (hc : interClosedB cs = true) :
    ∃ d, orderExtentsComparisonCode cs = .ok d ∧ (d.map (·.1)).Perm (List.range cs.length) ∧
      ∀ i, i < cs.length → (dictGet d i).Nodup ∧ SameSetC (dictGet d i) (Spec.covers cs i) := by
  obtain ⟨p, hp, e⟩ := oe_code_eq cs hr hd hc
  exact ⟨_, e, orderExtents_keys cs p hp _, fun i hi => orderExtents_covers cs p hp hi⟩

/-! ### `n_objects = max(len(extent))` is large enough as soon as one extent is the full object set -/

theorem foldl_max_ge : ∀ (r : List (List Nat)) (m : Nat),
    m ≤ r.foldl (fun m e => max m e.length) m ∧ ∀ e ∈ r, e.length ≤ r.foldl (fun m e => max m e.length) m := by
  intro r
  induction r with
  | nil => intro m; exact ⟨Nat.le_refl _, fun e h => by cases h⟩
  | cons x r ih =>
    intro m
    obtain ⟨h1, h2⟩ := ih (max m x.length)
    simp only [List.foldl_cons]
    refine ⟨by omega, fun e he => ?_⟩
    rcases List.mem_cons.mp he with rfl | he
    · omega
    · exact h2 e he

/-- if some listed extent is at least as long as every object index is large (e.g. the top extent
    `0..G-1` of a complete concept set), the `isets2bas` call cannot fail -/
theorem inRange_of_top {cs : List (List Nat)} {top : List Nat} (ht : top ∈ cs)
    (hfull : ∀ e ∈ cs, ∀ x ∈ e, x < top.length) : inRangeB cs = true := by
  unfold inRangeB
  cases cs with
  | nil => cases ht
  | cons c r =>
    simp only [maxLen, List.all_eq_true, decide_eq_true_eq]
    intro e he x hx
    have h := hfull e he x hx
    obtain ⟨h1, h2⟩ := foldl_max_ge r c.length
    rcases List.mem_cons.mp ht with rfl | ht'
    · omega
    · have := h2 top ht'; omega

end Fca.Casp

/-
  Fca.Lemmas.ConstructFast — the bit-set oracle of `Fca/Spec/CoversFast.lean` computes exactly what
  `Fca/Spec/Covers.lean` defines (equal lists, not only equal sets), for every list of extents.
-/
import Fca.Spec.CoversFast
import Fca.Model.ConstructFast
import Fca.Lemmas.ConstructBasic
namespace Fca.Spec.Fast
open Fca.Spec

/-! ### bit sets -/

theorem testBit_foldl_mask (l : List Nat) (m x : Nat) :
    (l.foldl (fun m y => m ||| (1 <<< y)) m).testBit x = (m.testBit x || l.contains x) := by
  induction l generalizing m with
  | nil => simp
  | cons y ys ih =>
    rw [List.foldl_cons, ih, Nat.testBit_or, Nat.one_shiftLeft, Nat.testBit_two_pow, List.contains_cons]
    by_cases h : y = x
    · subst h; simp
    · have h' : (x == y) = false := by simp; omega
      simp [h, h']

theorem testBit_maskOf (l : List Nat) (x : Nat) : (maskOf l).testBit x = l.contains x := by
  unfold maskOf; rw [testBit_foldl_mask]; simp

theorem subM_iff {a b : Nat} : subM a b = true ↔ ∀ x, a.testBit x = true → b.testBit x = true := by
  unfold subM
  rw [beq_iff_eq]
  constructor
  · intro h x hx
    have := congrArg (fun m => m.testBit x) h
    simp only [Nat.testBit_and, hx, Bool.true_and] at this
    exact this
  · intro h
    apply Nat.eq_of_testBit_eq
    intro i
    rw [Nat.testBit_and]
    cases ha : a.testBit i with
    | false => rfl
    | true => simp [h i ha]

theorem subM_maskOf (a b : List Nat) : subM (maskOf a) (maskOf b) = sub a b := by
  rw [Bool.eq_iff_iff, subM_iff, Construct.sub_iff]
  simp only [testBit_maskOf, List.contains_iff_mem]

theorem ssubM_maskOf (a b : List Nat) : ssubM (maskOf a) (maskOf b) = ssub a b := by
  unfold ssubM ssub; rw [subM_maskOf, subM_maskOf]

theorem maskOf_nil : maskOf [] = 0 := rfl

theorem masksOf_getD (cs : List (List Nat)) (i : Nat) : (masksOf cs).getD i 0 = maskOf (cs.getD i []) := by
  unfold masksOf
  by_cases h : i < cs.length
  · simp [Array.getD, h, List.getD_eq_getElem?_getD]
  · simp [Array.getD, h, List.getD_eq_getElem?_getD, maskOf_nil]

/-- strict inclusion on the packed extents is `Spec.ssubAt` -/
theorem ssubAtM_masksOf (cs : List (List Nat)) : ssubAtM (masksOf cs) = ssubAt cs := by
  funext j i
  unfold ssubAtM ssubAt
  rw [masksOf_getD, masksOf_getD, ssubM_maskOf]

/-! ### rows -/

theorem mem_listOf {n : Nat} {R : Nat → Nat → Bool} {i j : Nat} : j ∈ listOf n R i ↔ j < n ∧ R j i = true := by
  unfold listOf; simp [List.mem_filter]

theorem rows_getD (n : Nat) (R : Nat → Nat → Bool) (k : Nat) (hk : k < n) :
    ((((List.range n).map (listOf n R)).map maskOf).toArray).getD k 0 = maskOf (listOf n R k) := by
  simp [Array.getD, hk]

theorem testBit_unionRows_aux (rows : Array Nat) (j : Nat) (l : List Nat) (acc : Nat) :
    (l.foldl (fun acc k => acc ||| rows.getD k 0) acc).testBit j =
      (acc.testBit j || l.any fun k => (rows.getD k 0).testBit j) := by
  induction l generalizing acc with
  | nil => simp
  | cons k ks ih => rw [List.foldl_cons, ih, List.any_cons, Nat.testBit_or, Bool.or_assoc]

theorem testBit_unionRows (rows : Array Nat) (l : List Nat) (j : Nat) :
    (unionRows rows l).testBit j = l.any fun k => (rows.getD k 0).testBit j := by
  unfold unionRows; rw [testBit_unionRows_aux]; simp

theorem any_congr_mem {l : List Nat} {p q : Nat → Bool} (h : ∀ x ∈ l, p x = q x) : l.any p = l.any q := by
  induction l with
  | nil => rfl
  | cons x xs ih =>
    rw [List.any_cons, List.any_cons, h x (List.mem_cons_self ..),
      ih fun y hy => h y (List.mem_cons_of_mem _ hy)]

/-- `any` over the filtered list = `any` of the conjunction over the whole list -/
theorem any_filter_and (l : List Nat) (p q : Nat → Bool) : (l.filter p).any q = l.any fun k => p k && q k := by
  induction l with
  | nil => rfl
  | cons x xs ih =>
    rw [List.filter_cons, List.any_cons]
    cases hp : p x with
    | false => simp [ih]
    | true => simp [List.any_cons, ih]

/-- the bit-row computation is `coversBy` of the tabulated relation -/
theorem coversTable_eq (n : Nat) (R : Nat → Nat → Bool) :
    coversTable n R = (List.range n).map (coversBy n R) := by
  unfold coversTable
  rw [List.map_map]
  apply List.map_congr_left
  intro i _
  show coversByRows _ (listOf n R i) = coversBy n R i
  unfold coversByRows coversBy
  show List.filter _ (listOf n R i) = _
  unfold listOf
  rw [List.filter_filter]
  apply List.filter_congr
  intro j hj
  have hj' : j < n := List.mem_range.mp hj
  rw [Bool.and_comm]
  congr 2
  rw [testBit_unionRows]
  show List.any ((List.range n).filter fun k => R k i) _ = _
  rw [any_filter_and]
  apply any_congr_mem
  intro k hk
  have hk' : k < n := List.mem_range.mp hk
  have hrow := rows_getD n R k hk'
  unfold listOf at hrow
  rw [hrow, testBit_maskOf, Bool.and_comm]
  congr 1
  rw [Bool.eq_iff_iff, List.contains_iff_mem, List.mem_filter]
  simp [hj']

/-- **`coversDictFast` is `Spec.coversDict`** -/
theorem coversDictFast_eq (cs : List (List Nat)) : coversDictFast cs = coversDict cs := by
  unfold coversDictFast coversDict covers
  show coversTable _ _ = _
  rw [coversTable_eq, ssubAtM_masksOf]

/-- **`upperCoversDictFast` is `Spec.upperCoversDict`** -/
theorem upperCoversDictFast_eq (cs : List (List Nat)) : upperCoversDictFast cs = upperCoversDict cs := by
  unfold upperCoversDictFast upperCoversDict upperCoversC
  show coversTable _ _ = _
  rw [coversTable_eq, ssubAtM_masksOf]
  apply List.map_congr_left
  intro i _
  unfold coversBy upperCoversBy
  apply List.filter_congr
  intro j _
  congr 2
  apply any_congr_mem
  intro k _
  exact Bool.and_comm _ _

theorem isTopFast_eq (cs : List (List Nat)) : isTopFast cs.length (masksOf cs) = isTopB cs := by
  funext t; unfold isTopFast isTopB; rw [ssubAtM_masksOf]

theorem isBottomFast_eq (cs : List (List Nat)) : isBottomFast cs.length (masksOf cs) = isBottomB cs := by
  funext t; unfold isBottomFast isBottomB; rw [ssubAtM_masksOf]

/-- **`topFast` / `bottomFast` are the searches the driver runs with `Spec.isTopB` / `Spec.isBottomB`** -/
theorem topFast_eq (cs : List (List Nat)) : topFast cs = (List.range cs.length).find? (isTopB cs) := by
  show List.find? (isTopFast cs.length (masksOf cs)) _ = _
  rw [isTopFast_eq]

theorem bottomFast_eq (cs : List (List Nat)) : bottomFast cs = (List.range cs.length).find? (isBottomB cs) := by
  show List.find? (isBottomFast cs.length (masksOf cs)) _ = _
  rw [isBottomFast_eq]

end Fca.Spec.Fast

/-! ### the models at the tabulated comparison -/
namespace Fca.Construct
open Fca.Spec Fca.Spec.Fast

theorem lensOf_getD (cs : List Ext) (i : Nat) : (lensOf cs).getD i 0 = (cs.getD i []).length := by
  unfold lensOf
  by_cases h : i < cs.length
  · simp [Array.getD, h, List.getD_eq_getElem?_getD]
  · simp [Array.getD, h, List.getD_eq_getElem?_getD]

/-- **the tabulated comparison is `ltAt`** — for every list, no hypothesis -/
theorem ltAtFast_eq (cs : List Ext) : ltAtFast cs = ltAt cs := by
  funext i j
  unfold ltAtFast ltTab
  rw [lensOf_getD, lensOf_getD, masksOf_getD, masksOf_getD, subM_maskOf]
  rfl

theorem completeComparisonF_eq (cs : List Ext) : completeComparisonF cs = completeComparisonC cs := by
  funext s n o
  show completeComparison cs.length (ltAtFast cs) s n o = _
  unfold completeComparisonC; rw [ltAtFast_eq]

theorem spanningTreeF_eq (cs : List Ext) : spanningTreeF cs = spanningTreeC cs := by
  funext s o
  show constructSpanningTree cs.length (ltAtFast cs) _ _ _ = _
  unfold spanningTreeC; rw [ltAtFast_eq]

theorem bySpanningTreeF_eq (cs : List Ext) : bySpanningTreeF cs = bySpanningTreeC cs := by
  funext s n o sc
  show bySpanningTree cs.length (ltAtFast cs) _ _ _ _ _ = _
  unfold bySpanningTreeC; rw [ltAtFast_eq]

end Fca.Construct

/-
  Lemmas/PosetAlgebraTotal — the set operators return normally: none of the `IndexError` / `KeyError` branches of
  the model of `_combine_multiple_caches` is reachable from operands whose caches hold `Fresh` values
  (all combined keys and members are images of the index maps, hence valid positions of the result).
-/
import Fca.Lemmas.PosetAlgebra
set_option linter.unusedSectionVars false
namespace Fca.Poset
open Fca Fca.Poset.Fresh

section
variable {α : Type} [DecidableEq α] {leq : α → α → Bool}

theorem mem_ainsert_or {κ β : Type} [DecidableEq κ] {p : κ × β} {k : κ} {v : β} {l : List (κ × β)}
    (h : p ∈ ainsert k v l) : p = (k, v) ∨ p ∈ l := by
  unfold ainsert aerase at h
  rcases List.mem_cons.mp h with h | h
  · exact Or.inl h
  · exact Or.inr (List.mem_filter.mp h).1

/-- the keys of the combined cache are keys of the start cache or images of the key map -/
theorem combineLoop_keys {κ β : Type} [DecidableEq κ] (mapK : κ → Option κ) (mapV : β → β) (merge : β → β → β)
    (P : κ → Prop) (hP : ∀ k ck, mapK k = some ck → P ck) :
    ∀ (L acc : List (κ × β)), (∀ p ∈ acc, P p.1) → ∀ p ∈ combineLoop mapK mapV merge acc L, P p.1 := by
  intro L
  induction L with
  | nil => intro acc h; exact h
  | cons q rest ih =>
    intro acc h
    obtain ⟨k, v⟩ := q
    cases hk : mapK k with
    | none => rw [combineLoop_cons_none _ _ _ _ _ _ _ hk]; exact ih acc h
    | some ck =>
      rw [combineLoop_cons_some _ _ _ _ _ _ _ _ hk]
      apply ih
      intro p hp
      rcases mem_ainsert_or hp with e | hp'
      · subst e; exact hP k ck hk
      · exact h p hp'

theorem combineSet_keys_lt (ca : Cache) (EA : List α) (cb : Cache) (EB C : List α) :
    ∀ p ∈ combineSet ca EA cb EB C, p.1 < C.length := by
  rw [combineSet_eq]
  apply combineLoop_keys _ _ _ (fun k => k < C.length) (fun k ck h => (idxMap_lt h).2)
  apply combineLoop_keys _ _ _ (fun k => k < C.length) (fun k ck h => (idxMap_lt h).2)
  intro p hp; cases hp

theorem keepE_total (a b : St α) (C : List α) (d : Dir) {idx : Nat} (h : idx < C.length) :
    ∃ bb, keepE a b C d idx = .ok bb := by
  unfold keepE
  rw [List.getElem?_eq_getElem h]
  simp only
  split
  · rename_i hmem
    obtain ⟨ia, hia⟩ := dictIdx?_of_mem hmem.1
    obtain ⟨ib, hib⟩ := dictIdx?_of_mem hmem.2
    rw [hia]
    simp only
    split
    · rw [hib]; exact ⟨_, rfl⟩
    · exact ⟨_, rfl⟩
  · exact ⟨_, rfl⟩

theorem filterKeysE_total {keep : Nat → Except PyErr Bool} : ∀ (c : Cache), (∀ p ∈ c, ∃ bb, keep p.1 = .ok bb) →
    ∃ c', filterKeysE keep c = .ok c' := by
  intro c
  induction c with
  | nil => intro _; exact ⟨[], rfl⟩
  | cons p rest ih =>
    intro h
    obtain ⟨bb, hb⟩ := h p List.mem_cons_self
    obtain ⟨r, hr⟩ := ih (fun q hq => h q (List.mem_cons_of_mem _ hq))
    simp only [filterKeysE, hb, hr]
    exact ⟨_, rfl⟩

theorem combineClosed_total (op : SetOp) (a b : St α) (C : List α) (d : Dir) :
    ∃ cl, combineClosed op a b C d = .ok cl := by
  unfold combineClosed
  split
  · apply filterKeysE_total
    intro p hp
    exact keepE_total a b C d (combineSet_keys_lt _ _ _ _ _ p hp)
  · exact ⟨_, rfl⟩

theorem leqDirNocache_total (d : Dir) {C : List α} {i j : Nat} (hi : i < C.length) (hj : j < C.length) :
    ∃ r, leqDirNocache leq d C i j = .ok r := by
  cases d <;> simp only [leqDirNocache, leqNocache, List.getElem?_eq_getElem hi, List.getElem?_eq_getElem hj] <;>
    exact ⟨_, rfl⟩

theorem dominatedE_total (d : Dir) {C : List α} {i : Nat} (hi : i < C.length) :
    ∀ (l : List Nat), (∀ j ∈ l, j < C.length) → ∃ bb, dominatedE leq d C i l = .ok bb := by
  intro l
  induction l with
  | nil => intro _; exact ⟨false, rfl⟩
  | cons j js ih =>
    intro h
    obtain ⟨bb, hb⟩ := ih (fun x hx => h x (List.mem_cons_of_mem _ hx))
    simp only [dominatedE]
    split
    · exact ⟨bb, hb⟩
    · obtain ⟨r, hr⟩ := leqDirNocache_total (leq := leq) d hi (h j List.mem_cons_self)
      rw [hr]
      cases r
      · exact ⟨bb, hb⟩
      · exact ⟨true, rfl⟩

theorem maximalE_total (d : Dir) {C : List α} {rels : List Nat} (hrels : ∀ j ∈ rels, j < C.length) :
    ∀ (is : List Nat), (∀ i ∈ is, i < C.length) → ∃ r, maximalE leq d C rels is = .ok r := by
  intro is
  induction is with
  | nil => intro _; exact ⟨[], rfl⟩
  | cons i is' ih =>
    intro h
    obtain ⟨bb, hb⟩ := dominatedE_total (leq := leq) d (h i List.mem_cons_self) rels hrels
    obtain ⟨r, hr⟩ := ih (fun x hx => h x (List.mem_cons_of_mem _ hx))
    simp only [maximalE, hb, hr]
    exact ⟨_, rfl⟩

theorem directLoop_total (d : Dir) (C : List α) (keys : List Nat) :
    ∀ (L : List (Nat × List Nat)) (acc : Cache), (∀ p ∈ L, ∃ v, maximalE leq d C p.2 p.2 = .ok v) →
      ∃ r, directLoop leq d C keys acc L = .ok r := by
  intro L
  induction L with
  | nil => intro acc _; exact ⟨acc, rfl⟩
  | cons p rest ih =>
    intro acc h
    obtain ⟨idx, rels⟩ := p
    have hrest : ∀ p ∈ rest, ∃ v, maximalE leq d C p.2 p.2 = .ok v := fun q hq => h q (List.mem_cons_of_mem _ hq)
    simp only [directLoop]
    split
    · obtain ⟨v, hv⟩ := h (idx, rels) List.mem_cons_self
      simp only at hv
      rw [hv]
      exact ih _ hrest
    · exact ih _ hrest

theorem combineDirect_total (a b : St α) {C : List α} {d : Dir} {cl : Cache} (hcl : ClosedExactC leq d C cl) :
    ∃ dc, combineDirect leq a b C d cl = .ok dc := by
  unfold combineDirect
  apply directLoop_total
  intro p hp
  obtain ⟨k, rels⟩ := p
  obtain ⟨_, _, hex⟩ := hcl k rels (mem_items.mp hp)
  have hr : ∀ j ∈ rels, j < C.length := fun j hj => (ltD_lt ((hex j).mp hj)).1
  exact maximalE_total d hr rels hr

theorem combineMulti_total {a b : St α} (ha : CacheExact leq a) (hb : CacheExact leq b) (op : SetOp)
    {C : List α} (hC : C = combineElems op a.elems b.elems) : ∃ r, combineMulti leq op a b C = .ok r := by
  obtain ⟨de, hde⟩ := combineClosed_total op a b C .desc
  obtain ⟨an, han⟩ := combineClosed_total op a b C .anc
  obtain ⟨ch, hch⟩ := combineDirect_total (leq := leq) a b (combineClosed_exact ha hb op hC .desc hde)
  obtain ⟨pa, hpa⟩ := combineDirect_total (leq := leq) a b (combineClosed_exact ha hb op hC .anc han)
  simp only [combineMulti, hde, han, hch, hpa]
  exact ⟨_, rfl⟩

end
end Fca.Poset

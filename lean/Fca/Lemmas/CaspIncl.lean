/-
  Fca.Lemmas.CaspIncl — `sortIntentsInclusion` (model of `caspailleur.order.sort_intents_inclusion`)
  on a duplicate-free, intersection-closed family listed in ascending topological order returns
  `lattice[i]` = the upper covers of `i` and `trans_lattice[i]` = all strict supersets of `i`.
-/
import Fca.Lemmas.CaspLoops
import Fca.Lemmas.CaspFam
namespace Fca.Casp

/-- "listed set number `k` contains `m`" -/
def hasOf (intents : List Bits) (k m : Nat) : Prop := bit (intents.getD k []) m = true

/-- all bitarrays have length `nA` -/
def Uniform (intents : List Bits) (nA : Nat) : Prop := ∀ it ∈ intents, it.length = nA

theorem getD_mem {intents : List Bits} {k : Nat} (hk : k < intents.length) : intents.getD k [] ∈ intents := by
  rw [List.getD_eq_getElem?_getD, List.getElem?_eq_getElem hk]
  exact List.getElem_mem _

theorem hasOf_lt {intents : List Bits} {k m : Nat} (h : hasOf intents k m) : k < intents.length := by
  false_or_by_contra
  rename_i hn
  unfold hasOf at h
  rw [List.getD_eq_getElem?_getD, List.getElem?_eq_none (by omega)] at h
  simp [bit_nil] at h

theorem hasOf_lt_attr {intents : List Bits} {nA k m : Nat} (hu : Uniform intents nA) (h : hasOf intents k m) :
    m < nA := by
  have := lt_of_bit h
  rwa [hu _ (getD_mem (hasOf_lt h))] at this

theorem getD_set' (t : List Bits) (i : Nat) (b : Bits) (i' : Nat) :
    (t.set i b).getD i' [] = if i' = i ∧ i < t.length then b else t.getD i' [] := by
  simp only [List.getD_eq_getElem?_getD, List.getElem?_set]
  by_cases h : i = i'
  · subst h
    by_cases hr : i < t.length <;> simp [hr]
  · have : ¬ i' = i := fun e => h e.symm
    simp [h, this]

theorem shape_set {t : List Bits} {R C : Nat} (h : Shape t R C) (i : Nat) {b : Bits} (hb : b.length = C) :
    Shape (t.set i b) R C := by
  refine ⟨by simp [h.1], fun r hr => ?_⟩
  rw [getD_set']
  split
  · exact hb
  · exact h.2 r hr

section
variable {intents : List Bits} {nA : Nat}

/-- the `attrs_descendants` table -/
theorem ad_spec (hu : Uniform intents nA) :
    Shape (scatter intents 0 (List.replicate nA (zeros intents.length))) nA intents.length ∧
    ∀ m j, bit ((scatter intents 0 (List.replicate nA (zeros intents.length))).getD m []) j = true ↔
      hasOf intents j m := by
  obtain ⟨h1, h2⟩ := scatter_zero intents nA intents.length
  refine ⟨h1, fun m j => ?_⟩
  have := h2 m j
  unfold cell at this
  rw [this]
  constructor
  · exact fun h => h.1
  · exact fun h => ⟨h, hasOf_lt h, hasOf_lt_attr hu h, hasOf_lt h⟩

theorem common_spec (hu : Uniform intents nA) {ad : List Bits} (hs : Shape ad nA intents.length)
    (had : ∀ m j, bit (ad.getD m []) j = true ↔ hasOf intents j m) (i : Nat) :
    (commonDescendants ad intents.length (intents.getD i [])).length = intents.length ∧
    ∀ j, bit (commonDescendants ad intents.length (intents.getD i [])) j = true ↔
      (j < intents.length ∧ Le (hasOf intents) i j) := by
  unfold commonDescendants
  obtain ⟨h1, h2⟩ := foldl_band_spec (fun m => ad.getD m []) intents.length (search1 (intents.getD i []))
    (ones intents.length) (length_ones _) (fun m hm => hs.2 m (hasOf_lt_attr hu (mem_search1.mp hm)))
  refine ⟨h1, fun j => ?_⟩
  rw [h2, bit_ones]
  simp only [decide_eq_true_eq, mem_search1, had]
  exact Iff.rfl

theorem children_spec (hu : Uniform intents nA) {ad : List Bits}
    (had : ∀ m j, bit (ad.getD m []) j = true ↔ hasOf intents j m) {i : Nat} (hi : i < intents.length)
    {common : Bits}
    (hc : ∀ j, bit common j = true ↔ (j < intents.length ∧ Le (hasOf intents) i j)) :
    (childrenOf ad intents.length nA (intents.getD i []) common).length = intents.length ∧
    ∀ k, bit (childrenOf ad intents.length nA (intents.getD i []) common) k = true ↔
      Child intents.length (hasOf intents) i k := by
  unfold childrenOf
  obtain ⟨h1, h2⟩ := foldl_find_spec (fun m => band common (ad.getD m [])) intents.length
    (search1 (band (ones nA) (bnot (intents.getD i [])))) (zeros intents.length) (length_zeros _)
  refine ⟨h1, fun k => (h2 k).trans ?_⟩
  rw [bit_zeros]
  have habove : ∀ m j, bit (band common (ad.getD m [])) j = true ↔
      Above intents.length (hasOf intents) i m j := by
    intro m j
    rw [bit_band, Bool.and_eq_true, hc, had]
    exact and_assoc
  have hlen : (intents.getD i []).length = nA := hu _ (getD_mem hi)
  have hmem : ∀ m, bit (band (ones nA) (bnot (intents.getD i []))) m = true ↔
      (m < nA ∧ ¬ hasOf intents i m) := by
    intro m
    unfold hasOf
    rw [bit_band, bit_ones, bit_bnot, hlen]
    simp
  have hfalse : ∀ m j, bit (band common (ad.getD m [])) j = false ↔
      ¬ Above intents.length (hasOf intents) i m j := by
    intro m j
    rw [← habove, Bool.not_eq_true]
  simp only [Bool.false_eq_true, false_or, mem_search1, hmem, find1_some, habove, hfalse]
  constructor
  · rintro ⟨_, m, ⟨_, hm⟩, ha, hmin⟩
    exact ⟨m, hm, ha, hmin⟩
  · rintro ⟨m, hm, ha, hmin⟩
    exact ⟨ha.1, m, ⟨hasOf_lt_attr hu ha.2.2, hm⟩, ha, hmin⟩

theorem tc_spec {trans : List Bits} (hs : Shape trans intents.length intents.length) {children : Bits}
    (hl : children.length = intents.length) :
    (transChildren trans intents.length children).length = intents.length ∧
    ∀ j, bit (transChildren trans intents.length children) j = true ↔
      ∃ c, bit children c = true ∧ bit (trans.getD c []) j = true := by
  unfold transChildren
  obtain ⟨h1, h2⟩ := foldl_bor_spec (fun c => trans.getD c []) intents.length (search1 children)
    (zeros intents.length) (length_zeros _)
    (fun c hc => hs.2 c (hl ▸ lt_of_bit (mem_search1.mp hc)))
  refine ⟨h1, fun j => ?_⟩
  rw [h2, bit_zeros]
  simp only [Bool.false_eq_true, false_or, mem_search1]

/-- loop invariant: the entries of the positions `≥ k` are final and right -/
structure Inv (intents : List Bits) (k : Nat) (st : List Bits × List Bits) : Prop where
  shape1 : Shape st.1 intents.length intents.length
  shape2 : Shape st.2 intents.length intents.length
  lat : ∀ i, k ≤ i → i < intents.length → ∀ j, bit (st.1.getD i []) j = true ↔
    (j < intents.length ∧ UpperCover intents.length (hasOf intents) i j)
  trans : ∀ i, k ≤ i → i < intents.length → ∀ j, bit (st.2.getD i []) j = true ↔
    (j < intents.length ∧ SSub (hasOf intents) i j)

theorem inv_step (hu : Uniform intents nA) (F : Fam intents.length (hasOf intents)) {ad : List Bits}
    (hs : Shape ad nA intents.length)
    (had : ∀ m j, bit (ad.getD m []) j = true ↔ hasOf intents j m)
    {i : Nat} (hi : i < intents.length) {st : List Bits × List Bits} (inv : Inv intents (i + 1) st) :
    Inv intents i (siStep intents ad intents.length nA st i) := by
  obtain ⟨c1, c2⟩ := common_spec hu hs had i
  obtain ⟨ch1, ch2⟩ := children_spec hu had hi c2
  obtain ⟨t1, t2⟩ := tc_spec inv.shape2 ch1
  -- the trans_children bit, through the invariant
  have t3 : ∀ j, bit (transChildren st.2 intents.length
        (childrenOf ad intents.length nA (intents.getD i [])
          (commonDescendants ad intents.length (intents.getD i [])))) j = true ↔
      ∃ c, Child intents.length (hasOf intents) i c ∧ (j < intents.length ∧ SSub (hasOf intents) c j) := by
    intro j
    rw [t2]
    constructor
    · rintro ⟨c, hc, hb⟩
      have hcc := (ch2 c).mp hc
      have hlt : i < c := F.lt_of_ssub i c hi hcc.lt_and_ssub.1 hcc.lt_and_ssub.2.1 hcc.lt_and_ssub.2.2
      exact ⟨c, hcc, (inv.trans c hlt hcc.lt_and_ssub.1 j).mp hb⟩
    · rintro ⟨c, hcc, hb⟩
      have hlt : i < c := F.lt_of_ssub i c hi hcc.lt_and_ssub.1 hcc.lt_and_ssub.2.1 hcc.lt_and_ssub.2.2
      exact ⟨c, (ch2 c).mpr hcc, (inv.trans c hlt hcc.lt_and_ssub.1 j).mpr hb⟩
  have hlen1 : st.1.length = intents.length := inv.shape1.1
  have hlen2 : st.2.length = intents.length := inv.shape2.1
  refine ⟨?_, ?_, ?_, ?_⟩
  · exact shape_set inv.shape1 i (by rw [length_band, length_bnot, ch1, t1]; omega)
  · exact shape_set inv.shape2 i (by rw [length_bor, ch1, t1]; omega)
  · intro i' hle hi' j
    show bit ((st.1.set i _).getD i' []) j = true ↔ _
    rw [getD_set']
    by_cases he : i' = i
    · subst he
      rw [if_pos ⟨rfl, hlen1 ▸ hi'⟩, bit_band, bit_bnot, t1, Bool.and_eq_true, Bool.and_eq_true, ch2,
        decide_eq_true_eq, Bool.not_eq_true', ← Bool.not_eq_true, t3, ← cover_iff F hi']
      constructor
      · rintro ⟨a, _, b⟩; exact ⟨a, b⟩
      · rintro ⟨a, b⟩; exact ⟨a, a.lt_and_ssub.1, b⟩
    · rw [if_neg (fun h => he h.1)]
      exact inv.lat i' (by omega) hi' j
  · intro i' hle hi' j
    show bit ((st.2.set i _).getD i' []) j = true ↔ _
    rw [getD_set']
    by_cases he : i' = i
    · subst he
      rw [if_pos ⟨rfl, hlen2 ▸ hi'⟩, bit_bor (by rw [ch1, t1]), Bool.or_eq_true, ch2, t3, trans_iff F hi']
    · rw [if_neg (fun h => he h.1)]
      exact inv.trans i' (by omega) hi' j

theorem inv_fold (hu : Uniform intents nA) (F : Fam intents.length (hasOf intents)) {ad : List Bits}
    (hs : Shape ad nA intents.length)
    (had : ∀ m j, bit (ad.getD m []) j = true ↔ hasOf intents j m) :
    ∀ k, k ≤ intents.length → ∀ st, Inv intents k st →
      Inv intents 0 ((List.range k).reverse.foldl (siStep intents ad intents.length nA) st) := by
  intro k
  induction k with
  | zero => intro _ st h; simpa using h
  | succ k ih =>
    intro hk st h
    rw [List.range_succ, List.reverse_append, List.reverse_singleton, List.singleton_append, List.foldl_cons]
    exact ih (by omega) _ (inv_step hu F hs had (by omega) h)

theorem inv_init : Inv intents intents.length
    (List.replicate intents.length (zeros intents.length), List.replicate intents.length (zeros intents.length)) :=
  ⟨shape_replicate _ _, shape_replicate _ _, fun i h1 h2 => by omega, fun i h1 h2 => by omega⟩

/-- **`sort_intents_inclusion` is right on closed families.** -/
theorem sortIntentsInclusion_spec (hne : intents ≠ []) (hu : Uniform intents nA)
    (hsorted : checkTopologicallySorted true intents = true) (F : Fam intents.length (hasOf intents)) :
    ∃ st, sortIntentsInclusion intents = .ok st ∧ Inv intents 0 st := by
  obtain ⟨ad1, ad2⟩ := ad_spec hu
  cases hl : intents with
  | nil => exact absurd hl hne
  | cons i0 rest =>
    have h0 : i0.length = nA := hu i0 (by rw [hl]; exact List.mem_cons_self ..)
    have g1 : (intents.any fun it => (search1 it).any fun m => decide (nA ≤ m)) = false := by
      rw [List.any_eq_false]
      intro it hit
      rw [Bool.not_eq_true, List.any_eq_false]
      intro m hm
      have := lt_of_bit (mem_search1.mp hm)
      rw [hu it hit] at this
      simp; omega
    have g2 : (intents.any fun it => it.length != nA) = false := by
      rw [List.any_eq_false]
      intro it hit
      simp [hu it hit]
    refine ⟨_, ?_, hl ▸ inv_fold hu F ad1 ad2 intents.length (Nat.le_refl _) _ inv_init⟩
    unfold sortIntentsInclusion
    rw [← hl, hsorted]
    simp only [Bool.not_true, Bool.false_eq_true, if_false]
    rw [hl]
    simp only [h0]
    rw [← hl, g1, g2]
    simp

end
end Fca.Casp

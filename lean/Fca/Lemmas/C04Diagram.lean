/-
  Fca.Lemmas.C04Diagram — the subset-free completeness test `Spec.isConceptListFast` decides exactly
  `IsConceptList` (the hypothesis of the C04 theorems), so the driver may use it for wide tables where
  `allConcepts` (2^width attribute subsets) cannot be enumerated.
-/
import Fca.Spec.C04Diagram
import Fca.Lemmas.LatticeQueryPruned
namespace Fca.LQ
open Fca Fca.Spec

/-- adding one attribute to the intent cuts the extent by that attribute's column -/
theorem extAll_cons (t : Table) (a : Nat) (B : List Nat) :
    extAll t (a :: B) = cutBy t (extAll t B) a := by
  unfold cutBy extAll ext
  rw [List.filter_filter]
  apply List.filter_congr
  intro g _
  simp [List.all_cons]

/-- a list closed under "cut by one attribute" that contains the full extent contains every extent `B'` -/
theorem exists_ext_of_closed {t : Table} {cs : Lat}
    (htop : ∃ d ∈ cs, d.1 = extAll t [])
    (hcl : ∀ c ∈ cs, ∀ a, a < t.width → ∃ d ∈ cs, d.1 = cutBy t c.1 a) :
    ∀ B : List Nat, (∀ a ∈ B, a < t.width) → ∃ d ∈ cs, d.1 = extAll t B
  | [], _ => htop
  | a :: B, hB => by
    obtain ⟨c, hc, ec⟩ := exists_ext_of_closed htop hcl B (fun x hx => hB x (List.mem_cons_of_mem _ hx))
    obtain ⟨d, hd, ed⟩ := hcl c hc a (hB a List.mem_cons_self)
    exact ⟨d, hd, by rw [ed, ec, extAll_cons]⟩

theorem isConceptListFast_sound {t : Table} {cs : Lat} (h : Spec.isConceptListFast t cs = true) :
    IsConceptList t cs := by
  unfold Spec.isConceptListFast at h
  simp only [Bool.and_eq_true, List.any_eq_true, List.all_eq_true, List.mem_range, beq_iff_eq] at h
  obtain ⟨⟨hsub, htop⟩, hcl⟩ := h
  have S : IsConceptSub t cs := (isConceptSub_iff_bool t cs).mp hsub
  have key := exists_ext_of_closed (t := t) (cs := cs) htop (fun c hc a ha => hcl c hc a ha)
  unfold IsConceptList
  rw [List.perm_ext_iff_of_nodup S.1 (allConcepts_nodup t)]
  rintro ⟨A, B⟩
  rw [mem_allConcepts]
  constructor
  · intro hc
    exact S.2 _ hc
  · intro hAB
    obtain ⟨eA, eB⟩ := (isConcept_iff t).mp hAB
    have hB : ∀ a ∈ B, a < t.width := by
      intro a ha
      rw [← eB] at ha
      exact intAll_lt t a ha
    obtain ⟨d, hd, ed⟩ := key B hB
    obtain ⟨_, iB⟩ := (isConcept_iff t).mp (S.2 d hd)
    have : d = (A, B) := by
      apply Prod.ext
      · show d.1 = A
        rw [ed, eA]
      · show d.2 = B
        rw [← iB, ed, eA, eB]
    rw [← this]
    exact hd

theorem isConceptListFast_complete {t : Table} {cs : Lat} (H : IsConceptList t cs) :
    Spec.isConceptListFast t cs = true := by
  unfold Spec.isConceptListFast
  simp only [Bool.and_eq_true, List.any_eq_true, List.all_eq_true, List.mem_range, beq_iff_eq]
  refine ⟨⟨(isConceptSub_iff_bool t cs).mpr H.toSub, ?_⟩, ?_⟩
  · have hr : ∀ a ∈ ([] : List Nat), a < t.width := fun a ha => by cases ha
    exact ⟨(extAll t [], closureAttr t []), (H.mem_iff).mpr (isConcept_of_attrs t hr), rfl⟩
  · intro c hc a ha
    obtain ⟨eA, eB⟩ := (isConcept_iff t).mp ((H.mem_iff).mp hc)
    have hr : ∀ x ∈ a :: c.2, x < t.width := by
      intro x hx
      rcases List.mem_cons.mp hx with rfl | hx
      · exact ha
      · rw [← eB] at hx
        exact intAll_lt t x hx
    refine ⟨(extAll t (a :: c.2), closureAttr t (a :: c.2)), (H.mem_iff).mpr (isConcept_of_attrs t hr), ?_⟩
    show extAll t (a :: c.2) = cutBy t c.1 a
    rw [extAll_cons, eA]

/-- the subset-free test decides the hypothesis of the C04 theorems -/
theorem isConceptListFast_iff (t : Table) (cs : Lat) :
    Spec.isConceptListFast t cs = true ↔ IsConceptList t cs :=
  ⟨isConceptListFast_sound, isConceptListFast_complete⟩

end Fca.LQ

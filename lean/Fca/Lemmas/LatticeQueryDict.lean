/-
  Fca.Lemmas.LatticeQueryDict — the association-list dictionaries of `Fca.LC` (Python `dict` of `set`s):
  `dset`/`dget`, `_transpose_hierarchy`, and `from_context`'s re-indexing comprehension.
-/
import Fca.Model.LatticeQuery
namespace Fca.LC

theorem dget_nil (k : Nat) : dget [] k = none := rfl

theorem dget_cons (k' : Nat) (v' : List Nat) (rest : Dict) (k : Nat) :
    dget ((k', v') :: rest) k = if k = k' then some v' else dget rest k := by
  unfold dget
  rw [List.lookup_cons]
  by_cases h : k = k'
  · subst h; simp
  · have : (k == k') = false := by simpa using h
    rw [this, if_neg h]

theorem dget_dset_self : ∀ (d : Dict) (k : Nat) (v : List Nat), dget (dset d k v) k = some v
  | [], k, v => by simp [dset, dget_cons]
  | (k', v') :: rest, k, v => by
    unfold dset
    by_cases h : k' = k
    · subst h; simp [dget_cons]
    · have : (k' == k) = false := by simpa using h
      rw [this]
      simp only [Bool.false_eq_true, ↓reduceIte]
      rw [dget_cons, if_neg (fun e => h e.symm)]
      exact dget_dset_self rest k v

theorem dget_dset_ne : ∀ (d : Dict) (k : Nat) (v : List Nat) (j : Nat), j ≠ k →
    dget (dset d k v) j = dget d j
  | [], k, v, j, h => by simp [dset, dget_cons, h, dget_nil]
  | (k', v') :: rest, k, v, j, h => by
    unfold dset
    by_cases hk : k' = k
    · subst hk
      simp only [beq_self_eq_true, ↓reduceIte, dget_cons, if_neg h]
    · have : (k' == k) = false := by simpa using hk
      rw [this]
      simp only [Bool.false_eq_true, ↓reduceIte, dget_cons]
      rw [dget_dset_ne rest k v j h]

theorem dget_dset (d : Dict) (k : Nat) (v : List Nat) (j : Nat) :
    dget (dset d k v) j = if j = k then some v else dget d j := by
  by_cases h : j = k
  · rw [if_pos h, h]; exact dget_dset_self d k v
  · rw [if_neg h]; exact dget_dset_ne d k v j h

/-- the dictionary holds `x` in the set stored at key `v` -/
def Has (d : Dict) (v x : Nat) : Prop := ∃ l, dget d v = some l ∧ x ∈ l
/-- `v` is a key -/
def IsKey (d : Dict) (v : Nat) : Prop := ∃ l, dget d v = some l
/-- every stored set is duplicate-free -/
def ValsNodup (d : Dict) : Prop := ∀ v l, dget d v = some l → l.Nodup

theorem mem_addElem {s : List Nat} {x y : Nat} : y ∈ addElem s x ↔ y ∈ s ∨ y = x := by
  unfold addElem
  split
  · rename_i h
    have hx : x ∈ s := by simpa using h
    constructor
    · exact Or.inl
    · rintro (h | h)
      · exact h
      · rw [h]; exact hx
  · simp

theorem addElem_nodup {s : List Nat} {x : Nat} (h : s.Nodup) : (addElem s x).Nodup := by
  unfold addElem
  split
  · exact h
  · rename_i hn
    have hx : x ∉ s := by simpa using hn
    rw [List.nodup_append]
    exact ⟨h, by simp, fun a ha b hb => by
      rw [List.mem_singleton.mp hb]; intro e; exact hx (e ▸ ha)⟩

theorem mem_unionInto : ∀ (b a : List Nat) (y : Nat), y ∈ unionInto a b ↔ y ∈ a ∨ y ∈ b
  | [], a, y => by simp [unionInto]
  | x :: rest, a, y => by
    unfold unionInto
    rw [List.foldl_cons]
    have := mem_unionInto rest (addElem a x) y
    unfold unionInto at this
    rw [this, mem_addElem, List.mem_cons]
    constructor
    · rintro ((h | h) | h)
      · exact Or.inl h
      · exact Or.inr (Or.inl h)
      · exact Or.inr (Or.inr h)
    · rintro (h | h | h)
      · exact Or.inl (Or.inl h)
      · exact Or.inl (Or.inr h)
      · exact Or.inr h

/-! ### `_transpose_hierarchy` -/

theorem transposeInner_spec (k : Nat) : ∀ (vs : List Nat) (d : Dict), ValsNodup d →
    ValsNodup (transposeInner k vs d) ∧
    (∀ v x, Has (transposeInner k vs d) v x ↔ Has d v x ∨ (v ∈ vs ∧ x = k)) ∧
    (∀ v, IsKey (transposeInner k vs d) v ↔ IsKey d v ∨ v ∈ vs)
  | [], d, h => ⟨h, fun v x => by simp [transposeInner], fun v => by simp [transposeInner]⟩
  | w :: vs, d, h => by
    unfold transposeInner
    have hnd' : ValsNodup (dset d w (addElem ((dget d w).getD []) k)) := by
      intro v l hl
      rw [dget_dset] at hl
      by_cases e : v = w
      · rw [if_pos e] at hl
        simp only [Option.some.injEq] at hl
        rw [← hl]
        apply addElem_nodup
        cases hd : dget d w with
        | none => simp
        | some l' => exact h w l' hd
      · rw [if_neg e] at hl; exact h v l hl
    obtain ⟨h1, h2, h3⟩ := transposeInner_spec k vs _ hnd'
    refine ⟨h1, fun v x => ?_, fun v => ?_⟩
    · rw [h2 v x]
      unfold Has
      simp only [dget_dset, List.mem_cons]
      by_cases e : v = w
      · subst e
        simp only [↓reduceIte, Option.some.injEq, exists_eq_left', mem_addElem, true_or, true_and]
        cases hd : dget d v with
        | none => simp
        | some l' =>
          simp only [Option.getD_some, Option.some.injEq, exists_eq_left']
          constructor
          · rintro ((h | h) | h)
            · exact Or.inl h
            · exact Or.inr h
            · exact Or.inr h.2
          · rintro (h | h)
            · exact Or.inl (Or.inl h)
            · exact Or.inl (Or.inr h)
      · simp only [e, ↓reduceIte, false_or]
    · rw [h3 v]
      unfold IsKey
      simp only [dget_dset, List.mem_cons]
      by_cases e : v = w
      · subst e; simp
      · simp only [e, ↓reduceIte, false_or]

theorem transposeLoop_spec : ∀ (h d : Dict), ValsNodup d →
    ValsNodup (transposeLoop h d) ∧
    (∀ v x, Has (transposeLoop h d) v x ↔ Has d v x ∨ ∃ vs, (x, vs) ∈ h ∧ v ∈ vs) ∧
    (∀ v, IsKey (transposeLoop h d) v ↔
      IsKey d v ∨ (∃ vs, (v, vs) ∈ h) ∨ ∃ k vs, (k, vs) ∈ h ∧ v ∈ vs)
  | [], d, hnd => ⟨hnd, fun v x => by simp [transposeLoop], fun v => by simp [transposeLoop]⟩
  | (k, vs) :: rest, d, hnd => by
    unfold transposeLoop
    simp only
    -- the `if k not in new_dict: new_dict[k] = set()` step
    have hd1 : ValsNodup (if (dget d k).isNone then dset d k [] else d) ∧
        (∀ v x, Has (if (dget d k).isNone then dset d k [] else d) v x ↔ Has d v x) ∧
        (∀ v, IsKey (if (dget d k).isNone then dset d k [] else d) v ↔ IsKey d v ∨ v = k) := by
      cases hk : dget d k with
      | some l =>
        have e : (if (some l : Option (List Nat)).isNone then dset d k [] else d) = d := rfl
        rw [e]
        refine ⟨hnd, fun _ _ => Iff.rfl, fun v => ⟨Or.inl, ?_⟩⟩
        rintro (h | h)
        · exact h
        · rw [h]; exact ⟨l, hk⟩
      | none =>
        have e : (if (none : Option (List Nat)).isNone then dset d k [] else d) = dset d k [] := rfl
        rw [e]
        refine ⟨?_, fun v x => ?_, fun v => ?_⟩
        · intro v l hl
          rw [dget_dset] at hl
          by_cases e : v = k
          · rw [if_pos e] at hl; simp only [Option.some.injEq] at hl; rw [← hl]; simp
          · rw [if_neg e] at hl; exact hnd v l hl
        · unfold Has
          rw [dget_dset]
          by_cases e : v = k
          · subst e; simp [hk]
          · rw [if_neg e]
        · unfold IsKey
          rw [dget_dset]
          by_cases e : v = k
          · subst e; simp
          · rw [if_neg e]; simp [e]
    obtain ⟨a1, a2, a3⟩ := hd1
    obtain ⟨b1, b2, b3⟩ := transposeInner_spec k vs _ a1
    obtain ⟨c1, c2, c3⟩ := transposeLoop_spec rest _ b1
    refine ⟨c1, fun v x => ?_, fun v => ?_⟩
    · rw [c2 v x, b2 v x, a2 v x]
      simp only [List.mem_cons, Prod.mk.injEq]
      constructor
      · rintro ((h | ⟨h1, h2⟩) | ⟨vs', h1, h2⟩)
        · exact Or.inl h
        · exact Or.inr ⟨vs, Or.inl ⟨h2, rfl⟩, h1⟩
        · exact Or.inr ⟨vs', Or.inr h1, h2⟩
      · rintro (h | ⟨vs', (⟨e1, e2⟩ | h1), h2⟩)
        · exact Or.inl (Or.inl h)
        · subst e2; exact Or.inl (Or.inr ⟨h2, e1⟩)
        · exact Or.inr ⟨vs', h1, h2⟩
    · rw [c3 v, b3 v, a3 v]
      simp only [List.mem_cons, Prod.mk.injEq]
      constructor
      · rintro (((h | h) | h) | ⟨vs', h⟩ | ⟨k', vs', h1, h2⟩)
        · exact Or.inl h
        · exact Or.inr (Or.inl ⟨vs, Or.inl ⟨h, rfl⟩⟩)
        · exact Or.inr (Or.inr ⟨k, vs, Or.inl ⟨rfl, rfl⟩, h⟩)
        · exact Or.inr (Or.inl ⟨vs', Or.inr h⟩)
        · exact Or.inr (Or.inr ⟨k', vs', Or.inr h1, h2⟩)
      · rintro (h | ⟨vs', (⟨e1, e2⟩ | h)⟩ | ⟨k', vs', (⟨e1, e2⟩ | h1), h2⟩)
        · exact Or.inl (Or.inl (Or.inl h))
        · exact Or.inl (Or.inl (Or.inr e1))
        · exact Or.inr (Or.inl ⟨vs', h⟩)
        · subst e2; exact Or.inl (Or.inr h2)
        · exact Or.inr (Or.inr ⟨k', vs', h1, h2⟩)

/-- `_transpose_hierarchy(h)[v]` = the keys whose set contains `v`; its keys are the keys and the members of `h` -/
theorem transposeHierarchy_spec (h : Dict) :
    ValsNodup (transposeHierarchy h) ∧
    (∀ v x, Has (transposeHierarchy h) v x ↔ ∃ vs, (x, vs) ∈ h ∧ v ∈ vs) ∧
    (∀ v, IsKey (transposeHierarchy h) v ↔ (∃ vs, (v, vs) ∈ h) ∨ ∃ k vs, (k, vs) ∈ h ∧ v ∈ vs) := by
  have hn : ValsNodup ([] : Dict) := fun v l hl => by simp [dget_nil] at hl
  obtain ⟨a, b, c⟩ := transposeLoop_spec h [] hn
  refine ⟨a, fun v x => ?_, fun v => ?_⟩
  · rw [show transposeHierarchy h = transposeLoop h [] from rfl, b v x]
    simp [Has, dget_nil]
  · rw [show transposeHierarchy h = transposeLoop h [] from rfl, c v]
    simp [IsKey, dget_nil]

/-! ### keys -/

/-- no key occurs twice (a Python dict) -/
def KeysNodup (d : Dict) : Prop := (d.map (·.1)).Nodup

theorem mem_of_dget : ∀ {d : Dict} {k : Nat} {vs : List Nat}, dget d k = some vs → (k, vs) ∈ d
  | [], _, _, h => by simp [dget_nil] at h
  | (k', v') :: rest, k, vs, h => by
    rw [dget_cons] at h
    by_cases e : k = k'
    · rw [if_pos e] at h
      simp only [Option.some.injEq] at h
      rw [e, ← h]; exact List.mem_cons_self
    · rw [if_neg e] at h
      exact List.mem_cons_of_mem _ (mem_of_dget h)

theorem dget_of_mem : ∀ {d : Dict} {k : Nat} {vs : List Nat}, KeysNodup d → (k, vs) ∈ d →
    dget d k = some vs
  | [], _, _, _, h => by cases h
  | (k', v') :: rest, k, vs, hnd, h => by
    unfold KeysNodup at hnd
    rw [List.map_cons, List.nodup_cons] at hnd
    rw [dget_cons]
    rcases List.mem_cons.mp h with e | h'
    · simp only [Prod.mk.injEq] at e
      rw [if_pos e.1, e.2]
    · have : k ≠ k' := by
        intro e
        apply hnd.1
        rw [← e]
        exact List.mem_map.mpr ⟨(k, vs), h', rfl⟩
      rw [if_neg this]
      exact dget_of_mem hnd.2 h'

theorem keys_dset : ∀ (d : Dict) (k : Nat) (v : List Nat),
    (dset d k v).map (·.1) = if k ∈ d.map (·.1) then d.map (·.1) else d.map (·.1) ++ [k]
  | [], k, v => by simp [dset]
  | (k', v') :: rest, k, v => by
    unfold dset
    by_cases h : k' = k
    · subst h; simp
    · have hb : (k' == k) = false := by simpa using h
      rw [hb]
      simp only [Bool.false_eq_true, ↓reduceIte, List.map_cons, List.mem_cons]
      rw [keys_dset rest k v]
      have : ¬ k = k' := fun e => h e.symm
      simp only [this, false_or]
      split <;> simp

theorem dset_keysNodup {d : Dict} {k : Nat} {v : List Nat} (h : KeysNodup d) : KeysNodup (dset d k v) := by
  unfold KeysNodup at *
  rw [keys_dset]
  split
  · exact h
  · rename_i hk
    rw [List.nodup_append]
    exact ⟨h, by simp, fun a ha b hb => by
      rw [List.mem_singleton.mp hb]; intro e; exact hk (e ▸ ha)⟩

theorem transposeInner_keysNodup (k : Nat) : ∀ (vs : List Nat) (d : Dict), KeysNodup d →
    KeysNodup (transposeInner k vs d)
  | [], _, h => h
  | _ :: vs, _, h => by
    unfold transposeInner
    exact transposeInner_keysNodup k vs _ (dset_keysNodup h)

theorem transposeLoop_keysNodup : ∀ (h d : Dict), KeysNodup d → KeysNodup (transposeLoop h d)
  | [], _, hd => hd
  | (k, vs) :: rest, d, hd => by
    unfold transposeLoop
    simp only
    apply transposeLoop_keysNodup rest
    apply transposeInner_keysNodup
    split
    · exact dset_keysNodup hd
    · exact hd

theorem transposeHierarchy_keysNodup (h : Dict) : KeysNodup (transposeHierarchy h) :=
  transposeLoop_keysNodup h [] (by simp [KeysNodup])

/-- the dictionary stores, at every key below `n` (and has no other keys), a set with the members of `R i` -/
def Good (d : Dict) (n : Nat) (R : Nat → List Nat) : Prop :=
  KeysNodup d ∧ (∀ p ∈ d, p.1 < n) ∧ ∀ i, i < n → ∃ l, dget d i = some l ∧ ∀ x, x ∈ l ↔ x ∈ R i

theorem Good.congr {d : Dict} {n : Nat} {R R' : Nat → List Nat} (g : Good d n R)
    (h : ∀ i, i < n → ∀ x, x ∈ R i ↔ x ∈ R' i) : Good d n R' :=
  ⟨g.1, g.2.1, fun i hi => by
    obtain ⟨l, hl, hm⟩ := g.2.2 i hi
    exact ⟨l, hl, fun x => (hm x).trans (h i hi x)⟩⟩

/-- transposing a good dictionary of a relation gives a good dictionary of the converse relation -/
theorem Good.transpose {h : Dict} {n : Nat} {R R' : Nat → List Nat} (g : Good h n R)
    (hR : ∀ i, i < n → ∀ x ∈ R i, x < n)
    (hR' : ∀ v, v < n → ∀ x, x ∈ R' v ↔ x < n ∧ v ∈ R x) : Good (transposeHierarchy h) n R' := by
  obtain ⟨hk, hlt, hget⟩ := g
  obtain ⟨_, hHas, hKey⟩ := transposeHierarchy_spec h
  have hasIff : ∀ v x, Has (transposeHierarchy h) v x ↔ x < n ∧ v ∈ R x := by
    intro v x
    rw [hHas v x]
    constructor
    · rintro ⟨vs, hmem, hv⟩
      have hx : x < n := hlt _ hmem
      obtain ⟨l, hl, hm⟩ := hget x hx
      have := dget_of_mem hk hmem
      rw [hl] at this
      simp only [Option.some.injEq] at this
      exact ⟨hx, (hm v).mp (this ▸ hv)⟩
    · rintro ⟨hx, hv⟩
      obtain ⟨l, hl, hm⟩ := hget x hx
      exact ⟨l, mem_of_dget hl, (hm v).mpr hv⟩
  refine ⟨transposeHierarchy_keysNodup h, ?_, ?_⟩
  · intro p hp
    have hkey : IsKey (transposeHierarchy h) p.1 := ⟨p.2, dget_of_mem (transposeHierarchy_keysNodup h) hp⟩
    rcases (hKey p.1).mp hkey with ⟨vs, hmem⟩ | ⟨k, vs, hmem, hv⟩
    · exact hlt (p.1, vs) hmem
    · have hkn : k < n := hlt _ hmem
      obtain ⟨l, hl, hm⟩ := hget k hkn
      have := dget_of_mem hk hmem
      rw [hl] at this
      simp only [Option.some.injEq] at this
      exact hR k hkn p.1 ((hm p.1).mp (this ▸ hv))
  · intro v hv
    obtain ⟨l0, hl0, _⟩ := hget v hv
    obtain ⟨l, hl⟩ := (hKey v).mpr (Or.inl ⟨l0, mem_of_dget hl0⟩)
    refine ⟨l, hl, fun x => ?_⟩
    rw [hR' v hv x, ← hasIff v x]
    unfold Has
    rw [hl]; simp

/-! ### `{m[i]: {m[r] for r in rels} for i, rels in cache.items()}` -/

/-- `{m[r] for r in rels}` -/
def image (m : List Nat) (rels : List Nat) : List Nat :=
  rels.foldl (fun s r => addElem s (m.getD r 0)) []

theorem mem_image_aux (m : List Nat) : ∀ (rels acc : List Nat) (y : Nat),
    y ∈ rels.foldl (fun s r => addElem s (m.getD r 0)) acc ↔ y ∈ acc ∨ ∃ r ∈ rels, y = m.getD r 0
  | [], acc, y => by simp
  | r :: rest, acc, y => by
    rw [List.foldl_cons, mem_image_aux m rest _ y, mem_addElem]
    simp only [List.mem_cons, exists_eq_or_imp]
    constructor
    · rintro ((h | h) | h)
      · exact Or.inl h
      · exact Or.inr (Or.inl h)
      · exact Or.inr (Or.inr h)
    · rintro (h | h | h)
      · exact Or.inl (Or.inl h)
      · exact Or.inl (Or.inr h)
      · exact Or.inr h

theorem mem_image {m rels : List Nat} {y : Nat} : y ∈ image m rels ↔ ∃ r ∈ rels, y = m.getD r 0 := by
  unfold image
  rw [mem_image_aux]; simp

theorem reindexDict_eq (m : List Nat) (d : Dict) :
    reindexDict m d = d.foldl (fun acc p => dset acc (m.getD p.1 0) (image m p.2)) [] := rfl

theorem reindex_foldl_other (m : List Nat) : ∀ (d acc : Dict) (j : Nat),
    (∀ p ∈ d, m.getD p.1 0 ≠ j) →
    dget (d.foldl (fun acc p => dset acc (m.getD p.1 0) (image m p.2)) acc) j = dget acc j
  | [], _, _, _ => rfl
  | p :: rest, acc, j, h => by
    rw [List.foldl_cons, reindex_foldl_other m rest _ j (fun q hq => h q (List.mem_cons_of_mem _ hq))]
    exact dget_dset_ne _ _ _ _ (fun e => h p List.mem_cons_self e.symm)

/-- with distinct keys that `m` maps to distinct new keys, the entry of key `i` lands at key `m[i]` -/
theorem dget_reindex_foldl (m : List Nat) : ∀ (d acc : Dict), KeysNodup d →
    (∀ p ∈ d, ∀ q ∈ d, m.getD p.1 0 = m.getD q.1 0 → p.1 = q.1) →
    ∀ i vs, (i, vs) ∈ d →
    dget (d.foldl (fun acc p => dset acc (m.getD p.1 0) (image m p.2)) acc) (m.getD i 0) = some (image m vs)
  | [], _, _, _, _, _, h => by cases h
  | p :: rest, acc, hnd, hinj, i, vs, h => by
    rw [List.foldl_cons]
    unfold KeysNodup at hnd
    rw [List.map_cons, List.nodup_cons] at hnd
    rcases List.mem_cons.mp h with e | h'
    · rw [reindex_foldl_other m rest _ _ ?_]
      · rw [← e]; exact dget_dset_self _ _ _
      · intro q hq hmq
        have := hinj q (List.mem_cons_of_mem _ hq) p List.mem_cons_self (by rw [hmq, ← e])
        apply hnd.1
        rw [← this]
        exact List.mem_map.mpr ⟨q, hq, rfl⟩
    · exact dget_reindex_foldl m rest _ hnd.2
        (fun a ha b hb => hinj a (List.mem_cons_of_mem _ ha) b (List.mem_cons_of_mem _ hb)) i vs h'

end Fca.LC

/-
  Fca.Lemmas.MeasuresCalc — `calc_concepts_measures` stores, for every concept, the value of the measure
  function under the measure's key(s); uniform key sets stay uniform.
-/
import Fca.Lemmas.MeasuresEval
import Fca.Lemmas.MeasuresArrays
namespace Fca.Measures
open Fca Fca.Spec

/-- every stored value is the measure function's value for that concept (`i` = index of the head) -/
def ValOK (val : String → Nat → Except PyErr Val) : Nat → List MDict → Prop
  | _, [] => True
  | i, d :: rest => (∀ k v, d.lookup k = some v → val k i = .ok v) ∧ ValOK val (i + 1) rest

theorem ValOK_get {val : String → Nat → Except PyErr Val} :
    ∀ (off : Nat) (st : List MDict), ValOK val off st →
      ∀ (j : Nat) (d : MDict), st[j]? = some d → ∀ k v, d.lookup k = some v → val k (off + j) = .ok v
  | _, [], _, j, d, hd => by simp at hd
  | off, d₀ :: rest, h, 0, d, hd => by
    simp only [List.getElem?_cons_zero, Option.some.injEq] at hd
    subst hd
    exact h.1
  | off, d₀ :: rest, h, j + 1, d, hd => by
    intro k v hkv
    simp only [List.getElem?_cons_succ] at hd
    have := ValOK_get (off + 1) rest h.2 j d hd k v hkv
    rwa [show off + 1 + j = off + (j + 1) by omega] at this

theorem ValOK_replicate_nil (val : String → Nat → Except PyErr Val) (n off : Nat) :
    ValOK val off (List.replicate n []) := by
  induction n generalizing off with
  | zero => trivial
  | succ n ih =>
    rw [List.replicate_succ]
    exact ⟨by intro k v h; simp at h, ih (off + 1)⟩

theorem lookup_foldl_dictSet (kvs : List (String × Val)) (d : MDict) (k : String) (v : Val)
    (h : (kvs.foldl (fun d p => dictSet d p.1 p.2) d).lookup k = some v) :
    (∃ p ∈ kvs, p.1 = k ∧ p.2 = v) ∨ d.lookup k = some v := by
  induction kvs generalizing d with
  | nil => exact Or.inr h
  | cons p rest ih =>
    simp only [List.foldl_cons] at h
    rcases ih _ h with ⟨q, hq, h1, h2⟩ | h'
    · exact Or.inl ⟨q, List.mem_cons_of_mem _ hq, h1, h2⟩
    · rw [lookup_dictSet] at h'
      by_cases hk : k = p.1
      · simp only [hk, ↓reduceIte, Option.some.injEq] at h'
        exact Or.inl ⟨p, List.mem_cons_self, hk.symm, h'⟩
      · simp only [hk, ↓reduceIte] at h'
        exact Or.inr h'

/-- the per-concept loop of `calc_concepts_measures` -/
theorem calcLoop_spec (val : String → Nat → Except PyErr Val) (ks : List String)
    (f : Nat → Except PyErr (List (String × Val))) (keys : List String) :
    ∀ (meas : List MDict) (i : Nat), Uniform keys meas → ValOK val i meas →
      (∀ j, i ≤ j → j < i + meas.length →
        ∃ kvs, f j = .ok kvs ∧ kvs.map Prod.fst = ks ∧ ∀ p ∈ kvs, val p.1 j = .ok p.2) →
      ∃ st', calcLoop f i meas = .ok st' ∧ st'.length = meas.length ∧
        Uniform (addKeys keys ks) st' ∧ ValOK val i st'
  | [], i, _, _, _ => by
    refine ⟨[], rfl, rfl, ?_, trivial⟩
    intro d hd; cases hd
  | d :: rest, i, hu, hv, hf => by
    obtain ⟨kvs, hkvs, hks, hval⟩ := hf i (Nat.le_refl _) (by simp)
    obtain ⟨r, hr, hlen, hur, hvr⟩ := calcLoop_spec val ks f keys rest (i + 1)
      (fun d' hd' => hu d' (List.mem_cons_of_mem _ hd')) hv.2
      (fun j h1 h2 => hf j (by omega) (by simp only [List.length_cons]; omega))
    refine ⟨kvs.foldl (fun d p => dictSet d p.1 p.2) d :: r, ?_, by simp [hlen], ?_, ?_, hvr⟩
    · simp only [calcLoop, hkvs, hr, bind, Except.bind, pure, Except.pure]
    · intro d' hd'
      rcases List.mem_cons.mp hd' with rfl | hd'
      · rw [keysOf_foldl_dictSet, hu d List.mem_cons_self, hks]
      · exact hur d' hd'
    · intro k v hkv
      rcases lookup_foldl_dictSet kvs d k v hkv with ⟨p, hp, rfl, rfl⟩ | h'
      · exact hval p hp
      · exact hv.1 k v h'

/-! ### the measure functions return on a concept lattice -/

section
variable {t : Table} {L : Lattice} (h : IsLatticeOf t L)
include h

theorem stabilityBounds_ok {i : Nat} (hi : i < L.concepts.length) : ∃ p, stabilityBounds i L = .ok p := by
  obtain ⟨⟨A, B⟩, hc⟩ := get_of_lt L hi
  by_cases hch : L.childrenOf i = []
  · exact ⟨_, stabilityBounds_nil L hc hch⟩
  · obtain ⟨m, hm⟩ := pyMax_ok_of_ne_nil (xs := (L.childrenOf i).map fun j =>
      pow2neg (setDiffLen A (extOf L j))) (by simpa using hch)
    exact ⟨_, stabilityBounds_cons L hc (children_lt h hc) hch hm⟩

theorem logStabilityLbound_ok {i : Nat} (hi : i < L.concepts.length) {w : Nat} (hw : w ≠ 0) :
    ∃ b, logStabilityLbound i L w = .ok b := by
  obtain ⟨⟨A, B⟩, hc⟩ := get_of_lt L hi
  by_cases hch : L.childrenOf i = []
  · exact ⟨_, logStabilityLbound_nil L hc hch hw⟩
  · obtain ⟨m, hm⟩ := pyMin_ok_of_ne_nil (xs := (L.childrenOf i).map fun j =>
      setDiffLen A (extOf L j)) (by simpa using hch)
    exact ⟨_, logStabilityLbound_cons L hc (children_lt h hc) hch hm hw⟩

end

/-- the executable check of the driver decides `IsLatticeOf` -/
theorem isLatticeOfB_iff (t : Table) (L : Lattice) : isLatticeOfB t L = true ↔ IsLatticeOf t L := by
  simp only [isLatticeOfB, Bool.and_eq_true, decide_eq_true_eq, List.all_eq_true, List.contains_eq_mem,
    List.mem_range, sameMembers]
  constructor
  · rintro ⟨⟨⟨h1, h2⟩, h3⟩, h4⟩
    exact ⟨h1, fun c => ⟨h2 c, h3 c⟩, fun i hi => (h4 i hi).1,
      fun i hi j => ⟨(h4 i hi).2.1 j, (h4 i hi).2.2 j⟩⟩
  · intro h
    exact ⟨⟨⟨h.nodup, fun c hc => (h.mem c).mp hc⟩, fun c hc => (h.mem c).mpr hc⟩,
      fun i hi => ⟨h.cnodup i hi, fun j hj => (h.cmem i hi j).mp hj, fun j hj => (h.cmem i hi j).mpr hj⟩⟩

/-- the object-side enumeration lists exactly the formal concepts -/
theorem mem_allConceptsObj (t : Table) {A B : List Nat} :
    (A, B) ∈ allConceptsObj t ↔ isConcept t A B = true := by
  unfold allConceptsObj
  rw [List.mem_eraseDups, List.mem_map]
  constructor
  · rintro ⟨S, hS, heq⟩
    have hr : ∀ g ∈ S, g < t.height := fun g hg => List.mem_range.mp (mem_of_mem_sublists hS g hg)
    have := isConcept_of_objs t hr
    simp only [Prod.mk.injEq] at heq
    rw [← heq.1, ← heq.2]; exact this
  · intro h
    rw [isConcept_iff] at h
    refine ⟨A, ?_, ?_⟩
    · rw [← h.1]; unfold extAll Spec.ext; exact filter_mem_sublists _ _
    · simp only [closure, Prod.mk.injEq]
      rw [h.2]; exact ⟨h.1, rfl⟩

/-- both brute-force enumerations have the same members -/
theorem mem_allConceptsObj_iff (t : Table) (c : List Nat × List Nat) :
    c ∈ allConceptsObj t ↔ c ∈ allConcepts t := by
  obtain ⟨A, B⟩ := c
  rw [mem_allConceptsObj, mem_allConcepts]

/-- the object-side executable check decides `IsLatticeOf` as well -/
theorem isLatticeOfObjB_iff (t : Table) (L : Lattice) : isLatticeOfObjB t L = true ↔ IsLatticeOf t L := by
  rw [← isLatticeOfB_iff]
  simp only [isLatticeOfObjB, isLatticeOfB, Bool.and_eq_true, decide_eq_true_eq, List.all_eq_true,
    List.contains_eq_mem, mem_allConceptsObj_iff]

/-- a concept lattice has at least one concept -/
theorem concepts_ne_nil {t : Table} {L : Lattice} (h : IsLatticeOf t L) : L.concepts ≠ [] := by
  intro hs
  have hall : (extAll t [], closureAttr t []) ∈ L.concepts :=
    (h.mem _).mpr ((mem_allConcepts t).mpr (isConcept_of_attrs t (by intro a ha; cases ha)))
  rw [hs] at hall
  cases hall

/-- keys stored by a C16 measure name -/
def keysFor (m : String) : List String :=
  if m = "stability_bounds" ∨ m = "LStab" ∨ m = "UStab" then ["LStab", "UStab"]
  else if m = "log_stability_lbound" then ["log_stability_lbound"]
  else ["Stab"]

theorem keysFor_ne_nil (m : String) : keysFor m ≠ [] := by
  unfold keysFor; split
  · simp
  · split <;> simp

def fBounds (L : Lattice) : Nat → Except PyErr (List (String × Val)) := fun ci => do
  let (lb, ub) ← stabilityBounds ci L
  pure [("LStab", .q lb), ("UStab", .q ub)]

def fLog (L : Lattice) (w : Nat) : Nat → Except PyErr (List (String × Val)) := fun ci => do
  let b ← logStabilityLbound ci L w
  pure [("log_stability_lbound", .lg b)]

def fStab (L : Lattice) (K : Ctx) : Nat → Except PyErr (List (String × Val)) := fun ci => do
  let s ← stability ci L K
  pure [("Stab", .q s)]

theorem calc_bounds (L : Lattice) (meas : List MDict) (K : Ctx) {m : String}
    (h1 : m = "stability_bounds" ∨ m = "LStab" ∨ m = "UStab") :
    calcConceptsMeasures L meas (.name m) K = calcLoop (fBounds L) 0 meas := by
  simp only [calcConceptsMeasures, h1, if_true]; rfl

theorem calc_log (L : Lattice) (meas : List MDict) (K : Ctx) :
    calcConceptsMeasures L meas (.name "log_stability_lbound") K = calcLoop (fLog L K.nAttributes) 0 meas := by
  simp only [calcConceptsMeasures, show ¬ ("log_stability_lbound" = "stability_bounds" ∨
    "log_stability_lbound" = "LStab" ∨ "log_stability_lbound" = "UStab") by decide, if_false, if_true]; rfl

theorem calc_stab (L : Lattice) (meas : List MDict) (K : Ctx) :
    calcConceptsMeasures L meas (.name "stability") K = calcLoop (fStab L K) 0 meas := by
  simp only [calcConceptsMeasures, show ¬ ("stability" = "stability_bounds" ∨ "stability" = "LStab" ∨
    "stability" = "UStab") by decide, show ¬ ("stability" = "log_stability_lbound") by decide, if_false,
    if_true]; rfl

/-- **one `calc_concepts_measures` call** on a concept lattice: it returns, keeps one dictionary per concept,
    keeps the key sets uniform (adding the measure's keys) and stores the measure function's values. -/
theorem calc_spec (K : Ctx) (hwf : K.table.WF) (L : Lattice) (h : IsLatticeOf K.table L)
    (hw : K.nAttributes ≠ 0) (m : String) (hm : inScope m) (keys : List String) (meas : List MDict)
    (hlen : meas.length = L.concepts.length) (hu : Uniform keys meas) (hv : ValOK (valueOf L K) 0 meas) :
    ∃ st', calcConceptsMeasures L meas (.name m) K = .ok st' ∧ st'.length = L.concepts.length ∧
      Uniform (addKeys keys (keysFor m)) st' ∧ ValOK (valueOf L K) 0 st' := by
  have hrange : ∀ j, 0 ≤ j → j < 0 + meas.length → j < L.concepts.length := by
    intro j _ h2; omega
  by_cases h1 : m = "stability_bounds" ∨ m = "LStab" ∨ m = "UStab"
  · rw [calc_bounds L meas K h1]
    simp only [keysFor, h1, if_true]
    obtain ⟨st', e, l, u, v⟩ := calcLoop_spec (valueOf L K) ["LStab", "UStab"] (fBounds L) keys meas 0 hu hv (by
      intro j hj1 hj2
      obtain ⟨⟨lb, ub⟩, hp⟩ := stabilityBounds_ok h (hrange j hj1 hj2)
      refine ⟨[("LStab", .q lb), ("UStab", .q ub)], ?_, rfl, ?_⟩
      · simp only [fBounds, hp, bind, Except.bind, pure, Except.pure]
      · intro p hp'
        simp only [List.mem_cons, List.not_mem_nil, or_false] at hp'
        rcases hp' with rfl | rfl
        · simp [valueOf, hp, Except.map]
        · simp [valueOf, hp, Except.map])
    exact ⟨st', e, by omega, u, v⟩
  · by_cases h2 : m = "log_stability_lbound"
    · subst h2
      rw [calc_log]
      simp only [keysFor, show ¬ ("log_stability_lbound" = "stability_bounds" ∨
        "log_stability_lbound" = "LStab" ∨ "log_stability_lbound" = "UStab") by decide, if_false, if_true]
      obtain ⟨st', e, l, u, v⟩ := calcLoop_spec (valueOf L K) ["log_stability_lbound"] (fLog L K.nAttributes)
        keys meas 0 hu hv (by
        intro j hj1 hj2
        obtain ⟨b, hb⟩ := logStabilityLbound_ok h (hrange j hj1 hj2) hw
        refine ⟨[("log_stability_lbound", .lg b)], ?_, rfl, ?_⟩
        · simp only [fLog, hb, bind, Except.bind, pure, Except.pure]
        · intro p hp'
          simp only [List.mem_cons, List.not_mem_nil, or_false] at hp'
          subst hp'
          simp [valueOf, hb, Except.map])
      exact ⟨st', e, by omega, u, v⟩
    · have h3 : m = "stability" := by
        rcases hm with e | e | e | e | e
        · exact absurd (Or.inl e) h1
        · exact absurd (Or.inr (Or.inl e)) h1
        · exact absurd (Or.inr (Or.inr e)) h1
        · exact e
        · exact absurd e h2
      subst h3
      rw [calc_stab]
      simp only [keysFor, show ¬ ("stability" = "stability_bounds" ∨ "stability" = "LStab" ∨
        "stability" = "UStab") by decide, show ¬ ("stability" = "log_stability_lbound") by decide, if_false]
      obtain ⟨st', e, l, u, v⟩ := calcLoop_spec (valueOf L K) ["Stab"] (fStab L K) keys meas 0 hu hv (by
        intro j hj1 hj2
        have hj := hrange j hj1 hj2
        obtain ⟨⟨A, B⟩, hc⟩ := get_of_lt L hj
        have hs := stability_eq_def K hwf L hc (isConcept_of_get h hc)
        refine ⟨[("Stab", .q (stabilityDef K.table A B))], ?_, rfl, ?_⟩
        · simp only [fStab, hs, bind, Except.bind, pure, Except.pure]
        · intro p hp'
          simp only [List.mem_cons, List.not_mem_nil, or_false] at hp'
          subst hp'
          simp [valueOf, hs, Except.map])
      exact ⟨st', e, by omega, u, v⟩

/-- a sequence of calls from a uniform state -/
theorem runCalls_spec (K : Ctx) (hwf : K.table.WF) (L : Lattice) (h : IsLatticeOf K.table L)
    (hw : K.nAttributes ≠ 0) :
    ∀ (names : List String), (∀ m ∈ names, inScope m) → ∀ (keys : List String) (meas : List MDict),
      keys.Nodup → meas.length = L.concepts.length → Uniform keys meas → ValOK (valueOf L K) 0 meas →
      ∃ st keys', runCalls L K names meas = .ok st ∧ st.length = L.concepts.length ∧ keys'.Nodup ∧
        Uniform keys' st ∧ ValOK (valueOf L K) 0 st ∧ (names ≠ [] → keys' ≠ [])
  | [], _, keys, meas, hnd, hlen, hu, hv => ⟨meas, keys, rfl, hlen, hnd, hu, hv, fun hh => absurd rfl hh⟩
  | m :: rest, hn, keys, meas, hnd, hlen, hu, hv => by
    obtain ⟨st', e, l, u, v⟩ := calc_spec K hwf L h hw m (hn m List.mem_cons_self) keys meas hlen hu hv
    obtain ⟨st, keys', e2, l2, nd2, u2, v2, ne2⟩ := runCalls_spec K hwf L h hw rest
      (fun x hx => hn x (List.mem_cons_of_mem _ hx)) _ st' (nodup_addKeys hnd _) l u v
    refine ⟨st, keys', ?_, l2, nd2, u2, v2, ?_⟩
    · simp only [runCalls, e, bind, Except.bind, e2]
    · intro _
      cases rest with
      | nil =>
        simp only [runCalls, Except.ok.injEq] at e2
        subst e2
        -- keys' is the key list of st' = addKeys keys (keysFor m) when there is at least one concept
        intro hk
        subst hk
        -- all dictionaries of st' have no keys, but they contain the keys of `m`
        have hne : st' ≠ [] := by
          intro hs
          subst hs
          have : L.concepts.length = 0 := by simpa using l.symm
          have hall : (extAll K.table [], closureAttr K.table []) ∈ L.concepts :=
            (h.mem _).mpr ((mem_allConcepts K.table).mpr (isConcept_of_attrs K.table (by intro a ha; cases ha)))
          rw [List.length_eq_zero_iff] at this
          rw [this] at hall
          cases hall
        obtain ⟨d, rest', rfl⟩ := List.exists_cons_of_ne_nil hne
        have h1 := u d List.mem_cons_self
        have h2 := u2 d List.mem_cons_self
        rw [h1] at h2
        obtain ⟨k, ks, hk⟩ := List.exists_cons_of_ne_nil (keysFor_ne_nil m)
        have : k ∈ addKeys keys (keysFor m) := mem_addKeys_of_mem (by rw [hk]; exact List.mem_cons_self)
        rw [h2] at this
        cases this
      | cons m' rest' => exact ne2 (by simp)

end Fca.Measures

/-
  Fca.Lemmas.ConstructRemove2 — `remove_concept` on extent lists: assembly of the generic lemmas of
  `ConstructRemove` for the order and for its reverse, and the extreme indexes.
-/
import Fca.Lemmas.ConstructRemove
namespace Fca.Construct
open Fca.Spec

/-- what `remove_concept` is given -/
structure RemInput (cs : List Ext) (ci : Nat) (r : Rel) (t0 b0 : Nat) : Prop where
  nodup : ExtsNodup cs
  len : 3 ≤ cs.length
  ciLt : ci < cs.length
  sub : IsCoverDict cs r.sub
  sup : IsUpperCoverDict cs r.sup
  top : IsTop cs t0
  bot : IsBottom cs b0
  rtop : r.top = none ∨ r.top = some t0
  rbot : r.bot = none ∨ r.bot = some b0
  top' : ∃ t', IsTop (cs.eraseIdx ci) t'
  bot' : ∃ b', IsBottom (cs.eraseIdx ci) b'

theorem nodup_singleton_of_mem {l : List Nat} {g : Nat} (hnd : l.Nodup) (h : ∀ y, y ∈ l ↔ y = g) :
    l = [g] := by
  cases l with
  | nil => have := (h g).mpr rfl; cases this
  | cons a t =>
    have ha : a = g := (h a).mp (List.mem_cons_self ..)
    subst ha
    cases t with
    | nil => rfl
    | cons b u =>
      have hb : b = a := (h b).mp (List.mem_cons_of_mem _ (List.mem_cons_self ..))
      subst hb
      have := (List.nodup_cons.mp hnd).1
      exact absurd (List.mem_cons_self ..) this

section
variable {cs : List Ext} {ci : Nat} {r : Rel} {t0 b0 : Nat}

theorem RemInput.tb (hin : RemInput cs ci r t0 b0) : remTopBottom cs ci r = (some t0, some b0) := by
  have hnd := hin.nodup
  have hg : getTopBottom cs.length (suppAt cs) = (some t0, some b0) := by
    apply getTopBottom_eq hin.top.1 hin.bot.1
    · intro j hj hne
      have := hin.top.2 j hj hne
      rw [← ltAt_eq_ssubAt hnd] at this
      exact ltC_length this
    · intro j hj hne
      have := hin.bot.2 j hj hne
      rw [← ltAt_eq_ssubAt hnd] at this
      exact ltC_length this
  unfold remTopBottom
  rcases hin.rtop with e1 | e1 <;> rcases hin.rbot with e2 | e2 <;> rw [e1, e2] <;> simp only
  · exact hg
  · exact hg
  · exact hg
  · split
    · exact hg
    · rfl

theorem ssubAt_eraseIdx (cs : List Ext) (ci : Nat) :
    ssubAt (cs.eraseIdx ci) = fun a b => ssubAt cs (upIdx ci a) (upIdx ci b) := by
  funext a b
  unfold ssubAt
  rw [getD_eraseIdx, getD_eraseIdx]

/-- the extreme index after the removal, generic in the direction (`L j t` = "`j` is strictly on the far
    side of `t`") -/
theorem remExtreme_ok {n : Nat} {L : Nat → Nat → Bool} {rk : Nat → Nat} (h : StrictOrd L rk) {ci t0 : Nat}
    (hci : ci < n) (ht0 : t0 < n) (hTop : ∀ j, j < n → j ≠ t0 → L j t0 = true)
    (nbrs : List Nat) (hnb : nbrs.Nodup ∧ SameSetC nbrs (coversBy n L ci))
    (htop' : ∃ t', t' < n - 1 ∧ ∀ j, j < n - 1 → j ≠ t' → L (upIdx ci j) (upIdx ci t') = true) :
    ∃ t2, remExtreme (some t0) ci nbrs = .ok (some t2) ∧ decrement t2 ci < n - 1 ∧
      ∀ j, j < n - 1 → j ≠ decrement t2 ci → L (upIdx ci j) (upIdx ci (decrement t2 ci)) = true := by
  unfold remExtreme
  by_cases e : t0 = ci
  · subst e
    simp only [beq_self_eq_true, if_true]
    obtain ⟨t', ht', hall⟩ := htop'
    have hg : upIdx t0 t' < n := upIdx_lt hci ht'
    have hgne : upIdx t0 t' ≠ t0 := upIdx_ne t0 t'
    have hsing : ∀ y, y ∈ nbrs ↔ y = upIdx t0 t' := by
      intro y
      rw [hnb.2 y, mem_coversBy]
      constructor
      · rintro ⟨y1, y2, y3⟩
        have yne : y ≠ t0 := by intro e; subst e; rw [h.irrefl] at y2; cases y2
        apply Classical.byContradiction
        intro hne
        have hd : decrement y t0 ≠ t' := by
          intro e; apply hne; rw [← e, upIdx_decrement yne]
        have := hall (decrement y t0) (decrement_lt hci y1 yne) hd
        rw [upIdx_decrement yne] at this
        have h2 := y3 (upIdx t0 t') hg this
        rw [hTop _ hg hgne] at h2; cases h2
      · intro e; subst e
        refine ⟨hg, hTop _ hg hgne, fun k hk hgk => ?_⟩
        apply Bool.eq_false_iff.mpr
        intro hkt
        have kne : k ≠ t0 := by intro e; subst e; rw [h.irrefl] at hkt; cases hkt
        have hd : decrement k t0 ≠ t' := by
          intro e
          have : k = upIdx t0 t' := by rw [← e, upIdx_decrement kne]
          rw [this, h.irrefl] at hgk; cases hgk
        have := hall (decrement k t0) (decrement_lt hci hk kne) hd
        rw [upIdx_decrement kne] at this
        have h2 := h.asymm this
        rw [hgk] at h2; cases h2
    rw [nodup_singleton_of_mem hnb.1 hsing]
    refine ⟨upIdx t0 t', rfl, ?_, ?_⟩
    · rw [decrement_upIdx]; exact ht'
    · rw [decrement_upIdx]; exact hall
  · have hbeq : (some t0 == some ci) = false := by simpa using e
    rw [hbeq]
    simp only [Bool.false_eq_true, if_false]
    refine ⟨t0, rfl, decrement_lt hci ht0 e, ?_⟩
    intro j hj hne
    rw [upIdx_decrement e]
    apply hTop _ (upIdx_lt hci hj)
    intro e2
    apply hne
    rw [← e2, decrement_upIdx]

theorem pairwise_bySupportAsc (n : Nat) (supp : Nat → Nat) :
    (bySupportAsc n supp).Pairwise (fun a b => supp a ≤ supp b) := by
  unfold bySupportAsc
  apply pairwise_sortBy
  · intro x y hxy; simpa using hxy
  · intro x y hxy
    have : ¬ supp x ≤ supp y := by simpa using hxy
    omega
  · intro x y z h1 h2; omega

theorem pairwise_bySupportDesc (n : Nat) (supp : Nat → Nat) (W : Nat) :
    (bySupportDesc n supp).Pairwise (fun a b => W - supp a ≤ W - supp b) := by
  unfold bySupportDesc
  apply pairwise_sortBy
  · intro x y hxy
    have : supp y ≤ supp x := by simpa using hxy
    omega
  · intro x y hxy
    have : ¬ supp y ≤ supp x := by simpa using hxy
    omega
  · intro x y z h1 h2; omega

/-- `remove_concept` turns the cover relation (both directions) and the extreme indexes of the list into
    those of the reduced list -/
theorem removeConcept_ok (hin : RemInput cs ci r t0 b0) (ord : List Nat → List Nat)
    (hperm : ∀ xs, (ord xs).Perm xs) :
    ∃ r', removeConcept cs ci r ord = .ok r' ∧
      IsCoverDict (cs.eraseIdx ci) r'.sub ∧ IsUpperCoverDict (cs.eraseIdx ci) r'.sup ∧
      ∃ t' b', r'.top = some t' ∧ IsTop (cs.eraseIdx ci) t' ∧ r'.bot = some b' ∧
        IsBottom (cs.eraseIdx ci) b' := by
  have hnd := hin.nodup
  have hci := hin.ciLt
  have hso := strictOrd_ltAt cs hnd
  have hW : ∀ i, suppAt cs i < walkFuel cs := suppAt_lt_walkFuel cs
  have hsoF := strictOrd_flip hso (walkFuel cs) hW
  have hLe : ltAt cs = ssubAt cs := ltAt_eq_ssubAt hnd
  have hlen'' : (cs.eraseIdx ci).length = cs.length - 1 := by rw [List.length_eraseIdx]; simp [hci]
  -- the dictionaries in terms of `ltAt`
  have hsubD : ∀ c, c < cs.length →
      (r.sub.getD c []).Nodup ∧ SameSetC (r.sub.getD c []) (coversBy cs.length (ltAt cs) c) := by
    intro c hc
    refine ⟨(hin.sub.2 c hc).1, fun x => ?_⟩
    rw [(hin.sub.2 c hc).2 x]; unfold Spec.covers; rw [hLe]
  have hsupD : ∀ c, c < cs.length →
      (r.sup.getD c []).Nodup ∧ SameSetC (r.sup.getD c []) (coversBy cs.length (flipR (ltAt cs)) c) := by
    intro c hc
    refine ⟨(hin.sup.2 c hc).1, fun x => ?_⟩
    rw [(hin.sup.2 c hc).2 x]; unfold Spec.upperCoversC; rw [hLe, mem_coversBy_flip]
  have hsupers := hsupD ci hci
  have hsubs := hsubD ci hci
  have hgetsup : r.sup[ci]? = some (r.sup.getD ci []) := by
    rw [List.getD_eq_getElem?_getD, List.getElem?_eq_getElem (by rw [hin.sup.1]; exact hci)]; rfl
  have hgetsub : r.sub[ci]? = some (r.sub.getD ci []) := by
    rw [List.getD_eq_getElem?_getD, List.getElem?_eq_getElem (by rw [hin.sub.1]; exact hci)]; rfl
  -- extreme indexes
  have hTopL : ∀ j, j < cs.length → j ≠ t0 → ltAt cs j t0 = true := by rw [hLe]; exact hin.top.2
  have hBotL : ∀ j, j < cs.length → j ≠ b0 → flipR (ltAt cs) j b0 = true := by
    unfold flipR; rw [hLe]; exact hin.bot.2
  have htop'' : ∃ t', t' < cs.length - 1 ∧
      ∀ j, j < cs.length - 1 → j ≠ t' → ltAt cs (upIdx ci j) (upIdx ci t') = true := by
    obtain ⟨t', ht'⟩ := hin.top'
    unfold IsTop at ht'
    rw [ssubAt_eraseIdx, hlen'', ← hLe] at ht'
    exact ⟨t', ht'⟩
  have hbot'' : ∃ b', b' < cs.length - 1 ∧
      ∀ j, j < cs.length - 1 → j ≠ b' → flipR (ltAt cs) (upIdx ci j) (upIdx ci b') = true := by
    obtain ⟨b', hb'⟩ := hin.bot'
    unfold IsBottom at hb'
    rw [ssubAt_eraseIdx, hlen'', ← hLe] at hb'
    exact ⟨b', hb'⟩
  obtain ⟨t2, et, ht2a, ht2b⟩ := remExtreme_ok hso hci hin.top.1 hTopL (r.sub.getD ci []) hsubs htop''
  obtain ⟨b2, eb, hb2a, hb2b⟩ := remExtreme_ok hsoF hci hin.bot.1 hBotL (r.sup.getD ci []) hsupers hbot''
  -- closures
  obtain ⟨allSuper, ec1, hcl1⟩ := closureOK_of hsoF r.sup hin.sup.1 hsupD ord hperm
    (bySupportDesc cs.length (suppAt cs)) (pairwise_bySupportDesc _ _ _) (perm_sortBy _ _)
  obtain ⟨allSub, ec2, hcl2⟩ := closureOK_of hso r.sub hin.sub.1 hsubD ord hperm
    (bySupportAsc cs.length (suppAt cs)) (pairwise_bySupportAsc _ _) (perm_sortBy _ _)
  -- reconnections
  have hsupersU : ∀ x, x ∈ ord (r.sup.getD ci []) ↔ x ∈ upperCoversBy cs.length (ltAt cs) ci := by
    intro x; rw [(hperm _).mem_iff, hsupers.2 x, mem_coversBy_flip]
  have hsubsU : ∀ x, x ∈ ord (r.sub.getD ci []) ↔ x ∈ upperCoversBy cs.length (flipR (ltAt cs)) ci := by
    intro x; rw [(hperm _).mem_iff, hsubs.2 x, mem_upperCoversBy_flip]
  obtain ⟨sub1, er1, l1, g1, k1⟩ := reconnectAll_ok hso hcl2
    (fun a b => decide (suppAt cs b ≤ suppAt cs a)) ord hperm (r.sub.getD ci []) false hsubs
    (ord (r.sup.getD ci [])) r.sub ((hperm _).nodup_iff.mpr hsupers.1) hin.sub.1
    (fun x hx => by
      have hxU := (hsupersU x).mp hx
      exact ⟨hxU, hsubD x (mem_upperCoversBy.mp hxU).1⟩)
  obtain ⟨sup1, er2, l2, g2, k2⟩ := reconnectAll_ok hsoF hcl1
    (fun a b => decide (suppAt cs a ≤ suppAt cs b)) ord hperm (r.sup.getD ci []) true hsupers
    (ord (r.sub.getD ci [])) r.sup ((hperm _).nodup_iff.mpr hsubs.1) hin.sup.1
    (fun x hx => by
      have hxU := (hsubsU x).mp hx
      exact ⟨hxU, hsupD x (mem_upperCoversBy.mp hxU).1⟩)
  -- every remaining entry lists the new covers
  have hsub1 : ∀ x, x < cs.length → x ≠ ci →
      (sub1.getD x []).Nodup ∧ ∀ y, y ∈ sub1.getD x [] ↔ NewCov cs.length (ltAt cs) ci x y := by
    intro x hx hne
    by_cases hm : x ∈ ord (r.sup.getD ci [])
    · exact g1 x hm
    · rw [k1 x hm]
      refine ⟨(hsubD x hx).1, fun y => ?_⟩
      rw [(hsubD x hx).2 y]
      exact covers_iff_newCov hso hx hci (fun e => hm ((hsupersU x).mpr e)) y
  have hsup1 : ∀ x, x < cs.length → x ≠ ci →
      (sup1.getD x []).Nodup ∧ ∀ y, y ∈ sup1.getD x [] ↔ NewCov cs.length (flipR (ltAt cs)) ci x y := by
    intro x hx hne
    by_cases hm : x ∈ ord (r.sub.getD ci [])
    · exact g2 x hm
    · rw [k2 x hm]
      refine ⟨(hsupD x hx).1, fun y => ?_⟩
      rw [(hsupD x hx).2 y]
      exact covers_iff_newCov hsoF hx hci (fun e => hm ((hsubsU x).mpr e)) y
  obtain ⟨ra1, ra2⟩ := reindex_ok (L := ltAt cs) hci sub1 l1 hsub1
  obtain ⟨rb1, rb2⟩ := reindex_ok (L := flipR (ltAt cs)) hci sup1 l2 hsup1
  -- run the model
  have h1 : (!decide (ci < cs.length)) = false := by simp [hci]
  have h2 : ¬ cs.length < 3 := by have := hin.len; omega
  unfold removeConcept
  simp only [h1, Bool.false_eq_true, if_false, h2, hgetsup, hgetsub, hin.tb, et, eb, ec1, ec2, er1, er2]
  refine ⟨_, rfl, ?_, ?_, decrement t2 ci, decrement b2 ci, rfl, ?_, rfl, ?_⟩
  · unfold IsCoverDict
    simp only
    rw [hlen'']
    refine ⟨ra1, fun i hi => ?_⟩
    unfold Spec.covers
    rw [hlen'', ssubAt_eraseIdx, ← hLe]
    exact ra2 i hi
  · unfold IsUpperCoverDict
    simp only
    rw [hlen'']
    refine ⟨rb1, fun i hi => ⟨(rb2 i hi).1, fun x => ?_⟩⟩
    rw [(rb2 i hi).2 x]
    unfold Spec.upperCoversC
    rw [hlen'', ssubAt_eraseIdx, ← hLe]
    exact mem_coversBy_flip (L := fun a b => ltAt cs (upIdx ci a) (upIdx ci b))
  · unfold IsTop
    rw [ssubAt_eraseIdx, hlen'', ← hLe]
    exact ⟨ht2a, ht2b⟩
  · unfold IsBottom
    rw [ssubAt_eraseIdx, hlen'', ← hLe]
    exact ⟨hb2a, hb2b⟩

end

end Fca.Construct

/-
  Fca.Lemmas.ConstructTopBottom — `get_top_bottom_concepts_i` (unsorted path) finds the indexes of the
  unique largest / smallest support.
-/
import Fca.Lemmas.ConstructBasic
namespace Fca.Construct
open Fca.Spec

structure TBInv (supp : Nat → Nat) (t0 b0 : Nat) (seen : List Nat) (s : TB) : Prop where
  topSeen : s.top ∈ seen
  botSeen : s.bot ∈ seen
  top : t0 ∈ seen → s.top = t0 ∧ s.multTop = false
  bot : b0 ∈ seen → s.bot = b0 ∧ s.multBot = false

theorem tbs_top (supp : Nat → Nat) (s : TB) (i : Nat) :
    (topBottomStep supp s i).top = if supp i > supp s.top then i else s.top := by
  unfold topBottomStep; simp only
  by_cases h1 : supp i > supp s.top <;> by_cases h2 : supp i < supp s.bot <;> simp [h1, h2]

theorem tbs_multTop (supp : Nat → Nat) (s : TB) (i : Nat) :
    (topBottomStep supp s i).multTop
      = if supp i > supp s.top then false else (s.multTop || supp i == supp s.top) := by
  unfold topBottomStep; simp only
  by_cases h1 : supp i > supp s.top <;> by_cases h2 : supp i < supp s.bot <;> simp [h1, h2]

theorem tbs_bot (supp : Nat → Nat) (s : TB) (i : Nat) :
    (topBottomStep supp s i).bot = if supp i < supp s.bot then i else s.bot := by
  unfold topBottomStep; simp only
  by_cases h1 : supp i > supp s.top <;> by_cases h2 : supp i < supp s.bot <;> simp [h1, h2]

theorem tbs_multBot (supp : Nat → Nat) (s : TB) (i : Nat) :
    (topBottomStep supp s i).multBot
      = if supp i < supp s.bot then false else (s.multBot || supp i == supp s.bot) := by
  unfold topBottomStep; simp only
  by_cases h1 : supp i > supp s.top <;> by_cases h2 : supp i < supp s.bot <;> simp [h1, h2]

theorem tbInv_step {n : Nat} {supp : Nat → Nat} {t0 b0 : Nat}
    (ht : ∀ j, j < n → j ≠ t0 → supp j < supp t0) (hb : ∀ j, j < n → j ≠ b0 → supp b0 < supp j)
    {seen : List Nat} {s : TB} {i : Nat} (hseen : ∀ x ∈ seen, x < n) (hi : i < n) (hni : i ∉ seen)
    (inv : TBInv supp t0 b0 seen s) : TBInv supp t0 b0 (seen ++ [i]) (topBottomStep supp s i) := by
  have htopn := hseen _ inv.topSeen
  have hbotn := hseen _ inv.botSeen
  refine ⟨?_, ?_, ?_, ?_⟩
  · rw [tbs_top]; split
    · simp
    · exact List.mem_append_left _ inv.topSeen
  · rw [tbs_bot]; split
    · simp
    · exact List.mem_append_left _ inv.botSeen
  · intro hm
    rw [tbs_top, tbs_multTop]
    rcases List.mem_append.mp hm with hm | hm
    · obtain ⟨e1, e2⟩ := inv.top hm
      have hit : i ≠ t0 := fun e => hni (e ▸ hm)
      have := ht i hi hit
      have h1 : ¬ supp i > supp s.top := by rw [e1]; omega
      rw [if_neg h1, if_neg h1]
      refine ⟨e1, ?_⟩
      simp only [e2, Bool.false_or, beq_eq_false_iff_ne, ne_eq]
      rw [e1]; omega
    · have hti : t0 = i := by simpa using hm
      subst hti
      have : s.top ≠ t0 := fun e => hni (e ▸ inv.topSeen)
      have := ht s.top htopn this
      have h1 : supp t0 > supp s.top := by omega
      rw [if_pos h1, if_pos h1]
      exact ⟨rfl, rfl⟩
  · intro hm
    rw [tbs_bot, tbs_multBot]
    rcases List.mem_append.mp hm with hm | hm
    · obtain ⟨e1, e2⟩ := inv.bot hm
      have hib : i ≠ b0 := fun e => hni (e ▸ hm)
      have := hb i hi hib
      have h1 : ¬ supp i < supp s.bot := by rw [e1]; omega
      rw [if_neg h1, if_neg h1]
      refine ⟨e1, ?_⟩
      simp only [e2, Bool.false_or, beq_eq_false_iff_ne, ne_eq]
      rw [e1]; omega
    · have hbi : b0 = i := by simpa using hm
      subst hbi
      have : s.bot ≠ b0 := fun e => hni (e ▸ inv.botSeen)
      have := hb s.bot hbotn this
      have h1 : supp b0 < supp s.bot := by omega
      rw [if_pos h1, if_pos h1]
      exact ⟨rfl, rfl⟩

theorem tbInv_foldl {n : Nat} {supp : Nat → Nat} {t0 b0 : Nat}
    (ht : ∀ j, j < n → j ≠ t0 → supp j < supp t0) (hb : ∀ j, j < n → j ≠ b0 → supp b0 < supp j) :
    ∀ (l seen : List Nat) (s : TB), (∀ x ∈ seen, x < n) → (∀ x ∈ l, x < n) → (seen ++ l).Nodup →
      TBInv supp t0 b0 seen s → TBInv supp t0 b0 (seen ++ l) (l.foldl (topBottomStep supp) s) := by
  intro l
  induction l with
  | nil => intro seen s _ _ _ inv; simpa using inv
  | cons i rest ih =>
    intro seen s hseen hl hnd inv
    have hi := hl i (List.mem_cons_self ..)
    have hni : i ∉ seen := by
      intro hm
      exact (List.nodup_append.mp hnd).2.2 i hm i (List.mem_cons_self ..) rfl
    have inv1 := tbInv_step ht hb hseen hi hni inv
    have := ih (seen ++ [i]) (topBottomStep supp s i)
      (by intro x hx; rcases List.mem_append.mp hx with hx | hx
          · exact hseen x hx
          · simp at hx; omega)
      (fun x hx => hl x (List.mem_cons_of_mem _ hx)) (by simpa using hnd) inv1
    simpa using this

theorem getTopBottom_eq {n : Nat} {supp : Nat → Nat} {t0 b0 : Nat} (ht0 : t0 < n) (hb0 : b0 < n)
    (ht : ∀ j, j < n → j ≠ t0 → supp j < supp t0) (hb : ∀ j, j < n → j ≠ b0 → supp b0 < supp j) :
    getTopBottom n supp = (some t0, some b0) := by
  have hn : 0 < n := by omega
  have hsplit : [0] ++ (List.range n).drop 1 = List.range n := by
    cases n with
    | zero => omega
    | succ m => rw [List.range_succ_eq_map]; simp
  have inv0 : TBInv supp t0 b0 [0] ⟨0, 0, false, false⟩ := by
    refine ⟨by simp, by simp, ?_, ?_⟩
    · intro h; have : t0 = 0 := by simpa using h
      exact ⟨this.symm, rfl⟩
    · intro h; have : b0 = 0 := by simpa using h
      exact ⟨this.symm, rfl⟩
  have hfin := tbInv_foldl ht hb ((List.range n).drop 1) [0] ⟨0, 0, false, false⟩
    (by intro x hx; simp at hx; omega)
    (by intro x hx; exact List.mem_range.mp (List.mem_of_mem_drop hx))
    (by rw [hsplit]; exact List.nodup_range) inv0
  rw [hsplit] at hfin
  obtain ⟨e1, e2⟩ := hfin.top (List.mem_range.mpr ht0)
  obtain ⟨e3, e4⟩ := hfin.bot (List.mem_range.mpr hb0)
  unfold getTopBottom
  simp only [e1, e2, e3, e4, Bool.false_eq_true, if_false]

end Fca.Construct

/-
  Fca.Lemmas.LatticeQueryLabels — facts behind the reduced labelling (C04): in a finite order with a strictly
  monotone measure every strict descendant lies below some child (lower cover) and every strict ancestor above
  some parent; membership in `get_concept_new_extent_i` / `get_concept_new_intent_i`.
-/
import Fca.Lemmas.LatticeQueryConcept
import Fca.Lemmas.LatticeQuerySort
namespace Fca.PQ

theorem exists_max (μ : Nat → Nat) : ∀ {l : List Nat}, l ≠ [] → ∃ j ∈ l, ∀ y ∈ l, μ y ≤ μ j
  | [], h => absurd rfl h
  | [a], _ => ⟨a, List.mem_cons_self, fun y hy => by
      rcases List.mem_cons.mp hy with e | h
      · rw [e]; exact Nat.le_refl _
      · cases h⟩
  | a :: b :: rest, _ => by
    obtain ⟨j, hj, hmax⟩ := exists_max μ (l := b :: rest) (by simp)
    by_cases h : μ j ≤ μ a
    · refine ⟨a, List.mem_cons_self, fun y hy => ?_⟩
      rcases List.mem_cons.mp hy with e | hy
      · rw [e]; exact Nat.le_refl _
      · exact Nat.le_trans (hmax y hy) h
    · refine ⟨j, List.mem_cons_of_mem _ hj, fun y hy => ?_⟩
      rcases List.mem_cons.mp hy with e | hy
      · rw [e]; omega
      · exact hmax y hy

variable {leq : Nat → Nat → Bool} {n : Nat}

/-- every strict descendant of `i` is below (or equal to) some child of `i` -/
theorem exists_child_above (po : IsPO leq n) (μ : Nat → Nat)
    (hμ : ∀ a b, a < n → b < n → leq a b = true → a ≠ b → μ a < μ b)
    {ord : List Nat → List Nat} (ho : IsOrder ord) {i k : Nat} (hk : k ∈ descendants leq n i) :
    ∃ j ∈ children leq n ord i, leq k j = true := by
  have hkn := (mem_descendants.mp hk).1
  let T := (descendants leq n i).filter fun j => leq k j
  have hkT : k ∈ T := List.mem_filter.mpr ⟨hk, po.refl k hkn⟩
  obtain ⟨j, hjT, hmax⟩ := exists_max μ (l := T) (List.ne_nil_of_mem hkT)
  have hj := List.mem_filter.mp hjT
  refine ⟨j, (mem_children po ho).mpr ⟨hj.1, ?_⟩, hj.2⟩
  intro y hy hjy
  have hjy' := mem_descendants.mp hjy
  have hyn := (mem_descendants.mp hy).1
  have hyT : y ∈ T := List.mem_filter.mpr ⟨hy, po.trans k j y hj.2 hjy'.2.1⟩
  have := hmax y hyT
  have := hμ j y hjy'.1 hyn hjy'.2.1 hjy'.2.2
  omega

/-- the reversed order -/
theorem isPO_flip (po : IsPO leq n) : IsPO (fun a b => leq b a) n where
  refl := po.refl
  trans := fun a b c h₁ h₂ => po.trans c b a h₂ h₁
  antisymm := fun a b ha hb h₁ h₂ => po.antisymm a b ha hb h₂ h₁

theorem ancestors_eq_flip (i : Nat) : ancestors leq n i = descendants (fun a b => leq b a) n i := rfl

theorem parents_eq_flip (ord : List Nat → List Nat) (i : Nat) :
    parents leq n ord i = children (fun a b => leq b a) n ord i := rfl

/-- every strict ancestor of `i` is above (or equal to) some parent of `i` -/
theorem exists_parent_below (po : IsPO leq n) (μ : Nat → Nat)
    (hμ : ∀ a b, a < n → b < n → leq a b = true → a ≠ b → μ b < μ a)
    {ord : List Nat → List Nat} (ho : IsOrder ord) {i k : Nat} (hk : k ∈ ancestors leq n i) :
    ∃ j ∈ parents leq n ord i, leq j k = true := by
  rw [ancestors_eq_flip] at hk
  obtain ⟨j, hj, hle⟩ := exists_child_above (isPO_flip po) μ
    (fun a b ha hb h hne => hμ b a hb ha h (fun e => hne e.symm)) ho hk
  exact ⟨j, hj, hle⟩

end Fca.PQ

namespace Fca.LQ
open Fca Fca.Spec

theorem mem_newExtentI {cs : Lat} {ord : List Nat → List Nat} {i g : Nat} :
    g ∈ newExtentI cs ord i ↔ g ∈ extOf cs i ∧ ∀ j ∈ children cs ord i, g ∉ extOf cs j := by
  unfold newExtentI unionOf
  rw [PQ.mem_removeAll, List.mem_flatMap]
  constructor
  · rintro ⟨h, hn⟩
    exact ⟨h, fun j hj hg => hn ⟨j, hj, hg⟩⟩
  · rintro ⟨h, hn⟩
    exact ⟨h, fun ⟨j, hj, hg⟩ => hn j hj hg⟩

theorem mem_newIntentI {cs : Lat} {ord : List Nat → List Nat} {i a : Nat} :
    a ∈ newIntentI cs ord i ↔ a ∈ intOf cs i ∧ ∀ j ∈ parents cs ord i, a ∉ intOf cs j := by
  unfold newIntentI unionOf
  rw [PQ.mem_removeAll, List.mem_flatMap]
  constructor
  · rintro ⟨h, hn⟩
    exact ⟨h, fun j hj hg => hn ⟨j, hj, hg⟩⟩
  · rintro ⟨h, hn⟩
    exact ⟨h, fun ⟨j, hj, hg⟩ => hn j hj hg⟩

namespace IsConceptList
variable {t : Table} {cs : Lat} (H : IsConceptList t cs)
include H

/-- strictly below ⇒ strictly smaller support -/
theorem ext_len_lt {a b : Nat} (ha : a < cs.length) (hb : b < cs.length)
    (h : leq cs a b = true) (hne : a ≠ b) : (extOf cs a).length < (extOf cs b).length := by
  apply support_lt (c := conc cs a) (d := conc cs b) (H.isConcept ha) (H.isConcept hb)
    ((H.leq_iff ha b).mp h)
  intro e
  exact hne ((List.getD_inj ha hb H.nodup).mp e)

/-- the order of the intents is the reverse of the order of the extents -/
theorem leq_iff_int {a b : Nat} (ha : a < cs.length) (hb : b < cs.length) :
    leq cs a b = true ↔ ∀ m ∈ intOf cs b, m ∈ intOf cs a := by
  rw [H.leq_iff ha b]
  exact concept_order t (H.isConcept ha) (H.isConcept hb)

/-- strictly below ⇒ strictly longer intent -/
theorem int_len_lt {a b : Nat} (ha : a < cs.length) (hb : b < cs.length)
    (h : leq cs a b = true) (hne : a ≠ b) : (intOf cs b).length < (intOf cs a).length := by
  have hsub := (H.leq_iff_int ha hb).mp h
  have hnsub : ¬ ∀ m ∈ intOf cs a, m ∈ intOf cs b := by
    intro hback
    exact hne (H.leq_antisymm ha hb h ((H.leq_iff_int hb ha).mpr hback))
  have : ∃ x, x ∈ intOf cs a ∧ x ∉ intOf cs b := by
    apply Classical.byContradiction
    intro hno
    apply hnsub
    intro m hm
    apply Classical.byContradiction
    intro hmb
    exact hno ⟨m, hm, hmb⟩
  obtain ⟨x, hxa, hxb⟩ := this
  exact length_lt_of_ssubset (by rw [← H.int_eq hb]; exact intAll_nodup t _) hsub hxa hxb

theorem child_above {ord : List Nat → List Nat} (ho : PQ.IsOrder ord) {i k : Nat}
    (hk : k ∈ descendants cs i) : ∃ j ∈ children cs ord i, leq cs k j = true :=
  PQ.exists_child_above H.isPO (fun a => (extOf cs a).length)
    (fun _ _ ha hb h hne => H.ext_len_lt ha hb h hne) ho hk

theorem parent_below {ord : List Nat → List Nat} (ho : PQ.IsOrder ord) {i k : Nat}
    (hk : k ∈ ancestors cs i) : ∃ j ∈ parents cs ord i, leq cs j k = true :=
  PQ.exists_parent_below H.isPO (fun a => (intOf cs a).length)
    (fun _ _ ha hb h hne => H.int_len_lt ha hb h hne) ho hk

theorem children_lt {ord : List Nat → List Nat} (ho : PQ.IsOrder ord) {i j : Nat}
    (hj : j ∈ children cs ord i) : j < cs.length ∧ leq cs j i = true ∧ j ≠ i :=
  PQ.mem_descendants.mp ((PQ.mem_children H.isPO ho).mp hj).1

theorem parents_lt {ord : List Nat → List Nat} (ho : PQ.IsOrder ord) {i j : Nat}
    (hj : j ∈ parents cs ord i) : j < cs.length ∧ leq cs i j = true ∧ j ≠ i :=
  PQ.mem_ancestors.mp ((PQ.mem_parents H.isPO ho).mp hj).1

end IsConceptList
end Fca.LQ

/-
  Lemmas/PosetStep — one step of the machine: invariant preservation and output = Fresh answer, per operation.
-/
import Fca.Lemmas.PosetDel2
set_option linter.unusedSectionVars false
namespace Fca.Poset
open Fca Fca.Poset.Fresh

section
variable {α : Type} [DecidableEq α] {leq : α → α → Bool} {ord : List Nat → List Nat}
variable {E : List α} {U : α → Prop}

/-- the elements an operation brings in belong to the universe `U` -/
def OpIn (U : α → Prop) : Op α → Prop
  | .add e _ => U e
  | _ => True

theorem next_nodup (hnd : E.Nodup) (op : Op α) : (next E op).Nodup := by
  cases op <;> simp only [next] <;> try exact hnd
  · split
    · exact hnd
    · rename_i e _ he
      rw [List.nodup_append]
      exact ⟨hnd, by simp, fun a ha b hb => by simp at hb; subst hb; intro e'; subst e'; exact he ha⟩
  · exact hnd.eraseIdx _
  · split
    · exact hnd.eraseIdx _
    · exact hnd

theorem next_U (hU : ∀ a ∈ E, U a) (op : Op α) (hin : OpIn U op) : ∀ a ∈ next E op, U a := by
  cases op <;> simp only [next] <;> try exact hU
  · split
    · exact hU
    · intro a ha
      rcases List.mem_append.mp ha with h | h
      · exact hU a h
      · simp at h; subst h; exact hin
  · intro a ha; exact hU a (List.mem_of_mem_eraseIdx ha)
  · split
    · intro a ha; exact hU a (List.mem_of_mem_eraseIdx ha)
    · exact hU

/-- read a `Sat` fact as an equation on `step`-style pairs -/
theorem sat_run {β : Type} {m : M α β} {s : St α} {Q : St α → β → Prop} (h : Sat m s Q) :
    ∃ s' b, m.run s = (s', .ok b) ∧ Q s' b := h

theorem rel_append_left {e : α} {a b : Nat} (ha : a < E.length) (hb : b < E.length) :
    rel leq (E ++ [e]) a b = rel leq E a b := by
  unfold rel
  rw [List.getElem?_append_left ha, List.getElem?_append_left hb]

/-- `add(e, fill_up_cache=False)` on a caching instance: the four relation caches are wiped, the comparison
    cache is kept -/
theorem add_nofill_inv {e : α} {s : St α} (h : InvB leq E Ghost.none true s) :
    InvB leq (E ++ [e]) Ghost.none true
      { s with descC := [], ancC := [], chilC := [], parC := [], elems := s.elems ++ [e] } := by
  refine InvB.ofOk (by simp [h.elems]) h.flag (fun _ => ?_) (fun _ => ?_) (fun _ => ?_)
  · intro a b r hl
    obtain ⟨h1, h2, h3⟩ := h.leqOk rfl a b r hl
    simp only [List.length_append, List.length_singleton]
    refine ⟨by omega, by omega, ?_⟩
    rw [rel_append_left h1 h2]; exact h3 h1 h2
  · intro d k v hl; cases d <;> simp [St.closed] at hl
  · intro d k v hl; cases d <;> simp [St.direct] at hl

theorem add_uncached_inv {e : α} {s : St α} (h : InvB leq E Ghost.none false s) :
    InvB leq (E ++ [e]) Ghost.none false { s with elems := s.elems ++ [e] } :=
  InvB.ofOk (by simp [h.elems]) h.flag (fun e => (by cases e)) (fun e => (by cases e)) (fun e => (by cases e))

theorem addE_nofill_run (e : α) {c : Bool} {s : St α} (h : InvB leq E Ghost.none c s) (he : e ∉ E)
    (hcase : c = false ∨ True) (fill : Bool) (hfill : c = true → fill = false) :
    ∃ s', (addE leq ord e fill).run s = (s', .ok ()) ∧ InvB leq (E ++ [e]) Ghost.none c s' := by
  have he' : e ∉ s.elems := by rw [h.elems]; exact he
  cases c with
  | false =>
    refine ⟨{ s with elems := s.elems ++ [e] }, ?_, add_uncached_inv h⟩
    have hf : s.useCache = false := h.flag
    simp [addE, M.run, bind, M.bind, M.get, M.modify, he', hf, pure, M.pure]
  | true =>
    have hfl := hfill rfl
    subst hfl
    refine ⟨{ s with descC := [], ancC := [], chilC := [], parC := [], elems := s.elems ++ [e] }, ?_, add_nofill_inv h⟩
    have hf : s.useCache = true := h.flag
    simp [addE, M.run, bind, M.bind, M.get, M.modify, he', hf, pure, M.pure]

theorem addE_dup_run (e : α) (fill : Bool) {s : St α} (he : e ∈ s.elems) :
    (addE leq ord e fill).run s = (s, .ok ()) := by
  simp [addE, M.run, bind, M.bind, M.get, he, pure, M.pure]


/-- what is needed from `add(e, fill_up_cache=True)` on a caching instance -/
def AddFillOK (leq : α → α → Bool) (ord : List Nat → List Nat) (E : List α) (s : St α) (e : α) : Prop :=
  ∃ s', (addE leq ord e true).run s = (s', .ok ()) ∧ InvB leq (E ++ [e]) Ghost.none true s'

theorem step_spec (hpoU : PO leq U) (hord : ∀ l, (ord l).Perm l) (hnd : E.Nodup) (hU : ∀ a ∈ E, U a)
    {c : Bool} {s : St α} (h : InvB leq E Ghost.none c s) (op : Op α) (hok : opOk E c op = true)
    (haddfill : ∀ e, op = .add e true → c = true → e ∉ E → AddFillOK leq ord E s e) :
    InvB leq (next E op) Ghost.none c (step leq ord s op).1 ∧
      (step leq ord s op).2 = answer leq E op := by
  have hpo : IdxPO leq E := idxPO_of hpoU hnd hU
  cases op with
  | leq i j =>
    simp only [opOk, Bool.and_eq_true, decide_eq_true_eq] at hok
    obtain ⟨s', b, hrun, hinv, hb⟩ := leqE_spec hpo h hok.1 hok.2
    simp only [step, M.run, hrun, next, outOf, answer, hok.1, hok.2, and_self, ↓reduceIte, hb]
    exact ⟨hinv, trivial⟩
  | closed d i =>
    simp only [opOk, decide_eq_true_eq] at hok
    obtain ⟨s', b, hrun, hinv, hb⟩ := closedE_spec hpo h d hok
    simp only [step, M.run, hrun, next, outOf, answer, hok, ↓reduceIte]
    refine ⟨hinv, ?_⟩
    rw [sortSet_eq_of_setEq hb (pairwise_lt_filter_range _ _)]
  | direct d i =>
    simp only [opOk, decide_eq_true_eq] at hok
    obtain ⟨s', b, hrun, hinv, hb⟩ := directE_spec hpo hord h d hok
    simp only [step, M.run, hrun, next, outOf, answer, hok, ↓reduceIte]
    refine ⟨hinv, ?_⟩
    rw [sortSet_eq_of_setEq hb (pairwise_lt_filter_range _ _)]
  | extremes d =>
    obtain ⟨s', b, hrun, hinv, hb⟩ := extremesE_spec hpo hord h d
    simp only [step, M.run, hrun, next, outOf, answer, hb]
    exact ⟨hinv, trivial⟩
  | bound d S =>
    simp only [opOk, List.all_eq_true, decide_eq_true_eq] at hok
    by_cases hn : E.length = 0
    · have hS : S = [] := by
        cases S with
        | nil => rfl
        | cons y ys => have := hok y List.mem_cons_self; omega
      subst hS
      have hrun : boundE leq ord d [] s = (s, .error .IndexError) := by
        have : s.elems.length = 0 := by rw [h.elems]; exact hn
        simp [boundE, bind, M.bind, M.get, M.throw, this]
      simp only [step, M.run, hrun, next, outOf, answer, if_pos hn]
      exact ⟨h, trivial⟩
    · obtain ⟨s', b, hrun, hinv, hb⟩ := boundE_spec hpo hord h d S hn hok
      have hall : (S.all fun i => decide (i < E.length)) = true := by
        simp only [List.all_eq_true, decide_eq_true_eq]; exact hok
      simp only [step, M.run, hrun, next, outOf, answer, hn, ↓reduceIte, hall, hb]
      exact ⟨hinv, trivial⟩
  | index e =>
    have hrun := indexE_run s e
    rw [h.elems] at hrun
    simp only [step, M.run, hrun, next, answer]
    refine ⟨h, ?_⟩
    cases indexOf? e E <;> rfl
  | add e fill =>
    by_cases he : e ∈ E
    · have hrun := addE_dup_run (leq := leq) (ord := ord) e fill (s := s) (by rw [h.elems]; exact he)
      simp only [M.run] at hrun
      simp only [step, M.run, hrun, next, he, ↓reduceIte, outOf, answer]
      exact ⟨h, trivial⟩
    · by_cases hcf : c = true ∧ fill = true
      · obtain ⟨hc, hfl⟩ := hcf
        subst hfl
        obtain ⟨s', hrun, hinv⟩ := haddfill e rfl hc he
        subst hc
        simp only [M.run] at hrun
        simp only [step, M.run, hrun, next, he, ↓reduceIte, outOf, answer]
        exact ⟨hinv, trivial⟩
      · obtain ⟨s', hrun, hinv⟩ := addE_nofill_run (leq := leq) (ord := ord) e h he (Or.inr trivial) fill
          (fun hc => by
            cases fill
            · rfl
            · exact (hcf ⟨hc, rfl⟩).elim)
        simp only [M.run] at hrun
        simp only [step, M.run, hrun, next, he, ↓reduceIte, outOf, answer]
        exact ⟨hinv, trivial⟩
  | del i =>
    by_cases hi : i < E.length
    · obtain ⟨s', b, hrun, hinv⟩ := delE_spec hpo hord hi h
      simp only [step, M.run, hrun, next, outOf, answer, hi, ↓reduceIte]
      exact ⟨hinv, trivial⟩
    · have hrun := delE_error (ord := ord) (k := i) (s := s) (by rw [h.elems]; exact hi)
      simp only [step, M.run, hrun, next, outOf, answer, hi, ↓reduceIte]
      rw [List.eraseIdx_of_length_le (by omega)]
      exact ⟨h, trivial⟩
  | remove e =>
    have hidx := indexE_run s e
    rw [h.elems] at hidx
    cases hio : indexOf? e E with
    | none =>
      rw [hio] at hidx
      have hrun : removeE ord e s = (s, .error .KeyError) := by
        unfold removeE
        show M.bind (indexE e) _ s = _
        unfold M.bind
        rw [hidx]
      simp only [step, M.run, hrun, next, hio, outOf, answer]
      exact ⟨h, trivial⟩
    | some i =>
      rw [hio] at hidx
      have hi : i < E.length := (List.getElem?_eq_some_iff.mp (indexOf?_spec hio)).1
      obtain ⟨s', b, hrun, hinv⟩ := delE_spec hpo hord hi h
      have hrun' : removeE ord e s = (s', .ok ()) := by
        unfold removeE
        show M.bind (indexE e) _ s = _
        unfold M.bind
        rw [hidx]
        exact hrun
      simp only [step, M.run, hrun', next, hio, outOf, answer]
      exact ⟨hinv, trivial⟩
  | eqOther O =>
    obtain ⟨s', b, hrun, hinv, hb⟩ := eqE_spec hpo O h
    simp only [step, M.run, hrun, next, outOf, answer, hb]
    exact ⟨hinv, trivial⟩
  | fillUp k =>
    simp only [opOk] at hok
    subst hok
    obtain ⟨s', b, hrun, hinv⟩ := fillE_spec hpo hord k h
    simp only [step, M.run, hrun, next, outOf, answer]
    exact ⟨hinv, trivial⟩

end
end Fca.Poset

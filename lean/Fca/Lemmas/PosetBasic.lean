/-
  Lemmas/PosetBasic — association lists, index sets, and the `Sat` (total-correctness triple) calculus for the
  state+exception monad `M` of `Model/Poset`.
-/
import Fca.Model.Poset
import Fca.Spec.Poset
namespace Fca.Poset
open Fca

/-! ### association lists -/
section alist
variable {κ β : Type} [DecidableEq κ]

@[simp] theorem alookup_nil (k : κ) : alookup k ([] : List (κ × β)) = none := rfl

theorem alookup_cons (k k' : κ) (v : β) (l : List (κ × β)) :
    alookup k ((k', v) :: l) = if k = k' then some v else alookup k l := rfl

theorem alookup_aerase (k k' : κ) (l : List (κ × β)) :
    alookup k (aerase k' l) = if k = k' then none else alookup k l := by
  induction l with
  | nil => simp [aerase]
  | cons p l ih =>
    obtain ⟨a, b⟩ := p
    unfold aerase at ih ⊢
    by_cases h : a = k'
    · subst h
      simp only [List.filter_cons, ne_eq, not_true_eq_false, decide_false, Bool.false_eq_true, ↓reduceIte, ih,
        alookup_cons]
      by_cases h2 : k = a <;> simp [h2]
    · simp only [List.filter_cons, ne_eq, h, not_false_eq_true, decide_true, ↓reduceIte, alookup_cons, ih]
      by_cases h2 : k = a
      · subst h2; simp [h]
      · simp [h2]

theorem alookup_ainsert (k k' : κ) (v : β) (l : List (κ × β)) :
    alookup k (ainsert k' v l) = if k = k' then some v else alookup k l := by
  unfold ainsert
  rw [alookup_cons, alookup_aerase]
  by_cases h : k = k' <;> simp [h]

theorem alookup_mem {k : κ} {v : β} {l : List (κ × β)} (h : alookup k l = some v) : (k, v) ∈ l := by
  induction l with
  | nil => simp at h
  | cons p l ih =>
    obtain ⟨a, b⟩ := p
    rw [alookup_cons] at h
    by_cases h2 : k = a
    · simp [h2] at h; subst h; subst h2; exact List.mem_cons_self
    · simp [h2] at h; exact List.mem_cons_of_mem _ (ih h)

/-- lookup through a `filterMap` that renames keys injectively on the kept keys -/
theorem alookup_filterMap {γ : Type} (keep : κ → Bool) (fk : κ → κ) (fv : β → γ)
    (hinj : ∀ a b, keep a = true → keep b = true → fk a = fk b → a = b)
    (l : List (κ × β)) (k : κ) (hk : keep k = true) :
    alookup (fk k) (l.filterMap fun p => if keep p.1 then some (fk p.1, fv p.2) else none)
      = (alookup k l).map fv := by
  induction l with
  | nil => simp
  | cons p l ih =>
    obtain ⟨a, b⟩ := p
    rw [List.filterMap_cons]
    by_cases ha : keep a = true
    · simp only [ha, ↓reduceIte, alookup_cons]
      by_cases h2 : k = a
      · subst h2; simp
      · have : fk k ≠ fk a := fun h => h2 (hinj _ _ hk ha h)
        simp [this, h2, ih]
    · simp only [ha, Bool.false_eq_true, ↓reduceIte, alookup_cons]
      have : k ≠ a := fun h => by subst h; exact ha hk
      simp [this, ih]

/-- a key of the renamed list comes from a kept key -/
theorem alookup_filterMap_some {γ : Type} (keep : κ → Bool) (fk : κ → κ) (fv : β → γ)
    (l : List (κ × β)) (k' : κ) (w : γ)
    (h : alookup k' (l.filterMap fun p => if keep p.1 then some (fk p.1, fv p.2) else none) = some w) :
    ∃ k v, keep k = true ∧ fk k = k' ∧ alookup k l = some v ∧ fv v = w := by
  induction l with
  | nil => simp at h
  | cons p l ih =>
    obtain ⟨a, b⟩ := p
    rw [List.filterMap_cons] at h
    by_cases ha : keep a = true
    · simp only [ha, ↓reduceIte, alookup_cons] at h
      by_cases h2 : k' = fk a
      · simp only [h2, ↓reduceIte, Option.some.injEq] at h
        exact ⟨a, b, ha, h2.symm, by simp [alookup_cons], h⟩
      · simp only [h2, ↓reduceIte] at h
        obtain ⟨k, v, hk, hfk, hl, hv⟩ := ih h
        refine ⟨k, v, hk, hfk, ?_, hv⟩
        have : k ≠ a := fun e => h2 (by rw [← hfk, e])
        simp [alookup_cons, this, hl]
    · simp only [ha, Bool.false_eq_true, ↓reduceIte] at h
      obtain ⟨k, v, hk, hfk, hl, hv⟩ := ih h
      refine ⟨k, v, hk, hfk, ?_, hv⟩
      have : k ≠ a := fun e => by subst e; exact ha hk
      simp [alookup_cons, this, hl]

end alist

/-! ### index sets -/

theorem mem_setInsert {x y : Nat} {l : List Nat} : y ∈ setInsert x l ↔ y = x ∨ y ∈ l := by
  unfold setInsert
  split
  · constructor
    · exact Or.inr
    · rintro (h | h)
      · subst h; assumption
      · exact h
  · simp [or_comm]

theorem nodup_setInsert {x : Nat} {l : List Nat} (h : l.Nodup) : (setInsert x l).Nodup := by
  unfold setInsert
  split
  · exact h
  · rename_i hx
    rw [List.nodup_append]
    refine ⟨h, by simp, ?_⟩
    intro a ha b hb
    simp at hb; subst hb
    intro e; subst e; exact hx ha

theorem mem_setUnion {y : Nat} {a b : List Nat} : y ∈ setUnion a b ↔ y ∈ a ∨ y ∈ b := by
  unfold setUnion
  simp only [List.mem_append, List.mem_filter, decide_eq_true_eq]
  constructor
  · rintro (h | ⟨h, _⟩)
    · exact Or.inl h
    · exact Or.inr h
  · rintro (h | h)
    · exact Or.inl h
    · by_cases hy : y ∈ a
      · exact Or.inl hy
      · exact Or.inr ⟨h, hy⟩

theorem nodup_setUnion {a b : List Nat} (ha : a.Nodup) (hb : b.Nodup) : (setUnion a b).Nodup := by
  unfold setUnion
  rw [List.nodup_append]
  refine ⟨ha, hb.filter _, ?_⟩
  intro x hx y hy
  simp only [List.mem_filter, decide_eq_true_eq] at hy
  intro e; subst e; exact hy.2 hx

theorem mem_setDiff {y : Nat} {a b : List Nat} : y ∈ setDiff a b ↔ y ∈ a ∧ y ∉ b := by
  unfold setDiff; simp

theorem nodup_setDiff {a b : List Nat} (ha : a.Nodup) : (setDiff a b).Nodup := ha.filter _

theorem mem_setInter {y : Nat} {a b : List Nat} : y ∈ setInter a b ↔ y ∈ a ∧ y ∈ b := by
  unfold setInter; simp

theorem nodup_setInter {a b : List Nat} (ha : a.Nodup) : (setInter a b).Nodup := ha.filter _

/-- two duplicate-free lists with the same members -/
def SetEq (a b : List Nat) : Prop := a.Nodup ∧ ∀ x, x ∈ a ↔ x ∈ b

theorem sortSet_eq_of_setEq {a b : List Nat} (h : SetEq a b) (hb : b.Pairwise (· < ·)) : sortSet a = b := by
  have hbn : b.Nodup := hb.imp (fun h => Nat.ne_of_lt h)
  have hperm : (sortSet a).Perm b :=
    (List.mergeSort_perm a _).trans ((List.perm_ext_iff_of_nodup h.1 hbn).mpr h.2)
  have hs : (sortSet a).Pairwise (· ≤ ·) := by
    have := List.pairwise_mergeSort (le := fun a b : Nat => decide (a ≤ b))
      (by intro a b c; simp; exact Nat.le_trans) (by intro a b; simp; exact Nat.le_total a b) a
    simpa [sortSet] using this
  exact hperm.eq_of_pairwise (fun x y _ _ h1 h2 => Nat.le_antisymm h1 h2) hs (hb.imp Nat.le_of_lt)

theorem pairwise_lt_filter_range (n : Nat) (p : Nat → Bool) : ((List.range n).filter p).Pairwise (· < ·) :=
  List.Pairwise.filter _ List.pairwise_lt_range

theorem SetEq.length_eq {a b : List Nat} (h : SetEq a b) (hb : b.Nodup) : a.length = b.length :=
  ((List.perm_ext_iff_of_nodup h.1 hb).mpr h.2).length_eq

/-- the `len(s) == 1` / `list(s)[0]` epilogue of `join`/`meet` -/
theorem single_of_setEq {a b : List Nat} (h : SetEq a b) (hb : b.Nodup) :
    (if a.length == 1 then a.head? else none) = (if b.length == 1 then b.head? else none) := by
  have hl := h.length_eq hb
  rw [hl]
  by_cases h1 : b.length = 1
  · simp only [h1, beq_self_eq_true, ↓reduceIte]
    have h1a : a.length = 1 := hl.trans h1
    obtain ⟨x, rfl⟩ := List.length_eq_one_iff.mp h1a
    obtain ⟨y, rfl⟩ := List.length_eq_one_iff.mp h1
    have := (h.2 x).mp (by simp)
    simp at this; simp [this]
  · simp [h1]

/-! ### the `Sat` calculus: `m` started in `s` returns normally and the result satisfies `Q` -/

section sat
variable {α : Type}

def Sat {β : Type} (m : M α β) (s : St α) (Q : St α → β → Prop) : Prop :=
  ∃ s' b, m s = (s', .ok b) ∧ Q s' b

theorem sat_pure {β : Type} {b : β} {s : St α} {Q : St α → β → Prop} (h : Q s b) :
    Sat (pure b : M α β) s Q := ⟨s, b, rfl, h⟩

theorem sat_bind {β γ : Type} {m : M α β} {f : β → M α γ} {s : St α} {Q : St α → γ → Prop}
    (h : Sat m s (fun s' b => Sat (f b) s' Q)) : Sat (m >>= f) s Q := by
  obtain ⟨s', b, hm, s'', c, hf, hq⟩ := h
  refine ⟨s'', c, ?_, hq⟩
  show M.bind m f s = _
  unfold M.bind
  rw [hm]
  exact hf

theorem sat_mono {β : Type} {m : M α β} {s : St α} {Q Q' : St α → β → Prop}
    (h : Sat m s Q) (hq : ∀ s' b, Q s' b → Q' s' b) : Sat m s Q' := by
  obtain ⟨s', b, hm, h⟩ := h
  exact ⟨s', b, hm, hq _ _ h⟩

theorem sat_get {s : St α} {Q : St α → St α → Prop} (h : Q s s) : Sat (M.get : M α (St α)) s Q :=
  ⟨s, s, rfl, h⟩

theorem sat_modify {f : St α → St α} {s : St α} {Q : St α → Unit → Prop} (h : Q (f s) ()) :
    Sat (M.modify f : M α Unit) s Q := ⟨f s, (), rfl, h⟩

theorem sat_ofExcept_ok {β : Type} {b : β} {s : St α} {Q : St α → β → Prop} (h : Q s b) :
    Sat (M.ofExcept (.ok b) : M α β) s Q := ⟨s, b, rfl, h⟩

/-- what a normal return of `m` tells: used to read results out of `Sat` -/
theorem Sat.elim {β : Type} {m : M α β} {s : St α} {Q : St α → β → Prop} (h : Sat m s Q) :
    ∃ s' b, m.run s = (s', .ok b) ∧ Q s' b := h

theorem sat_filterM (I : St α → Prop) (p : Nat → M α Bool) (q : Nat → Bool) (l : List Nat)
    (hp : ∀ i ∈ l, ∀ s, I s → Sat (p i) s (fun s' b => I s' ∧ b = q i)) (s : St α) (hs : I s) :
    Sat (M.filterM p l) s (fun s' r => I s' ∧ r = l.filter q) := by
  induction l generalizing s with
  | nil => exact sat_pure ⟨hs, rfl⟩
  | cons i is ih =>
    unfold M.filterM
    apply sat_bind
    apply sat_mono (hp i List.mem_cons_self s hs)
    rintro s1 b ⟨h1, rfl⟩
    apply sat_bind
    apply sat_mono (ih (fun j hj => hp j (List.mem_cons_of_mem _ hj)) s1 h1)
    rintro s2 r ⟨h2, rfl⟩
    apply sat_pure
    refine ⟨h2, ?_⟩
    rw [List.filter_cons]

theorem sat_foldM {β : Type} (I : St α → Prop) (J : List Nat → β → Prop) (f : β → Nat → M α β)
    (l : List Nat)
    (hf : ∀ pre x acc s, x ∈ l → I s → J pre acc → Sat (f acc x) s (fun s' acc' => I s' ∧ J (pre ++ [x]) acc'))
    (pre : List Nat) (acc : β) (s : St α) (hs : I s) (hj : J pre acc) :
    Sat (M.foldM f acc l) s (fun s' r => I s' ∧ J (pre ++ l) r) := by
  induction l generalizing pre acc s with
  | nil =>
    unfold M.foldM
    exact sat_pure ⟨hs, by simpa using hj⟩
  | cons x xs ih =>
    unfold M.foldM
    apply sat_bind
    apply sat_mono (hf pre x acc s List.mem_cons_self hs hj)
    rintro s1 acc1 ⟨h1, hj1⟩
    have := ih (fun pre y acc s hy => hf pre y acc s (List.mem_cons_of_mem _ hy)) (pre ++ [x]) acc1 s1 h1 hj1
    simpa using this

theorem sat_forM (I : St α → Prop) (f : Nat → M α Unit) (l : List Nat)
    (hf : ∀ x ∈ l, ∀ s, I s → Sat (f x) s (fun s' _ => I s')) (s : St α) (hs : I s) :
    Sat (M.forM f l) s (fun s' _ => I s') := by
  induction l generalizing s with
  | nil => exact sat_pure hs
  | cons x xs ih =>
    unfold M.forM
    apply sat_bind
    apply sat_mono (hf x List.mem_cons_self s hs)
    intro s1 _ h1
    exact ih (fun y hy => hf y (List.mem_cons_of_mem _ hy)) s1 h1

/-- `forM` with a prefix-indexed invariant -/
theorem sat_forM_pre (J : List Nat → St α → Prop) (f : Nat → M α Unit) (l : List Nat)
    (hf : ∀ pre x s, x ∈ l → J pre s → Sat (f x) s (fun s' _ => J (pre ++ [x]) s'))
    (pre : List Nat) (s : St α) (hs : J pre s) :
    Sat (M.forM f l) s (fun s' _ => J (pre ++ l) s') := by
  induction l generalizing pre s with
  | nil => exact sat_pure (by simpa using hs)
  | cons x xs ih =>
    unfold M.forM
    apply sat_bind
    apply sat_mono (hf pre x s List.mem_cons_self hs)
    intro s1 _ h1
    have := ih (fun pre y s hy => hf pre y s (List.mem_cons_of_mem _ hy)) (pre ++ [x]) s1 h1
    simpa using this

/-- `filterM` with a prefix-indexed invariant -/
theorem sat_filterM_pre (J : List Nat → St α → Prop) (p : Nat → M α Bool) (q : Nat → Bool) (l : List Nat)
    (hp : ∀ pre i s, i ∈ l → J pre s → Sat (p i) s (fun s' b => J (pre ++ [i]) s' ∧ b = q i))
    (pre : List Nat) (s : St α) (hs : J pre s) :
    Sat (M.filterM p l) s (fun s' r => J (pre ++ l) s' ∧ r = l.filter q) := by
  induction l generalizing pre s with
  | nil => exact sat_pure ⟨by simpa using hs, rfl⟩
  | cons i is ih =>
    unfold M.filterM
    apply sat_bind
    apply sat_mono (hp pre i s List.mem_cons_self hs)
    rintro s1 b ⟨h1, rfl⟩
    apply sat_bind
    apply sat_mono (ih (fun pre j s hj => hp pre j s (List.mem_cons_of_mem _ hj)) (pre ++ [i]) s1 h1)
    rintro s2 r ⟨h2, rfl⟩
    apply sat_pure
    refine ⟨by simpa using h2, ?_⟩
    rw [List.filter_cons]

/-- `forM` with a prefix-indexed invariant; the step knows where in the list it is -/
theorem sat_forM_split (J : List Nat → St α → Prop) (f : Nat → M α Unit) (l : List Nat)
    (hf : ∀ pre x post s, l = pre ++ x :: post → J pre s → Sat (f x) s (fun s' _ => J (pre ++ [x]) s'))
    (s : St α) (hs : J [] s) :
    Sat (M.forM f l) s (fun s' _ => J l s') := by
  suffices H : ∀ (rest pre : List Nat) (s : St α), l = pre ++ rest → J pre s →
      Sat (M.forM f rest) s (fun s' _ => J l s') from H l [] s rfl hs
  intro rest
  induction rest with
  | nil =>
    intro pre s hl hs
    unfold M.forM
    exact sat_pure (by simpa [hl] using hs)
  | cons x xs ih =>
    intro pre s hl hs
    unfold M.forM
    apply sat_bind
    apply sat_mono (hf pre x xs s hl hs)
    intro s1 _ h1
    exact ih (pre ++ [x]) s1 (by simp [hl]) h1

end sat
end Fca.Poset

/-
  Fca.Lemmas.LatticeQueryReindex — `ConceptLattice.from_context` (Lindig branch): the map `map_i_isort` is a
  bijection of the positions that carries the concept order of the emitted list to the concept order of the
  sorted list; re-indexing a cache dictionary by it transports descendants / ancestors / children / parents.
-/
import Fca.Lemmas.LatticeQueryClosed
import Fca.Lemmas.LatticeQueryChainsFull
namespace Fca.LC
open Fca

/-- an order isomorphism between two comparisons on the indexes below `n` -/
structure IsIso (leq0 leq1 : Nat → Nat → Bool) (n : Nat) (f : Nat → Nat) : Prop where
  rng : ∀ i, i < n → f i < n
  inj : ∀ i j, i < n → j < n → f i = f j → i = j
  surj : ∀ j, j < n → ∃ i, i < n ∧ f i = j
  hom : ∀ a b, a < n → b < n → leq1 (f a) (f b) = leq0 a b

section
variable {leq0 leq1 : Nat → Nat → Bool} {n : Nat} {f : Nat → Nat}

theorem IsIso.desc (h : IsIso leq0 leq1 n f) {i : Nat} (hi : i < n) (y : Nat) :
    y ∈ PQ.descendants leq1 n (f i) ↔ ∃ r, r ∈ PQ.descendants leq0 n i ∧ y = f r := by
  simp only [PQ.mem_descendants]
  constructor
  · rintro ⟨hy, hle, hne⟩
    obtain ⟨r, hr, rfl⟩ := h.surj y hy
    rw [h.hom r i hr hi] at hle
    exact ⟨r, ⟨hr, hle, fun e => hne (e ▸ rfl)⟩, rfl⟩
  · rintro ⟨r, ⟨hr, hle, hne⟩, rfl⟩
    exact ⟨h.rng r hr, by rw [h.hom r i hr hi]; exact hle, fun e => hne (h.inj r i hr hi e)⟩

theorem IsIso.anc (h : IsIso leq0 leq1 n f) {i : Nat} (hi : i < n) (y : Nat) :
    y ∈ PQ.ancestors leq1 n (f i) ↔ ∃ r, r ∈ PQ.ancestors leq0 n i ∧ y = f r := by
  simp only [PQ.mem_ancestors]
  constructor
  · rintro ⟨hy, hle, hne⟩
    obtain ⟨r, hr, rfl⟩ := h.surj y hy
    rw [h.hom i r hi hr] at hle
    exact ⟨r, ⟨hr, hle, fun e => hne (e ▸ rfl)⟩, rfl⟩
  · rintro ⟨r, ⟨hr, hle, hne⟩, rfl⟩
    exact ⟨h.rng r hr, by rw [h.hom i r hi hr]; exact hle, fun e => hne (h.inj r i hr hi e)⟩

theorem IsIso.children (h : IsIso leq0 leq1 n f) (po0 : PQ.IsPO leq0 n) (po1 : PQ.IsPO leq1 n)
    {i : Nat} (hi : i < n) (y : Nat) :
    y ∈ PQ.children leq1 n id (f i) ↔ ∃ r, r ∈ PQ.children leq0 n id i ∧ y = f r := by
  rw [PQ.mem_children po1 PQ.isOrder_id]
  constructor
  · rintro ⟨hy, hno⟩
    obtain ⟨r, hr, rfl⟩ := (h.desc hi y).mp hy
    refine ⟨r, (PQ.mem_children po0 PQ.isOrder_id).mpr ⟨hr, ?_⟩, rfl⟩
    intro z hz hrz
    have hzn := (PQ.mem_descendants.mp hz).1
    exact hno (f z) ((h.desc hi _).mpr ⟨z, hz, rfl⟩) ((h.desc hzn _).mpr ⟨r, hrz, rfl⟩)
  · rintro ⟨r, hr, rfl⟩
    obtain ⟨hrd, hno⟩ := (PQ.mem_children po0 PQ.isOrder_id).mp hr
    refine ⟨(h.desc hi _).mpr ⟨r, hrd, rfl⟩, ?_⟩
    intro z hz hrz
    obtain ⟨z0, hz0, rfl⟩ := (h.desc hi z).mp hz
    have hz0n := (PQ.mem_descendants.mp hz0).1
    obtain ⟨r', hr', e⟩ := (h.desc hz0n _).mp hrz
    have hrn := (PQ.mem_descendants.mp hrd).1
    have hr'n := (PQ.mem_descendants.mp hr').1
    rw [h.inj r r' hrn hr'n e] at hno
    exact hno z0 hz0 hr'

theorem IsIso.parents (h : IsIso leq0 leq1 n f) (po0 : PQ.IsPO leq0 n) (po1 : PQ.IsPO leq1 n)
    {i : Nat} (hi : i < n) (y : Nat) :
    y ∈ PQ.parents leq1 n id (f i) ↔ ∃ r, r ∈ PQ.parents leq0 n id i ∧ y = f r := by
  rw [PQ.mem_parents po1 PQ.isOrder_id]
  constructor
  · rintro ⟨hy, hno⟩
    obtain ⟨r, hr, rfl⟩ := (h.anc hi y).mp hy
    refine ⟨r, (PQ.mem_parents po0 PQ.isOrder_id).mpr ⟨hr, ?_⟩, rfl⟩
    intro z hz hrz
    have hzn := (PQ.mem_ancestors.mp hz).1
    exact hno (f z) ((h.anc hi _).mpr ⟨z, hz, rfl⟩) ((h.anc hzn _).mpr ⟨r, hrz, rfl⟩)
  · rintro ⟨r, hr, rfl⟩
    obtain ⟨hrd, hno⟩ := (PQ.mem_parents po0 PQ.isOrder_id).mp hr
    refine ⟨(h.anc hi _).mpr ⟨r, hrd, rfl⟩, ?_⟩
    intro z hz hrz
    obtain ⟨z0, hz0, rfl⟩ := (h.anc hi z).mp hz
    have hz0n := (PQ.mem_ancestors.mp hz0).1
    obtain ⟨r', hr', e⟩ := (h.anc hz0n _).mp hrz
    have hrn := (PQ.mem_ancestors.mp hrd).1
    have hr'n := (PQ.mem_ancestors.mp hr').1
    rw [h.inj r r' hrn hr'n e] at hno
    exact hno z0 hz0 hr'

/-- re-indexing a good dictionary of `R0` by an index bijection whose images of `R0 i` are `R1 (f i)` -/
theorem reindex_good {m : List Nat} (h : IsIso leq0 leq1 n (fun i => m.getD i 0)) {d : Dict}
    {R0 R1 : Nat → List Nat} (g : Good d n R0)
    (hR : ∀ i, i < n → ∀ y, y ∈ R1 (m.getD i 0) ↔ ∃ r, r ∈ R0 i ∧ y = m.getD r 0) :
    ∀ j, j < n → ∃ l, dget (reindexDict m d) j = some l ∧ ∀ y, y ∈ l ↔ y ∈ R1 j := by
  intro j hj
  obtain ⟨i, hi, rfl⟩ := h.surj j hj
  obtain ⟨l, hl, hm⟩ := g.2.2 i hi
  refine ⟨image m l, ?_, fun y => ?_⟩
  · rw [reindexDict_eq]
    apply dget_reindex_foldl m d [] g.1 _ i l (mem_of_dget hl)
    intro p hp q hq e
    exact h.inj p.1 q.1 (g.2.1 p hp) (g.2.1 q hq) e
  · rw [mem_image, hR i hi y]
    constructor
    · rintro ⟨r, hr, e⟩; exact ⟨r, (hm r).mp hr, e⟩
    · rintro ⟨r, hr, e⟩; exact ⟨r, (hm r).mpr hr, e⟩

end

/-! ### `map_i_isort` -/

open LQ in
/-- `map_i_isort = [map_concept_i_sort[ltc[c_i]] for c_i in range(len(ltc))]` -/
theorem mapIsort_ok {t : Table} {cs : Lat} (H : IsConceptList t cs) :
    ∃ m, (cs.mapM fun c => dictIdx (sortConcepts cs) c) = some m ∧
      IsIso (leq cs) (leq (sortConcepts cs)) cs.length (fun i => m.getD i 0) ∧
      ∀ i, i < cs.length → conc (sortConcepts cs) (m.getD i 0) = conc cs i := by
  have Hs := H.sort
  have hlen : (sortConcepts cs).length = cs.length := (sortConcepts_perm cs).length_eq
  have hls : ∀ d ∈ sortConcepts cs, Spec.isConcept t d.1 d.2 = true := fun d hd => Hs.mem_iff.mp hd
  obtain ⟨b, hb, _, hgb⟩ := mapM_some (fun c => dictIdx (sortConcepts cs) c) cs (fun c hc => by
    obtain ⟨j, hj, _⟩ := dictIdx_spec hls Hs.nodup ((sortConcepts_perm cs).mem_iff.mpr hc)
    exact ⟨j, hj⟩)
  have hpos : ∀ i, i < cs.length → b.getD i 0 < cs.length ∧ conc (sortConcepts cs) (b.getD i 0) = conc cs i := by
    intro i hi
    have hmem : cs[i] ∈ sortConcepts cs := (sortConcepts_perm cs).mem_iff.mpr (List.getElem_mem hi)
    obtain ⟨j, hj, hjl, hjc⟩ := dictIdx_spec hls Hs.nodup hmem
    have := hgb i hi
    rw [hj] at this
    simp only [Option.some.injEq] at this
    rw [← this, conc_eq_getElem hi]
    exact ⟨by rw [← hlen]; exact hjl, hjc⟩
  refine ⟨b, hb, ⟨fun i hi => (hpos i hi).1, ?_, ?_, ?_⟩, fun i hi => (hpos i hi).2⟩
  · intro i j hi hj e
    have : conc cs i = conc cs j := by
      rw [← (hpos i hi).2, ← (hpos j hj).2]; exact congrArg (conc (sortConcepts cs)) e
    exact (List.getD_inj hi hj H.nodup).mp this
  · intro j hj
    have hj' : j < (sortConcepts cs).length := by rw [hlen]; exact hj
    have hmem : (sortConcepts cs)[j] ∈ cs := (sortConcepts_perm cs).mem_iff.mp (List.getElem_mem hj')
    obtain ⟨i, hi, e⟩ := List.mem_iff_getElem.mp hmem
    refine ⟨i, hi, ?_⟩
    have h1 := (hpos i hi)
    have : conc (sortConcepts cs) (b.getD i 0) = conc (sortConcepts cs) j := by
      rw [h1.2, conc_eq_getElem hi, conc_eq_getElem hj', e]
    exact (List.getD_inj (by rw [hlen]; exact h1.1) hj' Hs.nodup).mp this
  · intro a c ha hc
    show conceptLe (conc (sortConcepts cs) (b.getD a 0)) (conc (sortConcepts cs) (b.getD c 0)) = _
    rw [(hpos a ha).2, (hpos c hc).2]
    rfl

end Fca.LC

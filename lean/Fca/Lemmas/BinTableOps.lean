/-
  Fca.Lemmas.BinTableOps — helper lemmas for property C05: every backend model of every table
  operation computes the value `Spec.Table` assigns to it.
-/
import Fca.Model.BinTableOps
import Fca.Spec.Table
import Fca.Lemmas.BinTable
import Fca.Lemmas.AllI
namespace Fca
open Spec.Table

/-! ### Python slices stay inside the sequence -/

theorem mul_step_bound_pos {k : Nat} {d st : Int} (hst : 0 < st)
    (hk : (k : Int) < (d + st - 1) / st) : (k : Int) * st < d := by
  have h1 : (d + st - 1) / st * st ≤ d + st - 1 := Int.ediv_mul_le _ (by omega)
  have h2 : ((k : Int) + 1) * st ≤ (d + st - 1) / st * st :=
    Int.mul_le_mul_of_nonneg_right (by omega) (by omega)
  have h3 : ((k : Int) + 1) * st = (k : Int) * st + st := by rw [Int.add_mul, Int.one_mul]
  omega

theorem range_pos_lt {n : Nat} {s e st : Int} {k : Nat} (hst : 0 < st) (hs : 0 ≤ s) (he : e ≤ n)
    (hk : k < (if s < e then ((e - s + st - 1) / st).toNat else 0)) : (s + (k : Int) * st).toNat < n := by
  split at hk
  · have hk' : (k : Int) < (e - s + st - 1) / st := by omega
    have := mul_step_bound_pos hst hk'
    have h0 : 0 ≤ (k : Int) * st := Int.mul_nonneg (by omega) (by omega)
    omega
  · omega

theorem range_neg_lt {n : Nat} {s e st : Int} {k : Nat} (hst : st < 0) (hs : s ≤ n - 1) (he : -1 ≤ e)
    (hk : k < (if e < s then ((s - e + (-st) - 1) / (-st)).toNat else 0)) : (s + (k : Int) * st).toNat < n := by
  split at hk
  · have hk' : (k : Int) < (s - e + (-st) - 1) / (-st) := by omega
    have := mul_step_bound_pos (by omega : 0 < -st) hk'
    have h0 : 0 ≤ (k : Int) * (-st) := Int.mul_nonneg (by omega) (by omega)
    have h1 : (k : Int) * (-st) = -((k : Int) * st) := by rw [Int.mul_neg]
    omega
  · omega

/-- every index a slice selects is a valid position (any start/stop/step, negative ones included) -/
theorem sliceIndices_lt (a b c : Option Int) (len : Nat) : ∀ x ∈ sliceIndices a b c len, x < len := by
  intro x hx
  unfold sliceIndices at hx
  simp only at hx
  split at hx
  · simp at hx
  · rename_i hst0
    rw [List.mem_map] at hx
    obtain ⟨k, hk, rfl⟩ := hx
    rw [List.mem_range] at hk
    generalize hst : c.getD 1 = st at *
    by_cases hpos : st > 0
    · have hneg : ¬ st < 0 := by omega
      simp only [hpos, if_true, hneg, if_false] at hk ⊢
      apply range_pos_lt hpos ?_ ?_ hk
      · cases a <;> simp only <;> (repeat' split) <;> omega
      · cases b <;> simp only <;> (repeat' split) <;> omega
    · have hneg : st < 0 := by omega
      simp only [hpos, if_false, hneg, if_true] at hk ⊢
      apply range_neg_lt hneg ?_ ?_ hk
      · cases a <;> simp only <;> (repeat' split) <;> omega
      · cases b <;> simp only <;> (repeat' split) <;> omega

/-- `slice(0, w)` over a sequence of length `w` is everything (the default column slice of
    `FormalContext.__getitem__`) -/
theorem sliceIndices_full (w : Nat) : sliceIndices (some 0) (some (w : Int)) none w = List.range w := by
  unfold sliceIndices
  simp only [Option.getD_none]
  have h1 : ¬ ((1 : Int) = 0) := by decide
  have h2 : ¬ ((1 : Int) < 0) := by decide
  have h3 : (1 : Int) > 0 := by decide
  simp only [h1, h2, h3, if_false, if_true]
  have h4 : ¬ ((0 : Int) < 0) := by decide
  have h5 : ¬ ((0 : Int) > (w : Int)) := by omega
  have h7 : ¬ ((w : Int) > (w : Int)) := by omega
  simp only [h4, h5, h7, if_false]
  by_cases hw : (0 : Int) < (w : Int)
  · simp only [hw, if_true]
    have : ((w : Int) - 0 + 1 - 1) / 1 = (w : Int) := by rw [Int.ediv_one]; omega
    rw [this]
    simp only [Int.toNat_natCast, Int.mul_one, Int.zero_add]
    exact List.map_id' _
  · have : w = 0 := by omega
    subst this
    simp

/-! ### validity of arguments (the scope of the property) -/

/-- an index list is in range; a slice has a non-zero step -/
def Sel.Valid (s : Sel) (n : Nat) : Prop :=
  match s with
  | .idx xs => ∀ x ∈ xs, x < n
  | .slice _ _ c => c ≠ some 0

def Key.Valid (k : Key) (n : Nat) : Prop :=
  match k with
  | .int i => i < n
  | .sel s => s.Valid n

def Item.Valid (it : Item) (t : Table) : Prop :=
  match it with
  | .one k => k.Valid t.height
  | .two r c => r.Valid t.height ∧ c.Valid t.width

/-- an optional index list: in range (and duplicate-free where `nodup` is asked) -/
def OptIdx.Valid (sel : Option (List Nat)) (n : Nat) : Prop :=
  ∀ xs, sel = some xs → ∀ x ∈ xs, x < n

def OptIdx.Nodup (sel : Option (List Nat)) : Prop := ∀ xs, sel = some xs → xs.Nodup

theorem Sel.resolve_lt {s : Sel} {n : Nat} (h : s.Valid n) : ∀ x ∈ s.resolve n, x < n := by
  cases s with
  | idx xs => exact h
  | slice a b c => exact sliceIndices_lt a b c n

theorem OptIdx.getD_lt {sel : Option (List Nat)} {n : Nat} (h : OptIdx.Valid sel n) :
    ∀ x ∈ sel.getD (List.range n), x < n := by
  cases sel with
  | none => intro x hx; exact List.mem_range.mp hx
  | some xs => exact h xs rfl

/-! ### tables as cells -/

theorem Table.row_length (t : Table) (h : t.WF) {i : Nat} (hi : i < t.height) : (t.row i).length = t.width := by
  rw [Table.row_eq_map t h hi]; simp

theorem Table.data_eq_cells (t : Table) (h : t.WF) : t.data = cells t (allRows t) (allCols t) := by
  rw [Table.data_eq_map_row t]
  apply List.map_congr_left
  intro i hi
  exact Table.row_eq_map t h (List.mem_range.mp hi)

theorem Table.ofRows_data (rows : List Row) : Table.ofRows (Table.ofRows rows).data = Table.ofRows rows := rfl

theorem Table.ofRows_wf {rows : List Row} {w : Nat} (h : ∀ r ∈ rows, r.length = w) : (Table.ofRows rows).WF := by
  intro r hr
  cases rows with
  | nil => cases hr
  | cons r0 rs =>
    simp only [Table.ofRows, List.headD_cons]
    rw [h r hr, h r0 List.mem_cons_self]

/-! ### `__getitem__` -/

section
variable (t : Table) (h : t.WF)
include h

theorem L.getitem_eq (it : Item) (hv : it.Valid t) : L.getitem t it = Spec.Table.getitem t it := by
  match it, hv with
  | .one (.int i), hv =>
    simp only [L.getitem, getitemDispatch, L.getRow, Spec.Table.getitem, rowSel, allCols]
    rw [Table.row_eq_map t h hv]
  | .one (.sel s), hv =>
    simp only [L.getitem, getitemDispatch, L.getSubtable, Spec.Table.getitem, sub, cells, allCols]
    congr 2
    apply List.map_congr_left
    intro i hi
    exact Table.row_eq_map t h (Sel.resolve_lt hv i hi)
  | .two (.int i) (.int j), _ => rfl
  | .two (.int i) (.sel cs), _ => rfl
  | .two (.sel rs) (.int j), _ => rfl
  | .two (.sel rs) (.sel cs), _ => rfl

theorem takeSel_row (i : Nat) (hi : i < t.height) (s : Sel) :
    takeSel (t.row i) false s = (s.resolve t.width).map fun c => t.get i c := by
  simp only [takeSel, Table.row_length t h hi]; rfl

theorem B.getitem_eq (it : Item) (hv : it.Valid t) : B.getitem t it = Spec.Table.getitem t it := by
  match it, hv with
  | .one (.int i), hv =>
    simp only [B.getitem, getitemDispatch, B.getRow, Spec.Table.getitem, rowSel, allCols]
    rw [Table.row_eq_map t h hv]
  | .one (.sel s), hv =>
    simp only [B.getitem, getitemDispatch, B.getSubtable, Spec.Table.getitem, sub, cells, allCols]
    congr 2
    apply List.map_congr_left
    intro i hi
    exact Table.row_eq_map t h (Sel.resolve_lt hv i hi)
  | .two (.int i) (.int j), _ => rfl
  | .two (.int i) (.sel (.idx xs)), _ => rfl
  | .two (.int i) (.sel (.slice a b c)), hv =>
    simp only [B.getitem, getitemDispatch, B.getRow, Spec.Table.getitem, rowSel]
    rw [takeSel_row t h i hv.1]
  | .two (.sel rs) (.int j), _ => rfl
  | .two (.sel rs) (.sel (.idx xs)), _ => rfl
  | .two (.sel rs) (.sel (.slice a b c)), hv =>
    simp only [B.getitem, getitemDispatch, B.getSubtable, Spec.Table.getitem, sub, cells]
    congr 2
    apply List.map_congr_left
    intro i hi
    exact takeSel_row t h i (Sel.resolve_lt hv.1 i hi) _

theorem N.getitem_eq (it : Item) (hv : it.Valid t) : N.getitem t it = Spec.Table.getitem t it := by
  match it, hv with
  | .one (.int i), hv =>
    simp only [N.getitem, getitemDispatch, N.getRow, Spec.Table.getitem, rowSel, allCols]
    rw [Table.row_eq_map t h hv]
  | .one (.sel s), hv =>
    have : N.getSubtable t s none = Table.ofRows (N.takeRows t.data s) := by
      cases s <;> rfl
    simp only [N.getitem, getitemDispatch, this, Spec.Table.getitem, sub, cells, allCols, N.takeRows, takeSel]
    congr 2
    apply List.map_congr_left
    intro i hi
    exact Table.row_eq_map t h (Sel.resolve_lt hv i hi)
  | .two (.int i) (.int j), _ => rfl
  | .two (.int i) (.sel cs), hv =>
    simp only [N.getitem, getitemDispatch, N.getRow, Spec.Table.getitem, rowSel]
    rw [takeSel_row t h i hv.1]
  | .two (.sel rs) (.int j), _ =>
    simp only [N.getitem, getitemDispatch, N.getColumn, N.col, N.takeRows, takeSel, List.map_map,
      Spec.Table.getitem, colSel]
    rfl
  | .two (.sel (.idx rows)) (.sel (.idx cols)), _ => rfl
  | .two (.sel (.slice a b c)) (.sel cs), _ =>
    simp only [N.getitem, getitemDispatch, N.getSubtable, N.takeCols, N.takeRows, takeSel, List.map_map,
      Spec.Table.getitem, sub, cells]
    rfl
  | .two (.sel (.idx rows)) (.sel (.slice a b c)), _ =>
    simp only [N.getitem, getitemDispatch, N.getSubtable, N.takeCols, N.takeRows, takeSel, List.map_map,
      Spec.Table.getitem, sub, cells]
    rfl
end

/-! ### counting lemmas -/

theorem countTrue_map {α} (xs : List α) (f : α → Bool) : ((xs.map f).filter id).length = (xs.filter f).length := by
  induction xs with
  | nil => rfl
  | cons x xs ih => cases hf : f x <;> simp [hf, ih]

/-- `(range cs.length).map (fun k => g cs[k]) = cs.map g` for any codomain -/
theorem map_range_length_getD' {β} (cs : List Nat) (g : Nat → β) :
    (List.range cs.length).map (fun k => g (cs.getD k 0)) = cs.map g := by
  apply List.ext_getElem
  · simp
  · intro k h1 h2
    simp [List.getD_eq_getElem?_getD, List.getElem?_eq_getElem (by simpa using h1 : k < cs.length)]

theorem getD_map_range_nat {n : Nat} (f : Nat → Nat) {c : Nat} (hc : c < n) :
    ((List.range n).map f).getD c 0 = f c := by
  simp [List.getD_eq_getElem?_getD, List.getElem?_map, List.getElem?_range hc]

theorem replicate_eq_map_range {β} (n : Nat) (b : β) : List.replicate n b = (List.range n).map fun _ => b := by
  have := replicate_eq_map (List.range n) b
  simpa using this

/-- counting through a membership mask = counting over the (duplicate-free, in-range) selection -/
theorem filter_mask_length (w : Nat) (cs : List Nat) (hc : ∀ c ∈ cs, c < w) (hnd : cs.Nodup) (p : Nat → Bool) :
    ((List.range w).filter fun j => p j && cs.contains j).length = (cs.filter p).length := by
  rw [← List.filter_filter]
  apply List.Perm.length_eq
  apply List.Perm.filter
  rw [List.perm_ext_iff_of_nodup (List.Pairwise.filter _ List.nodup_range) hnd]
  intro a
  simp only [List.mem_filter, List.mem_range, List.contains_eq_mem, decide_eq_true_eq]
  exact ⟨fun h => h.2, fun h => ⟨hc a h, h⟩⟩

theorem search1_cons (b : Bool) (bs : List Bool) :
    search1 (b :: bs) = (if b then [0] else []) ++ (search1 bs).map Nat.succ := by
  unfold search1
  simp only [List.length_cons]
  rw [List.range_succ_eq_map, List.filter_cons, List.filter_map]
  have hcomp : ((fun i => (b :: bs).getD i false) ∘ Nat.succ) = fun i => bs.getD i false := by
    funext i; simp
  rw [hcomp]
  cases b <;> simp

theorem foldl_modify_succ (S : List Nat) (v : Nat) (vs : List Nat) :
    (S.map Nat.succ).foldl (fun acc j => acc.modify j (· + 1)) (v :: vs)
      = v :: S.foldl (fun acc j => acc.modify j (· + 1)) vs := by
  induction S generalizing vs with
  | nil => rfl
  | cons j S ih =>
    simp only [List.map_cons, List.foldl_cons, Nat.succ_eq_add_one, List.modify_succ_cons]
    exact ih _

/-- `for j in bits.search(1): vals[j] += 1` adds the bit vector to the counters -/
theorem B.bump_eq (vals : List Nat) (bits : List Bool) (hlen : vals.length = bits.length) :
    B.bump vals bits = List.zipWith (fun v b => v + if b then 1 else 0) vals bits := by
  induction bits generalizing vals with
  | nil =>
    have : vals = [] := List.eq_nil_of_length_eq_zero (by simpa using hlen)
    subst this; rfl
  | cons b bs ih =>
    cases vals with
    | nil => simp at hlen
    | cons v vs =>
      have hl : vs.length = bs.length := by simpa using hlen
      unfold B.bump at *
      rw [search1_cons, List.foldl_append]
      cases b with
      | false =>
        simp only [Bool.false_eq_true, if_false, List.foldl_nil, List.zipWith_cons_cons, Nat.add_zero]
        rw [foldl_modify_succ, ih vs hl]
      | true =>
        simp only [if_true, List.foldl_cons, List.foldl_nil, List.modify_zero_cons, List.zipWith_cons_cons]
        rw [foldl_modify_succ, ih vs hl]

theorem foldl_bump_eq (w : Nat) (rows : List Nat) (bitsOf : Nat → List Bool) (g : Nat → Nat → Bool)
    (hb : ∀ i ∈ rows, bitsOf i = (List.range w).map (g i)) (f : Nat → Nat) :
    rows.foldl (fun vals i => B.bump vals (bitsOf i)) ((List.range w).map f)
      = (List.range w).map fun c => f c + (rows.filter fun i => g i c).length := by
  induction rows generalizing f with
  | nil => simp
  | cons i rest ih =>
    simp only [List.foldl_cons]
    rw [hb i List.mem_cons_self, B.bump_eq _ _ (by simp), zipWith_map_map_self,
      ih (fun k hk => hb k (List.mem_cons_of_mem _ hk))]
    apply List.map_congr_left
    intro c _
    simp only [List.filter_cons]
    cases g i c <;> simp <;> omega


/-! ### the numpy selection `data[rows][:, columns]` as cells -/
section
variable (t : Table) (h : t.WF)
include h

theorem N.slice_eq (rows : List Nat) (hr : ∀ i ∈ rows, i < t.height) (cols : Option (List Nat)) :
    N.slice t (some rows) cols
      = (cells t rows (cols.getD (allCols t)), (cols.getD (allCols t)).length) := by
  cases cols with
  | none =>
    simp only [N.slice, Option.getD_none, cells, allCols, List.length_range]
    congr 1
    apply List.map_congr_left
    intro i hi
    exact Table.row_eq_map t h (hr i hi)
  | some cs =>
    simp only [N.slice, Option.getD_some, cells, List.map_map]
    rfl

theorem N.slice_eq' (rows cols : Option (List Nat)) (hr : OptIdx.Valid rows t.height) :
    N.slice t rows cols
      = (cells t (rows.getD (allRows t)) (cols.getD (allCols t)), (cols.getD (allCols t)).length) := by
  cases rows with
  | none =>
    rw [N.slice_none_rows, N.slice_eq t h _ (fun i hi => List.mem_range.mp hi)]; rfl
  | some rs => exact N.slice_eq t h rs (hr rs rfl) cols

end

/-! ### all / any / sum: lists -/

section
variable (t : Table) (h : t.WF)
include h
variable (rows cols : Option (List Nat)) (hr : OptIdx.Valid rows t.height) (hc : OptIdx.Valid cols t.width)
include hr hc

/-! #### lists -/
omit hc in
theorem L.allPerRow_spec : L.allPerRow t rows cols
    = Spec.Table.allPerRow t (rows.getD (allRows t)) (cols.getD (allCols t)) := by
  have e : L.allPerRow t rows cols = L.allPerRow t (some (rows.getD (List.range t.height))) cols := by cases rows <;> rfl
  rw [e, L.allPerRow_eq t h _ (OptIdx.getD_lt hr)]; rfl

omit hc in
theorem L.anyPerRow_spec : L.anyPerRow t rows cols
    = Spec.Table.anyPerRow t (rows.getD (allRows t)) (cols.getD (allCols t)) := by
  have e : L.anyPerRow t rows cols = L.anyPerRow t (some (rows.getD (List.range t.height))) cols := by cases rows <;> rfl
  rw [e, L.anyPerRow_eq t h _ (OptIdx.getD_lt hr)]; rfl

omit h hr hc in
theorem L.allPerColumn_spec : L.allPerColumn t rows cols
    = Spec.Table.allPerColumn t (rows.getD (allRows t)) (cols.getD (allCols t)) := by
  have e : L.allPerColumn t rows cols = L.allPerColumn t (some (rows.getD (allRows t))) cols := by cases rows <;> rfl
  rw [e, L.allPerColumn_eq]; rfl

omit h hr hc in
theorem L.anyPerColumn_spec : L.anyPerColumn t rows cols
    = Spec.Table.anyPerColumn t (rows.getD (allRows t)) (cols.getD (allCols t)) := by
  have e : L.anyPerColumn t rows cols = L.anyPerColumn t (some (rows.getD (allRows t))) cols := by cases rows <;> rfl
  rw [e, L.anyPerColumn_eq]; rfl

omit hc in
theorem L.allAll_spec : L.allAll t rows cols
    = Spec.Table.all t (rows.getD (allRows t)) (cols.getD (allCols t)) := by
  have hlt := OptIdx.getD_lt hr
  cases cols with
  | none =>
    have e : L.rowsOf t rows = rows.getD (allRows t) := rfl
    simp only [L.allAll, Spec.Table.all, Option.getD_none, allCols, e]
    rw [← pyAll_map, ← pyAll_map]
    congr 1
    apply List.map_congr_left
    intro i hi
    rw [Table.row_eq_map t h (hlt i hi), pyAll_map]
  | some cs => cases rows <;> rfl

omit hc in
theorem L.anyAny_spec : L.anyAny t rows cols
    = Spec.Table.any t (rows.getD (allRows t)) (cols.getD (allCols t)) := by
  have hlt := OptIdx.getD_lt hr
  cases cols with
  | none =>
    have e : L.rowsOf t rows = rows.getD (allRows t) := rfl
    simp only [L.anyAny, Spec.Table.any, Option.getD_none, allCols, e]
    rw [← pyAny_map, ← pyAny_map]
    congr 1
    apply List.map_congr_left
    intro i hi
    rw [Table.row_eq_map t h (hlt i hi), pyAny_map]
  | some cs => cases rows <;> rfl

omit hc in
theorem L.sumPerRow_spec : L.sumPerRow t rows cols
    = Spec.Table.sumPerRow t (rows.getD (allRows t)) (cols.getD (allCols t)) := by
  have hlt := OptIdx.getD_lt hr
  have e : L.rowsOf t rows = rows.getD (allRows t) := rfl
  cases cols with
  | none =>
    simp only [L.sumPerRow, Spec.Table.sumPerRow, Option.getD_none, allCols, e]
    apply List.map_congr_left
    intro i hi
    rw [Table.row_eq_map t h (hlt i hi), L.countTrue, countTrue_map]
  | some cs =>
    simp only [L.sumPerRow, Spec.Table.sumPerRow, Option.getD_some, e, L.countTrue, countTrue_map]

omit h hr hc in
theorem L.sumPerColumnLoop_eq (cs rs : List Nat) (f : Nat → Nat) :
    L.sumPerColumnLoop t cs rs (cs.map f) = cs.map fun c => f c + (rs.filter fun i => t.get i c).length := by
  induction rs generalizing f with
  | nil => simp [L.sumPerColumnLoop]
  | cons i rest ih =>
    simp only [L.sumPerColumnLoop, zipWith_map_self]
    rw [ih]
    apply List.map_congr_left
    intro c _
    simp only [List.filter_cons]
    cases t.get i c <;> simp <;> omega

omit h hr hc in
theorem L.sumPerColumn_spec : L.sumPerColumn t rows cols
    = Spec.Table.sumPerColumn t (rows.getD (allRows t)) (cols.getD (allCols t)) := by
  have e : L.rowsOf t rows = rows.getD (allRows t) := rfl
  simp only [L.sumPerColumn, e]
  rw [replicate_eq_map, L.sumPerColumnLoop_eq]
  simp only [Nat.zero_add]
  cases cols <;> rfl

end
/-! ### all / any / sum: bitarray -/

section
variable (t : Table) (h : t.WF)
include h
variable (rows cols : Option (List Nat)) (hr : OptIdx.Valid rows t.height) (hc : OptIdx.Valid cols t.width)
include hr hc

/-! #### bitarray -/
theorem B.allPerRow_spec : B.allPerRow t rows cols
    = Spec.Table.allPerRow t (rows.getD (allRows t)) (cols.getD (allCols t)) := by
  have e : B.allPerRow t rows cols = B.allPerRow t (some (rows.getD (List.range t.height))) cols := by cases rows <;> rfl
  rw [e, B.allPerRow_eq t h _ (OptIdx.getD_lt hr) cols hc]; rfl

theorem B.anyPerRow_spec : B.anyPerRow t rows cols
    = Spec.Table.anyPerRow t (rows.getD (allRows t)) (cols.getD (allCols t)) := by
  have e : B.anyPerRow t rows cols = B.anyPerRow t (some (rows.getD (List.range t.height))) cols := by cases rows <;> rfl
  rw [e, B.anyPerRow_eq t h _ (OptIdx.getD_lt hr) cols hc]; rfl

theorem B.allPerColumn_spec : B.allPerColumn t rows cols
    = Spec.Table.allPerColumn t (rows.getD (allRows t)) (cols.getD (allCols t)) := by
  have e : B.allPerColumn t rows cols = B.allPerColumn t (some (rows.getD (List.range t.height))) cols := by cases rows <;> rfl
  rw [e, B.allPerColumn_eq t h _ (OptIdx.getD_lt hr) cols hc]; rfl

theorem B.anyPerColumn_spec : B.anyPerColumn t rows cols
    = Spec.Table.anyPerColumn t (rows.getD (allRows t)) (cols.getD (allCols t)) := by
  have e : B.anyPerColumn t rows cols = B.anyPerColumn t (some (rows.getD (List.range t.height))) cols := by cases rows <;> rfl
  rw [e, B.anyPerColumn_eq t h _ (OptIdx.getD_lt hr) cols hc]; rfl

theorem B.allAll_spec : B.allAll t rows cols
    = Spec.Table.all t (rows.getD (allRows t)) (cols.getD (allCols t)) := by
  have e : B.allAll t rows cols = pyAll (B.allPerRow t rows cols) := by
    cases cols <;> simp only [B.allAll, B.allPerRow, pyAll_map]
  rw [e, B.allPerRow_spec t h rows cols hr hc, Spec.Table.allPerRow, pyAll_map]; rfl

theorem B.anyAny_spec : B.anyAny t rows cols
    = Spec.Table.any t (rows.getD (allRows t)) (cols.getD (allCols t)) := by
  have e : B.anyAny t rows cols = pyAny (B.anyPerRow t rows cols) := by
    cases cols <;> simp only [B.anyAny, B.anyPerRow, pyAny_map]
  rw [e, B.anyPerRow_spec t h rows cols hr hc, Spec.Table.anyPerRow, pyAny_map]; rfl

/-- `(row & mask).count()` counts the selected true cells — needs a duplicate-free column list -/
theorem B.sumPerRow_spec (hnd : OptIdx.Nodup cols) : B.sumPerRow t rows cols
    = Spec.Table.sumPerRow t (rows.getD (allRows t)) (cols.getD (allCols t)) := by
  have hlt := OptIdx.getD_lt hr
  have e : B.rowsOf t rows = rows.getD (allRows t) := rfl
  cases cols with
  | none =>
    simp only [B.sumPerRow, Spec.Table.sumPerRow, Option.getD_none, allCols, e]
    apply List.map_congr_left
    intro i hi
    rw [Table.row_eq_map t h (hlt i hi), B.count, countTrue_map]
  | some cs =>
    simp only [B.sumPerRow, Spec.Table.sumPerRow, Option.getD_some, e]
    apply List.map_congr_left
    intro i hi
    rw [Table.row_eq_map t h (hlt i hi)]
    simp only [B.band, B.maskIn, zipWith_map_map_self, B.count, countTrue_map]
    exact filter_mask_length t.width cs (hc cs rfl) (hnd cs rfl) _

theorem B.sumPerColumn_spec : B.sumPerColumn t rows cols
    = Spec.Table.sumPerColumn t (rows.getD (allRows t)) (cols.getD (allCols t)) := by
  have hlt := OptIdx.getD_lt hr
  have e : B.rowsOf t rows = rows.getD (List.range t.height) := rfl
  cases cols with
  | none =>
    simp only [B.sumPerColumn, Spec.Table.sumPerColumn, Option.getD_none, allCols, allRows, e]
    rw [replicate_eq_map_range,
      foldl_bump_eq t.width _ (fun i => t.row i) (fun i c => t.get i c)
        (fun i hi => Table.row_eq_map t h (hlt i hi))]
    simp
  | some cs =>
    simp only [B.sumPerColumn, Spec.Table.sumPerColumn, Option.getD_some, allRows, e]
    rw [replicate_eq_map_range,
      foldl_bump_eq t.width _ (fun i => B.band (t.row i) (B.maskIn t cs)) (fun i c => t.get i c && cs.contains c)
        (fun i hi => by
          rw [Table.row_eq_map t h (hlt i hi)]
          simp only [B.band, B.maskIn, zipWith_map_map_self])]
    apply List.map_congr_left
    intro c hcm
    rw [getD_map_range_nat _ (hc cs rfl c hcm)]
    simp [hcm]

end
/-! ### all / any / sum: numpy -/

theorem countTrue_flatten (d : List (List Bool)) :
    (d.flatten.filter id).length = (d.map fun r => (r.filter id).length).sum := by
  rw [List.filter_flatten, List.length_flatten, List.map_map]; rfl

section
variable (t : Table) (h : t.WF)
include h
variable (rows cols : Option (List Nat)) (hr : OptIdx.Valid rows t.height)
include hr

/-! #### numpy -/
theorem N.allAxis1_spec : N.allAxis t 1 rows cols
    = Spec.Table.allPerRow t (rows.getD (allRows t)) (cols.getD (allCols t)) := by
  simp only [N.allAxis, N.slice_eq' t h rows cols hr, Nat.one_ne_zero, if_false, N.allAxis1, cells,
    List.map_map, Spec.Table.allPerRow]
  apply List.map_congr_left
  intro i _
  simp only [Function.comp, pyAll_map]

theorem N.anyAxis1_spec : N.anyAxis t 1 rows cols
    = Spec.Table.anyPerRow t (rows.getD (allRows t)) (cols.getD (allCols t)) := by
  simp only [N.anyAxis, N.slice_eq' t h rows cols hr, Nat.one_ne_zero, if_false, N.anyAxis1, cells,
    List.map_map, Spec.Table.anyPerRow]
  apply List.map_congr_left
  intro i _
  simp only [Function.comp, pyAny_map]

omit h hr in
theorem N.allAxis0_spec : N.allAxis t 0 rows cols
    = Spec.Table.allPerColumn t (rows.getD (allRows t)) (cols.getD (allCols t)) := by
  have e : N.allAxis t 0 rows cols = N.allAxis t 0 (some (rows.getD (List.range t.height))) cols := by
    cases rows with
    | none => simp only [N.allAxis, N.slice_none_rows]; rfl
    | some rs => rfl
  rw [e, N.allAxis0_eq]; rfl

omit h hr in
theorem N.anyAxis0_spec : N.anyAxis t 0 rows cols
    = Spec.Table.anyPerColumn t (rows.getD (allRows t)) (cols.getD (allCols t)) := by
  have e : N.anyAxis t 0 rows cols = N.anyAxis t 0 (some (rows.getD (List.range t.height))) cols := by
    cases rows with
    | none => simp only [N.anyAxis, N.slice_none_rows]; rfl
    | some rs => rfl
  rw [e, N.anyAxis0_eq]; rfl

theorem N.allAll_spec : N.allAll t rows cols
    = Spec.Table.all t (rows.getD (allRows t)) (cols.getD (allCols t)) := by
  simp only [N.allAll, N.slice_eq' t h rows cols hr, pyAll, List.all_flatten, cells, List.all_map,
    Spec.Table.all]
  apply List.all_congr rfl
  intro i
  simp only [Function.comp, List.all_map]
  rfl

theorem N.anyAny_spec : N.anyAny t rows cols
    = Spec.Table.any t (rows.getD (allRows t)) (cols.getD (allCols t)) := by
  simp only [N.anyAny, N.slice_eq' t h rows cols hr, pyAny, List.any_flatten, cells, List.any_map,
    Spec.Table.any]
  apply List.any_congr rfl
  intro i
  simp only [Function.comp, List.any_map]
  rfl

theorem N.sumAxis1_spec : N.sumAxis t 1 rows cols
    = Spec.Table.sumPerRow t (rows.getD (allRows t)) (cols.getD (allCols t)) := by
  simp only [N.sumAxis, N.slice_eq' t h rows cols hr, Nat.one_ne_zero, if_false, cells,
    List.map_map, Spec.Table.sumPerRow]
  apply List.map_congr_left
  intro i _
  simp only [Function.comp, N.countTrue, countTrue_map]

theorem N.sumAxis0_spec : N.sumAxis t 0 rows cols
    = Spec.Table.sumPerColumn t (rows.getD (allRows t)) (cols.getD (allCols t)) := by
  simp only [N.sumAxis, N.slice_eq' t h rows cols hr, if_true, cells, List.map_map, Spec.Table.sumPerColumn]
  rw [← map_range_length_getD' (cols.getD (allCols t))
    (fun j => (List.filter (fun i => t.get i j) (rows.getD (allRows t))).length)]
  apply List.map_congr_left
  intro k hk
  have hk' : k < (cols.getD (allCols t)).length := List.mem_range.mp hk
  simp only [N.countTrue, countTrue_map]
  congr 1
  apply List.filter_congr
  intro i _
  simp only [Function.comp]
  rw [N.getD_map_of_lt (fun j => t.get i j) hk']

theorem N.sumAll_spec : N.sumAll t rows cols
    = Spec.Table.sum t (rows.getD (allRows t)) (cols.getD (allCols t)) := by
  simp only [N.sumAll, N.slice_eq' t h rows cols hr, N.countTrue, countTrue_flatten, cells, List.map_map,
    Spec.Table.sum, Spec.Table.sumPerRow]
  congr 1
  apply List.map_congr_left
  intro i _
  simp only [Function.comp, countTrue_map]

end

/-! ### to_list, T, ~, &, |, ==, conversion -/

theorem toList_eq_data (b : Backend) (t : Table) : toList b t = t.data := by
  cases b
  · rfl
  · simp [toList, B.toList]
  · rfl

section
variable (t : Table) (h : t.WF)
include h

theorem toList_spec (b : Backend) : toList b t = Spec.Table.toList t := by
  rw [toList_eq_data, Table.data_eq_cells t h]; rfl

omit h in
theorem transpose_LB : L.transpose t = Spec.Table.transpose t ∧ B.transpose t = Spec.Table.transpose t :=
  ⟨rfl, rfl⟩

omit h in
theorem N.transpose_spec : N.transpose t = Spec.Table.transpose t := by
  simp only [N.transpose, N.transposeArr, Spec.Table.transpose, allCols, allRows]
  rw [Table.data_eq_map_row t]
  simp only [List.map_map]
  rfl

theorem invert_cells : (t.data.map fun r => r.map fun v => !v)
    = (allRows t).map fun i => (allCols t).map fun j => !(t.get i j) := by
  rw [Table.data_eq_cells t h]
  simp only [cells, List.map_map]
  apply List.map_congr_left
  intro i _
  simp only [Function.comp, List.map_map]
  rfl

theorem invert_spec (b : Backend) :
    (match b with | .lists => L.invert t | .bitarray => B.invert t | .numpy => N.invert t) = Spec.Table.invert t := by
  have hb : List.map B.bnot t.data = t.data.map fun r => r.map fun v => !v := rfl
  cases b <;> simp only [L.invert, B.invert, hb, N.invert, Spec.Table.invert, invert_cells t h]

theorem pointwise_cells (f : Bool → Bool → Bool) (o : Table) (ho : o.WF)
    (hs : t.height = o.height ∧ t.width = o.width) :
    List.zipWith (fun ra rb => List.zipWith f ra rb) t.data o.data
      = (allRows t).map fun i => (allCols t).map fun j => f (t.get i j) (o.get i j) := by
  rw [Table.data_eq_cells t h, Table.data_eq_cells o ho]
  simp only [cells, allRows, allCols, ← hs.1, ← hs.2, zipWith_map_map_self]

theorem and_spec (b : Backend) (o : Table) (ho : o.WF) :
    exceptRes (match b with | .lists => L.band t o | .bitarray => B.tand t o | .numpy => N.tand t o)
      = Spec.Table.run (.and o) t := by
  simp only [Spec.Table.run]
  by_cases hs : t.height = o.height ∧ t.width = o.width
  · cases b <;>
      simp only [L.band, B.tand, N.tand, B.band, hs, and_self, if_true, exceptRes, Spec.Table.pointwise,
        pointwise_cells t h (fun a b => a && b) o ho hs]
  · cases b <;> simp only [L.band, B.tand, N.tand, hs, if_false, exceptRes]

theorem or_spec (b : Backend) (o : Table) (ho : o.WF) :
    exceptRes (match b with | .lists => L.bor t o | .bitarray => B.tor t o | .numpy => N.tor t o)
      = Spec.Table.run (.or o) t := by
  simp only [Spec.Table.run]
  by_cases hs : t.height = o.height ∧ t.width = o.width
  · cases b <;>
      simp only [L.bor, B.tor, N.tor, B.bor, hs, and_self, if_true, exceptRes, Spec.Table.pointwise,
        pointwise_cells t h (fun a b => a || b) o ho hs]
  · cases b <;> simp only [L.bor, B.tor, N.tor, hs, if_false, exceptRes]

theorem tableEq_spec (b b' : Backend) (o : Table) (ho : o.WF) :
    tableEq b t b' o = Spec.Table.eq t o := by
  unfold tableEq Spec.Table.eq
  by_cases hh : t.height = o.height
  · by_cases hw : t.width = o.width
    · have hdata : (t.data == o.data) = ((allRows t).all fun i => (allCols t).all fun j => t.get i j == o.get i j) := by
        rw [Bool.eq_iff_iff, beq_iff_eq]
        simp only [List.all_eq_true, beq_iff_eq]
        constructor
        · intro he i _ j _
          simp only [Table.get, Table.row, he]
        · intro H
          rw [Table.data_eq_cells t h, Table.data_eq_cells o ho]
          simp only [cells, allRows, allCols, ← hh, ← hw]
          apply List.map_congr_left
          intro i hi
          apply List.map_congr_left
          intro j hj
          exact H i hi j hj
      simp only [hh, hw, ne_eq, not_true_eq_false, if_false, toList_eq_data, beq_self_eq_true, Bool.true_and]
      split <;> exact hdata
    · simp [hh, hw]
  · simp [hh]

theorem convert_spec (src dst : Backend) : toList dst (convert src dst t) = Spec.Table.toList t := by
  unfold convert
  split
  · exact toList_spec t h dst
  · split
    · rename_i h0
      rw [toList_eq_data]
      simp only [Spec.Table.toList, cells, allRows, Table.height, h0, List.range_zero, List.map_nil]
    · rw [toList_eq_data]
      simp only [toList_eq_data, Table.ofRows]
      rw [Table.data_eq_cells t h]; rfl

end

/-! ### per-family statements used by the master theorem -/

/-- the scope of property C05 for one operation on table `t` -/
def Op.Valid (op : Op) (t : Table) : Prop :=
  match op with
  | .getitem it => it.Valid t
  | .all _ r c => OptIdx.Valid r t.height ∧ OptIdx.Valid c t.width
  | .any _ r c => OptIdx.Valid r t.height ∧ OptIdx.Valid c t.width
  | .allI _ r c => OptIdx.Valid r t.height ∧ OptIdx.Valid c t.width
  | .anyI _ r c => OptIdx.Valid r t.height ∧ OptIdx.Valid c t.width
  | .sum _ r c => OptIdx.Valid r t.height ∧ OptIdx.Valid c t.width ∧ OptIdx.Nodup c
  | .and o => o.WF
  | .or o => o.WF
  | .eq _ o => o.WF
  | _ => True

theorem allI_axis0_none (b : Backend) (t : Table) (rows cols : Option (List Nat)) :
    allI b t 0 rows cols = allI b t 0 (some (rows.getD (List.range t.height))) cols := by
  cases rows with
  | some rs => rfl
  | none =>
    cases b
    · rfl
    · rfl
    · simp only [allI, N.allI, N.allAxis, N.slice_none_rows]; rfl

theorem anyI_axis0_none (b : Backend) (t : Table) (rows cols : Option (List Nat)) :
    anyI b t 0 rows cols = anyI b t 0 (some (rows.getD (List.range t.height))) cols := by
  cases rows with
  | some rs => rfl
  | none =>
    cases b
    · rfl
    · rfl
    · simp only [anyI, N.anyI, N.anyAxis, N.slice_none_rows]; rfl

section
variable (t : Table) (h : t.WF) (b : Backend)
include h
variable (rows cols : Option (List Nat)) (hr : OptIdx.Valid rows t.height) (hc : OptIdx.Valid cols t.width)
include hr hc

theorem allIRes_spec (ax : Int) : allIRes b t ax rows cols = Spec.Table.run (.allI ax rows cols) t := by
  simp only [allIRes, Spec.Table.run]
  split
  · rw [allI_axis0_none, allI_axis0 t h b _ cols (OptIdx.getD_lt hr) hc]; rfl
  · split
    · rw [allI_axis1 t h b rows cols hr hc]; rfl
    · rfl

theorem anyIRes_spec (ax : Int) : anyIRes b t ax rows cols = Spec.Table.run (.anyI ax rows cols) t := by
  simp only [anyIRes, Spec.Table.run]
  split
  · rw [anyI_axis0_none, anyI_axis0 t h b _ cols (OptIdx.getD_lt hr) hc]; rfl
  · split
    · rw [anyI_axis1 t h b rows cols hr hc]; rfl
    · rfl

theorem all_spec (ax : Option Int) :
    (match b with | .lists => L.all t ax rows cols | .bitarray => B.all t ax rows cols | .numpy => N.all t ax rows cols)
      = Spec.Table.run (.all ax rows cols) t := by
  cases b
  · simp only [L.all, Spec.Table.run, L.allAll_spec t h rows cols hr, L.allPerColumn_spec,
      L.allPerRow_spec t h rows cols hr]
  · simp only [B.all, Spec.Table.run, B.allAll_spec t h rows cols hr hc, B.allPerColumn_spec t h rows cols hr hc,
      B.allPerRow_spec t h rows cols hr hc]
  · simp only [N.all, Spec.Table.run, N.allAll_spec t h rows cols hr, N.allAxis0_spec,
      N.allAxis1_spec t h rows cols hr]

theorem any_spec (ax : Option Int) :
    (match b with | .lists => L.any t ax rows cols | .bitarray => B.any t ax rows cols | .numpy => N.any t ax rows cols)
      = Spec.Table.run (.any ax rows cols) t := by
  cases b
  · simp only [L.any, Spec.Table.run, L.anyAny_spec t h rows cols hr, L.anyPerColumn_spec,
      L.anyPerRow_spec t h rows cols hr]
  · simp only [B.any, Spec.Table.run, B.anyAny_spec t h rows cols hr hc, B.anyPerColumn_spec t h rows cols hr hc,
      B.anyPerRow_spec t h rows cols hr hc]
  · simp only [N.any, Spec.Table.run, N.anyAny_spec t h rows cols hr, N.anyAxis0_spec,
      N.anyAxis1_spec t h rows cols hr]

theorem sum_spec (ax : Option Int) (hnd : OptIdx.Nodup cols) :
    (match b with | .lists => L.sum t ax rows cols | .bitarray => B.sum t ax rows cols | .numpy => N.sum t ax rows cols)
      = Spec.Table.run (.sum ax rows cols) t := by
  cases b
  · simp only [L.sum, Spec.Table.run, L.sumAll, L.sumPerColumn_spec, L.sumPerRow_spec t h rows cols hr,
      Spec.Table.sum]
  · simp only [B.sum, Spec.Table.run, B.sumAll, B.sumPerColumn_spec t h rows cols hr hc,
      B.sumPerRow_spec t h rows cols hr hc hnd, Spec.Table.sum]
  · simp only [N.sum, Spec.Table.run, N.sumAll_spec t h rows cols hr, N.sumAxis0_spec t h rows cols hr,
      N.sumAxis1_spec t h rows cols hr]

end

/-! ### context level -/

/-- the scope of the context-level part: any item whose integers and index lists are in range
    (slices with a non-zero step), a well-formed second context for `==`. -/
def COp.Valid (op : COp) (t : Table) : Prop :=
  match op with
  | .getitem it => it.Valid t
  | .eq K' => K'.table.WF
  | _ => True

theorem obs_mkCtx (b : Backend) (t : Table) (objs attrs : List String) :
    obs (mkCtx b t objs attrs) = mkObs t objs attrs := by
  unfold mkCtx mkObs
  split
  · rfl
  · split <;> rfl

theorem mkCtx_backend (b : Backend) (t : Table) (objs attrs : List String) (K' : Ctx)
    (hk : mkCtx b t objs attrs = .ctx K') : K'.backend = b := by
  unfold mkCtx at hk
  split at hk
  · cases hk
  · split at hk
    · cases hk
    · cases hk; rfl

theorem sliceList_key (ns : List String) (k : Key) (n : Nat) (hn : ns.length = n) :
    sliceList ns k = names ns (keyIdx k n) := by
  match k with
  | .int i => rfl
  | .sel (.idx xs) => rfl
  | .sel (.slice a b c) => simp only [sliceList, takeSel, hn]; rfl

theorem Key.wrapInt_valid {k : Key} {n : Nat} (h : k.Valid n) : k.wrapInt.Valid n := by
  match k, h with
  | .int i, h => intro x hx; simp at hx; subst hx; exact h
  | .sel s, h => exact h

theorem Key.wrapInt_resolve (k : Key) (n : Nat) :
    ∃ s, k.wrapInt = .sel s ∧ s.resolve n = keyIdx k n := by
  match k with
  | .int i => exact ⟨.idx [i], rfl, rfl⟩
  | .sel s => exact ⟨s, rfl, rfl⟩

/-! ### histories -/

theorem setData_eq (b : Backend) (rows : List Row) : setData b rows = Table.ofRows rows := by
  unfold setData convert
  split
  · rfl
  · split
    · rename_i h0
      have : rows = [] := List.eq_nil_of_length_eq_zero h0
      subst this; rfl
    · rfl

/-- rows of one length (what `_validate_data` accepts) -/
def Rect (rows : List Row) : Prop := ∀ r ∈ rows, r.length = (rows.headD []).length

theorem Table.ofRows_wf_of_rect {rows : List Row} (h : Rect rows) : (Table.ofRows rows).WF :=
  Table.ofRows_wf h

/-- every query of the history is in scope for the content held when it is asked -/
def HistValid : Table → List Step → Prop
  | _, [] => True
  | t, .query op :: rest => op.Valid t ∧ HistValid t rest
  | _, .setData rows :: rest => Rect rows ∧ HistValid (Table.ofRows rows) rest

/-- context histories: queries in scope; new data of the same shape; new name lists of the right length -/
def CHistValid : Table → List CStep → Prop
  | _, [] => True
  | t, .query op :: rest => op.Valid t ∧ CHistValid t rest
  | t, .setData rows :: rest =>
      Rect rows ∧ (Table.ofRows rows).height = t.height ∧ (Table.ofRows rows).width = t.width ∧
      CHistValid (Table.ofRows rows) rest
  | t, .setObjNames ns :: rest => ns.length = t.height ∧ CHistValid t rest
  | t, .setAttrNames ns :: rest => ns.length = t.width ∧ CHistValid t rest

end Fca

/-
  Fca.Lemmas.Miners — facts shared by all miners: exactness is invariant under reordering
  (`sort_concepts`), and every record's name views are the name images of its index views.
-/
import Fca.Lemmas.Lindig
import Fca.Lemmas.LindigComplete
import Fca.Lemmas.Sofia
import Fca.Lemmas.CbODispatch
namespace Fca.MinersL
open Fca Fca.Spec

theorem exact_perm {t : Table} {cs cs' : List ConceptRec} (hp : cs'.Perm cs) (h : ExactConcepts t cs) :
    ExactConcepts t cs' := by
  have hm := hp.map conceptKey
  exact ⟨hm.nodup_iff.mpr h.1, fun A B => by rw [hm.mem_iff]; exact h.2 A B⟩

theorem soundNodup_perm {t : Table} {cs cs' : List ConceptRec} (hp : cs'.Perm cs) (h : SoundNodup t cs) :
    SoundNodup t cs' := by
  have hm := hp.map conceptKey
  exact ⟨hm.nodup_iff.mpr h.1, fun A B hx => h.2 A B (hm.mem_iff.mp hx)⟩

theorem sortConcepts_perm (cs : List ConceptRec) : (sortConcepts cs).Perm cs :=
  List.mergeSort_perm cs sortKeyLe

theorem exact_soundNodup {t : Table} {cs : List ConceptRec} (h : ExactConcepts t cs) : SoundNodup t cs :=
  ⟨h.1, fun A B hx => (h.2 A B).mp hx⟩

/-! ### name views -/

theorem views_fromObjects (K : Ctx) (objs : List Nat) (b : Bool) :
    ViewsAgree K.objNames K.attrNames (K.fromObjects objs b) := ⟨rfl, rfl⟩

theorem views_cboFbarray (K : Ctx) (fuel : Nat) (cs : List ConceptRec) (h : cboFbarray K fuel = .ok cs) :
    ∀ c ∈ cs, ViewsAgree K.objNames K.attrNames c := by
  unfold cboFbarray at h
  split at h
  · cases h
  · injection h with h; subst h
    intro c hc
    obtain ⟨p, _, rfl⟩ := List.mem_map.mp hc
    exact views_fromObjects K _ _

theorem views_cboObjectwise (K : Ctx) (fuel : Nat) (cs : List ConceptRec) (h : cboObjectwise K fuel = .ok cs) :
    ∀ c ∈ cs, ViewsAgree K.objNames K.attrNames c := by
  unfold cboObjectwise at h
  split at h
  · cases h
  · injection h with h; subst h
    intro c hc
    obtain ⟨p, _, rfl⟩ := List.mem_map.mp hc
    exact views_fromObjects K _ _

theorem views_closeByOne (K : Ctx) (fuel : Nat) (cs : List ConceptRec) (h : closeByOne K fuel = .ok cs) :
    ∀ c ∈ cs, ViewsAgree K.objNames K.attrNames c := by
  unfold closeByOne at h
  split at h
  · exact views_cboFbarray K fuel cs h
  · split at h
    · cases h
    · injection h with h; subst h
      intro c hc
      obtain ⟨p, _, rfl⟩ := List.mem_map.mp hc
      exact views_fromObjects K _ _

theorem views_lindig (K : Ctx) (iter : Option Bool) (ord : List Nat → List Nat) (pick : List Nat → Nat)
    (fuel : Nat) (r : LindigOut) (h : lindigAlgorithm K iter ord pick fuel = .ok r) :
    ∀ c ∈ r.concepts, ViewsAgree K.objNames K.attrNames c := by
  unfold lindigAlgorithm at h
  simp only at h
  split at h
  · cases h
  · cases hit : iter.getD (decide (K.nObjects < K.nAttributes))
    · simp only [hit, Bool.false_eq_true, ↓reduceIte] at h
      injection h with h; subst h
      intro c hc
      simp only [List.map_map, List.mem_map, Function.comp] at hc
      obtain ⟨p, _, rfl⟩ := hc
      exact ⟨rfl, rfl⟩
    · simp only [hit, ↓reduceIte] at h
      injection h with h; subst h
      intro c hc
      simp only [List.mem_map] at hc
      obtain ⟨p, _, rfl⟩ := hc
      exact ⟨rfl, rfl⟩

theorem views_sofia (K : Ctx) (tie : List (List Bool) → List (List Bool)) (lMax minSupp : Nat) :
    ∀ c ∈ sofia K tie lMax minSupp, ViewsAgree K.objNames K.attrNames c := by
  intro c hc
  unfold sofia at hc
  obtain ⟨p, _, rfl⟩ := List.mem_map.mp hc
  exact views_fromObjects K _ _

theorem views_fromContext (K : Ctx) (algo : Algo) (o : Orders) (cs : List ConceptRec)
    (h : fromContext K algo o = .ok cs) : ∀ c ∈ cs, ViewsAgree K.objNames K.attrNames c := by
  unfold fromContext at h
  split at h
  · split at h
    · cases h
    · rename_i cs' hcs
      injection h with h; subst h
      intro c hc
      exact views_closeByOne K _ cs' hcs c ((sortConcepts_perm _).mem_iff.mp hc)
  · injection h with h; subst h
    intro c hc
    exact views_sofia K _ _ _ c ((sortConcepts_perm _).mem_iff.mp hc)
  · split at h
    · cases h
    · rename_i r hr
      injection h with h; subst h
      intro c hc
      exact views_lindig K _ _ _ _ r hr c ((sortConcepts_perm _).mem_iff.mp hc)
  · split at h
    · cases h
    · rename_i r hr
      injection h with h; subst h
      intro c hc
      exact views_lindig K _ _ _ _ r hr c ((sortConcepts_perm _).mem_iff.mp hc)
  · cases h

end Fca.MinersL

/-
  Fca.Lemmas.LatticeQueryC04 — the C04 checker `Spec.holdsC04` says exactly: every object and every attribute
  labels one node, labels are in range, and the incidence is "node(g) below-or-equal node(a)".
-/
import Fca.Lemmas.LatticeQueryLabels
namespace Fca.LQ
open Fca Fca.Spec

/-- what a reduced labelling with ancestor sets must satisfy (the three statements of C04, for arbitrary label
    lists): `k = newExt.length` nodes -/
def C04Holds (t : Table) (newExt newInt anc : List (List Nat)) : Prop :=
  newInt.length = newExt.length ∧ anc.length = newExt.length ∧
  (∀ g, g < t.height → ∃ i, i < newExt.length ∧ g ∈ newExt.getD i [] ∧
    ∀ i', i' < newExt.length → g ∈ newExt.getD i' [] → i' = i) ∧
  (∀ a, a < t.width → ∃ j, j < newExt.length ∧ a ∈ newInt.getD j [] ∧
    ∀ j', j' < newExt.length → a ∈ newInt.getD j' [] → j' = j) ∧
  (∀ i, i < newExt.length → (∀ g ∈ newExt.getD i [], g < t.height) ∧ (∀ a ∈ newInt.getD i [], a < t.width)) ∧
  (∀ g a i j, g < t.height → a < t.width → i < newExt.length → j < newExt.length →
    g ∈ newExt.getD i [] → a ∈ newInt.getD j [] →
    (t.get g a = true ↔ (i = j ∨ j ∈ anc.getD i [])))

theorem mem_nodesOf {k : Nat} {labels : List (List Nat)} {x i : Nat} :
    i ∈ nodesOf k labels x ↔ i < k ∧ x ∈ labels.getD i [] := by
  simp [nodesOf, List.mem_filter, List.mem_range]

theorem nodesOf_nodup (k : Nat) (labels : List (List Nat)) (x : Nat) : (nodesOf k labels x).Nodup :=
  List.Nodup.sublist List.filter_sublist List.nodup_range

/-- exactly one node carries `x` iff the node list has length one; that node is then its head -/
theorem nodesOf_one_iff {k : Nat} {labels : List (List Nat)} {x : Nat} :
    (nodesOf k labels x).length = 1 ↔
      ∃ i, i < k ∧ x ∈ labels.getD i [] ∧ ∀ i', i' < k → x ∈ labels.getD i' [] → i' = i := by
  constructor
  · intro h
    match hl : nodesOf k labels x, h with
    | [i], _ =>
      have hi : i ∈ nodesOf k labels x := by rw [hl]; exact List.mem_cons_self
      obtain ⟨h1, h2⟩ := mem_nodesOf.mp hi
      refine ⟨i, h1, h2, fun i' h1' h2' => ?_⟩
      have : i' ∈ nodesOf k labels x := mem_nodesOf.mpr ⟨h1', h2'⟩
      rw [hl] at this
      exact List.mem_singleton.mp this
  · rintro ⟨i, h1, h2, h3⟩
    have : nodesOf k labels x = [i] := by
      apply PQ.eq_singleton_of_nodup (nodesOf_nodup k labels x)
      intro y
      rw [mem_nodesOf]
      constructor
      · rintro ⟨a, b⟩; exact h3 y a b
      · rintro rfl; exact ⟨h1, h2⟩
    rw [this]; rfl

theorem nodesOf_head {k : Nat} {labels : List (List Nat)} {x i : Nat}
    (h1 : i < k) (h2 : x ∈ labels.getD i []) (h3 : ∀ i', i' < k → x ∈ labels.getD i' [] → i' = i) :
    (nodesOf k labels x).headD 0 = i := by
  have : nodesOf k labels x = [i] := by
    apply PQ.eq_singleton_of_nodup (nodesOf_nodup k labels x)
    intro y
    rw [mem_nodesOf]
    constructor
    · rintro ⟨a, b⟩; exact h3 y a b
    · rintro rfl; exact ⟨h1, h2⟩
  rw [this]; rfl

/-- the checker is a decision procedure for `C04Holds` -/
theorem holdsC04_iff (t : Table) (newExt newInt anc : List (List Nat)) :
    Spec.holdsC04 t newExt newInt anc = true ↔ C04Holds t newExt newInt anc := by
  unfold Spec.holdsC04 C04Holds
  simp only [Bool.and_eq_true, beq_iff_eq, List.all_eq_true, List.mem_range, nodesOf_one_iff,
    decide_eq_true_eq]
  constructor
  · rintro ⟨⟨⟨⟨⟨h1, h2⟩, h3⟩, h4⟩, h5⟩, h6⟩
    refine ⟨h1, h2, h3, h4, fun i hi => ⟨fun g hg => (h5 i hi).1 g hg, fun a ha => (h5 i hi).2 a ha⟩, ?_⟩
    intro g a i j hg ha hi hj hgi haj
    obtain ⟨i0, a1, a2, a3⟩ := h3 g hg
    obtain ⟨j0, b1, b2, b3⟩ := h4 a ha
    have ei : i = i0 := a3 i hi hgi
    have ej : j = j0 := b3 j hj haj
    have := h6 g hg a ha
    rw [nodesOf_head a1 a2 a3, nodesOf_head b1 b2 b3, ← ei, ← ej] at this
    rw [Bool.eq_iff_iff] at this
    rw [this]
    simp
  · rintro ⟨h1, h2, h3, h4, h5, h6⟩
    refine ⟨⟨⟨⟨⟨h1, h2⟩, h3⟩, h4⟩, fun i hi => ⟨fun g hg => (h5 i hi).1 g hg, fun a ha => (h5 i hi).2 a ha⟩⟩, ?_⟩
    intro g hg a ha
    obtain ⟨i0, a1, a2, a3⟩ := h3 g hg
    obtain ⟨j0, b1, b2, b3⟩ := h4 a ha
    rw [nodesOf_head a1 a2 a3, nodesOf_head b1 b2 b3, Bool.eq_iff_iff]
    rw [h6 g a i0 j0 hg ha a1 b1 a2 b2]
    simp

end Fca.LQ

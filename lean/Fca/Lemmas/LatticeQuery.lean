/-
  Fca.Lemmas.LatticeQuery — the uncached POSet queries (`Fca.PQ`) compute, for any comparison `leq`
  that is a partial order on the indexes `0 … n-1`, exactly the strict down-sets and up-sets, the covers,
  the greatest lower / least upper bounds and the greatest / least element — whatever order the
  Python iterates its sets in.
-/
import Fca.Model.LatticeQuery
namespace Fca.PQ

/-- `leq` is a partial order on the indexes below `n` (transitivity is needed for all indexes the loops touch,
    which are all below `n`; it is stated unbounded because the instance at hand has it unbounded) -/
structure IsPO (leq : Nat → Nat → Bool) (n : Nat) : Prop where
  refl : ∀ a, a < n → leq a a = true
  trans : ∀ a b c, leq a b = true → leq b c = true → leq a c = true
  antisymm : ∀ a b, a < n → b < n → leq a b = true → leq b a = true → a = b

/-- the iteration order of a set: any list with the same members -/
def IsOrder (ord : List Nat → List Nat) : Prop := ∀ l x, x ∈ ord l ↔ x ∈ l

theorem isOrder_id : IsOrder id := fun _ _ => Iff.rfl
theorem isOrder_reverse : IsOrder List.reverse := fun _ _ => List.mem_reverse

variable {leq : Nat → Nat → Bool} {n : Nat}

theorem mem_descendants {i j : Nat} :
    j ∈ descendants leq n i ↔ j < n ∧ leq j i = true ∧ j ≠ i := by
  simp [descendants, List.mem_filter, List.mem_range]

theorem mem_ancestors {i j : Nat} :
    j ∈ ancestors leq n i ↔ j < n ∧ leq i j = true ∧ j ≠ i := by
  simp [ancestors, List.mem_filter, List.mem_range]

theorem mem_removeAll {cur sub : List Nat} {x : Nat} :
    x ∈ removeAll cur sub ↔ x ∈ cur ∧ x ∉ sub := by
  simp [removeAll, List.mem_filter]

theorem descendants_nodup (i : Nat) : (descendants leq n i).Nodup :=
  List.Nodup.sublist List.filter_sublist List.nodup_range

theorem ancestors_nodup (i : Nat) : (ancestors leq n i).Nodup :=
  List.Nodup.sublist List.filter_sublist List.nodup_range

theorem removeAll_nodup {cur sub : List Nat} (h : cur.Nodup) : (removeAll cur sub).Nodup :=
  List.Nodup.sublist List.filter_sublist h

theorem removeAll_sorted {cur sub : List Nat} (h : cur.Pairwise (· < ·)) :
    (removeAll cur sub).Pairwise (· < ·) := List.Pairwise.filter _ h

/-- strictly ascending lists are determined by their members -/
theorem sorted_ext : ∀ {l₁ l₂ : List Nat}, l₁.Pairwise (· < ·) → l₂.Pairwise (· < ·) →
    (∀ x, x ∈ l₁ ↔ x ∈ l₂) → l₁ = l₂
  | [], [], _, _, _ => rfl
  | [], b :: l₂, _, _, h => by have := (h b).mpr List.mem_cons_self; cases this
  | a :: l₁, [], _, _, h => by have := (h a).mp List.mem_cons_self; cases this
  | a :: l₁, b :: l₂, h₁, h₂, h => by
    rw [List.pairwise_cons] at h₁ h₂
    have hab : a = b := by
      have ha := (h a).mp List.mem_cons_self
      have hb := (h b).mpr List.mem_cons_self
      rcases List.mem_cons.mp ha with e | ha'
      · exact e
      · rcases List.mem_cons.mp hb with e | hb'
        · exact e.symm
        · have := h₂.1 a ha'; have := h₁.1 b hb'; omega
    subst hab
    congr 1
    apply sorted_ext h₁.2 h₂.2
    intro x
    constructor
    · intro hx
      have hlt := h₁.1 x hx
      rcases List.mem_cons.mp ((h x).mp (List.mem_cons_of_mem _ hx)) with e | hx'
      · omega
      · exact hx'
    · intro hx
      have hlt := h₂.1 x hx
      rcases List.mem_cons.mp ((h x).mpr (List.mem_cons_of_mem _ hx)) with e | hx'
      · omega
      · exact hx'

theorem descendants_sorted (i : Nat) : (descendants leq n i).Pairwise (· < ·) :=
  List.Pairwise.filter _ List.pairwise_lt_range

theorem ancestors_sorted (i : Nat) : (ancestors leq n i).Pairwise (· < ·) :=
  List.Pairwise.filter _ List.pairwise_lt_range

/-! ### the guarded subtraction loop of `_children_nocache` / `_parents_nocache` -/

theorem guardedSubtractLoop_sublist (rel : Nat → List Nat) :
    ∀ (order cur : List Nat), (guardedSubtractLoop rel order cur).Sublist cur
  | [], cur => List.Sublist.refl _
  | el :: rest, cur => by
    unfold guardedSubtractLoop
    split
    · exact (guardedSubtractLoop_sublist rel rest _).trans List.filter_sublist
    · exact guardedSubtractLoop_sublist rel rest cur

/-- Whatever the iteration order (and although removed elements are skipped), the loop removes exactly the
    members of `rel y` for every `y` of the order lying in the start set `D` — provided `rel` is transitive on `D`. -/
theorem mem_guardedSubtractLoop {rel : Nat → List Nat} {D : List Nat}
    (htr : ∀ x ∈ D, ∀ y ∈ rel x, ∀ z ∈ rel y, z ∈ rel x) :
    ∀ (order cur : List Nat), (∀ x ∈ cur, x ∈ D) →
      (∀ y ∈ D, y ∉ cur → ∀ z ∈ rel y, z ∉ cur) →
      ∀ x, x ∈ guardedSubtractLoop rel order cur ↔ x ∈ cur ∧ ∀ y ∈ order, y ∈ D → x ∉ rel y
  | [], cur, _, _, x => by simp [guardedSubtractLoop]
  | el :: rest, cur, hcur, hcl, x => by
    unfold guardedSubtractLoop
    by_cases hel : cur.contains el = true
    · rw [if_pos hel]
      have helc : el ∈ cur := by simpa using hel
      have helD : el ∈ D := hcur el helc
      have hcur' : ∀ x ∈ removeAll cur (rel el), x ∈ D := fun x hx => hcur x (mem_removeAll.mp hx).1
      have hcl' : ∀ y ∈ D, y ∉ removeAll cur (rel el) → ∀ z ∈ rel y, z ∉ removeAll cur (rel el) := by
        intro y hyD hy z hz hzin
        have hz' := mem_removeAll.mp hzin
        by_cases hyc : y ∈ cur
        · have hyrel : y ∈ rel el := by
            apply Classical.byContradiction
            intro hn
            exact hy (mem_removeAll.mpr ⟨hyc, hn⟩)
          exact hz'.2 (htr el helD y hyrel z hz)
        · exact hcl y hyD hyc z hz hz'.1
      rw [mem_guardedSubtractLoop htr rest _ hcur' hcl' x, mem_removeAll]
      constructor
      · rintro ⟨⟨hx, hxe⟩, hr⟩
        refine ⟨hx, ?_⟩
        intro y hy hyD
        rcases List.mem_cons.mp hy with rfl | hy
        · exact hxe
        · exact hr y hy hyD
      · rintro ⟨hx, hr⟩
        exact ⟨⟨hx, hr el List.mem_cons_self helD⟩, fun y hy hyD => hr y (List.mem_cons_of_mem _ hy) hyD⟩
    · rw [if_neg hel]
      have helc : el ∉ cur := by simpa using hel
      rw [mem_guardedSubtractLoop htr rest cur hcur hcl x]
      constructor
      · rintro ⟨hx, hr⟩
        refine ⟨hx, ?_⟩
        intro y hy hyD
        rcases List.mem_cons.mp hy with rfl | hy
        · intro hxr; exact hcl y hyD helc x hxr hx
        · exact hr y hy hyD
      · rintro ⟨hx, hr⟩
        exact ⟨hx, fun y hy hyD => hr y (List.mem_cons_of_mem _ hy) hyD⟩

theorem descendants_trans (po : IsPO leq n) {x : Nat} (hx : x < n) :
    ∀ y ∈ descendants leq n x, ∀ z ∈ descendants leq n y, z ∈ descendants leq n x := by
  intro y hy z hz
  rw [mem_descendants] at *
  refine ⟨hz.1, po.trans z y x hz.2.1 hy.2.1, ?_⟩
  intro e
  subst e
  exact hy.2.2 (po.antisymm y z hy.1 hx hy.2.1 hz.2.1)

theorem ancestors_trans (po : IsPO leq n) {x : Nat} (hx : x < n) :
    ∀ y ∈ ancestors leq n x, ∀ z ∈ ancestors leq n y, z ∈ ancestors leq n x := by
  intro y hy z hz
  rw [mem_ancestors] at *
  refine ⟨hz.1, po.trans x y z hy.2.1 hz.2.1, ?_⟩
  intro e
  subst e
  exact hy.2.2 (po.antisymm y z hy.1 hx hz.2.1 hy.2.1)

/-- `children i` = the strict descendants of `i` that are not strictly below another strict descendant:
    the lower covers — for every iteration order. -/
theorem mem_children (po : IsPO leq n) {ord : List Nat → List Nat} (ho : IsOrder ord) {i x : Nat} :
    x ∈ children leq n ord i ↔
      x ∈ descendants leq n i ∧ ∀ y ∈ descendants leq n i, x ∉ descendants leq n y := by
  unfold children
  simp only
  rw [mem_guardedSubtractLoop (D := descendants leq n i)
    (fun x hx => descendants_trans po (mem_descendants.mp hx).1) _ _ (fun _ h => h)
    (fun y hy hn => absurd hy hn)]
  constructor
  · rintro ⟨hx, h⟩
    exact ⟨hx, fun y hy => h y ((ho _ _).mpr hy) hy⟩
  · rintro ⟨hx, h⟩
    exact ⟨hx, fun y _ hy => h y hy⟩

theorem mem_parents (po : IsPO leq n) {ord : List Nat → List Nat} (ho : IsOrder ord) {i x : Nat} :
    x ∈ parents leq n ord i ↔
      x ∈ ancestors leq n i ∧ ∀ y ∈ ancestors leq n i, x ∉ ancestors leq n y := by
  unfold parents
  simp only
  rw [mem_guardedSubtractLoop (D := ancestors leq n i)
    (fun x hx => ancestors_trans po (mem_ancestors.mp hx).1) _ _ (fun _ h => h)
    (fun y hy hn => absurd hy hn)]
  constructor
  · rintro ⟨hx, h⟩
    exact ⟨hx, fun y hy => h y ((ho _ _).mpr hy) hy⟩
  · rintro ⟨hx, h⟩
    exact ⟨hx, fun y _ hy => h y hy⟩

theorem children_sorted (ord : List Nat → List Nat) (i : Nat) :
    (children leq n ord i).Pairwise (· < ·) :=
  List.Pairwise.sublist (guardedSubtractLoop_sublist _ _ _) (descendants_sorted i)

theorem parents_sorted (ord : List Nat → List Nat) (i : Nat) :
    (parents leq n ord i).Pairwise (· < ·) :=
  List.Pairwise.sublist (guardedSubtractLoop_sublist _ _ _) (ancestors_sorted i)

/-! ### join / meet -/

theorem mem_withSelf {s : List Nat} {i x : Nat} : x ∈ withSelf s i ↔ x = i ∨ x ∈ s := by
  unfold withSelf
  split
  · rename_i h
    have : i ∈ s := by simpa using h
    constructor
    · exact Or.inr
    · rintro (rfl | h) <;> assumption
  · simp

theorem withSelf_nodup {s : List Nat} {i : Nat} (h : s.Nodup) : (withSelf s i).Nodup := by
  unfold withSelf
  split
  · exact h
  · rename_i hn
    have : i ∉ s := by simpa using hn
    exact List.nodup_cons.mpr ⟨this, h⟩

theorem mem_interSets {a b : List Nat} {x : Nat} : x ∈ interSets a b ↔ x ∈ a ∧ x ∈ b := by
  simp [interSets, List.mem_filter]

theorem mem_boundsLoop (rel : Nat → List Nat) :
    ∀ (S acc : List Nat) (x : Nat),
      x ∈ boundsLoop rel S acc ↔ x ∈ acc ∧ ∀ s ∈ S, x = s ∨ x ∈ rel s
  | [], acc, x => by simp [boundsLoop]
  | el :: rest, acc, x => by
    unfold boundsLoop
    rw [mem_boundsLoop rel rest _ x, mem_interSets, mem_withSelf]
    simp only [List.mem_cons, forall_eq_or_imp]
    exact ⟨fun ⟨⟨a, b⟩, c⟩ => ⟨a, b, c⟩, fun ⟨a, b, c⟩ => ⟨⟨a, b⟩, c⟩⟩

theorem boundsLoop_nodup (rel : Nat → List Nat) :
    ∀ (S acc : List Nat), acc.Nodup → (boundsLoop rel S acc).Nodup
  | [], _, h => h
  | _ :: rest, _, h => by
    unfold boundsLoop
    exact boundsLoop_nodup rel rest _ (List.Nodup.sublist List.filter_sublist h)

theorem mem_subtractLoop (rel : Nat → List Nat) :
    ∀ (order cur : List Nat) (x : Nat),
      x ∈ subtractLoop rel order cur ↔ x ∈ cur ∧ ∀ y ∈ order, x ∉ rel y
  | [], cur, x => by simp [subtractLoop]
  | el :: rest, cur, x => by
    unfold subtractLoop
    rw [mem_subtractLoop rel rest _ x, mem_removeAll]
    simp only [List.mem_cons, forall_eq_or_imp]
    exact ⟨fun ⟨⟨a, b⟩, c⟩ => ⟨a, b, c⟩, fun ⟨a, b, c⟩ => ⟨⟨a, b⟩, c⟩⟩

theorem subtractLoop_nodup (rel : Nat → List Nat) :
    ∀ (order cur : List Nat), cur.Nodup → (subtractLoop rel order cur).Nodup
  | [], _, h => h
  | _ :: rest, _, h => by
    unfold subtractLoop
    exact subtractLoop_nodup rel rest _ (removeAll_nodup h)

theorem eq_singleton_of_nodup {l : List Nat} {k : Nat} (hnd : l.Nodup) (h : ∀ x, x ∈ l ↔ x = k) :
    l = [k] := by
  match l, hnd, h with
  | [], _, h => exact absurd ((h k).mpr rfl) (by simp)
  | [a], _, h =>
    have := (h a).mp List.mem_cons_self
    rw [this]
  | a :: b :: rest, hnd, h =>
    have ha := (h a).mp List.mem_cons_self
    have hb := (h b).mp (List.mem_cons_of_mem _ List.mem_cons_self)
    rw [List.nodup_cons] at hnd
    exact absurd (by rw [ha, hb]; exact List.mem_cons_self) hnd.1

/-- generic form: if `rel` is the strict up-set (resp. down-set) of an order whose reflexive closure is `le'`,
    and `k` is the least (w.r.t. `rel`) common bound, `extremum` returns `k` -/
theorem extremum_eq {rel : Nat → List Nat} {ord : List Nat → List Nat} (ho : IsOrder ord)
    (hrelnd : ∀ i, (rel i).Nodup) {S : List Nat} (hS : S ≠ []) {k : Nat}
    (hk : ∀ s ∈ S, k = s ∨ k ∈ rel s)
    (hleast : ∀ y, (∀ s ∈ S, y = s ∨ y ∈ rel s) → y = k ∨ y ∈ rel k)
    (hirr : ∀ y, (∀ s ∈ S, y = s ∨ y ∈ rel s) → k ∉ rel y) :
    extremum n rel ord S = .ok (some k) := by
  unfold extremum
  have hlen : ¬ S.length = 0 := fun h => hS (List.eq_nil_of_length_eq_zero h)
  simp only [if_neg hlen]
  match S, hS, hk, hleast, hirr with
  | s0 :: rest, _, hk, hleast, hirr =>
    simp only
    have hcand : ∀ x, x ∈ boundsLoop rel rest (withSelf (rel s0) s0) ↔ ∀ s ∈ s0 :: rest, x = s ∨ x ∈ rel s := by
      intro x
      rw [mem_boundsLoop, mem_withSelf]
      simp only [List.mem_cons, forall_eq_or_imp]
    have hnd : (subtractLoop rel (ord (boundsLoop rel rest (withSelf (rel s0) s0)))
        (boundsLoop rel rest (withSelf (rel s0) s0))).Nodup :=
      subtractLoop_nodup rel _ _ (boundsLoop_nodup rel rest _ (withSelf_nodup (i := s0) (hrelnd s0)))
    have hmem : ∀ x, x ∈ subtractLoop rel (ord (boundsLoop rel rest (withSelf (rel s0) s0)))
        (boundsLoop rel rest (withSelf (rel s0) s0)) ↔ x = k := by
      intro x
      rw [mem_subtractLoop]
      constructor
      · rintro ⟨hx, hno⟩
        rcases hleast x ((hcand x).mp hx) with e | hxk
        · exact e
        · exact absurd hxk (hno k ((ho _ _).mpr ((hcand k).mpr hk)))
      · rintro rfl
        refine ⟨(hcand x).mpr hk, ?_⟩
        intro y hy
        exact hirr y ((hcand y).mp ((ho _ _).mp hy))
    rw [eq_singleton_of_nodup hnd hmem]
    rfl

/-- `meet S` is the greatest lower bound, when there is one -/
theorem meet_eq_of_glb (po : IsPO leq n) {ord : List Nat → List Nat} (ho : IsOrder ord)
    {S : List Nat} (hS : S ≠ []) (hSn : ∀ s ∈ S, s < n) {k : Nat} (hkn : k < n)
    (hlb : ∀ s ∈ S, leq k s = true)
    (hglb : ∀ y, y < n → (∀ s ∈ S, leq y s = true) → leq y k = true) :
    meet leq n ord S = .ok (some k) := by
  unfold meet
  have key : ∀ y, (∀ s ∈ S, y = s ∨ y ∈ descendants leq n s) ↔ (y < n ∧ ∀ s ∈ S, leq y s = true) := by
    intro y
    constructor
    · intro h
      obtain ⟨s0, hs0⟩ := List.exists_mem_of_ne_nil S hS
      have hyn : y < n := by
        rcases h s0 hs0 with e | hm
        · rw [e]; exact hSn s0 hs0
        · exact (mem_descendants.mp hm).1
      refine ⟨hyn, fun s hs => ?_⟩
      rcases h s hs with e | hm
      · rw [e]; exact po.refl s (hSn s hs)
      · exact (mem_descendants.mp hm).2.1
    · rintro ⟨hyn, h⟩ s hs
      by_cases e : y = s
      · exact Or.inl e
      · exact Or.inr (mem_descendants.mpr ⟨hyn, h s hs, e⟩)
  apply extremum_eq ho (fun i => descendants_nodup i) hS
  · exact (key k).mpr ⟨hkn, hlb⟩
  · intro y hy
    obtain ⟨hyn, hyl⟩ := (key y).mp hy
    by_cases e : y = k
    · exact Or.inl e
    · exact Or.inr (mem_descendants.mpr ⟨hyn, hglb y hyn hyl, e⟩)
  · intro y hy hky
    obtain ⟨hyn, hyl⟩ := (key y).mp hy
    have := mem_descendants.mp hky
    exact this.2.2 (po.antisymm k y hkn hyn this.2.1 (hglb y hyn hyl))

/-- `join S` is the least upper bound, when there is one -/
theorem join_eq_of_lub (po : IsPO leq n) {ord : List Nat → List Nat} (ho : IsOrder ord)
    {S : List Nat} (hS : S ≠ []) (hSn : ∀ s ∈ S, s < n) {k : Nat} (hkn : k < n)
    (hub : ∀ s ∈ S, leq s k = true)
    (hlub : ∀ y, y < n → (∀ s ∈ S, leq s y = true) → leq k y = true) :
    join leq n ord S = .ok (some k) := by
  unfold join
  have key : ∀ y, (∀ s ∈ S, y = s ∨ y ∈ ancestors leq n s) ↔ (y < n ∧ ∀ s ∈ S, leq s y = true) := by
    intro y
    constructor
    · intro h
      obtain ⟨s0, hs0⟩ := List.exists_mem_of_ne_nil S hS
      have hyn : y < n := by
        rcases h s0 hs0 with e | hm
        · rw [e]; exact hSn s0 hs0
        · exact (mem_ancestors.mp hm).1
      refine ⟨hyn, fun s hs => ?_⟩
      rcases h s hs with e | hm
      · rw [e]; exact po.refl s (hSn s hs)
      · exact (mem_ancestors.mp hm).2.1
    · rintro ⟨hyn, h⟩ s hs
      by_cases e : y = s
      · exact Or.inl e
      · exact Or.inr (mem_ancestors.mpr ⟨hyn, h s hs, e⟩)
  apply extremum_eq ho (fun i => ancestors_nodup i) hS
  · exact (key k).mpr ⟨hkn, hub⟩
  · intro y hy
    obtain ⟨hyn, hyl⟩ := (key y).mp hy
    by_cases e : y = k
    · exact Or.inl e
    · exact Or.inr (mem_ancestors.mpr ⟨hyn, hlub y hyn hyl, e⟩)
  · intro y hy hky
    obtain ⟨hyn, hyl⟩ := (key y).mp hy
    have := mem_ancestors.mp hky
    exact this.2.2 (po.antisymm k y hkn hyn (hlub y hyn hyl) this.2.1)

/-! ### top / bottom -/

/-- the greatest element is the unique index without strict ancestors -/
theorem top_eq_of_greatest (po : IsPO leq n) {k : Nat} (hkn : k < n)
    (hg : ∀ j, j < n → leq j k = true) : top leq n = .ok k := by
  have hmem : ∀ x, x ∈ tops leq n ↔ x = k := by
    intro x
    simp only [tops, List.mem_filter, List.mem_range, beq_iff_eq, List.length_eq_zero_iff]
    constructor
    · rintro ⟨hx, hnil⟩
      apply Classical.byContradiction
      intro hne
      have : k ∈ ancestors leq n x := mem_ancestors.mpr ⟨hkn, hg x hx, fun e => hne e.symm⟩
      rw [hnil] at this
      cases this
    · rintro rfl
      refine ⟨hkn, ?_⟩
      apply List.eq_nil_iff_forall_not_mem.mpr
      intro j hj
      have := mem_ancestors.mp hj
      exact this.2.2 (po.antisymm j x this.1 hkn (hg j this.1) this.2.1)
  have hnd : (tops leq n).Nodup := List.Nodup.sublist List.filter_sublist List.nodup_range
  unfold top
  rw [eq_singleton_of_nodup hnd hmem]

/-- the least element is the unique index without strict descendants -/
theorem bottom_eq_of_least (po : IsPO leq n) {k : Nat} (hkn : k < n)
    (hl : ∀ j, j < n → leq k j = true) : bottom leq n = .ok k := by
  have hmem : ∀ x, x ∈ bottoms leq n ↔ x = k := by
    intro x
    simp only [bottoms, List.mem_filter, List.mem_range, beq_iff_eq, List.length_eq_zero_iff]
    constructor
    · rintro ⟨hx, hnil⟩
      apply Classical.byContradiction
      intro hne
      have : k ∈ descendants leq n x := mem_descendants.mpr ⟨hkn, hl x hx, fun e => hne e.symm⟩
      rw [hnil] at this
      cases this
    · rintro rfl
      refine ⟨hkn, ?_⟩
      apply List.eq_nil_iff_forall_not_mem.mpr
      intro j hj
      have := mem_descendants.mp hj
      exact this.2.2 (po.antisymm j x this.1 hkn this.2.1 (hl j this.1))
  have hnd : (bottoms leq n).Nodup := List.Nodup.sublist List.filter_sublist List.nodup_range
  unfold bottom
  rw [eq_singleton_of_nodup hnd hmem]

end Fca.PQ
